(* Lemmas_C03b.v — property C03 (no fault), part b: the supported domain, the invariant Safe,
   Safe (init_state), and preservation by the pure helpers (ring, hold, acknowledgements,
   flush, name matching, list printer). *)
From Coq Require Import List NArith ZArith Bool Arith Lia.
From CatV Require Import Bytes Defs Codec Fsm Lemmas_C03a.
Import ListNotations.
Local Open Scope nat_scope.

(* ------------------------------------------------------------------ *)
(* supported domain                                                     *)
(* ------------------------------------------------------------------ *)

Definition wf_var (m : list (list N)) (v : var) : Prop :=
  exists data, nth_error m (v_slot v) = Some data /\ v_size v <= length data.

(* a hex-buffer variable of size 0 prints nothing: harmless in first position (the text
   "NAME=" is already NUL-terminated), but after a comma the response would not be terminated *)
Definition hexbuf_nonempty (v : var) : Prop := v_type v = VBufHex -> 0 < v_size v.

Definition wf_desc (D : desc) (m : list (list N)) : Prop :=
  0 < d_cap D /\ 0 < ncmds D /\ ncmds D <= 4 * asz_of D /\ 6 <= asz_of D /\
  Forall (fun c => Forall (wf_var m) (c_vars c)) (pool D) /\
  Forall (fun c => Forall hexbuf_nonempty (tl (c_vars c))) (pool D).

Definition valid_trigger (D : desc) (ci : nat) (t : ctype) : Prop :=
  ci < length (pool D) /\ (t = T_READ \/ t = T_TEST).
Definition valid_op (D : desc) (o : op) : Prop :=
  match o with OTrigger ci t => valid_trigger D ci t | _ => True end.
Definition valid_icall (D : desc) (c : icall) : Prop :=
  match c with ITrigger ci t => valid_trigger D ci t | _ => True end.

(* ------------------------------------------------------------------ *)
(* symbolic evaluation of the record setters                            *)
(* ------------------------------------------------------------------ *)

Ltac sproj :=
  unfold g_bsz, asz, usz;
  cbn [k u cbuf ubuf mem dis_cmd dis_grp fault gL gS gR k_index k_partial k_length k_position
       k_write_size k_cmd k_var k_type k_char k_state k_cr k_hold k_hold_exit k_wbuf k_wstate
       k_wafter k_implicit u_state u_index u_position u_cmd u_var u_type u_wbuf u_wstate u_wafter
       u_ring u_tail u_head u_count set_k_index set_k_partial set_k_length set_k_position
       set_k_write_size set_k_cmd set_k_var set_k_type set_k_char set_k_state set_k_cr set_k_hold
       set_k_hold_exit set_k_wbuf set_k_wstate set_k_wafter set_k_implicit set_u_state set_u_index
       set_u_position set_u_cmd set_u_var set_u_type set_u_wbuf set_u_wstate set_u_wafter
       set_u_ring set_u_tail set_u_head set_u_count set_k set_u set_cbuf set_ubuf set_mem
       set_dis_cmd set_dis_grp set_fault set_gL set_gS set_gR setk_index setk_partial setk_length
       setk_position setk_write_size setk_cmd setk_var setk_type setk_char setk_state setk_cr
       setk_hold setk_hold_exit setk_wbuf setk_wstate setk_wafter setk_implicit setu_state
       setu_index setu_position setu_cmd setu_var setu_type setu_wbuf setu_wstate setu_wafter
       setu_ring setu_tail setu_head setu_count g_pos setg_pos g_buf setg_buf g_cmd g_var setg_var
       g_index setg_index g_bsz asz usz set_fault_flag fst snd].

Ltac sproj_in H :=
  unfold g_bsz, asz, usz in H;
  cbn [k u cbuf ubuf mem dis_cmd dis_grp fault gL gS gR k_index k_partial k_length k_position
       k_write_size k_cmd k_var k_type k_char k_state k_cr k_hold k_hold_exit k_wbuf k_wstate
       k_wafter k_implicit u_state u_index u_position u_cmd u_var u_type u_wbuf u_wstate u_wafter
       u_ring u_tail u_head u_count set_k_index set_k_partial set_k_length set_k_position
       set_k_write_size set_k_cmd set_k_var set_k_type set_k_char set_k_state set_k_cr set_k_hold
       set_k_hold_exit set_k_wbuf set_k_wstate set_k_wafter set_k_implicit set_u_state set_u_index
       set_u_position set_u_cmd set_u_var set_u_type set_u_wbuf set_u_wstate set_u_wafter
       set_u_ring set_u_tail set_u_head set_u_count set_k set_u set_cbuf set_ubuf set_mem
       set_dis_cmd set_dis_grp set_fault set_gL set_gS set_gR setk_index setk_partial setk_length
       setk_position setk_write_size setk_cmd setk_var setk_type setk_char setk_state setk_cr
       setk_hold setk_hold_exit setk_wbuf setk_wstate setk_wafter setk_implicit setu_state
       setu_index setu_position setu_cmd setu_var setu_type setu_wbuf setu_wstate setu_wafter
       setu_ring setu_tail setu_head setu_count g_pos setg_pos g_buf setg_buf g_cmd g_var setg_var
       g_index setg_index g_bsz asz usz set_fault_flag fst snd] in H.

Section Inv.
Variable D : desc.
Variable m : list (list N).
Hypothesis WF : wf_desc D m.

Local Notation npool := (length (pool D)).

(* ------------------------------------------------------------------ *)
(* the invariant                                                        *)
(* ------------------------------------------------------------------ *)

Definition cmd_wk (oc : option nat) : Prop :=
  match oc with Some ci => ci < npool | None => True end.
Definition cmd_ok (oc : option nat) : Prop :=
  match oc with Some ci => ci < npool | None => False end.
Definition var_ok (oc : option nat) (vi : nat) : Prop :=
  match oc with
  | Some ci => match nth_error (pool D) ci with
               | Some c => vi < length (c_vars c)
               | None => False
               end
  | None => False
  end.

Definition nl_max (crlf : bool) : nat := if crlf then 2 else 1.

(* a pending flush: the text being sent is terminated at or after the cursor, and the main text
   is terminated when it is still to be sent *)
Definition flush_ok (wb : wbuf) (ws : wstate) (p : nat) (b : list N) : Prop :=
  match wb with WB_NL crlf => p <= nl_max crlf | WB_MAIN => nul_from p b end /\
  match ws with WS_BEFORE => In 0%N b | _ => True end.

(* what the state entered after the flush needs *)
Definition Kafter (x : cfsm) : Prop :=
  match k_wafter x with
  | CS_AFTER_RESET | CS_AFTER_OK => True
  | CS_AFTER_FMT_READ | CS_AFTER_FMT_TEST => cmd_ok (k_cmd x)
  | CS_PRINT_CMD => k_index x < ncmds D
  | _ => False
  end.

Definition KS (x : cfsm) (b : list N) : Prop :=
  match k_state x with
  | CS_ERROR | CS_IDLE | CS_PARSE_PREFIX | CS_WAIT_READ_ACK | CS_COMMAND_NOT_FOUND
  | CS_HOLD | CS_AFTER_RESET | CS_AFTER_OK => True
  | CS_PARSE_COMMAND_CHAR | CS_SEARCH_COMMAND | CS_PRINT_CMD => k_index x < ncmds D
  | CS_UPDATE_COMMAND_STATE => k_index x < ncmds D /\ 1 <= k_length x
  | CS_COMMAND_FOUND | CS_WAIT_TEST_ACK | CS_WRITE_LOOP | CS_RUN_LOOP
  | CS_AFTER_FMT_READ | CS_AFTER_FMT_TEST => cmd_ok (k_cmd x)
  | CS_PARSE_COMMAND_ARGS => cmd_ok (k_cmd x) /\ nth_error b (k_length x) = Some 0%N
  | CS_PARSE_WRITE_ARGS => var_ok (k_cmd x) (k_var x) /\ nul_from (k_position x) b
  | CS_FORMAT_READ_ARGS =>
      var_ok (k_cmd x) (k_var x) /\ k_position x <= length b /\
      (k_var x = 0 -> nth_error b (k_position x) = Some 0%N)
  | CS_FORMAT_TEST_ARGS => var_ok (k_cmd x) (k_var x) /\ k_position x <= length b
  | CS_READ_LOOP | CS_TEST_LOOP => cmd_ok (k_cmd x) /\ In 0%N b
  | CS_FLUSH_WAIT | CS_FLUSH => flush_ok (k_wbuf x) (k_wstate x) (k_position x) b /\ Kafter x
  end.

Definition ring_ok (y : ufsm) : Prop :=
  length (u_ring y) = d_cap D /\ u_head y < d_cap D /\ u_tail y < d_cap D /\
  Forall (fun it => fst it < npool) (u_ring y).

Definition Uafter (y : ufsm) : Prop :=
  match u_wafter y with
  | US_AFTER_RESET | US_AFTER_OK => True
  | US_AFTER_FMT_READ | US_AFTER_FMT_TEST => cmd_ok (u_cmd y)
  | _ => False
  end.

Definition US (y : ufsm) (b : list N) : Prop :=
  match u_state y with
  | US_IDLE | US_AFTER_RESET | US_AFTER_OK => True
  | US_FORMAT_READ_ARGS =>
      var_ok (u_cmd y) (u_var y) /\ u_position y <= length b /\
      (u_var y = 0 -> nth_error b (u_position y) = Some 0%N)
  | US_FORMAT_TEST_ARGS => var_ok (u_cmd y) (u_var y) /\ u_position y <= length b
  | US_READ_LOOP | US_TEST_LOOP => cmd_ok (u_cmd y) /\ In 0%N b
  | US_FLUSH_WAIT | US_FLUSH => flush_ok (u_wbuf y) (u_wstate y) (u_position y) b /\ Uafter y
  | US_AFTER_FMT_READ | US_AFTER_FMT_TEST => cmd_ok (u_cmd y)
  end.

(* the part of the invariant that does not depend on the machines' states *)
Definition Base (s : state) : Prop :=
  fault s = false /\ length (cbuf s) = asz_of D /\ length (ubuf s) = usz_of D /\
  map (@length N) (mem s) = map (@length N) m /\
  cmd_wk (k_cmd (k s)) /\ cmd_wk (u_cmd (u s)) /\ ring_ok (u s).

Definition Safe (s : state) : Prop :=
  Base s /\ KS (k s) (cbuf s) /\ US (u s) (ubuf s).

(* what a function that overwrites the state of machine f needs from the rest *)
Definition Pre (f : fsm) (s : state) : Prop :=
  Base s /\ match f with ATCMD => US (u s) (ubuf s) | UNSOL => KS (k s) (cbuf s) end.

Lemma safe_pre : forall f s, Safe s -> Pre f s.
Proof. intros f s (B & HK & HU). destruct f; split; assumption. Qed.

(* domain facts *)
Lemma wf_cap : 0 < d_cap D. Proof. apply WF. Qed.
Lemma wf_ncmds : 0 < ncmds D. Proof. apply WF. Qed.
Lemma wf_lanes : ncmds D <= 4 * asz_of D. Proof. apply WF. Qed.
Lemma wf_asz : 6 <= asz_of D. Proof. apply WF. Qed.
Lemma ncmds_pool : ncmds D <= npool.
Proof. unfold pool, ncmds. rewrite app_length. lia. Qed.

Lemma cmd_ok_wk : forall oc, cmd_ok oc -> cmd_wk oc.
Proof. intros [ci|]; cbn; auto. Qed.
Lemma var_ok_cmd : forall oc vi, var_ok oc vi -> cmd_ok oc.
Proof.
  intros [ci|] vi; cbn; auto. destruct (nth_error (pool D) ci) eqn:E; [|tauto].
  intros _. apply nth_error_Some. congruence.
Qed.
Lemma cmd_ok_at : forall oc, cmd_ok oc -> exists ci c, oc = Some ci /\ nth_error (pool D) ci = Some c.
Proof.
  intros [ci|] H; cbn in H; [|tauto]. destruct (nth_error (pool D) ci) eqn:E; eauto.
  apply nth_error_None in E. lia.
Qed.

(* ------------------------------------------------------------------ *)
(* tactics                                                              *)
(* ------------------------------------------------------------------ *)

Ltac base_open H :=
  let Hf := fresh "Hf" in let Hcb := fresh "Hcb" in let Hub := fresh "Hub" in
  let Hm := fresh "Hm" in let Hkc := fresh "Hkc" in let Huc := fresh "Huc" in
  let Hr := fresh "Hr" in
  destruct H as (Hf & Hcb & Hub & Hm & Hkc & Huc & Hr).

Ltac safe_open H :=
  let HB := fresh "HB" in let HK := fresh "HK" in let HU := fresh "HU" in
  destruct H as (HB & HK & HU); base_open HB.

Ltac pre_open H :=
  let HB := fresh "HB" in let HO := fresh "HO" in
  destruct H as (HB & HO); base_open HB; sproj_in HO.

(* Base (setters s): seven parts, those that are syntactically unchanged are closed *)
Ltac base_split :=
  unfold Base; sproj;
  split; [try assumption | split; [try assumption | split; [try assumption |
  split; [try assumption | split; [try assumption | split; [try assumption | try assumption]]]]]].

Ltac safe_split :=
  unfold Safe; sproj; split; [base_split | split; [try assumption | try assumption]].

(* ------------------------------------------------------------------ *)
(* Safe (init_state)                                                    *)
(* ------------------------------------------------------------------ *)

Lemma safe_init : Safe (init_state D m).
Proof.
  unfold Safe, Base, init_state, init_cfsm, init_ufsm, KS, US, ring_ok, cmd_wk. sproj.
  rewrite !repeat_length. repeat split; auto using wf_cap.
  pose proof wf_ncmds. pose proof ncmds_pool.
  apply Forall_forall. intros it Hin. apply repeat_spec in Hin. subst it. cbn [fst]. lia.
Qed.

Lemma safe_fault : forall s, Safe s -> fault s = false.
Proof. intros s H. apply H. Qed.

(* ------------------------------------------------------------------ *)
(* acknowledgements, reset, hold                                        *)
(* ------------------------------------------------------------------ *)

Lemma txt_ok_nul : forall n, 6 <= n -> In 0%N (strncpy_buf n txt_OK).
Proof. intros n H. apply strncpy_nul. change (length txt_OK) with 2. lia. Qed.
Lemma txt_error_nul : forall n, 6 <= n -> In 0%N (strncpy_buf n txt_ERROR).
Proof. intros n H. apply strncpy_nul. change (length txt_ERROR) with 5. lia. Qed.

Lemma nl_max_0 : forall b, 0 <= nl_max b. Proof. intros; lia. Qed.

Lemma ack_error_safe : forall s, Pre ATCMD s -> Safe (ack_error s).
Proof.
  intros s H. pre_open H. unfold ack_error, start_flush_c. safe_split.
  - rewrite strncpy_len. exact Hcb.
  - unfold KS, flush_ok, Kafter. sproj.
    pose proof wf_asz. repeat split; auto using nl_max_0.
    apply txt_error_nul. lia.
Qed.

Lemma ack_ok_safe : forall s, Pre ATCMD s -> Safe (ack_ok s).
Proof.
  intros s H. pre_open H. unfold ack_ok, start_flush_c. safe_split.
  - rewrite strncpy_len. exact Hcb.
  - unfold KS, flush_ok, Kafter. sproj.
    pose proof wf_asz. repeat split; auto using nl_max_0.
    apply txt_ok_nul. lia.
Qed.

Lemma reset_state_safe : forall s, Pre ATCMD s -> Safe (reset_state s).
Proof.
  intros s H. pre_open H. unfold reset_state.
  destruct (k_hold (k s)); safe_split; unfold KS, cmd_wk; sproj; auto.
Qed.

Lemma unsolicited_reset_state_safe : forall s, Pre UNSOL s -> Safe (unsolicited_reset_state s).
Proof.
  intros s H. pre_open H. unfold unsolicited_reset_state. safe_split; unfold US, cmd_wk; sproj; auto.
Qed.

Lemma enable_hold_state_safe : forall s, Safe s -> Safe (enable_hold_state s).
Proof.
  intros s H. safe_open H. unfold enable_hold_state. safe_split. unfold KS; sproj; auto.
Qed.

Lemma hold_exit_safe : forall s z, Safe s -> Safe (fst (hold_exit s z)).
Proof.
  intros s z H. unfold hold_exit. destruct (negb (k_hold (k s))); cbn [fst]; [exact H|].
  safe_open H. safe_split.
Qed.

Lemma hold_exit_pre : forall f s z, Pre f s -> Pre f (fst (hold_exit s z)).
Proof.
  intros f s z H. unfold hold_exit. destruct (negb (k_hold (k s))); cbn [fst]; [exact H|].
  pre_open H. split; [base_split | destruct f; sproj; assumption].
Qed.

Lemma process_hold_state_safe : forall s, Safe s -> Safe (process_hold_state s).
Proof.
  intros s H. unfold process_hold_state.
  destruct (k_hold_exit (k s) =? 0)%Z; [exact H|].
  assert (H1 : Pre ATCMD (setk_hold false s)).
  { apply (safe_pre ATCMD) in H. pre_open H. split; [base_split | sproj; assumption]. }
  destruct (k_hold_exit (k s) <? 0)%Z; [apply ack_error_safe | apply ack_ok_safe]; exact H1.
Qed.


(* ------------------------------------------------------------------ *)
(* the event queue                                                      *)
(* ------------------------------------------------------------------ *)

Lemma ring_next_lt : forall i, (if d_cap D <=? S i then 0 else S i) < d_cap D.
Proof. intros i. pose proof wf_cap. destruct (Nat.leb_spec (d_cap D) (S i)); lia. Qed.

(* pushing changes the ring, tail and count only *)
Lemma push_eff : forall s ci t, ring_ok (u s) -> ci < npool ->
  exists r tl cnt, fst (push_unsolicited_cmd D s ci t) = setu_count cnt (setu_tail tl (setu_ring r s)) /\
    ring_ok (set_u_count cnt (set_u_tail tl (set_u_ring r (u s)))).
Proof.
  intros s ci t (R1 & R2 & R3 & R4) Hci. unfold push_unsolicited_cmd.
  destruct (ring_full D s); cbn [fst].
  - exists (u_ring (u s)), (u_tail (u s)), (u_count (u s)). split.
    + destruct s as [kk [? ? ? ? ? ? ? ? ? ? ? ? ?] ? ? ? ? ? ? ? ? ?]. reflexivity.
    + unfold ring_ok. sproj. auto.
  - destruct (Nat.ltb_spec (u_tail (u s)) (length (u_ring (u s)))) as [L|L]; [|lia].
    eexists _, _, _. split; [reflexivity|].
    unfold ring_ok, cap. sproj. rewrite upd_len. repeat split; auto using ring_next_lt.
    apply Forall_upd; auto.
Qed.

Lemma push_safe : forall s ci t, Safe s -> ci < npool -> Safe (fst (push_unsolicited_cmd D s ci t)).
Proof.
  intros s ci t H Hci. safe_open H.
  destruct (push_eff s ci t Hr Hci) as (r & tl & cnt & E & R). rewrite E. safe_split.
Qed.

Lemma push_pre : forall f s ci t, Pre f s -> ci < npool -> Pre f (fst (push_unsolicited_cmd D s ci t)).
Proof.
  intros f s ci t H Hci. destruct H as (HB & HO). base_open HB.
  destruct (push_eff s ci t Hr Hci) as (r & tl & cnt & E & R). rewrite E.
  split; [base_split | destruct f; sproj; assumption].
Qed.

(* popping changes head and count only; the item names a command of the pool *)
Lemma pop_eff : forall s, ring_ok (u s) ->
  (pop_unsolicited_cmd D s = (s, None)) \/
  exists hd cnt it, pop_unsolicited_cmd D s = (setu_count cnt (setu_head hd s), Some it) /\
    fst it < npool /\ ring_ok (set_u_count cnt (set_u_head hd (u s))).
Proof.
  intros s (R1 & R2 & R3 & R4). unfold pop_unsolicited_cmd.
  destruct (ring_empty s); [left; reflexivity|]. right.
  destruct (nth_error (u_ring (u s)) (u_head (u s))) as [it|] eqn:E.
  - eexists _, _, it. split; [reflexivity|]. split.
    + eapply Forall_nth_error in R4; eauto.
    + unfold ring_ok, cap. sproj. repeat split; auto using ring_next_lt.
  - apply nth_error_None in E. lia.
Qed.

(* ------------------------------------------------------------------ *)
(* stores by the application                                            *)
(* ------------------------------------------------------------------ *)

Lemma apply_poke_mem : forall s p,
  map (@length N) (mem (apply_poke s p)) = map (@length N) (mem s).
Proof.
  intros s p. unfold apply_poke.
  destruct (nth_error (mem s) (fst p)) as [data|] eqn:E; [|reflexivity].
  destruct (store_prefix data (snd p)) as [d|] eqn:E2; [|reflexivity].
  sproj. eapply map_length_upd; eauto. eapply store_prefix_len; eauto.
Qed.

Lemma apply_poke_eff : forall s p, exists mm, apply_poke s p = set_mem mm s /\
  map (@length N) mm = map (@length N) (mem s).
Proof.
  intros s p. exists (mem (apply_poke s p)). split; [|apply apply_poke_mem].
  unfold apply_poke.
  destruct (nth_error (mem s) (fst p)) as [data|]; [|destruct s; reflexivity].
  destruct (store_prefix data (snd p)) as [d|]; [reflexivity | destruct s; reflexivity].
Qed.

Lemma apply_poke_safe : forall s p, Safe s -> Safe (apply_poke s p).
Proof.
  intros s p H. destruct (apply_poke_eff s p) as (mm & E & L). rewrite E.
  safe_open H. safe_split. congruence.
Qed.

Lemma apply_poke_pre : forall f s p, Pre f s -> Pre f (apply_poke s p).
Proof.
  intros f s p H. destruct (apply_poke_eff s p) as (mm & E & L). rewrite E.
  pre_open H. split; [base_split; congruence | destruct f; sproj; assumption].
Qed.


(* ------------------------------------------------------------------ *)
(* printing through the per-machine cursor: the effect is a new buffer  *)
(* of the same length and a new position inside it                      *)
(* ------------------------------------------------------------------ *)

Lemma get_cur_ok : forall f s, g_pos f s <= g_bsz f s -> cur_ok (g_bsz f s) (get_cur f s).
Proof. intros f s H. unfold get_cur, cur_ok. cbn [cu_fault cu_buf cu_pos]. auto. Qed.

Lemma put_cur_nf : forall f c s, cu_fault c = false ->
  put_cur f c s = setg_pos f (cu_pos c) (setg_buf f (cu_buf c) s).
Proof. intros f c s H. unfold put_cur. rewrite H. reflexivity. Qed.

Lemma print_string_eff : forall f s t, g_pos f s <= g_bsz f s ->
  exists b p ok, print_string f s t = (setg_pos f p (setg_buf f b s), ok) /\
    length b = g_bsz f s /\ p <= length b /\ (ok = true -> nth_error b p = Some 0%N).
Proof.
  intros f s t H. unfold print_string.
  destruct (print_nstring_ok _ _ t (get_cur_ok f s H)) as [(A1 & A2 & A3) B].
  destruct (print_nstring (get_cur f s) t) as [c ok]. cbn [fst snd] in *.
  exists (cu_buf c), (cu_pos c), ok. rewrite put_cur_nf by exact A1.
  repeat split; auto. lia.
Qed.

Lemma print_strings_eff : forall f s ts, g_pos f s <= g_bsz f s ->
  exists b p ok, print_strings f s ts = (setg_pos f p (setg_buf f b s), ok) /\
    length b = g_bsz f s /\ p <= length b /\
    (ok = true -> nth_error (g_buf f s) (g_pos f s) = Some 0%N \/ ts <> [] -> nth_error b p = Some 0%N).
Proof.
  intros f s ts H. unfold print_strings.
  destruct (print_pieces_ok ts _ _ (get_cur_ok f s H)) as [(A1 & A2 & A3) B].
  destruct (print_pieces (get_cur f s) ts) as [c ok]. cbn [fst snd] in *.
  exists (cu_buf c), (cu_pos c), ok. rewrite put_cur_nf by exact A1.
  repeat split; auto. lia.
Qed.

Ltac do_print :=
  match goal with
  | |- context [print_string ?f ?s ?t] =>
    let b := fresh "b" in let p := fresh "p" in let ok := fresh "ok" in let E := fresh "E" in
    let L := fresh "L" in let P := fresh "P" in let Z := fresh "Z" in
    destruct (print_string_eff f s t) as (b & p & ok & E & L & P & Z);
    [sproj; try lia | rewrite E; clear E; sproj_in L; destruct ok; cbn [negb]; sproj]
  | |- context [print_strings ?f ?s ?t] =>
    let b := fresh "b" in let p := fresh "p" in let ok := fresh "ok" in let E := fresh "E" in
    let L := fresh "L" in let P := fresh "P" in let Z := fresh "Z" in
    destruct (print_strings_eff f s t) as (b & p & ok & E & L & P & Z);
    [sproj; try lia | rewrite E; clear E; sproj_in L; sproj_in Z; destruct ok; cbn [negb]; sproj]
  end.

Ltac pre_tac := split; [base_split; try congruence; try lia | sproj; try assumption].

Lemma end_with_error_safe : forall f s, Pre f s -> Safe (end_with_error f s).
Proof. intros [|] s H; [apply ack_error_safe | apply unsolicited_reset_state_safe]; exact H. Qed.
Lemma end_with_ok_safe : forall f s, Pre f s -> Safe (end_with_ok f s).
Proof. intros [|] s H; [apply ack_ok_safe | apply unsolicited_reset_state_safe]; exact H. Qed.

Lemma vap_nonempty : forall c a, vars_access_possible c a = true -> 0 < length (c_vars c).
Proof.
  intros c a H. unfold vars_access_possible in H. destruct (c_vars c); [discriminate | cbn; lia].
Qed.

(* cat.c:965 *)
Lemma spfra_safe : forall f s, Pre f s -> cmd_ok (g_cmd f s) ->
  Safe (start_processing_format_read_args D f s).
Proof.
  intros f s H Hc. unfold start_processing_format_read_args, cmd_of, cmd_at.
  destruct f; sproj; sproj_in Hc; pre_open H;
    destruct (cmd_ok_at _ Hc) as (ci & c & E1 & E2); rewrite E1, E2.
  - do_print; [|apply ack_error_safe; pre_tac].
    do_print; [|apply ack_error_safe; pre_tac].
    destruct (vars_access_possible c RO) eqn:V.
    + safe_split; try congruence. unfold KS, var_ok. sproj. rewrite E1, E2.
      apply vap_nonempty in V. auto.
    + destruct (c_hread c); cbn [negb]; [|apply ack_error_safe; pre_tac].
      unfold set_loop_state. safe_split; try congruence. unfold KS; sproj.
      split; [exact Hc|]. eapply nth_In0; eauto.
  - do_print; [|apply unsolicited_reset_state_safe; pre_tac].
    do_print; [|apply unsolicited_reset_state_safe; pre_tac].
    destruct (vars_access_possible c RO) eqn:V.
    + safe_split; try congruence. unfold US, var_ok. sproj. rewrite E1, E2.
      apply vap_nonempty in V. auto.
    + destruct (c_hread c); cbn [negb]; [|apply unsolicited_reset_state_safe; pre_tac].
      unfold set_loop_state. safe_split; try congruence. unfold US; sproj.
      split; [exact Hc|]. eapply nth_In0; eauto.
Qed.


(* cat.c:658 *)
Lemma start_flush_after_ok_safe : forall f s, Pre f s -> In 0%N (g_buf f s) ->
  Safe (start_flush_after_ok f s).
Proof.
  intros f s H Hn. unfold start_flush_after_ok, start_flush_c, start_flush_u.
  destruct f; pre_open H; sproj_in Hn; safe_split;
    [unfold KS, flush_ok, Kafter | unfold US, flush_ok, Uafter]; sproj; auto using nl_max_0.
Qed.

Lemma start_flush_after_safe : forall f ac au s, Pre f s -> In 0%N (g_buf f s) ->
  (ac = CS_AFTER_OK /\ au = US_AFTER_OK) \/
  (cmd_ok (g_cmd f s) /\ ((ac = CS_AFTER_FMT_READ /\ au = US_AFTER_FMT_READ) \/
                          (ac = CS_AFTER_FMT_TEST /\ au = US_AFTER_FMT_TEST))) ->
  Safe (start_flush_after f ac au s).
Proof.
  intros f ac au s H Hn Ha. unfold start_flush_after, start_flush_c, start_flush_u.
  destruct f; pre_open H; sproj_in Hn; sproj_in Ha; safe_split;
    [unfold KS, flush_ok, Kafter | unfold US, flush_ok, Uafter]; sproj;
    (split; [auto using nl_max_0|]);
    destruct Ha as [[-> ->] | [Hc [[-> ->] | [-> ->]]]]; auto.
Qed.

Lemma print_response_test_safe : forall f s, Pre f s -> cmd_ok (g_cmd f s) ->
  g_pos f s <= g_bsz f s -> nth_error (g_buf f s) (g_pos f s) = Some 0%N ->
  if snd (print_response_test D f s) then Safe (fst (print_response_test D f s))
  else Pre f (fst (print_response_test D f s)).
Proof.
  intros f s H Hc Hp Hn. unfold print_response_test, cmd_of, cmd_at.
  destruct (cmd_ok_at _ Hc) as (ci & c & E1 & E2). rewrite E1, E2.
  destruct (c_descr c) as [d|].
  - destruct f; sproj_in Hc; sproj_in Hp; sproj_in Hn; sproj_in E1; pre_open H.
    + do_print; [|pre_tac].
      assert (Zn : nth_error b p = Some 0%N) by (apply Z; [reflexivity | right; discriminate]).
      destruct (c_htest c); sproj.
      * unfold set_loop_state. safe_split; try congruence. unfold KS; sproj.
        split; [exact Hc | eapply nth_In0; eauto].
      * apply start_flush_after_ok_safe; [pre_tac | sproj; eapply nth_In0; eauto].
    + do_print; [|pre_tac].
      assert (Zn : nth_error b p = Some 0%N) by (apply Z; [reflexivity | right; discriminate]).
      destruct (c_htest c); sproj.
      * unfold set_loop_state. safe_split; try congruence. unfold US; sproj.
        split; [exact Hc | eapply nth_In0; eauto].
      * apply start_flush_after_ok_safe; [pre_tac | sproj; eapply nth_In0; eauto].
  - cbn [negb]. destruct (c_htest c); cbn [fst snd].
    + unfold set_loop_state.
      destruct f; sproj_in Hc; sproj_in Hp; sproj_in Hn; pre_open H; safe_split;
        [unfold KS | unfold US]; sproj; (split; [exact Hc | eapply nth_In0; eauto]).
    + apply start_flush_after_ok_safe; [exact H | eapply nth_In0; eauto].
Qed.

(* cat.c:869 *)
Lemma spfta_safe : forall f s, Pre f s -> cmd_ok (g_cmd f s) ->
  Safe (start_processing_format_test_args D f s).
Proof.
  intros f s H Hc. unfold start_processing_format_test_args.
  assert (Hc0 : cmd_ok (g_cmd f (setg_pos f 0 s))) by (destruct f; exact Hc).
  unfold cmd_of at 1, cmd_at.
  destruct (cmd_ok_at _ Hc0) as (ci & c & E1 & E2). rewrite E1, E2.
  destruct f; sproj_in E1; sproj_in Hc; pre_open H.
  - do_print; [|apply ack_error_safe; pre_tac].
    do_print; [|apply ack_error_safe; pre_tac].
    destruct (c_vars c) as [|v0 vr] eqn:EV.
    + match goal with |- context [print_response_test D ATCMD ?s2] =>
        pose proof (print_response_test_safe ATCMD s2) as R;
        destruct (print_response_test D ATCMD s2) as [s3 ok3] end.
      cbn [fst snd] in R. sproj_in R.
      destruct ok3; [|apply ack_error_safe]; apply R; auto; pre_tac.
    + safe_split; try congruence. unfold KS, var_ok; sproj. rewrite E1, E2, EV. cbn [length].
      split; [lia | assumption].
  - do_print; [|apply unsolicited_reset_state_safe; pre_tac].
    do_print; [|apply unsolicited_reset_state_safe; pre_tac].
    destruct (c_vars c) as [|v0 vr] eqn:EV.
    + match goal with |- context [print_response_test D UNSOL ?s2] =>
        pose proof (print_response_test_safe UNSOL s2) as R;
        destruct (print_response_test D UNSOL s2) as [s3 ok3] end.
      cbn [fst snd] in R. sproj_in R.
      destruct ok3; [|apply unsolicited_reset_state_safe]; apply R; auto; pre_tac.
    + safe_split; try congruence. unfold US, var_ok; sproj. rewrite E1, E2, EV. cbn [length].
      split; [lia | assumption].
Qed.


(* ------------------------------------------------------------------ *)
(* the formatting loops                                                 *)
(* ------------------------------------------------------------------ *)

Definition fmt_state (f : fsm) (s : state) (rd : bool) : Prop :=
  match f with
  | ATCMD => k_state (k s) = (if rd then CS_FORMAT_READ_ARGS else CS_FORMAT_TEST_ARGS)
  | UNSOL => u_state (u s) = (if rd then US_FORMAT_READ_ARGS else US_FORMAT_TEST_ARGS)
  end.

(* cat.c:1746 *)
Lemma next_format_var_safe : forall f s rd, Pre f s -> fmt_state f s rd ->
  cmd_ok (g_cmd f s) -> g_pos f s <= g_bsz f s ->
  (snd (next_format_var D f s) = true -> Safe (fst (next_format_var D f s))) /\
  (snd (next_format_var D f s) = false ->
   fst (next_format_var D f s) = setg_index f (S (g_index f s)) s).
Proof.
  intros f s rd H Hst Hc Hp. unfold next_format_var, cmd_of, cmd_at.
  destruct (cmd_ok_at _ Hc) as (ci & c & E1 & E2). rewrite E1, E2.
  destruct (Nat.ltb_spec (S (g_index f s)) (length (c_vars c))) as [Lv|Lv];
    [|cbn [fst snd]; split; [discriminate | reflexivity]].
  destruct f; sproj; sproj_in Hc; sproj_in Hp; sproj_in E1; sproj_in Lv; cbn [fmt_state] in Hst;
    pre_open H.
  - destruct (Nat.leb_spec (length (cbuf s)) (k_position (k s))) as [Lp|Lp]; cbn [fst snd];
      (split; [intros _ | discriminate]).
    + apply ack_error_safe. pre_tac.
    + safe_split; [rewrite upd_len; assumption|]. unfold KS, var_ok; sproj. rewrite Hst, E1, E2, upd_len.
      destruct rd; repeat split; lia.
  - destruct (Nat.leb_spec (length (ubuf s)) (u_position (u s))) as [Lp|Lp]; cbn [fst snd];
      (split; [intros _ | discriminate]).
    + apply unsolicited_reset_state_safe. pre_tac.
    + safe_split; [rewrite upd_len; assumption|]. unfold US, var_ok; sproj. rewrite Hst, E1, E2, upd_len.
      destruct rd; repeat split; lia.
Qed.

Lemma var_ok_at : forall oc vi, var_ok oc vi ->
  exists ci c v, oc = Some ci /\ nth_error (pool D) ci = Some c /\ nth_error (c_vars c) vi = Some v.
Proof.
  intros [ci|] vi H; cbn in H; [|tauto]. destruct (nth_error (pool D) ci) as [c|] eqn:E; [|tauto].
  destruct (nth_error (c_vars c) vi) as [v|] eqn:E2; [eauto 6|].
  apply nth_error_None in E2. lia.
Qed.

(* the machine-f part of Safe in a formatting state *)
Lemma fmt_state_inv : forall f s rd, Safe s -> fmt_state f s rd ->
  var_ok (g_cmd f s) (g_var f s) /\ g_pos f s <= g_bsz f s /\
  (rd = true -> g_var f s = 0 -> nth_error (g_buf f s) (g_pos f s) = Some 0%N).
Proof.
  intros f s rd (HB & HK & HU) Hst. destruct f; cbn [fmt_state] in Hst; sproj.
  - unfold KS in HK. rewrite Hst in HK. destruct rd; [|split; [apply HK | split; [apply HK | discriminate]]].
    destruct HK as (A & B & C). auto.
  - unfold US in HU. rewrite Hst in HU. destruct rd; [|split; [apply HU | split; [apply HU | discriminate]]].
    destruct HU as (A & B & C). auto.
Qed.

(* cat.c:1857 *)
Lemma format_test_args_safe : forall f s, Safe s -> fmt_state f s false ->
  Safe (format_test_args D f s).
Proof.
  intros f s H Hst. destruct (fmt_state_inv f s false H Hst) as (Hv & Hp & _).
  pose proof (var_ok_cmd _ _ Hv) as Hc.
  destruct (var_ok_at _ _ Hv) as (ci & c & v & E1 & E2 & E3).
  unfold format_test_args, cmd_of, cmd_at. rewrite E1, E2, E3.
  destruct (fmt_info_ok v _ _ (get_cur_ok f s Hp)) as [(A1 & A2 & A3) B].
  destruct (fmt_info v (get_cur f s)) as [c1 ok]. cbn [fst snd] in *.
  rewrite put_cur_nf by exact A1. apply (safe_pre f) in H.
  assert (HP1 : Pre f (setg_pos f (cu_pos c1) (setg_buf f (cu_buf c1) s))).
  { destruct f; sproj_in A2; pre_open H; pre_tac. }
  destruct ok; cbn [negb]; [|apply end_with_error_safe; exact HP1].
  specialize (B eq_refl). unfold cur_nul in B.
  set (s1 := setg_pos f (cu_pos c1) (setg_buf f (cu_buf c1) s)) in *.
  assert (Hst1 : fmt_state f s1 false) by (destruct f; exact Hst).
  assert (Hc1 : cmd_ok (g_cmd f s1)) by (destruct f; exact Hc).
  assert (Hp1 : g_pos f s1 <= g_bsz f s1) by (destruct f; subst s1; sproj; lia).
  destruct (next_format_var_safe f s1 false HP1 Hst1 Hc1 Hp1) as [N1 N2].
  destruct (next_format_var D f s1) as [s2 handled]. cbn [fst snd] in *.
  destruct handled; [apply N1; reflexivity|]. rewrite (N2 eq_refl).
  set (s2' := setg_index f (S (g_index f s1)) s1).
  assert (R : if snd (print_response_test D f s2') then Safe (fst (print_response_test D f s2'))
              else Pre f (fst (print_response_test D f s2'))).
  { apply print_response_test_safe.
    - destruct f; subst s2' s1; sproj_in A2; pre_open H; pre_tac.
    - destruct f; exact Hc.
    - destruct f; subst s2' s1; sproj; lia.
    - destruct f; subst s2' s1; sproj; exact B. }
  destruct (print_response_test D f s2') as [s3 ok3]. cbn [fst snd] in R.
  destruct ok3; [exact R | apply end_with_error_safe; exact R].
Qed.

(* a read/test handler replacing the text of its buffer *)
Lemma apply_edit_eff : forall f e s,
  apply_edit f e s = s \/
  exists b p, apply_edit f e s = setg_pos f p (setg_buf f b s) /\
              length b = g_bsz f s /\ In 0%N b.
Proof.
  intros f e s. unfold apply_edit. destruct e as [t|]; [|left; reflexivity].
  destruct (Nat.ltb_spec (length t) (g_bsz f s)) as [L|L]; [|left; reflexivity]. right.
  destruct (csl_props (t ++ [0%N]) (get_cur f s) 0) as (A & B & C).
  { rewrite app_length. cbn [length get_cur cu_buf]. unfold g_bsz in L. lia. }
  pose proof (csl_last t (get_cur f s) 0 0%N) as Hl. cbn [plus] in Hl.
  eexists _, _. split; [apply put_cur_nf; cbn [cur_set_pos cu_fault]; rewrite C; reflexivity|].
  cbn [cur_set_pos cu_buf cu_pos]. split; [exact A|].
  eapply nth_In0. apply Hl. exact L.
Qed.


Lemma wf_var_at : forall ci c vi v, nth_error (pool D) ci = Some c -> nth_error (c_vars c) vi = Some v ->
  wf_var m v /\ (vi <> 0 -> prints_something v).
Proof.
  intros ci c vi v E1 E2. destruct WF as (_ & _ & _ & _ & W1 & W2). split.
  - eapply Forall_nth_error in W1; [|exact E1]. cbv beta in W1. eapply Forall_nth_error in W1; eauto.
  - intros Hv. eapply Forall_nth_error in W2; [|exact E1]. cbv beta in W2.
    destruct vi as [|j]; [congruence|]. destruct (c_vars c) as [|v0 vr]; [discriminate|].
    cbn [tl nth_error] in *. eapply Forall_nth_error in W2; eauto.
Qed.

Lemma mem_slot : forall s v, map (@length N) (mem s) = map (@length N) m -> wf_var m v ->
  exists data, nth_error (mem s) (v_slot v) = Some data /\ v_size v <= length data.
Proof.
  intros s v Hm (d0 & E & L). destruct (nth_error_map_length _ _ _ _ Hm E) as (d & E' & L').
  exists d. split; [exact E' | lia].
Qed.

Lemma set_loop_state_safe : forall f rd s, Pre f s -> cmd_ok (g_cmd f s) -> In 0%N (g_buf f s) ->
  Safe (set_loop_state f rd s).
Proof.
  intros f rd s H Hc Hn. unfold set_loop_state.
  destruct f; sproj_in Hc; sproj_in Hn; pre_open H; safe_split; [unfold KS | unfold US]; sproj;
    destruct rd; auto.
Qed.

(* the part of format_read_args that runs after the variable's read callback (cat.c:1783) *)
Lemma fra_body_safe : forall f s ci c v, Safe s -> fmt_state f s true ->
  g_cmd f s = Some ci -> nth_error (pool D) ci = Some c ->
  nth_error (c_vars c) (g_var f s) = Some v ->
  Safe (match nth_error (mem s) (v_slot v) with
        | None => set_fault_flag s
        | Some data =>
          let (c1, ok) := fmt_var v data (get_cur f s) in
          let s1 := put_cur f c1 s in
          if negb ok then end_with_error f s1
          else
            let (s2, handled) := next_format_var D f s1 in
            if handled then s2
            else if c_hread c then set_loop_state f true s2
            else start_flush_after_ok f s2
        end).
Proof.
  intros f s ci c v H Hst E1 E2 E3.
  destruct (fmt_state_inv f s true H Hst) as (Hv & Hp & Hz).
  pose proof (var_ok_cmd _ _ Hv) as Hc.
  destruct (wf_var_at _ _ _ _ E2 E3) as [Wv Wp].
  assert (Hm : map (@length N) (mem s) = map (@length N) m) by apply H.
  destruct (mem_slot s v Hm Wv) as (data & Ed & Ld). rewrite Ed.
  destruct (fmt_var_ok v data _ _ (get_cur_ok f s Hp) Ld) as [(A1 & A2 & A3) B].
  destruct (fmt_var v data (get_cur f s)) as [c1 ok]. cbn [fst snd] in *. cbv zeta.
  rewrite put_cur_nf by exact A1. apply (safe_pre f) in H.
  assert (HP1 : Pre f (setg_pos f (cu_pos c1) (setg_buf f (cu_buf c1) s))).
  { destruct f; sproj_in A2; pre_open H; pre_tac. }
  destruct ok; cbn [negb]; [|apply end_with_error_safe; exact HP1].
  assert (B' : cur_nul c1).
  { apply B; [reflexivity|]. destruct (Nat.eq_dec (g_var f s) 0) as [Z|Z].
    - left. unfold cur_nul, get_cur. cbn [cu_buf cu_pos]. apply Hz; auto.
    - right. apply Wp. exact Z. }
  clear B. unfold cur_nul in B'.
  set (s1 := setg_pos f (cu_pos c1) (setg_buf f (cu_buf c1) s)) in *.
  assert (Hst1 : fmt_state f s1 true) by (destruct f; exact Hst).
  assert (Hc1 : cmd_ok (g_cmd f s1)) by (destruct f; exact Hc).
  assert (Hp1 : g_pos f s1 <= g_bsz f s1) by (destruct f; subst s1; sproj; lia).
  destruct (next_format_var_safe f s1 true HP1 Hst1 Hc1 Hp1) as [N1 N2].
  destruct (next_format_var D f s1) as [s2 handled]. cbn [fst snd] in *.
  destruct handled; [apply N1; reflexivity|]. rewrite (N2 eq_refl).
  set (s2' := setg_index f (S (g_index f s1)) s1).
  assert (HP2 : Pre f s2') by (destruct f; subst s2' s1; sproj_in A2; pre_open H; pre_tac).
  assert (Hn2 : In 0%N (g_buf f s2')).
  { apply (nth_In0 _ (cu_pos c1)). destruct f; subst s2' s1; sproj; exact B'. }
  destruct (c_hread c).
  - apply set_loop_state_safe; auto. destruct f; exact Hc.
  - apply start_flush_after_ok_safe; auto.
Qed.


(* ------------------------------------------------------------------ *)
(* name matching                                                        *)
(* ------------------------------------------------------------------ *)

Lemma cmd_by_index_nth : forall gs i, cmd_by_index gs i = nth_error (concat gs) i.
Proof.
  induction gs as [|g gs IH]; intros i; cbn [cmd_by_index concat].
  - destruct i; reflexivity.
  - destruct (Nat.ltb_spec i (length g)) as [L|L].
    + rewrite nth_error_app1 by exact L. reflexivity.
    + rewrite nth_error_app2 by exact L. apply IH.
Qed.

Lemma cmd_by_index_some : forall i, i < ncmds D -> exists c, cmd_by_index (d_groups D) i = Some c.
Proof.
  intros i H. rewrite cmd_by_index_nth. fold (cmds D).
  destruct (nth_error (cmds D) i) eqn:E; [eauto|]. apply nth_error_None in E. unfold ncmds in H. lia.
Qed.

Lemma lane_lt : forall s i, length (cbuf s) = asz_of D -> i < ncmds D -> i / 4 < length (cbuf s).
Proof.
  intros s i Hcb H. pose proof wf_lanes. rewrite Hcb.
  apply Nat.div_lt_upper_bound; lia.
Qed.

Lemma get_cmd_state_some : forall s i, length (cbuf s) = asz_of D -> i < ncmds D ->
  exists v, get_cmd_state D s i = Some v.
Proof.
  intros s i Hcb H. unfold get_cmd_state. destruct (is_command_disable D s i); [eauto|].
  destruct (nth_error (cbuf s) (i / 4)) eqn:E; [eauto|].
  apply nth_error_None in E. pose proof (lane_lt s i Hcb H). lia.
Qed.

Lemma set_cmd_state_eff : forall s i v, length (cbuf s) = asz_of D -> i < ncmds D ->
  exists b, set_cmd_state s i v = set_cbuf b s /\ length b = length (cbuf s).
Proof.
  intros s i v Hcb H. unfold set_cmd_state.
  destruct (nth_error (cbuf s) (i / 4)) eqn:E.
  - eexists. split; [reflexivity|]. apply upd_len.
  - apply nth_error_None in E. pose proof (lane_lt s i Hcb H). lia.
Qed.

Lemma state_eta_cbuf_impl : forall s, s = setk_implicit (k_implicit (k s)) (set_cbuf (cbuf s) s).
Proof. intros [[] ? ? ? ? ? ? ? ? ? ?]. reflexivity. Qed.

(* cat.c:809 *)
Lemma update_command_safe : forall s, Safe s -> k_state (k s) = CS_UPDATE_COMMAND_STATE ->
  Safe (update_command D s).
Proof.
  intros s H Hst. safe_open H. unfold KS in HK. rewrite Hst in HK. destruct HK as [Hi Hl].
  unfold update_command.
  destruct (cmd_by_index_some _ Hi) as (c & Ec). rewrite Ec.
  destruct (get_cmd_state_some s _ Hcb Hi) as (cs & Ecs). rewrite Ecs.
  match goal with |- context [if negb (cs =? CMD_NOT_MATCH)%N then ?A else s] =>
    set (X := if negb (cs =? CMD_NOT_MATCH)%N then A else s) end.
  assert (E : exists b imp, X = setk_implicit imp (set_cbuf b s) /\ length b = length (cbuf s)).
  { subst X. assert (Eta : exists b imp, s = setk_implicit imp (set_cbuf b s) /\ length b = length (cbuf s))
      by (eexists _, _; split; [apply state_eta_cbuf_impl | reflexivity]).
    assert (Set_ : forall v, exists b imp, set_cmd_state s (k_index (k s)) v =
                     setk_implicit imp (set_cbuf b s) /\ length b = length (cbuf s)).
    { intros v. destruct (set_cmd_state_eff s (k_index (k s)) v Hcb Hi) as (b & Eb & Lb).
      exists b, (k_implicit (k s)). split; [|exact Lb]. rewrite Eb.
      destruct s as [[] ? ? ? ? ? ? ? ? ? ?]. reflexivity. }
    destruct (negb (cs =? CMD_NOT_MATCH)%N); [|exact Eta].
    destruct (Nat.ltb_spec (length (c_name c)) (k_length (k s))) as [L1|L1]; [apply Set_|].
    destruct (k_length (k s)) as [|l1] eqn:El; [lia|].
    destruct (nth_error (c_name c) l1) as [nc|] eqn:En;
      [|apply nth_error_None in En; lia].
    destruct (negb (to_upper nc =? k_char (k s))%N); [apply Set_|].
    destruct (S l1 =? length (c_name c)); [|exact Eta].
    destruct (set_cmd_state_eff s (k_index (k s)) CMD_FULL Hcb Hi) as (b & Eb & Lb). rewrite Eb.
    destruct (c_implicit c).
    - exists b, true. split; [reflexivity | exact Lb].
    - exists b, (k_implicit (k s)). split; [|exact Lb].
      destruct s as [[] ? ? ? ? ? ? ? ? ? ?]. reflexivity. }
  destruct E as (b & imp & E & Lb). rewrite E. clear E X. cbv zeta.
  pose proof wf_ncmds.
  destruct (Nat.leb_spec (ncmds D) (S (k_index (k s)))) as [L|L].
  - sproj. destruct imp; cbn [negb]; unfold prepare_search_command;
      safe_split; try congruence; unfold KS, cmd_wk; sproj; auto.
  - safe_split; try congruence. unfold KS; sproj. rewrite Hst. lia.
Qed.

Ltac leb_norm :=
  repeat match goal with
  | H : (_ <=? _) = true |- _ => apply Nat.leb_le in H
  | H : (_ <=? _) = false |- _ => apply Nat.leb_gt in H
  | H : (_ <? _) = true |- _ => apply Nat.ltb_lt in H
  | H : (_ <? _) = false |- _ => apply Nat.ltb_ge in H
  end.

Ltac break_safe :=
  repeat (sproj; match goal with |- Safe (match ?x with _ => _ end) => destruct x eqn:? end).

(* cat.c:933 *)
Lemma search_command_safe : forall s, Safe s -> k_state (k s) = CS_SEARCH_COMMAND ->
  Safe (search_command D s).
Proof.
  intros s H Hst. safe_open H. unfold KS in HK. rewrite Hst in HK.
  unfold search_command.
  destruct (get_cmd_state_some s _ Hcb HK) as (cs & Ecs). rewrite Ecs.
  pose proof ncmds_pool as Hnp.
  assert (Hi : k_index (k s) < npool) by lia.
  cbv zeta beta. break_safe; leb_norm;
    safe_split; unfold KS, cmd_ok, cmd_wk in *; sproj;
    repeat match goal with E : k_cmd (k s) = _ |- _ => rewrite E in * end;
    try rewrite Hst; try (destruct (k_char (k s) =? ch_LF)%N); auto; try lia.
Qed.

(* cat.c:1019 *)
Lemma command_found_safe : forall s, Safe s -> k_state (k s) = CS_COMMAND_FOUND ->
  Safe (command_found D s).
Proof.
  intros s H Hst. pose proof (safe_pre ATCMD s H) as HP. safe_open H.
  unfold KS in HK. rewrite Hst in HK.
  unfold command_found, cmd_of, cmd_at. sproj.
  destruct (cmd_ok_at _ HK) as (ci & c & E1 & E2). rewrite E1, E2.
  destruct (k_type (k s)); try (apply ack_error_safe; exact HP).
  - destruct (c_only_test c); [apply ack_error_safe; exact HP|].
    destruct (c_hrun c); cbn [negb]; [|apply ack_error_safe; exact HP].
    safe_split; unfold KS; sproj; exact HK.
  - destruct (c_only_test c); [apply ack_error_safe; exact HP|].
    apply spfra_safe; [exact HP | exact HK].
  - sproj. pose proof wf_asz. destruct (cbuf s) as [|x r] eqn:Eb; [cbn [length] in Hcb; lia|].
    safe_split. unfold KS; sproj. split; [exact HK | reflexivity].
Qed.

(* cat.c:2445,2453 *)
Lemma process_io_write_wait_safe : forall s, Safe s -> k_state (k s) = CS_FLUSH_WAIT ->
  Safe (process_io_write_wait s).
Proof.
  intros s H Hst. unfold process_io_write_wait. destruct (negb _); [|exact H].
  safe_open H. safe_split; unfold KS in *; rewrite Hst in HK; sproj; exact HK.
Qed.

Lemma unsolicited_process_io_write_wait_safe : forall s, Safe s -> u_state (u s) = US_FLUSH_WAIT ->
  Safe (unsolicited_process_io_write_wait s).
Proof.
  intros s H Hst. unfold unsolicited_process_io_write_wait. destruct (negb _); [|exact H].
  safe_open H. safe_split; unfold US in *; rewrite Hst in HU; sproj; exact HU.
Qed.


(* ------------------------------------------------------------------ *)
(* the list printer (cat.c:2031-2144)                                   *)
(* ------------------------------------------------------------------ *)

Lemma start_print_cmd_list_safe : forall s, Pre ATCMD s -> Safe (start_print_cmd_list D s).
Proof.
  intros s H. unfold start_print_cmd_list. destruct (ncmds D =? 0); [apply ack_ok_safe; exact H|].
  pre_open H. safe_split; unfold KS; sproj; apply wf_ncmds.
Qed.

Lemma cmd_list_next_safe : forall s, Pre ATCMD s ->
  Safe (let (s1, more) := cmd_list_next_cmd D s in if more then s1 else ack_ok s1).
Proof.
  intros s H. unfold cmd_list_next_cmd.
  destruct (Nat.leb_spec (ncmds D) (S (k_index (k s)))) as [L|L].
  - apply ack_ok_safe. pre_open H. pre_tac.
  - pre_open H. safe_split; unfold KS; sproj; exact L.
Qed.

Lemma print_cmd_form_safe : forall s c avail suffix next, Pre ATCMD s -> k_index (k s) < ncmds D ->
  k_state (k s) = CS_PRINT_CMD ->
  Safe (print_cmd_form s c avail suffix next).
Proof.
  intros s c avail suffix next H Hi Hst. unfold print_cmd_form. destruct avail.
  - unfold print_current_cmd_full_name. pre_open H. sproj.
    destruct (k_length (k s) =? 0).
    + do_print; [|apply ack_error_safe; pre_tac].
      do_print; [|apply ack_error_safe; pre_tac].
      unfold start_flush_raw_c. safe_split; try congruence.
      unfold KS, flush_ok, Kafter; sproj.
      assert (Zn : nth_error b0 p0 = Some 0%N) by (apply Z0; [reflexivity | right; discriminate]).
      repeat split; auto. eapply nth_nul_from; eauto. lia.
    + cbn [negb]. do_print; [|apply ack_error_safe; pre_tac].
      unfold start_flush_raw_c. safe_split; try congruence.
      unfold KS, flush_ok, Kafter; sproj.
      assert (Zn : nth_error b p = Some 0%N) by (apply Z; [reflexivity | right; discriminate]).
      repeat split; auto. eapply nth_nul_from; eauto. lia.
  - pre_open H. safe_split; unfold KS; sproj; rewrite Hst; exact Hi.
Qed.

Lemma print_cmd_list_safe : forall s, Safe s -> k_state (k s) = CS_PRINT_CMD ->
  Safe (print_cmd_list D s).
Proof.
  intros s H Hst. pose proof (safe_pre ATCMD s H) as HP. safe_open H.
  unfold KS in HK. rewrite Hst in HK.
  unfold print_cmd_list. destruct (cmd_by_index_some _ HK) as (c & Ec). rewrite Ec.
  pose proof ncmds_pool as Hnp.
  assert (HP1 : Pre ATCMD (setk_cmd (Some (k_index (k s))) s)).
  { split; [base_split; unfold cmd_wk; lia | sproj; assumption]. }
  sproj. destruct (k_type (k s)).
  - destruct (is_command_disable D _ (k_index (k s))).
    + apply cmd_list_next_safe. exact HP1.
    + safe_split; unfold cmd_wk, KS; sproj; try rewrite Hst; lia.
  - apply print_cmd_form_safe; auto.
  - apply print_cmd_form_safe; auto.
  - apply print_cmd_form_safe; auto.
  - apply print_cmd_form_safe; auto.
  - apply cmd_list_next_safe. exact HP1.
Qed.

(* ------------------------------------------------------------------ *)
(* the bodies of the reading states                                     *)
(* ------------------------------------------------------------------ *)

Lemma setk_cr_safe : forall s b, Safe s -> Safe (setk_cr b s).
Proof. intros s b H. safe_open H. safe_split. Qed.

Lemma setk_state_plain_safe : forall s cs, Pre ATCMD s ->
  (cs = CS_ERROR \/ cs = CS_PARSE_PREFIX \/ cs = CS_IDLE) -> Safe (setk_state cs s).
Proof.
  intros s cs H Hc. pre_open H. safe_split. unfold KS; sproj.
  destruct Hc as [-> | [-> | ->]]; exact I.
Qed.

Lemma error_body_safe : forall ch s, Safe s ->
  Safe (if (ch =? ch_LF)%N then ack_error s else if (ch =? ch_CR)%N then setk_cr true s else s).
Proof.
  intros ch s H. destruct (ch =? ch_LF)%N; [apply ack_error_safe, safe_pre, H|].
  destruct (ch =? ch_CR)%N; [apply setk_cr_safe, H | exact H].
Qed.

Lemma idle_body_safe : forall ch s, Safe s ->
  Safe (if (ch =? ch_A)%N then setk_state CS_PARSE_PREFIX s
        else if (ch =? ch_LF)%N || (ch =? ch_CR)%N then s else setk_state CS_ERROR s).
Proof.
  intros ch s H. destruct (ch =? ch_A)%N; [apply setk_state_plain_safe; auto using safe_pre|].
  destruct (_ || _); [exact H | apply setk_state_plain_safe; auto using safe_pre].
Qed.

Lemma prefix_body_safe : forall ch s, Safe s ->
  Safe (if (ch =? ch_T)%N then s |> prepare_parse_command |> setk_state CS_PARSE_COMMAND_CHAR
        else if (ch =? ch_LF)%N then ack_error s
        else if (ch =? ch_CR)%N then setk_cr true s
        else setk_state CS_ERROR s).
Proof.
  intros ch s H. destruct (ch =? ch_T)%N.
  - unfold prepare_parse_command. safe_open H. safe_split.
    + rewrite repeat_length. exact Hcb.
    + unfold KS; sproj. apply wf_ncmds.
  - destruct (ch =? ch_LF)%N; [apply ack_error_safe, safe_pre, H|].
    destruct (ch =? ch_CR)%N; [apply setk_cr_safe, H | apply setk_state_plain_safe; auto using safe_pre].
Qed.

Lemma search_start_safe : forall s, Pre ATCMD s ->
  Safe (s |> prepare_search_command |> setk_state CS_SEARCH_COMMAND).
Proof.
  intros s H. unfold prepare_search_command. pre_open H.
  safe_split; unfold cmd_wk, KS; sproj; auto using wf_ncmds.
Qed.

Lemma parse_command_body_safe : forall ch s, Safe s -> k_state (k s) = CS_PARSE_COMMAND_CHAR ->
  Safe (if (ch =? ch_LF)%N then
          if negb (k_length (k s) =? 0) then s |> prepare_search_command |> setk_state CS_SEARCH_COMMAND
          else ack_ok s
        else if (ch =? ch_CR)%N then setk_cr true s
        else if (ch =? ch_QM)%N then
          if k_length (k s) =? 0 then setk_state CS_ERROR s
          else s |> setk_type T_READ |> setk_state CS_WAIT_READ_ACK
        else if (ch =? ch_EQ)%N then
          if k_length (k s) =? 0 then setk_state CS_ERROR s
          else s |> setk_type T_WRITE |> prepare_search_command |> setk_state CS_SEARCH_COMMAND
        else if is_name_char ch then
          s |> setk_length (S (k_length (k s))) |> setk_state CS_UPDATE_COMMAND_STATE
        else setk_state CS_ERROR s).
Proof.
  intros ch s H Hst. pose proof (safe_pre ATCMD s H) as HP.
  destruct (ch =? ch_LF)%N.
  { destruct (negb _); [apply search_start_safe; exact HP | apply ack_ok_safe; exact HP]. }
  destruct (ch =? ch_CR)%N; [apply setk_cr_safe, H|].
  destruct (ch =? ch_QM)%N.
  { destruct (_ =? 0); [apply setk_state_plain_safe; auto|].
    safe_open H. safe_split; unfold KS; sproj; exact I. }
  destruct (ch =? ch_EQ)%N.
  { destruct (_ =? 0); [apply setk_state_plain_safe; auto|].
    apply (search_start_safe (setk_type T_WRITE s)). pre_open HP. pre_tac. }
  destruct (is_name_char ch); [|apply setk_state_plain_safe; auto].
  safe_open H. unfold KS in HK. rewrite Hst in HK. safe_split; unfold KS; sproj; lia.
Qed.

Lemma wait_read_body_safe : forall ch s, Safe s ->
  Safe (if (ch =? ch_LF)%N then s |> prepare_search_command |> setk_state CS_SEARCH_COMMAND
        else if (ch =? ch_CR)%N then setk_cr true s
        else setk_state CS_ERROR s).
Proof.
  intros ch s H. destruct (ch =? ch_LF)%N; [apply search_start_safe, safe_pre, H|].
  destruct (ch =? ch_CR)%N; [apply setk_cr_safe, H | apply setk_state_plain_safe; auto using safe_pre].
Qed.

Lemma wait_test_body_safe : forall ch s, Safe s -> k_state (k s) = CS_WAIT_TEST_ACK ->
  Safe (if (ch =? ch_LF)%N then start_processing_format_test_args D ATCMD s
        else if (ch =? ch_CR)%N then setk_cr true s
        else setk_state CS_ERROR s).
Proof.
  intros ch s H Hst. destruct (ch =? ch_LF)%N.
  - apply spfta_safe; [apply safe_pre, H|]. safe_open H. unfold KS in HK. rewrite Hst in HK. exact HK.
  - destruct (ch =? ch_CR)%N; [apply setk_cr_safe, H | apply setk_state_plain_safe; auto using safe_pre].
Qed.

Lemma parse_command_args_body_safe : forall ch s, Safe s -> k_state (k s) = CS_PARSE_COMMAND_ARGS ->
  Safe (match cmd_of D ATCMD s with
    | None => set_fault_flag s
    | Some c =>
      if (ch =? ch_LF)%N then
        if c_only_test c then ack_error s
        else if vars_access_possible c WO then
          s |> setk_state CS_PARSE_WRITE_ARGS |> setk_position 0 |> setk_index 0 |> setk_var 0
        else if negb (c_hwrite c) then ack_error s
        else s |> setk_index 0 |> setk_state CS_WRITE_LOOP
      else if (ch =? ch_CR)%N then setk_cr true s
      else if (k_length (k s) =? 0) && (ch =? ch_QM)%N
              && (c_htest c || match c_vars c with [] => false | _ => true end)
              && negb (c_implicit c)
      then s |> setk_type T_TEST |> setk_state CS_WAIT_TEST_ACK
      else
        let len := k_length (k s) in
        if asz s <=? len then setk_state CS_ERROR s
        else
          let s1 := s |> set_cbuf (upd (cbuf s) len ch) |> setk_length (S len) in
          if S len <? asz s1 then set_cbuf (upd (cbuf s1) (S len) 0%N) s1
          else setk_state CS_ERROR s1
    end).
Proof.
  intros ch s H Hst. pose proof (safe_pre ATCMD s H) as HP. pose proof H as HS. safe_open H.
  unfold KS in HK. rewrite Hst in HK. destruct HK as [Hc Hn].
  unfold cmd_of, cmd_at. sproj. destruct (cmd_ok_at _ Hc) as (ci & c & E1 & E2). rewrite E1, E2.
  destruct (ch =? ch_LF)%N.
  { destruct (c_only_test c); [apply ack_error_safe; exact HP|].
    destruct (vars_access_possible c WO) eqn:V.
    - safe_split. unfold KS, var_ok; sproj. rewrite E1, E2. apply vap_nonempty in V.
      split; [exact V|]. eapply nth_nul_from; eauto. lia.
    - destruct (negb (c_hwrite c)); [apply ack_error_safe; exact HP|].
      safe_split; unfold KS; sproj; exact Hc. }
  destruct (ch =? ch_CR)%N; [apply setk_cr_safe, HS|].
  destruct (_ && _ && _ && _).
  { safe_split; unfold KS; sproj; exact Hc. }
  cbv zeta. sproj.
  destruct (Nat.leb_spec (length (cbuf s)) (k_length (k s))) as [L|L];
    [apply setk_state_plain_safe; auto|].
  rewrite upd_len.
  destruct (Nat.ltb_spec (S (k_length (k s))) (length (cbuf s))) as [L2|L2].
  - safe_split; [rewrite !upd_len; exact Hcb|]. unfold KS; sproj. rewrite Hst.
    split; [exact Hc|]. apply nth_error_upd_eq. rewrite upd_len. exact L2.
  - apply setk_state_plain_safe; auto. pre_open HP. pre_tac. rewrite upd_len. exact Hcb.
Qed.

(* cat.c:1961 *)
Lemma check_unsolicited_buffers_safe : forall s, Safe s -> u_state (u s) = US_IDLE ->
  Safe (check_unsolicited_buffers D s).
Proof.
  intros s H Hst. pose proof (safe_pre UNSOL s H) as HP.
  unfold check_unsolicited_buffers.
  destruct (pop_eff s) as [E | (hd & cnt & it & E & Hit & R)]; [apply H | rewrite E; exact H |].
  rewrite E. destruct it as [ci t]. cbn [fst] in Hit.
  assert (HP1 : Pre UNSOL (setu_type t (setu_cmd (Some ci) (setu_count cnt (setu_head hd s))))).
  { pre_open HP. pre_tac. }
  destruct t; try (apply spfra_safe; [exact HP1 | exact Hit]);
    try (apply spfta_safe; [exact HP1 | exact Hit]);
    (safe_open H; safe_split; unfold US; sproj; rewrite Hst; exact I).
Qed.


(* ------------------------------------------------------------------ *)
(* sending the response (cat.c:2461, 2493): the state part              *)
(* ------------------------------------------------------------------ *)

Lemma wbuf_char_ok : forall wb ws p b, flush_ok wb ws p b ->
  exists ch, wbuf_char wb b p = Some ch /\ (ch <> 0%N -> flush_ok wb ws (S p) b).
Proof.
  intros wb ws p b [H1 H2]. unfold wbuf_char, flush_ok. destruct wb as [[|]|].
  - cbn [nl_max] in H1. destruct p as [|[|[|p]]]; try lia; cbn [nth_error nl_max];
      eexists; (split; [reflexivity|]); intros Hc; try (split; [lia | exact H2]).
  - cbn [nl_max] in H1. destruct p as [|[|p]]; try lia; cbn [nth_error nl_max];
      eexists; (split; [reflexivity|]); intros Hc; try (split; [lia | exact H2]).
  - destruct (nul_from_nth _ _ H1) as (c & Ec). exists c. split; [exact Ec|].
    intros Hc. split; [eapply nul_from_S; eauto | exact H2].
Qed.

Lemma flush_done_k_safe : forall s, Safe s -> k_state (k s) = CS_FLUSH ->
  Safe (match k_wstate (k s) with
        | WS_BEFORE => s |> setk_position 0 |> setk_wbuf WB_MAIN |> setk_wstate WS_MAIN
        | WS_MAIN => s |> setk_position 0 |> setk_wbuf (WB_NL (k_cr (k s))) |> setk_wstate WS_AFTER
        | WS_AFTER =>
          let s1 := setk_state (k_wafter (k s)) s in
          if cstate_beq (k_wafter (k s)) CS_AFTER_RESET then set_gR (S (gR s1)) s1 else s1
        end).
Proof.
  intros s H Hst. safe_open H. unfold KS in HK. rewrite Hst in HK. destruct HK as [[F1 F2] HA].
  destruct (k_wstate (k s)) eqn:Ew.
  - safe_split; unfold KS, flush_ok, Kafter in *; sproj; rewrite Hst;
      repeat split; auto; apply nul_from_0; exact F2.
  - safe_split; unfold KS, flush_ok, Kafter in *; sproj; rewrite Hst;
      repeat split; auto using nl_max_0.
  - cbv zeta. unfold Kafter in HA.
    destruct (k_wafter (k s)) eqn:Ea; try contradiction; cbn [cstate_beq];
      safe_split; unfold KS; sproj; auto.
Qed.

Lemma flush_adv_k_safe : forall s ch, Safe s -> k_state (k s) = CS_FLUSH ->
  wbuf_char (k_wbuf (k s)) (cbuf s) (k_position (k s)) = Some ch -> ch <> 0%N ->
  Safe (setk_position (S (k_position (k s))) s).
Proof.
  intros s ch H Hst Ec Hc. safe_open H. unfold KS in HK. rewrite Hst in HK. destruct HK as [F HA].
  destruct (wbuf_char_ok _ _ _ _ F) as (ch' & E' & Hn). rewrite Ec in E'. injection E' as <-.
  safe_split; unfold KS, Kafter in *; sproj; rewrite Hst; (split; [apply Hn, Hc | exact HA]).
Qed.

Lemma flush_done_u_safe : forall s, Safe s -> u_state (u s) = US_FLUSH ->
  Safe (match u_wstate (u s) with
        | WS_BEFORE => s |> setu_position 0 |> setu_wbuf WB_MAIN |> setu_wstate WS_MAIN
        | WS_MAIN => s |> setu_position 0 |> setu_wbuf (WB_NL (k_cr (k s))) |> setu_wstate WS_AFTER
        | WS_AFTER => setu_state (u_wafter (u s)) s
        end).
Proof.
  intros s H Hst. safe_open H. unfold US in HU. rewrite Hst in HU. destruct HU as [[F1 F2] HA].
  destruct (u_wstate (u s)) eqn:Ew.
  - safe_split; unfold US, flush_ok, Uafter in *; sproj; rewrite Hst;
      repeat split; auto; apply nul_from_0; exact F2.
  - safe_split; unfold US, flush_ok, Uafter in *; sproj; rewrite Hst;
      repeat split; auto using nl_max_0.
  - unfold Uafter in HA.
    destruct (u_wafter (u s)) eqn:Ea; try contradiction;
      safe_split; unfold US; sproj; auto.
Qed.

Lemma flush_adv_u_safe : forall s ch, Safe s -> u_state (u s) = US_FLUSH ->
  wbuf_char (u_wbuf (u s)) (ubuf s) (u_position (u s)) = Some ch -> ch <> 0%N ->
  Safe (setu_position (S (u_position (u s))) s).
Proof.
  intros s ch H Hst Ec Hc. safe_open H. unfold US in HU. rewrite Hst in HU. destruct HU as [F HA].
  destruct (wbuf_char_ok _ _ _ _ F) as (ch' & E' & Hn). rewrite Ec in E'. injection E' as <-.
  safe_split; unfold US, Uafter in *; sproj; rewrite Hst; (split; [apply Hn, Hc | exact HA]).
Qed.


(* ================================================================== *)
(* the part that talks to the environment                              *)
(* ================================================================== *)

Variables ioS muS hS : Type.
Variable io_read : ioS -> ioS * option N.
Variable io_write : ioS -> N -> ioS * bool.
Variable mu_lock : muS -> muS * bool.
Variable mu_unlock : muS -> muS * bool.
Variable h_call : hS -> hreq -> hS * hres.

(* API calls made from inside a handler only name commands of the pool *)
Definition icall_ok (c : icall) : Prop :=
  match c with ITrigger ci _ => ci < npool | IHoldExit _ => True end.
Hypothesis handlers_ok : forall hs q, Forall icall_ok (r_calls (snd (h_call hs q))).

Local Notation world := (Fsm.world ioS muS hS).
Local Notation st := (Fsm.st ioS muS hS).
Local Notation io := (Fsm.io ioS muS hS).
Local Notation mu := (Fsm.mu ioS muS hS).
Local Notation hs := (Fsm.hs ioS muS hS).
Local Notation tr := (Fsm.tr ioS muS hS).
Local Notation mkWorld := (Fsm.mkWorld ioS muS hS).
Local Notation set_st := (Fsm.set_st ioS muS hS).
Local Notation set_io := (Fsm.set_io ioS muS hS).
Local Notation set_mu := (Fsm.set_mu ioS muS hS).
Local Notation set_hs := (Fsm.set_hs ioS muS hS).
Local Notation logw := (Fsm.logw ioS muS hS).
Local Notation upd_st := (Fsm.upd_st ioS muS hS).
Local Notation busy := (Fsm.busy ioS muS hS).
Local Notation bracket := (Fsm.bracket D ioS muS hS mu_lock mu_unlock).
Local Notation api_trigger := (Fsm.api_trigger D ioS muS hS mu_lock mu_unlock).
Local Notation api_hold_exit := (Fsm.api_hold_exit D ioS muS hS mu_lock mu_unlock).
Local Notation apply_icall := (Fsm.apply_icall D ioS muS hS mu_lock mu_unlock).
Local Notation call_h := (Fsm.call_h D ioS muS hS mu_lock mu_unlock h_call).
Local Notation read_cmd_char := (Fsm.read_cmd_char ioS muS hS io_read).
Local Notation reading := (Fsm.reading ioS muS hS io_read).
Local Notation parse_write_args := (Fsm.parse_write_args D ioS muS hS mu_lock mu_unlock h_call).
Local Notation format_read_args := (Fsm.format_read_args D ioS muS hS mu_lock mu_unlock h_call).
Local Notation process_write_loop := (Fsm.process_write_loop D ioS muS hS mu_lock mu_unlock h_call).
Local Notation process_run_loop := (Fsm.process_run_loop D ioS muS hS mu_lock mu_unlock h_call).
Local Notation process_rt_loop := (Fsm.process_rt_loop D ioS muS hS mu_lock mu_unlock h_call).
Local Notation process_io_write := (Fsm.process_io_write ioS muS hS io_write).
Local Notation unsolicited_process_io_write := (Fsm.unsolicited_process_io_write ioS muS hS io_write).
Local Notation unsolicited_events_service :=
  (Fsm.unsolicited_events_service D ioS muS hS io_write mu_lock mu_unlock h_call).
Local Notation cmd_service :=
  (Fsm.cmd_service D ioS muS hS io_read io_write mu_lock mu_unlock h_call).
Local Notation service_body :=
  (Fsm.service_body D ioS muS hS io_read io_write mu_lock mu_unlock h_call).
Local Notation do_op := (Fsm.do_op D ioS muS hS io_read io_write mu_lock mu_unlock h_call).
Local Notation step := (Fsm.step D ioS muS hS io_read io_write mu_lock mu_unlock h_call).
Local Notation run := (Fsm.run D ioS muS hS io_read io_write mu_lock mu_unlock h_call).

(* ------------------------------------------------------------------ *)
(* what a handler may change: variable storage (same lengths), the     *)
(* event queue, the hold-exit request                                   *)
(* ------------------------------------------------------------------ *)

Definition kv (s : state) : cfsm * list N := (set_k_hold_exit 0%Z (k s), cbuf s).
Definition uv (s : state) : ufsm * list N :=
  (set_u_count 0 (set_u_tail 0 (set_u_ring [] (u s))), ubuf s).

Definition hrel (s s' : state) : Prop :=
  (Safe s -> Safe s') /\ (forall f, Pre f s -> Pre f s') /\ kv s' = kv s /\ uv s' = uv s.

Lemma hrel_refl : forall s, hrel s s.
Proof. intros s. split; [auto | split; [auto | split; reflexivity]]. Qed.

Lemma hrel_trans : forall a b c, hrel a b -> hrel b c -> hrel a c.
Proof.
  intros a b c (A1 & A2 & A3 & A4) (B1 & B2 & B3 & B4).
  split; [auto | split; [auto | split; congruence]].
Qed.

Lemma hrel_poke : forall s p, hrel s (apply_poke s p).
Proof.
  intros s p. split; [apply apply_poke_safe|]. split; [intros f; apply apply_poke_pre|].
  destruct (apply_poke_eff s p) as (mm & E & _). rewrite E. split; reflexivity.
Qed.

Lemma hrel_push : forall s ci t, ci < npool -> hrel s (fst (push_unsolicited_cmd D s ci t)).
Proof.
  intros s ci t H. split; [intros; apply push_safe; auto|].
  split; [intros f Hf; apply push_pre; auto|].
  unfold push_unsolicited_cmd. destruct (ring_full D s); cbn [fst]; [split; reflexivity|].
  destruct (_ <? _); split; reflexivity.
Qed.

Lemma hrel_hold_exit : forall s z, hrel s (fst (hold_exit s z)).
Proof.
  intros s z. split; [apply hold_exit_safe|]. split; [intros f; apply hold_exit_pre|].
  unfold hold_exit. destruct (negb _); cbn [fst]; split; reflexivity.
Qed.

Lemma bracket_hrel : forall s0 w body, hrel s0 (st w) ->
  (forall w', st w' = st w -> hrel s0 (st (fst (body w')))) ->
  hrel s0 (st (fst (bracket w body))).
Proof.
  intros s0 w body H Hb. unfold Fsm.bracket. destruct (d_mutex D); [|apply Hb; reflexivity].
  destruct (mu_lock (mu w)) as [m1 ok]. destruct ok; cbn [negb fst]; [|exact H].
  specialize (Hb (logw (ELock true) (set_mu m1 w)) eq_refl).
  destruct (body (logw (ELock true) (set_mu m1 w))) as [w2 r]. cbn [fst] in Hb.
  destruct (mu_unlock (mu w2)) as [m2 ok2]. destruct ok2; cbn [negb fst]; exact Hb.
Qed.

Lemma apply_icall_hrel : forall s0 w c, icall_ok c -> hrel s0 (st w) -> hrel s0 (st (apply_icall w c)).
Proof.
  intros s0 w c Hc H. unfold Fsm.apply_icall.
  assert (X : hrel s0 (st (fst (match c with
                 | ITrigger ci t => api_trigger w ci t
                 | IHoldExit status => api_hold_exit w status end)))).
  { destruct c as [ci t|z]; unfold Fsm.api_trigger, Fsm.api_hold_exit;
      apply bracket_hrel; try exact H; intros w' E.
    - destruct (push_unsolicited_cmd D (st w') ci t) as [s' r] eqn:Ep. cbn [fst Fsm.st Fsm.set_st].
      eapply hrel_trans; [exact H|]. rewrite <- E. replace s' with (fst (push_unsolicited_cmd D (st w') ci t))
        by (rewrite Ep; reflexivity). apply hrel_push. exact Hc.
    - destruct (hold_exit (st w') z) as [s' r] eqn:Ep. cbn [fst Fsm.st Fsm.set_st].
      eapply hrel_trans; [exact H|]. rewrite <- E. replace s' with (fst (hold_exit (st w') z))
        by (rewrite Ep; reflexivity). apply hrel_hold_exit. }
  destruct (match c with ITrigger ci t => _ | IHoldExit status => _ end) as [w' r]. exact X.
Qed.

Lemma fold_icall_hrel : forall s0 l w, Forall icall_ok l -> hrel s0 (st w) ->
  hrel s0 (st (fold_left apply_icall l w)).
Proof.
  intros s0 l. induction l as [|c l IH]; intros w F H; [exact H|].
  inversion F; subst. cbn [fold_left]. apply IH; [assumption|]. apply apply_icall_hrel; assumption.
Qed.

Lemma fold_poke_hrel : forall l s0 s, hrel s0 s -> hrel s0 (fold_left apply_poke l s).
Proof.
  induction l as [|p l IH]; intros s0 s H; [exact H|]. cbn [fold_left]. apply IH.
  eapply hrel_trans; [exact H | apply hrel_poke].
Qed.

Lemma call_h_hrel : forall w q, hrel (st w) (st (fst (call_h w q))).
Proof.
  intros w q. unfold Fsm.call_h. pose proof (handlers_ok (hs w) q) as F.
  destruct (h_call (hs w) q) as [hs' r]. cbn [snd] in F. cbv zeta. cbn [fst].
  apply fold_icall_hrel; [exact F|]. cbn [Fsm.upd_st Fsm.st Fsm.set_st Fsm.logw Fsm.set_hs].
  apply fold_poke_hrel. apply hrel_refl.
Qed.

(* projections of the preserved views *)
Lemma kv_proj : forall s s', kv s' = kv s ->
  k_state (k s') = k_state (k s) /\ k_cmd (k s') = k_cmd (k s) /\ k_var (k s') = k_var (k s) /\
  k_index (k s') = k_index (k s) /\ k_position (k s') = k_position (k s) /\ cbuf s' = cbuf s.
Proof.
  intros s s' E. assert (E1 := f_equal fst E). assert (E2 := f_equal snd E).
  unfold kv in E1, E2. cbn [fst snd] in E1, E2.
  repeat split; [exact (f_equal k_state E1) | exact (f_equal k_cmd E1) | exact (f_equal k_var E1) |
                 exact (f_equal k_index E1) | exact (f_equal k_position E1) | exact E2].
Qed.

Lemma uv_proj : forall s s', uv s' = uv s ->
  u_state (u s') = u_state (u s) /\ u_cmd (u s') = u_cmd (u s) /\ u_var (u s') = u_var (u s) /\
  u_index (u s') = u_index (u s) /\ u_position (u s') = u_position (u s) /\ ubuf s' = ubuf s.
Proof.
  intros s s' E. assert (E1 := f_equal fst E). assert (E2 := f_equal snd E).
  unfold uv in E1, E2. cbn [fst snd] in E1, E2.
  repeat split; [exact (f_equal u_state E1) | exact (f_equal u_cmd E1) | exact (f_equal u_var E1) |
                 exact (f_equal u_index E1) | exact (f_equal u_position E1) | exact E2].
Qed.


(* ------------------------------------------------------------------ *)
(* the state functions that talk to the environment                    *)
(* ------------------------------------------------------------------ *)

Ltac wsimp := cbn [Fsm.busy Fsm.upd_st Fsm.st Fsm.set_st Fsm.logw Fsm.set_io Fsm.set_hs Fsm.set_mu
                   Fsm.io Fsm.mu Fsm.hs fst snd].

Lemma reading_safe : forall w body, Safe (st w) ->
  (forall ch s, Safe s -> k_state (k s) = k_state (k (st w)) -> Safe (body ch s)) ->
  Safe (st (fst (reading w body))).
Proof.
  intros w body H Hb. unfold Fsm.reading, Fsm.read_cmd_char.
  destruct (io_read (io w)) as [io' [ch|]]; wsimp; [|exact H].
  apply Hb.
  - safe_open H. destruct (_ && _); safe_split.
  - destruct (_ && _); reflexivity.
Qed.

Definition loop_state (f : fsm) (s : state) : Prop :=
  match f with
  | ATCMD => k_state (k s) = CS_READ_LOOP \/ k_state (k s) = CS_TEST_LOOP
  | UNSOL => u_state (u s) = US_READ_LOOP \/ u_state (u s) = US_TEST_LOOP
  end.

Lemma loop_state_inv : forall f s, Safe s -> loop_state f s ->
  cmd_ok (g_cmd f s) /\ In 0%N (g_buf f s).
Proof.
  intros f s (HB & HK & HU) Hst. destruct f; cbn [loop_state] in Hst; sproj.
  - unfold KS in HK. destruct Hst as [E|E]; rewrite E in HK; exact HK.
  - unfold US in HU. destruct Hst as [E|E]; rewrite E in HU; exact HU.
Qed.

Lemma apply_edit_loop : forall f e s, Safe s -> loop_state f s ->
  Safe (apply_edit f e s) /\ cmd_ok (g_cmd f (apply_edit f e s)) /\ In 0%N (g_buf f (apply_edit f e s)).
Proof.
  intros f e s H Hst. destruct (loop_state_inv f s H Hst) as [Hc Hn].
  destruct (apply_edit_eff f e s) as [E | (b & p & E & L & Hb)]; rewrite E; [auto|].
  destruct f; cbn [loop_state] in Hst; sproj_in Hc; sproj_in L; safe_open H; sproj;
    (split; [|split; assumption]); safe_split; try congruence;
    [unfold KS in * | unfold US in *]; sproj; destruct Hst as [E1|E1]; rewrite E1 in *; tauto.
Qed.

Lemma hrel_loop : forall f s s', hrel s s' -> loop_state f s -> loop_state f s'.
Proof.
  intros f s s' (_ & _ & K & U) H. destruct f; cbn [loop_state] in *.
  - destruct (kv_proj _ _ K) as (E & _). rewrite E. exact H.
  - destruct (uv_proj _ _ U) as (E & _). rewrite E. exact H.
Qed.

(* cat.c:2220, 2295 *)
Lemma process_rt_loop_safe : forall rd f w, Safe (st w) -> loop_state f (st w) ->
  Safe (st (fst (process_rt_loop rd f w))).
Proof.
  intros rd f w H Hst. unfold Fsm.process_rt_loop.
  destruct (loop_state_inv f _ H Hst) as [Hc _].
  destruct (g_cmd f (st w)) as [ci|] eqn:Ec; [|destruct Hc].
  match goal with |- context [call_h w ?q] =>
    pose proof (call_h_hrel w q) as R; destruct (call_h w q) as [w1 r] end.
  cbn [fst] in R. wsimp.
  pose proof (hrel_loop f _ _ R Hst) as Hst1. destruct R as (R1 & _). specialize (R1 H).
  destruct (apply_edit_loop f (r_edit r) (st w1) R1 Hst1) as (S2 & C2 & N2).
  set (s2 := apply_edit f (r_edit r) (st w1)) in *.
  pose proof (safe_pre f s2 S2) as P2.
  destruct (r_code r =? RC_OK)%Z; [apply end_with_ok_safe; exact P2|].
  destruct (r_code r =? RC_DATA_OK)%Z; [apply start_flush_after_safe; auto|].
  destruct (r_code r =? RC_DATA_NEXT)%Z.
  { destruct rd; apply start_flush_after_safe; auto. }
  destruct (r_code r =? RC_NEXT)%Z.
  { destruct rd; [apply spfra_safe | apply spfta_safe]; auto. }
  destruct (r_code r =? RC_HOLD)%Z; [apply enable_hold_state_safe; exact S2|].
  destruct (r_code r =? RC_HOLD_EXIT_OK)%Z; [apply end_with_ok_safe, hold_exit_pre; exact P2|].
  destruct (r_code r =? RC_HOLD_EXIT_ERROR)%Z; [apply end_with_error_safe, hold_exit_pre; exact P2|].
  destruct ((r_code r =? RC_PRINT_CMD_LIST_OK)%Z && negb rd).
  { destruct f; [apply start_print_cmd_list_safe | apply end_with_ok_safe]; exact P2. }
  apply end_with_error_safe; exact P2.
Qed.

(* cat.c:2146 *)
Lemma process_write_loop_safe : forall w, Safe (st w) -> k_state (k (st w)) = CS_WRITE_LOOP ->
  Safe (st (fst (process_write_loop w))).
Proof.
  intros w H Hst. unfold Fsm.process_write_loop.
  assert (Hc : cmd_ok (k_cmd (k (st w)))).
  { destruct H as (_ & HK & _). unfold KS in HK. rewrite Hst in HK. exact HK. }
  sproj. destruct (k_cmd (k (st w))) as [ci|] eqn:Ec; [|destruct Hc].
  match goal with |- context [call_h w ?q] =>
    pose proof (call_h_hrel w q) as R; destruct (call_h w q) as [w1 r] end.
  cbn [fst] in R. wsimp. destruct R as (R1 & _). specialize (R1 H).
  pose proof (safe_pre ATCMD _ R1) as P1.
  destruct (_ || _); [apply ack_ok_safe; exact P1|].
  destruct (_ || _); [exact R1|].
  destruct (_ =? _)%Z; [apply enable_hold_state_safe; exact R1 | apply ack_error_safe; exact P1].
Qed.

(* cat.c:2173 *)
Lemma process_run_loop_safe : forall w, Safe (st w) -> k_state (k (st w)) = CS_RUN_LOOP ->
  Safe (st (fst (process_run_loop w))).
Proof.
  intros w H Hst. unfold Fsm.process_run_loop.
  assert (Hc : cmd_ok (k_cmd (k (st w)))).
  { destruct H as (_ & HK & _). unfold KS in HK. rewrite Hst in HK. exact HK. }
  sproj. destruct (k_cmd (k (st w))) as [ci|] eqn:Ec; [|destruct Hc].
  match goal with |- context [call_h w ?q] =>
    pose proof (call_h_hrel w q) as R; destruct (call_h w q) as [w1 r] end.
  cbn [fst] in R. wsimp. destruct R as (R1 & _). specialize (R1 H).
  pose proof (safe_pre ATCMD _ R1) as P1.
  destruct (_ || _); [apply ack_ok_safe; exact P1|].
  destruct (_ || _); [exact R1|].
  destruct (_ =? _)%Z; [apply enable_hold_state_safe; exact R1|].
  destruct (_ =? _)%Z; [apply start_print_cmd_list_safe; exact P1 | apply ack_error_safe; exact P1].
Qed.

Lemma hrel_fmt : forall f s s' rd, hrel s s' -> fmt_state f s rd ->
  fmt_state f s' rd /\ g_cmd f s' = g_cmd f s /\ g_var f s' = g_var f s.
Proof.
  intros f s s' rd (_ & _ & K & U) H. destruct f; cbn [fmt_state g_cmd g_var] in *.
  - destruct (kv_proj _ _ K) as (E1 & E2 & E3 & _). rewrite E1, E2, E3. auto.
  - destruct (uv_proj _ _ U) as (E1 & E2 & E3 & _). rewrite E1, E2, E3. auto.
Qed.

(* cat.c:1783 *)
Lemma format_read_args_safe : forall f w, Safe (st w) -> fmt_state f (st w) true ->
  Safe (st (fst (format_read_args f w))).
Proof.
  intros f w H Hst. unfold Fsm.format_read_args.
  destruct (fmt_state_inv f _ true H Hst) as (Hv & _).
  destruct (var_ok_at _ _ Hv) as (ci & c & v & E1 & E2 & E3).
  unfold cmd_of, cmd_at. rewrite E1, E2, E3.
  assert (X : exists w1 failed, hrel (st w) (st w1) /\
     (if v_hread v then let (w', r) := call_h w (VRead f ci (g_var f (st w))) in (w', negb (r_code r =? 0)%Z)
      else (w, false)) = (w1, failed)).
  { destruct (v_hread v).
    - pose proof (call_h_hrel w (VRead f ci (g_var f (st w)))) as R.
      destruct (call_h w (VRead f ci (g_var f (st w)))) as [w' r]. eexists _, _. split; [exact R | reflexivity].
    - eexists _, _. split; [apply hrel_refl | reflexivity]. }
  destruct X as (w1 & failed & R & EX). rewrite EX. clear EX.
  destruct (hrel_fmt f _ _ true R Hst) as (Hst1 & Ec1 & Ev1).
  destruct R as (R1 & _). specialize (R1 H).
  destruct failed; wsimp.
  - apply end_with_error_safe, safe_pre, R1.
  - apply (fra_body_safe f (st w1) ci c v); auto; congruence.
Qed.


(* cat.c:1365: the continuation after the variable's write callback *)
Lemma pwa_tail_safe : forall s ci c comma, Pre ATCMD s -> k_cmd (k s) = Some ci ->
  nth_error (pool D) ci = Some c -> k_state (k s) = CS_PARSE_WRITE_ARGS ->
  (comma = true -> nul_from (k_position (k s)) (cbuf s)) ->
  Safe (let idx := S (k_index (k s)) in
        let s := setk_index idx s in
        if (idx <? length (c_vars c)) && comma then setk_var idx s
        else if comma then ack_error s
        else if c_need_all c && negb (idx =? length (c_vars c)) then ack_error s
        else if negb (c_hwrite c) then ack_ok s
        else setk_state CS_WRITE_LOOP s).
Proof.
  intros s ci c comma H E1 E2 Hst Hn. cbv zeta.
  assert (HP : Pre ATCMD (setk_index (S (k_index (k s))) s)) by (pre_open H; pre_tac).
  destruct (Nat.ltb_spec (S (k_index (k s))) (length (c_vars c))) as [L|L]; cbn [andb].
  - destruct comma.
    + pre_open H. safe_split. unfold KS, var_ok; sproj. rewrite Hst, E1, E2. auto.
    + destruct (_ && _); [apply ack_error_safe; exact HP|].
      destruct (negb _); [apply ack_ok_safe; exact HP|].
      pre_open H. safe_split. unfold KS, cmd_ok; sproj. rewrite E1.
      apply nth_error_Some. congruence.
  - destruct comma; [apply ack_error_safe; exact HP|].
    destruct (_ && _); [apply ack_error_safe; exact HP|].
    destruct (negb _); [apply ack_ok_safe; exact HP|].
    pre_open H. safe_split. unfold KS, cmd_ok; sproj. rewrite E1.
    apply nth_error_Some. congruence.
Qed.

Lemma parse_write_args_safe : forall w, Safe (st w) -> k_state (k (st w)) = CS_PARSE_WRITE_ARGS ->
  Safe (st (fst (parse_write_args w))).
Proof.
  intros w H Hst. unfold Fsm.parse_write_args.
  pose proof (safe_pre ATCMD _ H) as HP.
  assert (HK : var_ok (k_cmd (k (st w))) (k_var (k (st w))) /\
               nul_from (k_position (k (st w))) (cbuf (st w))).
  { destruct H as (_ & HK & _). unfold KS in HK. rewrite Hst in HK. exact HK. }
  destruct HK as [Hv Hn].
  destruct (var_ok_at _ _ Hv) as (ci & c & v & E1 & E2 & E3).
  unfold cmd_of, cmd_at. sproj. rewrite E1, E2, E3.
  destruct (wf_var_at _ _ _ _ E2 E3) as [Wv _].
  assert (Hm : map (@length N) (mem (st w)) = map (@length N) m) by apply H.
  destruct (mem_slot _ v Hm Wv) as (data & Ed & Ld). rewrite Ed.
  pose proof (decode_var_safe v (skipn (k_position (k (st w))) (cbuf (st w))) data Hn Ld) as Dv.
  destruct (decode_var v _ data) as [[[pst data'] wsz] n]. destruct Dv as (D1 & D2 & D3).
  set (s1 := set_mem (upd (mem (st w)) (v_slot v) data')
                     (setk_position (k_position (k (st w)) + n) (st w))).
  assert (HP1 : Pre ATCMD s1).
  { subst s1. pre_open HP. pre_tac. rewrite <- Hm. eapply map_length_upd; eauto. }
  destruct pst as [| |comma]; [congruence | wsimp; apply ack_error_safe; exact HP1 |].
  set (s2 := setk_write_size wsz s1).
  assert (HP2 : Pre ATCMD s2) by (subst s2; pre_open HP1; pre_tac).
  assert (X : exists w3 failed, hrel s2 (st w3) /\
     (if v_hwrite v
      then let (w', r) := call_h (set_st s2 w) (VWrite ci (k_var (k (st w))) wsz data') in
           (w', negb (r_code r =? 0)%Z)
      else (set_st s2 w, false)) = (w3, failed)).
  { destruct (v_hwrite v).
    - pose proof (call_h_hrel (set_st s2 w) (VWrite ci (k_var (k (st w))) wsz data')) as R.
      destruct (call_h (set_st s2 w) _) as [w' r]. cbn [Fsm.st Fsm.set_st fst] in R.
      exists w', (negb (r_code r =? 0)%Z). split; [exact R | reflexivity].
    - exists (set_st s2 w), false. split; [apply hrel_refl | reflexivity]. }
  destruct X as (w3 & failed & R & EX). rewrite EX. clear EX.
  destruct R as (_ & R2 & K & _). specialize (R2 ATCMD HP2).
  destruct (kv_proj _ _ K) as (K1 & K2 & _ & _ & K5 & K6).
  destruct failed; wsimp; [apply ack_error_safe; exact R2|].
  apply (pwa_tail_safe (st w3) ci c comma); auto.
  - rewrite K2. exact E1.
  - rewrite K1. exact Hst.
  - intros ->. rewrite K5, K6. subst s2 s1. sproj.
    unfold nul_from. rewrite <- skipn_skipn_add. apply D3. reflexivity.
Qed.

(* cat.c:2461 *)
Lemma process_io_write_safe : forall w, Safe (st w) -> k_state (k (st w)) = CS_FLUSH ->
  Safe (st (fst (process_io_write w))).
Proof.
  intros w H Hst. unfold Fsm.process_io_write.
  assert (F : flush_ok (k_wbuf (k (st w))) (k_wstate (k (st w))) (k_position (k (st w))) (cbuf (st w))).
  { destruct H as (_ & HK & _). unfold KS in HK. rewrite Hst in HK. apply HK. }
  destruct (wbuf_char_ok _ _ _ _ F) as (ch & Ec & _). rewrite Ec.
  destruct (N.eqb_spec ch 0) as [Z|Z]; wsimp.
  - apply flush_done_k_safe; assumption.
  - destruct (io_write (io w) ch) as [io' ok]. destruct ok; wsimp; [|exact H].
    eapply flush_adv_k_safe; eauto.
Qed.

(* cat.c:2493 *)
Lemma unsolicited_process_io_write_safe : forall w, Safe (st w) -> u_state (u (st w)) = US_FLUSH ->
  Safe (st (fst (unsolicited_process_io_write w))).
Proof.
  intros w H Hst. unfold Fsm.unsolicited_process_io_write.
  assert (F : flush_ok (u_wbuf (u (st w))) (u_wstate (u (st w))) (u_position (u (st w))) (ubuf (st w))).
  { destruct H as (_ & _ & HU). unfold US in HU. rewrite Hst in HU. apply HU. }
  destruct (wbuf_char_ok _ _ _ _ F) as (ch & Ec & _). rewrite Ec.
  destruct (N.eqb_spec ch 0) as [Z|Z]; wsimp.
  - apply flush_done_u_safe; assumption.
  - destruct (io_write (io w) ch) as [io' ok]. destruct ok; wsimp; [|exact H].
    eapply flush_adv_u_safe; eauto.
Qed.


(* ------------------------------------------------------------------ *)
(* cat_service                                                          *)
(* ------------------------------------------------------------------ *)

Lemma cmd_service_safe : forall w, Safe (st w) -> Safe (st (fst (cmd_service w))).
Proof.
  intros w H. unfold Fsm.cmd_service.
  destruct (k_state (k (st w))) eqn:Hst;
    unfold Fsm.error_state, Fsm.process_idle_state, Fsm.parse_prefix, Fsm.parse_command,
           Fsm.wait_read_acknowledge, Fsm.wait_test_acknowledge, Fsm.parse_command_args.
  - apply reading_safe; [exact H|]. intros ch s Hs _. apply error_body_safe, Hs.
  - apply reading_safe; [exact H|]. intros ch s Hs _. apply idle_body_safe, Hs.
  - apply reading_safe; [exact H|]. intros ch s Hs _. apply prefix_body_safe, Hs.
  - apply reading_safe; [exact H|]. intros ch s Hs E. apply parse_command_body_safe; [exact Hs | congruence].
  - wsimp. apply update_command_safe; assumption.
  - apply reading_safe; [exact H|]. intros ch s Hs _. apply wait_read_body_safe, Hs.
  - wsimp. apply search_command_safe; assumption.
  - wsimp. apply command_found_safe; assumption.
  - wsimp. apply ack_error_safe, safe_pre, H.
  - apply reading_safe; [exact H|]. intros ch s Hs E.
    apply parse_command_args_body_safe; [exact Hs | congruence].
  - apply parse_write_args_safe; assumption.
  - apply format_read_args_safe; [exact H | exact Hst].
  - apply reading_safe; [exact H|]. intros ch s Hs E. apply wait_test_body_safe; [exact Hs | congruence].
  - wsimp. apply format_test_args_safe; [exact H | exact Hst].
  - apply process_write_loop_safe; assumption.
  - apply process_rt_loop_safe; [exact H | left; exact Hst].
  - apply process_rt_loop_safe; [exact H | right; exact Hst].
  - apply process_run_loop_safe; assumption.
  - wsimp. apply process_hold_state_safe, H.
  - wsimp. apply process_io_write_wait_safe; assumption.
  - apply process_io_write_safe; assumption.
  - wsimp. apply reset_state_safe, safe_pre, H.
  - wsimp. apply ack_ok_safe, safe_pre, H.
  - wsimp. apply spfra_safe; [apply safe_pre, H|].
    destruct H as (_ & HK & _). unfold KS in HK. rewrite Hst in HK. exact HK.
  - wsimp. apply spfta_safe; [apply safe_pre, H|].
    destruct H as (_ & HK & _). unfold KS in HK. rewrite Hst in HK. exact HK.
  - wsimp. apply print_cmd_list_safe; assumption.
Qed.

Lemma unsolicited_events_service_safe : forall w, Safe (st w) ->
  Safe (st (fst (unsolicited_events_service w))).
Proof.
  intros w H. unfold Fsm.unsolicited_events_service.
  destruct (u_state (u (st w))) eqn:Hst.
  - destruct (negb (ring_empty (st w))); [|exact H].
    destruct (ring_items D (st w)); wsimp; apply check_unsolicited_buffers_safe; assumption.
  - apply format_read_args_safe; [exact H | exact Hst].
  - wsimp. apply format_test_args_safe; [exact H | exact Hst].
  - apply process_rt_loop_safe; [exact H | left; exact Hst].
  - apply process_rt_loop_safe; [exact H | right; exact Hst].
  - wsimp. apply unsolicited_process_io_write_wait_safe; assumption.
  - apply unsolicited_process_io_write_safe; assumption.
  - wsimp. apply unsolicited_reset_state_safe, safe_pre, H.
  - wsimp. apply unsolicited_reset_state_safe, safe_pre, H.
  - wsimp. apply spfra_safe; [apply safe_pre, H|].
    destruct H as (_ & _ & HU). unfold US in HU. rewrite Hst in HU. exact HU.
  - wsimp. apply spfta_safe; [apply safe_pre, H|].
    destruct H as (_ & _ & HU). unfold US in HU. rewrite Hst in HU. exact HU.
Qed.

Lemma service_body_safe : forall w, Safe (st w) -> Safe (st (fst (service_body w))).
Proof.
  intros w H. unfold Fsm.service_body.
  pose proof (unsolicited_events_service_safe w H) as H1.
  destruct (unsolicited_events_service w) as [w1 us]. cbn [fst] in H1.
  pose proof (cmd_service_safe w1 H1) as H2.
  destruct (cmd_service w1) as [w2 s]. cbn [fst] in H2.
  destruct (_ || _); exact H2.
Qed.

Lemma bracket_st : forall (P : state -> Prop) w body, P (st w) ->
  (forall w', st w' = st w -> P (st (fst (body w')))) ->
  P (st (fst (bracket w body))).
Proof.
  intros P w body H Hb. unfold Fsm.bracket. destruct (d_mutex D); [|apply Hb; reflexivity].
  destruct (mu_lock (mu w)) as [m1 ok]. destruct ok; cbn [negb fst]; [|exact H].
  specialize (Hb (logw (ELock true) (set_mu m1 w)) eq_refl).
  destruct (body (logw (ELock true) (set_mu m1 w))) as [w2 r]. cbn [fst] in Hb.
  destruct (mu_unlock (mu w2)) as [m2 ok2]. destruct ok2; cbn [negb fst]; exact Hb.
Qed.

Definition op_ok (o : op) : Prop :=
  match o with OTrigger ci _ => ci < npool | _ => True end.

Lemma do_op_safe : forall w o, op_ok o -> Safe (st w) -> Safe (st (fst (do_op w o))).
Proof.
  intros w o Ho H. destruct o; cbn [Fsm.do_op op_ok] in *;
    unfold Fsm.api_service, Fsm.api_trigger, Fsm.api_hold_exit, Fsm.api_is_busy, Fsm.api_is_hold,
           Fsm.api_is_full;
    try (apply bracket_st; [exact H|]; intros w' E; cbn [fst]; rewrite E; exact H);
    try exact H.
  - apply bracket_st; [exact H|]. intros w' E. apply service_body_safe. rewrite E. exact H.
  - apply bracket_st; [exact H|]. intros w' E.
    pose proof (push_safe (st w') ci t) as X. rewrite E in X. specialize (X H Ho). rewrite E.
    destruct (push_unsolicited_cmd D (st w) ci t) as [s' r]. exact X.
  - apply bracket_st; [exact H|]. intros w' E.
    pose proof (hold_exit_safe (st w') status) as X. rewrite E in X. specialize (X H). rewrite E.
    destruct (hold_exit (st w) status) as [s' r]. exact X.
Qed.

Lemma step_safe : forall w o, op_ok o -> Safe (st w) -> Safe (st (step w o)).
Proof.
  intros w o Ho H. unfold Fsm.step. pose proof (do_op_safe w o Ho H) as X.
  destruct (do_op w o) as [w' r]. exact X.
Qed.

Lemma run_safe : forall ops w, Forall op_ok ops -> Safe (st w) -> Safe (st (run w ops)).
Proof.
  unfold Fsm.run. induction ops as [|o ops IH]; intros w F H; [exact H|].
  inversion F; subst. cbn [fold_left]. apply IH; [assumption|]. apply step_safe; assumption.
Qed.

Theorem no_fault_gen : forall x mx h ops, Forall op_ok ops ->
  fault (st (run (mkWorld (init_state D m) x mx h []) ops)) = false.
Proof.
  intros x mx h ops F. apply safe_fault. apply run_safe; [exact F|]. apply safe_init.
Qed.


End Inv.

(* ================================================================== *)
(* the requested statement                                             *)
(* ================================================================== *)

Theorem C03_no_fault_proof : forall (D : desc) (ioS muS hS : Type)
  (io_read : ioS -> ioS * option N) (io_write : ioS -> N -> ioS * bool)
  (mu_lock mu_unlock : muS -> muS * bool) (h_call : hS -> hreq -> hS * hres),
  (forall hs q, Forall (valid_icall D) (r_calls (snd (h_call hs q)))) ->
  forall m x mx h ops, wf_desc D m -> Forall (valid_op D) ops ->
  fault (st ioS muS hS (run D ioS muS hS io_read io_write mu_lock mu_unlock h_call
                            (mkWorld ioS muS hS (init_state D m) x mx h []) ops)) = false.
Proof.
  intros D ioS muS hS io_read io_write mu_lock mu_unlock h_call HV m x mx h ops WF F.
  apply no_fault_gen; [exact WF | |].
  - intros hs0 q. eapply Forall_impl; [|apply HV]. intros [ci t|z] Hc; cbn in *; [apply Hc | exact I].
  - eapply Forall_impl; [|exact F]. intros o Ho. destruct o; cbn in *; try exact I. apply Ho.
Qed.

(* the same with the weakest hypothesis the proof uses: events only have to name a command of
   the pool, whatever their type *)
Theorem C03_no_fault_any_type_proof : forall (D : desc) (ioS muS hS : Type)
  (io_read : ioS -> ioS * option N) (io_write : ioS -> N -> ioS * bool)
  (mu_lock mu_unlock : muS -> muS * bool) (h_call : hS -> hreq -> hS * hres),
  (forall hs q, Forall (icall_ok D) (r_calls (snd (h_call hs q)))) ->
  forall m x mx h ops, wf_desc D m -> Forall (op_ok D) ops ->
  fault (st ioS muS hS (run D ioS muS hS io_read io_write mu_lock mu_unlock h_call
                            (mkWorld ioS muS hS (init_state D m) x mx h []) ops)) = false.
Proof. intros. apply no_fault_gen; assumption. Qed.
