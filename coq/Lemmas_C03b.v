(* Lemmas_C03b.v — property C03 (no fault), part b: the supported domain, the invariant Safe,
   Safe (init_state), and preservation by the pure helpers (ring, hold, acknowledgements,
   flush, name matching, list printer). *)
From Coq Require Import List NArith ZArith Bool Arith Lia.
From CatV Require Import Bytes Defs Codec Fsm Lemmas_C03a.
Import ListNotations.
Local Open Scope nat_scope.

(* ------------------------------------------------------------------ *)
(* supported domain                                                     *)
(* ------------------------------------------------------------------ *)

Definition wf_var (m : list (list N)) (v : var) : Prop :=
  exists data, nth_error m (v_slot v) = Some data /\ v_size v <= length data.

(* a hex-buffer variable of size 0 prints nothing: harmless in first position (the text
   "NAME=" is already NUL-terminated), but after a comma the response would not be terminated *)
Definition hexbuf_nonempty (v : var) : Prop := v_type v = VBufHex -> 0 < v_size v.

Definition wf_desc (D : desc) (m : list (list N)) : Prop :=
  0 < d_cap D /\ 0 < ncmds D /\ ncmds D <= 4 * asz_of D /\ 6 <= asz_of D /\
  Forall (fun c => Forall (wf_var m) (c_vars c)) (pool D) /\
  Forall (fun c => Forall hexbuf_nonempty (tl (c_vars c))) (pool D).

Definition valid_trigger (D : desc) (ci : nat) (t : ctype) : Prop :=
  ci < length (pool D) /\ (t = T_READ \/ t = T_TEST).
Definition valid_op (D : desc) (o : op) : Prop :=
  match o with OTrigger ci t => valid_trigger D ci t | _ => True end.
Definition valid_icall (D : desc) (c : icall) : Prop :=
  match c with ITrigger ci t => valid_trigger D ci t | _ => True end.

(* ------------------------------------------------------------------ *)
(* symbolic evaluation of the record setters                            *)
(* ------------------------------------------------------------------ *)

Ltac sproj :=
  unfold g_bsz, asz, usz;
  cbn [k u cbuf ubuf mem dis_cmd dis_grp fault gL gS gR k_index k_partial k_length k_position
       k_write_size k_cmd k_var k_type k_char k_state k_cr k_hold k_hold_exit k_wbuf k_wstate
       k_wafter k_implicit u_state u_index u_position u_cmd u_var u_type u_wbuf u_wstate u_wafter
       u_ring u_tail u_head u_count set_k_index set_k_partial set_k_length set_k_position
       set_k_write_size set_k_cmd set_k_var set_k_type set_k_char set_k_state set_k_cr set_k_hold
       set_k_hold_exit set_k_wbuf set_k_wstate set_k_wafter set_k_implicit set_u_state set_u_index
       set_u_position set_u_cmd set_u_var set_u_type set_u_wbuf set_u_wstate set_u_wafter
       set_u_ring set_u_tail set_u_head set_u_count set_k set_u set_cbuf set_ubuf set_mem
       set_dis_cmd set_dis_grp set_fault set_gL set_gS set_gR setk_index setk_partial setk_length
       setk_position setk_write_size setk_cmd setk_var setk_type setk_char setk_state setk_cr
       setk_hold setk_hold_exit setk_wbuf setk_wstate setk_wafter setk_implicit setu_state
       setu_index setu_position setu_cmd setu_var setu_type setu_wbuf setu_wstate setu_wafter
       setu_ring setu_tail setu_head setu_count g_pos setg_pos g_buf setg_buf g_cmd g_var setg_var
       g_index setg_index g_bsz asz usz set_fault_flag fst snd].

Ltac sproj_in H :=
  unfold g_bsz, asz, usz in H;
  cbn [k u cbuf ubuf mem dis_cmd dis_grp fault gL gS gR k_index k_partial k_length k_position
       k_write_size k_cmd k_var k_type k_char k_state k_cr k_hold k_hold_exit k_wbuf k_wstate
       k_wafter k_implicit u_state u_index u_position u_cmd u_var u_type u_wbuf u_wstate u_wafter
       u_ring u_tail u_head u_count set_k_index set_k_partial set_k_length set_k_position
       set_k_write_size set_k_cmd set_k_var set_k_type set_k_char set_k_state set_k_cr set_k_hold
       set_k_hold_exit set_k_wbuf set_k_wstate set_k_wafter set_k_implicit set_u_state set_u_index
       set_u_position set_u_cmd set_u_var set_u_type set_u_wbuf set_u_wstate set_u_wafter
       set_u_ring set_u_tail set_u_head set_u_count set_k set_u set_cbuf set_ubuf set_mem
       set_dis_cmd set_dis_grp set_fault set_gL set_gS set_gR setk_index setk_partial setk_length
       setk_position setk_write_size setk_cmd setk_var setk_type setk_char setk_state setk_cr
       setk_hold setk_hold_exit setk_wbuf setk_wstate setk_wafter setk_implicit setu_state
       setu_index setu_position setu_cmd setu_var setu_type setu_wbuf setu_wstate setu_wafter
       setu_ring setu_tail setu_head setu_count g_pos setg_pos g_buf setg_buf g_cmd g_var setg_var
       g_index setg_index g_bsz asz usz set_fault_flag fst snd] in H.

Section Inv.
Variable D : desc.
Variable m : list (list N).
Hypothesis WF : wf_desc D m.

Local Notation npool := (length (pool D)).

(* ------------------------------------------------------------------ *)
(* the invariant                                                        *)
(* ------------------------------------------------------------------ *)

Definition cmd_wk (oc : option nat) : Prop :=
  match oc with Some ci => ci < npool | None => True end.
Definition cmd_ok (oc : option nat) : Prop :=
  match oc with Some ci => ci < npool | None => False end.
Definition var_ok (oc : option nat) (vi : nat) : Prop :=
  match oc with
  | Some ci => match nth_error (pool D) ci with
               | Some c => vi < length (c_vars c)
               | None => False
               end
  | None => False
  end.

Definition nl_max (crlf : bool) : nat := if crlf then 2 else 1.

(* a pending flush: the text being sent is terminated at or after the cursor, and the main text
   is terminated when it is still to be sent *)
Definition flush_ok (wb : wbuf) (ws : wstate) (p : nat) (b : list N) : Prop :=
  match wb with WB_NL crlf => p <= nl_max crlf | WB_MAIN => nul_from p b end /\
  match ws with WS_BEFORE => In 0%N b | _ => True end.

(* what the state entered after the flush needs *)
Definition Kafter (x : cfsm) : Prop :=
  match k_wafter x with
  | CS_AFTER_RESET | CS_AFTER_OK => True
  | CS_AFTER_FMT_READ | CS_AFTER_FMT_TEST => cmd_ok (k_cmd x)
  | CS_PRINT_CMD => k_index x < ncmds D
  | _ => False
  end.

Definition KS (x : cfsm) (b : list N) : Prop :=
  match k_state x with
  | CS_ERROR | CS_IDLE | CS_PARSE_PREFIX | CS_WAIT_READ_ACK | CS_COMMAND_NOT_FOUND
  | CS_HOLD | CS_AFTER_RESET | CS_AFTER_OK => True
  | CS_PARSE_COMMAND_CHAR | CS_SEARCH_COMMAND | CS_PRINT_CMD => k_index x < ncmds D
  | CS_UPDATE_COMMAND_STATE => k_index x < ncmds D /\ 1 <= k_length x
  | CS_COMMAND_FOUND | CS_WAIT_TEST_ACK | CS_WRITE_LOOP | CS_RUN_LOOP
  | CS_AFTER_FMT_READ | CS_AFTER_FMT_TEST => cmd_ok (k_cmd x)
  | CS_PARSE_COMMAND_ARGS => cmd_ok (k_cmd x) /\ nth_error b (k_length x) = Some 0%N
  | CS_PARSE_WRITE_ARGS => var_ok (k_cmd x) (k_var x) /\ nul_from (k_position x) b
  | CS_FORMAT_READ_ARGS =>
      var_ok (k_cmd x) (k_var x) /\ k_position x <= length b /\
      (k_var x = 0 -> nth_error b (k_position x) = Some 0%N)
  | CS_FORMAT_TEST_ARGS => var_ok (k_cmd x) (k_var x) /\ k_position x <= length b
  | CS_READ_LOOP | CS_TEST_LOOP => cmd_ok (k_cmd x) /\ In 0%N b
  | CS_FLUSH_WAIT | CS_FLUSH => flush_ok (k_wbuf x) (k_wstate x) (k_position x) b /\ Kafter x
  end.

Definition ring_ok (y : ufsm) : Prop :=
  length (u_ring y) = d_cap D /\ u_head y < d_cap D /\ u_tail y < d_cap D /\
  Forall (fun it => fst it < npool) (u_ring y).

Definition Uafter (y : ufsm) : Prop :=
  match u_wafter y with
  | US_AFTER_RESET | US_AFTER_OK => True
  | US_AFTER_FMT_READ | US_AFTER_FMT_TEST => cmd_ok (u_cmd y)
  | _ => False
  end.

Definition US (y : ufsm) (b : list N) : Prop :=
  match u_state y with
  | US_IDLE | US_AFTER_RESET | US_AFTER_OK => True
  | US_FORMAT_READ_ARGS =>
      var_ok (u_cmd y) (u_var y) /\ u_position y <= length b /\
      (u_var y = 0 -> nth_error b (u_position y) = Some 0%N)
  | US_FORMAT_TEST_ARGS => var_ok (u_cmd y) (u_var y) /\ u_position y <= length b
  | US_READ_LOOP | US_TEST_LOOP => cmd_ok (u_cmd y) /\ In 0%N b
  | US_FLUSH_WAIT | US_FLUSH => flush_ok (u_wbuf y) (u_wstate y) (u_position y) b /\ Uafter y
  | US_AFTER_FMT_READ | US_AFTER_FMT_TEST => cmd_ok (u_cmd y)
  end.

(* the part of the invariant that does not depend on the machines' states *)
Definition Base (s : state) : Prop :=
  fault s = false /\ length (cbuf s) = asz_of D /\ length (ubuf s) = usz_of D /\
  map (@length N) (mem s) = map (@length N) m /\
  cmd_wk (k_cmd (k s)) /\ cmd_wk (u_cmd (u s)) /\ ring_ok (u s).

Definition Safe (s : state) : Prop :=
  Base s /\ KS (k s) (cbuf s) /\ US (u s) (ubuf s).

(* what a function that overwrites the state of machine f needs from the rest *)
Definition Pre (f : fsm) (s : state) : Prop :=
  Base s /\ match f with ATCMD => US (u s) (ubuf s) | UNSOL => KS (k s) (cbuf s) end.

Lemma safe_pre : forall f s, Safe s -> Pre f s.
Proof. intros f s (B & HK & HU). destruct f; split; assumption. Qed.

(* domain facts *)
Lemma wf_cap : 0 < d_cap D. Proof. apply WF. Qed.
Lemma wf_ncmds : 0 < ncmds D. Proof. apply WF. Qed.
Lemma wf_lanes : ncmds D <= 4 * asz_of D. Proof. apply WF. Qed.
Lemma wf_asz : 6 <= asz_of D. Proof. apply WF. Qed.
Lemma ncmds_pool : ncmds D <= npool.
Proof. unfold pool, ncmds. rewrite app_length. lia. Qed.

Lemma cmd_ok_wk : forall oc, cmd_ok oc -> cmd_wk oc.
Proof. intros [ci|]; cbn; auto. Qed.
Lemma var_ok_cmd : forall oc vi, var_ok oc vi -> cmd_ok oc.
Proof.
  intros [ci|] vi; cbn; auto. destruct (nth_error (pool D) ci) eqn:E; [|tauto].
  intros _. apply nth_error_Some. congruence.
Qed.
Lemma cmd_ok_at : forall oc, cmd_ok oc -> exists ci c, oc = Some ci /\ nth_error (pool D) ci = Some c.
Proof.
  intros [ci|] H; cbn in H; [|tauto]. destruct (nth_error (pool D) ci) eqn:E; eauto.
  apply nth_error_None in E. lia.
Qed.

(* ------------------------------------------------------------------ *)
(* tactics                                                              *)
(* ------------------------------------------------------------------ *)

Ltac base_open H :=
  let Hf := fresh "Hf" in let Hcb := fresh "Hcb" in let Hub := fresh "Hub" in
  let Hm := fresh "Hm" in let Hkc := fresh "Hkc" in let Huc := fresh "Huc" in
  let Hr := fresh "Hr" in
  destruct H as (Hf & Hcb & Hub & Hm & Hkc & Huc & Hr).

Ltac safe_open H :=
  let HB := fresh "HB" in let HK := fresh "HK" in let HU := fresh "HU" in
  destruct H as (HB & HK & HU); base_open HB.

Ltac pre_open H :=
  let HB := fresh "HB" in let HO := fresh "HO" in
  destruct H as (HB & HO); base_open HB; sproj_in HO.

(* Base (setters s): seven parts, those that are syntactically unchanged are closed *)
Ltac base_split :=
  unfold Base; sproj;
  split; [try assumption | split; [try assumption | split; [try assumption |
  split; [try assumption | split; [try assumption | split; [try assumption | try assumption]]]]]].

Ltac safe_split :=
  unfold Safe; sproj; split; [base_split | split; [try assumption | try assumption]].

(* ------------------------------------------------------------------ *)
(* Safe (init_state)                                                    *)
(* ------------------------------------------------------------------ *)

Lemma safe_init : Safe (init_state D m).
Proof.
  unfold Safe, Base, init_state, init_cfsm, init_ufsm, KS, US, ring_ok, cmd_wk. sproj.
  rewrite !repeat_length. repeat split; auto using wf_cap.
  pose proof wf_ncmds. pose proof ncmds_pool.
  apply Forall_forall. intros it Hin. apply repeat_spec in Hin. subst it. cbn [fst]. lia.
Qed.

Lemma safe_fault : forall s, Safe s -> fault s = false.
Proof. intros s H. apply H. Qed.

(* ------------------------------------------------------------------ *)
(* acknowledgements, reset, hold                                        *)
(* ------------------------------------------------------------------ *)

Lemma txt_ok_nul : forall n, 6 <= n -> In 0%N (strncpy_buf n txt_OK).
Proof. intros n H. apply strncpy_nul. change (length txt_OK) with 2. lia. Qed.
Lemma txt_error_nul : forall n, 6 <= n -> In 0%N (strncpy_buf n txt_ERROR).
Proof. intros n H. apply strncpy_nul. change (length txt_ERROR) with 5. lia. Qed.

Lemma nl_max_0 : forall b, 0 <= nl_max b. Proof. intros; lia. Qed.

Lemma ack_error_safe : forall s, Pre ATCMD s -> Safe (ack_error s).
Proof.
  intros s H. pre_open H. unfold ack_error, start_flush_c. safe_split.
  - rewrite strncpy_len. exact Hcb.
  - unfold KS, flush_ok, Kafter. sproj.
    pose proof wf_asz. repeat split; auto using nl_max_0.
    apply txt_error_nul. lia.
Qed.

Lemma ack_ok_safe : forall s, Pre ATCMD s -> Safe (ack_ok s).
Proof.
  intros s H. pre_open H. unfold ack_ok, start_flush_c. safe_split.
  - rewrite strncpy_len. exact Hcb.
  - unfold KS, flush_ok, Kafter. sproj.
    pose proof wf_asz. repeat split; auto using nl_max_0.
    apply txt_ok_nul. lia.
Qed.

Lemma reset_state_safe : forall s, Pre ATCMD s -> Safe (reset_state s).
Proof.
  intros s H. pre_open H. unfold reset_state.
  destruct (k_hold (k s)); safe_split; unfold KS, cmd_wk; sproj; auto.
Qed.

Lemma unsolicited_reset_state_safe : forall s, Pre UNSOL s -> Safe (unsolicited_reset_state s).
Proof.
  intros s H. pre_open H. unfold unsolicited_reset_state. safe_split; unfold US, cmd_wk; sproj; auto.
Qed.

Lemma enable_hold_state_safe : forall s, Safe s -> Safe (enable_hold_state s).
Proof.
  intros s H. safe_open H. unfold enable_hold_state. safe_split. unfold KS; sproj; auto.
Qed.

Lemma hold_exit_safe : forall s z, Safe s -> Safe (fst (hold_exit s z)).
Proof.
  intros s z H. unfold hold_exit. destruct (negb (k_hold (k s))); cbn [fst]; [exact H|].
  safe_open H. safe_split.
Qed.

Lemma hold_exit_pre : forall f s z, Pre f s -> Pre f (fst (hold_exit s z)).
Proof.
  intros f s z H. unfold hold_exit. destruct (negb (k_hold (k s))); cbn [fst]; [exact H|].
  pre_open H. split; [base_split | destruct f; sproj; assumption].
Qed.

Lemma process_hold_state_safe : forall s, Safe s -> Safe (process_hold_state s).
Proof.
  intros s H. unfold process_hold_state.
  destruct (k_hold_exit (k s) =? 0)%Z; [exact H|].
  assert (H1 : Pre ATCMD (setk_hold false s)).
  { apply (safe_pre ATCMD) in H. pre_open H. split; [base_split | sproj; assumption]. }
  destruct (k_hold_exit (k s) <? 0)%Z; [apply ack_error_safe | apply ack_ok_safe]; exact H1.
Qed.


(* ------------------------------------------------------------------ *)
(* the event queue                                                      *)
(* ------------------------------------------------------------------ *)

Lemma ring_next_lt : forall i, (if d_cap D <=? S i then 0 else S i) < d_cap D.
Proof. intros i. pose proof wf_cap. destruct (Nat.leb_spec (d_cap D) (S i)); lia. Qed.

(* pushing changes the ring, tail and count only *)
Lemma push_eff : forall s ci t, ring_ok (u s) -> ci < npool ->
  exists r tl cnt, fst (push_unsolicited_cmd D s ci t) = setu_count cnt (setu_tail tl (setu_ring r s)) /\
    ring_ok (set_u_count cnt (set_u_tail tl (set_u_ring r (u s)))).
Proof.
  intros s ci t (R1 & R2 & R3 & R4) Hci. unfold push_unsolicited_cmd.
  destruct (ring_full D s); cbn [fst].
  - exists (u_ring (u s)), (u_tail (u s)), (u_count (u s)). split.
    + destruct s as [kk [? ? ? ? ? ? ? ? ? ? ? ? ?] ? ? ? ? ? ? ? ? ?]. reflexivity.
    + unfold ring_ok. sproj. auto.
  - destruct (Nat.ltb_spec (u_tail (u s)) (length (u_ring (u s)))) as [L|L]; [|lia].
    eexists _, _, _. split; [reflexivity|].
    unfold ring_ok, cap. sproj. rewrite upd_len. repeat split; auto using ring_next_lt.
    apply Forall_upd; auto.
Qed.

Lemma push_safe : forall s ci t, Safe s -> ci < npool -> Safe (fst (push_unsolicited_cmd D s ci t)).
Proof.
  intros s ci t H Hci. safe_open H.
  destruct (push_eff s ci t Hr Hci) as (r & tl & cnt & E & R). rewrite E. safe_split.
Qed.

Lemma push_pre : forall f s ci t, Pre f s -> ci < npool -> Pre f (fst (push_unsolicited_cmd D s ci t)).
Proof.
  intros f s ci t H Hci. destruct H as (HB & HO). base_open HB.
  destruct (push_eff s ci t Hr Hci) as (r & tl & cnt & E & R). rewrite E.
  split; [base_split | destruct f; sproj; assumption].
Qed.

(* popping changes head and count only; the item names a command of the pool *)
Lemma pop_eff : forall s, ring_ok (u s) ->
  (pop_unsolicited_cmd D s = (s, None)) \/
  exists hd cnt it, pop_unsolicited_cmd D s = (setu_count cnt (setu_head hd s), Some it) /\
    fst it < npool /\ ring_ok (set_u_count cnt (set_u_head hd (u s))).
Proof.
  intros s (R1 & R2 & R3 & R4). unfold pop_unsolicited_cmd.
  destruct (ring_empty s); [left; reflexivity|]. right.
  destruct (nth_error (u_ring (u s)) (u_head (u s))) as [it|] eqn:E.
  - eexists _, _, it. split; [reflexivity|]. split.
    + eapply Forall_nth_error in R4; eauto.
    + unfold ring_ok, cap. sproj. repeat split; auto using ring_next_lt.
  - apply nth_error_None in E. lia.
Qed.

(* ------------------------------------------------------------------ *)
(* stores by the application                                            *)
(* ------------------------------------------------------------------ *)

Lemma apply_poke_mem : forall s p,
  map (@length N) (mem (apply_poke s p)) = map (@length N) (mem s).
Proof.
  intros s p. unfold apply_poke.
  destruct (nth_error (mem s) (fst p)) as [data|] eqn:E; [|reflexivity].
  destruct (store_prefix data (snd p)) as [d|] eqn:E2; [|reflexivity].
  sproj. eapply map_length_upd; eauto. eapply store_prefix_len; eauto.
Qed.

Lemma apply_poke_eff : forall s p, exists mm, apply_poke s p = set_mem mm s /\
  map (@length N) mm = map (@length N) (mem s).
Proof.
  intros s p. exists (mem (apply_poke s p)). split; [|apply apply_poke_mem].
  unfold apply_poke.
  destruct (nth_error (mem s) (fst p)) as [data|]; [|destruct s; reflexivity].
  destruct (store_prefix data (snd p)) as [d|]; [reflexivity | destruct s; reflexivity].
Qed.

Lemma apply_poke_safe : forall s p, Safe s -> Safe (apply_poke s p).
Proof.
  intros s p H. destruct (apply_poke_eff s p) as (mm & E & L). rewrite E.
  safe_open H. safe_split. congruence.
Qed.

Lemma apply_poke_pre : forall f s p, Pre f s -> Pre f (apply_poke s p).
Proof.
  intros f s p H. destruct (apply_poke_eff s p) as (mm & E & L). rewrite E.
  pre_open H. split; [base_split; congruence | destruct f; sproj; assumption].
Qed.


(* ------------------------------------------------------------------ *)
(* printing through the per-machine cursor: the effect is a new buffer  *)
(* of the same length and a new position inside it                      *)
(* ------------------------------------------------------------------ *)

Lemma get_cur_ok : forall f s, g_pos f s <= g_bsz f s -> cur_ok (g_bsz f s) (get_cur f s).
Proof. intros f s H. unfold get_cur, cur_ok. cbn [cu_fault cu_buf cu_pos]. auto. Qed.

Lemma put_cur_nf : forall f c s, cu_fault c = false ->
  put_cur f c s = setg_pos f (cu_pos c) (setg_buf f (cu_buf c) s).
Proof. intros f c s H. unfold put_cur. rewrite H. reflexivity. Qed.

Lemma print_string_eff : forall f s t, g_pos f s <= g_bsz f s ->
  exists b p ok, print_string f s t = (setg_pos f p (setg_buf f b s), ok) /\
    length b = g_bsz f s /\ p <= length b /\ (ok = true -> nth_error b p = Some 0%N).
Proof.
  intros f s t H. unfold print_string.
  destruct (print_nstring_ok _ _ t (get_cur_ok f s H)) as [(A1 & A2 & A3) B].
  destruct (print_nstring (get_cur f s) t) as [c ok]. cbn [fst snd] in *.
  exists (cu_buf c), (cu_pos c), ok. rewrite put_cur_nf by exact A1.
  repeat split; auto. lia.
Qed.

Lemma print_strings_eff : forall f s ts, g_pos f s <= g_bsz f s ->
  exists b p ok, print_strings f s ts = (setg_pos f p (setg_buf f b s), ok) /\
    length b = g_bsz f s /\ p <= length b /\
    (ok = true -> nth_error (g_buf f s) (g_pos f s) = Some 0%N \/ ts <> [] -> nth_error b p = Some 0%N).
Proof.
  intros f s ts H. unfold print_strings.
  destruct (print_pieces_ok ts _ _ (get_cur_ok f s H)) as [(A1 & A2 & A3) B].
  destruct (print_pieces (get_cur f s) ts) as [c ok]. cbn [fst snd] in *.
  exists (cu_buf c), (cu_pos c), ok. rewrite put_cur_nf by exact A1.
  repeat split; auto. lia.
Qed.

Ltac do_print :=
  match goal with
  | |- context [print_string ?f ?s ?t] =>
    let b := fresh "b" in let p := fresh "p" in let ok := fresh "ok" in let E := fresh "E" in
    let L := fresh "L" in let P := fresh "P" in let Z := fresh "Z" in
    destruct (print_string_eff f s t) as (b & p & ok & E & L & P & Z);
    [sproj; try lia | rewrite E; clear E; sproj_in L; destruct ok; cbn [negb]; sproj]
  | |- context [print_strings ?f ?s ?t] =>
    let b := fresh "b" in let p := fresh "p" in let ok := fresh "ok" in let E := fresh "E" in
    let L := fresh "L" in let P := fresh "P" in let Z := fresh "Z" in
    destruct (print_strings_eff f s t) as (b & p & ok & E & L & P & Z);
    [sproj; try lia | rewrite E; clear E; sproj_in L; sproj_in Z; destruct ok; cbn [negb]; sproj]
  end.

Ltac pre_tac := split; [base_split; try congruence; try lia | sproj; try assumption].

Lemma end_with_error_safe : forall f s, Pre f s -> Safe (end_with_error f s).
Proof. intros [|] s H; [apply ack_error_safe | apply unsolicited_reset_state_safe]; exact H. Qed.
Lemma end_with_ok_safe : forall f s, Pre f s -> Safe (end_with_ok f s).
Proof. intros [|] s H; [apply ack_ok_safe | apply unsolicited_reset_state_safe]; exact H. Qed.

Lemma vap_nonempty : forall c a, vars_access_possible c a = true -> 0 < length (c_vars c).
Proof.
  intros c a H. unfold vars_access_possible in H. destruct (c_vars c); [discriminate | cbn; lia].
Qed.

(* cat.c:965 *)
Lemma spfra_safe : forall f s, Pre f s -> cmd_ok (g_cmd f s) ->
  Safe (start_processing_format_read_args D f s).
Proof.
  intros f s H Hc. unfold start_processing_format_read_args, cmd_of, cmd_at.
  destruct f; sproj; sproj_in Hc; pre_open H;
    destruct (cmd_ok_at _ Hc) as (ci & c & E1 & E2); rewrite E1, E2.
  - do_print; [|apply ack_error_safe; pre_tac].
    do_print; [|apply ack_error_safe; pre_tac].
    destruct (vars_access_possible c RO) eqn:V.
    + safe_split; try congruence. unfold KS, var_ok. sproj. rewrite E1, E2.
      apply vap_nonempty in V. auto.
    + destruct (c_hread c); cbn [negb]; [|apply ack_error_safe; pre_tac].
      unfold set_loop_state. safe_split; try congruence. unfold KS; sproj.
      split; [exact Hc|]. eapply nth_In0; eauto.
  - do_print; [|apply unsolicited_reset_state_safe; pre_tac].
    do_print; [|apply unsolicited_reset_state_safe; pre_tac].
    destruct (vars_access_possible c RO) eqn:V.
    + safe_split; try congruence. unfold US, var_ok. sproj. rewrite E1, E2.
      apply vap_nonempty in V. auto.
    + destruct (c_hread c); cbn [negb]; [|apply unsolicited_reset_state_safe; pre_tac].
      unfold set_loop_state. safe_split; try congruence. unfold US; sproj.
      split; [exact Hc|]. eapply nth_In0; eauto.
Qed.


End Inv.
