(* RespDefs.v — the documented meaning of handler return codes (cat.h:112-122) as a table,
   used to state C10.  No proofs. *)
From Coq Require Import List NArith ZArith Bool Arith.
From CatV Require Import Bytes Defs Codec Spec Fsm.
Import ListNotations.

Inductive hkind := K_WRITE | K_READ | K_RUN | K_TEST.

Inductive action :=
  | A_OK                 (* finish: result code OK (command) / nothing (event) *)
  | A_ERROR              (* finish: result code ERROR (command) / nothing (event) *)
  | A_EMIT_OK            (* emit the response buffer as one unit, then finish with OK *)
  | A_EMIT_AGAIN         (* emit the response buffer as one unit, re-format it, call the handler again *)
  | A_REFORMAT_AGAIN     (* re-format the response buffer without emitting, call the handler again *)
  | A_AGAIN              (* call the handler again (handlers that own no response buffer) *)
  | A_HOLD               (* suspend the command (command-side handlers; D3: out of contract on the event side) *)
  | A_RELEASE_OK         (* release a held command with OK (if any is held), then finish this one with OK *)
  | A_RELEASE_ERROR      (* release a held command with ERROR (if any is held), then finish this one with ERROR *)
  | A_LIST.              (* print the command list, then OK *)

(* the table: handler kind, machine, returned integer -> what happens.
   D2: PRINT_CMD_LIST_OK from an event-side test handler finishes silently (A_OK). *)
Definition spec_action (kd : hkind) (f : fsm) (code : Z) : action :=
  match kd with
  | K_WRITE =>
    if (code =? RC_OK)%Z || (code =? RC_DATA_OK)%Z then A_OK
    else if (code =? RC_NEXT)%Z || (code =? RC_DATA_NEXT)%Z then A_AGAIN
    else if (code =? RC_HOLD)%Z then A_HOLD
    else A_ERROR
  | K_RUN =>
    if (code =? RC_OK)%Z || (code =? RC_DATA_OK)%Z then A_OK
    else if (code =? RC_NEXT)%Z || (code =? RC_DATA_NEXT)%Z then A_AGAIN
    else if (code =? RC_HOLD)%Z then A_HOLD
    else if (code =? RC_PRINT_CMD_LIST_OK)%Z then A_LIST
    else A_ERROR
  | K_READ | K_TEST =>
    if (code =? RC_OK)%Z then A_OK
    else if (code =? RC_DATA_OK)%Z then A_EMIT_OK
    else if (code =? RC_DATA_NEXT)%Z then A_EMIT_AGAIN
    else if (code =? RC_NEXT)%Z then A_REFORMAT_AGAIN
    else if (code =? RC_HOLD)%Z then A_HOLD
    else if (code =? RC_HOLD_EXIT_OK)%Z then A_RELEASE_OK
    else if (code =? RC_HOLD_EXIT_ERROR)%Z then A_RELEASE_ERROR
    else if (code =? RC_PRINT_CMD_LIST_OK)%Z then
      match kd, f with K_TEST, ATCMD => A_LIST | K_TEST, UNSOL => A_OK | _, _ => A_ERROR end
    else A_ERROR
  end.

Definition terminal (a : action) : bool :=
  match a with A_EMIT_AGAIN | A_REFORMAT_AGAIN | A_AGAIN => false | _ => true end.
