(* Lemmas_C10ft.v — property C10 end to end, TEST handler: the BYTES of a whole TEST line  AT<name>=? LF
   served by a test handler, on the scripted always-ready environment of Script.v (event machine idle with
   an empty queue, no mutex).  Companion of Lemmas_E2Ec.P3 (READ line served by a read handler) and of
   Lemmas_E2Ec.P4 Section TestLine (TEST line answered from the descriptor alone).
   Structure: (1) the command register is kept by the TEST formatting functions; (2) the table of a test
   handler's return code on the command machine; (3) the service call in CS_TEST_LOOP; one unit for either
   newline with the command register kept; (4) Section Loop, for either value cr of the line's newline
   flag: the generic formatting lemma tformat — from Fsm.start_processing_format_test_args to CS_TEST_LOOP
   with the fresh text spec_test_text c (nl_of cr) NUL-terminated in the buffer, by pure service calls (one
   per variable) — used for the first formatting and for every re-format; (5) one continuing call, the ending
   call, the induction over the continuing results; (6) the head of the line up to the line feed, canonical
   (test_head) and as a terminal sends it (test_head_g: letter case, carriage returns anywhere); (7) from the
   line feed on (after_lf_hsteps, after_lf_nofit) and the final statements: canonical line, terminal line,
   and the complementary lines (no text or text too long: ERROR, no handler call).
   Out of scope: RC_PRINT_CMD_LIST_OK as the ending code (A_LIST: the command list is printed, see
   Properties_C19e.E2E_list_line for the list itself), RC_HOLD, inner API calls of the handler. *)
From Coq Require Import List NArith ZArith Bool Arith Lia.
From CatV Require Import Bytes Defs Codec Spec Fsm Script ResolveDefs SchedDefs GlueDefs TextDefs CollectDefs RespDefs.
From CatV Require Lemmas_C02 Lemmas_C02e Lemmas_C06 Lemmas_C08 Lemmas_C10 Lemmas_C10b Lemmas_C11
  Lemmas_C19 Lemmas_E2E Lemmas_E2Eb Lemmas_E2Ec.
Import ListNotations.
Local Open Scope nat_scope.

Local Notation wst := (Fsm.st sio smu shs).
Local Notation wio := (Fsm.io sio smu shs).
Local Notation whs := (Fsm.hs sio smu shs).
Local Notation wtr := (Fsm.tr sio smu shs).
Local Notation idle := Lemmas_C02e.idle.
Local Notation script_of := Lemmas_C10.script_of.
Local Notation units_of := Lemmas_C10.units_of.
Local Notation unit_of := Lemmas_C10.unit_of.
Local Notation edit_text := Lemmas_C10.edit_text.
Local Notation drop_script := Lemmas_E2Ec.P3.drop_script.
Local Notation pokes_mem := Lemmas_E2Ec.P3.pokes_mem.
Local Notation wrap := Lemmas_E2Ec.P3.wrap.
Local Notation hsteps := Lemmas_E2Ec.P3.hsteps.
Local Notation fr := Lemmas_E2Ec.P3.fr.
Local Notation done := Lemmas_E2Ec.P3.done.
Local Notation post2 := Lemmas_E2Ec.P4.post2.

(* ================= 1. the command register through the TEST formatting ================= *)
Definition kc (s0 s : state) : Prop := k_cmd (k s) = k_cmd (k s0).

Lemma kc_put_cur : forall s0 s c1, kc s0 s -> kc s0 (put_cur ATCMD c1 s).
Proof. intros s0 s c1 H. unfold put_cur. destruct (cu_fault c1); exact H. Qed.

Lemma kc_print_string : forall s0 s t, kc s0 s -> kc s0 (fst (print_string ATCMD s t)).
Proof.
  intros s0 s t H. unfold print_string. destruct (print_nstring (get_cur ATCMD s) t) as [c1 ok].
  cbn [fst]. apply kc_put_cur. exact H.
Qed.

Lemma kc_print_strings : forall s0 s ts, kc s0 s -> kc s0 (fst (print_strings ATCMD s ts)).
Proof.
  intros s0 s ts H. unfold print_strings. destruct (print_pieces (get_cur ATCMD s) ts) as [c1 ok].
  cbn [fst]. apply kc_put_cur. exact H.
Qed.

Section KeepCmd.
Variable D : desc.

Lemma kc_prt : forall s0 s, kc s0 s ->
  kc s0 (let (s3, ok3) := print_response_test D ATCMD s in if ok3 then s3 else end_with_error ATCMD s3).
Proof.
  intros s0 s P. unfold print_response_test.
  destruct (cmd_of D ATCMD s) as [c|]; [|exact P].
  destruct (c_descr c) as [d|].
  - pose proof (kc_print_strings s0 s [nl_chars s; d] P) as P1.
    destruct (print_strings ATCMD s [nl_chars s; d]) as [s1 ok]. cbn [fst] in P1.
    destruct ok; cbn [negb]; [destruct (c_htest c)|]; exact P1.
  - cbn [negb]. destruct (c_htest c); exact P.
Qed.

Lemma kc_nfv : forall s0 s, kc s0 s -> kc s0 (fst (next_format_var D ATCMD s)).
Proof.
  intros s0 s P. unfold next_format_var.
  destruct (cmd_of D ATCMD s) as [c|]; [|exact P].
  cbv zeta. destruct (S (g_index ATCMD s) <? length (c_vars c)); [|exact P].
  destruct (g_bsz ATCMD (setg_index ATCMD (S (g_index ATCMD s)) s) <=?
            g_pos ATCMD (setg_index ATCMD (S (g_index ATCMD s)) s)); exact P.
Qed.

Lemma kc_fta : forall s0 s, kc s0 s -> kc s0 (format_test_args D ATCMD s).
Proof.
  intros s0 s P. unfold format_test_args.
  destruct (cmd_of D ATCMD s) as [c|]; [|exact P].
  destruct (nth_error (c_vars c) (g_var ATCMD s)) as [v|]; [|exact P].
  destruct (fmt_info v (get_cur ATCMD s)) as [c1 ok]. cbv zeta.
  pose proof (kc_put_cur s0 s c1 P) as P1.
  set (s1 := put_cur ATCMD c1 s) in *. clearbody s1.
  destruct ok; cbn [negb]; [|exact P1].
  pose proof (kc_nfv s0 s1 P1) as P2.
  destruct (next_format_var D ATCMD s1) as [s2 handled]. cbn [fst] in P2.
  destruct handled; [exact P2|].
  exact (kc_prt s0 s2 P2).
Qed.

Lemma kc_spfta : forall s0 s, kc s0 s -> kc s0 (start_processing_format_test_args D ATCMD s).
Proof.
  intros s0 s P. unfold start_processing_format_test_args. cbv zeta.
  assert (P0 : kc s0 (setg_pos ATCMD 0 s)) by exact P.
  set (sa := setg_pos ATCMD 0 s) in *. clearbody sa.
  destruct (cmd_of D ATCMD sa) as [c|]; [|exact P0].
  pose proof (kc_print_string s0 sa (c_name c) P0) as P1.
  destruct (print_string ATCMD sa (c_name c)) as [s1 ok1]. cbn [fst] in P1.
  destruct ok1; cbn [negb]; [|exact P1].
  pose proof (kc_print_string s0 s1 [ch_EQ] P1) as P2.
  destruct (print_string ATCMD s1 [ch_EQ]) as [s2 ok2]. cbn [fst] in P2.
  destruct ok2; cbn [negb]; [|exact P2].
  destruct (c_vars c) as [|v vs]; [exact (kc_prt s0 s2 P2) | exact P2].
Qed.

Lemma kc_fmt_run : forall fuel s0 s, kc s0 s -> kc s0 (fmt_test_run D fuel ATCMD s).
Proof.
  induction fuel as [|fuel IH]; intros s0 s P; [exact P|].
  cbn [fmt_test_run]. destruct (in_fmt_test ATCMD s); [|exact P].
  apply IH. apply kc_fta. exact P.
Qed.
End KeepCmd.

(* ================= 2. the table of a TEST handler's return code on the command machine ================= *)
Definition tdisp (D : desc) (code : Z) (s : state) : state :=
  if (code =? RC_OK)%Z then end_with_ok ATCMD s
  else if (code =? RC_DATA_OK)%Z then start_flush_after ATCMD CS_AFTER_OK US_AFTER_OK s
  else if (code =? RC_DATA_NEXT)%Z then start_flush_after ATCMD CS_AFTER_FMT_TEST US_AFTER_FMT_TEST s
  else if (code =? RC_NEXT)%Z then start_processing_format_test_args D ATCMD s
  else if (code =? RC_HOLD)%Z then enable_hold_state s
  else if (code =? RC_HOLD_EXIT_OK)%Z then end_with_ok ATCMD (fst (hold_exit s ST_OK))
  else if (code =? RC_HOLD_EXIT_ERROR)%Z then end_with_error ATCMD (fst (hold_exit s ST_ERROR))
  else if (code =? RC_PRINT_CMD_LIST_OK)%Z && negb false then start_print_cmd_list D s
  else end_with_error ATCMD s.

Lemma tdisp_table : forall D code s,
  tdisp D code s =
  match spec_action K_TEST ATCMD code with
  | A_OK => ack_ok s
  | A_EMIT_OK => start_flush_c CS_AFTER_OK s
  | A_EMIT_AGAIN => start_flush_c CS_AFTER_FMT_TEST s
  | A_REFORMAT_AGAIN => start_processing_format_test_args D ATCMD s
  | A_HOLD => enable_hold_state s
  | A_RELEASE_OK => ack_ok (fst (hold_exit s ST_OK))
  | A_RELEASE_ERROR => ack_error (fst (hold_exit s ST_ERROR))
  | A_LIST => start_print_cmd_list D s
  | _ => ack_error s
  end.
Proof.
  intros D code s. unfold tdisp, spec_action.
  destruct (code =? RC_OK)%Z; [reflexivity|].
  destruct (code =? RC_DATA_OK)%Z; [reflexivity|].
  destruct (code =? RC_DATA_NEXT)%Z; [reflexivity|].
  destruct (code =? RC_NEXT)%Z; [reflexivity|].
  destruct (code =? RC_HOLD)%Z; [reflexivity|].
  destruct (code =? RC_HOLD_EXIT_OK)%Z; [reflexivity|].
  destruct (code =? RC_HOLD_EXIT_ERROR)%Z; [reflexivity|].
  rewrite andb_true_r. destruct (code =? RC_PRINT_CMD_LIST_OK)%Z; reflexivity.
Qed.

Lemma spec_test_list : forall code, spec_action K_TEST ATCMD code = A_LIST -> code = RC_PRINT_CMD_LIST_OK.
Proof.
  intros code. unfold spec_action.
  destruct (code =? RC_OK)%Z; [discriminate|].
  destruct (code =? RC_DATA_OK)%Z; [discriminate|].
  destruct (code =? RC_DATA_NEXT)%Z; [discriminate|].
  destruct (code =? RC_NEXT)%Z; [discriminate|].
  destruct (code =? RC_HOLD)%Z; [discriminate|].
  destruct (code =? RC_HOLD_EXIT_OK)%Z; [discriminate|].
  destruct (code =? RC_HOLD_EXIT_ERROR)%Z; [discriminate|].
  destruct (code =? RC_PRINT_CMD_LIST_OK)%Z eqn:E; [intros _; apply Z.eqb_eq; exact E | discriminate].
Qed.

(* the result text after the units *)
Definition result_text (code : Z) : list N :=
  match spec_action K_TEST ATCMD code with
  | A_OK | A_EMIT_OK | A_RELEASE_OK => txt_OK
  | _ => txt_ERROR
  end.

(* the request of the test loop in state s *)
Definition tq (i : nat) (s : state) : hreq :=
  HTest ATCMD i (firstn (S (k_position (k s))) (cbuf s)) (k_position (k s)) (length (cbuf s)).

Section HandlerLine.
Variable D : desc.
Hypothesis Hmx : d_mutex D = false.
Local Notation n := (ncmds D).
Local Notation cmdsvc := (cmd_service D sio smu shs s_read s_write s_lock s_unlock s_call).
Local Notation steps := (Lemmas_C02e.steps D).
Local Notation osteps := (Lemmas_E2E.osteps D).
Local Notation keep := Lemmas_E2E.keep.
Local Notation fresh := Lemmas_E2E.fresh.
Local Notation spfta := (start_processing_format_test_args D ATCMD).
Local Notation nl_of := Lemmas_E2Ec.nl_of.

(* ================= 3. the service call in CS_TEST_LOOP ================= *)
Lemma test_call : forall s q h t i r h', idle s -> k_state (k s) = CS_TEST_LOOP -> k_cmd (k s) = Some i ->
  s_call h (tq i s) = (h', r) -> r_calls r = [] ->
  svc D (mkw s q h t) =
  mkw (tdisp D (r_code r) (apply_edit ATCMD (r_edit r) (fold_left apply_poke (r_pokes r) s))) q h'
      (ERet OService ST_BUSY :: ECall (tq i s) (r_code r) :: t).
Proof.
  intros s q h t i r h' Hi Hs Hk Hcall Hc.
  assert (E : cmdsvc (mkw s q h t) =
              (mkw (tdisp D (r_code r) (apply_edit ATCMD (r_edit r) (fold_left apply_poke (r_pokes r) s))) q h'
                   (ECall (tq i s) (r_code r) :: t), ST_BUSY)).
  { unfold cmd_service. cbn [Fsm.st mkw]. rewrite Hs. unfold process_rt_loop. cbn [Fsm.st mkw g_cmd].
    rewrite Hk. cbv zeta. unfold call_h. cbn [Fsm.hs mkw].
    match goal with |- context [s_call h ?x] => change x with (tq i s) end.
    rewrite Hcall, Hc. reflexivity. }
  rewrite (Lemmas_C02e.svc_busy D Hmx (mkw s q h t) _ Hi E). reflexivity.
Qed.

Lemma hstep_call : forall s q h i r h', idle s -> k_state (k s) = CS_TEST_LOOP -> k_cmd (k s) = Some i ->
  s_call h (tq i s) = (h', r) -> r_calls r = [] ->
  hsteps D 1 s q h (tdisp D (r_code r) (apply_edit ATCMD (r_edit r) (fold_left apply_poke (r_pokes r) s))) q h'
         [(tq i s, r_code r)] [].
Proof.
  intros s q h i r h' Hi Hs Hk Hcall Hc t.
  exists [ERet OService ST_BUSY; ECall (tq i s) (r_code r)].
  split; [reflexivity|]. split; [reflexivity|].
  unfold nsvc. simpl iter. rewrite (test_call s q h t i r h' Hi Hs Hk Hcall Hc). reflexivity.
Qed.

(* one unit for either newline, with the command register kept (Lemmas_E2Ec.emit_unit_g does not say so) *)
Lemma emit_unit_cmd_g : forall s q txt, idle s -> fresh s -> In 0%N (cbuf s) -> text_of (cbuf s) = txt ->
  let nl := nl_of (k_cr (k s)) in
  exists s3, osteps (4 + 2 * length nl + length txt) s q s3 q (nl ++ txt ++ nl) /\ keep s s3 /\
    k_state (k s3) = k_wafter (k s) /\
    gR s3 = (if cstate_beq (k_wafter (k s)) CS_AFTER_RESET then S (gR s) else gR s) /\
    k_cmd (k s3) = k_cmd (k s).
Proof.
  intros s q txt Hi (Hs & Hp & Hw & Hb) H0 HT nl.
  assert (H1 : osteps 1 s q (setk_state CS_FLUSH s) q []).
  { apply (Lemmas_E2E.ostep_pure D Hmx s q (setk_state CS_FLUSH) Hi). intros h t. unfold cmd_service.
    cbn [Fsm.st mkw]. rewrite Hs. unfold busy, upd_st, process_io_write_wait. cbn [Fsm.st mkw].
    destruct Hi as [U _]. rewrite U. reflexivity. }
  set (s0 := setk_state CS_FLUSH s) in *.
  assert (Hi0 : idle s0) by exact Hi.
  destruct (Lemmas_E2E.unit_run D s0 txt Hp Hw Hb H0 HT) as (s3 & R & K & A & G & Hall).
  cbv zeta in R, Hall. rewrite Lemmas_E2Ec.nl_of_text in R, Hall.
  change (k_cr (k s0)) with (k_cr (k s)) in R, Hall. fold nl in R, Hall.
  exists s3.
  pose proof (Lemmas_E2E.flush_osteps D Hmx (3 + 2 * length nl + length txt) s0 q Hi0) as F.
  pose proof (Lemmas_E2Ec.P3.run_flush_cmd (3 + 2 * length nl + length txt) s0) as Kc.
  rewrite R in F, Kc. cbn [fst snd] in F, Kc.
  split; [|split; [exact K | split; [exact A | split; [exact G | exact Kc]]]].
  change (4 + 2 * length nl + length txt) with (1 + (3 + 2 * length nl + length txt)).
  eapply Lemmas_E2E.osteps_cast; [eapply Lemmas_E2E.osteps_trans; [exact H1|] | reflexivity | reflexivity].
  apply F. intros j Hj. rewrite (Hall j Hj). reflexivity.
Qed.

(* ================= 4. the loop state on the freshly formatted text ================= *)
Section Loop.
Variable i : nat.
Variable c : cmd.
Hypothesis Hat : cmd_at D i = Some c.
Hypothesis Hht : c_htest c = true.
(* the newline flag of the line: a carriage return was seen on it (terminal input) or not *)
Variable cr : bool.
Local Notation nl := (nl_of cr).
Variable txt : list N.
Hypothesis Htxt : spec_test_text c nl = Some txt.
Variable bsz : nat.
Hypothesis Hfit : length txt < bsz.
Hypothesis H6 : 6 <= bsz.
(* what the flush prints of the fresh text: the text up to its first NUL (all of it if there is none) *)
Local Notation T := (text_of txt).
Local Notation Q := (HTest ATCMD i (txt ++ [0%N]) (length txt) bsz).
Local Notation key := (3, i, 0).

Definition wrapg (u : list N) : list N := nl ++ u ++ nl.

Lemma wrapg_app : forall a b, concat (map wrapg (a ++ b)) = concat (map wrapg a) ++ concat (map wrapg b).
Proof. intros a b. rewrite map_app, concat_app. reflexivity. Qed.

Definition inloop (s : state) : Prop :=
  k_state (k s) = CS_TEST_LOOP /\ k_cmd (k s) = Some i /\ k_position (k s) = length txt /\
  firstn (S (length txt)) (cbuf s) = txt ++ [0%N] /\ text_of (cbuf s) = T /\ length (cbuf s) = bsz.

Lemma inloop_tq : forall s, inloop s -> tq i s = Q.
Proof. intros s (_ & _ & P & B & _ & L). unfold tq. rewrite P, B, L. reflexivity. Qed.

Lemma T_len : length T < bsz.
Proof. pose proof (Lemmas_E2Ec.P3.text_of_len txt) as X. exact (Nat.le_lt_trans _ _ _ X Hfit). Qed.

Lemma firstn_S_app0 : forall (t r : list N), firstn (S (length t)) (t ++ 0%N :: r) = t ++ [0%N].
Proof.
  intros t r. replace (S (length t)) with (length t + 1) by apply Nat.add_1_r.
  rewrite firstn_app_2. reflexivity.
Qed.

(* THE generic formatting lemma: from start_processing_format_test_args, by pure service calls (one per
   variable of the command), to CS_TEST_LOOP with the fresh text NUL-terminated at position |txt| *)
Lemma tformat : forall s q, idle s -> k_cmd (k s) = Some i -> length (cbuf s) = bsz ->
  fault s = false -> k_cr (k s) = cr -> k_state (k s) <> CS_FLUSH_WAIT ->
  exists j s', steps j (spfta s) q s' q /\ inloop s' /\ fr s s' /\ mem s' = mem s.
Proof.
  intros s q Hi Hc Hl Hf Hcr Hs.
  pose proof (Lemmas_E2Ec.P4.spfta_post D s Hs) as P6.
  pose proof (kc_spfta D s s eq_refl) as KC6.
  set (s6 := spfta s) in *.
  assert (Hi6 : idle s6) by (apply (Lemmas_C02e.idle_of_u s); [apply P6 | exact Hi]).
  destruct (Lemmas_E2Ec.P4.fmt_run_steps D Hmx (length (c_vars c)) s s6 q Hi6 P6) as (j & _ & H5 & P7).
  pose proof (kc_fmt_run D (length (c_vars c)) s s6 KC6) as KC7.
  change (fmt_test_run D (length (c_vars c)) ATCMD s6) with (test_response D ATCMD c s) in H5, P7, KC7.
  set (s7 := test_response D ATCMD c s) in *.
  destruct P7 as (((u7 & gl7 & gr7 & cr7 & ho7) & _ & GS7) & M7 & L7).
  assert (Hnl : nl_chars s = nl) by (rewrite Lemmas_E2Ec.nl_of_chars, Hcr; reflexivity).
  unfold spec_test_text in Htxt. fold (Lemmas_C19.descr_text c nl) in Htxt.
  destruct (all_some (map var_info_text (c_vars c))) as [infos|] eqn:Ha; [|discriminate Htxt].
  assert (Etxt : c_name c ++ [ch_EQ] ++ join_comma infos ++ Lemmas_C19.descr_text c nl = txt)
    by (injection Htxt as X; exact X).
  destruct (Lemmas_C19.test_ok D ATCMD s i c infos Hc Hat Hf Ha) as (D1 & (r & D2) & D3 & D4 & D5).
  { rewrite Hnl, Etxt. cbn [g_buf]. rewrite Hl. exact Hfit. }
  rewrite Hnl, Etxt in D2, D5. fold s7 in D1, D2, D3, D4, D5. cbn [g_buf] in D2, D3.
  unfold test_done in D4. rewrite Hht in D4. specialize (D5 Hht). cbn [g_pos] in D5.
  exists j, s7. split; [exact H5|]. split; [|split].
  - unfold inloop. split; [exact D4|]. split; [rewrite KC7; exact Hc|]. split; [exact D5|].
    split; [rewrite D2; apply firstn_S_app0|]. split; [rewrite D2; apply Lemmas_E2Ec.P4.text_of_app0_gen|].
    rewrite L7. exact Hl.
  - unfold Lemmas_E2Ec.P3.fr.
    assert (G7 : gS s7 = gS s) by (apply GS7; rewrite D4; discriminate).
    repeat split; try assumption. congruence.
  - exact M7.
Qed.

(* the state after the handler's stores and its edit *)
Lemma after_call_shape : forall s (r : hres), inloop s ->
  let se := apply_edit ATCMD (r_edit r) (fold_left apply_poke (r_pokes r) s) in
  exists B p, se = setk_position p (set_cbuf B (set_mem (pokes_mem (r_pokes r) (mem s)) s)) /\
    length B = bsz /\ text_of B = edit_text bsz T (r_edit r) /\ In 0%N B.
Proof.
  intros s r (_ & _ & _ & _ & HT & L). cbv zeta. rewrite Lemmas_E2Ec.P3.pokes_state.
  set (s1 := set_mem (pokes_mem (r_pokes r) (mem s)) s).
  destruct (Lemmas_C10b.apply_edit_shape ATCMD (r_edit r) s1) as (B & p & E & E1 & E2).
  unfold g_bsz in E1, E2. cbn [g_buf] in E1, E2. change (cbuf s1) with (cbuf s) in E1, E2.
  rewrite L in E1, E2. rewrite HT in E2.
  exists B, p. split; [exact E|]. split; [exact E1|]. split; [exact E2|].
  apply Lemmas_E2Eb.L_text_in0. rewrite E2, E1. apply Lemmas_E2Ec.P3.edit_text_len. exact T_len.
Qed.

(* the unit of a result, written with the TEST row of the table *)
Lemma unit_of_test : forall old r,
  unit_of bsz old r =
  match spec_action K_TEST ATCMD (r_code r) with
  | A_EMIT_OK | A_EMIT_AGAIN => [edit_text bsz old (r_edit r)]
  | _ => []
  end.
Proof. intros old r. exact (Lemmas_C10b.C10_unit_of_any_row false ATCMD bsz old r). Qed.

(* ================= 5. one continuing call ================= *)
Lemma call_next : forall s q h r sc, idle s -> inloop s -> k_cr (k s) = cr -> fault s = false ->
  script_of h key = r :: sc -> r_calls r = [] ->
  terminal (spec_action K_TEST ATCMD (r_code r)) = false ->
  exists m s', hsteps D m s q h s' q (drop_script h key 1) [(Q, r_code r)]
                 (concat (map wrapg (unit_of bsz T r))) /\
    inloop s' /\ fr s s' /\ mem s' = pokes_mem (r_pokes r) (mem s).
Proof.
  intros s q h r sc Hi HL Hcr Hfl Hsc Hcl Hterm.
  pose proof HL as (Ls & Lc & Lp & Lb & Lt & Ll).
  pose proof (inloop_tq s HL) as Hq.
  assert (Hcall : s_call h (tq i s) = (drop_script h key 1, r)).
  { rewrite Hq. exact (Lemmas_E2Ec.P3.s_call_drop h Q r sc Hsc). }
  pose proof (hstep_call s q h i r _ Hi Ls Lc Hcall Hcl) as H1. rewrite Hq in H1.
  destruct (after_call_shape s r HL) as (B & p & Ese & BL & BT & B0). cbv zeta in Ese.
  set (se := apply_edit ATCMD (r_edit r) (fold_left apply_poke (r_pokes r) s)) in *.
  set (m1 := pokes_mem (r_pokes r) (mem s)) in *.
  assert (Fse : fr s se).
  { rewrite Ese; unfold Lemmas_E2Ec.P3.fr; Lemmas_C11.scbn; repeat split. rewrite BL. symmetry. exact Ll. }
  assert (Cse : k_cmd (k se) = Some i) by (rewrite Ese; exact Lc).
  assert (Sse : k_state (k se) = CS_TEST_LOOP) by (rewrite Ese; exact Ls).
  assert (Mse : mem se = m1) by (rewrite Ese; reflexivity).
  assert (Lse : length (cbuf se) = bsz) by (rewrite Ese; exact BL).
  assert (Tse : text_of (cbuf se) = edit_text bsz T (r_edit r)) by (rewrite Ese; exact BT).
  assert (Zse : In 0%N (cbuf se)) by (rewrite Ese; exact B0).
  pose proof Fse as (F1 & F2 & F3 & F4 & F5 & F6 & F7 & F8).
  assert (Hie : idle se) by (apply (Lemmas_E2Ec.P3.idle_fr s se Fse Hi)).
  assert (Hcre : k_cr (k se) = cr) by congruence.
  assert (Hfle : fault se = false) by congruence.
  rewrite tdisp_table in H1. rewrite unit_of_test.
  destruct (Lemmas_C10b.spec_rt_range false ATCMD (r_code r)) as [E|[E|[E|[E|[E|[E|[E|[E|[E _]]]]]]]]];
    cbv zeta in E; cbv iota in E; rewrite E in Hterm, H1 |- *; try discriminate Hterm.
  - (* DATA_NEXT: the unit, one call in CS_AFTER_FMT_TEST, then re-format *)
    set (sf := start_flush_c CS_AFTER_FMT_TEST se) in *.
    assert (Hif : idle sf) by exact Hie.
    destruct (emit_unit_cmd_g sf q (edit_text bsz T (r_edit r)) Hif
                (conj eq_refl (conj eq_refl (conj eq_refl eq_refl))) Zse Tse)
      as (s3 & O2 & K3 & A3 & G3 & C3).
    cbv zeta in O2. change (k_cr (k sf)) with (k_cr (k se)) in O2. rewrite Hcre in O2.
    change (k_wafter (k sf)) with CS_AFTER_FMT_TEST in A3, G3. cbn [cstate_beq] in G3.
    change (k_cmd (k sf)) with (k_cmd (k se)) in C3.
    pose proof K3 as (K31 & K32 & K33 & K34 & K35 & K36 & K37 & K38).
    change (mem sf) with (mem se) in K31. change (fault sf) with (fault se) in K32.
    change (u sf) with (u se) in K33. change (gL sf) with (gL se) in K34.
    change (gS sf) with (gS se) in K35. change (gR sf) with (gR se) in G3.
    change (k_cr (k sf)) with (k_cr (k se)) in K36. change (k_hold (k sf)) with (k_hold (k se)) in K37.
    change (cbuf sf) with (cbuf se) in K38.
    assert (Hi3 : idle s3) by (apply (Lemmas_E2E.idle_keep sf s3 K3 Hif)).
    assert (O3 : osteps 1 s3 q (spfta s3) q []).
    { apply (Lemmas_E2E.ostep_pure D Hmx s3 q spfta Hi3).
      intros h0 t. unfold cmd_service. cbn [Fsm.st mkw]. rewrite A3. reflexivity. }
    destruct (tformat s3 q Hi3) as (j & s4 & O4 & IL & FF4 & M4).
    { rewrite C3. exact Cse. }
    { rewrite K38. exact Lse. }
    { congruence. }
    { congruence. }
    { rewrite A3. discriminate. }
    eexists. exists s4. split; [|split; [exact IL | split]].
    + eapply Lemmas_E2Ec.P3.hsteps_cast;
        [exact (Lemmas_E2Ec.P3.hsteps_trans D _ _ _ _ _ _ _ _ _ _ _ _ _ _ _ H1
                 (Lemmas_E2Ec.P3.hsteps_of_osteps D _ _ _ _ _ _ _
                    (Lemmas_E2E.osteps_trans D _ _ _ _ _ _ _ _ _ _ O2
                       (Lemmas_E2E.osteps_trans D _ _ _ _ _ _ _ _ _ _ O3
                          (Lemmas_E2E.osteps_of_steps D _ _ _ _ _ O4)))))
        | reflexivity | reflexivity |].
      cbn [map concat]. unfold wrapg. rewrite !app_nil_r. reflexivity.
    + eapply Lemmas_E2Ec.P3.fr_trans; [exact Fse|]. eapply Lemmas_E2Ec.P3.fr_trans; [|exact FF4].
      unfold Lemmas_E2Ec.P3.fr. rewrite K33, K32, K34, K35, G3, K36, K37, K38. repeat split; reflexivity.
    + rewrite M4, K31. exact Mse.
  - (* NEXT: re-format only *)
    destruct (tformat se q Hie Cse Lse Hfle Hcre) as (j & s4 & O4 & IL & FF4 & M4).
    { rewrite Sse. discriminate. }
    eexists. exists s4. split; [|split; [exact IL | split]].
    + eapply Lemmas_E2Ec.P3.hsteps_cast;
        [exact (Lemmas_E2Ec.P3.hsteps_trans D _ _ _ _ _ _ _ _ _ _ _ _ _ _ _ H1
                 (Lemmas_E2Ec.P3.hsteps_of_osteps D _ _ _ _ _ _ _ (Lemmas_E2E.osteps_of_steps D _ _ _ _ _ O4)))
        | reflexivity | reflexivity | reflexivity].
    + exact (Lemmas_E2Ec.P3.fr_trans _ _ _ Fse FF4).
    + rewrite M4. exact Mse.
Qed.

(* ================= the ending call ================= *)
(* what a finished line leaves behind, relative to the loop state s and the memory m *)
Definition doneg (s : state) (m : list (list N)) (s' : state) : Prop :=
  k_state (k s') = CS_IDLE /\ mem s' = m /\ fault s' = fault s /\ u s' = u s /\
  gL s' = gL s /\ gS s' = S (gS s) /\ gR s' = S (gR s) /\ k_cr (k s') = false.

Lemma call_last : forall s q h r sc, idle s -> inloop s -> k_cr (k s) = cr -> k_hold (k s) = false ->
  script_of h key = r :: sc -> r_calls r = [] ->
  terminal (spec_action K_TEST ATCMD (r_code r)) = true -> r_code r <> RC_HOLD ->
  r_code r <> RC_PRINT_CMD_LIST_OK ->
  exists m s', hsteps D m s q h s' q (drop_script h key 1) [(Q, r_code r)]
                 (concat (map wrapg (unit_of bsz T r)) ++ nl ++ result_text (r_code r) ++ nl) /\
    doneg s (pokes_mem (r_pokes r) (mem s)) s'.
Proof.
  intros s q h r sc Hi HL Hcr Hho Hsc Hcl Hterm Hnh Hnl.
  pose proof HL as (Ls & Lc & Lp & Lb & Lt & Ll).
  pose proof (inloop_tq s HL) as Hq.
  assert (Hcall : s_call h (tq i s) = (drop_script h key 1, r)).
  { rewrite Hq. exact (Lemmas_E2Ec.P3.s_call_drop h Q r sc Hsc). }
  pose proof (hstep_call s q h i r _ Hi Ls Lc Hcall Hcl) as H1. rewrite Hq in H1.
  destruct (after_call_shape s r HL) as (B & p & Ese & BL & BT & B0). cbv zeta in Ese.
  set (se := apply_edit ATCMD (r_edit r) (fold_left apply_poke (r_pokes r) s)) in *.
  set (m1 := pokes_mem (r_pokes r) (mem s)) in *.
  assert (Fse : fr s se).
  { rewrite Ese; unfold Lemmas_E2Ec.P3.fr; Lemmas_C11.scbn; repeat split. rewrite BL. symmetry. exact Ll. }
  assert (Mse : mem se = m1) by (rewrite Ese; reflexivity).
  assert (Lse : length (cbuf se) = bsz) by (rewrite Ese; exact BL).
  assert (Tse : text_of (cbuf se) = edit_text bsz T (r_edit r)) by (rewrite Ese; exact BT).
  assert (Zse : In 0%N (cbuf se)) by (rewrite Ese; exact B0).
  pose proof Fse as (F1 & F2 & F3 & F4 & F5 & F6 & F7 & F8).
  assert (Hie : idle se) by (apply (Lemmas_E2Ec.P3.idle_fr s se Fse Hi)).
  assert (Hcre : k_cr (k se) = cr) by congruence.
  assert (Hhoe : k_hold (k se) = false) by congruence.
  assert (H6e : 6 <= length (cbuf se)) by (rewrite Lse; exact H6).
  assert (HX1 : fst (hold_exit se ST_OK) = se) by (unfold hold_exit; rewrite Hhoe; reflexivity).
  assert (HX2 : fst (hold_exit se ST_ERROR) = se) by (unfold hold_exit; rewrite Hhoe; reflexivity).
  (* the two tails, from the state after the call *)
  assert (OKT : exists s4, osteps (7 + 2 * length nl) (ack_ok se) q s4 q (nl ++ txt_OK ++ nl) /\
                           doneg s m1 s4).
  { destruct (Lemmas_E2Ec.ack_ok_tail_g D Hmx se q Hie Hhoe H6e) as (s4 & O & R1 & R2 & R3 & R4 & R5 & R6 & R7 & R8 & _).
    cbv zeta in O. rewrite Hcre in O. exists s4. split; [exact O|].
    unfold doneg. repeat split; congruence. }
  assert (ERT : exists s4, osteps (10 + 2 * length nl) (ack_error se) q s4 q (nl ++ txt_ERROR ++ nl) /\
                           doneg s m1 s4).
  { destruct (Lemmas_E2Ec.ack_error_tail_g D Hmx se q Hie Hhoe H6e) as (s4 & O & R1 & R2 & R3 & R4 & R5 & R6 & R7 & R8 & _).
    cbv zeta in O. rewrite Hcre in O. exists s4. split; [exact O|].
    unfold doneg. repeat split; congruence. }
  rewrite tdisp_table in H1. rewrite unit_of_test. unfold result_text.
  destruct (Lemmas_C10b.spec_rt_range false ATCMD (r_code r)) as [E|[E|[E|[E|[E|[E|[E|[E|[E _]]]]]]]]];
    cbv zeta in E; cbv iota in E; rewrite E in Hterm, H1 |- *; try discriminate Hterm;
    try rewrite HX1 in H1; try rewrite HX2 in H1.
  - (* OK *)
    destruct OKT as (s4 & O & R).
    eexists. exists s4. split; [|exact R].
    eapply Lemmas_E2Ec.P3.hsteps_cast;
      [exact (Lemmas_E2Ec.P3.hsteps_trans D _ _ _ _ _ _ _ _ _ _ _ _ _ _ _ H1
                (Lemmas_E2Ec.P3.hsteps_of_osteps D _ _ _ _ _ _ _ O))
      | reflexivity | reflexivity | reflexivity].
  - (* DATA_OK: the unit, then OK *)
    set (sf := start_flush_c CS_AFTER_OK se) in *.
    destruct (Lemmas_E2Ec.emit_unit_g D Hmx sf q (edit_text bsz T (r_edit r)) Hie
                (conj eq_refl (conj eq_refl (conj eq_refl eq_refl))) Zse Tse)
      as (s3 & O2 & K3 & A3 & G3).
    cbv zeta in O2. change (k_cr (k sf)) with (k_cr (k se)) in O2. rewrite Hcre in O2.
    change (k_wafter (k sf)) with CS_AFTER_OK in A3, G3. cbn [cstate_beq] in G3.
    pose proof K3 as (K31 & K32 & K33 & K34 & K35 & K36 & K37 & K38).
    change (mem sf) with (mem se) in K31. change (fault sf) with (fault se) in K32.
    change (u sf) with (u se) in K33. change (gL sf) with (gL se) in K34.
    change (gS sf) with (gS se) in K35. change (gR sf) with (gR se) in G3.
    change (k_cr (k sf)) with (k_cr (k se)) in K36. change (k_hold (k sf)) with (k_hold (k se)) in K37.
    change (cbuf sf) with (cbuf se) in K38.
    assert (Hi3 : idle s3) by (apply (Lemmas_E2E.idle_keep sf s3 K3 Hie)).
    destruct (Lemmas_E2Ec.ok_tail_g D Hmx s3 q Hi3 A3) as (s4 & O3 & R1 & R2 & R3 & R4 & R5 & R6 & R7 & R8 & _).
    { rewrite K37. exact Hhoe. }
    { rewrite K38. exact H6e. }
    cbv zeta in O3. rewrite K36, Hcre in O3.
    eexists. exists s4. split.
    + eapply Lemmas_E2Ec.P3.hsteps_cast;
        [exact (Lemmas_E2Ec.P3.hsteps_trans D _ _ _ _ _ _ _ _ _ _ _ _ _ _ _ H1
                 (Lemmas_E2Ec.P3.hsteps_of_osteps D _ _ _ _ _ _ _
                    (Lemmas_E2E.osteps_trans D _ _ _ _ _ _ _ _ _ _ O2 O3)))
        | reflexivity | reflexivity |].
      cbn [map concat]. unfold wrapg. rewrite !app_nil_r, <- !app_assoc. reflexivity.
    + unfold doneg. repeat split; congruence.
  - (* HOLD: excluded *)
    exfalso. apply Hnh. exact (Lemmas_C10b.spec_rt_hold false ATCMD (r_code r) E).
  - (* HOLD_EXIT_OK, nothing held: OK *)
    destruct OKT as (s4 & O & R).
    eexists. exists s4. split; [|exact R].
    eapply Lemmas_E2Ec.P3.hsteps_cast;
      [exact (Lemmas_E2Ec.P3.hsteps_trans D _ _ _ _ _ _ _ _ _ _ _ _ _ _ _ H1
                (Lemmas_E2Ec.P3.hsteps_of_osteps D _ _ _ _ _ _ _ O))
      | reflexivity | reflexivity | reflexivity].
  - (* HOLD_EXIT_ERROR, nothing held: ERROR *)
    destruct ERT as (s4 & O & R).
    eexists. exists s4. split; [|exact R].
    eapply Lemmas_E2Ec.P3.hsteps_cast;
      [exact (Lemmas_E2Ec.P3.hsteps_trans D _ _ _ _ _ _ _ _ _ _ _ _ _ _ _ H1
                (Lemmas_E2Ec.P3.hsteps_of_osteps D _ _ _ _ _ _ _ O))
      | reflexivity | reflexivity | reflexivity].
  - (* ERROR and every other integer *)
    destruct ERT as (s4 & O & R).
    eexists. exists s4. split; [|exact R].
    eapply Lemmas_E2Ec.P3.hsteps_cast;
      [exact (Lemmas_E2Ec.P3.hsteps_trans D _ _ _ _ _ _ _ _ _ _ _ _ _ _ _ H1
                (Lemmas_E2Ec.P3.hsteps_of_osteps D _ _ _ _ _ _ _ O))
      | reflexivity | reflexivity | reflexivity].
  - (* PRINT_CMD_LIST_OK: excluded *)
    exfalso. apply Hnl. exact (spec_test_list (r_code r) E).
Qed.

(* ================= the induction over the continuing results ================= *)
Lemma key_refl : key_eqb key key = true.
Proof. apply Lemmas_E2Ec.P3.key_eqb_eq. reflexivity. Qed.

Lemma loop_hsteps : forall rs s q h rest, idle s -> inloop s -> k_cr (k s) = cr -> fault s = false ->
  script_of h key = rs ++ rest ->
  (forall r, In r rs -> r_calls r = [] /\ terminal (spec_action K_TEST ATCMD (r_code r)) = false) ->
  exists m s', hsteps D m s q h s' q (drop_script h key (length rs))
                 (map (fun r => (Q, r_code r)) rs) (concat (map wrapg (units_of bsz T T rs))) /\
    inloop s' /\ fr s s' /\ mem s' = pokes_mem (flat_map r_pokes rs) (mem s).
Proof.
  induction rs as [|r rs IH]; intros s q h rest Hi HL Hcr Hfl Hsc Hall.
  - exists 0, s. split; [|split; [exact HL | split; [apply Lemmas_E2Ec.P3.fr_refl | reflexivity]]].
    cbn [length map Lemmas_C10.units_of concat]. rewrite Lemmas_E2Ec.P3.drop_script_0.
    apply Lemmas_E2Ec.P3.hsteps_0.
  - cbn [app] in Hsc. destruct (Hall r (or_introl eq_refl)) as [Hc Ht].
    destruct (call_next s q h r (rs ++ rest) Hi HL Hcr Hfl Hsc Hc Ht) as (m1 & s1 & H1 & IL1 & F1 & M1).
    assert (Hsc1 : script_of (drop_script h key 1) key = rs ++ rest).
    { rewrite Lemmas_E2Ec.P3.script_of_drop, Hsc, key_refl. reflexivity. }
    destruct (IH s1 q (drop_script h key 1) rest) as (m2 & s2 & H2 & IL2 & F2 & M2).
    + exact (Lemmas_E2Ec.P3.idle_fr s s1 F1 Hi).
    + exact IL1.
    + destruct F1 as (_ & _ & _ & _ & _ & X & _). congruence.
    + destruct F1 as (_ & X & _). congruence.
    + exact Hsc1.
    + intros r' Hr'. apply Hall. right. exact Hr'.
    + exists (m1 + m2), s2. split; [|split; [exact IL2 | split]].
      * rewrite Lemmas_E2Ec.P3.drop_script_add in H2.
        eapply Lemmas_E2Ec.P3.hsteps_cast;
          [exact (Lemmas_E2Ec.P3.hsteps_trans D _ _ _ _ _ _ _ _ _ _ _ _ _ _ _ H1 H2) | reflexivity | reflexivity |].
        cbn [Lemmas_C10.units_of]. rewrite wrapg_app. reflexivity.
      * exact (Lemmas_E2Ec.P3.fr_trans _ _ _ F1 F2).
      * rewrite M2, M1. cbn [flat_map]. rewrite Lemmas_E2Ec.P3.pokes_mem_app. reflexivity.
Qed.

(* the whole handler phase, from the first loop state *)
Lemma handler_phase : forall rs rn s q h rest, idle s -> inloop s -> k_cr (k s) = cr ->
  k_hold (k s) = false -> fault s = false ->
  script_of h key = rs ++ rn :: rest ->
  (forall r, In r rs -> terminal (spec_action K_TEST ATCMD (r_code r)) = false) ->
  terminal (spec_action K_TEST ATCMD (r_code rn)) = true -> r_code rn <> RC_HOLD ->
  r_code rn <> RC_PRINT_CMD_LIST_OK ->
  (forall r, In r (rs ++ [rn]) -> r_calls r = []) ->
  exists m s', hsteps D m s q h s' q (drop_script h key (S (length rs)))
                 (map (fun r => (Q, r_code r)) (rs ++ [rn]))
                 (concat (map wrapg (units_of bsz T T (rs ++ [rn]))) ++
                  nl ++ result_text (r_code rn) ++ nl) /\
    doneg s (pokes_mem (flat_map r_pokes (rs ++ [rn])) (mem s)) s'.
Proof.
  intros rs rn s q h rest Hi HL Hcr Hho Hfl Hsc Hcont Hterm Hnh Hnl Hcl.
  destruct (loop_hsteps rs s q h (rn :: rest) Hi HL Hcr Hfl Hsc) as (m1 & s1 & H1 & IL1 & F1 & M1).
  { intros r Hr. split; [apply Hcl; apply in_or_app; left; exact Hr | apply Hcont; exact Hr]. }
  pose proof F1 as (A1 & A2 & A3 & A4 & A5 & A6 & A7 & A8).
  assert (Hsc1 : script_of (drop_script h key (length rs)) key = rn :: rest).
  { rewrite Lemmas_E2Ec.P3.script_of_drop, Hsc, key_refl.
    rewrite skipn_app, Nat.sub_diag, skipn_all. reflexivity. }
  destruct (call_last s1 q (drop_script h key (length rs)) rn rest)
    as (m2 & s2 & H2 & R1 & R2 & R3 & R4 & R5 & R6 & R7 & R8).
  - exact (Lemmas_E2Ec.P3.idle_fr s s1 F1 Hi).
  - exact IL1.
  - congruence.
  - congruence.
  - exact Hsc1.
  - apply Hcl. apply in_or_app. right. left. reflexivity.
  - exact Hterm.
  - exact Hnh.
  - exact Hnl.
  - exists (m1 + m2), s2. split.
    + rewrite Lemmas_E2Ec.P3.drop_script_add in H2.
      rewrite Nat.add_1_r in H2.
      eapply Lemmas_E2Ec.P3.hsteps_cast;
        [exact (Lemmas_E2Ec.P3.hsteps_trans D _ _ _ _ _ _ _ _ _ _ _ _ _ _ _ H1 H2) | reflexivity | |].
      * rewrite map_app. reflexivity.
      * rewrite Lemmas_E2Ec.P3.units_of_app, wrapg_app. cbn [Lemmas_C10.units_of].
        rewrite app_nil_r, <- !app_assoc. reflexivity.
    + unfold doneg. rewrite flat_map_app, Lemmas_E2Ec.P3.pokes_mem_app. cbn [flat_map].
      rewrite app_nil_r. repeat split; congruence.
Qed.

End Loop.

(* ================= 6. the head of the line: AT name = ? LF ================= *)
(* the question mark of "=?" taken as the TEST shortcut: the command has a test handler or a variable *)
Lemma qm_step_h : forall s q c, idle s -> k_state (k s) = CS_PARSE_COMMAND_ARGS ->
  cmd_of D ATCMD s = Some c -> k_length (k s) = 0 ->
  (c_htest c = true \/ c_vars c <> []) -> c_implicit c = false ->
  steps 1 s (ch_QM :: q) (Lemmas_E2Ec.P4.qm_state s) q.
Proof.
  intros s q c Hi Hs Hc Hl Hv Him.
  pose proof (Lemmas_E2E.pca_step D Hmx s ch_QM q Hi Hs) as S1.
  assert (Hrd : Lemmas_C02e.rd_state s ch_QM = setk_char ch_QM s).
  { unfold Lemmas_C02e.rd_state. rewrite Hs. reflexivity. }
  rewrite Hrd in S1. change (k_char (k (setk_char ch_QM s))) with ch_QM in S1.
  assert (E : pca_body D ch_QM (setk_char ch_QM s) = Lemmas_E2Ec.P4.qm_state s).
  { unfold pca_body. change (cmd_of D ATCMD (setk_char ch_QM s)) with (cmd_of D ATCMD s). rewrite Hc.
    change (ch_QM =? ch_LF)%N with false. change (ch_QM =? ch_CR)%N with false.
    change (ch_QM =? ch_QM)%N with true. cbv iota.
    change (k_length (k (setk_char ch_QM s))) with (k_length (k s)). rewrite Hl, Him.
    destruct Hv as [Hv|Hv].
    - rewrite Hv. reflexivity.
    - destruct (c_vars c) as [|v vs]; [congruence|]. rewrite orb_true_r. reflexivity. }
  rewrite E in S1. exact S1.
Qed.

(* what the bytes between the '=' and the line feed leave alone, and the newline flag they accumulate *)
Definition hfr (s s' : state) (b : bool) : Prop :=
  u s' = u s /\ gS s' = gS s /\ gR s' = gR s /\ k_hold (k s') = k_hold (k s) /\
  cbuf s' = cbuf s /\ mem s' = mem s /\ fault s' = fault s /\ k_cmd (k s') = k_cmd (k s) /\
  k_cr (k s') = k_cr (k s) || b.

(* carriage returns, then the question mark *)
Lemma pca_crs_qm : forall c m s q, idle s -> k_state (k s) = CS_PARSE_COMMAND_ARGS ->
  cmd_of D ATCMD s = Some c -> k_length (k s) = 0 ->
  (c_htest c = true \/ c_vars c <> []) -> c_implicit c = false ->
  exists s', steps (m + 1) s (repeat ch_CR m ++ ch_QM :: q) s' q /\
    k_state (k s') = CS_WAIT_TEST_ACK /\ gL s' = gL s /\ hfr s s' (0 <? m).
Proof.
  intros c. induction m as [|m IH]; intros s q Hi Hs Hc Hl Hv Him.
  - exists (Lemmas_E2Ec.P4.qm_state s). split; [exact (qm_step_h s q c Hi Hs Hc Hl Hv Him)|].
    split; [reflexivity|]. split; [reflexivity|].
    unfold hfr. change (0 <? 0) with false. rewrite orb_false_r. repeat split; reflexivity.
  - pose proof (Lemmas_E2E.pca_step D Hmx s ch_CR (repeat ch_CR m ++ ch_QM :: q) Hi Hs) as S1.
    assert (Hrd : Lemmas_C02e.rd_state s ch_CR = setk_char ch_CR s).
    { unfold Lemmas_C02e.rd_state. rewrite Hs. reflexivity. }
    rewrite Hrd in S1. change (k_char (k (setk_char ch_CR s))) with ch_CR in S1.
    rewrite (Lemmas_C06.pca_cr D (setk_char ch_CR s) c Hc) in S1.
    set (s1 := setk_cr true (setk_char ch_CR s)) in *.
    destruct (IH s1 q Hi Hs Hc Hl Hv Him) as (s' & S2 & A & G & (F1 & F2 & F3 & F4 & F5 & F6 & F7 & F8 & F9)).
    exists s'. split; [exact (Lemmas_C02e.steps_trans D _ _ _ _ _ _ _ _ S1 S2)|].
    split; [exact A|]. split; [exact G|].
    unfold hfr. change (0 <? S m) with true. rewrite orb_true_r.
    split; [exact F1|]. split; [exact F2|]. split; [exact F3|]. split; [exact F4|].
    split; [exact F5|]. split; [exact F6|]. split; [exact F7|]. split; [exact F8|]. exact F9.
Qed.

(* carriage returns in CS_WAIT_TEST_ACK, then the line feed: the response starts *)
Lemma wta_crs_lf : forall m s q, idle s -> k_state (k s) = CS_WAIT_TEST_ACK ->
  exists s5, steps (m + 1) s (repeat ch_CR m ++ ch_LF :: q) (spfta s5) q /\
    k_state (k s5) = CS_WAIT_TEST_ACK /\ gL s5 = S (gL s) /\ hfr s s5 (0 <? m).
Proof.
  induction m as [|m IH]; intros s q Hi Hs.
  - exists (Lemmas_E2Ec.P4.lf_state s). split; [exact (Lemmas_E2Ec.P4.wta_lf_step D Hmx s q Hi Hs)|].
    split; [exact Hs|]. split; [reflexivity|].
    unfold hfr. change (0 <? 0) with false. rewrite orb_false_r. repeat split; reflexivity.
  - pose proof (Lemmas_E2Ec.P4.step_wta D Hmx s ch_CR (repeat ch_CR m ++ ch_LF :: q) Hi Hs) as S1.
    assert (Hrd : Lemmas_C02e.rd_state s ch_CR = setk_char ch_CR s).
    { unfold Lemmas_C02e.rd_state. rewrite Hs. reflexivity. }
    rewrite Hrd in S1.
    change (Lemmas_E2Ec.P4.wta_body D (k_char (k (setk_char ch_CR s))) (setk_char ch_CR s))
      with (setk_cr true (setk_char ch_CR s)) in S1.
    set (s1 := setk_cr true (setk_char ch_CR s)) in *.
    destruct (IH s1 q Hi Hs) as (s5 & S2 & A & G & (F1 & F2 & F3 & F4 & F5 & F6 & F7 & F8 & F9)).
    exists s5. split; [exact (Lemmas_C02e.steps_trans D _ _ _ _ _ _ _ _ S1 S2)|].
    split; [exact A|]. split; [exact G|].
    unfold hfr. change (0 <? S m) with true. rewrite orb_true_r.
    split; [exact F1|]. split; [exact F2|]. split; [exact F3|]. split; [exact F4|].
    split; [exact F5|]. split; [exact F6|]. split; [exact F7|]. split; [exact F8|]. exact F9.
Qed.

Section Lines.
Variable s : state.
Hypothesis Hn : 0 < n.
Hypothesis HL : n <= 4 * length (cbuf s).
Hypothesis H6 : 6 <= length (cbuf s).
Hypothesis Hf : fault s = false.
Hypothesis Hst : k_state (k s) = CS_IDLE.
Hypothesis Hcr : k_cr (k s) = false.
Hypothesis Himp : k_implicit (k s) = false.
Hypothesis Hhold : k_hold (k s) = false.
Hypothesis Hidle : idle s.

(* the registers when the line feed has been read, just before the response is formatted *)
Definition at_lf (i : nat) (cr : bool) (s5 : state) : Prop :=
  idle s5 /\ k_state (k s5) = CS_WAIT_TEST_ACK /\ k_cmd (k s5) = Some i /\ fault s5 = false /\
  k_cr (k s5) = cr /\ k_hold (k s5) = false /\ length (cbuf s5) = length (cbuf s) /\
  mem s5 = mem s /\ u s5 = u s /\ gL s5 = S (gL s) /\ gS s5 = gS s /\ gR s5 = gR s.

(* the canonical line *)
Lemma test_head : forall name rest i c,
  name_ok name = true -> implicit_hit D s (upper name) = false ->
  resolve (upper name) (enabled D s) (cmds D) = Some i -> nth_error (cmds D) i = Some c ->
  (c_htest c = true \/ c_vars c <> []) -> c_implicit c = false ->
  exists m s5, steps m s ([ch_A; ch_T] ++ name ++ [ch_EQ; ch_QM; ch_LF] ++ rest) (spfta s5) rest /\
    at_lf i false s5.
Proof.
  intros name rest i c Hok Hh Hres Hc Hvars Him.
  destruct (Lemmas_E2E.dispatch_eq_ex D Hmx s Hn HL Hf Hst Himp Hidle name ([ch_QM; ch_LF] ++ rest) Hok Hh)
    as (c1 & s2 & H1 & (M2 & F2 & U2 & R2) & S2).
  rewrite Hres in R2. destruct R2 as (A1 & A2 & A3 & A4).
  unfold Lemmas_E2E.six in S2.
  assert (G2 : gL s2 = gL s /\ gS s2 = gS s /\ gR s2 = gR s /\ k_cr (k s2) = false /\
               k_hold (k s2) = false /\ length (cbuf s2) = length (cbuf s)).
  { repeat split; congruence. }
  destruct G2 as (gl2 & gs2 & gr2 & cr2 & ho2 & len2).
  pose proof (Lemmas_E2E.cmd_at_of_cmds D i c Hc) as Hc'.
  assert (Hi2 : idle s2) by (apply (Lemmas_C02e.idle_of_u s); assumption).
  assert (Hcmd2 : cmd_of D ATCMD s2 = Some c) by (unfold cmd_of, g_cmd; rewrite A2; exact Hc').
  pose proof (Lemmas_E2E.found_write_step D Hmx s2 ([ch_QM; ch_LF] ++ rest) Hi2 A1) as H2.
  destruct (Lemmas_C06.C06_entry D s2 c Hcmd2 A3 ltac:(unfold asz; lia)) as (E1 & E2 & E3 & E4 & E5 & E6 & E7 & E8).
  destruct (Lemmas_E2E.found_write_pre D s2 c Hcmd2 A3) as (K3 & gs3 & _).
  assert (Hk3 : k_cmd (k (command_found D s2)) = Some i).
  { unfold command_found. rewrite Hcmd2, A3. destruct (cbuf (setk_length 0 s2)); exact A2. }
  set (s3 := command_found D s2) in *.
  assert (Hi3 : idle s3) by (apply (Lemmas_C02e.idle_of_u s2); [apply K3 | exact Hi2]).
  unfold asz in E5.
  destruct K3 as (u3 & gl3 & gr3 & cr3 & ho3).
  pose proof (qm_step_h s3 ([ch_LF] ++ rest) c Hi3 E1 E2 E3 Hvars Him) as H3.
  set (s4 := Lemmas_E2Ec.P4.qm_state s3) in *.
  assert (Hi4 : idle s4) by exact Hi3.
  pose proof (Lemmas_E2Ec.P4.wta_lf_step D Hmx s4 rest Hi4 eq_refl) as H4.
  set (s5 := Lemmas_E2Ec.P4.lf_state s4) in *.
  exists (c1 + (1 + (1 + 1))), s5. split.
  - exact (Lemmas_C02e.steps_trans D _ _ _ _ _ _ _ _ H1
             (Lemmas_C02e.steps_trans D _ _ _ _ _ _ _ _ H2
                (Lemmas_C02e.steps_trans D _ _ _ _ _ _ _ _ H3 H4))).
  - unfold at_lf.
    split; [exact Hi3|]. split; [reflexivity|]. split; [exact Hk3|].
    split; [change (fault s3 = false); congruence|].
    split; [change (k_cr (k s3) = false); congruence|].
    split; [change (k_hold (k s3) = false); congruence|].
    split; [change (length (cbuf s3) = length (cbuf s)); congruence|].
    split; [change (mem s3 = mem s); congruence|].
    split; [change (u s3 = u s); congruence|].
    split; [change (S (gL s3) = S (gL s)); congruence|].
    split; [change (gS s3 = gS s); congruence|].
    change (gR s3 = gR s); congruence.
Qed.

(* the line as a terminal sends it: A/a, carriage returns, T/t, the name in any letter case with carriage
   returns anywhere, '=', carriage returns, '?', carriage returns, LF *)
Lemma test_head_g : forall a m0 t name' m1 m2 rest i c,
  to_upper a = ch_A -> to_upper t = ch_T ->
  name_ok (no_cr name') = true -> implicit_hit D s (upper (no_cr name')) = false ->
  resolve (upper (no_cr name')) (enabled D s) (cmds D) = Some i -> nth_error (cmds D) i = Some c ->
  (c_htest c = true \/ c_vars c <> []) -> c_implicit c = false ->
  exists m s5,
    steps m s (Lemmas_E2Ec.tline a m0 t name' ++ [ch_EQ] ++ repeat ch_CR m1 ++ [ch_QM] ++
               repeat ch_CR m2 ++ [ch_LF] ++ rest) (spfta s5) rest /\
    at_lf i (Lemmas_E2Ec.crflag m0 name' || (0 <? m1) || (0 <? m2)) s5.
Proof.
  intros a m0 t name' m1 m2 rest i c Ha Ht Hok Hh Hres Hc Hvars Him.
  destruct (Lemmas_E2Ec.dispatch_eq_g D Hmx s Hn HL Hf Hst Himp Hidle a m0 t name'
              (repeat ch_CR m1 ++ [ch_QM] ++ repeat ch_CR m2 ++ [ch_LF] ++ rest) Ha Ht Hok Hh)
    as (c1 & _ & H1 & (M2 & F2 & U2 & R2) & S2).
  cbv zeta in H1, M2, F2, U2, R2, S2. rewrite Hcr in H1, M2, F2, U2, R2, S2. cbn [orb] in H1, M2, F2, U2, R2, S2.
  set (s2 := Lemmas_E2Ec.found_state D s (upper (no_cr name')) ch_EQ T_WRITE (Lemmas_E2Ec.crflag m0 name') (gL s)) in *.
  rewrite Hres in R2. destruct R2 as (A1 & A2 & A3 & A4).
  unfold Lemmas_E2E.six in S2.
  assert (G2 : gL s2 = gL s /\ gS s2 = gS s /\ gR s2 = gR s /\ k_cr (k s2) = Lemmas_E2Ec.crflag m0 name' /\
               k_hold (k s2) = false /\ length (cbuf s2) = length (cbuf s)).
  { repeat split; congruence. }
  destruct G2 as (gl2 & gs2 & gr2 & cr2 & ho2 & len2).
  pose proof (Lemmas_E2E.cmd_at_of_cmds D i c Hc) as Hc'.
  assert (Hi2 : idle s2) by (apply (Lemmas_C02e.idle_of_u s); assumption).
  assert (Hcmd2 : cmd_of D ATCMD s2 = Some c) by (unfold cmd_of, g_cmd; rewrite A2; exact Hc').
  pose proof (Lemmas_E2E.found_write_step D Hmx s2
                (repeat ch_CR m1 ++ [ch_QM] ++ repeat ch_CR m2 ++ [ch_LF] ++ rest) Hi2 A1) as H2.
  destruct (Lemmas_C06.C06_entry D s2 c Hcmd2 A3 ltac:(unfold asz; lia)) as (E1 & E2 & E3 & E4 & E5 & E6 & E7 & E8).
  destruct (Lemmas_E2E.found_write_pre D s2 c Hcmd2 A3) as (K3 & gs3 & _).
  assert (Hk3 : k_cmd (k (command_found D s2)) = Some i).
  { unfold command_found. rewrite Hcmd2, A3. destruct (cbuf (setk_length 0 s2)); exact A2. }
  set (s3 := command_found D s2) in *.
  assert (Hi3 : idle s3) by (apply (Lemmas_C02e.idle_of_u s2); [apply K3 | exact Hi2]).
  unfold asz in E5.
  destruct K3 as (u3 & gl3 & gr3 & cr3 & ho3).
  destruct (pca_crs_qm c m1 s3 (repeat ch_CR m2 ++ [ch_LF] ++ rest) Hi3 E1 E2 E3 Hvars Him)
    as (s4 & H3 & St4 & gl4 & (P1 & P2 & P3 & P4 & P5 & P6 & P7 & P8 & P9)).
  assert (Hi4 : idle s4) by (apply (Lemmas_C02e.idle_of_u s3); [exact P1 | exact Hi3]).
  destruct (wta_crs_lf m2 s4 rest Hi4 St4)
    as (s5 & H4 & St5 & gl5 & (Q1 & Q2 & Q3 & Q4 & Q5 & Q6 & Q7 & Q8 & Q9)).
  exists (c1 + (1 + ((m1 + 1) + (m2 + 1)))), s5. split.
  - exact (Lemmas_C02e.steps_trans D _ _ _ _ _ _ _ _ H1
             (Lemmas_C02e.steps_trans D _ _ _ _ _ _ _ _ H2
                (Lemmas_C02e.steps_trans D _ _ _ _ _ _ _ _ H3 H4))).
  - unfold at_lf.
    split; [apply (Lemmas_C02e.idle_of_u s4); [exact Q1 | exact Hi4]|]. split; [exact St5|].
    split; [congruence|]. split; [congruence|].
    split; [rewrite Q9, P9, E8, cr2; reflexivity|].
    split; [congruence|]. split; [rewrite Q5, P5; congruence|].
    split; [congruence|]. split; [congruence|]. split; [congruence|].
    split; congruence.
Qed.

(* ================= 7. the whole line ================= *)
(* from the line feed on: formatting, the handler calls, the units, the result code *)
Lemma after_lf_hsteps : forall s5 cr rest h i c txt rs rn more,
  at_lf i cr s5 -> nth_error (cmds D) i = Some c -> c_htest c = true ->
  spec_test_text c (nl_of cr) = Some txt -> length txt < length (cbuf s) ->
  script_of h (3, i, 0) = rs ++ rn :: more ->
  (forall r, In r rs -> terminal (spec_action K_TEST ATCMD (r_code r)) = false) ->
  terminal (spec_action K_TEST ATCMD (r_code rn)) = true -> r_code rn <> RC_HOLD ->
  r_code rn <> RC_PRINT_CMD_LIST_OK ->
  (forall r, In r (rs ++ [rn]) -> r_calls r = []) ->
  let bsz := length (cbuf s) in
  exists m s9,
    hsteps D m (spfta s5) rest h s9 rest
      (drop_script h (3, i, 0) (S (length rs)))
      (map (fun r => (HTest ATCMD i (txt ++ [0%N]) (length txt) bsz, r_code r)) (rs ++ [rn]))
      (concat (map (wrapg cr) (units_of bsz (text_of txt) (text_of txt) (rs ++ [rn]))) ++
       nl_of cr ++ result_text (r_code rn) ++ nl_of cr) /\
    k_state (k s9) = CS_IDLE /\ mem s9 = pokes_mem (flat_map r_pokes (rs ++ [rn])) (mem s) /\
    fault s9 = false /\ u s9 = u s /\
    gL s9 = S (gL s) /\ gS s9 = S (gS s) /\ gR s9 = S (gR s) /\ k_cr (k s9) = false.
Proof.
  intros s5 cr rest h i c txt rs rn more
         (Hi5 & St5 & Hk5 & Hf5 & Hcr5 & Hho5 & Hlen5 & Hm5 & Hu5 & Hgl5 & Hgs5 & Hgr5)
         Hc Hht Htxt Hfit Hsc Hcont Hterm Hnh Hnl Hcl bsz.
  pose proof (Lemmas_E2E.cmd_at_of_cmds D i c Hc) as Hc'.
  destruct (tformat i c Hc' Hht cr txt Htxt bsz Hfit s5 rest Hi5 Hk5 Hlen5 Hf5 Hcr5) as (j & s7 & H2 & IL7 & F7 & M7).
  { rewrite St5. discriminate. }
  pose proof F7 as (B1 & B2 & B3 & B4 & B5 & B6 & B7 & B8).
  destruct (handler_phase i c Hc' Hht cr txt Htxt bsz Hfit H6 rs rn s7 rest h more)
    as (m3 & s9 & H3 & R1 & R2 & R3 & R4 & R5 & R6 & R7 & R8).
  { exact (Lemmas_E2Ec.P3.idle_fr s5 s7 F7 Hi5). }
  { exact IL7. }
  { congruence. }
  { congruence. }
  { congruence. }
  { exact Hsc. }
  { exact Hcont. }
  { exact Hterm. }
  { exact Hnh. }
  { exact Hnl. }
  { exact Hcl. }
  exists (j + m3), s9. split.
  - eapply Lemmas_E2Ec.P3.hsteps_cast;
      [exact (Lemmas_E2Ec.P3.hsteps_trans D _ _ _ _ _ _ _ _ _ _ _ _ _ _ _
               (Lemmas_E2Ec.P3.hsteps_of_osteps D _ _ _ _ _ _ h (Lemmas_E2E.osteps_of_steps D _ _ _ _ _ H2))
               H3)
      | reflexivity | reflexivity | reflexivity].
  - split; [exact R1|]. split; [rewrite R2, M7, Hm5; reflexivity|].
    split; [congruence|]. split; [congruence|]. split; [congruence|]. split; [congruence|].
    split; [congruence | exact R8].
Qed.

(* from the line feed on, when there is no text or it does not fit: ERROR *)
Lemma after_lf_nofit : forall s5 cr rest i c,
  at_lf i cr s5 -> nth_error (cmds D) i = Some c ->
  match spec_test_text c (nl_of cr) with
  | Some txt => length (cbuf s) <= length txt
  | None => True
  end ->
  exists m s9,
    osteps m (spfta s5) rest s9 rest (nl_of cr ++ txt_ERROR ++ nl_of cr) /\ Lemmas_E2E.line_done s s9.
Proof.
  intros s5 cr rest i c (Hi5 & St5 & Hk5 & Hf5 & Hcr5 & Hho5 & Hlen5 & Hm5 & Hu5 & Hgl5 & Hgs5 & Hgr5) Hc Hno.
  pose proof (Lemmas_E2E.cmd_at_of_cmds D i c Hc) as Hc'.
  assert (Hs5 : k_state (k s5) <> CS_FLUSH_WAIT) by (rewrite St5; discriminate).
  pose proof (Lemmas_E2Ec.P4.spfta_post D s5 Hs5) as P6.
  set (s6 := spfta s5) in *.
  assert (Hi6 : idle s6) by (apply (Lemmas_C02e.idle_of_u s5); [apply P6 | exact Hi5]).
  destruct (Lemmas_E2Ec.P4.fmt_run_steps D Hmx (length (c_vars c)) s5 s6 rest Hi6 P6) as (j & _ & H5 & P7).
  change (fmt_test_run D (length (c_vars c)) ATCMD s6) with (test_response D ATCMD c s5) in H5, P7.
  set (s7 := test_response D ATCMD c s5) in *.
  destruct P7 as (((u7 & gl7 & gr7 & cr7 & ho7) & FL7 & _) & M7 & L7).
  assert (Hi7 : idle s7) by (apply (Lemmas_C02e.idle_of_u s5); assumption).
  assert (Hnl5 : nl_chars s5 = nl_of cr) by (rewrite Lemmas_E2Ec.nl_of_chars, Hcr5; reflexivity).
  assert (Hlen7 : length (cbuf s7) = length (cbuf s)) by (rewrite L7; exact Hlen5).
  assert (TF : Lemmas_C19.TFail ATCMD s7).
  { apply (Lemmas_C19.test_fail D ATCMD s5 i c Hk5 Hc' Hf5).
    - intros _. cbn [g_buf]. rewrite Hlen5. exact H6.
    - unfold spec_test_text in Hno. fold (Lemmas_C19.descr_text c (nl_of cr)) in Hno.
      destruct (all_some (map var_info_text (c_vars c))) as [infos|]; [|exact I].
      rewrite Hnl5. cbn [g_buf]. rewrite Hlen5. exact Hno. }
  destruct TF as (T1 & (T2 & T3 & T4) & _).
  destruct (FL7 T2) as (Q1 & Q2 & Q3 & _ & Q5). specialize (Q5 T3).
  assert (I7 : In 0%N (cbuf s7)).
  { apply Lemmas_E2Ec.P4.in0_of_text. rewrite T4, Hlen7. cbn [length txt_ERROR]. lia. }
  destruct (Lemmas_E2Ec.result_tail_g D Hmx s7 rest txt_ERROR Hi7 (conj T2 (conj Q1 (conj Q2 Q3))) T3
              ltac:(congruence) I7 T4)
    as (s9 & O6 & R1 & R2 & R3 & R4 & R5 & R6 & R7 & R8 & R9 & R10 & _).
  cbv zeta in O6. rewrite cr7, Hcr5 in O6.
  eexists. exists s9. split.
  - eapply Lemmas_E2E.osteps_cast;
      [exact (Lemmas_E2E.osteps_trans D _ _ _ _ _ _ _ _ _ _ (Lemmas_E2E.osteps_of_steps D _ _ _ _ _ H5) O6)
      | reflexivity | reflexivity].
  - unfold Lemmas_E2E.line_done. repeat split; congruence.
Qed.

End Lines.
End HandlerLine.

(* ================= the final statements ================= *)
Local Notation nl_of := Lemmas_E2Ec.nl_of.

(* the result text after the units, as the statements spell it *)
Lemma result_text_eq : forall code,
  result_text code = match spec_action K_TEST ATCMD code with
                     | A_OK | A_EMIT_OK | A_RELEASE_OK => txt_OK
                     | _ => txt_ERROR
                     end.
Proof. reflexivity. Qed.

(* a head followed by the handler phase, read on the world *)
Lemma compose_world : forall D m1 s line s5' rest h m2 s9 h9 calls out,
  Lemmas_C02e.steps D m1 s line s5' rest ->
  hsteps D m2 s5' rest h s9 rest h9 calls out ->
  let w := nsvc D (m1 + m2) (mkw s line h []) in
  wst w = s9 /\ inq (wio w) = rest /\ whs w = h9 /\ GlueDefs.calls_of (wtr w) = calls /\
  GlueDefs.output_of (wtr w) = out.
Proof.
  intros D m1 s line s5' rest h m2 s9 h9 calls out H1 H2.
  exact (Lemmas_E2Ec.P3.hsteps_world D _ _ _ _ _ _ _ _ _
           (Lemmas_E2Ec.P3.hsteps_trans D _ _ _ _ _ _ _ _ _ _ _ _ _ _ _
              (Lemmas_E2Ec.P3.hsteps_of_osteps D _ _ _ _ _ _ h (Lemmas_E2E.osteps_of_steps D _ _ _ _ _ H1)) H2)).
Qed.

Lemma S_len_app1 : forall (A : Type) (l : list A) (x : A), S (length l) = length (l ++ [x]).
Proof. intros A l x. rewrite app_length. cbn [length]. lia. Qed.

(* NUL bytes in the descriptor's strings allowed: the handler is called on the text as formatted, a unit
   that the handler does not edit prints the text up to its first NUL *)
Theorem E2E_test_handler_line_nul_proof : forall D s name rest h i c txt rs rn more,
  d_mutex D = false -> 0 < ncmds D -> ncmds D <= 4 * length (cbuf s) -> 6 <= length (cbuf s) ->
  fault s = false ->
  k_state (k s) = CS_IDLE -> k_cr (k s) = false -> k_implicit (k s) = false -> k_hold (k s) = false ->
  u_state (u s) = US_IDLE -> u_count (u s) = 0 ->
  name_ok name = true -> implicit_hit D s (upper name) = false ->
  resolve (upper name) (enabled D s) (cmds D) = Some i -> nth_error (cmds D) i = Some c ->
  c_htest c = true -> c_implicit c = false ->
  spec_test_text c [ch_LF] = Some txt -> length txt < length (cbuf s) ->
  script_of h (3, i, 0) = rs ++ rn :: more ->
  (forall r, In r rs -> terminal (spec_action K_TEST ATCMD (r_code r)) = false) ->
  terminal (spec_action K_TEST ATCMD (r_code rn)) = true -> r_code rn <> RC_HOLD ->
  r_code rn <> RC_PRINT_CMD_LIST_OK ->
  (forall r, In r (rs ++ [rn]) -> r_calls r = []) ->
  let bsz := length (cbuf s) in
  let units := units_of bsz (text_of txt) (text_of txt) (rs ++ [rn]) in
  let w0 := mkw s ([ch_A; ch_T] ++ name ++ [ch_EQ; ch_QM; ch_LF] ++ rest) h [] in
  exists calls, let w := nsvc D calls w0 in
    k_state (k (wst w)) = CS_IDLE /\ inq (wio w) = rest /\
    whs w = drop_script h (3, i, 0) (S (length rs)) /\
    GlueDefs.calls_of (wtr w) =
      combine (repeat (HTest ATCMD i (txt ++ [0%N]) (length txt) bsz) (S (length rs)))
              (map r_code (rs ++ [rn])) /\
    mem (wst w) = pokes_mem (flat_map r_pokes (rs ++ [rn])) (mem s) /\ fault (wst w) = false /\
    GlueDefs.output_of (wtr w) =
      concat (map (fun u => [ch_LF] ++ u ++ [ch_LF]) units) ++
      [ch_LF] ++ match spec_action K_TEST ATCMD (r_code rn) with
                 | A_OK | A_EMIT_OK | A_RELEASE_OK => txt_OK
                 | _ => txt_ERROR
                 end ++ [ch_LF] /\
    gL (wst w) = S (gL s) /\ gS (wst w) = S (gS s) /\ gR (wst w) = S (gR s).
Proof.
  intros D s name rest h i c txt rs rn more Hmx Hn HL H6 Hf Hst Hcr Himp Hhold Hu1 Hu2 Hok Hh Hres Hc
         Hht Him Htxt Hfit Hsc Hcont Hterm Hnh Hnl Hcl bsz units w0.
  destruct (test_head D Hmx s Hn HL H6 Hf Hst Hcr Himp Hhold (conj Hu1 Hu2) name rest i c Hok Hh Hres Hc (or_introl Hht) Him)
    as (m1 & s5 & H1 & A5).
  destruct (after_lf_hsteps D Hmx s H6 s5 false rest h i c txt rs rn more A5 Hc Hht Htxt Hfit Hsc Hcont Hterm
              Hnh Hnl Hcl) as (m2 & s9 & H2 & L1 & L2 & L3 & L4 & L5 & L6 & L7 & L8).
  exists (m1 + m2). intros w.
  destruct (compose_world D _ _ _ _ _ h _ _ _ _ _ H1 H2) as (E1 & E2 & E3 & E4 & E5).
  fold w0 in E1, E2, E3, E4, E5. fold w in E1, E2, E3, E4, E5. rewrite E1.
  split; [exact L1|]. split; [exact E2|]. split; [exact E3|]. split.
  { rewrite E4, (S_len_app1 _ rs rn). symmetry. apply Lemmas_E2Ec.P3.combine_repeat_map. }
  split; [exact L2|]. split; [exact L3|]. split; [exact E5|].
  split; [exact L5|]. split; [exact L6 | exact L7].
Qed.

(* THE theorem: the fresh text has no NUL (C strings in the descriptor) *)
Theorem E2E_test_handler_line_proof : forall D s name rest h i c txt rs rn more,
  d_mutex D = false -> 0 < ncmds D -> ncmds D <= 4 * length (cbuf s) -> 6 <= length (cbuf s) ->
  fault s = false ->
  k_state (k s) = CS_IDLE -> k_cr (k s) = false -> k_implicit (k s) = false -> k_hold (k s) = false ->
  u_state (u s) = US_IDLE -> u_count (u s) = 0 ->
  name_ok name = true -> implicit_hit D s (upper name) = false ->
  resolve (upper name) (enabled D s) (cmds D) = Some i -> nth_error (cmds D) i = Some c ->
  c_htest c = true -> c_implicit c = false ->
  spec_test_text c [ch_LF] = Some txt -> ~ In 0%N txt -> length txt < length (cbuf s) ->
  script_of h (3, i, 0) = rs ++ rn :: more ->
  (forall r, In r rs -> terminal (spec_action K_TEST ATCMD (r_code r)) = false) ->
  terminal (spec_action K_TEST ATCMD (r_code rn)) = true -> r_code rn <> RC_HOLD ->
  r_code rn <> RC_PRINT_CMD_LIST_OK ->
  (forall r, In r (rs ++ [rn]) -> r_calls r = []) ->
  let bsz := length (cbuf s) in
  let units := units_of bsz txt txt (rs ++ [rn]) in
  let w0 := mkw s ([ch_A; ch_T] ++ name ++ [ch_EQ; ch_QM; ch_LF] ++ rest) h [] in
  exists calls, let w := nsvc D calls w0 in
    k_state (k (wst w)) = CS_IDLE /\ inq (wio w) = rest /\
    whs w = drop_script h (3, i, 0) (S (length rs)) /\
    GlueDefs.calls_of (wtr w) =
      combine (repeat (HTest ATCMD i (txt ++ [0%N]) (length txt) bsz) (S (length rs)))
              (map r_code (rs ++ [rn])) /\
    mem (wst w) = pokes_mem (flat_map r_pokes (rs ++ [rn])) (mem s) /\ fault (wst w) = false /\
    GlueDefs.output_of (wtr w) =
      concat (map (fun u => [ch_LF] ++ u ++ [ch_LF]) units) ++
      [ch_LF] ++ match spec_action K_TEST ATCMD (r_code rn) with
                 | A_OK | A_EMIT_OK | A_RELEASE_OK => txt_OK
                 | _ => txt_ERROR
                 end ++ [ch_LF] /\
    gL (wst w) = S (gL s) /\ gS (wst w) = S (gS s) /\ gR (wst w) = S (gR s).
Proof.
  intros D s name rest h i c txt rs rn more Hmx Hn HL H6 Hf Hst Hcr Himp Hhold Hu1 Hu2 Hok Hh Hres Hc
         Hht Him Htxt Hnul Hfit Hsc Hcont Hterm Hnh Hnl Hcl bsz units w0.
  pose proof (E2E_test_handler_line_nul_proof D s name rest h i c txt rs rn more Hmx Hn HL H6 Hf Hst Hcr
                Himp Hhold Hu1 Hu2 Hok Hh Hres Hc Hht Him Htxt Hfit Hsc Hcont Hterm Hnh Hnl Hcl) as R.
  cbv zeta in R. rewrite (Lemmas_E2Ec.P4.text_of_no_nul txt Hnul) in R. exact R.
Qed.

(* the line as a terminal sends it: lower-case at, carriage returns anywhere before the line feed (typically
   one just before it: CR LF).  The newline the machine uses for this line is CR LF if a carriage return was
   seen, also INSIDE the fresh text (before the description), hence spec_test_text c nl *)
Theorem E2E_test_handler_line_t_proof : forall D s a m0 t name' m1 m2 rest h i c txt rs rn more,
  d_mutex D = false -> 0 < ncmds D -> ncmds D <= 4 * length (cbuf s) -> 6 <= length (cbuf s) ->
  fault s = false ->
  k_state (k s) = CS_IDLE -> k_cr (k s) = false -> k_implicit (k s) = false -> k_hold (k s) = false ->
  u_state (u s) = US_IDLE -> u_count (u s) = 0 ->
  to_upper a = ch_A -> to_upper t = ch_T ->
  name_ok (no_cr name') = true -> implicit_hit D s (upper (no_cr name')) = false ->
  resolve (upper (no_cr name')) (enabled D s) (cmds D) = Some i -> nth_error (cmds D) i = Some c ->
  c_htest c = true -> c_implicit c = false ->
  let cr := (0 <? m0) || existsb (fun c => (c =? ch_CR)%N) name' || (0 <? m1) || (0 <? m2) in
  let nl := if cr then [ch_CR; ch_LF] else [ch_LF] in
  spec_test_text c nl = Some txt -> ~ In 0%N txt -> length txt < length (cbuf s) ->
  script_of h (3, i, 0) = rs ++ rn :: more ->
  (forall r, In r rs -> terminal (spec_action K_TEST ATCMD (r_code r)) = false) ->
  terminal (spec_action K_TEST ATCMD (r_code rn)) = true -> r_code rn <> RC_HOLD ->
  r_code rn <> RC_PRINT_CMD_LIST_OK ->
  (forall r, In r (rs ++ [rn]) -> r_calls r = []) ->
  let bsz := length (cbuf s) in
  let units := units_of bsz txt txt (rs ++ [rn]) in
  let w0 := mkw s ([a] ++ repeat ch_CR m0 ++ [t] ++ name' ++ [ch_EQ] ++ repeat ch_CR m1 ++ [ch_QM] ++
                   repeat ch_CR m2 ++ [ch_LF] ++ rest) h [] in
  exists calls, let w := nsvc D calls w0 in
    k_state (k (wst w)) = CS_IDLE /\ inq (wio w) = rest /\
    whs w = drop_script h (3, i, 0) (S (length rs)) /\
    GlueDefs.calls_of (wtr w) =
      combine (repeat (HTest ATCMD i (txt ++ [0%N]) (length txt) bsz) (S (length rs)))
              (map r_code (rs ++ [rn])) /\
    mem (wst w) = pokes_mem (flat_map r_pokes (rs ++ [rn])) (mem s) /\ fault (wst w) = false /\
    GlueDefs.output_of (wtr w) =
      concat (map (fun u => nl ++ u ++ nl) units) ++
      nl ++ match spec_action K_TEST ATCMD (r_code rn) with
            | A_OK | A_EMIT_OK | A_RELEASE_OK => txt_OK
            | _ => txt_ERROR
            end ++ nl /\
    gL (wst w) = S (gL s) /\ gS (wst w) = S (gS s) /\ gR (wst w) = S (gR s) /\ k_cr (k (wst w)) = false.
Proof.
  intros D s a m0 t name' m1 m2 rest h i c txt rs rn more Hmx Hn HL H6 Hf Hst Hcr Himp Hhold Hu1 Hu2
         Ha Ht Hok Hh Hres Hc Hht Him cr nl Htxt Hnul Hfit Hsc Hcont Hterm Hnh Hnl Hcl bsz units w0.
  destruct (test_head_g D Hmx s Hn HL H6 Hf Hst Hcr Himp Hhold (conj Hu1 Hu2) a m0 t name' m1 m2 rest i c
              Ha Ht Hok Hh Hres Hc (or_introl Hht) Him) as (k1 & s5 & H1 & A5).
  rewrite Lemmas_E2Ec.tline_app in H1.
  change (Lemmas_E2Ec.crflag m0 name' || (0 <? m1) || (0 <? m2)) with cr in A5.
  destruct (after_lf_hsteps D Hmx s H6 s5 cr rest h i c txt rs rn more A5 Hc Hht Htxt Hfit Hsc Hcont Hterm
              Hnh Hnl Hcl) as (k2 & s9 & H2 & L1 & L2 & L3 & L4 & L5 & L6 & L7 & L8).
  rewrite (Lemmas_E2Ec.P4.text_of_no_nul txt Hnul) in H2.
  exists (k1 + k2). intros w.
  destruct (compose_world D _ _ _ _ _ h _ _ _ _ _ H1 H2) as (E1 & E2 & E3 & E4 & E5).
  fold w0 in E1, E2, E3, E4, E5. fold w in E1, E2, E3, E4, E5. rewrite E1.
  split; [exact L1|]. split; [exact E2|]. split; [exact E3|]. split.
  { rewrite E4, (S_len_app1 _ rs rn). symmetry. apply Lemmas_E2Ec.P3.combine_repeat_map. }
  split; [exact L2|]. split; [exact L3|]. split; [exact E5|].
  split; [exact L5|]. split; [exact L6|]. split; [exact L7 | exact L8].
Qed.

(* the complementary line: the text does not exist (a variable of an unsupported width) or does not fit
   the buffer: ERROR, no handler call, whether or not the command has a test handler *)
Theorem E2E_test_nofit_line_proof : forall D s name rest h i c,
  d_mutex D = false -> 0 < ncmds D -> ncmds D <= 4 * length (cbuf s) -> 6 <= length (cbuf s) ->
  fault s = false ->
  k_state (k s) = CS_IDLE -> k_cr (k s) = false -> k_implicit (k s) = false -> k_hold (k s) = false ->
  u_state (u s) = US_IDLE -> u_count (u s) = 0 ->
  name_ok name = true -> implicit_hit D s (upper name) = false ->
  resolve (upper name) (enabled D s) (cmds D) = Some i -> nth_error (cmds D) i = Some c ->
  (c_htest c = true \/ c_vars c <> []) -> c_implicit c = false ->
  match spec_test_text c [ch_LF] with
  | Some txt => length (cbuf s) <= length txt
  | None => True
  end ->
  let w0 := mkw s ([ch_A; ch_T] ++ name ++ [ch_EQ; ch_QM; ch_LF] ++ rest) h [] in
  exists calls, let w := nsvc D calls w0 in
    k_state (k (wst w)) = CS_IDLE /\ inq (wio w) = rest /\ whs w = h /\ GlueDefs.calls_of (wtr w) = [] /\
    mem (wst w) = mem s /\ fault (wst w) = false /\
    GlueDefs.output_of (wtr w) = [ch_LF] ++ txt_ERROR ++ [ch_LF] /\
    gL (wst w) = S (gL s) /\ gS (wst w) = S (gS s) /\ gR (wst w) = S (gR s).
Proof.
  intros D s name rest h i c Hmx Hn HL H6 Hf Hst Hcr Himp Hhold Hu1 Hu2 Hok Hh Hres Hc Hv Him Hno w0.
  destruct (test_head D Hmx s Hn HL H6 Hf Hst Hcr Himp Hhold (conj Hu1 Hu2) name rest i c Hok Hh Hres Hc Hv Him)
    as (m1 & s5 & H1 & A5).
  destruct (after_lf_nofit D Hmx s Hn HL H6 s5 false rest i c A5 Hc Hno)
    as (m2 & s9 & O & (L1 & L2 & L3 & L4 & L5 & L6 & L7 & _)).
  exists (m1 + m2). intros w.
  destruct (Lemmas_E2E.osteps_world D _ s _ s9 rest _ h
              (Lemmas_E2E.osteps_trans D _ _ _ _ _ _ _ _ _ _ (Lemmas_E2E.osteps_of_steps D _ _ _ _ _ H1) O))
    as (E1 & E2 & E3 & E4 & E5).
  fold w0 in E1, E2, E3, E4, E5. fold w in E1, E2, E3, E4, E5. rewrite E1.
  repeat (split; [assumption|]). assumption.
Qed.

(* the complementary line as a terminal sends it *)
Theorem E2E_test_nofit_line_t_proof : forall D s a m0 t name' m1 m2 rest h i c,
  d_mutex D = false -> 0 < ncmds D -> ncmds D <= 4 * length (cbuf s) -> 6 <= length (cbuf s) ->
  fault s = false ->
  k_state (k s) = CS_IDLE -> k_cr (k s) = false -> k_implicit (k s) = false -> k_hold (k s) = false ->
  u_state (u s) = US_IDLE -> u_count (u s) = 0 ->
  to_upper a = ch_A -> to_upper t = ch_T ->
  name_ok (no_cr name') = true -> implicit_hit D s (upper (no_cr name')) = false ->
  resolve (upper (no_cr name')) (enabled D s) (cmds D) = Some i -> nth_error (cmds D) i = Some c ->
  (c_htest c = true \/ c_vars c <> []) -> c_implicit c = false ->
  let cr := (0 <? m0) || existsb (fun c => (c =? ch_CR)%N) name' || (0 <? m1) || (0 <? m2) in
  let nl := if cr then [ch_CR; ch_LF] else [ch_LF] in
  match spec_test_text c nl with
  | Some txt => length (cbuf s) <= length txt
  | None => True
  end ->
  let w0 := mkw s ([a] ++ repeat ch_CR m0 ++ [t] ++ name' ++ [ch_EQ] ++ repeat ch_CR m1 ++ [ch_QM] ++
                   repeat ch_CR m2 ++ [ch_LF] ++ rest) h [] in
  exists calls, let w := nsvc D calls w0 in
    k_state (k (wst w)) = CS_IDLE /\ inq (wio w) = rest /\ whs w = h /\ GlueDefs.calls_of (wtr w) = [] /\
    mem (wst w) = mem s /\ fault (wst w) = false /\
    GlueDefs.output_of (wtr w) = nl ++ txt_ERROR ++ nl /\
    gL (wst w) = S (gL s) /\ gS (wst w) = S (gS s) /\ gR (wst w) = S (gR s) /\ k_cr (k (wst w)) = false.
Proof.
  intros D s a m0 t name' m1 m2 rest h i c Hmx Hn HL H6 Hf Hst Hcr Himp Hhold Hu1 Hu2
         Ha Ht Hok Hh Hres Hc Hv Him cr nl Hno w0.
  destruct (test_head_g D Hmx s Hn HL H6 Hf Hst Hcr Himp Hhold (conj Hu1 Hu2) a m0 t name' m1 m2 rest i c
              Ha Ht Hok Hh Hres Hc Hv Him) as (k1 & s5 & H1 & A5).
  rewrite Lemmas_E2Ec.tline_app in H1.
  change (Lemmas_E2Ec.crflag m0 name' || (0 <? m1) || (0 <? m2)) with cr in A5.
  destruct (after_lf_nofit D Hmx s Hn HL H6 s5 cr rest i c A5 Hc Hno)
    as (k2 & s9 & O & (L1 & L2 & L3 & L4 & L5 & L6 & L7 & L8 & _)).
  exists (k1 + k2). intros w.
  destruct (Lemmas_E2E.osteps_world D _ s _ s9 rest _ h
              (Lemmas_E2E.osteps_trans D _ _ _ _ _ _ _ _ _ _ (Lemmas_E2E.osteps_of_steps D _ _ _ _ _ H1) O))
    as (E1 & E2 & E3 & E4 & E5).
  fold w0 in E1, E2, E3, E4, E5. fold w in E1, E2, E3, E4, E5. rewrite E1.
  repeat (split; [assumption|]). assumption.
Qed.

(* the handler state of the conclusion, read through script_of: the script of the test handler of
   command i has lost exactly the delivered results, every other script is unchanged *)
Theorem E2E_test_handler_line_script_proof : forall h i (rs : list hres) rn more,
  script_of h (3, i, 0) = rs ++ rn :: more ->
  script_of (drop_script h (3, i, 0) (S (length rs))) (3, i, 0) = more /\
  forall key', key' <> (3, i, 0) ->
    script_of (drop_script h (3, i, 0) (S (length rs))) key' = script_of h key'.
Proof.
  intros h i rs rn more H. split.
  - rewrite Lemmas_E2Ec.P3.script_of_drop, H.
    assert (X : key_eqb (3, i, 0) (3, i, 0) = true) by (apply Lemmas_E2Ec.P3.key_eqb_eq; reflexivity).
    rewrite X.
    replace (S (length rs)) with (length (rs ++ [rn])) by (rewrite app_length; cbn [length]; lia).
    replace (rs ++ rn :: more) with ((rs ++ [rn]) ++ more) by (rewrite <- app_assoc; reflexivity).
    rewrite skipn_app, Nat.sub_diag, skipn_all. reflexivity.
  - intros key' Hk. rewrite Lemmas_E2Ec.P3.script_of_drop.
    destruct (key_eqb (3, i, 0) key') eqn:E; [|reflexivity].
    apply Lemmas_E2Ec.P3.key_eqb_eq in E. congruence.
Qed.

(* the key under which the scripted world looks up the answer to a TEST request of the command machine *)
Lemma key_of_test : forall f i t p b, key_of (HTest f i t p b) = (3, i, 0).
Proof. reflexivity. Qed.
