(* Properties_C17.v — functional part of property C17 (cross-thread triggers under a real mutex).
   Every interleaving of lock-protected API bodies is some operation history, so the per-producer
   guarantees are corollaries of the C13 theorems over ALL histories (Lemmas_C13.v).

   Tag-free formulation: the subsequence of accepted events satisfying ANY predicate P (e.g. "was
   produced by thread k", identified by its command index) is delivered in order, exactly once.

   DIFFERENCE WITH THE REQUESTED STATEMENT of C17_per_producer: extra hypothesis that the unlock
   never fails (or no mutex is configured); without it an event may be queued although its trigger
   returned MUTEX_UNLOCK (see Properties_C13.v, Example C13_cex_unlock).  C17_per_producer_general
   holds without that hypothesis, for the events whose push was executed (`pushed`, defined in
   Lemmas_C13.v and explained in Properties_C13.v). *)
From Coq Require Import List NArith ZArith Bool Arith.
From CatV Require Import Bytes Defs Codec Fsm TraceDefs Script Lemmas_C13.
Import ListNotations.
Local Open Scope nat_scope.

Section Statements.
Variable D : desc.
Variables ioS muS hS : Type.
Variable io_read : ioS -> ioS * option N.
Variable io_write : ioS -> N -> ioS * bool.
Variable mu_lock : muS -> muS * bool.
Variable mu_unlock : muS -> muS * bool.
Variable h_call : hS -> hreq -> hS * hres.

Theorem C17_per_producer : forall (P : nat * ctype -> bool) m x mx h ops,
  0 < d_cap D ->
  (d_mutex D = false \/ (forall m, snd (mu_unlock m) = true)) ->
  let w := run D ioS muS hS io_read io_write mu_lock mu_unlock h_call
               (mkWorld ioS muS hS (init_state D m) x mx h []) ops in
  filter P (accepted (hist ioS muS hS w)) =
  filter P (popped (hist ioS muS hS w)) ++ filter P (ring_items D (st ioS muS hS w)).
Proof. exact (Lemmas_C13.C17_per_producer D ioS muS hS io_read io_write mu_lock mu_unlock h_call). Qed.

Theorem C17_per_producer_general : forall (P : nat * ctype -> bool) m x mx h ops,
  0 < d_cap D ->
  let w := run D ioS muS hS io_read io_write mu_lock mu_unlock h_call
               (mkWorld ioS muS hS (init_state D m) x mx h []) ops in
  filter P (pushed (d_cap D) (hist ioS muS hS w)) =
  filter P (popped (hist ioS muS hS w)) ++ filter P (ring_items D (st ioS muS hS w)).
Proof. exact (Lemmas_C13.C17_per_producer_general D ioS muS hS io_read io_write mu_lock mu_unlock h_call). Qed.

End Statements.

Print Assumptions C17_per_producer.
Print Assumptions C17_per_producer_general.

(* non-vacuity: two producers (command 0 and command 1) interleaved under a mutex whose lock is
   sometimes refused; each producer's accepted events come out in its own order *)
Definition exC0 : cmd := mkCmd [43; 88]%N None false true false true [] false false false.
Definition exC1 : cmd := mkCmd [43; 89]%N None false true false true [] false false false.
Definition exD : desc := mkDesc [[exC0; exC1]] [] 32 None 0%N 3 true.
Definition exW : sworld :=
  run exD sio smu shs s_read s_write s_lock s_unlock s_call
      (mkWorld sio smu shs (init_state exD []) (mkSio [] [] []) (mkSmu [true; false; true] []) [] [])
      ([OTrigger 0 T_READ; OTrigger 1 T_READ; OTrigger 1 T_TEST; OTrigger 0 T_TEST; OService;
        OTrigger 1 T_READ; OTrigger 0 T_READ] ++ repeat OService 30).

Example C17_ex :
  accepted (hist _ _ _ exW) = [(0, T_READ); (1, T_TEST); (0, T_TEST); (1, T_READ)] /\
  filter (fun it => fst it =? 1) (popped (hist _ _ _ exW)) = [(1, T_TEST); (1, T_READ)] /\
  filter (fun it => fst it =? 0) (popped (hist _ _ _ exW)) = [(0, T_READ); (0, T_TEST)] /\
  ring_items exD (st _ _ _ exW) = [] /\ fault (st _ _ _ exW) = false.
Proof. vm_compute. auto 6. Qed.
