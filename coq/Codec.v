(* Codec.v — the typed argument decoders (cat.c:1064-1363) and formatters
   (cat.c:1453-1744) as structural recursions over the text that follows the
   cursor.  Running off the end of the buffer, an out-of-range store or a
   signed overflow yields the distinguished result SFault / a set cu_fault.
   No proofs here. *)
From Coq Require Import List NArith ZArith Bool Arith.
From CatV Require Import Bytes Defs.
Import ListNotations.
Local Open Scope N_scope.

Inductive pstat := SFault | SErr | SOk (comma : bool).

Definition is_term (ch : N) : bool := (ch =? 0) || (ch =? ch_COMMA).

(* ---- parse_uint_decimal (cat.c:1109, repaired) ---- *)
Fixpoint parse_uint_go (l : list N) (val : N) (ok : bool) (n : nat) : pstat * N * nat :=
  match l with
  | [] => (SFault, val, n)
  | ch :: r =>
    let n := S n in
    if ok && is_term ch then (SOk (ch =? ch_COMMA), val, n)
    else if is_dec ch then
      let d := ch - 48 in
      if (max_u64 - d) / 10 <? val then (SErr, val, n)
      else parse_uint_go r ((val * 10 + d) mod two64) true n
    else (SErr, val, n)
  end.
Definition parse_uint (l : list N) := parse_uint_go l 0 false O.

(* ---- parse_int_decimal (cat.c:1064, repaired) ---- *)
Fixpoint parse_int_go (l : list N) (val sign : Z) (ok : bool) (n : nat) : pstat * Z * nat :=
  match l with
  | [] => (SFault, val, n)
  | ch :: r =>
    let n := S n in
    if ok && is_term ch then (SOk (ch =? ch_COMMA), (val * sign)%Z, n)
    else if (sign =? 0)%Z then
      if ch =? ch_MINUS then parse_int_go r val (-1)%Z ok n
      else if ch =? ch_PLUS then parse_int_go r val 1%Z ok n
      else if is_dec ch then parse_int_go r (Z.of_N (ch - 48)) 1%Z true n
      else (SErr, val, n)
    else if is_dec ch then
      let d := Z.of_N (ch - 48) in
      if ((max_i64 - d) / 10 <? val)%Z then (SErr, val, n)
      else
        let v' := (val * 10 + d)%Z in
        if (max_i64 <? v')%Z then (SFault, val, n)      (* signed overflow would be UB *)
        else parse_int_go r v' sign true n
    else (SErr, val, n)
  end.
Definition parse_int (l : list N) := parse_int_go l 0%Z 0%Z false O.

(* ---- parse_num_hexadecimal (cat.c:1138, repaired) ---- *)
Fixpoint parse_hex_go (l : list N) (val : N) (st : nat) (n : nat) : pstat * N * nat :=
  match l with
  | [] => (SFault, val, n)
  | ch0 :: r =>
    let n := S n in
    let ch := to_upper ch0 in
    if (3 <=? st)%nat && is_term ch then (SOk (ch =? ch_COMMA), val, n)
    else match st with
         | O => if ch =? ch_0 then parse_hex_go r val 1%nat n else (SErr, val, n)
         | S O => if ch =? ch_X then parse_hex_go r val 2%nat n else (SErr, val, n)
         | _ =>
           if is_hex ch then
             if negb (N.shiftr val 60 =? 0) then (SErr, val, n)
             else parse_hex_go r ((val * 16 + hexval ch) mod two64) 3%nat n
           else (SErr, val, n)
         end
  end.
Definition parse_hex (l : list N) := parse_hex_go l 0 O O.

(* result of the two buffer decoders: status, variable storage, write_size, chars consumed *)
Record bres := mkBres { b_st : pstat; b_data : list N; b_wsize : nat; b_n : nat }.

(* ---- parse_buffer_hexadecimal (cat.c:1178) ---- *)
Fixpoint parse_bufhex_go (l : list N) (byte : N) (st : bool) (size : nat)
         (data : list N) (ro : bool) (dsz : nat) (n : nat) : bres :=
  match l with
  | [] => mkBres SFault data O n
  | ch0 :: r =>
    let n := S n in
    let ch := to_upper ch0 in
    if (0 <? size)%nat && negb st && is_term ch then
      mkBres (SOk (ch =? ch_COMMA)) data (if ro then O else size) n
    else if negb (is_hex ch) then mkBres SErr data O n
    else
      let byte := (byte * 16 + hexval ch) mod 256 in
      if st then
        if (dsz <=? size)%nat then mkBres SErr data O n
        else if ro then parse_bufhex_go r 0 false (S size) data ro dsz n
        else if (size <? length data)%nat
             then parse_bufhex_go r 0 false (S size) (upd data size byte) ro dsz n
             else mkBres SFault data O n
      else parse_bufhex_go r byte true size data ro dsz n
  end.
Definition parse_bufhex (l : list N) (data : list N) (ro : bool) (dsz : nat) : bres :=
  parse_bufhex_go l 0 false O data ro dsz O.

(* ---- parse_buffer_string (cat.c:1223); st = 0..3 ---- *)
Fixpoint parse_bufstr_go (l : list N) (st : nat) (size : nat)
         (data : list N) (ro : bool) (dsz : nat) (n : nat) : bres :=
  match l with
  | [] => mkBres SFault data O n
  | ch :: r =>
    let n := S n in
    match st with
    | O => if ch =? ch_QUOTE then parse_bufstr_go r 1%nat size data ro dsz n
           else mkBres SErr data O n
    | S O =>
      if ch =? 0 then mkBres SErr data O n
      else if ch =? ch_BSL then parse_bufstr_go r 2%nat size data ro dsz n
      else if ch =? ch_QUOTE then parse_bufstr_go r 3%nat size data ro dsz n
      else if (dsz <=? size)%nat then mkBres SErr data O n
      else if ro then parse_bufstr_go r 1%nat (S size) data ro dsz n
      else if (size <? length data)%nat
           then parse_bufstr_go r 1%nat (S size) (upd data size ch) ro dsz n
           else mkBres SFault data O n
    | S (S O) =>
      let dec := if ch =? ch_BSL then Some ch_BSL
                 else if ch =? ch_QUOTE then Some ch_QUOTE
                 else if ch =? ch_n then Some ch_LF else None in
      match dec with
      | None => mkBres SErr data O n
      | Some c =>
        if (dsz <=? size)%nat then mkBres SErr data O n
        else if ro then parse_bufstr_go r 1%nat (S size) data ro dsz n
        else if (size <? length data)%nat
             then parse_bufstr_go r 1%nat (S size) (upd data size c) ro dsz n
             else mkBres SFault data O n
      end
    | _ =>
      if is_term ch then
        if (dsz <=? size)%nat then mkBres SErr data O n
        else if ro then mkBres (SOk (ch =? ch_COMMA)) data O n
        else if (size <? length data)%nat
             then mkBres (SOk (ch =? ch_COMMA)) (upd data size 0) size n
             else mkBres SFault data O n
      else mkBres SErr data O n
    end
  end.
Definition parse_bufstr (l : list N) (data : list N) (ro : bool) (dsz : nat) : bres :=
  parse_bufstr_go l O O data ro dsz O.

(* ---- validate_int_range / validate_uint_range (cat.c:1305, 1335) ---- *)
Inductive vres := VFault | VErr | VOk (data : list N) (wsize : nat).

Definition store_prefix (data bytes : list N) : option (list N) :=
  if (length data <? length bytes)%nat then None
  else Some (bytes ++ skipn (length bytes) data).

Definition supported_width (sz : nat) : bool :=
  (sz =? 1)%nat || (sz =? 2)%nat || (sz =? 4)%nat.

Definition validate_int (ro : bool) (dsz : nat) (val : Z) (data : list N) : vres :=
  if ro then VOk data O
  else if negb (supported_width dsz) then VErr
  else
    let half := Z.of_N (two_pow8 dsz / 2) in
    if ((val <? - half) || (half - 1 <? val))%Z then VErr
    else match store_prefix data (le_bytes_signed dsz val) with
         | None => VFault
         | Some d => VOk d dsz
         end.

Definition validate_uint (ro : bool) (dsz : nat) (val : N) (data : list N) : vres :=
  if ro then VOk data O
  else if negb (supported_width dsz) then VErr
  else if two_pow8 dsz - 1 <? val then VErr
  else match store_prefix data (le_bytes dsz val) with
       | None => VFault
       | Some d => VOk d dsz
       end.

(* decode + validate one argument field for variable v (the switch of parse_write_args,
   cat.c:1372-1422): (status, new storage, write_size, characters consumed) *)
Definition decode_var (v : var) (rest : list N) (data : list N) : pstat * list N * nat * nat :=
  let ro := vaccess_beq (v_access v) RO in
  match v_type v with
  | VInt =>
    let '(pst, val, n) := parse_int rest in
    match pst with
    | SOk _ => match validate_int ro (v_size v) val data with
               | VFault => (SFault, data, O, n)
               | VErr => (SErr, data, O, n)
               | VOk d ws => (pst, d, ws, n)
               end
    | _ => (pst, data, O, n)
    end
  | VUint =>
    let '(pst, val, n) := parse_uint rest in
    match pst with
    | SOk _ => match validate_uint ro (v_size v) val data with
               | VFault => (SFault, data, O, n)
               | VErr => (SErr, data, O, n)
               | VOk d ws => (pst, d, ws, n)
               end
    | _ => (pst, data, O, n)
    end
  | VHex =>
    let '(pst, val, n) := parse_hex rest in
    match pst with
    | SOk _ => match validate_uint ro (v_size v) val data with
               | VFault => (SFault, data, O, n)
               | VErr => (SErr, data, O, n)
               | VOk d ws => (pst, d, ws, n)
               end
    | _ => (pst, data, O, n)
    end
  | VBufHex =>
    let r := parse_bufhex rest data ro (v_size v) in (b_st r, b_data r, b_wsize r, b_n r)
  | VBufStr =>
    let r := parse_bufstr rest data ro (v_size v) in (b_st r, b_data r, b_wsize r, b_n r)
  end.

(* ================= printing into a buffer ================= *)

Record cur := mkCur { cu_buf : list N; cu_pos : nat; cu_fault : bool }.

Definition cur_store (c : cur) (i : nat) (v : N) : cur :=
  if (i <? length (cu_buf c))%nat then mkCur (upd (cu_buf c) i v) (cu_pos c) (cu_fault c)
  else mkCur (cu_buf c) (cu_pos c) true.

Fixpoint cur_store_list (c : cur) (i : nat) (l : list N) : cur :=
  match l with
  | [] => c
  | x :: r => cur_store_list (cur_store c i x) (S i) r
  end.

Definition cur_set_pos (c : cur) (p : nat) : cur := mkCur (cu_buf c) p (cu_fault c).
Definition cur_fault (c : cur) : cur := mkCur (cu_buf c) (cu_pos c) true.

(* cat.c:390 print_nstring_to_buf; false = -1 *)
Definition print_nstring (c : cur) (str : list N) : cur * bool :=
  let bsz := length (cu_buf c) in
  if (bsz <? cu_pos c)%nat then (cur_fault c, false)          (* size_t underflow of the space left *)
  else if (bsz - cu_pos c <=? length str)%nat then (c, false)
  else
    let c1 := cur_store_list c (cu_pos c) str in
    let c2 := cur_set_pos c1 (cu_pos c + length str) in
    (cur_store c2 (cu_pos c2) 0, true).

(* cat.c:1453 print_format_num, given the text snprintf would produce *)
Definition print_num (c : cur) (text : list N) : cur * bool :=
  let bsz := length (cu_buf c) in
  if (bsz <? cu_pos c)%nat then (cur_fault c, false)
  else
    let len := (bsz - cu_pos c)%nat in
    let c1 := if (len =? 0)%nat then c
              else cur_store_list c (cu_pos c) (firstn (len - 1) text ++ [0]) in
    if (len <=? length text)%nat then (c1, false)
    else (cur_set_pos c1 (cu_pos c + length text), true).

(* a sequence of print_string_to_buf calls, stopping at the first failure *)
Fixpoint print_pieces (c : cur) (ps : list (list N)) : cur * bool :=
  match ps with
  | [] => (c, true)
  | p :: r => let (c1, ok) := print_nstring c p in
              if ok then print_pieces c1 r else (c1, false)
  end.

Fixpoint print_nums (c : cur) (ps : list (list N)) : cur * bool :=
  match ps with
  | [] => (c, true)
  | p :: r => let (c1, ok) := print_num c p in
              if ok then print_nums c1 r else (c1, false)
  end.

(* reading an integer variable of a supported width; None = unsupported width;
   a storage shorter than the width would be an out-of-bounds read *)
Definition read_fault (dsz : nat) (data : list N) : bool :=
  supported_width dsz && (length data <? dsz)%nat.

(* cat.c:1471 *)
Definition fmt_int_text (v : var) (data : list N) : option (list N) :=
  if supported_width (v_size v) then
    let val := le_value_signed (v_size v) data in
    let val := match v_access v with WO => 0%Z | _ => val end in
    Some (print_dec_z val)
  else None.

(* cat.c:1503 *)
Definition fmt_uint_text (v : var) (data : list N) : option (list N) :=
  if supported_width (v_size v) then
    let val := le_value (firstn (v_size v) data) in
    let val := match v_access v with WO => 0 | _ => val end in
    Some (print_dec val)
  else None.

(* cat.c:1535 *)
Definition fmt_hex_text (v : var) (data : list N) : option (list N) :=
  if supported_width (v_size v) then
    let val := le_value (firstn (v_size v) data) in
    let val := match v_access v with WO => 0 | _ => val end in
    Some (48 :: 120 :: print_hex_pad (2 * v_size v) val)        (* "0x" *)
  else None.

(* cat.c:1571: one "%02X" per byte *)
Definition fmt_bufhex_pieces (v : var) (data : list N) : list (list N) :=
  map (fun b => print_hex_pad 2 (match v_access v with WO => 0 | _ => b end))
      (firstn (v_size v) data).

(* cat.c:1596: the escaped body, one piece per character, up to the first NUL *)
Fixpoint str_body_pieces (l : list N) : list (list N) :=
  match l with
  | [] => []
  | ch :: r =>
    if ch =? 0 then []
    else (if ch =? ch_BSL then [ch_BSL; ch_BSL]
          else if ch =? ch_QUOTE then [ch_BSL; ch_QUOTE]
          else if ch =? ch_LF then [ch_BSL; ch_n]
          else [ch]) :: str_body_pieces r
  end.

Definition fmt_bufstr_pieces (v : var) (data : list N) : list (list N) :=
  let body := match v_access v with WO => [] | _ => firstn (v_size v) data end in
  [ch_QUOTE] :: str_body_pieces body ++ [[ch_QUOTE]].

(* the formatter dispatch of format_read_args; false = the formatter returned -1 *)
Definition fmt_var (v : var) (data : list N) (c : cur) : cur * bool :=
  match v_type v with
  | VInt => match fmt_int_text v data with
            | None => (c, false)
            | Some t => if read_fault (v_size v) data then (cur_fault c, false) else print_num c t
            end
  | VUint => match fmt_uint_text v data with
             | None => (c, false)
             | Some t => if read_fault (v_size v) data then (cur_fault c, false) else print_num c t
             end
  | VHex => match fmt_hex_text v data with
            | None => (c, false)
            | Some t => if read_fault (v_size v) data then (cur_fault c, false) else print_num c t
            end
  | VBufHex =>
    if (length data <? v_size v)%nat then (cur_fault c, false)
    else print_nums c (fmt_bufhex_pieces v data)
  | VBufStr =>
    if (length data <? v_size v)%nat then (cur_fault c, false)
    else print_pieces c (fmt_bufstr_pieces v data)
  end.

(* ---- format_info_type (cat.c:1643) ---- *)
Definition str (l : list nat) : list N := map N.of_nat l.

Definition access_name (a : vaccess) : list N :=
  match a with
  | RW => [82; 87] | RO => [82; 79] | WO => [87; 79]
  end.

Definition width_digits (sz : nat) : list N :=
  if (sz =? 1)%nat then [56] else if (sz =? 2)%nat then [49; 54] else [51; 50].

Definition type_name (t : vtype) (sz : nat) : option (list N) :=
  match t with
  | VInt => if supported_width sz then Some ([73; 78; 84] ++ width_digits sz) else None
  | VUint => if supported_width sz then Some ([85; 73; 78; 84] ++ width_digits sz) else None
  | VHex => if supported_width sz then Some ([72; 69; 88] ++ width_digits sz) else None
  | VBufHex => Some [72; 69; 88; 66; 85; 70]
  | VBufStr => Some [83; 84; 82; 73; 78; 71]
  end.

Definition info_pieces (v : var) (tn : list N) : list (list N) :=
  [ch_LT] ::
  (match v_name v with Some nm => [nm; [ch_COLON]] | None => [] end) ++
  [tn; [ch_LBR]; access_name (v_access v); [ch_RBR]; [ch_GT]].

Definition fmt_info (v : var) (c : cur) : cur * bool :=
  match type_name (v_type v) (v_size v) with
  | None => (c, false)
  | Some tn => print_pieces c (info_pieces v tn)
  end.
