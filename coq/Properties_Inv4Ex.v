(* Properties_Inv4Ex.v — worked instances for Properties_Inv4.v on the two capstone runs of
   Properties_Inv2Ex.v (descriptor cap_D: "+SET" with one uint8 variable that has read and write
   callbacks, write and read handlers; "+GO"; "+GET"; "+GONE").  The conclusions are obtained by
   APPLYING the lifted theorems; the hypotheses are discharged by computation.

   Run 2 (mutex, scenario sops2 with SFeed and SPoke) — Example cap4_scenario: the `_scenario`
   forms of C13p (observers without default), C01r (result-code sessions = lines answered; the
   command machine's output is the concatenation of its units), C11s (per producer), C02c
   (every callback was made for the command selected in CS_COMMAND_FOUND: split over the
   scenario operations), C09c (... a registered, enabled command), C01s (no read ahead).
   Run 1 (no mutex, history of API calls ops1) — Examples cap4_line (C02i: the two callbacks of the
   line AT+SET=5, variable write callback then write handler, concern ONE command, ONE line; the
   kind of the handler callback is the request type of its line; in CS_WRITE_LOOP the request type is
   WRITE), cap4_busy (C13p while the event machine is busy) and cap4_read (C06r: the READ response
   of AT+SET? from its CS_COMMAND_FOUND world: the variable's read callback, then the read handler
   called on the text +SET=5).

   As in Properties_Inv2Ex.v the worlds are Local Notations, not Definitions: every conjunct is,
   syntactically, an instance of the theorem applied. *)
From Coq Require Import List NArith ZArith Bool Arith Lia.
From CatV Require Import Bytes Defs Codec Spec Fsm Script Skel SkelInv SkelSim EvSkelSim TraceDefs ResolveDefs SchedDefs TermDefs.
From CatV Require Import Lemmas_Ctl Lemmas_C03 Lemmas_C11 Lemmas_C11s Lemmas_C01s Lemmas_Inv Lemmas_Inv2 Lemmas_Inv4.
From CatV Require Lemmas_C09 Lemmas_Calls Lemmas_C02h Lemmas_C02i Lemmas_C13p Lemmas_C01r Lemmas_C06r Lemmas_C10
                  Properties_C02c Properties_C09c Properties_Inv4.
From CatV Require Import Properties_Inv2Ex.
Import ListNotations.
Local Open Scope nat_scope.

Local Notation st := (Fsm.st sio smu shs).
Local Notation io := (Fsm.io sio smu shs).
Local Notation mu := (Fsm.mu sio smu shs).
Local Notation hs := (Fsm.hs sio smu shs).
Local Notation tr := (Fsm.tr sio smu shs).
Local Notation hist := (TraceDefs.hist sio smu shs).
Local Notation in_progress_opt := (Lemmas_C13p.in_progress_opt sio smu shs).

(* ================================================================== *)
(* Run 2: the scenario with SFeed and SPoke                             *)
(* ================================================================== *)
Local Notation w02 := (sinit D2 cap_m x2 mx2 h2).
Local Notation w2 := (srun D2 w02 sops2).
Local Notation ss2 := (sc_sstarts D2 w02 sops2).

Lemma cap4_reading : reading_state (k_state (k (st w2))) = true.
Proof. vm_compute. reflexivity. Qed.
(* no operation of the scenario changes an enable flag *)
Lemma cap4_sflags : sc_sflags_between_lines D2 w02 sops2.
Proof. apply Properties_Inv4.no_flag_sops_between. vm_compute. reflexivity. Qed.

(* what happened (computed): the five sessions, their units and continuations; three of them are
   result-code sessions (continuation CS_AFTER_RESET), three non-blank lines were consumed *)
Example cap4_observed :
  map (fun x => (unit_of x, k_wafter (k (snd x)))) ss2 =
    [((UNSOL, [10; 43; 83; 69; 84; 61; 55]), CS_IDLE);
     ((ATCMD, [13; 10; 79; 75; 13; 10]), CS_AFTER_RESET);
     ((ATCMD, [10; 43; 83; 69; 84; 61; 51; 10]), CS_AFTER_OK);
     ((ATCMD, [10; 79; 75; 10]), CS_AFTER_RESET);
     ((ATCMD, [10; 79; 75; 10]), CS_AFTER_RESET)]%N /\
  length (Lemmas_C01r.rc_sessions ss2) = 3 /\
  nonblank_lines false (consumed (tr w2)) = 3 /\
  proj UNSOL (accepted_wr (hist w2)) = [10; 43; 83; 69; 84; 61; 55; 10]%N.
Proof. vm_compute. repeat split; reflexivity. Qed.

Example cap4_scenario :
  (* C13p: the observers, by cases on idle / not idle, no default element *)
  ((u_state (u (st w2)) <> US_IDLE ->
      exists p it, popped (hist w2) = p ++ [it] /\ in_progress_opt w2 = Some it /\
        u_cmd (u (st w2)) = Some (fst it) /\ u_type (u (st w2)) = snd it /\
        (forall ci t, is_event_buffered D2 (st w2) ci t = ST_BUSY <->
           ev_match ci t it = true \/
           exists it', In it' (ring_items D2 (st w2)) /\ ev_match ci t it' = true) /\
        get_processed (st w2) UNSOL = Z.of_nat (fst it)) /\
   (u_state (u (st w2)) = US_IDLE ->
      in_progress_opt w2 = None /\ u_cmd (u (st w2)) = None /\
      (forall ci t, is_event_buffered D2 (st w2) ci t = ST_BUSY <->
         exists it', In it' (ring_items D2 (st w2)) /\ ev_match ci t it' = true) /\
      get_processed (st w2) UNSOL = (-1)%Z)) /\
  (* C01r: the command machine's output is the concatenation of the units of its sessions; the
     result-code sessions each emit nl OK/ERROR nl and are as many as the lines consumed *)
  (proj ATCMD (accepted_wr (hist w2)) =
     concat (map (fun x => snd (unit_of x)) (Lemmas_C01r.cmd_sessions ss2)) /\
   Lemmas_C01r.rc_sessions ss2 =
     filter (fun x => cstate_beq (k_wafter (k (snd x))) CS_AFTER_RESET) (Lemmas_C01r.cmd_sessions ss2) /\
   Forall Lemmas_C01r.rc_unit (Lemmas_C01r.rc_sessions ss2) /\
   length (Lemmas_C01r.rc_sessions ss2) = nonblank_lines false (consumed (tr w2)) /\
   gR (st w2) = length (Lemmas_C01r.rc_sessions ss2) /\ gS (st w2) = gR (st w2)) /\
  (* C11s: each producer's bytes are its own units *)
  (proj ATCMD (accepted_wr (hist w2)) = concat (map snd (units_of ATCMD (sc_sstarted D2 w02 sops2))) /\
   exists ucrs, length ucrs = length (units_of UNSOL (sc_sstarted D2 w02 sops2)) /\
     proj UNSOL (accepted_wr (hist w2)) =
       concat (map (fun p => snd (fst p) ++ nl_text (snd p))
                   (combine (units_of UNSOL (sc_sstarted D2 w02 sops2)) ucrs))) /\
  (* C02c: every command-side callback concerns the command selected on its line; the split is made
     over the scenario operations *)
  (forall q code, In (ECall q code) (tr w2) -> Properties_C02c.ev_side q = false ->
     exists sops0 sopsm sopsr, sops2 = sops0 ++ sopsm ++ SOp OService :: sopsr /\
       k_state (k (st (srun D2 w02 sops0))) = CS_COMMAND_FOUND /\
       k_cmd (k (st (srun D2 w02 sops0))) = Some (req_cmd q) /\
       (forall n, n <= length sopsm ->
          Properties_C02c.needs_cmd (st (srun D2 w02 (sops0 ++ firstn n sopsm))) = true) /\
       let s := st (srun D2 w02 (sops0 ++ sopsm)) in
       k_cmd (k s) = Some (req_cmd q) /\ k_state (k s) = Properties_C02c.call_state q /\
       k_type (k s) = Properties_C02c.kind_type q) /\
  (* C09c: ... and that command was registered and enabled *)
  (forall q code, In (ECall q code) (tr w2) -> Properties_C09c.ev_side q = false ->
     exists sopsa sopsb evs, sops2 = sopsa ++ SOp OService :: sopsb /\
       tr (srun D2 w02 (sopsa ++ [SOp OService])) = evs ++ tr (srun D2 w02 sopsa) /\ In (ECall q code) evs /\
       let s := st (srun D2 w02 sopsa) in
       k_cmd (k s) = Some (req_cmd q) /\ k_state (k s) = Properties_C09c.call_state q /\
       req_cmd q < ncmds D2 /\ is_command_disable D2 s (req_cmd q) = false) /\
  (* C01s: whatever operation follows, if it reads an input byte then it is cat_service in a reading
     state and every line consumed so far has been answered *)
  (forall o evs r, tr (sstep D2 w2 (SOp o)) = evs ++ tr w2 -> In (ERd r) evs ->
     o = OService /\ reading_state (k_state (k (st w2))) = true /\
     gR (st w2) = nonblank_lines false (consumed (tr w2)) /\ gS (st w2) = gR (st w2) /\ gL (st w2) = gR (st w2)).
Proof.
  pose proof cap2_wf as WF. pose proof cap2_valid as F.
  pose proof cap2_no_rt_hold as A. pose proof cap2_calls_valid as B.
  pose proof (valid_no_reinit D2 sops2 F) as NR.
  destruct cap2_not_flushing as [NK NU].
  split; [exact (Properties_Inv4.C13_observers_exact_opt_scenario D2 cap_m x2 mx2 h2 sops2 (proj1 WF) F B)|].
  split; [exact (Properties_Inv4.C01_lines_answered_in_stream_scenario D2 cap_m x2 mx2 h2 sops2 WF F A B cap4_reading)|].
  split; [exact (Properties_Inv4.C11_stream_per_producer_scenario D2 cap_m x2 mx2 h2 sops2 A NR NK NU)|].
  split; [intros q code; exact (Properties_Inv4.C02_calls_selected_scenario D2 cap_m x2 mx2 h2 sops2 q code WF F A B)|].
  split; [intros q code;
          exact (Properties_Inv4.C09_calls_enabled_history_scenario D2 cap_m x2 mx2 h2 sops2 q code
                   (proj1 (proj2 WF)) NR cap4_sflags)|].
  intros o evs r. exact (Properties_Inv4.C01_no_read_ahead_scenario D2 cap_m x2 mx2 h2 sops2 o evs r WF F A B).
Qed.

(* at an earlier point of the scenario (138 operations: the result code of the line AT+SET? is in
   flight, gS = number of result-code sessions = gR + 1), the counting theorems in their general form *)
Local Notation w2m := (srun D2 w02 (firstn 138 sops2)).
Local Notation ss2m := (sc_sstarts D2 w02 (firstn 138 sops2)).
Lemma cap4_valid_m : Forall (valid_sop D2) (firstn 138 sops2).
Proof. exact (Forall_firstn _ _ 138 _ cap2_valid). Qed.
Example cap4_midway_observed :
  k_state (k (st w2m)) = CS_FLUSH /\ k_wafter (k (st w2m)) = CS_AFTER_RESET /\
  length (Lemmas_C01r.rc_sessions ss2m) = 2 /\ length ss2m = 4 /\
  (gL (st w2m), gS (st w2m), gR (st w2m)) = (2, 2, 1).
Proof. vm_compute. repeat split; reflexivity. Qed.
Example cap4_midway :
  let n := length (Lemmas_C01r.rc_sessions ss2m) in
  let lines := nonblank_lines false (consumed (tr w2m)) in
  (Forall Lemmas_C01r.rc_unit (Lemmas_C01r.rc_sessions ss2m) /\
   (Lemmas_C01r.rc_pending (st w2m) -> gS (st w2m) = S n /\ gR (st w2m) = n) /\
   (Lemmas_C01r.rc_in_flight (st w2m) -> gS (st w2m) = n /\ S (gR (st w2m)) = n) /\
   (~ Lemmas_C01r.rc_pending (st w2m) -> ~ Lemmas_C01r.rc_in_flight (st w2m) -> gS (st w2m) = n /\ gR (st w2m) = n)) /\
  (n <= lines <= S n /\
   (Lemmas_C01r.rc_in_flight (st w2m) -> lines = n) /\ (Lemmas_C01r.rc_pending (st w2m) -> lines = S n) /\
   (reading_state (k_state (k (st w2m))) = true -> lines = n /\ gR (st w2m) = n /\ gS (st w2m) = n)).
Proof.
  cbv zeta. split.
  - exact (Properties_Inv4.C01_result_codes_are_units_scenario D2 cap_m x2 mx2 h2 (firstn 138 sops2)
             cap2_wf cap4_valid_m cap2_no_rt_hold cap2_calls_valid).
  - exact (Properties_Inv4.C01_rc_tracks_lines_scenario D2 cap_m x2 mx2 h2 (firstn 138 sops2)
             cap2_wf cap4_valid_m cap2_no_rt_hold cap2_calls_valid).
Qed.

(* ================================================================== *)
(* Run 1: the history of API calls                                      *)
(* ================================================================== *)
Local Notation w01 := (sinit D1 cap_m x1 mx1 h1).
Local Notation W1 l := (srun D1 w01 (map SOp l)).
Local Notation line w := (Lemmas_C02h.cur_line (consumed (tr w))).

(* the events one more operation adds to the trace *)
Definition new_evs (w : sworld) (o : op) : list event :=
  firstn (length (tr (sstep D1 w (SOp o))) - length (tr w)) (tr (sstep D1 w (SOp o))).

(* the line AT+SET=5: CS_COMMAND_FOUND after 28 operations; operation 32 (cat_service in
   CS_PARSE_WRITE_ARGS) logs the write callback of the variable, operation 33 (CS_WRITE_LOOP) the
   write handler *)
Local Notation opsA := (firstn 32 ops1).
Local Notation opsB := (firstn 32 ops1 ++ OService :: []).
Definition qV : hreq := VWrite 0 0 1 [5%N].
Definition qH : hreq := HWrite 0 [53; 0]%N 1 1.

Example cap4_line_observed :
  k_state (k (st (W1 (firstn 28 ops1)))) = CS_COMMAND_FOUND /\
  line (W1 (firstn 28 ops1)) = [65; 84; 43; 83; 69; 84; 61]%N /\
  k_state (k (st (W1 opsA))) = CS_PARSE_WRITE_ARGS /\ k_state (k (st (W1 opsB))) = CS_WRITE_LOOP /\
  new_evs (W1 opsA) OService = [ERet OService ST_BUSY; ECall qV 0%Z] /\
  new_evs (W1 opsB) OService = [ERet OService ST_BUSY; ECall qH RC_OK].
Proof. vm_compute. repeat split; reflexivity. Qed.

Lemma cap4_validB : Forall (valid_op D1) (opsB ++ [OService]).
Proof. apply valid_ops_sound. vm_compute. reflexivity. Qed.
Lemma cap4_validB0 : Forall (valid_op D1) opsB.
Proof. apply valid_ops_sound. vm_compute. reflexivity. Qed.
Lemma cap4_flagsB : sc_flags_between_lines D1 w01 opsB.
Proof.
  apply flags_between_cons; [intros _; reflexivity|].
  apply no_flag_ops_between. vm_compute. reflexivity.
Qed.
Lemma cap4_newA : tr (sstep D1 (W1 opsA) (SOp OService)) = new_evs (W1 opsA) OService ++ tr (W1 opsA).
Proof. vm_compute. reflexivity. Qed.
Lemma cap4_newB : tr (sstep D1 (W1 opsB) (SOp OService)) = new_evs (W1 opsB) OService ++ tr (W1 opsB).
Proof. vm_compute. reflexivity. Qed.
Lemma cap4_inA : In (ECall qV 0%Z) (new_evs (W1 opsA) OService).
Proof. vm_compute. auto. Qed.
Lemma cap4_inB : In (ECall qH RC_OK) (new_evs (W1 opsB) OService).
Proof. vm_compute. auto. Qed.
Lemma cap4_needed : forall j, j <= length (OService :: @nil op) ->
  Lemmas_C09.needs_cmd (st (W1 (opsA ++ firstn j (OService :: [])))) = true.
Proof.
  intros j Hj. destruct j as [|[|j]]; [vm_compute; reflexivity | vm_compute; reflexivity |].
  exfalso. clear - Hj. cbn [length] in Hj. lia.
Qed.
Lemma cap4_write_state : Lemmas_C02i.write_state (st (W1 opsB)).
Proof. right. right. vm_compute. reflexivity. Qed.

Example cap4_line :
  (* C02_calls_one_line: the two callbacks concern ONE command, selected at ONE CS_COMMAND_FOUND
     state, and both lines in progress extend that state's line *)
  (req_cmd qH = req_cmd qV /\
   exists c ops0 opsm, opsA = ops0 ++ opsm /\
     let wf := W1 ops0 in
     k_state (k (st wf)) = CS_COMMAND_FOUND /\
     resolve (Lemmas_C02h.typed_of (line wf)) (enabled D1 (st wf)) (cmds D1) = Some (req_cmd qV) /\
     nth_error (cmds D1) (req_cmd qV) = Some c /\
     (exists more1, consumed (tr (W1 opsA)) = consumed (tr wf) ++ more1 /\
                    line (W1 opsA) = line wf ++ more1 /\
                    Lemmas_Calls.kind_type qV =
                      Lemmas_C02i.req_type (Lemmas_C02i.serves_test c) (Lemmas_C02h.type_of (line wf)) more1) /\
     (exists more2, consumed (tr (W1 opsB)) = consumed (tr wf) ++ more2 /\
                    line (W1 opsB) = line wf ++ more2 /\
                    Lemmas_Calls.kind_type qH =
                      Lemmas_C02i.req_type (Lemmas_C02i.serves_test c) (Lemmas_C02h.type_of (line wf)) more2)) /\
  (* C02_handler_kind': the kind of the handler callback is the request type of its line *)
  (exists c ops0 opsm more, opsB = ops0 ++ opsm /\
     let wf := W1 ops0 in let w := W1 opsB in
     k_state (k (st wf)) = CS_COMMAND_FOUND /\
     resolve (Lemmas_C02h.typed_of (line wf)) (enabled D1 (st wf)) (cmds D1) = Some (req_cmd qH) /\
     nth_error (cmds D1) (req_cmd qH) = Some c /\
     consumed (tr w) = consumed (tr wf) ++ more /\ line w = line wf ++ more /\
     Lemmas_Calls.kind_type qH =
       Lemmas_C02i.req_type (Lemmas_C02i.serves_test c) (Lemmas_C02h.type_of (line wf)) more /\
     (Lemmas_C02i.by_suffix (Lemmas_C02i.xscan (line wf)) = true ->
        Lemmas_Calls.kind_type qH = Lemmas_C02i.type_of' c (line w))) /\
  (* C02_types_by_state: in CS_WRITE_LOOP *)
  (exists ci c ops0 opsm more, opsB = ops0 ++ opsm /\
     let wf := W1 ops0 in
     k_state (k (st wf)) = CS_COMMAND_FOUND /\
     resolve (Lemmas_C02h.typed_of (line wf)) (enabled D1 (st wf)) (cmds D1) = Some ci /\
     nth_error (cmds D1) ci = Some c /\ k_cmd (k (st (W1 opsB))) = Some ci /\
     consumed (tr (W1 opsB)) = consumed (tr wf) ++ more /\ line (W1 opsB) = line wf ++ more /\
     Lemmas_C02h.type_of (line wf) = T_WRITE /\
     (Lemmas_C02i.test_state (st (W1 opsB)) ->
        k_type (k (st (W1 opsB))) = T_TEST /\ Lemmas_C02i.serves_test c = true /\
        Lemmas_C02i.is_qm (Lemmas_C02i.first_arg more) = true /\
        (Lemmas_C02i.by_suffix (Lemmas_C02i.xscan (line wf)) = true ->
           Lemmas_C02i.test_shape (Lemmas_C02i.xscan (line (W1 opsB))) = true)) /\
     (Lemmas_C02i.write_state (st (W1 opsB)) ->
        k_type (k (st (W1 opsB))) = T_WRITE /\
        (Lemmas_C02i.serves_test c = true -> Lemmas_C02i.is_qm (Lemmas_C02i.first_arg more) = false) /\
        (Lemmas_C02i.by_suffix (Lemmas_C02i.xscan (line wf)) = true -> Lemmas_C02i.serves_test c = true ->
           Lemmas_C02i.test_shape (Lemmas_C02i.xscan (line (W1 opsB))) = false))).
Proof.
  pose proof cap1_wf as WF. pose proof cap1_no_rt_hold as A. pose proof cap1_calls_valid as B.
  split; [exact (Properties_Inv4.C02_calls_one_line_scripted D1 cap_m x1 mx1 h1 opsA OService [] OService
                   _ _ qV qH 0%Z RC_OK WF cap4_validB A B cap4_flagsB
                   cap4_newA cap4_inA eq_refl cap4_newB cap4_inB eq_refl cap4_needed)|].
  split; [exact (Properties_Inv4.C02_handler_kind'_scripted D1 cap_m x1 mx1 h1 opsB OService _ qH RC_OK
                   WF cap4_validB A B cap4_flagsB cap4_newB cap4_inB eq_refl)|].
  exact (Properties_Inv4.C02_types_by_state_scripted D1 cap_m x1 mx1 h1 opsB WF cap4_validB0 A B cap4_flagsB
           (or_intror cap4_write_state)).
Qed.

(* C13p while the event machine is busy: after 4 operations the read event (0, READ) triggered by the
   application is in progress (its variable callback has been made), nothing is queued *)
Local Notation wE := (W1 (firstn 4 ops1)).
Lemma cap4_busy_state : u_state (u (st wE)) <> US_IDLE.
Proof. vm_compute. discriminate. Qed.
Example cap4_busy_observed :
  u_state (u (st wE)) = US_READ_LOOP /\ in_progress_opt wE = Some (0, T_READ) /\
  popped (hist wE) = [(0, T_READ)] /\ ring_items D1 (st wE) = [].
Proof. vm_compute. repeat split; reflexivity. Qed.
Example cap4_busy :
  exists p it, popped (hist wE) = p ++ [it] /\ in_progress_opt wE = Some it /\
    u_cmd (u (st wE)) = Some (fst it) /\ u_type (u (st wE)) = snd it /\
    (forall ci t, is_event_buffered D1 (st wE) ci t = ST_BUSY <->
       ev_match ci t it = true \/
       exists it', In it' (ring_items D1 (st wE)) /\ ev_match ci t it' = true) /\
    get_processed (st wE) UNSOL = Z.of_nat (fst it).
Proof.
  exact (proj1 (Properties_Inv4.C13_observers_exact_opt_scripted D1 cap_m x1 mx1 h1 (firstn 4 ops1)
                  (proj1 cap1_wf) (Forall_firstn _ _ 4 _ cap1_valid) cap1_calls_valid) cap4_busy_state).
Qed.

(* C06r: the READ response of the line AT+SET?.  wF: the CS_COMMAND_FOUND world of that line (175
   operations).  The read callback of the variable is made first (answer 0, no store), then the read
   handler is called on the text +SET=5 NUL (6 characters, buffer of 16) *)
Local Notation wF := (W1 (firstn 175 ops1)).
Local Notation wR := (Lemmas_C06r.gread_response D1 sio smu shs s_lock s_unlock s_call ATCMD c_set wF).
Lemma cap4_F_scripts : vread_no_calls 0 c_set (hs wF) = true.
Proof. vm_compute. reflexivity. Qed.
Lemma cap4_F_cmd : g_cmd ATCMD (st wF) = Some 0 /\ cmd_at D1 0 = Some c_set /\ fault (st wF) = false.
Proof. vm_compute. repeat split; reflexivity. Qed.
Lemma cap4_F_vars : Forall (Lemmas_C06r.rd_var_ok (mem (st wF))) (c_vars c_set).
Proof.
  assert (E : mem (st wF) = [[5%N]]) by (vm_compute; reflexivity). rewrite E.
  repeat constructor; eexists; (split; [reflexivity|]); (split; [cbn; auto 10|]); intros; discriminate.
Qed.
Lemma cap4_F_spec :
  Lemmas_C06r.rd_spec shs s_call ATCMD 0 (c_vars c_set) 0 (hs wF) (mem (st wF)) =
    (hs wF, [[5%N]], [(VRead ATCMD 0 0, 0%Z)], Some [[53%N]]).
Proof. vm_compute. reflexivity. Qed.
Lemma cap4_F_len :
  length (c_name c_set ++ [ch_EQ] ++ join_comma [[53%N]]) < length (g_buf ATCMD (st wF)).
Proof. apply Nat.ltb_lt. vm_compute. reflexivity. Qed.

(* the theorem instantiated with the descriptor, for an abstract world (applied to wF below) *)
Lemma cap4_read_applies : forall (w : sworld) h' m' cl txts,
  vread_no_calls 0 c_set (hs w) = true ->
  g_cmd ATCMD (st w) = Some 0 /\ cmd_at D1 0 = Some c_set /\ fault (st w) = false ->
  Forall (Lemmas_C06r.rd_var_ok (mem (st w))) (c_vars c_set) ->
  Lemmas_C06r.rd_spec shs s_call ATCMD 0 (c_vars c_set) 0 (hs w) (mem (st w)) = (h', m', cl, Some txts) ->
  length (c_name c_set ++ [ch_EQ] ++ join_comma txts) < length (g_buf ATCMD (st w)) ->
  let txt := c_name c_set ++ [ch_EQ] ++ join_comma txts in
  let w' := Lemmas_C06r.gread_response D1 sio smu shs s_lock s_unlock s_call ATCMD c_set w in
  hs w' = h' /\ mem (st w') = m' /\ tr w' = rev (map Lemmas_C06r.ecall cl) ++ tr w /\
  Lemmas_C10.in_rt_loop true ATCMD (st w') /\
  exists code rest,
    tr (fst (Fsm.process_rt_loop D1 sio smu shs s_lock s_unlock s_call true ATCMD w')) =
      rest ++ ECall (HRead ATCMD 0 (txt ++ [0%N]) (length txt) (length (g_buf ATCMD (st w)))) code :: tr w' /\
    Lemmas_C06r.nocall rest = true.
Proof.
  intros w h' m' cl txts Hs (G & C & Ft) RV RS Hl.
  destruct (Properties_Inv4.C06_read_handler_text_cb_scripted D1 ATCMD w 0 c_set h' m' cl txts
              Hs G C Ft eq_refl eq_refl RV RS Hl)
    as (H1 & H2 & H3 & _ & _ & _ & _ & _ & _ & H4 & _ & _ & _ & _ & H5).
  cbv zeta. split; [exact H1|]. split; [exact H2|]. split; [exact H3|]. split; [exact H4 | exact H5].
Qed.

Example cap4_read :
  hs wR = hs wF /\ mem (st wR) = [[5%N]] /\
  tr wR = rev (map Lemmas_C06r.ecall [(VRead ATCMD 0 0, 0%Z)]) ++ tr wF /\
  Lemmas_C10.in_rt_loop true ATCMD (st wR) /\
  exists code rest,
    tr (fst (Fsm.process_rt_loop D1 sio smu shs s_lock s_unlock s_call true ATCMD wR)) =
      rest ++ ECall (HRead ATCMD 0 ((c_name c_set ++ [ch_EQ] ++ join_comma [[53%N]]) ++ [0%N])
                           (length (c_name c_set ++ [ch_EQ] ++ join_comma [[53%N]]))
                           (length (g_buf ATCMD (st wF)))) code :: tr wR /\
    Lemmas_C06r.nocall rest = true.
Proof. exact (cap4_read_applies wF _ _ _ _ cap4_F_scripts cap4_F_cmd cap4_F_vars cap4_F_spec cap4_F_len). Qed.

(* and the model agrees: the world of the theorem is the world of the run two operations later *)
Example cap4_read_is_the_run :
  st wR = st (W1 (firstn 177 ops1)) /\
  c_name c_set ++ [ch_EQ] ++ join_comma [[53%N]] = [43; 83; 69; 84; 61; 53]%N /\
  length (g_buf ATCMD (st wF)) = 16.
Proof. vm_compute. repeat split; reflexivity. Qed.

Print Assumptions cap4_scenario.
Print Assumptions cap4_midway.
Print Assumptions cap4_line.
Print Assumptions cap4_busy.
Print Assumptions cap4_read.
