(* Lemmas_C19.v — property C19: the automatic TEST response and the command list are
   faithful to the descriptor. *)
From Coq Require Import List NArith ZArith Bool Arith Lia.
From CatV Require Import Bytes Defs Codec Spec Fsm ResolveDefs TextDefs.
Import ListNotations.
Local Open Scope nat_scope.

(* ================= 1. advertised = served ================= *)

Lemma C19_consistent_proof : forall c f,
  c_implicit c = false -> advertised c f = dispatch_accepts c f.
Proof.
  intros c f H. destruct f; unfold advertised, dispatch_accepts; try reflexivity.
  rewrite H. cbn [negb]. rewrite andb_true_r. reflexivity.
Qed.

Lemma C19_consistent_implicit_proof : forall c f,
  f <> F_TEST -> advertised c f = dispatch_accepts c f.
Proof.
  intros c f H. destruct f; try reflexivity. contradiction.
Qed.

(* ================= 2. list and cursor lemmas ================= *)

Lemma upd_app_mid : forall (A : Type) (l1 : list A) x l2 v,
  upd (l1 ++ x :: l2) (length l1) v = l1 ++ v :: l2.
Proof.
  induction l1 as [|a l1 IH]; intros; cbn [app length upd]; [reflexivity|].
  f_equal. apply IH.
Qed.

Lemma upd_length : forall (A : Type) (l : list A) i v, length (upd l i v) = length l.
Proof.
  induction l as [|a l IH]; intros [|i] v; cbn [upd length]; try reflexivity.
  f_equal. apply IH.
Qed.

Lemma split_at : forall (A : Type) (l : list A) n, n < length l ->
  exists a y b, l = a ++ y :: b /\ length a = n.
Proof.
  intros A l n H.
  destruct (skipn n l) as [|y b] eqn:E.
  - assert (length (skipn n l) = 0) by (rewrite E; reflexivity).
    rewrite skipn_length in H0. lia.
  - exists (firstn n l), y, b. split.
    + rewrite <- E. symmetry. apply firstn_skipn.
    + rewrite firstn_length. lia.
Qed.

(* the NUL-terminated text *)
Lemma text_of_app0 : forall t r, ~ In 0%N t -> text_of (t ++ 0%N :: r) = t.
Proof.
  induction t as [|x t IH]; intros r H.
  - reflexivity.
  - cbn [app text_of]. destruct (N.eqb_spec x 0) as [E|E].
    + exfalso. apply H. left. exact E.
    + f_equal. apply IH. intro H1. apply H. right. exact H1.
Qed.

Lemma text_of_strncpy : forall n t, ~ In 0%N t -> length t < n ->
  text_of (strncpy_buf n t) = t.
Proof.
  intros n t H Hn. unfold strncpy_buf.
  rewrite firstn_app.
  rewrite firstn_all2 by lia.
  replace (n - length t) with (S (n - length t - 1)) by lia.
  replace (repeat 0%N n) with (repeat 0%N (S (n - 1))) by (f_equal; lia).
  cbn [repeat firstn]. apply text_of_app0. exact H.
Qed.

Lemma strncpy_length : forall n t, length (strncpy_buf n t) = n.
Proof.
  intros. unfold strncpy_buf. rewrite firstn_length, app_length, repeat_length. lia.
Qed.

Lemma csl_ok : forall str t a b p fl, length a = length str ->
  cur_store_list (mkCur (t ++ a ++ b) p fl) (length t) str = mkCur (t ++ str ++ b) p fl.
Proof.
  induction str as [|x str IH]; intros t a b p fl H.
  - destruct a; [reflexivity|discriminate].
  - destruct a as [|y a]; [discriminate|]. cbn [length] in H.
    cbn [cur_store_list]. unfold cur_store. cbn [cu_buf cu_pos cu_fault].
    replace (length t <? length (t ++ (y :: a) ++ b)) with true.
    2:{ symmetry. apply Nat.ltb_lt. rewrite app_length. cbn [app length]. lia. }
    cbn [app]. rewrite upd_app_mid.
    replace (t ++ x :: a ++ b) with ((t ++ [x]) ++ a ++ b) by (rewrite <- app_assoc; reflexivity).
    replace (S (length t)) with (length (t ++ [x])) by (rewrite app_length; cbn [length]; lia).
    rewrite IH by lia. rewrite <- app_assoc. reflexivity.
Qed.

Lemma pn_ok : forall t rest fl str, length str < length rest ->
  exists rest',
    print_nstring (mkCur (t ++ rest) (length t) fl) str
    = (mkCur ((t ++ str) ++ 0%N :: rest') (length (t ++ str)) fl, true)
    /\ length str + S (length rest') = length rest.
Proof.
  intros t rest fl str H.
  destruct (split_at _ rest (length str) H) as [a [y [b [E Ha]]]].
  exists b. split.
  - unfold print_nstring. cbn [cu_buf cu_pos].
    replace (length (t ++ rest) <? length t) with false.
    2:{ symmetry. apply Nat.ltb_ge. rewrite app_length. lia. }
    replace (length (t ++ rest) - length t <=? length str) with false.
    2:{ symmetry. apply Nat.leb_gt. rewrite app_length. lia. }
    subst rest. rewrite (csl_ok str t a (y :: b)) by exact Ha.
    unfold cur_set_pos, cur_store. cbn [cu_buf cu_pos cu_fault].
    replace (length t + length str <? length (t ++ str ++ y :: b)) with true.
    2:{ symmetry. apply Nat.ltb_lt. rewrite !app_length. cbn [length]. lia. }
    rewrite (app_assoc t str (y :: b)).
    replace (length t + length str) with (length (t ++ str)) by apply app_length.
    rewrite upd_app_mid. reflexivity.
  - subst rest. rewrite app_length. cbn [length]. lia.
Qed.

Lemma pn_fail : forall t rest fl str, length rest <= length str ->
  print_nstring (mkCur (t ++ rest) (length t) fl) str = (mkCur (t ++ rest) (length t) fl, false).
Proof.
  intros t rest fl str H. unfold print_nstring. cbn [cu_buf cu_pos].
  replace (length (t ++ rest) <? length t) with false.
  2:{ symmetry. apply Nat.ltb_ge. rewrite app_length. lia. }
  replace (length (t ++ rest) - length t <=? length str) with true.
  2:{ symmetry. apply Nat.leb_le. rewrite app_length. lia. }
  reflexivity.
Qed.

Lemma print_pieces_cons : forall c p r,
  print_pieces c (p :: r)
  = let (c1, ok) := print_nstring c p in if ok then print_pieces c1 r else (c1, false).
Proof. reflexivity. Qed.

(* a non-empty sequence of prints = one print of the concatenation *)
Lemma pp_ok : forall ps p t rest fl, length (concat (p :: ps)) < length rest ->
  exists rest',
    print_pieces (mkCur (t ++ rest) (length t) fl) (p :: ps)
    = (mkCur ((t ++ concat (p :: ps)) ++ 0%N :: rest') (length (t ++ concat (p :: ps))) fl, true)
    /\ length (concat (p :: ps)) + S (length rest') = length rest.
Proof.
  induction ps as [|q ps IH]; intros p t rest fl H.
  - cbn [concat] in *. rewrite app_nil_r in *.
    destruct (pn_ok t rest fl p H) as [r' [E L]].
    exists r'. rewrite print_pieces_cons, E. split; [reflexivity|exact L].
  - cbn [concat] in H. rewrite app_length in H.
    destruct (pn_ok t rest fl p) as [r' [E L]]; [lia|].
    rewrite print_pieces_cons, E.
    destruct (IH q (t ++ p) (0%N :: r') fl) as [r'' [E2 L2]].
    { cbn [length]. cbn [concat]. lia. }
    exists r''. rewrite E2. split.
    + cbn [concat]. rewrite <- !app_assoc. reflexivity.
    + cbn [concat length] in *. rewrite app_length. lia.
Qed.

Lemma pp_fail : forall ps p t rest fl, length rest <= length (concat (p :: ps)) ->
  exists b pos,
    print_pieces (mkCur (t ++ rest) (length t) fl) (p :: ps) = (mkCur b pos fl, false)
    /\ length b = length (t ++ rest).
Proof.
  induction ps as [|q ps IH]; intros p t rest fl H.
  - cbn [concat] in H. rewrite app_nil_r in H.
    rewrite print_pieces_cons, pn_fail by exact H.
    exists (t ++ rest), (length t). split; reflexivity.
  - rewrite print_pieces_cons.
    destruct (Nat.lt_ge_cases (length p) (length rest)) as [Hlt|Hge].
    + destruct (pn_ok t rest fl p Hlt) as [r' [E L]]. rewrite E.
      destruct (IH q (t ++ p) (0%N :: r') fl) as [b [pos [E2 L2]]].
      { cbn [concat length] in *. rewrite app_length in H. lia. }
      rewrite E2. exists b, pos. split; [reflexivity|].
      rewrite L2. rewrite !app_length. cbn [length]. lia.
    + rewrite pn_fail by exact Hge.
      exists (t ++ rest), (length t). split; reflexivity.
Qed.

(* ================= 3. printing at the level of the object state ================= *)

Lemma print_string_as_strings : forall f s str,
  print_string f s str = print_strings f s [str].
Proof.
  intros. unfold print_string, print_strings. rewrite print_pieces_cons.
  destruct (print_nstring (get_cur f s) str) as [c1 [|]]; reflexivity.
Qed.

Lemma ps_ok : forall f s t rest p ps,
  g_buf f s = t ++ rest -> g_pos f s = length t -> length (concat (p :: ps)) < length rest ->
  exists rest',
    print_strings f s (p :: ps)
    = (setg_pos f (length (t ++ concat (p :: ps)))
         (setg_buf f ((t ++ concat (p :: ps)) ++ 0%N :: rest') s), true)
    /\ length (concat (p :: ps)) + S (length rest') = length rest.
Proof.
  intros f s t rest p ps Hb Hp Hl. unfold print_strings, get_cur. rewrite Hb, Hp.
  destruct (pp_ok ps p t rest false Hl) as [r' [E L]]. rewrite E.
  exists r'. split; [reflexivity|exact L].
Qed.

Lemma ps_fail : forall f s t rest p ps,
  g_buf f s = t ++ rest -> g_pos f s = length t -> length rest <= length (concat (p :: ps)) ->
  exists b pos,
    print_strings f s (p :: ps) = (setg_pos f pos (setg_buf f b s), false)
    /\ length b = length (g_buf f s).
Proof.
  intros f s t rest p ps Hb Hp Hl. unfold print_strings, get_cur. rewrite Hb, Hp.
  destruct (pp_fail ps p t rest false Hl) as [b [pos [E L]]]. rewrite E.
  exists b, pos. split; [reflexivity|exact L].
Qed.

Lemma not_in_ERROR : ~ In 0%N txt_ERROR.
Proof. unfold txt_ERROR. cbn [In]. intros H. repeat (destruct H as [H|H]; [discriminate H|]). exact H. Qed.

Lemma not_in_OK : ~ In 0%N txt_OK.
Proof. unfold txt_OK. cbn [In]. intros H. repeat (destruct H as [H|H]; [discriminate H|]). exact H. Qed.

Lemma ack_error_props : forall s, 6 <= length (cbuf s) ->
  fault (ack_error s) = fault s /\ k_state (k (ack_error s)) = CS_FLUSH_WAIT /\
  k_wafter (k (ack_error s)) = CS_AFTER_RESET /\ text_of (cbuf (ack_error s)) = txt_ERROR.
Proof.
  intros s H. repeat split; try reflexivity.
  cbn. apply text_of_strncpy; [apply not_in_ERROR|]. unfold asz. cbn [length txt_ERROR]. lia.
Qed.

Lemma ack_ok_props : forall s, 6 <= length (cbuf s) ->
  fault (ack_ok s) = fault s /\ k_state (k (ack_ok s)) = CS_FLUSH_WAIT /\
  k_wafter (k (ack_ok s)) = CS_AFTER_RESET /\ text_of (cbuf (ack_ok s)) = txt_OK.
Proof.
  intros s H. repeat split; try reflexivity.
  cbn. apply text_of_strncpy; [apply not_in_OK|]. unfold asz. cbn [length txt_OK]. lia.
Qed.

Section C19.
Variable D : desc.

Definition descr_text (c : cmd) (nl : list N) : list N :=
  match c_descr c with Some d => nl ++ d | None => [] end.

(* the buffer holds text t followed by rest; the cursor is at the end of t *)
Definition BInv (f : fsm) (c : cmd) (s : state) (t rest nl : list N) (bsz : nat) : Prop :=
  fault s = false /\ cmd_of D f s = Some c /\ g_buf f s = t ++ rest /\ g_pos f s = length t /\
  nl_chars s = nl /\ length t + length rest = bsz.

Definition TFail (f : fsm) (s : state) : Prop :=
  fault s = false /\ test_failed f s /\ in_fmt_test f s = false.

Definition TDone (f : fsm) (c : cmd) (s : state) (txt : list N) (bsz : nat) : Prop :=
  fault s = false /\ (exists r, g_buf f s = txt ++ 0%N :: r) /\ length (g_buf f s) = bsz /\
  test_done f c s /\ (c_htest c = true -> g_pos f s = length txt).

Lemma BInv_set : forall f c s t rest nl bsz t' rest',
  BInv f c s t rest nl bsz -> length t' + length rest' = bsz ->
  BInv f c (setg_pos f (length t') (setg_buf f (t' ++ rest') s)) t' rest' nl bsz.
Proof.
  intros f c s t rest nl bsz t' rest' (H1 & H2 & H3 & H4 & H5 & H6) H.
  destruct f; unfold BInv; repeat split; try assumption; try reflexivity.
Qed.

Lemma fail_state : forall f s b pos, fault s = false -> length b = length (g_buf f s) ->
  (f = ATCMD -> 6 <= length (g_buf f s)) ->
  TFail f (end_with_error f (setg_pos f pos (setg_buf f b s))).
Proof.
  intros f s b pos Hf Hb H6. destruct f.
  - specialize (H6 eq_refl). cbn [g_buf] in *.
    destruct (ack_error_props (setk_position pos (set_cbuf b s))) as (A1 & A2 & A3 & A4).
    { cbn. lia. }
    unfold TFail, test_failed, end_with_error. cbn [setg_pos setg_buf].
    rewrite A1, A2, A3, A4. repeat split; try reflexivity. exact Hf.
  - unfold TFail, test_failed. repeat split; try reflexivity. exact Hf.
Qed.

Lemma fmt_test_run_stop : forall n f s, in_fmt_test f s = false -> fmt_test_run D n f s = s.
Proof. intros [|n] f s H; cbn [fmt_test_run]; [reflexivity|]. rewrite H. reflexivity. Qed.

(* ---- print_response_test ---- *)
Ltac fin :=
  cbn in *; repeat split; intros; try assumption; try reflexivity; try discriminate;
  try (eexists; reflexivity); try (eexists; eassumption);
  try (repeat match goal with H : ?x = _ ++ _ |- context [length ?x] => rewrite H end;
       rewrite ?app_length in *; cbn [length] in *; lia).

Lemma prt_ok : forall f c s t r nl bsz,
  BInv f c s t (0%N :: r) nl bsz -> length (descr_text c nl) < S (length r) ->
  exists s3, print_response_test D f s = (s3, true) /\
             TDone f c s3 (t ++ descr_text c nl) bsz /\ in_fmt_test f s3 = false.
Proof.
  intros f c s t r nl bsz HB Hl.
  pose proof HB as (H1 & H2 & H3 & H4 & H5 & H6).
  unfold print_response_test. rewrite H2. unfold descr_text in *.
  destruct (c_descr c) as [d|] eqn:Ed.
  - rewrite H5.
    destruct (ps_ok f s t (0%N :: r) nl [d] H3 H4) as [r' [E L]].
    { cbn [concat length] in *. rewrite app_nil_r. exact Hl. }
    rewrite E. cbn [negb]. cbn [concat] in *. rewrite app_nil_r in *.
    destruct (c_htest c) eqn:Eh.
    + eexists. split; [reflexivity|]. unfold TDone, test_done. rewrite Eh.
      destruct f; (split; [|reflexivity]); fin.
    + eexists. split; [reflexivity|]. unfold TDone, test_done. rewrite Eh.
      destruct f; (split; [|reflexivity]); fin.
  - cbn [negb]. rewrite app_nil_r.
    destruct (c_htest c) eqn:Eh.
    + eexists. split; [reflexivity|]. unfold TDone, test_done. rewrite Eh.
      destruct f; (split; [|reflexivity]); fin.
    + eexists. split; [reflexivity|]. unfold TDone, test_done. rewrite Eh.
      destruct f; (split; [|reflexivity]); fin.
Qed.

Lemma BInv_6 : forall f c s t rest nl bsz, BInv f c s t rest nl bsz ->
  (f = ATCMD -> 6 <= bsz) -> (f = ATCMD -> 6 <= length (g_buf f s)).
Proof.
  intros f c s t rest nl bsz (H1 & H2 & H3 & H4 & H5 & H6) H E.
  rewrite H3, app_length. specialize (H E). lia.
Qed.

Lemma prt_fail : forall f c s t rest nl bsz d,
  BInv f c s t rest nl bsz -> c_descr c = Some d -> length rest <= length (nl ++ d) ->
  (f = ATCMD -> 6 <= bsz) ->
  exists s3, print_response_test D f s = (s3, false) /\ TFail f (end_with_error f s3).
Proof.
  intros f c s t rest nl bsz d HB Ed Hl H6.
  pose proof HB as (H1 & H2 & H3 & H4 & H5 & H7).
  unfold print_response_test. rewrite H2, Ed, H5.
  destruct (ps_fail f s t rest nl [d] H3 H4) as [b [pos [E L]]].
  { cbn [concat]. rewrite app_nil_r. exact Hl. }
  rewrite E. cbn [negb]. eexists. split; [reflexivity|].
  apply fail_state; [exact H1|exact L|]. exact (BInv_6 _ _ _ _ _ _ _ HB H6).
Qed.

(* ---- next_format_var ---- *)
Lemma nfv_more : forall f c s t r nl bsz,
  BInv f c s t (0%N :: r) nl bsz -> S (g_index f s) < length (c_vars c) ->
  exists s2, next_format_var D f s = (s2, true) /\
    BInv f c s2 (t ++ [ch_COMMA]) r nl bsz /\
    g_var f s2 = S (g_index f s) /\ g_index f s2 = S (g_index f s) /\
    in_fmt_test f s2 = in_fmt_test f s.
Proof.
  intros f c s t r nl bsz (H1 & H2 & H3 & H4 & H5 & H6) Hi.
  unfold next_format_var. rewrite H2.
  apply Nat.ltb_lt in Hi. rewrite Hi.
  assert (E : g_bsz f (setg_index f (S (g_index f s)) s)
              <=? g_pos f (setg_index f (S (g_index f s)) s) = false).
  { apply Nat.leb_gt. destruct f; unfold g_bsz; cbn; cbn in H3, H4;
      rewrite H3, H4, app_length; cbn [length]; lia. }
  rewrite E. eexists. split; [reflexivity|].
  destruct f; unfold BInv; cbn; cbn in H3, H4; rewrite H3, H4, upd_app_mid, <- app_assoc; fin.
Qed.

Lemma nfv_last : forall f c s,
  cmd_of D f s = Some c -> length (c_vars c) <= S (g_index f s) ->
  next_format_var D f s = (setg_index f (S (g_index f s)) s, false).
Proof.
  intros f c s H2 Hi. unfold next_format_var. rewrite H2.
  apply Nat.ltb_ge in Hi. rewrite Hi. reflexivity.
Qed.

Lemma BInv_setidx : forall f c s t rest nl bsz i,
  BInv f c s t rest nl bsz -> BInv f c (setg_index f i s) t rest nl bsz.
Proof.
  intros f c s t rest nl bsz i (H1 & H2 & H3 & H4 & H5 & H6).
  destruct f; unfold BInv; repeat split; assumption.
Qed.

(* ---- format_test_args ---- *)
Definition TInv (f : fsm) (c : cmd) (s : state) (i : nat) (t rest nl : list N) (bsz : nat) : Prop :=
  BInv f c s t rest nl bsz /\ g_var f s = i /\ g_index f s = i /\ in_fmt_test f s = true.

Definition fta_rest (f : fsm) (s1 : state) : state :=
  let (s2, handled) := next_format_var D f s1 in
  if handled then s2
  else let (s3, ok3) := print_response_test D f s2 in
       if ok3 then s3 else end_with_error f s3.

Lemma fta_unfold : forall f c s v tn,
  cmd_of D f s = Some c -> nth_error (c_vars c) (g_var f s) = Some v ->
  type_name (v_type v) (v_size v) = Some tn ->
  format_test_args D f s
  = let (s1, ok) := print_strings f s (info_pieces v tn) in
    if negb ok then end_with_error f s1 else fta_rest f s1.
Proof.
  intros f c s v tn H H0 H1. unfold format_test_args, fmt_info, print_strings, fta_rest.
  rewrite H, H0, H1. destruct (print_pieces (get_cur f s) (info_pieces v tn)) as [c1 ok].
  reflexivity.
Qed.

Lemma info_pieces_cons : forall v tn, exists p ps, info_pieces v tn = p :: ps.
Proof. intros. unfold info_pieces. eauto. Qed.

Lemma fta_print_ok : forall f c s i t rest nl bsz v info,
  TInv f c s i t rest nl bsz -> nth_error (c_vars c) i = Some v ->
  var_info_text v = Some info -> length info < length rest ->
  exists s1 r', TInv f c s1 i (t ++ info) (0%N :: r') nl bsz /\
                length info + S (length r') = length rest /\
                format_test_args D f s = fta_rest f s1.
Proof.
  intros f c s i t rest nl bsz v info (HB & Hv & Hi & Hin) Hn Ht Hl.
  pose proof HB as (H1 & H2 & H3 & H4 & H5 & H6).
  unfold var_info_text in Ht.
  destruct (type_name (v_type v) (v_size v)) as [tn|] eqn:Etn; [|discriminate].
  assert (Ei0 : info = concat (info_pieces v tn)) by congruence. subst info. clear Ht.
  rewrite <- Hv in Hn.
  rewrite (fta_unfold f c s v tn H2 Hn Etn).
  destruct (info_pieces_cons v tn) as (p & ps & Ei). rewrite Ei in *.
  destruct (ps_ok f s t rest p ps H3 H4 Hl) as [r' [E L]]. rewrite E. cbn [negb].
  eexists. exists r'. split; [|split; [exact L|reflexivity]].
  unfold TInv. split; [apply (BInv_set f c s t rest); [exact HB|]|].
  - rewrite app_length. cbn [length]. lia.
  - destruct f; fin.
Qed.

Lemma fta_print_fail : forall f c s i t rest nl bsz v,
  TInv f c s i t rest nl bsz -> nth_error (c_vars c) i = Some v ->
  match var_info_text v with Some info => length rest <= length info | None => True end ->
  (f = ATCMD -> 6 <= bsz) ->
  TFail f (format_test_args D f s).
Proof.
  intros f c s i t rest nl bsz v (HB & Hv & Hi & Hin) Hn Ht H6.
  pose proof HB as (H1 & H2 & H3 & H4 & H5 & H7).
  pose proof (BInv_6 _ _ _ _ _ _ _ HB H6) as H6'.
  unfold var_info_text in Ht. rewrite <- Hv in Hn.
  destruct (type_name (v_type v) (v_size v)) as [tn|] eqn:Etn.
  - rewrite (fta_unfold f c s v tn H2 Hn Etn).
    destruct (info_pieces_cons v tn) as (p & ps & Ei). rewrite Ei in *.
    destruct (ps_fail f s t rest p ps H3 H4 Ht) as [b [pos [E L]]]. rewrite E. cbn [negb].
    apply fail_state; assumption.
  - unfold format_test_args, fmt_info. rewrite H2, Hn, Etn. cbn [negb].
    unfold put_cur, get_cur. cbn [cu_buf cu_pos cu_fault].
    apply fail_state; [assumption|reflexivity|assumption].
Qed.

Lemma fta_more : forall f c s i t rest nl bsz v info,
  TInv f c s i t rest nl bsz -> nth_error (c_vars c) i = Some v ->
  var_info_text v = Some info -> length info < length rest -> S i < length (c_vars c) ->
  exists r', TInv f c (format_test_args D f s) (S i) (t ++ info ++ [ch_COMMA]) r' nl bsz /\
             length info + S (length r') = length rest.
Proof.
  intros f c s i t rest nl bsz v info HT Hn Ht Hl Hi.
  destruct (fta_print_ok f c s i t rest nl bsz v info HT Hn Ht Hl) as (s1 & r' & HT1 & L & E).
  rewrite E. unfold fta_rest. destruct HT1 as (HB1 & Hv1 & Hi1 & Hin1).
  destruct (nfv_more f c s1 (t ++ info) r' nl bsz HB1) as (s2 & E2 & HB2 & Hv2 & Hi2 & Hin2).
  { rewrite Hi1. exact Hi. }
  rewrite E2. exists r'. split; [|exact L].
  unfold TInv. rewrite Hv2, Hi2, Hin2, Hi1, app_assoc. auto.
Qed.

Lemma fta_last_ok : forall f c s i t rest nl bsz v info,
  TInv f c s i t rest nl bsz -> nth_error (c_vars c) i = Some v ->
  var_info_text v = Some info -> length (c_vars c) <= S i ->
  length (info ++ descr_text c nl) < length rest ->
  TDone f c (format_test_args D f s) (t ++ info ++ descr_text c nl) bsz.
Proof.
  intros f c s i t rest nl bsz v info HT Hn Ht Hi Hl. rewrite app_length in Hl.
  destruct (fta_print_ok f c s i t rest nl bsz v info HT Hn Ht) as (s1 & r' & HT1 & L & E);
    [lia|].
  rewrite E. unfold fta_rest. destruct HT1 as (HB1 & Hv1 & Hi1 & Hin1).
  pose proof HB1 as (_ & H2 & _).
  rewrite (nfv_last f c s1 H2) by (rewrite Hi1; exact Hi).
  destruct (prt_ok f c _ _ _ _ _ (BInv_setidx _ _ _ _ _ _ _ (S (g_index f s1)) HB1))
    as (s3 & E3 & HD & _); [lia|].
  rewrite E3, app_assoc. exact HD.
Qed.

Lemma fta_last_fail : forall f c s i t rest nl bsz v info,
  TInv f c s i t rest nl bsz -> nth_error (c_vars c) i = Some v ->
  var_info_text v = Some info -> length (c_vars c) <= S i ->
  length rest <= length (info ++ descr_text c nl) -> (f = ATCMD -> 6 <= bsz) ->
  TFail f (format_test_args D f s).
Proof.
  intros f c s i t rest nl bsz v info HT Hn Ht Hi Hl H6. rewrite app_length in Hl.
  destruct (Nat.lt_ge_cases (length info) (length rest)) as [Hlt|Hge].
  - destruct (fta_print_ok f c s i t rest nl bsz v info HT Hn Ht Hlt) as (s1 & r' & HT1 & L & E).
    rewrite E. unfold fta_rest. destruct HT1 as (HB1 & Hv1 & Hi1 & Hin1).
    pose proof HB1 as (_ & H2 & _).
    rewrite (nfv_last f c s1 H2) by (rewrite Hi1; exact Hi).
    unfold descr_text in Hl. destruct (c_descr c) as [d|] eqn:Ed.
    + destruct (prt_fail f c _ _ _ _ _ d (BInv_setidx _ _ _ _ _ _ _ (S (g_index f s1)) HB1) Ed)
        as (s3 & E3 & HF); [cbn [length] in *; lia|exact H6|].
      rewrite E3. exact HF.
    + cbn [length] in Hl. lia.
  - apply (fta_print_fail f c s i t rest nl bsz v HT Hn); [|exact H6].
    rewrite Ht. exact Hge.
Qed.

(* ---- the loop over the variables ---- *)
Definition tail_text (infos : list (list N)) : list N :=
  concat (map (fun y => ch_COMMA :: y) infos).

Lemma all_some_cons : forall v vs infos,
  all_some (map var_info_text (v :: vs)) = Some infos ->
  exists info infos', infos = info :: infos' /\ var_info_text v = Some info /\
                      all_some (map var_info_text vs) = Some infos'.
Proof.
  intros v vs infos H. cbn [map all_some] in H.
  destruct (var_info_text v) as [info|]; [|discriminate].
  destruct (all_some (map var_info_text vs)) as [infos'|]; [|discriminate].
  exists info, infos'. repeat split; congruence.
Qed.

Lemma nth_mid : forall (A : Type) (pre : list A) v vs, nth_error (pre ++ v :: vs) (length pre) = Some v.
Proof. intros. rewrite nth_error_app2, Nat.sub_diag by lia. reflexivity. Qed.

Lemma fmt_test_run_S : forall n f s,
  fmt_test_run D (S n) f s
  = if in_fmt_test f s then fmt_test_run D n f (format_test_args D f s) else s.
Proof. reflexivity. Qed.

Lemma loop_ok : forall f c nl bsz vs v pre s t rest infos,
  c_vars c = pre ++ v :: vs -> TInv f c s (length pre) t rest nl bsz ->
  all_some (map var_info_text (v :: vs)) = Some infos ->
  length (join_comma infos ++ descr_text c nl) < length rest ->
  TDone f c (fmt_test_run D (length (v :: vs)) f s)
        (t ++ join_comma infos ++ descr_text c nl) bsz.
Proof.
  intros f c nl bsz.
  induction vs as [|v2 vs IH]; intros v pre s t rest infos Hc HT Ha Hl;
    destruct (all_some_cons _ _ _ Ha) as (info & infos' & -> & Hi & Ha');
    pose proof (nth_mid _ pre v) as Hn;
    pose proof HT as (_ & _ & _ & Hin);
    match goal with |- context [fmt_test_run D (length (?a :: ?b)) _ _] =>
      change (length (a :: b)) with (S (length b)) end;
    rewrite fmt_test_run_S, Hin.
  - specialize (Hn []). rewrite <- Hc in Hn.
    cbn [map all_some] in Ha'. injection Ha' as <-.
    cbn [join_comma map concat] in *. rewrite app_nil_r in *. cbn [length fmt_test_run].
    apply (fta_last_ok f c s (length pre) t rest nl bsz v info HT Hn Hi); [|exact Hl].
    rewrite Hc, app_length. cbn [length]. lia.
  - specialize (Hn (v2 :: vs)). rewrite <- Hc in Hn.
    destruct (all_some_cons _ _ _ Ha') as (info2 & infos2 & -> & Hi2 & Ha2).
    cbn [join_comma map concat] in *.
    rewrite !app_length in Hl. cbn [length] in Hl. rewrite ?app_length in Hl.
    destruct (fta_more f c s (length pre) t rest nl bsz v info HT Hn Hi) as (r' & HT' & L);
      [lia| rewrite Hc, app_length; cbn [length]; lia |].
    specialize (IH v2 (pre ++ [v]) (format_test_args D f s) (t ++ info ++ [ch_COMMA]) r'
                   (info2 :: infos2)).
    replace (length (pre ++ [v])) with (S (length pre)) in IH
      by (rewrite app_length; cbn [length]; lia).
    cbn [join_comma] in IH. cbn [length] in IH.
    replace (t ++ (info ++ (ch_COMMA :: info2) ++ concat (map (fun y => ch_COMMA :: y) infos2))
               ++ descr_text c nl)
      with ((t ++ info ++ [ch_COMMA]) ++
            (info2 ++ concat (map (fun y => ch_COMMA :: y) infos2)) ++ descr_text c nl).
    2:{ rewrite <- !app_assoc. reflexivity. }
    apply IH.
    + rewrite Hc, <- app_assoc. reflexivity.
    + exact HT'.
    + cbn [map all_some]. rewrite Hi2, Ha2. reflexivity.
    + rewrite !app_length. lia.
Qed.

Lemma loop_fail : forall f c nl bsz, (f = ATCMD -> 6 <= bsz) ->
  forall vs v pre s t rest,
  c_vars c = pre ++ v :: vs -> TInv f c s (length pre) t rest nl bsz ->
  match all_some (map var_info_text (v :: vs)) with
  | Some infos => length rest <= length (join_comma infos ++ descr_text c nl)
  | None => True
  end ->
  TFail f (fmt_test_run D (length (v :: vs)) f s).
Proof.
  intros f c nl bsz H6.
  induction vs as [|v2 vs IH]; intros v pre s t rest Hc HT Ha;
    pose proof (nth_mid _ pre v) as Hn;
    pose proof HT as (_ & _ & _ & Hin);
    match goal with |- context [fmt_test_run D (length (?a :: ?b)) _ _] =>
      change (length (a :: b)) with (S (length b)) end;
    rewrite fmt_test_run_S, Hin.
  - specialize (Hn []). rewrite <- Hc in Hn. cbn [length fmt_test_run].
    cbn [map all_some] in Ha.
    destruct (var_info_text v) as [info|] eqn:Hi.
    + cbn [join_comma map concat] in Ha. rewrite app_nil_r in Ha.
      apply (fta_last_fail f c s (length pre) t rest nl bsz v info HT Hn Hi); [|exact Ha|exact H6].
      rewrite Hc, app_length. cbn [length]. lia.
    + apply (fta_print_fail f c s (length pre) t rest nl bsz v HT Hn); [|exact H6].
      rewrite Hi. exact I.
  - specialize (Hn (v2 :: vs)). rewrite <- Hc in Hn.
    assert (Hstop : TFail f (format_test_args D f s) ->
                    TFail f (fmt_test_run D (length (v2 :: vs)) f (format_test_args D f s))).
    { intros HF. rewrite fmt_test_run_stop; [exact HF|apply HF]. }
    change (map var_info_text (v :: v2 :: vs))
      with (var_info_text v :: map var_info_text (v2 :: vs)) in Ha.
    cbn [all_some] in Ha.
    destruct (var_info_text v) as [info|] eqn:Hi.
    2:{ apply Hstop. apply (fta_print_fail f c s (length pre) t rest nl bsz v HT Hn); [|exact H6].
        rewrite Hi. exact I. }
    destruct (Nat.lt_ge_cases (length info) (length rest)) as [Hlt|Hge].
    2:{ apply Hstop. apply (fta_print_fail f c s (length pre) t rest nl bsz v HT Hn); [|exact H6].
        rewrite Hi. exact Hge. }
    destruct (fta_more f c s (length pre) t rest nl bsz v info HT Hn Hi Hlt) as (r' & HT' & L).
    { rewrite Hc, app_length. cbn [length]. lia. }
    specialize (IH v2 (pre ++ [v]) (format_test_args D f s) (t ++ info ++ [ch_COMMA]) r').
    replace (length (pre ++ [v])) with (S (length pre)) in IH
      by (rewrite app_length; cbn [length]; lia).
    apply IH.
    + rewrite Hc, <- app_assoc. reflexivity.
    + exact HT'.
    + destruct (all_some (map var_info_text (v2 :: vs))) as [infos'|] eqn:Ha'; [|exact I].
      destruct (all_some_cons _ _ _ Ha') as (info2 & infos2 & -> & _ & _).
      cbn [join_comma map concat] in *.
      rewrite !app_length in Ha. cbn [length] in Ha. rewrite ?app_length in Ha.
      rewrite !app_length. lia.
Qed.

(* ---- the whole response ---- *)
Lemma BInv_start : forall f s ci c,
  g_cmd f s = Some ci -> nth_error (pool D) ci = Some c -> fault s = false ->
  BInv f c (setg_pos f 0 s) [] (g_buf f s) (nl_chars s) (length (g_buf f s)).
Proof.
  intros f s ci c Hg Hc Hf. unfold BInv, cmd_of.
  destruct f; cbn in *; rewrite Hg; repeat split; assumption.
Qed.

Lemma test_ok : forall f s ci c infos,
  g_cmd f s = Some ci -> nth_error (pool D) ci = Some c -> fault s = false ->
  all_some (map var_info_text (c_vars c)) = Some infos ->
  length (c_name c ++ [ch_EQ] ++ join_comma infos ++ descr_text c (nl_chars s))
    < length (g_buf f s) ->
  TDone f c (test_response D f c s)
        (c_name c ++ [ch_EQ] ++ join_comma infos ++ descr_text c (nl_chars s))
        (length (g_buf f s)).
Proof.
  intros f s ci c infos Hg Hc Hf Ha Hl.
  pose proof (BInv_start f s ci c Hg Hc Hf) as HB0.
  unfold test_response, start_processing_format_test_args. cbv zeta.
  set (s0 := setg_pos f 0 s) in *. set (nl := nl_chars s) in *. set (bsz := length (g_buf f s)) in *.
  pose proof HB0 as (_ & H2 & H3 & H4 & _). rewrite H2.
  rewrite !app_length in Hl. cbn [length] in Hl.
  rewrite print_string_as_strings.
  destruct (ps_ok f s0 [] (g_buf f s) (c_name c) [] H3 H4) as [r1 [E1 L1]].
  { cbn [concat]. rewrite app_nil_r. lia. }
  rewrite E1. cbn [negb]. cbn [concat app] in E1, L1 |- *. rewrite app_nil_r in *.
  assert (HB1 : BInv f c (setg_pos f (length (c_name c)) (setg_buf f (c_name c ++ 0%N :: r1) s0))
                     (c_name c) (0%N :: r1) nl bsz).
  { apply (BInv_set f c s0 [] (g_buf f s)); [exact HB0|]. cbn [length] in *. lia. }
  set (s1 := setg_pos f (length (c_name c)) (setg_buf f (c_name c ++ 0%N :: r1) s0)) in *.
  pose proof HB1 as (_ & H2' & H3' & H4' & _).
  rewrite print_string_as_strings.
  destruct (ps_ok f s1 (c_name c) (0%N :: r1) [ch_EQ] [] H3' H4') as [r2 [E2 L2]].
  { cbn [concat app length] in *. lia. }
  rewrite E2. cbn [negb]. cbn [concat app] in E2, L2 |- *.
  assert (HB2 : BInv f c (setg_pos f (length (c_name c ++ [ch_EQ]))
                            (setg_buf f ((c_name c ++ [ch_EQ]) ++ 0%N :: r2) s1))
                     (c_name c ++ [ch_EQ]) (0%N :: r2) nl bsz).
  { apply (BInv_set f c s1 (c_name c) (0%N :: r1)); [exact HB1|].
    rewrite app_length. cbn [length] in *. lia. }
  set (s2 := setg_pos f (length (c_name c ++ [ch_EQ]))
               (setg_buf f ((c_name c ++ [ch_EQ]) ++ 0%N :: r2) s1)) in *.
  replace (c_name c ++ ch_EQ :: join_comma infos ++ descr_text c nl)
    with ((c_name c ++ [ch_EQ]) ++ join_comma infos ++ descr_text c nl)
    by (rewrite <- app_assoc; reflexivity).
  destruct (c_vars c) as [|v vs] eqn:Ev.
  - cbn [map all_some] in Ha. injection Ha as <-. cbn [join_comma app] in *.
    destruct (prt_ok f c s2 _ _ _ _ HB2) as (s3 & E3 & HD & _).
    { cbn [length] in *. lia. }
    rewrite E3. cbn [length fmt_test_run]. exact HD.
  - apply (loop_ok f c nl bsz vs v [] _ (c_name c ++ [ch_EQ]) (0%N :: r2) infos Ev).
    + unfold TInv. destruct f; unfold BInv in *; fin.
    + exact Ha.
    + rewrite !app_length. cbn [length] in *. lia.
Qed.

Lemma test_fail : forall f s ci c,
  g_cmd f s = Some ci -> nth_error (pool D) ci = Some c -> fault s = false ->
  (f = ATCMD -> 6 <= length (g_buf f s)) ->
  match all_some (map var_info_text (c_vars c)) with
  | Some infos =>
    length (g_buf f s)
    <= length (c_name c ++ [ch_EQ] ++ join_comma infos ++ descr_text c (nl_chars s))
  | None => True
  end ->
  TFail f (test_response D f c s).
Proof.
  intros f s ci c Hg Hc Hf H6 Ha.
  pose proof (BInv_start f s ci c Hg Hc Hf) as HB0.
  unfold test_response, start_processing_format_test_args. cbv zeta.
  set (s0 := setg_pos f 0 s) in *. set (nl := nl_chars s) in *. set (bsz := length (g_buf f s)) in *.
  pose proof HB0 as (Hf0 & H2 & H3 & H4 & _). rewrite H2.
  assert (Hstop : forall n x, TFail f x -> TFail f (fmt_test_run D n f x)).
  { intros n x HF. rewrite fmt_test_run_stop; [exact HF|apply HF]. }
  rewrite print_string_as_strings.
  destruct (Nat.lt_ge_cases (length (c_name c)) bsz) as [Hlt|Hge].
  2:{ destruct (ps_fail f s0 [] (g_buf f s) (c_name c) [] H3 H4) as [b [pos [E L]]].
      { cbn [concat]. rewrite app_nil_r. exact Hge. }
      rewrite E. cbn [negb]. apply Hstop. apply fail_state; [exact Hf0|exact L|].
      exact (BInv_6 _ _ _ _ _ _ _ HB0 H6). }
  destruct (ps_ok f s0 [] (g_buf f s) (c_name c) [] H3 H4) as [r1 [E1 L1]].
  { cbn [concat]. rewrite app_nil_r. exact Hlt. }
  rewrite E1. cbn [negb]. cbn [concat app] in E1, L1 |- *. rewrite app_nil_r in *.
  assert (HB1 : BInv f c (setg_pos f (length (c_name c)) (setg_buf f (c_name c ++ 0%N :: r1) s0))
                     (c_name c) (0%N :: r1) nl bsz).
  { apply (BInv_set f c s0 [] (g_buf f s)); [exact HB0|]. cbn [length] in *. lia. }
  set (s1 := setg_pos f (length (c_name c)) (setg_buf f (c_name c ++ 0%N :: r1) s0)) in *.
  pose proof HB1 as (Hf1 & H2' & H3' & H4' & _).
  rewrite print_string_as_strings.
  destruct (Nat.lt_ge_cases 1 (length (0%N :: r1))) as [Hlt2|Hge2].
  2:{ destruct (ps_fail f s1 (c_name c) (0%N :: r1) [ch_EQ] [] H3' H4') as [b [pos [E L]]].
      { cbn [concat app length] in *. lia. }
      rewrite E. cbn [negb]. apply Hstop. apply fail_state; [exact Hf1|exact L|].
      exact (BInv_6 _ _ _ _ _ _ _ HB1 H6). }
  destruct (ps_ok f s1 (c_name c) (0%N :: r1) [ch_EQ] [] H3' H4') as [r2 [E2 L2]].
  { cbn [concat app length] in *. lia. }
  rewrite E2. cbn [negb]. cbn [concat app] in E2, L2 |- *.
  assert (HB2 : BInv f c (setg_pos f (length (c_name c ++ [ch_EQ]))
                            (setg_buf f ((c_name c ++ [ch_EQ]) ++ 0%N :: r2) s1))
                     (c_name c ++ [ch_EQ]) (0%N :: r2) nl bsz).
  { apply (BInv_set f c s1 (c_name c) (0%N :: r1)); [exact HB1|].
    rewrite app_length. cbn [length] in *. lia. }
  set (s2 := setg_pos f (length (c_name c ++ [ch_EQ]))
               (setg_buf f ((c_name c ++ [ch_EQ]) ++ 0%N :: r2) s1)) in *.
  destruct (c_vars c) as [|v vs] eqn:Ev.
  - cbn [map all_some] in Ha. cbn [join_comma app] in Ha.
    rewrite app_length in Ha. cbn [length] in Ha.
    unfold descr_text in Ha. destruct (c_descr c) as [d|] eqn:Ed.
    + destruct (prt_fail f c s2 _ _ _ _ d HB2 Ed) as (s3 & E3 & HF); [|exact H6|].
      { cbn [length] in *. lia. }
      rewrite E3. cbn [length fmt_test_run]. exact HF.
    + cbn [length] in *. lia.
  - apply (loop_fail f c nl bsz H6 vs v [] _ (c_name c ++ [ch_EQ]) (0%N :: r2) Ev).
    + unfold TInv. destruct f; unfold BInv in *; fin.
    + destruct (all_some (map var_info_text (v :: vs))) as [infos|]; [|exact I].
      rewrite !app_length in *. cbn [length] in *. lia.
Qed.

Theorem C19_test_text_proof : forall f s ci c,
  g_cmd f s = Some ci -> nth_error (pool D) ci = Some c -> fault s = false ->
  let s' := test_response D f c s in
  let bsz := length (g_buf f s) in
  match spec_test_text c (nl_chars s) with
  | Some txt =>
    if length txt <? bsz
    then fault s' = false /\ (~ In 0%N txt -> text_of (g_buf f s') = txt) /\ test_done f c s' /\
         (c_htest c = true -> g_pos f s' = length txt)
    else (f = ATCMD -> 6 <= length (cbuf s)) -> fault s' = false /\ test_failed f s'
  | None => (f = ATCMD -> 6 <= length (cbuf s)) -> fault s' = false /\ test_failed f s'
  end.
Proof.
  intros f s ci c Hg Hc Hf s' bsz. subst s' bsz. unfold spec_test_text.
  assert (H6' : (f = ATCMD -> 6 <= length (cbuf s)) -> (f = ATCMD -> 6 <= length (g_buf f s))).
  { intros H E. subst f. exact (H eq_refl). }
  destruct (all_some (map var_info_text (c_vars c))) as [infos|] eqn:Ha.
  - fold (descr_text c (nl_chars s)).
    destruct (Nat.ltb_spec (length (c_name c ++ [ch_EQ] ++ join_comma infos ++ descr_text c (nl_chars s)))
                           (length (g_buf f s))) as [Hlt|Hge].
    + destruct (test_ok f s ci c infos Hg Hc Hf Ha Hlt) as (D1 & (r & D2) & D3 & D4 & D5).
      repeat split; try assumption.
      intros Hn. rewrite D2. apply text_of_app0. exact Hn.
    + intros H6. destruct (test_fail f s ci c Hg Hc Hf (H6' H6)) as (F1 & F2 & _).
      { rewrite Ha. exact Hge. }
      split; assumption.
  - intros H6. destruct (test_fail f s ci c Hg Hc Hf (H6' H6)) as (F1 & F2 & _).
    { rewrite Ha. exact I. }
    split; assumption.
Qed.
End C19.
