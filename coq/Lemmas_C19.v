(* Lemmas_C19.v — property C19: the automatic TEST response and the command list are
   faithful to the descriptor. *)
From Coq Require Import List NArith ZArith Bool Arith Lia.
From CatV Require Import Bytes Defs Codec Spec Fsm ResolveDefs TextDefs.
Import ListNotations.
Local Open Scope nat_scope.

(* ================= 1. advertised = served ================= *)

Lemma C19_consistent_proof : forall c f,
  c_implicit c = false -> advertised c f = dispatch_accepts c f.
Proof.
  intros c f H. destruct f; unfold advertised, dispatch_accepts; try reflexivity.
  rewrite H. cbn [negb]. rewrite andb_true_r. reflexivity.
Qed.

Lemma C19_consistent_implicit_proof : forall c f,
  f <> F_TEST -> advertised c f = dispatch_accepts c f.
Proof.
  intros c f H. destruct f; try reflexivity. contradiction.
Qed.

(* ================= 2. list and cursor lemmas ================= *)

Lemma upd_app_mid : forall (A : Type) (l1 : list A) x l2 v,
  upd (l1 ++ x :: l2) (length l1) v = l1 ++ v :: l2.
Proof.
  induction l1 as [|a l1 IH]; intros; cbn [app length upd]; [reflexivity|].
  f_equal. apply IH.
Qed.

Lemma upd_length : forall (A : Type) (l : list A) i v, length (upd l i v) = length l.
Proof.
  induction l as [|a l IH]; intros [|i] v; cbn [upd length]; try reflexivity.
  f_equal. apply IH.
Qed.

Lemma split_at : forall (A : Type) (l : list A) n, n < length l ->
  exists a y b, l = a ++ y :: b /\ length a = n.
Proof.
  intros A l n H.
  destruct (skipn n l) as [|y b] eqn:E.
  - assert (length (skipn n l) = 0) by (rewrite E; reflexivity).
    rewrite skipn_length in H0. lia.
  - exists (firstn n l), y, b. split.
    + rewrite <- E. symmetry. apply firstn_skipn.
    + rewrite firstn_length. lia.
Qed.

(* the NUL-terminated text *)
Lemma text_of_app0 : forall t r, ~ In 0%N t -> text_of (t ++ 0%N :: r) = t.
Proof.
  induction t as [|x t IH]; intros r H.
  - reflexivity.
  - cbn [app text_of]. destruct (N.eqb_spec x 0) as [E|E].
    + exfalso. apply H. left. exact E.
    + f_equal. apply IH. intro H1. apply H. right. exact H1.
Qed.

Lemma text_of_strncpy : forall n t, ~ In 0%N t -> length t < n ->
  text_of (strncpy_buf n t) = t.
Proof.
  intros n t H Hn. unfold strncpy_buf.
  rewrite firstn_app.
  rewrite firstn_all2 by lia.
  replace (n - length t) with (S (n - length t - 1)) by lia.
  replace (repeat 0%N n) with (repeat 0%N (S (n - 1))) by (f_equal; lia).
  cbn [repeat firstn]. apply text_of_app0. exact H.
Qed.

Lemma strncpy_length : forall n t, length (strncpy_buf n t) = n.
Proof.
  intros. unfold strncpy_buf. rewrite firstn_length, app_length, repeat_length. lia.
Qed.

Lemma csl_ok : forall str t a b p fl, length a = length str ->
  cur_store_list (mkCur (t ++ a ++ b) p fl) (length t) str = mkCur (t ++ str ++ b) p fl.
Proof.
  induction str as [|x str IH]; intros t a b p fl H.
  - destruct a; [reflexivity|discriminate].
  - destruct a as [|y a]; [discriminate|]. cbn [length] in H.
    cbn [cur_store_list]. unfold cur_store. cbn [cu_buf cu_pos cu_fault].
    replace (length t <? length (t ++ (y :: a) ++ b)) with true.
    2:{ symmetry. apply Nat.ltb_lt. rewrite app_length. cbn [app length]. lia. }
    cbn [app]. rewrite upd_app_mid.
    replace (t ++ x :: a ++ b) with ((t ++ [x]) ++ a ++ b) by (rewrite <- app_assoc; reflexivity).
    replace (S (length t)) with (length (t ++ [x])) by (rewrite app_length; cbn [length]; lia).
    rewrite IH by lia. rewrite <- app_assoc. reflexivity.
Qed.

Lemma pn_ok : forall t rest fl str, length str < length rest ->
  exists rest',
    print_nstring (mkCur (t ++ rest) (length t) fl) str
    = (mkCur ((t ++ str) ++ 0%N :: rest') (length (t ++ str)) fl, true)
    /\ length str + S (length rest') = length rest.
Proof.
  intros t rest fl str H.
  destruct (split_at _ rest (length str) H) as [a [y [b [E Ha]]]].
  exists b. split.
  - unfold print_nstring. cbn [cu_buf cu_pos].
    replace (length (t ++ rest) <? length t) with false.
    2:{ symmetry. apply Nat.ltb_ge. rewrite app_length. lia. }
    replace (length (t ++ rest) - length t <=? length str) with false.
    2:{ symmetry. apply Nat.leb_gt. rewrite app_length. lia. }
    subst rest. rewrite (csl_ok str t a (y :: b)) by exact Ha.
    unfold cur_set_pos, cur_store. cbn [cu_buf cu_pos cu_fault].
    replace (length t + length str <? length (t ++ str ++ y :: b)) with true.
    2:{ symmetry. apply Nat.ltb_lt. rewrite !app_length. cbn [length]. lia. }
    rewrite (app_assoc t str (y :: b)).
    replace (length t + length str) with (length (t ++ str)) by apply app_length.
    rewrite upd_app_mid. reflexivity.
  - subst rest. rewrite app_length. cbn [length]. lia.
Qed.

Lemma pn_fail : forall t rest fl str, length rest <= length str ->
  print_nstring (mkCur (t ++ rest) (length t) fl) str = (mkCur (t ++ rest) (length t) fl, false).
Proof.
  intros t rest fl str H. unfold print_nstring. cbn [cu_buf cu_pos].
  replace (length (t ++ rest) <? length t) with false.
  2:{ symmetry. apply Nat.ltb_ge. rewrite app_length. lia. }
  replace (length (t ++ rest) - length t <=? length str) with true.
  2:{ symmetry. apply Nat.leb_le. rewrite app_length. lia. }
  reflexivity.
Qed.

Lemma print_pieces_cons : forall c p r,
  print_pieces c (p :: r)
  = let (c1, ok) := print_nstring c p in if ok then print_pieces c1 r else (c1, false).
Proof. reflexivity. Qed.

(* a non-empty sequence of prints = one print of the concatenation *)
Lemma pp_ok : forall ps p t rest fl, length (concat (p :: ps)) < length rest ->
  exists rest',
    print_pieces (mkCur (t ++ rest) (length t) fl) (p :: ps)
    = (mkCur ((t ++ concat (p :: ps)) ++ 0%N :: rest') (length (t ++ concat (p :: ps))) fl, true)
    /\ length (concat (p :: ps)) + S (length rest') = length rest.
Proof.
  induction ps as [|q ps IH]; intros p t rest fl H.
  - cbn [concat] in *. rewrite app_nil_r in *.
    destruct (pn_ok t rest fl p H) as [r' [E L]].
    exists r'. rewrite print_pieces_cons, E. split; [reflexivity|exact L].
  - cbn [concat] in H. rewrite app_length in H.
    destruct (pn_ok t rest fl p) as [r' [E L]]; [lia|].
    rewrite print_pieces_cons, E.
    destruct (IH q (t ++ p) (0%N :: r') fl) as [r'' [E2 L2]].
    { cbn [length]. cbn [concat]. lia. }
    exists r''. rewrite E2. split.
    + cbn [concat]. rewrite <- !app_assoc. reflexivity.
    + cbn [concat length] in *. rewrite app_length. lia.
Qed.

Lemma pp_fail : forall ps p t rest fl, length rest <= length (concat (p :: ps)) ->
  exists b pos,
    print_pieces (mkCur (t ++ rest) (length t) fl) (p :: ps) = (mkCur b pos fl, false)
    /\ length b = length (t ++ rest).
Proof.
  induction ps as [|q ps IH]; intros p t rest fl H.
  - cbn [concat] in H. rewrite app_nil_r in H.
    rewrite print_pieces_cons, pn_fail by exact H.
    exists (t ++ rest), (length t). split; reflexivity.
  - rewrite print_pieces_cons.
    destruct (Nat.lt_ge_cases (length p) (length rest)) as [Hlt|Hge].
    + destruct (pn_ok t rest fl p Hlt) as [r' [E L]]. rewrite E.
      destruct (IH q (t ++ p) (0%N :: r') fl) as [b [pos [E2 L2]]].
      { cbn [concat length] in *. rewrite app_length in H. lia. }
      rewrite E2. exists b, pos. split; [reflexivity|].
      rewrite L2. rewrite !app_length. cbn [length]. lia.
    + rewrite pn_fail by exact Hge.
      exists (t ++ rest), (length t). split; reflexivity.
Qed.

(* ================= 3. printing at the level of the object state ================= *)

Lemma print_string_as_strings : forall f s str,
  print_string f s str = print_strings f s [str].
Proof.
  intros. unfold print_string, print_strings. rewrite print_pieces_cons.
  destruct (print_nstring (get_cur f s) str) as [c1 [|]]; reflexivity.
Qed.

Lemma ps_ok : forall f s t rest p ps,
  g_buf f s = t ++ rest -> g_pos f s = length t -> length (concat (p :: ps)) < length rest ->
  exists rest',
    print_strings f s (p :: ps)
    = (setg_pos f (length (t ++ concat (p :: ps)))
         (setg_buf f ((t ++ concat (p :: ps)) ++ 0%N :: rest') s), true)
    /\ length (concat (p :: ps)) + S (length rest') = length rest.
Proof.
  intros f s t rest p ps Hb Hp Hl. unfold print_strings, get_cur. rewrite Hb, Hp.
  destruct (pp_ok ps p t rest false Hl) as [r' [E L]]. rewrite E.
  exists r'. split; [reflexivity|exact L].
Qed.

Lemma ps_fail : forall f s t rest p ps,
  g_buf f s = t ++ rest -> g_pos f s = length t -> length rest <= length (concat (p :: ps)) ->
  exists b pos,
    print_strings f s (p :: ps) = (setg_pos f pos (setg_buf f b s), false)
    /\ length b = length (g_buf f s).
Proof.
  intros f s t rest p ps Hb Hp Hl. unfold print_strings, get_cur. rewrite Hb, Hp.
  destruct (pp_fail ps p t rest false Hl) as [b [pos [E L]]]. rewrite E.
  exists b, pos. split; [reflexivity|exact L].
Qed.

Lemma not_in_ERROR : ~ In 0%N txt_ERROR.
Proof. unfold txt_ERROR. cbn [In]. intros H. repeat (destruct H as [H|H]; [discriminate H|]). exact H. Qed.

Lemma not_in_OK : ~ In 0%N txt_OK.
Proof. unfold txt_OK. cbn [In]. intros H. repeat (destruct H as [H|H]; [discriminate H|]). exact H. Qed.

Lemma ack_error_props : forall s, 6 <= length (cbuf s) ->
  fault (ack_error s) = fault s /\ k_state (k (ack_error s)) = CS_FLUSH_WAIT /\
  k_wafter (k (ack_error s)) = CS_AFTER_RESET /\ text_of (cbuf (ack_error s)) = txt_ERROR.
Proof.
  intros s H. repeat split; try reflexivity.
  cbn. apply text_of_strncpy; [apply not_in_ERROR|]. unfold asz. cbn [length txt_ERROR]. lia.
Qed.

Lemma ack_ok_props : forall s, 6 <= length (cbuf s) ->
  fault (ack_ok s) = fault s /\ k_state (k (ack_ok s)) = CS_FLUSH_WAIT /\
  k_wafter (k (ack_ok s)) = CS_AFTER_RESET /\ text_of (cbuf (ack_ok s)) = txt_OK.
Proof.
  intros s H. repeat split; try reflexivity.
  cbn. apply text_of_strncpy; [apply not_in_OK|]. unfold asz. cbn [length txt_OK]. lia.
Qed.

Section C19.
Variable D : desc.

Definition descr_text (c : cmd) (nl : list N) : list N :=
  match c_descr c with Some d => nl ++ d | None => [] end.

(* the buffer holds text t followed by rest; the cursor is at the end of t *)
Definition BInv (f : fsm) (c : cmd) (s : state) (t rest nl : list N) (bsz : nat) : Prop :=
  fault s = false /\ cmd_of D f s = Some c /\ g_buf f s = t ++ rest /\ g_pos f s = length t /\
  nl_chars s = nl /\ length t + length rest = bsz.

Definition TFail (f : fsm) (s : state) : Prop :=
  fault s = false /\ test_failed f s /\ in_fmt_test f s = false.

Definition TDone (f : fsm) (c : cmd) (s : state) (txt : list N) (bsz : nat) : Prop :=
  fault s = false /\ (exists r, g_buf f s = txt ++ 0%N :: r) /\ length (g_buf f s) = bsz /\
  test_done f c s /\ (c_htest c = true -> g_pos f s = length txt).

Lemma BInv_set : forall f c s t rest nl bsz t' rest',
  BInv f c s t rest nl bsz -> length t' + length rest' = bsz ->
  BInv f c (setg_pos f (length t') (setg_buf f (t' ++ rest') s)) t' rest' nl bsz.
Proof.
  intros f c s t rest nl bsz t' rest' (H1 & H2 & H3 & H4 & H5 & H6) H.
  destruct f; unfold BInv; repeat split; try assumption; try reflexivity.
Qed.

Lemma fail_state : forall f s b pos, fault s = false -> length b = length (g_buf f s) ->
  (f = ATCMD -> 6 <= length (g_buf f s)) ->
  TFail f (end_with_error f (setg_pos f pos (setg_buf f b s))).
Proof.
  intros f s b pos Hf Hb H6. destruct f.
  - specialize (H6 eq_refl). cbn [g_buf] in *.
    destruct (ack_error_props (setk_position pos (set_cbuf b s))) as (A1 & A2 & A3 & A4).
    { cbn. lia. }
    unfold TFail, test_failed, end_with_error. cbn [setg_pos setg_buf].
    rewrite A1, A2, A3, A4. repeat split; try reflexivity. exact Hf.
  - unfold TFail, test_failed. repeat split; try reflexivity. exact Hf.
Qed.

Lemma fmt_test_run_stop : forall n f s, in_fmt_test f s = false -> fmt_test_run D n f s = s.
Proof. intros [|n] f s H; cbn [fmt_test_run]; [reflexivity|]. rewrite H. reflexivity. Qed.

(* ---- print_response_test ---- *)
Ltac fin :=
  cbn in *; repeat split; intros; try assumption; try reflexivity; try discriminate;
  try (eexists; reflexivity); try (eexists; eassumption);
  try (repeat match goal with H : ?x = _ ++ _ |- context [length ?x] => rewrite H end;
       rewrite ?app_length in *; cbn [length] in *; lia).

Lemma prt_ok : forall f c s t r nl bsz,
  BInv f c s t (0%N :: r) nl bsz -> length (descr_text c nl) < S (length r) ->
  exists s3, print_response_test D f s = (s3, true) /\
             TDone f c s3 (t ++ descr_text c nl) bsz /\ in_fmt_test f s3 = false.
Proof.
  intros f c s t r nl bsz HB Hl.
  pose proof HB as (H1 & H2 & H3 & H4 & H5 & H6).
  unfold print_response_test. rewrite H2. unfold descr_text in *.
  destruct (c_descr c) as [d|] eqn:Ed.
  - rewrite H5.
    destruct (ps_ok f s t (0%N :: r) nl [d] H3 H4) as [r' [E L]].
    { cbn [concat length] in *. rewrite app_nil_r. exact Hl. }
    rewrite E. cbn [negb]. cbn [concat] in *. rewrite app_nil_r in *.
    destruct (c_htest c) eqn:Eh.
    + eexists. split; [reflexivity|]. unfold TDone, test_done. rewrite Eh.
      destruct f; (split; [|reflexivity]); fin.
    + eexists. split; [reflexivity|]. unfold TDone, test_done. rewrite Eh.
      destruct f; (split; [|reflexivity]); fin.
  - cbn [negb]. rewrite app_nil_r.
    destruct (c_htest c) eqn:Eh.
    + eexists. split; [reflexivity|]. unfold TDone, test_done. rewrite Eh.
      destruct f; (split; [|reflexivity]); fin.
    + eexists. split; [reflexivity|]. unfold TDone, test_done. rewrite Eh.
      destruct f; (split; [|reflexivity]); fin.
Qed.

Lemma BInv_6 : forall f c s t rest nl bsz, BInv f c s t rest nl bsz ->
  (f = ATCMD -> 6 <= bsz) -> (f = ATCMD -> 6 <= length (g_buf f s)).
Proof.
  intros f c s t rest nl bsz (H1 & H2 & H3 & H4 & H5 & H6) H E.
  rewrite H3, app_length. specialize (H E). lia.
Qed.

Lemma prt_fail : forall f c s t rest nl bsz d,
  BInv f c s t rest nl bsz -> c_descr c = Some d -> length rest <= length (nl ++ d) ->
  (f = ATCMD -> 6 <= bsz) ->
  exists s3, print_response_test D f s = (s3, false) /\ TFail f (end_with_error f s3).
Proof.
  intros f c s t rest nl bsz d HB Ed Hl H6.
  pose proof HB as (H1 & H2 & H3 & H4 & H5 & H7).
  unfold print_response_test. rewrite H2, Ed, H5.
  destruct (ps_fail f s t rest nl [d] H3 H4) as [b [pos [E L]]].
  { cbn [concat]. rewrite app_nil_r. exact Hl. }
  rewrite E. cbn [negb]. eexists. split; [reflexivity|].
  apply fail_state; [exact H1|exact L|]. exact (BInv_6 _ _ _ _ _ _ _ HB H6).
Qed.

(* ---- next_format_var ---- *)
Lemma nfv_more : forall f c s t r nl bsz,
  BInv f c s t (0%N :: r) nl bsz -> S (g_index f s) < length (c_vars c) ->
  exists s2, next_format_var D f s = (s2, true) /\
    BInv f c s2 (t ++ [ch_COMMA]) r nl bsz /\
    g_var f s2 = S (g_index f s) /\ g_index f s2 = S (g_index f s) /\
    in_fmt_test f s2 = in_fmt_test f s.
Proof.
  intros f c s t r nl bsz (H1 & H2 & H3 & H4 & H5 & H6) Hi.
  unfold next_format_var. rewrite H2.
  apply Nat.ltb_lt in Hi. rewrite Hi.
  assert (E : g_bsz f (setg_index f (S (g_index f s)) s)
              <=? g_pos f (setg_index f (S (g_index f s)) s) = false).
  { apply Nat.leb_gt. destruct f; unfold g_bsz; cbn; cbn in H3, H4;
      rewrite H3, H4, app_length; cbn [length]; lia. }
  rewrite E. eexists. split; [reflexivity|].
  destruct f; unfold BInv; cbn; cbn in H3, H4; rewrite H3, H4, upd_app_mid, <- app_assoc; fin.
Qed.

Lemma nfv_last : forall f c s,
  cmd_of D f s = Some c -> length (c_vars c) <= S (g_index f s) ->
  next_format_var D f s = (setg_index f (S (g_index f s)) s, false).
Proof.
  intros f c s H2 Hi. unfold next_format_var. rewrite H2.
  apply Nat.ltb_ge in Hi. rewrite Hi. reflexivity.
Qed.

Lemma BInv_setidx : forall f c s t rest nl bsz i,
  BInv f c s t rest nl bsz -> BInv f c (setg_index f i s) t rest nl bsz.
Proof.
  intros f c s t rest nl bsz i (H1 & H2 & H3 & H4 & H5 & H6).
  destruct f; unfold BInv; repeat split; assumption.
Qed.

(* ---- format_test_args ---- *)
Definition TInv (f : fsm) (c : cmd) (s : state) (i : nat) (t rest nl : list N) (bsz : nat) : Prop :=
  BInv f c s t rest nl bsz /\ g_var f s = i /\ g_index f s = i /\ in_fmt_test f s = true.

Definition fta_rest (f : fsm) (s1 : state) : state :=
  let (s2, handled) := next_format_var D f s1 in
  if handled then s2
  else let (s3, ok3) := print_response_test D f s2 in
       if ok3 then s3 else end_with_error f s3.

Lemma fta_unfold : forall f c s v tn,
  cmd_of D f s = Some c -> nth_error (c_vars c) (g_var f s) = Some v ->
  type_name (v_type v) (v_size v) = Some tn ->
  format_test_args D f s
  = let (s1, ok) := print_strings f s (info_pieces v tn) in
    if negb ok then end_with_error f s1 else fta_rest f s1.
Proof.
  intros f c s v tn H H0 H1. unfold format_test_args, fmt_info, print_strings, fta_rest.
  rewrite H, H0, H1. destruct (print_pieces (get_cur f s) (info_pieces v tn)) as [c1 ok].
  reflexivity.
Qed.

Lemma info_pieces_cons : forall v tn, exists p ps, info_pieces v tn = p :: ps.
Proof. intros. unfold info_pieces. eauto. Qed.

Lemma fta_print_ok : forall f c s i t rest nl bsz v info,
  TInv f c s i t rest nl bsz -> nth_error (c_vars c) i = Some v ->
  var_info_text v = Some info -> length info < length rest ->
  exists s1 r', TInv f c s1 i (t ++ info) (0%N :: r') nl bsz /\
                length info + S (length r') = length rest /\
                format_test_args D f s = fta_rest f s1.
Proof.
  intros f c s i t rest nl bsz v info (HB & Hv & Hi & Hin) Hn Ht Hl.
  pose proof HB as (H1 & H2 & H3 & H4 & H5 & H6).
  unfold var_info_text in Ht.
  destruct (type_name (v_type v) (v_size v)) as [tn|] eqn:Etn; [|discriminate].
  assert (Ei0 : info = concat (info_pieces v tn)) by congruence. subst info. clear Ht.
  rewrite <- Hv in Hn.
  rewrite (fta_unfold f c s v tn H2 Hn Etn).
  destruct (info_pieces_cons v tn) as (p & ps & Ei). rewrite Ei in *.
  destruct (ps_ok f s t rest p ps H3 H4 Hl) as [r' [E L]]. rewrite E. cbn [negb].
  eexists. exists r'. split; [|split; [exact L|reflexivity]].
  unfold TInv. split; [apply (BInv_set f c s t rest); [exact HB|]|].
  - rewrite app_length. cbn [length]. lia.
  - destruct f; fin.
Qed.

Lemma fta_print_fail : forall f c s i t rest nl bsz v,
  TInv f c s i t rest nl bsz -> nth_error (c_vars c) i = Some v ->
  match var_info_text v with Some info => length rest <= length info | None => True end ->
  (f = ATCMD -> 6 <= bsz) ->
  TFail f (format_test_args D f s).
Proof.
  intros f c s i t rest nl bsz v (HB & Hv & Hi & Hin) Hn Ht H6.
  pose proof HB as (H1 & H2 & H3 & H4 & H5 & H7).
  pose proof (BInv_6 _ _ _ _ _ _ _ HB H6) as H6'.
  unfold var_info_text in Ht. rewrite <- Hv in Hn.
  destruct (type_name (v_type v) (v_size v)) as [tn|] eqn:Etn.
  - rewrite (fta_unfold f c s v tn H2 Hn Etn).
    destruct (info_pieces_cons v tn) as (p & ps & Ei). rewrite Ei in *.
    destruct (ps_fail f s t rest p ps H3 H4 Ht) as [b [pos [E L]]]. rewrite E. cbn [negb].
    apply fail_state; assumption.
  - unfold format_test_args, fmt_info. rewrite H2, Hn, Etn. cbn [negb].
    unfold put_cur, get_cur. cbn [cu_buf cu_pos cu_fault].
    apply fail_state; [assumption|reflexivity|assumption].
Qed.

Lemma fta_more : forall f c s i t rest nl bsz v info,
  TInv f c s i t rest nl bsz -> nth_error (c_vars c) i = Some v ->
  var_info_text v = Some info -> length info < length rest -> S i < length (c_vars c) ->
  exists r', TInv f c (format_test_args D f s) (S i) (t ++ info ++ [ch_COMMA]) r' nl bsz /\
             length info + S (length r') = length rest.
Proof.
  intros f c s i t rest nl bsz v info HT Hn Ht Hl Hi.
  destruct (fta_print_ok f c s i t rest nl bsz v info HT Hn Ht Hl) as (s1 & r' & HT1 & L & E).
  rewrite E. unfold fta_rest. destruct HT1 as (HB1 & Hv1 & Hi1 & Hin1).
  destruct (nfv_more f c s1 (t ++ info) r' nl bsz HB1) as (s2 & E2 & HB2 & Hv2 & Hi2 & Hin2).
  { rewrite Hi1. exact Hi. }
  rewrite E2. exists r'. split; [|exact L].
  unfold TInv. rewrite Hv2, Hi2, Hin2, Hi1, app_assoc. auto.
Qed.

Lemma fta_last_ok : forall f c s i t rest nl bsz v info,
  TInv f c s i t rest nl bsz -> nth_error (c_vars c) i = Some v ->
  var_info_text v = Some info -> length (c_vars c) <= S i ->
  length (info ++ descr_text c nl) < length rest ->
  TDone f c (format_test_args D f s) (t ++ info ++ descr_text c nl) bsz.
Proof.
  intros f c s i t rest nl bsz v info HT Hn Ht Hi Hl. rewrite app_length in Hl.
  destruct (fta_print_ok f c s i t rest nl bsz v info HT Hn Ht) as (s1 & r' & HT1 & L & E);
    [lia|].
  rewrite E. unfold fta_rest. destruct HT1 as (HB1 & Hv1 & Hi1 & Hin1).
  pose proof HB1 as (_ & H2 & _).
  rewrite (nfv_last f c s1 H2) by (rewrite Hi1; exact Hi).
  destruct (prt_ok f c _ _ _ _ _ (BInv_setidx _ _ _ _ _ _ _ (S (g_index f s1)) HB1))
    as (s3 & E3 & HD & _); [lia|].
  rewrite E3, app_assoc. exact HD.
Qed.

Lemma fta_last_fail : forall f c s i t rest nl bsz v info,
  TInv f c s i t rest nl bsz -> nth_error (c_vars c) i = Some v ->
  var_info_text v = Some info -> length (c_vars c) <= S i ->
  length rest <= length (info ++ descr_text c nl) -> (f = ATCMD -> 6 <= bsz) ->
  TFail f (format_test_args D f s).
Proof.
  intros f c s i t rest nl bsz v info HT Hn Ht Hi Hl H6. rewrite app_length in Hl.
  destruct (Nat.lt_ge_cases (length info) (length rest)) as [Hlt|Hge].
  - destruct (fta_print_ok f c s i t rest nl bsz v info HT Hn Ht Hlt) as (s1 & r' & HT1 & L & E).
    rewrite E. unfold fta_rest. destruct HT1 as (HB1 & Hv1 & Hi1 & Hin1).
    pose proof HB1 as (_ & H2 & _).
    rewrite (nfv_last f c s1 H2) by (rewrite Hi1; exact Hi).
    unfold descr_text in Hl. destruct (c_descr c) as [d|] eqn:Ed.
    + destruct (prt_fail f c _ _ _ _ _ d (BInv_setidx _ _ _ _ _ _ _ (S (g_index f s1)) HB1) Ed)
        as (s3 & E3 & HF); [cbn [length] in *; lia|exact H6|].
      rewrite E3. exact HF.
    + cbn [length] in Hl. lia.
  - apply (fta_print_fail f c s i t rest nl bsz v HT Hn); [|exact H6].
    rewrite Ht. exact Hge.
Qed.

(* ---- the loop over the variables ---- *)
Lemma all_some_cons : forall v vs infos,
  all_some (map var_info_text (v :: vs)) = Some infos ->
  exists info infos', infos = info :: infos' /\ var_info_text v = Some info /\
                      all_some (map var_info_text vs) = Some infos'.
Proof.
  intros v vs infos H. cbn [map all_some] in H.
  destruct (var_info_text v) as [info|]; [|discriminate].
  destruct (all_some (map var_info_text vs)) as [infos'|]; [|discriminate].
  exists info, infos'. repeat split; congruence.
Qed.

Lemma nth_mid : forall (A : Type) (pre : list A) v vs, nth_error (pre ++ v :: vs) (length pre) = Some v.
Proof. intros. rewrite nth_error_app2, Nat.sub_diag by lia. reflexivity. Qed.

Lemma fmt_test_run_S : forall n f s,
  fmt_test_run D (S n) f s
  = if in_fmt_test f s then fmt_test_run D n f (format_test_args D f s) else s.
Proof. reflexivity. Qed.

Lemma loop_ok : forall f c nl bsz vs v pre s t rest infos,
  c_vars c = pre ++ v :: vs -> TInv f c s (length pre) t rest nl bsz ->
  all_some (map var_info_text (v :: vs)) = Some infos ->
  length (join_comma infos ++ descr_text c nl) < length rest ->
  TDone f c (fmt_test_run D (length (v :: vs)) f s)
        (t ++ join_comma infos ++ descr_text c nl) bsz.
Proof.
  intros f c nl bsz.
  induction vs as [|v2 vs IH]; intros v pre s t rest infos Hc HT Ha Hl;
    destruct (all_some_cons _ _ _ Ha) as (info & infos' & -> & Hi & Ha');
    pose proof (nth_mid _ pre v) as Hn;
    pose proof HT as (_ & _ & _ & Hin);
    match goal with |- context [fmt_test_run D (length (?a :: ?b)) _ _] =>
      change (length (a :: b)) with (S (length b)) end;
    rewrite fmt_test_run_S, Hin.
  - specialize (Hn []). rewrite <- Hc in Hn.
    cbn [map all_some] in Ha'. injection Ha' as <-.
    cbn [join_comma map concat] in *. rewrite app_nil_r in *. cbn [length fmt_test_run].
    apply (fta_last_ok f c s (length pre) t rest nl bsz v info HT Hn Hi); [|exact Hl].
    rewrite Hc, app_length. cbn [length]. lia.
  - specialize (Hn (v2 :: vs)). rewrite <- Hc in Hn.
    destruct (all_some_cons _ _ _ Ha') as (info2 & infos2 & -> & Hi2 & Ha2).
    cbn [join_comma map concat] in *.
    rewrite !app_length in Hl. cbn [length] in Hl. rewrite ?app_length in Hl.
    destruct (fta_more f c s (length pre) t rest nl bsz v info HT Hn Hi) as (r' & HT' & L);
      [lia| rewrite Hc, app_length; cbn [length]; lia |].
    specialize (IH v2 (pre ++ [v]) (format_test_args D f s) (t ++ info ++ [ch_COMMA]) r'
                   (info2 :: infos2)).
    replace (length (pre ++ [v])) with (S (length pre)) in IH
      by (rewrite app_length; cbn [length]; lia).
    cbn [join_comma] in IH. cbn [length] in IH.
    replace (t ++ (info ++ (ch_COMMA :: info2) ++ concat (map (fun y => ch_COMMA :: y) infos2))
               ++ descr_text c nl)
      with ((t ++ info ++ [ch_COMMA]) ++
            (info2 ++ concat (map (fun y => ch_COMMA :: y) infos2)) ++ descr_text c nl).
    2:{ rewrite <- !app_assoc. reflexivity. }
    apply IH.
    + rewrite Hc, <- app_assoc. reflexivity.
    + exact HT'.
    + cbn [map all_some]. rewrite Hi2, Ha2. reflexivity.
    + rewrite !app_length. lia.
Qed.

Lemma loop_fail : forall f c nl bsz, (f = ATCMD -> 6 <= bsz) ->
  forall vs v pre s t rest,
  c_vars c = pre ++ v :: vs -> TInv f c s (length pre) t rest nl bsz ->
  match all_some (map var_info_text (v :: vs)) with
  | Some infos => length rest <= length (join_comma infos ++ descr_text c nl)
  | None => True
  end ->
  TFail f (fmt_test_run D (length (v :: vs)) f s).
Proof.
  intros f c nl bsz H6.
  induction vs as [|v2 vs IH]; intros v pre s t rest Hc HT Ha;
    pose proof (nth_mid _ pre v) as Hn;
    pose proof HT as (_ & _ & _ & Hin);
    match goal with |- context [fmt_test_run D (length (?a :: ?b)) _ _] =>
      change (length (a :: b)) with (S (length b)) end;
    rewrite fmt_test_run_S, Hin.
  - specialize (Hn []). rewrite <- Hc in Hn. cbn [length fmt_test_run].
    cbn [map all_some] in Ha.
    destruct (var_info_text v) as [info|] eqn:Hi.
    + cbn [join_comma map concat] in Ha. rewrite app_nil_r in Ha.
      apply (fta_last_fail f c s (length pre) t rest nl bsz v info HT Hn Hi); [|exact Ha|exact H6].
      rewrite Hc, app_length. cbn [length]. lia.
    + apply (fta_print_fail f c s (length pre) t rest nl bsz v HT Hn); [|exact H6].
      rewrite Hi. exact I.
  - specialize (Hn (v2 :: vs)). rewrite <- Hc in Hn.
    assert (Hstop : TFail f (format_test_args D f s) ->
                    TFail f (fmt_test_run D (length (v2 :: vs)) f (format_test_args D f s))).
    { intros HF. rewrite fmt_test_run_stop; [exact HF|apply HF]. }
    change (map var_info_text (v :: v2 :: vs))
      with (var_info_text v :: map var_info_text (v2 :: vs)) in Ha.
    cbn [all_some] in Ha.
    destruct (var_info_text v) as [info|] eqn:Hi.
    2:{ apply Hstop. apply (fta_print_fail f c s (length pre) t rest nl bsz v HT Hn); [|exact H6].
        rewrite Hi. exact I. }
    destruct (Nat.lt_ge_cases (length info) (length rest)) as [Hlt|Hge].
    2:{ apply Hstop. apply (fta_print_fail f c s (length pre) t rest nl bsz v HT Hn); [|exact H6].
        rewrite Hi. exact Hge. }
    destruct (fta_more f c s (length pre) t rest nl bsz v info HT Hn Hi Hlt) as (r' & HT' & L).
    { rewrite Hc, app_length. cbn [length]. lia. }
    specialize (IH v2 (pre ++ [v]) (format_test_args D f s) (t ++ info ++ [ch_COMMA]) r').
    replace (length (pre ++ [v])) with (S (length pre)) in IH
      by (rewrite app_length; cbn [length]; lia).
    apply IH.
    + rewrite Hc, <- app_assoc. reflexivity.
    + exact HT'.
    + destruct (all_some (map var_info_text (v2 :: vs))) as [infos'|] eqn:Ha'; [|exact I].
      destruct (all_some_cons _ _ _ Ha') as (info2 & infos2 & -> & _ & _).
      cbn [join_comma map concat] in *.
      rewrite !app_length in Ha. cbn [length] in Ha. rewrite ?app_length in Ha.
      rewrite !app_length. lia.
Qed.

(* ---- the whole response ---- *)
Lemma BInv_start : forall f s ci c,
  g_cmd f s = Some ci -> nth_error (pool D) ci = Some c -> fault s = false ->
  BInv f c (setg_pos f 0 s) [] (g_buf f s) (nl_chars s) (length (g_buf f s)).
Proof.
  intros f s ci c Hg Hc Hf. unfold BInv, cmd_of.
  destruct f; cbn in *; rewrite Hg; repeat split; assumption.
Qed.

Lemma test_ok : forall f s ci c infos,
  g_cmd f s = Some ci -> nth_error (pool D) ci = Some c -> fault s = false ->
  all_some (map var_info_text (c_vars c)) = Some infos ->
  length (c_name c ++ [ch_EQ] ++ join_comma infos ++ descr_text c (nl_chars s))
    < length (g_buf f s) ->
  TDone f c (test_response D f c s)
        (c_name c ++ [ch_EQ] ++ join_comma infos ++ descr_text c (nl_chars s))
        (length (g_buf f s)).
Proof.
  intros f s ci c infos Hg Hc Hf Ha Hl.
  pose proof (BInv_start f s ci c Hg Hc Hf) as HB0.
  unfold test_response, start_processing_format_test_args. cbv zeta.
  set (s0 := setg_pos f 0 s) in *. set (nl := nl_chars s) in *. set (bsz := length (g_buf f s)) in *.
  pose proof HB0 as (_ & H2 & H3 & H4 & _). rewrite H2.
  rewrite !app_length in Hl. cbn [length] in Hl.
  rewrite print_string_as_strings.
  destruct (ps_ok f s0 [] (g_buf f s) (c_name c) [] H3 H4) as [r1 [E1 L1]].
  { cbn [concat]. rewrite app_nil_r. lia. }
  rewrite E1. cbn [negb]. cbn [concat app] in E1, L1 |- *. rewrite app_nil_r in *.
  assert (HB1 : BInv f c (setg_pos f (length (c_name c)) (setg_buf f (c_name c ++ 0%N :: r1) s0))
                     (c_name c) (0%N :: r1) nl bsz).
  { apply (BInv_set f c s0 [] (g_buf f s)); [exact HB0|]. cbn [length] in *. lia. }
  set (s1 := setg_pos f (length (c_name c)) (setg_buf f (c_name c ++ 0%N :: r1) s0)) in *.
  pose proof HB1 as (_ & H2' & H3' & H4' & _).
  rewrite print_string_as_strings.
  destruct (ps_ok f s1 (c_name c) (0%N :: r1) [ch_EQ] [] H3' H4') as [r2 [E2 L2]].
  { cbn [concat app length] in *. lia. }
  rewrite E2. cbn [negb]. cbn [concat app] in E2, L2 |- *.
  assert (HB2 : BInv f c (setg_pos f (length (c_name c ++ [ch_EQ]))
                            (setg_buf f ((c_name c ++ [ch_EQ]) ++ 0%N :: r2) s1))
                     (c_name c ++ [ch_EQ]) (0%N :: r2) nl bsz).
  { apply (BInv_set f c s1 (c_name c) (0%N :: r1)); [exact HB1|].
    rewrite app_length. cbn [length] in *. lia. }
  set (s2 := setg_pos f (length (c_name c ++ [ch_EQ]))
               (setg_buf f ((c_name c ++ [ch_EQ]) ++ 0%N :: r2) s1)) in *.
  replace (c_name c ++ ch_EQ :: join_comma infos ++ descr_text c nl)
    with ((c_name c ++ [ch_EQ]) ++ join_comma infos ++ descr_text c nl)
    by (rewrite <- app_assoc; reflexivity).
  destruct (c_vars c) as [|v vs] eqn:Ev.
  - cbn [map all_some] in Ha. injection Ha as <-. cbn [join_comma app] in *.
    destruct (prt_ok f c s2 _ _ _ _ HB2) as (s3 & E3 & HD & _).
    { cbn [length] in *. lia. }
    rewrite E3. cbn [length fmt_test_run]. exact HD.
  - apply (loop_ok f c nl bsz vs v [] _ (c_name c ++ [ch_EQ]) (0%N :: r2) infos Ev).
    + unfold TInv. destruct f; unfold BInv in *; fin.
    + exact Ha.
    + rewrite !app_length. cbn [length] in *. lia.
Qed.

Lemma test_fail : forall f s ci c,
  g_cmd f s = Some ci -> nth_error (pool D) ci = Some c -> fault s = false ->
  (f = ATCMD -> 6 <= length (g_buf f s)) ->
  match all_some (map var_info_text (c_vars c)) with
  | Some infos =>
    length (g_buf f s)
    <= length (c_name c ++ [ch_EQ] ++ join_comma infos ++ descr_text c (nl_chars s))
  | None => True
  end ->
  TFail f (test_response D f c s).
Proof.
  intros f s ci c Hg Hc Hf H6 Ha.
  pose proof (BInv_start f s ci c Hg Hc Hf) as HB0.
  unfold test_response, start_processing_format_test_args. cbv zeta.
  set (s0 := setg_pos f 0 s) in *. set (nl := nl_chars s) in *. set (bsz := length (g_buf f s)) in *.
  pose proof HB0 as (Hf0 & H2 & H3 & H4 & _). rewrite H2.
  assert (Hstop : forall n x, TFail f x -> TFail f (fmt_test_run D n f x)).
  { intros n x HF. rewrite fmt_test_run_stop; [exact HF|apply HF]. }
  rewrite print_string_as_strings.
  destruct (Nat.lt_ge_cases (length (c_name c)) bsz) as [Hlt|Hge].
  2:{ destruct (ps_fail f s0 [] (g_buf f s) (c_name c) [] H3 H4) as [b [pos [E L]]].
      { cbn [concat]. rewrite app_nil_r. exact Hge. }
      rewrite E. cbn [negb]. apply Hstop. apply fail_state; [exact Hf0|exact L|].
      exact (BInv_6 _ _ _ _ _ _ _ HB0 H6). }
  destruct (ps_ok f s0 [] (g_buf f s) (c_name c) [] H3 H4) as [r1 [E1 L1]].
  { cbn [concat]. rewrite app_nil_r. exact Hlt. }
  rewrite E1. cbn [negb]. cbn [concat app] in E1, L1 |- *. rewrite app_nil_r in *.
  assert (HB1 : BInv f c (setg_pos f (length (c_name c)) (setg_buf f (c_name c ++ 0%N :: r1) s0))
                     (c_name c) (0%N :: r1) nl bsz).
  { apply (BInv_set f c s0 [] (g_buf f s)); [exact HB0|]. cbn [length] in *. lia. }
  set (s1 := setg_pos f (length (c_name c)) (setg_buf f (c_name c ++ 0%N :: r1) s0)) in *.
  pose proof HB1 as (Hf1 & H2' & H3' & H4' & _).
  rewrite print_string_as_strings.
  destruct (Nat.lt_ge_cases 1 (length (0%N :: r1))) as [Hlt2|Hge2].
  2:{ destruct (ps_fail f s1 (c_name c) (0%N :: r1) [ch_EQ] [] H3' H4') as [b [pos [E L]]].
      { cbn [concat app length] in *. lia. }
      rewrite E. cbn [negb]. apply Hstop. apply fail_state; [exact Hf1|exact L|].
      exact (BInv_6 _ _ _ _ _ _ _ HB1 H6). }
  destruct (ps_ok f s1 (c_name c) (0%N :: r1) [ch_EQ] [] H3' H4') as [r2 [E2 L2]].
  { cbn [concat app length] in *. lia. }
  rewrite E2. cbn [negb]. cbn [concat app] in E2, L2 |- *.
  assert (HB2 : BInv f c (setg_pos f (length (c_name c ++ [ch_EQ]))
                            (setg_buf f ((c_name c ++ [ch_EQ]) ++ 0%N :: r2) s1))
                     (c_name c ++ [ch_EQ]) (0%N :: r2) nl bsz).
  { apply (BInv_set f c s1 (c_name c) (0%N :: r1)); [exact HB1|].
    rewrite app_length. cbn [length] in *. lia. }
  set (s2 := setg_pos f (length (c_name c ++ [ch_EQ]))
               (setg_buf f ((c_name c ++ [ch_EQ]) ++ 0%N :: r2) s1)) in *.
  destruct (c_vars c) as [|v vs] eqn:Ev.
  - cbn [map all_some] in Ha. cbn [join_comma app] in Ha.
    rewrite app_length in Ha. cbn [length] in Ha.
    unfold descr_text in Ha. destruct (c_descr c) as [d|] eqn:Ed.
    + destruct (prt_fail f c s2 _ _ _ _ d HB2 Ed) as (s3 & E3 & HF); [|exact H6|].
      { cbn [length] in *. lia. }
      rewrite E3. cbn [length fmt_test_run]. exact HF.
    + cbn [length] in *. lia.
  - apply (loop_fail f c nl bsz H6 vs v [] _ (c_name c ++ [ch_EQ]) (0%N :: r2) Ev).
    + unfold TInv. destruct f; unfold BInv in *; fin.
    + destruct (all_some (map var_info_text (v :: vs))) as [infos|]; [|exact I].
      rewrite !app_length in *. cbn [length] in *. lia.
Qed.

Theorem C19_test_text_proof : forall f s ci c,
  g_cmd f s = Some ci -> nth_error (pool D) ci = Some c -> fault s = false ->
  let s' := test_response D f c s in
  let bsz := length (g_buf f s) in
  match spec_test_text c (nl_chars s) with
  | Some txt =>
    if length txt <? bsz
    then fault s' = false /\ (~ In 0%N txt -> text_of (g_buf f s') = txt) /\ test_done f c s' /\
         (c_htest c = true -> g_pos f s' = length txt)
    else (f = ATCMD -> 6 <= length (cbuf s)) -> fault s' = false /\ test_failed f s'
  | None => (f = ATCMD -> 6 <= length (cbuf s)) -> fault s' = false /\ test_failed f s'
  end.
Proof.
  intros f s ci c Hg Hc Hf s' bsz. subst s' bsz. unfold spec_test_text.
  assert (H6' : (f = ATCMD -> 6 <= length (cbuf s)) -> (f = ATCMD -> 6 <= length (g_buf f s))).
  { intros H E. subst f. exact (H eq_refl). }
  destruct (all_some (map var_info_text (c_vars c))) as [infos|] eqn:Ha.
  - fold (descr_text c (nl_chars s)).
    destruct (Nat.ltb_spec (length (c_name c ++ [ch_EQ] ++ join_comma infos ++ descr_text c (nl_chars s)))
                           (length (g_buf f s))) as [Hlt|Hge].
    + destruct (test_ok f s ci c infos Hg Hc Hf Ha Hlt) as (D1 & (r & D2) & D3 & D4 & D5).
      repeat split; try assumption.
      intros Hn. rewrite D2. apply text_of_app0. exact Hn.
    + intros H6. destruct (test_fail f s ci c Hg Hc Hf (H6' H6)) as (F1 & F2 & _).
      { rewrite Ha. exact Hge. }
      split; assumption.
  - intros H6. destruct (test_fail f s ci c Hg Hc Hf (H6' H6)) as (F1 & F2 & _).
    { rewrite Ha. exact I. }
    split; assumption.
Qed.

(* ================= 4. the command list ================= *)

Lemma cmd_by_index_concat : forall gs i, cmd_by_index gs i = nth_error (concat gs) i.
Proof.
  induction gs as [|g gs IH]; intros i; cbn [cmd_by_index concat].
  - destruct i; reflexivity.
  - destruct (Nat.ltb_spec i (length g)) as [H|H].
    + rewrite nth_error_app1 by exact H. reflexivity.
    + rewrite nth_error_app2 by exact H. apply IH.
Qed.

Ltac sst :=
  cbn [k u cbuf ubuf mem dis_cmd dis_grp fault gL gS gR
       k_index k_partial k_length k_position k_write_size k_cmd k_var k_type k_char k_state
       k_cr k_hold k_hold_exit k_wbuf k_wstate k_wafter k_implicit
       set_k set_cbuf set_fault set_gS
       set_k_index set_k_length set_k_position set_k_cmd set_k_type set_k_state
       set_k_wbuf set_k_wstate set_k_wafter
       setk_index setk_length setk_position setk_cmd setk_type setk_state
       setk_wbuf setk_wstate setk_wafter
       g_buf g_pos setg_buf setg_pos start_flush_raw_c start_flush_c].

(* s0 = the state in which the listing was requested *)
Definition LInv (s0 s : state) (i : nat) (ty : ctype) (first : bool) : Prop :=
  fault s = false /\ k_state (k s) = CS_PRINT_CMD /\ k_index (k s) = i /\ k_type (k s) = ty /\
  (k_length (k s) =? 0) = first /\ length (cbuf s) = length (cbuf s0) /\
  k_cr (k s) = k_cr (k s0) /\ dis_cmd s = dis_cmd s0 /\ dis_grp s = dis_grp s0.

Definition EndState (txt : list N) (s : state) : Prop :=
  fault s = false /\ k_state (k s) = CS_FLUSH_WAIT /\ k_wafter (k s) = CS_AFTER_RESET /\
  text_of (cbuf s) = txt.

Definition cmd_line (c : cmd) (nl : list N) (first : bool) (sfx : list N) : list N :=
  (if first then nl else []) ++ txt_AT ++ c_name c ++ sfx ++ nl.

Lemma nl_chars_eq : forall s s0, k_cr (k s) = k_cr (k s0) -> nl_chars s = nl_chars s0.
Proof. intros s s0 H. unfold nl_chars. rewrite H. reflexivity. Qed.

Lemma not_in_nl : forall s, ~ In 0%N (nl_chars s).
Proof.
  intros s. unfold nl_chars. destruct (k_cr (k s)); cbn [In]; intros H;
    repeat (destruct H as [H|H]; [discriminate H|]); exact H.
Qed.

Lemma not_in_app : forall (a b : list N), ~ In 0%N a -> ~ In 0%N b -> ~ In 0%N (a ++ b).
Proof. intros a b Ha Hb H. apply in_app_or in H. tauto. Qed.

Lemma not_in_AT : ~ In 0%N txt_AT.
Proof. unfold txt_AT. cbn [In]. intros H. repeat (destruct H as [H|H]; [discriminate H|]). exact H. Qed.

Lemma not_in_suffix : forall fm, ~ In 0%N (form_suffix fm).
Proof.
  intros fm. destruct fm; cbn [form_suffix In]; intros H;
    repeat (destruct H as [H|H]; [discriminate H|]); exact H.
Qed.

Lemma not_in_line : forall c s0 first fm, ~ In 0%N (c_name c) ->
  ~ In 0%N (cmd_line c (nl_chars s0) first (form_suffix fm)).
Proof.
  intros. unfold cmd_line. repeat apply not_in_app; try assumption.
  - destruct first; [apply not_in_nl|intros []].
  - apply not_in_AT.
  - apply not_in_suffix.
  - apply not_in_nl.
Qed.

Lemma pcf_ok : forall s0 s i ty first c sfx next,
  LInv s0 s i ty first -> ~ In 0%N (cmd_line c (nl_chars s0) first sfx) ->
  length (cmd_line c (nl_chars s0) first sfx) < length (cbuf s0) ->
  let s1 := print_cmd_form s c true sfx next in
  k_state (k s1) = CS_FLUSH_WAIT /\ k_wafter (k s1) = CS_PRINT_CMD /\
  text_of (cbuf s1) = cmd_line c (nl_chars s0) first sfx /\
  LInv s0 (setk_state CS_PRINT_CMD s1) i next false.
Proof.
  intros s0 s i ty first c sfx next (Hf & Hst & Hi & Hty & Hkl & Hlen & Hcr & Hdc & Hdg) Hn0 Hl.
  unfold cmd_line in *. rewrite <- Hlen in Hl.
  unfold print_cmd_form, print_current_cmd_full_name. cbv zeta.
  change (k_length (k (setk_position 0 s))) with (k_length (k s)). rewrite Hkl.
  destruct first.
  - rewrite print_string_as_strings.
    rewrite (nl_chars_eq (setk_position 0 s) s0) by exact Hcr.
    destruct (ps_ok ATCMD (setk_position 0 s) [] (cbuf s) (nl_chars s0) [] eq_refl eq_refl)
      as [r1 [E1 L1]].
    { cbn [concat]. rewrite !app_length in *. cbn [length]. lia. }
    rewrite E1. cbn [negb]. cbn [concat app] in E1, L1 |- *. rewrite app_nil_r in *.
    match goal with |- context [nl_chars (setk_length 1 ?x)] =>
      rewrite (nl_chars_eq (setk_length 1 x) s0) by exact Hcr end.
    match goal with |- context [print_strings ATCMD ?x (?p :: ?ps)] =>
      destruct (ps_ok ATCMD x (nl_chars s0) (0%N :: r1) p ps eq_refl eq_refl) as [r2 [E2 L2]] end.
    { cbn [concat length] in *. rewrite !app_length in *. cbn [length] in *. lia. }
    rewrite E2. cbn [negb]. cbn [concat] in E2, L2 |- *. rewrite app_nil_r in *.
    repeat split; try reflexivity; sst; try assumption.
    + apply text_of_app0. exact Hn0.
    + rewrite !app_length in *. cbn [length] in *. lia.
  - match goal with |- context [nl_chars (setk_position 0 ?x)] =>
      rewrite (nl_chars_eq (setk_position 0 x) s0) by exact Hcr end.
    cbn [negb].
    match goal with |- context [print_strings ATCMD ?x (?p :: ?ps)] =>
      destruct (ps_ok ATCMD x [] (cbuf s) p ps eq_refl eq_refl) as [r2 [E2 L2]] end.
    { cbn [concat length app] in *. rewrite !app_length in *. cbn [length] in *. lia. }
    rewrite E2. cbn [negb]. cbn [concat app] in E2, L2 |- *. rewrite app_nil_r in *.
    repeat split; try reflexivity; sst; try assumption.
    + apply text_of_app0. exact Hn0.
    + rewrite !app_length in *. cbn [length] in *. lia.
Qed.

Lemma ack_error_end : forall s, fault s = false -> 6 <= length (cbuf s) ->
  EndState txt_ERROR (ack_error s).
Proof.
  intros s Hf H. destruct (ack_error_props s H) as (A1 & A2 & A3 & A4).
  unfold EndState. rewrite A1, A2, A3, A4. repeat split; try reflexivity. exact Hf.
Qed.

Lemma ack_ok_end : forall s, fault s = false -> 6 <= length (cbuf s) ->
  EndState txt_OK (ack_ok s).
Proof.
  intros s Hf H. destruct (ack_ok_props s H) as (A1 & A2 & A3 & A4).
  unfold EndState. rewrite A1, A2, A3, A4. repeat split; try reflexivity. exact Hf.
Qed.

Lemma pcf_fail : forall s0 s i ty first c sfx next,
  LInv s0 s i ty first -> 6 <= length (cbuf s0) ->
  length (cbuf s0) <= length (cmd_line c (nl_chars s0) first sfx) ->
  EndState txt_ERROR (print_cmd_form s c true sfx next).
Proof.
  intros s0 s i ty first c sfx next (Hf & Hst & Hi & Hty & Hkl & Hlen & Hcr & Hdc & Hdg) H6 Hl.
  unfold cmd_line in *. rewrite <- Hlen in Hl, H6.
  unfold print_cmd_form, print_current_cmd_full_name. cbv zeta.
  change (k_length (k (setk_position 0 s))) with (k_length (k s)). rewrite Hkl.
  destruct first.
  - rewrite print_string_as_strings.
    rewrite (nl_chars_eq (setk_position 0 s) s0) by exact Hcr.
    destruct (Nat.lt_ge_cases (length (nl_chars s0)) (length (cbuf s))) as [Hlt|Hge].
    + destruct (ps_ok ATCMD (setk_position 0 s) [] (cbuf s) (nl_chars s0) [] eq_refl eq_refl)
        as [r1 [E1 L1]].
      { cbn [concat]. rewrite !app_length in *. cbn [length]. lia. }
      rewrite E1. cbn [negb]. cbn [concat app] in E1, L1 |- *. rewrite app_nil_r in *.
      match goal with |- context [nl_chars (setk_length 1 ?x)] =>
        rewrite (nl_chars_eq (setk_length 1 x) s0) by exact Hcr end.
      match goal with |- context [print_strings ATCMD ?x (?p :: ?ps)] =>
        destruct (ps_fail ATCMD x (nl_chars s0) (0%N :: r1) p ps eq_refl eq_refl)
          as [b [pos [E2 L2]]] end.
      { cbn [concat length] in *. rewrite !app_length in *. cbn [length] in *. lia. }
      rewrite E2. cbn [negb]. apply ack_error_end; sst; [exact Hf|].
      rewrite L2. sst. rewrite !app_length in *. cbn [length] in *. lia.
    + destruct (ps_fail ATCMD (setk_position 0 s) [] (cbuf s) (nl_chars s0) [] eq_refl eq_refl)
        as [b [pos [E1 L1]]].
      { cbn [concat]. rewrite !app_length in *. cbn [length]. lia. }
      rewrite E1. cbn [negb]. apply ack_error_end; sst; [exact Hf|].
      rewrite L1. sst. exact H6.
  - match goal with |- context [nl_chars (setk_position 0 ?x)] =>
      rewrite (nl_chars_eq (setk_position 0 x) s0) by exact Hcr end.
    cbn [negb].
    match goal with |- context [print_strings ATCMD ?x (?p :: ?ps)] =>
      destruct (ps_fail ATCMD x [] (cbuf s) p ps eq_refl eq_refl) as [b [pos [E2 L2]]] end.
    { cbn [concat length app] in *. rewrite !app_length in *. cbn [length] in *. lia. }
    rewrite E2. cbn [negb]. apply ack_error_end; sst; [exact Hf|].
    rewrite L2. sst. exact H6.
Qed.

(* ---- one call of print_cmd_list ---- *)
Definition ty_of (fm : form) : ctype :=
  match fm with F_RUN => T_RUN | F_READ => T_READ | F_WRITE => T_WRITE | F_TEST => T_TEST end.
Definition next_of (fm : form) : ctype :=
  match fm with F_RUN => T_READ | F_READ => T_WRITE | F_WRITE => T_TEST | F_TEST => T_TOTAL end.
Definition avail (c : cmd) (fm : form) : bool :=
  match fm with
  | F_RUN => c_hrun c
  | F_READ => c_hread c || vars_access_possible c RO
  | F_WRITE => c_hwrite c || vars_access_possible c WO
  | F_TEST => c_htest c || match c_vars c with [] => false | _ => true end
  end.

Lemma cstate_beq_refl : forall x, cstate_beq x x = true.
Proof. destruct x; reflexivity. Qed.

Lemma LInv_setcmd : forall s0 s i ty first x,
  LInv s0 s i ty first -> LInv s0 (setk_cmd x s) i ty first.
Proof. intros s0 s i ty first x H. exact H. Qed.

Lemma pcl_form : forall s0 s i fm first c,
  LInv s0 s i (ty_of fm) first -> nth_error (cmds D) i = Some c ->
  print_cmd_list D s
  = print_cmd_form (setk_cmd (Some i) s) c (avail c fm) (form_suffix fm) (next_of fm).
Proof.
  intros s0 s i fm first c (Hf & Hst & Hi & Hty & _) Hn.
  unfold print_cmd_list. rewrite Hi, cmd_by_index_concat.
  change (concat (d_groups D)) with (cmds D). rewrite Hn. cbv zeta.
  change (k_type (k (setk_cmd (Some i) s))) with (k_type (k s)). rewrite Hty.
  destruct fm; reflexivity.
Qed.

Lemma list_run_S : forall n s acc,
  list_run D (S n) s acc =
  if cstate_beq (k_state (k s)) CS_PRINT_CMD then
    let s1 := print_cmd_list D s in
    if cstate_beq (k_state (k s1)) CS_FLUSH_WAIT && cstate_beq (k_wafter (k s1)) CS_PRINT_CMD
    then list_run D n (setk_state CS_PRINT_CMD s1) (acc ++ [text_of (cbuf s1)])
    else list_run D n s1 acc
  else (acc, s).
Proof. reflexivity. Qed.

Lemma list_run_stop : forall n s acc, k_state (k s) = CS_FLUSH_WAIT -> list_run D n s acc = (acc, s).
Proof. intros [|n] s acc H; [reflexivity|]. rewrite list_run_S, H. reflexivity. Qed.

Lemma run_form : forall s0 s i fm first c,
  LInv s0 s i (ty_of fm) first -> nth_error (cmds D) i = Some c -> ~ In 0%N (c_name c) ->
  6 <= length (cbuf s0) ->
  if avail c fm then
    if length (cmd_line c (nl_chars s0) first (form_suffix fm)) <? length (cbuf s0)
    then exists s2, LInv s0 s2 i (next_of fm) false /\
           forall fuel acc, list_run D (S fuel) s acc
             = list_run D fuel s2 (acc ++ [cmd_line c (nl_chars s0) first (form_suffix fm)])
    else exists s2, EndState txt_ERROR s2 /\
           forall fuel acc, list_run D (S fuel) s acc = (acc, s2)
  else exists s2, LInv s0 s2 i (next_of fm) first /\
         forall fuel acc, list_run D (S fuel) s acc = list_run D fuel s2 acc.
Proof.
  intros s0 s i fm first c HL Hn Hn0 H6.
  pose proof HL as (Hf & Hst & Hi & Hty & Hkl & Hlen & Hcr & Hdc & Hdg).
  pose proof (pcl_form s0 s i fm first c HL Hn) as Epcl.
  destruct (avail c fm) eqn:Eav.
  - destruct (Nat.ltb_spec (length (cmd_line c (nl_chars s0) first (form_suffix fm)))
                           (length (cbuf s0))) as [Hlt|Hge].
    + destruct (pcf_ok s0 (setk_cmd (Some i) s) i (ty_of fm) first c (form_suffix fm) (next_of fm))
        as (P1 & P2 & P3 & P4).
      { apply LInv_setcmd. exact HL. }
      { apply not_in_line. exact Hn0. }
      { exact Hlt. }
      eexists. split; [exact P4|]. intros fuel acc.
      rewrite list_run_S, Hst, cstate_beq_refl. cbv zeta. rewrite Epcl, P1, P2, P3.
      rewrite !cstate_beq_refl. reflexivity.
    + pose proof (pcf_fail s0 (setk_cmd (Some i) s) i (ty_of fm) first c (form_suffix fm) (next_of fm)
                           (LInv_setcmd _ _ _ _ _ _ HL) H6 Hge) as HE.
      eexists. split; [exact HE|]. intros fuel acc.
      destruct HE as (E1 & E2 & E3 & E4).
      rewrite list_run_S, Hst, cstate_beq_refl. cbv zeta. rewrite Epcl, E2, E3.
      cbn [cstate_beq andb]. apply list_run_stop. exact E2.
  - exists (setk_type (next_of fm) (setk_cmd (Some i) s)). split.
    + unfold LInv. sst. repeat split; assumption.
    + intros fuel acc. rewrite list_run_S, Hst, cstate_beq_refl. cbv zeta. rewrite Epcl.
      unfold print_cmd_form. sst. rewrite Hst. reflexivity.
Qed.

(* ---- moving to the next command ---- *)
Definition NextState (s0 : state) (i : nat) (s2 : state) : Prop :=
  if S i <? ncmds D then LInv s0 s2 (S i) T_NONE true else EndState txt_OK s2.

Lemma NextState_quiet : forall s0 i s2, NextState s0 i s2 ->
  cstate_beq (k_state (k s2)) CS_FLUSH_WAIT && cstate_beq (k_wafter (k s2)) CS_PRINT_CMD = false.
Proof.
  intros s0 i s2 H. unfold NextState in H. destruct (S i <? ncmds D).
  - destruct H as (_ & -> & _). reflexivity.
  - destruct H as (_ & -> & -> & _). reflexivity.
Qed.

Lemma next_cmd : forall s0 s i ty first,
  LInv s0 s i ty first -> 6 <= length (cbuf s0) ->
  NextState s0 i (let (s1, more) := cmd_list_next_cmd D s in if more then s1 else ack_ok s1).
Proof.
  intros s0 s i ty first (Hf & Hst & Hi & Hty & Hkl & Hlen & Hcr & Hdc & Hdg) H6.
  unfold cmd_list_next_cmd, NextState. cbv zeta. rewrite Hi.
  destruct (Nat.leb_spec (ncmds D) (S i)) as [H|H];
    destruct (Nat.ltb_spec (S i) (ncmds D)) as [H'|H']; try lia.
  - apply ack_ok_end; sst; [exact Hf|lia].
  - unfold LInv. sst. repeat split; assumption.
Qed.

Lemma run_total : forall s0 s i first c,
  LInv s0 s i T_TOTAL first -> nth_error (cmds D) i = Some c -> 6 <= length (cbuf s0) ->
  exists s2, NextState s0 i s2 /\
    forall fuel acc, list_run D (S fuel) s acc = list_run D fuel s2 acc.
Proof.
  intros s0 s i first c HL Hn H6.
  pose proof HL as (Hf & Hst & Hi & Hty & _).
  pose proof (next_cmd s0 (setk_cmd (Some i) s) i T_TOTAL first (LInv_setcmd _ _ _ _ _ _ HL) H6) as HN.
  eexists. split; [exact HN|]. intros fuel acc.
  rewrite list_run_S, Hst, cstate_beq_refl. cbv zeta.
  assert (E : print_cmd_list D s
              = let (s1, more) := cmd_list_next_cmd D (setk_cmd (Some i) s) in
                if more then s1 else ack_ok s1).
  { unfold print_cmd_list. rewrite Hi, cmd_by_index_concat.
    change (concat (d_groups D)) with (cmds D). rewrite Hn. cbv zeta.
    change (k_type (k (setk_cmd (Some i) s))) with (k_type (k s)). rewrite Hty. reflexivity. }
  rewrite E, (NextState_quiet _ _ _ HN). reflexivity.
Qed.

Lemma disable_frame : forall s0 s i x, dis_cmd s = dis_cmd s0 -> dis_grp s = dis_grp s0 ->
  is_command_disable D (setk_cmd x s) i = is_command_disable D s0 i.
Proof.
  intros s0 s i x H1 H2. unfold is_command_disable. sst. rewrite H1, H2. reflexivity.
Qed.

Lemma run_none : forall s0 s i first c,
  LInv s0 s i T_NONE first -> nth_error (cmds D) i = Some c -> 6 <= length (cbuf s0) ->
  if is_command_disable D s0 i
  then exists s2, NextState s0 i s2 /\
         forall fuel acc, list_run D (S fuel) s acc = list_run D fuel s2 acc
  else exists s2, LInv s0 s2 i (if c_only_test c then T_TEST else T_RUN) first /\
         forall fuel acc, list_run D (S fuel) s acc = list_run D fuel s2 acc.
Proof.
  intros s0 s i first c HL Hn H6.
  pose proof HL as (Hf & Hst & Hi & Hty & Hkl & Hlen & Hcr & Hdc & Hdg).
  assert (E : print_cmd_list D s
              = if is_command_disable D s0 i then
                  let (s1, more) := cmd_list_next_cmd D (setk_cmd (Some i) s) in
                  if more then s1 else ack_ok s1
                else setk_type (if c_only_test c then T_TEST else T_RUN) (setk_cmd (Some i) s)).
  { unfold print_cmd_list. rewrite Hi, cmd_by_index_concat.
    change (concat (d_groups D)) with (cmds D). rewrite Hn. cbv zeta.
    change (k_type (k (setk_cmd (Some i) s))) with (k_type (k s)). rewrite Hty.
    rewrite (disable_frame s0 s i (Some i) Hdc Hdg). reflexivity. }
  destruct (is_command_disable D s0 i).
  - pose proof (next_cmd s0 (setk_cmd (Some i) s) i T_NONE first (LInv_setcmd _ _ _ _ _ _ HL) H6) as HN.
    eexists. split; [exact HN|]. intros fuel acc.
    rewrite list_run_S, Hst, cstate_beq_refl. cbv zeta.
    rewrite E, (NextState_quiet _ _ _ HN). reflexivity.
  - eexists. split.
    2:{ intros fuel acc. rewrite list_run_S, Hst, cstate_beq_refl. cbv zeta. rewrite E.
        sst. rewrite Hst. reflexivity. }
    unfold LInv. sst. repeat split; assumption.
Qed.

(* ---- the forms of one command ---- *)
Fixpoint form_lines (c : cmd) (nl : list N) (first : bool) (fs : list form) : list (list N) :=
  match fs with
  | [] => []
  | fm :: r => if avail c fm then cmd_line c nl first (form_suffix fm) :: form_lines c nl false r
               else form_lines c nl first r
  end.

Definition head_ty (fs : list form) : ctype :=
  match fs with [] => T_TOTAL | fm :: _ => ty_of fm end.
Fixpoint chain (fs : list form) : Prop :=
  match fs with [] => True | fm :: r => next_of fm = head_ty r /\ chain r end.

Definition fits (bsz : nat) (l : list N) : bool := length l <? bsz.

Lemma run_forms : forall s0 i c,
  nth_error (cmds D) i = Some c -> ~ In 0%N (c_name c) -> 6 <= length (cbuf s0) ->
  forall fs, chain fs -> forall s first, LInv s0 s i (head_ty fs) first ->
  if forallb (fits (length (cbuf s0))) (form_lines c (nl_chars s0) first fs)
  then exists s2 first', LInv s0 s2 i T_TOTAL first' /\
         forall fuel acc, list_run D (length fs + fuel) s acc
                          = list_run D fuel s2 (acc ++ form_lines c (nl_chars s0) first fs)
  else exists n l s2,
         nth_error (form_lines c (nl_chars s0) first fs) n = Some l /\
         length (cbuf s0) <= length l /\
         forallb (fits (length (cbuf s0))) (firstn n (form_lines c (nl_chars s0) first fs)) = true /\
         EndState txt_ERROR s2 /\
         forall fuel acc, list_run D (length fs + fuel) s acc
                          = (acc ++ firstn n (form_lines c (nl_chars s0) first fs), s2).
Proof.
  intros s0 i c Hn Hn0 H6.
  induction fs as [|fm r IH]; intros Hch s first HL.
  - cbn [form_lines forallb]. exists s, first. split; [exact HL|].
    intros fuel acc. rewrite app_nil_r. reflexivity.
  - destruct Hch as [Hnx Hch]. cbn [head_ty] in HL.
    pose proof (run_form s0 s i fm first c HL Hn Hn0 H6) as R.
    cbn [form_lines length]. destruct (avail c fm).
    + cbn [forallb]. unfold fits at 1.
      destruct (Nat.ltb_spec (length (cmd_line c (nl_chars s0) first (form_suffix fm)))
                             (length (cbuf s0))) as [Hlt|Hge].
      * destruct R as (s2 & HL2 & R). rewrite Hnx in HL2. specialize (IH Hch s2 false HL2).
        cbn [andb].
        destruct (forallb (fits (length (cbuf s0))) (form_lines c (nl_chars s0) false r)).
        -- destruct IH as (s3 & first' & HL3 & R3). exists s3, first'. split; [exact HL3|].
           intros fuel acc. cbn [plus]. rewrite R, R3, <- app_assoc. reflexivity.
        -- destruct IH as (n & l & s3 & I1 & I2 & I3 & I4 & R3).
           exists (S n), l, s3. cbn [nth_error firstn forallb]. unfold fits at 1.
           apply Nat.ltb_lt in Hlt. rewrite Hlt. cbn [andb].
           repeat (split; [first [assumption|reflexivity]|]).
           intros fuel acc. cbn [plus]. rewrite R, R3, <- app_assoc. reflexivity.
      * destruct R as (s2 & HE & R). cbn [andb].
        exists 0, (cmd_line c (nl_chars s0) first (form_suffix fm)), s2.
        cbn [nth_error firstn forallb]. repeat (split; [first [assumption|reflexivity]|]).
        intros fuel acc. cbn [plus]. rewrite R, app_nil_r. reflexivity.
    + destruct R as (s2 & HL2 & R). rewrite Hnx in HL2. specialize (IH Hch s2 first HL2).
      destruct (forallb (fits (length (cbuf s0))) (form_lines c (nl_chars s0) first r)).
      * destruct IH as (s3 & first' & HL3 & R3). exists s3, first'. split; [exact HL3|].
        intros fuel acc. cbn [plus]. rewrite R, R3. reflexivity.
      * destruct IH as (n & l & s3 & I1 & I2 & I3 & I4 & R3).
        exists n, l, s3. repeat (split; [first [assumption|reflexivity]|]).
        intros fuel acc. cbn [plus]. rewrite R, R3. reflexivity.
Qed.

Lemma spec_lines_eq : forall c nl,
  spec_cmd_lines c nl
  = form_lines c nl true (if c_only_test c then [F_TEST] else [F_RUN; F_READ; F_WRITE; F_TEST]).
Proof.
  intros c nl. unfold spec_cmd_lines, advertised, readable, writable, nonempty.
  cbn [filter]. unfold form_lines, avail, vars_access_possible, cmd_line.
  destruct (c_only_test c), (c_hrun c),
    (c_hread c || existsb (fun v => vaccess_beq (v_access v) RW || vaccess_beq (v_access v) RO) (c_vars c)),
    (c_hwrite c || existsb (fun v => vaccess_beq (v_access v) RW || vaccess_beq (v_access v) WO) (c_vars c)),
    (c_htest c || match c_vars c with [] => false | _ :: _ => true end);
    reflexivity.
Qed.

(* ---- one command ---- *)
Definition cmd_lines (s0 : state) (i : nat) (c : cmd) : list (list N) :=
  if negb (is_command_disable D s0 i) then spec_cmd_lines c (nl_chars s0) else [].

Lemma run_cmd : forall s0 s i c,
  LInv s0 s i T_NONE true -> nth_error (cmds D) i = Some c -> ~ In 0%N (c_name c) ->
  6 <= length (cbuf s0) ->
  if forallb (fits (length (cbuf s0))) (cmd_lines s0 i c)
  then exists s2 used, used <= 6 /\ NextState s0 i s2 /\
         forall fuel acc, list_run D (used + fuel) s acc
                          = list_run D fuel s2 (acc ++ cmd_lines s0 i c)
  else exists n l s2,
         nth_error (cmd_lines s0 i c) n = Some l /\
         length (cbuf s0) <= length l /\
         forallb (fits (length (cbuf s0))) (firstn n (cmd_lines s0 i c)) = true /\
         EndState txt_ERROR s2 /\
         forall fuel acc, list_run D (6 + fuel) s acc = (acc ++ firstn n (cmd_lines s0 i c), s2).
Proof.
  intros s0 s i c HL Hn Hn0 H6. unfold cmd_lines.
  pose proof (run_none s0 s i true c HL Hn H6) as R0.
  destruct (is_command_disable D s0 i); cbn [negb].
  - destruct R0 as (s2 & HN & R0). cbn [forallb].
    exists s2, 1. split; [lia|]. split; [exact HN|].
    intros fuel acc. cbn [plus]. rewrite R0, app_nil_r. reflexivity.
  - destruct R0 as (s1 & HL1 & R0). rewrite spec_lines_eq.
    set (fs := if c_only_test c then [F_TEST] else [F_RUN; F_READ; F_WRITE; F_TEST]).
    assert (Hch : chain fs) by (subst fs; destruct (c_only_test c); cbn; auto).
    assert (Hhd : head_ty fs = if c_only_test c then T_TEST else T_RUN)
      by (subst fs; destruct (c_only_test c); reflexivity).
    assert (Hlen : length fs <= 4) by (subst fs; destruct (c_only_test c); cbn [length]; lia).
    rewrite <- Hhd in HL1.
    pose proof (run_forms s0 i c Hn Hn0 H6 fs Hch s1 true HL1) as RF.
    destruct (forallb (fits (length (cbuf s0))) (form_lines c (nl_chars s0) true fs)).
    + destruct RF as (s2 & first' & HL2 & RF).
      destruct (run_total s0 s2 i first' c HL2 Hn H6) as (s3 & HN & RT).
      exists s3, (S (length fs + 1)). split; [lia|]. split; [exact HN|].
      intros fuel acc. cbn [plus]. rewrite R0.
      replace (length fs + 1 + fuel) with (length fs + S fuel) by lia.
      rewrite RF, RT. reflexivity.
    + destruct RF as (n & l & s2 & I1 & I2 & I3 & I4 & RF).
      exists n, l, s2. repeat (split; [assumption|]).
      intros fuel acc. change (6 + fuel) with (S (5 + fuel)). rewrite R0.
      replace (5 + fuel) with (length fs + (5 - length fs + fuel)) by lia.
      apply RF.
Qed.

(* ---- all commands ---- *)
Definition lines_from (s0 : state) (i : nat) (cs : list cmd) : list (list N) :=
  flat_map (fun ic => if negb (is_command_disable D s0 (fst ic))
                      then spec_cmd_lines (snd ic) (nl_chars s0) else [])
           (combine (seq i (length cs)) cs).

Lemma lines_from_cons : forall s0 i c cs,
  lines_from s0 i (c :: cs) = cmd_lines s0 i c ++ lines_from s0 (S i) cs.
Proof. reflexivity. Qed.

Lemma run_cmds : forall s0, 6 <= length (cbuf s0) ->
  (forall c, In c (cmds D) -> ~ In 0%N (c_name c)) ->
  forall post c pre s, cmds D = pre ++ c :: post -> LInv s0 s (length pre) T_NONE true ->
  forall fuel acc, 6 * length (c :: post) <= fuel ->
  exists out s', list_run D fuel s acc = (out, s') /\
    if forallb (fits (length (cbuf s0))) (lines_from s0 (length pre) (c :: post))
    then out = acc ++ lines_from s0 (length pre) (c :: post) /\ EndState txt_OK s'
    else (exists n l, out = acc ++ firstn n (lines_from s0 (length pre) (c :: post)) /\
            nth_error (lines_from s0 (length pre) (c :: post)) n = Some l /\
            length (cbuf s0) <= length l /\
            forallb (fits (length (cbuf s0)))
                    (firstn n (lines_from s0 (length pre) (c :: post))) = true) /\
         EndState txt_ERROR s'.
Proof.
  intros s0 H6 Hnames.
  induction post as [|c2 post IH]; intros c pre s Hc HL fuel acc Hfuel;
    assert (Hn : nth_error (cmds D) (length pre) = Some c) by (rewrite Hc; apply nth_mid);
    assert (Hn0 : ~ In 0%N (c_name c))
      by (apply Hnames; rewrite Hc; apply in_or_app; right; left; reflexivity);
    pose proof (run_cmd s0 s (length pre) c HL Hn Hn0 H6) as RC;
    rewrite lines_from_cons, forallb_app;
    destruct (forallb (fits (length (cbuf s0))) (cmd_lines s0 (length pre) c)) eqn:EF;
    cbn [andb].
  - (* last command, fits *)
    destruct RC as (s2 & used & Hu & HN & RC).
    unfold NextState in HN.
    assert (E : S (length pre) <? ncmds D = false).
    { apply Nat.ltb_ge. unfold ncmds. rewrite Hc, app_length. cbn [length]. lia. }
    rewrite E in HN. cbn [length] in Hfuel.
    replace fuel with (used + (fuel - used)) by lia. rewrite RC.
    cbn [lines_from length seq combine flat_map forallb]. rewrite app_nil_r.
    eexists. eexists. split; [apply list_run_stop; apply HN|]. split; [reflexivity|exact HN].
  - (* last command, a line does not fit *)
    destruct RC as (n & l & s2 & I1 & I2 & I3 & I4 & RC).
    cbn [length] in Hfuel. replace fuel with (6 + (fuel - 6)) by lia. rewrite RC.
    cbn [lines_from length seq combine flat_map]. rewrite app_nil_r.
    eexists. eexists. split; [reflexivity|]. split; [|exact I4].
    exists n, l. repeat (split; [first [assumption|reflexivity]|]). assumption.
  - (* more commands, this one fits *)
    destruct RC as (s2 & used & Hu & HN & RC).
    unfold NextState in HN.
    assert (E : S (length pre) <? ncmds D = true).
    { apply Nat.ltb_lt. unfold ncmds. rewrite Hc, app_length. cbn [length]. lia. }
    rewrite E in HN. cbn [length] in Hfuel.
    replace fuel with (used + (fuel - used)) by lia. rewrite RC.
    specialize (IH c2 (pre ++ [c]) s2).
    replace (length (pre ++ [c])) with (S (length pre)) in IH
      by (rewrite app_length; cbn [length]; lia).
    destruct (IH ltac:(rewrite Hc, <- app_assoc; reflexivity) HN (fuel - used)
                 (acc ++ cmd_lines s0 (length pre) c) ltac:(cbn [length]; lia))
      as (out & s' & ER & HR).
    exists out, s'. split; [exact ER|].
    destruct (forallb (fits (length (cbuf s0))) (lines_from s0 (S (length pre)) (c2 :: post))).
    + destruct HR as (-> & HE). split; [|exact HE]. rewrite app_assoc. reflexivity.
    + destruct HR as ((n & l & -> & I1 & I2 & I3) & HE). split; [|exact HE].
      exists (length (cmd_lines s0 (length pre) c) + n), l.
      rewrite firstn_app_2. split; [rewrite app_assoc; reflexivity|].
      split; [rewrite nth_error_app2 by lia;
              replace (length (cmd_lines s0 (length pre) c) + n - length (cmd_lines s0 (length pre) c))
                with n by lia; exact I1|].
      split; [exact I2|]. rewrite forallb_app, EF, I3. reflexivity.
  - (* more commands, a line of this one does not fit *)
    destruct RC as (n & l & s2 & I1 & I2 & I3 & I4 & RC).
    cbn [length] in Hfuel. replace fuel with (6 + (fuel - 6)) by lia. rewrite RC.
    eexists. eexists. split; [reflexivity|]. split; [|exact I4].
    assert (Hlt : n < length (cmd_lines s0 (length pre) c))
      by (apply nth_error_Some; rewrite I1; discriminate).
    exists n, l. rewrite firstn_app.
    replace (n - length (cmd_lines s0 (length pre) c)) with 0 by lia.
    cbn [firstn]. rewrite app_nil_r.
    split; [reflexivity|]. split; [rewrite nth_error_app1 by exact Hlt; exact I1|].
    split; assumption.
Qed.

Lemma spec_cmd_list_eq : forall s,
  spec_cmd_list D (fun i => negb (is_command_disable D s i)) (nl_chars s)
  = lines_from s 0 (cmds D).
Proof. reflexivity. Qed.

(* strong form: when a line does not fit, it exists and is the first one that does not fit *)
Theorem C19_list_strong_proof : forall s,
  fault s = false -> 6 <= length (cbuf s) ->
  (forall c, In c (cmds D) -> ~ In 0%N (c_name c)) ->
  let s0 := start_print_cmd_list D s in
  let lines := spec_cmd_list D (fun i => negb (is_command_disable D s i)) (nl_chars s) in
  forall fuel, 6 * ncmds D + 1 <= fuel ->
  let '(out, s') := list_run D fuel s0 [] in
  fault s' = false /\ k_state (k s') = CS_FLUSH_WAIT /\ k_wafter (k s') = CS_AFTER_RESET /\
  if forallb (fun l => length l <? length (cbuf s)) lines
  then out = lines /\ text_of (cbuf s') = txt_OK
  else (exists n l, out = firstn n lines /\ nth_error lines n = Some l /\
        length (cbuf s) <= length l /\
        forallb (fun l => length l <? length (cbuf s)) out = true) /\
       text_of (cbuf s') = txt_ERROR.
Proof.
  intros s Hf H6 Hnames s0 lines fuel Hfuel. subst s0 lines.
  rewrite spec_cmd_list_eq. unfold start_print_cmd_list, ncmds in *.
  destruct (cmds D) as [|c post] eqn:Ec.
  - cbn [length Nat.eqb]. rewrite list_run_stop by reflexivity.
    destruct (ack_ok_end s Hf H6) as (A1 & A2 & A3 & A4).
    cbn [lines_from length seq combine flat_map forallb].
    repeat (split; [first [assumption|reflexivity]|]). assumption.
  - cbn [length Nat.eqb]. rewrite <- Ec in Hnames.
    destruct (run_cmds s H6 Hnames post c []
                (s |> setk_index 0 |> setk_length 0 |> setk_type T_NONE |> setk_state CS_PRINT_CMD))
      with (fuel := fuel) (acc := @nil (list N)) as (out & s' & ER & HR).
    { exact Ec. }
    { unfold LInv. sst. repeat split; try reflexivity. exact Hf. }
    { cbn [length] in *. lia. }
    rewrite ER. cbn [length app] in HR.
    change (fits (length (cbuf s))) with (fun l : list N => length l <? length (cbuf s)) in HR.
    destruct (forallb (fun l : list N => length l <? length (cbuf s)) (lines_from s 0 (c :: post))).
    + destruct HR as (-> & A1 & A2 & A3 & A4).
      repeat (split; [first [assumption|reflexivity]|]). assumption.
    + destruct HR as ((n & l & -> & I1 & I2 & I3) & A1 & A2 & A3 & A4).
      repeat (split; [first [assumption|reflexivity]|]).
      split; [|assumption]. exists n, l. repeat (split; [first [assumption|reflexivity]|]). assumption.
Qed.

Theorem C19_list_proof : forall s,
  fault s = false -> 6 <= length (cbuf s) ->
  (forall c, In c (cmds D) -> ~ In 0%N (c_name c)) ->
  let s0 := start_print_cmd_list D s in
  let lines := spec_cmd_list D (fun i => negb (is_command_disable D s i)) (nl_chars s) in
  forall fuel, 6 * ncmds D + 1 <= fuel ->
  let '(out, s') := list_run D fuel s0 [] in
  fault s' = false /\ k_state (k s') = CS_FLUSH_WAIT /\ k_wafter (k s') = CS_AFTER_RESET /\
  if forallb (fun l => length l <? length (cbuf s)) lines
  then out = lines /\ text_of (cbuf s') = txt_OK
  else (exists n, out = firstn n lines /\
        (forall l, nth_error lines n = Some l -> length (cbuf s) <= length l) /\
        forallb (fun l => length l <? length (cbuf s)) out = true) /\
       text_of (cbuf s') = txt_ERROR.
Proof.
  intros s Hf H6 Hnames s0 lines fuel Hfuel.
  pose proof (C19_list_strong_proof s Hf H6 Hnames fuel Hfuel) as H.
  cbv zeta in H. fold s0 in H. fold lines in H.
  destruct (list_run D fuel s0 []) as [out s'].
  destruct H as (A1 & A2 & A3 & H). repeat (split; [assumption|]).
  destruct (forallb (fun l : list N => length l <? length (cbuf s)) lines); [exact H|].
  destruct H as ((n & l & I0 & I1 & I2 & I3) & A4). split; [|exact A4].
  exists n. split; [exact I0|]. split; [|exact I3].
  intros l' Hl'. rewrite I1 in Hl'. injection Hl' as <-. exact I2.
Qed.
End C19.
