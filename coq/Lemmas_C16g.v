(* Lemmas_C16g.v — property C16, history-level guard: with a mutex configured, every io event,
   handler call, queue pop and inner call of a history lies strictly inside a bracket
   ELock true ... EUnlock _, brackets are never nested, and after every completed operation the
   mutex is not held.  All the work for Properties_C16g.v is here. *)
From Coq Require Import List NArith ZArith Bool Arith Lia.
From CatV Require Import Bytes Defs Codec Fsm Script TraceDefs SchedDefs Lemmas_C16 Lemmas_Inv.
Import ListNotations.
Local Open Scope nat_scope.

(* ------------------------------------------------------------------ *)
(* the guard predicate: a fold over the history, oldest event first     *)
(* ------------------------------------------------------------------ *)

Fixpoint guarded (held : bool) (h : list event) : bool :=
  match h with
  | [] => negb held
  | ELock ok :: r => negb held && guarded ok r
  | EUnlock _ :: r => held && guarded false r
  | ERd _ :: r => held && guarded held r
  | EWr _ _ _ :: r => held && guarded held r
  | ECall _ _ :: r => held && guarded held r
  | EInner _ _ :: r => held && guarded held r
  | EPop _ _ :: r => held && guarded held r
  | ERet _ _ :: r => guarded held r
  end.

(* ------------------------------------------------------------------ *)
(* pure list facts                                                      *)
(* ------------------------------------------------------------------ *)

(* a guarded (hence closed) prefix can be forgotten *)
Lemma guarded_app : forall h1 h2 b, guarded b h1 = true -> guarded b (h1 ++ h2) = guarded false h2.
Proof.
  induction h1 as [|e r IH]; intros h2 b H.
  - cbn [guarded] in H. cbn [app]. destruct b; [discriminate H | reflexivity].
  - destruct e, b; cbn [app guarded negb andb] in *; try discriminate H; apply IH; exact H.
Qed.

(* inside a bracket, events that are neither lock nor unlock keep the bracket open *)
Lemma guarded_nolock_app : forall l r, nolock l = true -> guarded true (l ++ r) = guarded true r.
Proof.
  induction l as [|e l IH]; intros r H.
  - reflexivity.
  - cbn [nolock forallb] in H. apply andb_true_iff in H. destruct H as [He Hl].
    fold (nolock l) in Hl.
    destruct e; try discriminate He; cbn [app guarded andb]; apply IH; exact Hl.
Qed.

Lemma nolock_rev : forall l, nolock l = true -> nolock (rev l) = true.
Proof.
  intros l H. unfold nolock in *. rewrite forallb_forall in *.
  intros e He. apply H. apply in_rev. exact He.
Qed.

(* the three shapes an operation appends to a closed history (tr is newest-first) *)
Lemma guarded_bracket : forall t body ok2, guarded false (rev t) = true -> nolock body = true ->
  guarded false (rev (EUnlock ok2 :: body ++ ELock true :: t)) = true.
Proof.
  intros t body ok2 H Nl. cbn [rev]. rewrite rev_app_distr. cbn [rev].
  rewrite <- !app_assoc. rewrite (guarded_app _ _ _ H).
  cbn [app guarded negb andb].
  rewrite (guarded_nolock_app _ _ (nolock_rev _ Nl)). reflexivity.
Qed.

Lemma guarded_failed_lock : forall t, guarded false (rev t) = true ->
  guarded false (rev (ELock false :: t)) = true.
Proof. intros t H. cbn [rev]. rewrite (guarded_app _ _ _ H). reflexivity. Qed.

Lemma guarded_ret : forall t o r, guarded false (rev t) = true ->
  guarded false (rev (ERet o r :: t)) = true.
Proof. intros t o r H. cbn [rev]. rewrite (guarded_app _ _ _ H). reflexivity. Qed.

(* the guard implies the lock discipline of C16_history *)
Lemma guarded_locks_ok : forall h b, guarded b h = true -> locks_ok b (locks h) = true.
Proof.
  induction h as [|e r IH]; intros b H.
  - reflexivity.
  - destruct e, b; cbn [guarded negb andb] in H; try discriminate H;
      cbn [locks flat_map lock_of app]; fold (locks r); cbn [locks_ok negb andb];
      apply IH; exact H.
Qed.

(* ------------------------------------------------------------------ *)
Section C16g.
Variable D : desc.
Variables ioS muS hS : Type.
Variable io_read : ioS -> ioS * option N.
Variable io_write : ioS -> N -> ioS * bool.
Variable mu_lock : muS -> muS * bool.
Variable mu_unlock : muS -> muS * bool.
Variable h_call : hS -> hreq -> hS * hres.

(* with a mutex configured, handlers make no inner API calls (it would self-deadlock in C) *)
Hypothesis no_inner : d_mutex D = true -> forall hs q, r_calls (snd (h_call hs q)) = [].

Local Notation world := (Fsm.world ioS muS hS).
Local Notation mu := (Fsm.mu ioS muS hS).
Local Notation tr := (Fsm.tr ioS muS hS).
Local Notation mkWorld := (Fsm.mkWorld ioS muS hS).
Local Notation do_op := (Fsm.do_op D ioS muS hS io_read io_write mu_lock mu_unlock h_call).
Local Notation step := (Fsm.step D ioS muS hS io_read io_write mu_lock mu_unlock h_call).
Local Notation run := (Fsm.run D ioS muS hS io_read io_write mu_lock mu_unlock h_call).
Local Notation hist := (TraceDefs.hist ioS muS hS).
Local Notation LC T := (T D ioS muS hS io_read io_write mu_lock mu_unlock h_call).

(* the operations that do not lock log nothing at all (step adds the one ERet) *)
Theorem C16_nonlocking_silent : forall (w : world) o, locking_op o = false ->
  tr (fst (do_op w o)) = tr w.
Proof. exact (LC C16_nonlocking_tr). Qed.

Lemma do_op_guarded : forall (w : world) o, d_mutex D = true ->
  guarded false (rev (tr w)) = true -> guarded false (rev (tr (fst (do_op w o)))) = true.
Proof.
  intros w o M I. destruct (locking_op o) eqn:L.
  - destruct (snd (mu_lock (mu w))) eqn:F.
    + pose proof (LC C16_lock_success no_inner w o M L F) as S.
      destruct (do_op w o) as [w' r]. destruct S as [body [ok2 [T [Nl _]]]]. cbn [fst].
      rewrite T. apply guarded_bracket; assumption.
    + pose proof (LC C16_lock_failure w o M L F) as S.
      destruct (do_op w o) as [w' r]. destruct S as [_ [_ [_ [_ [T _]]]]]. cbn [fst].
      rewrite T. apply guarded_failed_lock; assumption.
  - rewrite (LC C16_nonlocking_tr w o L). exact I.
Qed.

Theorem C16_guarded_step : forall (w : world) o, d_mutex D = true ->
  guarded false (hist w) = true -> guarded false (hist (step w o)) = true.
Proof.
  intros w o M I. unfold TraceDefs.hist in *. rewrite (LC step_tr).
  apply guarded_ret. apply do_op_guarded; assumption.
Qed.

Theorem C16_guarded_run : forall ops (w : world), d_mutex D = true ->
  guarded false (hist w) = true -> guarded false (hist (run w ops)) = true.
Proof.
  induction ops as [|o ops IH]; intros w M I.
  - exact I.
  - unfold Fsm.run. cbn [fold_left]. apply IH; [exact M|]. apply C16_guarded_step; assumption.
Qed.

Theorem C16_guarded : forall m x mx h ops, d_mutex D = true ->
  guarded false (hist (run (mkWorld (init_state D m) x mx h []) ops)) = true.
Proof. intros m x mx h ops M. apply C16_guarded_run; [exact M | reflexivity]. Qed.

End C16g.

(* ------------------------------------------------------------------ *)
(* transfer to an invariant of the handler oracle state                 *)
(* ------------------------------------------------------------------ *)
Section C16gInv.
Variable D : desc.
Variables ioS muS hS : Type.
Variable io_read : ioS -> ioS * option N.
Variable io_write : ioS -> N -> ioS * bool.
Variable mu_lock : muS -> muS * bool.
Variable mu_unlock : muS -> muS * bool.
Variable h_call : hS -> hreq -> hS * hres.
Variable HN : hS -> Prop.
Hypothesis HN_step : forall h q, HN h ->
  HN (fst (h_call h q)) /\ (d_mutex D = true -> r_calls (snd (h_call h q)) = []).

Local Notation world := (Fsm.world ioS muS hS).
Local Notation hs := (Fsm.hs ioS muS hS).
Local Notation run := (Fsm.run D ioS muS hS io_read io_write mu_lock mu_unlock h_call).
Local Notation hist := (TraceDefs.hist ioS muS hS).

Theorem C16_guarded_run_inv : forall ops (w : world), d_mutex D = true -> HN (hs w) ->
  guarded false (hist w) = true -> guarded false (hist (run w ops)) = true.
Proof.
  intros ops w M Hh I.
  rewrite <- (proj1 (run_noinner D ioS muS hS io_read io_write mu_lock mu_unlock h_call HN HN_step
                       w ops Hh)).
  exact (C16_guarded_run D ioS muS hS io_read io_write mu_lock mu_unlock (h_noinner D hS h_call)
           (h_noinner_ok D hS h_call) ops w M I).
Qed.

Theorem C16_guarded_inv : forall m x mx h ops, d_mutex D = true -> HN h ->
  guarded false (hist (run (mkWorld ioS muS hS (init_state D m) x mx h []) ops)) = true.
Proof. intros m x mx h ops M Hh. apply C16_guarded_run_inv; [exact M | exact Hh | reflexivity]. Qed.

End C16gInv.

(* scripted worlds: the script of handler answers contains no inner call *)
Theorem C16_guarded_scripted : forall D m x mx h ops, d_mutex D = true ->
  script_ok res_no_calls h = true ->
  guarded false (TraceDefs.hist sio smu shs (srun D (sinit D m x mx h) (map SOp ops))) = true.
Proof.
  intros D m x mx h ops M Hh. unfold sinit. rewrite srun_SOp.
  exact (C16_guarded_inv D sio smu shs s_read s_write s_lock s_unlock s_call
           (fun h : shs => d_mutex D = true -> script_ok res_no_calls h = true) (HN_step D)
           m x mx h ops M (fun _ => Hh)).
Qed.
