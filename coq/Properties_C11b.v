(* Properties_C11b.v — property C11, whole-history part: the two machines are never both in their
   FLUSH_IO_WRITE state, at any point of any history from cat_init (arbitrary oracles, D3), and a byte
   is written only by the machine that is in its FLUSH state (EvSkelSim).  Together with the session
   theorems of Properties_C11.v (the bytes accepted while a machine owns the channel are exactly
   its unit, all carrying its tag) this is the "concatenation of whole units" statement. *)
From Coq Require Import List NArith ZArith Bool Arith.
From CatV Require Import Bytes Defs Codec Fsm Skel SkelInv SkelSim EvSkel EvSkelSim Lemmas_Ctl Lemmas_C03 Lemmas_Domain.
Import ListNotations.

Section C11b.
Variable D : desc.
Variables ioS muS hS : Type.
Variable io_read : ioS -> ioS * option N.
Variable io_write : ioS -> N -> ioS * bool.
Variable mu_lock : muS -> muS * bool.
Variable mu_unlock : muS -> muS * bool.
Variable h_call : hS -> hreq -> hS * hres.
Hypothesis no_uhold : forall hs q, unsol_req q = true -> r_code (snd (h_call hs q)) <> RC_HOLD.
Hypothesis handlers_valid : forall hs q, Forall (valid_icall D) (r_calls (snd (h_call hs q))).

Notation st := (Fsm.st ioS muS hS).
Notation tr := (Fsm.tr ioS muS hS).
Notation run := (Fsm.run D ioS muS hS io_read io_write mu_lock mu_unlock h_call).
Notation service_body := (Fsm.service_body D ioS muS hS io_read io_write mu_lock mu_unlock h_call).
Notation unsolicited_events_service := (Fsm.unsolicited_events_service D ioS muS hS io_write mu_lock mu_unlock h_call).
Notation reach m x mx h ops := (run (mkWorld ioS muS hS (init_state D m) x mx h []) ops).

Theorem C11_exclusion_history : forall m x mx h ops,
  let s := st (reach m x mx h ops) in
  fault s = false -> ~ (k_state (k s) = CS_FLUSH /\ u_state (u s) = US_FLUSH).
Proof.
  intros m x mx h ops s Hf. apply J_flush_excl.
  exact (J_reachable D ioS muS hS io_read io_write mu_lock mu_unlock h_call no_uhold m x mx h ops Hf).
Qed.

Theorem C11_exclusion_in_domain : forall m x mx h ops,
  wf_desc D m -> Forall (valid_op D) ops ->
  let s := st (reach m x mx h ops) in
  ~ (k_state (k s) = CS_FLUSH /\ u_state (u s) = US_FLUSH).
Proof.
  intros m x mx h ops Hwf Hops s. apply J_flush_excl.
  exact (proj2 (J_in_domain D ioS muS hS io_read io_write mu_lock mu_unlock h_call no_uhold handlers_valid m x mx h ops Hwf Hops)).
Qed.

Theorem C11_writes_only_by_owner : forall w evs f ch ok,
  tr (fst (service_body w)) = evs ++ tr w -> In (EWr f ch ok) evs ->
  match f with
  | ATCMD => k_state (k (st (fst (unsolicited_events_service w)))) = CS_FLUSH
  | UNSOL => u_state (u (st w)) = US_FLUSH
  end.
Proof. exact (writes_only_in_flush D ioS muS hS io_read io_write mu_lock mu_unlock h_call). Qed.
End C11b.

Print Assumptions C11_exclusion_history.
Print Assumptions C11_exclusion_in_domain.
Print Assumptions C11_writes_only_by_owner.
