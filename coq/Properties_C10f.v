(* Properties_C10f.v — property C10 (handler return codes drive the response), end to end, for the command's
   WRITE handler, RUN handler (first part; proofs Lemmas_C10f.v) and TEST handler (PART T below; proofs
   Lemmas_C10ft.v): the BYTES of a whole line.  The READ handler is in Properties_C10e.v (command without
   readable variables) and Properties_C06r.v (with readable variables).
   On the scripted always-ready environment of Script.v (both io schedules empty, the event machine idle with
   an empty queue, no mutex):
     WRITE  AT<name>=<args> LF  for a command with a write handler and no writable variable (the handler parses
            its arguments itself): the handler is called on  args NUL / |args| / 0  (args = the bytes between
            '=' and the line end, carriage returns removed, letter case kept);
     RUN    AT<name> LF  for a command with a run handler: the handler is called with HRun i.
   The handler's script answers rs ++ [rn]: every result of rs continues (RC_NEXT or RC_DATA_NEXT, table action
   A_AGAIN: the machine stays in CS_WRITE_LOOP / CS_RUN_LOOP and calls the handler AGAIN with the very same
   request on the next cat_service call; there is no buffer edit and no data unit for these handlers, DATA_NEXT
   and NEXT are the same thing here), rn ends (any integer whose table action is terminal, except RC_HOLD, and
   for RUN except RC_PRINT_CMD_LIST_OK, which starts the list printer: Properties_C19e.E2E_list_line); no
   result makes inner API calls (they would wake the event machine; out of scope); stores into variables
   (r_pokes) are allowed — they only touch the memory, so the argument text the handler sees stays the same.
   Then after some number of cat_service calls the parser is idle again, has consumed exactly the line, has
   called the handler exactly once per result with the same request each time, and has written exactly
        nl OK nl    or    nl ERROR nl
   as the table RespDefs.spec_action decides for rn (OK, DATA_OK -> OK; ERROR, HOLD_EXIT_OK, HOLD_EXIT_ERROR,
   and every other integer -> ERROR; PRINT_CMD_LIST_OK from a WRITE handler -> ERROR); the handler's script
   has lost exactly the delivered results; the memory is the initial one after the handlers' stores, in order;
   the ghost counters gL, gS, gR each advanced by one.
   The _t forms take the line as a terminal sends it: A/a, T/t, name in any letter case, carriage returns
   after the A, inside the name, and (WRITE) anywhere in the argument bytes; nl = CR LF iff a carriage return
   was seen anywhere on the line, LF otherwise; the newline flag is cleared again at the end.
   Proofs: Lemmas_C10f.v (pattern: Lemmas_E2Ec.P3, the READ handler line of Properties_C10e.v). *)
From Coq Require Import List NArith ZArith Bool Arith.
From CatV Require Import Bytes Defs Codec Spec Fsm Script ResolveDefs SchedDefs GlueDefs TextDefs CollectDefs RespDefs.
From CatV Require Lemmas_C10 Lemmas_E2E Lemmas_E2Ec.
From CatV Require Lemmas_C10f.
Import ListNotations.
Local Open Scope nat_scope.

Local Notation wst := (Fsm.st sio smu shs).
Local Notation wio := (Fsm.io sio smu shs).
Local Notation whs := (Fsm.hs sio smu shs).
Local Notation wtr := (Fsm.tr sio smu shs).
Local Notation script_of := Lemmas_C10.script_of.
Local Notation drop_script := Lemmas_E2Ec.P3.drop_script.
Local Notation poke_mem := Lemmas_E2Ec.P3.poke_mem.
Local Notation pokes_mem := Lemmas_E2Ec.P3.pokes_mem.
Local Notation nl_of := Lemmas_E2Ec.nl_of.

(* ---- the definitions used below, as checked equations ---- *)
(* the results still to be delivered for a key (kind, command, variable); kind 0 = write, 2 = run handler *)
Example def_script_of : forall k0 sc r key,
  script_of [] key = [] /\
  script_of ((k0, sc) :: r) key = if key_eqb k0 key then sc else script_of r key.
Proof. split; reflexivity. Qed.
Example def_key_of : forall i data len idx, key_of (HWrite i data len idx) = (0, i, 0) /\ key_of (HRun i) = (2, i, 0).
Proof. split; reflexivity. Qed.
(* the scripts after n results of `key` have been delivered (first entry for the key, as s_call) *)
Example def_drop_script : forall k0 sc r key n,
  drop_script [] key n = [] /\
  drop_script ((k0, sc) :: r) key n =
    if key_eqb k0 key then (k0, skipn n sc) :: r else (k0, sc) :: drop_script r key n.
Proof. split; reflexivity. Qed.
(* one store of a handler into variable storage (slot, bytes), as Fsm.apply_poke does it, on the memory *)
Example def_poke_mem : forall m p,
  poke_mem m p =
  match nth_error m (fst p) with
  | None => m
  | Some data => match store_prefix data (snd p) with None => m | Some d => upd m (fst p) d end
  end.
Proof. reflexivity. Qed.
Example def_pokes_mem : forall ps m, pokes_mem ps m = fold_left poke_mem ps m.
Proof. reflexivity. Qed.
(* the newline of a line: CR LF if a carriage return was seen on it *)
Example def_nl_of : nl_of true = [ch_CR; ch_LF] /\ nl_of false = [ch_LF].
Proof. split; reflexivity. Qed.
(* the table for the two handler kinds (RespDefs.spec_action), and which actions end the line *)
Example def_table_write_run :
  map (fun code => (spec_action K_WRITE ATCMD code, spec_action K_RUN ATCMD code))
      [RC_OK; RC_DATA_OK; RC_NEXT; RC_DATA_NEXT; RC_HOLD; RC_ERROR; RC_HOLD_EXIT_OK; RC_HOLD_EXIT_ERROR;
       RC_PRINT_CMD_LIST_OK; 42%Z] =
  [(A_OK, A_OK); (A_OK, A_OK); (A_AGAIN, A_AGAIN); (A_AGAIN, A_AGAIN); (A_HOLD, A_HOLD); (A_ERROR, A_ERROR);
   (A_ERROR, A_ERROR); (A_ERROR, A_ERROR); (A_ERROR, A_LIST); (A_ERROR, A_ERROR)] /\
  terminal A_AGAIN = false /\ terminal A_OK = true /\ terminal A_ERROR = true /\ terminal A_HOLD = true /\
  terminal A_LIST = true.
Proof. vm_compute. repeat split; reflexivity. Qed.

(* 1. THE theorem for the WRITE handler, canonical line (upper-case AT, no carriage return) *)
Theorem E2E_write_handler_line : forall D s name bs rest h i c rs rn more,
  d_mutex D = false -> 0 < ncmds D -> ncmds D <= 4 * length (cbuf s) -> 6 <= length (cbuf s) ->
  fault s = false ->
  k_state (k s) = CS_IDLE -> k_cr (k s) = false -> k_implicit (k s) = false -> k_hold (k s) = false ->
  u_state (u s) = US_IDLE -> u_count (u s) = 0 ->
  name_ok name = true -> implicit_hit D s (upper name) = false ->
  resolve (upper name) (enabled D s) (cmds D) = Some i -> nth_error (cmds D) i = Some c ->
  c_hwrite c = true -> vars_access_possible c WO = false -> c_only_test c = false ->
  ~ In ch_LF bs -> ~ In ch_CR bs -> length bs < length (cbuf s) ->
  (test_shortcut c = true -> match bs with q :: _ => q <> ch_QM | [] => True end) ->
  script_of h (0, i, 0) = rs ++ rn :: more ->
  (forall r, In r rs -> terminal (spec_action K_WRITE ATCMD (r_code r)) = false) ->
  terminal (spec_action K_WRITE ATCMD (r_code rn)) = true -> r_code rn <> RC_HOLD ->
  (forall r, In r (rs ++ [rn]) -> r_calls r = []) ->
  let w0 := mkw s ([ch_A; ch_T] ++ name ++ [ch_EQ] ++ bs ++ [ch_LF] ++ rest) h [] in
  exists calls, let w := nsvc D calls w0 in
    k_state (k (wst w)) = CS_IDLE /\ inq (wio w) = rest /\
    whs w = drop_script h (0, i, 0) (S (length rs)) /\
    calls_of (wtr w) =
      combine (repeat (HWrite i (bs ++ [0%N]) (length bs) 0) (S (length rs))) (map r_code (rs ++ [rn])) /\
    mem (wst w) = pokes_mem (flat_map r_pokes (rs ++ [rn])) (mem s) /\ fault (wst w) = false /\
    output_of (wtr w) =
      [ch_LF] ++ match spec_action K_WRITE ATCMD (r_code rn) with A_OK => txt_OK | _ => txt_ERROR end ++ [ch_LF] /\
    gL (wst w) = S (gL s) /\ gS (wst w) = S (gS s) /\ gR (wst w) = S (gR s).
Proof. exact Lemmas_C10f.E2E_write_handler_line_proof. Qed.
Print Assumptions E2E_write_handler_line.

(* 1t. the WRITE line as a terminal sends it; args = the argument bytes without their carriage returns *)
Theorem E2E_write_handler_line_t : forall D s a m0 t name' bs rest h i c rs rn more,
  d_mutex D = false -> 0 < ncmds D -> ncmds D <= 4 * length (cbuf s) -> 6 <= length (cbuf s) ->
  fault s = false ->
  k_state (k s) = CS_IDLE -> k_cr (k s) = false -> k_implicit (k s) = false -> k_hold (k s) = false ->
  u_state (u s) = US_IDLE -> u_count (u s) = 0 ->
  to_upper a = ch_A -> to_upper t = ch_T ->
  name_ok (no_cr name') = true -> implicit_hit D s (upper (no_cr name')) = false ->
  resolve (upper (no_cr name')) (enabled D s) (cmds D) = Some i -> nth_error (cmds D) i = Some c ->
  c_hwrite c = true -> vars_access_possible c WO = false -> c_only_test c = false ->
  ~ In ch_LF bs ->
  let args := no_cr bs in
  length args < length (cbuf s) ->
  (test_shortcut c = true -> match args with q :: _ => q <> ch_QM | [] => True end) ->
  script_of h (0, i, 0) = rs ++ rn :: more ->
  (forall r, In r rs -> terminal (spec_action K_WRITE ATCMD (r_code r)) = false) ->
  terminal (spec_action K_WRITE ATCMD (r_code rn)) = true -> r_code rn <> RC_HOLD ->
  (forall r, In r (rs ++ [rn]) -> r_calls r = []) ->
  let nl := nl_of ((0 <? m0) || existsb (fun c => (c =? ch_CR)%N) name' || existsb (fun c => (c =? ch_CR)%N) bs) in
  let w0 := mkw s ([a] ++ repeat ch_CR m0 ++ [t] ++ name' ++ [ch_EQ] ++ bs ++ [ch_LF] ++ rest) h [] in
  exists calls, let w := nsvc D calls w0 in
    k_state (k (wst w)) = CS_IDLE /\ inq (wio w) = rest /\
    whs w = drop_script h (0, i, 0) (S (length rs)) /\
    calls_of (wtr w) =
      combine (repeat (HWrite i (args ++ [0%N]) (length args) 0) (S (length rs))) (map r_code (rs ++ [rn])) /\
    mem (wst w) = pokes_mem (flat_map r_pokes (rs ++ [rn])) (mem s) /\ fault (wst w) = false /\
    output_of (wtr w) =
      nl ++ match spec_action K_WRITE ATCMD (r_code rn) with A_OK => txt_OK | _ => txt_ERROR end ++ nl /\
    gL (wst w) = S (gL s) /\ gS (wst w) = S (gS s) /\ gR (wst w) = S (gR s) /\ k_cr (k (wst w)) = false.
Proof. exact Lemmas_C10f.E2E_write_handler_line_t_proof. Qed.
Print Assumptions E2E_write_handler_line_t.

(* 2. THE theorem for the RUN handler, canonical line.  An ending code RC_PRINT_CMD_LIST_OK (table action
      A_LIST) starts the list printer instead: Properties_C19e.E2E_list_line *)
Theorem E2E_run_handler_sequence : forall D s name rest h i c rs rn more,
  d_mutex D = false -> 0 < ncmds D -> ncmds D <= 4 * length (cbuf s) -> 6 <= length (cbuf s) ->
  fault s = false ->
  k_state (k s) = CS_IDLE -> k_cr (k s) = false -> k_implicit (k s) = false -> k_hold (k s) = false ->
  u_state (u s) = US_IDLE -> u_count (u s) = 0 ->
  name_ok name = true -> implicit_hit D s (upper name) = false ->
  resolve (upper name) (enabled D s) (cmds D) = Some i -> nth_error (cmds D) i = Some c ->
  c_hrun c = true -> c_only_test c = false ->
  script_of h (2, i, 0) = rs ++ rn :: more ->
  (forall r, In r rs -> terminal (spec_action K_RUN ATCMD (r_code r)) = false) ->
  terminal (spec_action K_RUN ATCMD (r_code rn)) = true -> r_code rn <> RC_HOLD ->
  r_code rn <> RC_PRINT_CMD_LIST_OK ->
  (forall r, In r (rs ++ [rn]) -> r_calls r = []) ->
  let w0 := mkw s ([ch_A; ch_T] ++ name ++ [ch_LF] ++ rest) h [] in
  exists calls, let w := nsvc D calls w0 in
    k_state (k (wst w)) = CS_IDLE /\ inq (wio w) = rest /\
    whs w = drop_script h (2, i, 0) (S (length rs)) /\
    calls_of (wtr w) = combine (repeat (HRun i) (S (length rs))) (map r_code (rs ++ [rn])) /\
    mem (wst w) = pokes_mem (flat_map r_pokes (rs ++ [rn])) (mem s) /\ fault (wst w) = false /\
    output_of (wtr w) =
      [ch_LF] ++ match spec_action K_RUN ATCMD (r_code rn) with A_OK => txt_OK | _ => txt_ERROR end ++ [ch_LF] /\
    gL (wst w) = S (gL s) /\ gS (wst w) = S (gS s) /\ gR (wst w) = S (gR s).
Proof. exact Lemmas_C10f.E2E_run_handler_sequence_proof. Qed.
Print Assumptions E2E_run_handler_sequence.

(* 2t. the RUN line as a terminal sends it *)
Theorem E2E_run_handler_sequence_t : forall D s a m0 t name' rest h i c rs rn more,
  d_mutex D = false -> 0 < ncmds D -> ncmds D <= 4 * length (cbuf s) -> 6 <= length (cbuf s) ->
  fault s = false ->
  k_state (k s) = CS_IDLE -> k_cr (k s) = false -> k_implicit (k s) = false -> k_hold (k s) = false ->
  u_state (u s) = US_IDLE -> u_count (u s) = 0 ->
  to_upper a = ch_A -> to_upper t = ch_T ->
  name_ok (no_cr name') = true -> implicit_hit D s (upper (no_cr name')) = false ->
  resolve (upper (no_cr name')) (enabled D s) (cmds D) = Some i -> nth_error (cmds D) i = Some c ->
  c_hrun c = true -> c_only_test c = false ->
  script_of h (2, i, 0) = rs ++ rn :: more ->
  (forall r, In r rs -> terminal (spec_action K_RUN ATCMD (r_code r)) = false) ->
  terminal (spec_action K_RUN ATCMD (r_code rn)) = true -> r_code rn <> RC_HOLD ->
  r_code rn <> RC_PRINT_CMD_LIST_OK ->
  (forall r, In r (rs ++ [rn]) -> r_calls r = []) ->
  let nl := nl_of ((0 <? m0) || existsb (fun c => (c =? ch_CR)%N) name') in
  let w0 := mkw s ([a] ++ repeat ch_CR m0 ++ [t] ++ name' ++ [ch_LF] ++ rest) h [] in
  exists calls, let w := nsvc D calls w0 in
    k_state (k (wst w)) = CS_IDLE /\ inq (wio w) = rest /\
    whs w = drop_script h (2, i, 0) (S (length rs)) /\
    calls_of (wtr w) = combine (repeat (HRun i) (S (length rs))) (map r_code (rs ++ [rn])) /\
    mem (wst w) = pokes_mem (flat_map r_pokes (rs ++ [rn])) (mem s) /\ fault (wst w) = false /\
    output_of (wtr w) =
      nl ++ match spec_action K_RUN ATCMD (r_code rn) with A_OK => txt_OK | _ => txt_ERROR end ++ nl /\
    gL (wst w) = S (gL s) /\ gS (wst w) = S (gS s) /\ gR (wst w) = S (gR s) /\ k_cr (k (wst w)) = false.
Proof. exact Lemmas_C10f.E2E_run_handler_sequence_t_proof. Qed.
Print Assumptions E2E_run_handler_sequence_t.

(* 3. the handler state of 1. and 2., read through script_of: the script of the handler of command i
      (kind 0 = write, 2 = run) has lost exactly the delivered results, every other script is as before *)
Theorem E2E_handler_line_script : forall h kind i (rs : list hres) rn more,
  script_of h (kind, i, 0) = rs ++ rn :: more ->
  script_of (drop_script h (kind, i, 0) (S (length rs))) (kind, i, 0) = more /\
  forall key', key' <> (kind, i, 0) ->
    script_of (drop_script h (kind, i, 0) (S (length rs))) key' = script_of h key'.
Proof. exact Lemmas_C10f.E2E_handler_line_script_proof. Qed.
Print Assumptions E2E_handler_line_script.

(* ---------- non-vacuity ----------
   table  +X (the four variables of Lemmas_E2E.E2E_examples.c0, no handlers),  +W (write handler only, no
   variables),  +G (run handler only, no variables); command buffer 40 bytes; memory m0 of
   Lemmas_E2E.E2E_examples (its fifth slot [9] belongs to no variable).
   obs = (state, remaining input, handler scripts, calls oldest first, output, memory, fault, (gL, gS, gR)) *)
Import Lemmas_E2E.E2E_examples.
Definition exfW := mkCmd [43; 87]%N None true false false false [] false false false.
Definition exfG := mkCmd [43; 71]%N None false false true false [] false false false.
Definition exfD := mkDesc [[c0; exfW; exfG]] [] 40 (Some 8) 85%N 2 false.
Definition exfs := init_state exfD m0.
Definition exfr (code : Z) (p : list (nat * list N)) : hres := mkHres code None p [].
Definition exfobs (w : sworld) :=
  (k_state (k (wst w)), inq (wio w), whs w, calls_of (wtr w), output_of (wtr w), mem (wst w), fault (wst w),
   (gL (wst w), gS (wst w), gR (wst w))).
Definition exfgo (line : list N) (h : shs) (calls : nat) := exfobs (nsvc exfD calls (mkw exfs line h [])).
(* "AT+w=aB,1" LF then 1 2 3;  "AT+g" LF then 1 2 3 *)
Definition exfwline : list N := [65; 84; 43; 119; 61; 97; 66; 44; 49; 10; 1; 2; 3]%N.
Definition exfgline : list N := [65; 84; 43; 103; 10; 1; 2; 3]%N.
Definition exfQ : hreq := HWrite 1 [97; 66; 44; 49; 0]%N 4 0.

(* both handlers answer NEXT, DATA_NEXT (and store 5 into the fifth slot), OK; one more result (ERROR) stays
   in each script; a read-handler script of command 1 is not touched *)
Definition exfrs : list hres := [exfr RC_NEXT []; exfr RC_DATA_NEXT [(4, [5]%N)]].
Definition exfrn : hres := exfr RC_OK [].
Definition exfmore : list hres := [exfr RC_ERROR []].
Definition exfh : shs :=
  [((1, 1, 0), [exfr RC_OK []]); ((0, 1, 0), exfrs ++ exfrn :: exfmore); ((2, 2, 0), exfrs ++ exfrn :: exfmore)].

(* WRITE, after exactly 31 service calls: idle, 1 2 3 still queued, the write script holds only the ERROR
   result, three calls on "aB,1" NUL / 4 / 0 answered 2, 1, 3, the output is LF O K LF, the fifth slot
   holds 5, counters (1,1,1) *)
Example E2E_write_handler_ex_run :
  exfgo exfwline exfh 31 =
    (CS_IDLE, [1; 2; 3]%N,
     [((1, 1, 0), [exfr RC_OK []]); ((0, 1, 0), exfmore); ((2, 2, 0), exfrs ++ exfrn :: exfmore)],
     [(exfQ, 2%Z); (exfQ, 1%Z); (exfQ, 3%Z)],
     [10; 79; 75; 10]%N,
     [[254; 255]; [65; 44; 34; 0; 7; 7]; [10; 255]; [200]; [5]]%N, false, (1, 1, 1)).
Proof. vm_compute. reflexivity. Qed.

(* one call earlier the line is not finished *)
Example E2E_write_handler_ex_run_30 :
  (let '(a, _, _, _, _, _, _, _) := exfgo exfwline exfh 30 in a) = CS_AFTER_RESET.
Proof. vm_compute. reflexivity. Qed.

(* RUN, after exactly 27 service calls *)
Example E2E_run_handler_ex_run :
  exfgo exfgline exfh 27 =
    (CS_IDLE, [1; 2; 3]%N,
     [((1, 1, 0), [exfr RC_OK []]); ((0, 1, 0), exfrs ++ exfrn :: exfmore); ((2, 2, 0), exfmore)],
     [(HRun 2, 2%Z); (HRun 2, 1%Z); (HRun 2, 3%Z)],
     [10; 79; 75; 10]%N,
     [[254; 255]; [65; 44; 34; 0; 7; 7]; [10; 255]; [200]; [5]]%N, false, (1, 1, 1)).
Proof. vm_compute. reflexivity. Qed.

Example E2E_run_handler_ex_run_26 :
  (let '(a, _, _, _, _, _, _, _) := exfgo exfgline exfh 26 in a) = CS_AFTER_RESET.
Proof. vm_compute. reflexivity. Qed.

(* the hypotheses of E2E_write_handler_line / E2E_run_handler_sequence hold for these instances *)
Example E2E_write_handler_ex_hyps :
  hyps_ok exfD exfs = true /\ name_ok [43; 119]%N = true /\
  implicit_hit exfD exfs (upper [43; 119]%N) = false /\
  resolve (upper [43; 119]%N) (enabled exfD exfs) (cmds exfD) = Some 1 /\
  nth_error (cmds exfD) 1 = Some exfW /\
  c_hwrite exfW = true /\ vars_access_possible exfW WO = false /\ c_only_test exfW = false /\
  existsb (fun b => (b =? ch_LF)%N) [97; 66; 44; 49]%N = false /\
  existsb (fun b => (b =? ch_CR)%N) [97; 66; 44; 49]%N = false /\
  (length [97; 66; 44; 49]%N <? length (cbuf exfs)) = true /\ test_shortcut exfW = false /\
  script_of exfh (0, 1, 0) = exfrs ++ exfrn :: exfmore /\
  forallb (fun r => negb (terminal (spec_action K_WRITE ATCMD (r_code r)))) exfrs = true /\
  terminal (spec_action K_WRITE ATCMD (r_code exfrn)) = true.
Proof. vm_compute. repeat split; reflexivity. Qed.

Example E2E_run_handler_ex_hyps :
  hyps_ok exfD exfs = true /\ name_ok [43; 103]%N = true /\
  implicit_hit exfD exfs (upper [43; 103]%N) = false /\
  resolve (upper [43; 103]%N) (enabled exfD exfs) (cmds exfD) = Some 2 /\
  nth_error (cmds exfD) 2 = Some exfG /\ c_hrun exfG = true /\ c_only_test exfG = false /\
  script_of exfh (2, 2, 0) = exfrs ++ exfrn :: exfmore /\
  forallb (fun r => negb (terminal (spec_action K_RUN ATCMD (r_code r)))) exfrs = true /\
  terminal (spec_action K_RUN ATCMD (r_code exfrn)) = true.
Proof. vm_compute. repeat split; reflexivity. Qed.

(* the general theorems applied to these instances: what they predict is what the runs above computed *)
Example E2E_write_handler_ex_apply :
  exists calls, let w := nsvc exfD calls (mkw exfs exfwline exfh []) in
    k_state (k (wst w)) = CS_IDLE /\ inq (wio w) = [1; 2; 3]%N /\
    whs w = [((1, 1, 0), [exfr RC_OK []]); ((0, 1, 0), exfmore); ((2, 2, 0), exfrs ++ exfrn :: exfmore)] /\
    calls_of (wtr w) = [(exfQ, 2%Z); (exfQ, 1%Z); (exfQ, 3%Z)] /\
    mem (wst w) = [[254; 255]; [65; 44; 34; 0; 7; 7]; [10; 255]; [200]; [5]]%N /\
    output_of (wtr w) = [10; 79; 75; 10]%N /\
    gL (wst w) = 1 /\ gS (wst w) = 1 /\ gR (wst w) = 1.
Proof.
  destruct (E2E_write_handler_line exfD exfs [43; 119]%N [97; 66; 44; 49]%N [1; 2; 3]%N exfh 1 exfW
              exfrs exfrn exfmore
              eq_refl ltac:(apply Nat.ltb_lt; reflexivity) ltac:(apply Nat.leb_le; reflexivity)
              ltac:(apply Nat.leb_le; reflexivity)
              eq_refl eq_refl eq_refl eq_refl eq_refl eq_refl eq_refl eq_refl eq_refl eq_refl eq_refl
              eq_refl eq_refl eq_refl)
    as (calls & A & B & C & E & F & _ & G & H1 & H2 & H3).
  - apply Lemmas_E2Ec.P2.notin_b. reflexivity.
  - apply Lemmas_E2Ec.P2.notin_b. reflexivity.
  - apply Nat.ltb_lt. reflexivity.
  - discriminate.
  - reflexivity.
  - intros r [X|[X|[]]]; subst r; reflexivity.
  - reflexivity.
  - discriminate.
  - intros r [X|[X|[X|[]]]]; subst r; reflexivity.
  - exists calls. cbv zeta.
    split; [exact A|]. split; [exact B|]. split; [exact C|]. split; [exact E|]. split; [exact F|].
    split; [exact G|]. split; [exact H1|]. split; [exact H2 | exact H3].
Qed.

Example E2E_run_handler_ex_apply :
  exists calls, let w := nsvc exfD calls (mkw exfs exfgline exfh []) in
    k_state (k (wst w)) = CS_IDLE /\ inq (wio w) = [1; 2; 3]%N /\
    whs w = [((1, 1, 0), [exfr RC_OK []]); ((0, 1, 0), exfrs ++ exfrn :: exfmore); ((2, 2, 0), exfmore)] /\
    calls_of (wtr w) = [(HRun 2, 2%Z); (HRun 2, 1%Z); (HRun 2, 3%Z)] /\
    mem (wst w) = [[254; 255]; [65; 44; 34; 0; 7; 7]; [10; 255]; [200]; [5]]%N /\
    output_of (wtr w) = [10; 79; 75; 10]%N /\
    gL (wst w) = 1 /\ gS (wst w) = 1 /\ gR (wst w) = 1.
Proof.
  destruct (E2E_run_handler_sequence exfD exfs [43; 103]%N [1; 2; 3]%N exfh 2 exfG exfrs exfrn exfmore
              eq_refl ltac:(apply Nat.ltb_lt; reflexivity) ltac:(apply Nat.leb_le; reflexivity)
              ltac:(apply Nat.leb_le; reflexivity)
              eq_refl eq_refl eq_refl eq_refl eq_refl eq_refl eq_refl eq_refl eq_refl eq_refl eq_refl
              eq_refl eq_refl)
    as (calls & A & B & C & E & F & _ & G & H1 & H2 & H3).
  - reflexivity.
  - intros r [X|[X|[]]]; subst r; reflexivity.
  - reflexivity.
  - discriminate.
  - discriminate.
  - intros r [X|[X|[X|[]]]]; subst r; reflexivity.
  - exists calls. cbv zeta.
    split; [exact A|]. split; [exact B|]. split; [exact C|]. split; [exact E|]. split; [exact F|].
    split; [exact G|]. split; [exact H1|]. split; [exact H2 | exact H3].
Qed.

(* instances ending in ERROR.  WRITE: DATA_NEXT, then HOLD_EXIT_OK, which the write loop does not know:
   LF E R R O R LF after exactly 33 service calls.  RUN: NEXT, then the integer 42: 29 service calls *)
Definition exfh2 : shs :=
  [((0, 1, 0), [exfr RC_DATA_NEXT []; exfr RC_HOLD_EXIT_OK []]); ((2, 2, 0), [exfr RC_NEXT []; exfr 42%Z []])].

Example E2E_write_handler_ex_error_run :
  exfgo exfwline exfh2 33 =
    (CS_IDLE, [1; 2; 3]%N, [((0, 1, 0), []); ((2, 2, 0), [exfr RC_NEXT []; exfr 42%Z []])],
     [(exfQ, 1%Z); (exfQ, 5%Z)],
     [10; 69; 82; 82; 79; 82; 10]%N, m0, false, (1, 1, 1)).
Proof. vm_compute. reflexivity. Qed.

Example E2E_run_handler_ex_error_run :
  exfgo exfgline exfh2 29 =
    (CS_IDLE, [1; 2; 3]%N, [((0, 1, 0), [exfr RC_DATA_NEXT []; exfr RC_HOLD_EXIT_OK []]); ((2, 2, 0), [])],
     [(HRun 2, 2%Z); (HRun 2, 42%Z)],
     [10; 69; 82; 82; 79; 82; 10]%N, m0, false, (1, 1, 1)).
Proof. vm_compute. reflexivity. Qed.

Example E2E_write_handler_ex_error_apply :
  exists calls, let w := nsvc exfD calls (mkw exfs exfwline exfh2 []) in
    k_state (k (wst w)) = CS_IDLE /\ inq (wio w) = [1; 2; 3]%N /\
    whs w = [((0, 1, 0), []); ((2, 2, 0), [exfr RC_NEXT []; exfr 42%Z []])] /\
    calls_of (wtr w) = [(exfQ, 1%Z); (exfQ, 5%Z)] /\ mem (wst w) = m0 /\
    output_of (wtr w) = [10; 69; 82; 82; 79; 82; 10]%N.
Proof.
  destruct (E2E_write_handler_line exfD exfs [43; 119]%N [97; 66; 44; 49]%N [1; 2; 3]%N exfh2 1 exfW
              [exfr RC_DATA_NEXT []] (exfr RC_HOLD_EXIT_OK []) []
              eq_refl ltac:(apply Nat.ltb_lt; reflexivity) ltac:(apply Nat.leb_le; reflexivity)
              ltac:(apply Nat.leb_le; reflexivity)
              eq_refl eq_refl eq_refl eq_refl eq_refl eq_refl eq_refl eq_refl eq_refl eq_refl eq_refl
              eq_refl eq_refl eq_refl)
    as (calls & A & B & C & E & F & _ & G & _).
  - apply Lemmas_E2Ec.P2.notin_b. reflexivity.
  - apply Lemmas_E2Ec.P2.notin_b. reflexivity.
  - apply Nat.ltb_lt. reflexivity.
  - discriminate.
  - reflexivity.
  - intros r [X|[]]; subst r; reflexivity.
  - reflexivity.
  - discriminate.
  - intros r [X|[X|[]]]; subst r; reflexivity.
  - exists calls. cbv zeta.
    split; [exact A|]. split; [exact B|]. split; [exact C|]. split; [exact E|]. split; [exact F | exact G].
Qed.

Example E2E_run_handler_ex_error_apply :
  exists calls, let w := nsvc exfD calls (mkw exfs exfgline exfh2 []) in
    k_state (k (wst w)) = CS_IDLE /\ inq (wio w) = [1; 2; 3]%N /\
    whs w = [((0, 1, 0), [exfr RC_DATA_NEXT []; exfr RC_HOLD_EXIT_OK []]); ((2, 2, 0), [])] /\
    calls_of (wtr w) = [(HRun 2, 2%Z); (HRun 2, 42%Z)] /\ mem (wst w) = m0 /\
    output_of (wtr w) = [10; 69; 82; 82; 79; 82; 10]%N.
Proof.
  destruct (E2E_run_handler_sequence exfD exfs [43; 103]%N [1; 2; 3]%N exfh2 2 exfG
              [exfr RC_NEXT []] (exfr 42%Z []) []
              eq_refl ltac:(apply Nat.ltb_lt; reflexivity) ltac:(apply Nat.leb_le; reflexivity)
              ltac:(apply Nat.leb_le; reflexivity)
              eq_refl eq_refl eq_refl eq_refl eq_refl eq_refl eq_refl eq_refl eq_refl eq_refl eq_refl
              eq_refl eq_refl)
    as (calls & A & B & C & E & F & _ & G & _).
  - reflexivity.
  - intros r [X|[]]; subst r; reflexivity.
  - reflexivity.
  - discriminate.
  - discriminate.
  - intros r [X|[X|[]]]; subst r; reflexivity.
  - exists calls. cbv zeta.
    split; [exact A|]. split; [exact B|]. split; [exact C|]. split; [exact E|]. split; [exact F | exact G].
Qed.

(* the ending codes, on the lines "AT+w=aB,1" LF / "AT+g" LF with nothing after them (60 service calls; an
   idle parser with an empty queue stays idle): OK, DATA_OK -> OK; ERROR, HOLD_EXIT_OK, HOLD_EXIT_ERROR,
   PRINT_CMD_LIST_OK (write handler only), an integer outside the enumeration -> ERROR *)
Example E2E_write_handler_ex_codes :
  map (fun code =>
         let w := nsvc exfD 60 (mkw exfs [65; 84; 43; 119; 61; 97; 66; 44; 49; 10]%N
                                    [((0, 1, 0), [exfr code []])] []) in
         (k_state (k (wst w)), output_of (wtr w), calls_of (wtr w)))
      [RC_OK; RC_DATA_OK; RC_ERROR; RC_HOLD_EXIT_OK; RC_HOLD_EXIT_ERROR; RC_PRINT_CMD_LIST_OK; 42%Z] =
  [ (CS_IDLE, [10; 79; 75; 10]%N, [(exfQ, 3%Z)]); (CS_IDLE, [10; 79; 75; 10]%N, [(exfQ, 0%Z)]);
    (CS_IDLE, [10; 69; 82; 82; 79; 82; 10]%N, [(exfQ, (-1)%Z)]);
    (CS_IDLE, [10; 69; 82; 82; 79; 82; 10]%N, [(exfQ, 5%Z)]);
    (CS_IDLE, [10; 69; 82; 82; 79; 82; 10]%N, [(exfQ, 6%Z)]);
    (CS_IDLE, [10; 69; 82; 82; 79; 82; 10]%N, [(exfQ, 7%Z)]);
    (CS_IDLE, [10; 69; 82; 82; 79; 82; 10]%N, [(exfQ, 42%Z)]) ].
Proof. vm_compute. reflexivity. Qed.

Example E2E_run_handler_ex_codes :
  map (fun code =>
         let w := nsvc exfD 60 (mkw exfs [65; 84; 43; 103; 10]%N [((2, 2, 0), [exfr code []])] []) in
         (k_state (k (wst w)), output_of (wtr w), calls_of (wtr w)))
      [RC_OK; RC_DATA_OK; RC_ERROR; RC_HOLD_EXIT_OK; RC_HOLD_EXIT_ERROR; 42%Z] =
  [ (CS_IDLE, [10; 79; 75; 10]%N, [(HRun 2, 3%Z)]); (CS_IDLE, [10; 79; 75; 10]%N, [(HRun 2, 0%Z)]);
    (CS_IDLE, [10; 69; 82; 82; 79; 82; 10]%N, [(HRun 2, (-1)%Z)]);
    (CS_IDLE, [10; 69; 82; 82; 79; 82; 10]%N, [(HRun 2, 5%Z)]);
    (CS_IDLE, [10; 69; 82; 82; 79; 82; 10]%N, [(HRun 2, 6%Z)]);
    (CS_IDLE, [10; 69; 82; 82; 79; 82; 10]%N, [(HRun 2, 42%Z)]) ].
Proof. vm_compute. reflexivity. Qed.

(* a line as a terminal sends it:  a CR t + w = CR x CR LF  then 7.  The handler sees "x" NUL / 1 / 0 three
   times; the answer is CR LF O K CR LF after exactly 33 service calls *)
Definition exfwline_cr : list N := [97; 13; 116; 43; 119; 61; 13; 120; 13; 10; 7]%N.
Definition exfQx : hreq := HWrite 1 [120; 0]%N 1 0.

Example E2E_write_handler_ex_crlf_run :
  exfgo exfwline_cr exfh 33 =
    (CS_IDLE, [7]%N,
     [((1, 1, 0), [exfr RC_OK []]); ((0, 1, 0), exfmore); ((2, 2, 0), exfrs ++ exfrn :: exfmore)],
     [(exfQx, 2%Z); (exfQx, 1%Z); (exfQx, 3%Z)],
     [13; 10; 79; 75; 13; 10]%N,
     [[254; 255]; [65; 44; 34; 0; 7; 7]; [10; 255]; [200]; [5]]%N, false, (1, 1, 1)).
Proof. vm_compute. reflexivity. Qed.

Example E2E_write_handler_ex_crlf_apply :
  exists calls, let w := nsvc exfD calls (mkw exfs exfwline_cr exfh []) in
    k_state (k (wst w)) = CS_IDLE /\ inq (wio w) = [7]%N /\
    calls_of (wtr w) = [(exfQx, 2%Z); (exfQx, 1%Z); (exfQx, 3%Z)] /\
    mem (wst w) = [[254; 255]; [65; 44; 34; 0; 7; 7]; [10; 255]; [200]; [5]]%N /\
    output_of (wtr w) = [13; 10; 79; 75; 13; 10]%N /\ k_cr (k (wst w)) = false.
Proof.
  destruct (E2E_write_handler_line_t exfD exfs 97%N 1 116%N [43; 119]%N [13; 120; 13]%N [7]%N exfh 1 exfW
              exfrs exfrn exfmore
              eq_refl ltac:(apply Nat.ltb_lt; reflexivity) ltac:(apply Nat.leb_le; reflexivity)
              ltac:(apply Nat.leb_le; reflexivity)
              eq_refl eq_refl eq_refl eq_refl eq_refl eq_refl eq_refl eq_refl eq_refl eq_refl eq_refl
              eq_refl eq_refl eq_refl eq_refl eq_refl)
    as (calls & A & B & _ & E & F & _ & G & _ & _ & _ & H).
  - apply Lemmas_E2Ec.P2.notin_b. reflexivity.
  - apply Nat.ltb_lt. reflexivity.
  - discriminate.
  - reflexivity.
  - intros r [X|[X|[]]]; subst r; reflexivity.
  - reflexivity.
  - discriminate.
  - intros r [X|[X|[X|[]]]]; subst r; reflexivity.
  - exists calls. cbv zeta.
    split; [exact A|]. split; [exact B|]. split; [exact E|]. split; [exact F|]. split; [exact G | exact H].
Qed.

(* the RUN line  a t CR + G LF  then 7:  CR LF O K CR LF after exactly 30 service calls *)
Definition exfgline_cr : list N := [97; 116; 13; 43; 71; 10; 7]%N.
Example E2E_run_handler_ex_crlf_run :
  (let '(a, q, _, cl, o, _, _, _) := exfgo exfgline_cr exfh 30 in (a, q, cl, o)) =
    (CS_IDLE, [7]%N, [(HRun 2, 2%Z); (HRun 2, 1%Z); (HRun 2, 3%Z)], [13; 10; 79; 75; 13; 10]%N).
Proof. vm_compute. reflexivity. Qed.

(* the test shortcut side condition is needed: for a command with a test handler, '?' as the first argument
   byte is the =? form, the write handler is not called *)
Definition exfWT := mkCmd [43; 87]%N None true false false true [] false false false.
Definition exfDT := mkDesc [[c0; exfWT]] [] 40 (Some 8) 85%N 2 false.
Example E2E_write_handler_ex_shortcut_needed :
  test_shortcut exfWT = true /\
  (let w := nsvc exfDT 60 (mkw (init_state exfDT m0) [65; 84; 43; 119; 61; 63; 10]%N [] []) in
   map fst (calls_of (wtr w))) = [HTest ATCMD 1 [43; 87; 61; 0]%N 3 40].
Proof. vm_compute. split; reflexivity. Qed.

(* ====================================================================================== *)
(* PART T — the TEST line served by a test handler (proofs: Lemmas_C10ft.v) *)
(* property C10 (handler return codes drive the response), end to end for a TEST
   handler: the BYTES of a whole TEST line  AT<name>=? LF  served by a test handler.  Companion of
   Properties_C10e.v (READ line served by a read handler) and Properties_C19t.v (TEST line answered from the
   descriptor alone, c_htest c = false).
   On the scripted always-ready environment of Script.v (both io schedules empty, the event machine idle with
   an empty queue, no mutex), for a command with a test handler (c_htest c = true; any variables, any
   description) that is not an implicit-write command, whose automatic '=?' text  txt = Spec.spec_test_text c LF
        name = <info of variable 1> , ... , <info of variable n>  [ LF description ]
   exists and fits the command buffer (length < size: room for the NUL), and whose handler's script answers
   rs ++ [rn] where every result of rs continues (RC_DATA_NEXT: emit the buffer as one unit, RE-FORMAT the
   text, call again; RC_NEXT: re-format, call again) and rn ends (any integer whose table action is terminal,
   except RC_HOLD and RC_PRINT_CMD_LIST_OK), and no result makes inner API calls:
   after some number of cat_service calls the parser is idle again, has consumed exactly the line, has
   called the handler once per result — EVERY call on the fresh text  txt NUL  at position |txt| with the
   capacity of the buffer (each re-format reproduces txt: neither the descriptor nor the newline flag
   change, and stores into variables do not change the TEST text) — and has written exactly
        LF unit_1 LF  ...  LF unit_k LF   LF OK LF   (or LF ERROR LF)
   where the units are Lemmas_C10.units_of (one per DATA_NEXT / DATA_OK: the text the handler left in the
   buffer, i.e. the text of its edit up to its first NUL, or txt if it did not edit; units_of is written with
   the K_READ row of the table, Properties_C10b.C10_unit_of_any_row says the K_TEST row gives the same),
   OK / ERROR is decided by the table RespDefs.spec_action K_TEST ATCMD for rn; the handler's script has lost
   exactly the delivered results; the memory is the initial one after the handlers' stores (r_pokes), in
   order; the ghost counters gL (lines), gS (started result codes), gR (completely emitted result codes)
   each advanced by one.  The re-formatting goes through CS_FORMAT_TEST_ARGS, one service call per variable.
   Codes: OK -> OK; DATA_OK -> unit, OK; HOLD_EXIT_OK (nothing is held) -> OK; ERROR, HOLD_EXIT_ERROR and
   every other integer -> ERROR.
   OUT OF SCOPE (hypotheses): RC_PRINT_CMD_LIST_OK as the ending code — the table action is A_LIST: on the
   command machine the command list is printed, then OK (see C10ft_examples.ex_list for one run and
   Properties_C19e.E2E_list_line for the list as a theorem); RC_HOLD (the command is suspended: C14/C15);
   inner API calls of the handler (they wake the event machine).
   Terminal input (lower-case at, carriage returns anywhere before the line feed, typically CR LF):
   E2E_test_handler_line_t — the newline of the line is then CR LF, around every unit and the result code
   and also INSIDE the fresh text before the description: txt = spec_test_text c [CR; LF].
   The complementary line (no text because a variable has an unsupported width, or the text does not fit):
   ERROR and NO handler call, E2E_test_nofit_line (E2E_test_nofit_line_t for terminal input) — whether or
   not the command has a test handler.
   Proofs: Lemmas_C10ft.v. *)
From CatV Require Lemmas_C10ft.
Local Notation units_of := Lemmas_C10.units_of.
Local Notation unit_of := Lemmas_C10.unit_of.
Local Notation edit_text := Lemmas_C10.edit_text.

(* 1. THE theorem: the whole line, stores into variables and edits allowed; the fresh text has no NUL
      (C strings in the descriptor: Properties_C19t.spec_test_text_no_nul derives it from the components) *)
Theorem E2E_test_handler_line : forall D s name rest h i c txt rs rn more,
  d_mutex D = false -> 0 < ncmds D -> ncmds D <= 4 * length (cbuf s) -> 6 <= length (cbuf s) ->
  fault s = false ->
  k_state (k s) = CS_IDLE -> k_cr (k s) = false -> k_implicit (k s) = false -> k_hold (k s) = false ->
  u_state (u s) = US_IDLE -> u_count (u s) = 0 ->
  name_ok name = true -> implicit_hit D s (upper name) = false ->
  resolve (upper name) (enabled D s) (cmds D) = Some i -> nth_error (cmds D) i = Some c ->
  c_htest c = true -> c_implicit c = false ->
  spec_test_text c [ch_LF] = Some txt -> ~ In 0%N txt -> length txt < length (cbuf s) ->
  script_of h (3, i, 0) = rs ++ rn :: more ->
  (forall r, In r rs -> terminal (spec_action K_TEST ATCMD (r_code r)) = false) ->
  terminal (spec_action K_TEST ATCMD (r_code rn)) = true -> r_code rn <> RC_HOLD ->
  r_code rn <> RC_PRINT_CMD_LIST_OK ->
  (forall r, In r (rs ++ [rn]) -> r_calls r = []) ->
  let bsz := length (cbuf s) in
  let units := units_of bsz txt txt (rs ++ [rn]) in
  let w0 := mkw s ([ch_A; ch_T] ++ name ++ [ch_EQ; ch_QM; ch_LF] ++ rest) h [] in
  exists calls, let w := nsvc D calls w0 in
    k_state (k (wst w)) = CS_IDLE /\ inq (wio w) = rest /\
    whs w = drop_script h (3, i, 0) (S (length rs)) /\
    calls_of (wtr w) =
      combine (repeat (HTest ATCMD i (txt ++ [0%N]) (length txt) bsz) (S (length rs)))
              (map r_code (rs ++ [rn])) /\
    mem (wst w) = pokes_mem (flat_map r_pokes (rs ++ [rn])) (mem s) /\ fault (wst w) = false /\
    output_of (wtr w) =
      concat (map (fun u => [ch_LF] ++ u ++ [ch_LF]) units) ++
      [ch_LF] ++ match spec_action K_TEST ATCMD (r_code rn) with
                 | A_OK | A_EMIT_OK | A_RELEASE_OK => txt_OK
                 | _ => txt_ERROR
                 end ++ [ch_LF] /\
    gL (wst w) = S (gL s) /\ gS (wst w) = S (gS s) /\ gR (wst w) = S (gR s).
Proof. exact Lemmas_C10ft.E2E_test_handler_line_proof. Qed.
Print Assumptions E2E_test_handler_line.

(* 2. without the NUL hypothesis: the handler is still called on the text as formatted (txt NUL at |txt|);
      a unit the handler does not edit prints TextDefs.text_of txt, the text up to its first NUL *)
Theorem E2E_test_handler_line_nul : forall D s name rest h i c txt rs rn more,
  d_mutex D = false -> 0 < ncmds D -> ncmds D <= 4 * length (cbuf s) -> 6 <= length (cbuf s) ->
  fault s = false ->
  k_state (k s) = CS_IDLE -> k_cr (k s) = false -> k_implicit (k s) = false -> k_hold (k s) = false ->
  u_state (u s) = US_IDLE -> u_count (u s) = 0 ->
  name_ok name = true -> implicit_hit D s (upper name) = false ->
  resolve (upper name) (enabled D s) (cmds D) = Some i -> nth_error (cmds D) i = Some c ->
  c_htest c = true -> c_implicit c = false ->
  spec_test_text c [ch_LF] = Some txt -> length txt < length (cbuf s) ->
  script_of h (3, i, 0) = rs ++ rn :: more ->
  (forall r, In r rs -> terminal (spec_action K_TEST ATCMD (r_code r)) = false) ->
  terminal (spec_action K_TEST ATCMD (r_code rn)) = true -> r_code rn <> RC_HOLD ->
  r_code rn <> RC_PRINT_CMD_LIST_OK ->
  (forall r, In r (rs ++ [rn]) -> r_calls r = []) ->
  let bsz := length (cbuf s) in
  let units := units_of bsz (text_of txt) (text_of txt) (rs ++ [rn]) in
  let w0 := mkw s ([ch_A; ch_T] ++ name ++ [ch_EQ; ch_QM; ch_LF] ++ rest) h [] in
  exists calls, let w := nsvc D calls w0 in
    k_state (k (wst w)) = CS_IDLE /\ inq (wio w) = rest /\
    whs w = drop_script h (3, i, 0) (S (length rs)) /\
    calls_of (wtr w) =
      combine (repeat (HTest ATCMD i (txt ++ [0%N]) (length txt) bsz) (S (length rs)))
              (map r_code (rs ++ [rn])) /\
    mem (wst w) = pokes_mem (flat_map r_pokes (rs ++ [rn])) (mem s) /\ fault (wst w) = false /\
    output_of (wtr w) =
      concat (map (fun u => [ch_LF] ++ u ++ [ch_LF]) units) ++
      [ch_LF] ++ match spec_action K_TEST ATCMD (r_code rn) with
                 | A_OK | A_EMIT_OK | A_RELEASE_OK => txt_OK
                 | _ => txt_ERROR
                 end ++ [ch_LF] /\
    gL (wst w) = S (gL s) /\ gS (wst w) = S (gS s) /\ gR (wst w) = S (gR s).
Proof. exact Lemmas_C10ft.E2E_test_handler_line_nul_proof. Qed.
Print Assumptions E2E_test_handler_line_nul.

(* 3. the handler state of 1. and 2., read through script_of: the script of the test handler of command i
      (key (3, i, 0): Script.key_of (HTest _ i _ _ _)) has lost exactly the delivered results, every other
      script is as before *)
Theorem E2E_test_handler_line_script : forall h i (rs : list hres) rn more,
  script_of h (3, i, 0) = rs ++ rn :: more ->
  script_of (drop_script h (3, i, 0) (S (length rs))) (3, i, 0) = more /\
  forall key', key' <> (3, i, 0) ->
    script_of (drop_script h (3, i, 0) (S (length rs))) key' = script_of h key'.
Proof. exact Lemmas_C10ft.E2E_test_handler_line_script_proof. Qed.
Print Assumptions E2E_test_handler_line_script.

Theorem E2E_test_handler_key : forall f i t p b, key_of (HTest f i t p b) = (3, i, 0).
Proof. exact Lemmas_C10ft.key_of_test. Qed.
Print Assumptions E2E_test_handler_key.

(* 4. the complementary line: there is no text (a variable of an unsupported width) or it does not fit the
      buffer: ERROR, and the test handler is NOT called (calls_of = [], handler scripts untouched).  Holds
      for every command that accepts the '=?' shortcut: a test handler or at least one variable. *)
Theorem E2E_test_nofit_line : forall D s name rest h i c,
  d_mutex D = false -> 0 < ncmds D -> ncmds D <= 4 * length (cbuf s) -> 6 <= length (cbuf s) ->
  fault s = false ->
  k_state (k s) = CS_IDLE -> k_cr (k s) = false -> k_implicit (k s) = false -> k_hold (k s) = false ->
  u_state (u s) = US_IDLE -> u_count (u s) = 0 ->
  name_ok name = true -> implicit_hit D s (upper name) = false ->
  resolve (upper name) (enabled D s) (cmds D) = Some i -> nth_error (cmds D) i = Some c ->
  (c_htest c = true \/ c_vars c <> []) -> c_implicit c = false ->
  match spec_test_text c [ch_LF] with
  | Some txt => length (cbuf s) <= length txt
  | None => True
  end ->
  let w0 := mkw s ([ch_A; ch_T] ++ name ++ [ch_EQ; ch_QM; ch_LF] ++ rest) h [] in
  exists calls, let w := nsvc D calls w0 in
    k_state (k (wst w)) = CS_IDLE /\ inq (wio w) = rest /\ whs w = h /\ calls_of (wtr w) = [] /\
    mem (wst w) = mem s /\ fault (wst w) = false /\
    output_of (wtr w) = [ch_LF] ++ txt_ERROR ++ [ch_LF] /\
    gL (wst w) = S (gL s) /\ gS (wst w) = S (gS s) /\ gR (wst w) = S (gR s).
Proof. exact Lemmas_C10ft.E2E_test_nofit_line_proof. Qed.
Print Assumptions E2E_test_nofit_line.

(* 5. the line as a terminal sends it (E2E_test_handler_line for terminal input, in the style of
      Properties_C02t.v): A or a, m0 carriage returns, T or t, the name in any letter case with carriage
      returns anywhere, '=', m1 carriage returns, '?', m2 carriage returns, LF.  If any carriage return was
      seen the newline of this line is CR LF: around every unit, around the result code, and inside the
      fresh text before the description (txt = spec_test_text c nl); the handler is called on that text.
      Afterwards the newline flag is clear again. *)
Theorem E2E_test_handler_line_t : forall D s a m0 t name' m1 m2 rest h i c txt rs rn more,
  d_mutex D = false -> 0 < ncmds D -> ncmds D <= 4 * length (cbuf s) -> 6 <= length (cbuf s) ->
  fault s = false ->
  k_state (k s) = CS_IDLE -> k_cr (k s) = false -> k_implicit (k s) = false -> k_hold (k s) = false ->
  u_state (u s) = US_IDLE -> u_count (u s) = 0 ->
  to_upper a = ch_A -> to_upper t = ch_T ->
  name_ok (no_cr name') = true -> implicit_hit D s (upper (no_cr name')) = false ->
  resolve (upper (no_cr name')) (enabled D s) (cmds D) = Some i -> nth_error (cmds D) i = Some c ->
  c_htest c = true -> c_implicit c = false ->
  let cr := (0 <? m0) || existsb (fun c => (c =? ch_CR)%N) name' || (0 <? m1) || (0 <? m2) in
  let nl := if cr then [ch_CR; ch_LF] else [ch_LF] in
  spec_test_text c nl = Some txt -> ~ In 0%N txt -> length txt < length (cbuf s) ->
  script_of h (3, i, 0) = rs ++ rn :: more ->
  (forall r, In r rs -> terminal (spec_action K_TEST ATCMD (r_code r)) = false) ->
  terminal (spec_action K_TEST ATCMD (r_code rn)) = true -> r_code rn <> RC_HOLD ->
  r_code rn <> RC_PRINT_CMD_LIST_OK ->
  (forall r, In r (rs ++ [rn]) -> r_calls r = []) ->
  let bsz := length (cbuf s) in
  let units := units_of bsz txt txt (rs ++ [rn]) in
  let w0 := mkw s ([a] ++ repeat ch_CR m0 ++ [t] ++ name' ++ [ch_EQ] ++ repeat ch_CR m1 ++ [ch_QM] ++
                   repeat ch_CR m2 ++ [ch_LF] ++ rest) h [] in
  exists calls, let w := nsvc D calls w0 in
    k_state (k (wst w)) = CS_IDLE /\ inq (wio w) = rest /\
    whs w = drop_script h (3, i, 0) (S (length rs)) /\
    calls_of (wtr w) =
      combine (repeat (HTest ATCMD i (txt ++ [0%N]) (length txt) bsz) (S (length rs)))
              (map r_code (rs ++ [rn])) /\
    mem (wst w) = pokes_mem (flat_map r_pokes (rs ++ [rn])) (mem s) /\ fault (wst w) = false /\
    output_of (wtr w) =
      concat (map (fun u => nl ++ u ++ nl) units) ++
      nl ++ match spec_action K_TEST ATCMD (r_code rn) with
            | A_OK | A_EMIT_OK | A_RELEASE_OK => txt_OK
            | _ => txt_ERROR
            end ++ nl /\
    gL (wst w) = S (gL s) /\ gS (wst w) = S (gS s) /\ gR (wst w) = S (gR s) /\ k_cr (k (wst w)) = false.
Proof. exact Lemmas_C10ft.E2E_test_handler_line_t_proof. Qed.
Print Assumptions E2E_test_handler_line_t.

(* 6. the complementary line as a terminal sends it *)
Theorem E2E_test_nofit_line_t : forall D s a m0 t name' m1 m2 rest h i c,
  d_mutex D = false -> 0 < ncmds D -> ncmds D <= 4 * length (cbuf s) -> 6 <= length (cbuf s) ->
  fault s = false ->
  k_state (k s) = CS_IDLE -> k_cr (k s) = false -> k_implicit (k s) = false -> k_hold (k s) = false ->
  u_state (u s) = US_IDLE -> u_count (u s) = 0 ->
  to_upper a = ch_A -> to_upper t = ch_T ->
  name_ok (no_cr name') = true -> implicit_hit D s (upper (no_cr name')) = false ->
  resolve (upper (no_cr name')) (enabled D s) (cmds D) = Some i -> nth_error (cmds D) i = Some c ->
  (c_htest c = true \/ c_vars c <> []) -> c_implicit c = false ->
  let cr := (0 <? m0) || existsb (fun c => (c =? ch_CR)%N) name' || (0 <? m1) || (0 <? m2) in
  let nl := if cr then [ch_CR; ch_LF] else [ch_LF] in
  match spec_test_text c nl with
  | Some txt => length (cbuf s) <= length txt
  | None => True
  end ->
  let w0 := mkw s ([a] ++ repeat ch_CR m0 ++ [t] ++ name' ++ [ch_EQ] ++ repeat ch_CR m1 ++ [ch_QM] ++
                   repeat ch_CR m2 ++ [ch_LF] ++ rest) h [] in
  exists calls, let w := nsvc D calls w0 in
    k_state (k (wst w)) = CS_IDLE /\ inq (wio w) = rest /\ whs w = h /\ calls_of (wtr w) = [] /\
    mem (wst w) = mem s /\ fault (wst w) = false /\
    output_of (wtr w) = nl ++ txt_ERROR ++ nl /\
    gL (wst w) = S (gL s) /\ gS (wst w) = S (gS s) /\ gR (wst w) = S (gR s) /\ k_cr (k (wst w)) = false.
Proof. exact Lemmas_C10ft.E2E_test_nofit_line_t_proof. Qed.
Print Assumptions E2E_test_nofit_line_t.

(* 7. the table row used above, as a checked equation: what each integer means for a test handler on the
      command machine (RespDefs.spec_action K_TEST ATCMD), and the only code that gives A_LIST *)
Theorem E2E_test_handler_codes :
  spec_action K_TEST ATCMD RC_OK = A_OK /\ spec_action K_TEST ATCMD RC_DATA_OK = A_EMIT_OK /\
  spec_action K_TEST ATCMD RC_DATA_NEXT = A_EMIT_AGAIN /\ spec_action K_TEST ATCMD RC_NEXT = A_REFORMAT_AGAIN /\
  spec_action K_TEST ATCMD RC_HOLD = A_HOLD /\ spec_action K_TEST ATCMD RC_HOLD_EXIT_OK = A_RELEASE_OK /\
  spec_action K_TEST ATCMD RC_HOLD_EXIT_ERROR = A_RELEASE_ERROR /\
  spec_action K_TEST ATCMD RC_PRINT_CMD_LIST_OK = A_LIST /\ spec_action K_TEST ATCMD RC_ERROR = A_ERROR /\
  forall code, spec_action K_TEST ATCMD code = A_LIST -> code = RC_PRINT_CMD_LIST_OK.
Proof. repeat (split; [reflexivity|]). exact Lemmas_C10ft.spec_test_list. Qed.
Print Assumptions E2E_test_handler_codes.

(* ---------- non-vacuity ----------
   table  +X (the four variables of Lemmas_E2E.E2E_examples.c0, no handlers)  and  +T : test handler only,
   description "hi", one variable x : UINT8 RW;  command buffer 40 bytes; memory m0 of
   Lemmas_E2E.E2E_examples (its fifth slot [9] belongs to no variable).  Line: "AT+t=?" LF then 1 2 3.
   The fresh text is  +T=<x:UINT8[RW]> LF hi  (19 bytes).
   obs = (state, remaining input, handler scripts, calls oldest first, output, memory, fault, (gL, gS, gR)) *)
Module C10ft_examples.
Import Lemmas_E2E.E2E_examples.
Definition ftx := mkVar (Some [120]%N) VUint 1 RW false false 3.
Definition ftT := mkCmd [43; 84]%N (Some [104; 105]%N) false false false true [ftx] false false false.
Definition ftD := mkDesc [[c0; ftT]] [] 40 (Some 8) 85%N 2 false.
Definition fts := init_state ftD m0.
Definition ftr (code : Z) (e : option (list N)) (p : list (nat * list N)) : hres := mkHres code e p [].
Definition ftline : list N := [65; 84; 43; 116; 61; 63; 10; 1; 2; 3]%N.
Definition fttxt : list N := [43; 84; 61; 60; 120; 58; 85; 73; 78; 84; 56; 91; 82; 87; 93; 62; 10; 104; 105]%N.
Definition ftobs (w : sworld) :=
  (k_state (k (wst w)), inq (wio w), whs w, calls_of (wtr w), output_of (wtr w), mem (wst w), fault (wst w),
   (gL (wst w), gS (wst w), gR (wst w))).
Definition ftgo (h : shs) (calls : nat) := ftobs (nsvc ftD calls (mkw fts ftline h [])).
Definition ftQ : hreq := HTest ATCMD 1 (fttxt ++ [0%N]) 19 40.

Example ex_text : spec_test_text ftT [ch_LF] = Some fttxt.
Proof. vm_compute. reflexivity. Qed.

(* the test handler of +T answers DATA_NEXT (text "ab"), NEXT (and stores 5 into the fifth slot),
   DATA_OK (text "c"); one more result (ERROR) stays in its script; a run-handler script of command 0 is
   not touched *)
Definition ftrs : list hres :=
  [ftr RC_DATA_NEXT (Some [97; 98]%N) []; ftr RC_NEXT None [(4, [5]%N)]].
Definition ftrn : hres := ftr RC_DATA_OK (Some [99]%N) [].
Definition ftmore : list hres := [ftr RC_ERROR None []].
Definition fth : shs := [((2, 0, 0), [ftr RC_OK None []]); ((3, 1, 0), ftrs ++ ftrn :: ftmore)].

(* after exactly 46 service calls: idle, 1 2 3 still queued, the script holds only the ERROR result,
   three calls on the fresh text NUL / 19 / 40 answered 1, 2, 0 (although the first call replaced the text
   by "ab": the text is formatted again, one service call for the variable, before each further call),
   the output is  LF a b LF  LF c LF  LF O K LF,  the fifth slot holds 5, counters (1,1,1) *)
Example ex_run :
  ftgo fth 46 =
    (CS_IDLE, [1; 2; 3]%N, [((2, 0, 0), [ftr RC_OK None []]); ((3, 1, 0), ftmore)],
     [(ftQ, 1%Z); (ftQ, 2%Z); (ftQ, 0%Z)],
     [10; 97; 98; 10;  10; 99; 10;  10; 79; 75; 10]%N,
     [[254; 255]; [65; 44; 34; 0; 7; 7]; [10; 255]; [200]; [5]]%N, false, (1, 1, 1)).
Proof. vm_compute. reflexivity. Qed.

(* one call earlier the line is not finished *)
Example ex_run_45 :
  (let '(a, _, _, _, _, _, _, _) := ftgo fth 45 in a) = CS_AFTER_RESET.
Proof. vm_compute. reflexivity. Qed.

(* the hypotheses of E2E_test_handler_line hold for this instance *)
Example ex_hyps :
  hyps_ok ftD fts = true /\ name_ok [43; 116]%N = true /\
  implicit_hit ftD fts (upper [43; 116]%N) = false /\
  resolve (upper [43; 116]%N) (enabled ftD fts) (cmds ftD) = Some 1 /\
  nth_error (cmds ftD) 1 = Some ftT /\ c_htest ftT = true /\ c_implicit ftT = false /\
  spec_test_text ftT [ch_LF] = Some fttxt /\ forallb (fun x => negb (x =? 0)%N) fttxt = true /\
  (length fttxt <? length (cbuf fts)) = true /\
  script_of fth (3, 1, 0) = ftrs ++ ftrn :: ftmore /\
  forallb (fun r => negb (terminal (spec_action K_TEST ATCMD (r_code r)))) ftrs = true /\
  terminal (spec_action K_TEST ATCMD (r_code ftrn)) = true.
Proof. vm_compute. repeat split; reflexivity. Qed.

Lemma ex_nonul : ~ In 0%N fttxt.
Proof. unfold fttxt. cbn [In]. intros H. repeat (destruct H as [H|H]; [discriminate H|]). exact H. Qed.

(* the general theorem applied to this instance: what it predicts is what ex_run computed *)
Example ex_apply :
  exists calls, let w := nsvc ftD calls (mkw fts ftline fth []) in
    k_state (k (wst w)) = CS_IDLE /\ inq (wio w) = [1; 2; 3]%N /\
    whs w = [((2, 0, 0), [ftr RC_OK None []]); ((3, 1, 0), ftmore)] /\
    calls_of (wtr w) = [(ftQ, 1%Z); (ftQ, 2%Z); (ftQ, 0%Z)] /\
    mem (wst w) = [[254; 255]; [65; 44; 34; 0; 7; 7]; [10; 255]; [200]; [5]]%N /\
    output_of (wtr w) = [10; 97; 98; 10;  10; 99; 10;  10; 79; 75; 10]%N /\
    gL (wst w) = 1 /\ gS (wst w) = 1 /\ gR (wst w) = 1.
Proof.
  destruct (E2E_test_handler_line ftD fts [43; 116]%N [1; 2; 3]%N fth 1 ftT fttxt ftrs ftrn ftmore
              eq_refl ltac:(apply Nat.ltb_lt; reflexivity) ltac:(apply Nat.leb_le; reflexivity)
              ltac:(apply Nat.leb_le; reflexivity)
              eq_refl eq_refl eq_refl eq_refl eq_refl eq_refl eq_refl eq_refl eq_refl eq_refl eq_refl
              eq_refl eq_refl eq_refl ex_nonul)
    as (calls & A & B & C & E & F & _ & G & H1 & H2 & H3).
  - apply Nat.ltb_lt. reflexivity.
  - reflexivity.
  - intros r [X|[X|[]]]; subst r; reflexivity.
  - reflexivity.
  - discriminate.
  - discriminate.
  - intros r [X|[X|[X|[]]]]; subst r; reflexivity.
  - exists calls. cbv zeta.
    split; [exact A|]. split; [exact B|]. split; [exact C|]. split; [exact E|]. split; [exact F|].
    split; [exact G|]. split; [exact H1|]. split; [exact H2 | exact H3].
Qed.

(* an instance ending in ERROR: DATA_NEXT (text "ab"), then an integer outside the enumeration:
   LF a b LF  LF E R R O R LF  after exactly 39 service calls *)
Definition ftrs2 : list hres := [ftr RC_DATA_NEXT (Some [97; 98]%N) []].
Definition ftrn2 : hres := ftr 42%Z None [].
Definition fth2 : shs := [((3, 1, 0), ftrs2 ++ ftrn2 :: [])].

Example ex_error_run :
  ftgo fth2 39 =
    (CS_IDLE, [1; 2; 3]%N, [((3, 1, 0), [])],
     [(ftQ, 1%Z); (ftQ, 42%Z)],
     [10; 97; 98; 10;  10; 69; 82; 82; 79; 82; 10]%N, m0, false, (1, 1, 1)).
Proof. vm_compute. reflexivity. Qed.

Example ex_error_run_38 :
  (let '(a, _, _, _, _, _, _, _) := ftgo fth2 38 in a) = CS_AFTER_RESET.
Proof. vm_compute. reflexivity. Qed.

Example ex_error_apply :
  exists calls, let w := nsvc ftD calls (mkw fts ftline fth2 []) in
    k_state (k (wst w)) = CS_IDLE /\ inq (wio w) = [1; 2; 3]%N /\
    whs w = [((3, 1, 0), [])] /\
    calls_of (wtr w) = [(ftQ, 1%Z); (ftQ, 42%Z)] /\ mem (wst w) = m0 /\
    output_of (wtr w) = [10; 97; 98; 10;  10; 69; 82; 82; 79; 82; 10]%N.
Proof.
  destruct (E2E_test_handler_line ftD fts [43; 116]%N [1; 2; 3]%N fth2 1 ftT fttxt ftrs2 ftrn2 []
              eq_refl ltac:(apply Nat.ltb_lt; reflexivity) ltac:(apply Nat.leb_le; reflexivity)
              ltac:(apply Nat.leb_le; reflexivity)
              eq_refl eq_refl eq_refl eq_refl eq_refl eq_refl eq_refl eq_refl eq_refl eq_refl eq_refl
              eq_refl eq_refl eq_refl ex_nonul)
    as (calls & A & B & C & E & F & _ & G & _).
  - apply Nat.ltb_lt. reflexivity.
  - reflexivity.
  - intros r [X|[]]; subst r; reflexivity.
  - reflexivity.
  - discriminate.
  - discriminate.
  - intros r [X|[X|[]]]; subst r; reflexivity.
  - exists calls. cbv zeta.
    split; [exact A|]. split; [exact B|]. split; [exact C|]. split; [exact E|]. split; [exact F | exact G].
Qed.

(* the ending codes, on the line "AT+t=?" LF with nothing after it (80 service calls; an idle parser with an
   empty queue stays idle): OK alone; DATA_OK without an edit (the unit is the fresh text); ERROR;
   HOLD_EXIT_OK / HOLD_EXIT_ERROR with nothing held; an integer outside the enumeration *)
Definition ftline0 : list N := [65; 84; 43; 116; 61; 63; 10]%N.
Example ex_codes :
  map (fun code =>
         let w := nsvc ftD 80 (mkw fts ftline0 [((3, 1, 0), [ftr code None []])] []) in
         (k_state (k (wst w)), output_of (wtr w), map snd (calls_of (wtr w))))
      [RC_OK; RC_DATA_OK; RC_ERROR; RC_HOLD_EXIT_OK; RC_HOLD_EXIT_ERROR; 42%Z] =
  [ (CS_IDLE, [10; 79; 75; 10]%N, [3%Z]);
    (CS_IDLE, [10] ++ fttxt ++ [10;  10; 79; 75; 10], [0%Z]);
    (CS_IDLE, [10; 69; 82; 82; 79; 82; 10]%N, [(-1)%Z]);
    (CS_IDLE, [10; 79; 75; 10]%N, [5%Z]); (CS_IDLE, [10; 69; 82; 82; 79; 82; 10]%N, [6%Z]);
    (CS_IDLE, [10; 69; 82; 82; 79; 82; 10]%N, [42%Z]) ]%N.
Proof. vm_compute. reflexivity. Qed.

(* the two codes excluded by hypothesis, computed (120 service calls).
   PRINT_CMD_LIST_OK from the test handler: the command list of the table is printed
     LF AT+X? LF AT+X= LF AT+X=? LF  LF AT+T? LF AT+T= LF AT+T=? LF  then LF OK LF,  one handler call;
   HOLD: the command is suspended (CS_HOLD), nothing is printed, no result code is started *)
Example ex_list :
  (let w := nsvc ftD 120 (mkw fts ftline0 [((3, 1, 0), [ftr RC_PRINT_CMD_LIST_OK None []])] []) in
   (k_state (k (wst w)), output_of (wtr w), map snd (calls_of (wtr w)), (gL (wst w), gS (wst w), gR (wst w)))) =
  (CS_IDLE,
   [10; 65; 84; 43; 88; 63; 10;  65; 84; 43; 88; 61; 10;  65; 84; 43; 88; 61; 63; 10;
    10; 65; 84; 43; 84; 63; 10;  65; 84; 43; 84; 61; 10;  65; 84; 43; 84; 61; 63; 10;
    10; 79; 75; 10]%N, [7%Z], (1, 1, 1)).
Proof. vm_compute. reflexivity. Qed.

Example ex_hold :
  (let w := nsvc ftD 120 (mkw fts ftline0 [((3, 1, 0), [ftr RC_HOLD None []])] []) in
   (k_state (k (wst w)), output_of (wtr w), map snd (calls_of (wtr w)), (gL (wst w), gS (wst w), gR (wst w)))) =
  (CS_HOLD, []%N, [4%Z], (1, 0, 0)).
Proof. vm_compute. reflexivity. Qed.

(* the complementary line: the same table with a command buffer of 16 bytes; the 19 bytes of the text do not
   fit: LF ERROR LF after exactly 27 service calls, the test handler is not called, its script is untouched *)
Definition ftD16 := mkDesc [[c0; ftT]] [] 16 (Some 8) 85%N 2 false.
Definition fts16 := init_state ftD16 m0.
Example ex_nofit_run :
  ftobs (nsvc ftD16 27 (mkw fts16 ftline fth [])) =
    (CS_IDLE, [1; 2; 3]%N, fth, [], [10; 69; 82; 82; 79; 82; 10]%N, m0, false, (1, 1, 1)).
Proof. vm_compute. reflexivity. Qed.

Example ex_nofit_run_26 :
  k_state (k (wst (nsvc ftD16 26 (mkw fts16 ftline fth [])))) = CS_AFTER_RESET.
Proof. vm_compute. reflexivity. Qed.

Example ex_nofit_hyps :
  hyps_ok ftD16 fts16 = true /\
  resolve (upper [43; 116]%N) (enabled ftD16 fts16) (cmds ftD16) = Some 1 /\
  nth_error (cmds ftD16) 1 = Some ftT /\ (length (cbuf fts16) <=? length fttxt) = true.
Proof. vm_compute. repeat split; reflexivity. Qed.

Example ex_nofit_apply :
  exists calls, let w := nsvc ftD16 calls (mkw fts16 ftline fth []) in
    k_state (k (wst w)) = CS_IDLE /\ inq (wio w) = [1; 2; 3]%N /\ whs w = fth /\ calls_of (wtr w) = [] /\
    mem (wst w) = m0 /\ output_of (wtr w) = [10; 69; 82; 82; 79; 82; 10]%N.
Proof.
  destruct (E2E_test_nofit_line ftD16 fts16 [43; 116]%N [1; 2; 3]%N fth 1 ftT
              eq_refl ltac:(apply Nat.ltb_lt; reflexivity) ltac:(apply Nat.leb_le; reflexivity)
              ltac:(apply Nat.leb_le; reflexivity)
              eq_refl eq_refl eq_refl eq_refl eq_refl eq_refl eq_refl eq_refl eq_refl eq_refl eq_refl
              (or_introl eq_refl) eq_refl)
    as (calls & A & B & C & E & F & _ & G & _).
  - change (spec_test_text ftT [ch_LF]) with (Some fttxt). apply Nat.leb_le. reflexivity.
  - exists calls. cbv zeta.
    split; [exact A|]. split; [exact B|]. split; [exact C|]. split; [exact E|]. split; [exact F | exact G].
Qed.

(* terminal input: "at+t=?" CR LF then 1 2 3 (m0 = 0, name' = "+t", m1 = 0, m2 = 1).  The newline is CR LF,
   also inside the fresh text (20 bytes): +T=<x:UINT8[RW]> CR LF hi.  After exactly 53 service calls:
   CR LF a b CR LF  CR LF c CR LF  CR LF O K CR LF,  three calls on the CR LF text NUL / 20 / 40 *)
Definition ftline_t : list N := [97; 116; 43; 116; 61; 63; 13; 10; 1; 2; 3]%N.
Definition fttxt_t : list N :=
  [43; 84; 61; 60; 120; 58; 85; 73; 78; 84; 56; 91; 82; 87; 93; 62; 13; 10; 104; 105]%N.
Definition ftQ_t : hreq := HTest ATCMD 1 (fttxt_t ++ [0%N]) 20 40.

Example ex_t_run :
  ftobs (nsvc ftD 53 (mkw fts ftline_t fth [])) =
    (CS_IDLE, [1; 2; 3]%N, [((2, 0, 0), [ftr RC_OK None []]); ((3, 1, 0), ftmore)],
     [(ftQ_t, 1%Z); (ftQ_t, 2%Z); (ftQ_t, 0%Z)],
     [13; 10; 97; 98; 13; 10;  13; 10; 99; 13; 10;  13; 10; 79; 75; 13; 10]%N,
     [[254; 255]; [65; 44; 34; 0; 7; 7]; [10; 255]; [200]; [5]]%N, false, (1, 1, 1)).
Proof. vm_compute. reflexivity. Qed.

Example ex_t_run_52 :
  k_state (k (wst (nsvc ftD 52 (mkw fts ftline_t fth [])))) = CS_AFTER_RESET.
Proof. vm_compute. reflexivity. Qed.

Lemma ex_t_nonul : ~ In 0%N fttxt_t.
Proof. unfold fttxt_t. cbn [In]. intros H. repeat (destruct H as [H|H]; [discriminate H|]). exact H. Qed.

Example ex_t_apply :
  exists calls, let w := nsvc ftD calls (mkw fts ftline_t fth []) in
    k_state (k (wst w)) = CS_IDLE /\ inq (wio w) = [1; 2; 3]%N /\
    whs w = [((2, 0, 0), [ftr RC_OK None []]); ((3, 1, 0), ftmore)] /\
    calls_of (wtr w) = [(ftQ_t, 1%Z); (ftQ_t, 2%Z); (ftQ_t, 0%Z)] /\
    mem (wst w) = [[254; 255]; [65; 44; 34; 0; 7; 7]; [10; 255]; [200]; [5]]%N /\
    output_of (wtr w) = [13; 10; 97; 98; 13; 10;  13; 10; 99; 13; 10;  13; 10; 79; 75; 13; 10]%N /\
    k_cr (k (wst w)) = false.
Proof.
  destruct (E2E_test_handler_line_t ftD fts 97%N 0 116%N [43; 116]%N 0 1 [1; 2; 3]%N fth 1 ftT fttxt_t
              ftrs ftrn ftmore
              eq_refl ltac:(apply Nat.ltb_lt; reflexivity) ltac:(apply Nat.leb_le; reflexivity)
              ltac:(apply Nat.leb_le; reflexivity)
              eq_refl eq_refl eq_refl eq_refl eq_refl eq_refl eq_refl eq_refl eq_refl eq_refl eq_refl
              eq_refl eq_refl eq_refl eq_refl eq_refl ex_t_nonul)
    as (calls & A & B & C & E & F & _ & G & _ & _ & _ & H4).
  - apply Nat.ltb_lt. reflexivity.
  - reflexivity.
  - intros r [X|[X|[]]]; subst r; reflexivity.
  - reflexivity.
  - discriminate.
  - discriminate.
  - intros r [X|[X|[X|[]]]]; subst r; reflexivity.
  - exists calls. cbv zeta.
    split; [exact A|]. split; [exact B|]. split; [exact C|]. split; [exact E|]. split; [exact F|].
    split; [exact G | exact H4].
Qed.

(* the complementary line from a terminal, 16-byte buffer: CR LF ERROR CR LF after exactly 30 service calls *)
Example ex_nofit_t_run :
  ftobs (nsvc ftD16 30 (mkw fts16 ftline_t fth [])) =
    (CS_IDLE, [1; 2; 3]%N, fth, [], [13; 10; 69; 82; 82; 79; 82; 13; 10]%N, m0, false, (1, 1, 1)).
Proof. vm_compute. reflexivity. Qed.
End C10ft_examples.
