(* Properties_C17c.v -- property C17 (thread safety): the operations that take NO lock.

   Properties_C17b.v treats every public operation as one critical section.  Four model
   operations take no lock in C:
     OIsBuffered ci t    cat_is_unsolicited_event_buffered   cat.c:257-283  (no mutex call)
     OGetProcessed f     cat_get_processed_command           cat.c:249-255  (no mutex call)
     OSetCmdDisable i b  the application stores  cmd->disable = b        (cat.h:254, one bool)
     OSetGroupDisable g b                        group->disable = b      (cat.h:264, one bool)
   so for them the atomicity of Properties_C17b's micro-step system was an assumption.  Here:

   (1) world level (Section World): the two read-only queries only append their own return entry
       to the log (C17_observer_step); no operation reads the log (C17_step_ignores_log,
       C17_step_tr_indep); hence a query can be inserted at / removed from ANY position of a
       sequential run and nothing changes but its own log entry, whose value is a function of
       the state at that position (C17_observers_commute_seq).
   (2) threads (Section Generic, Section ThreadsInstance): the micro-step system of
       Lemmas_C17b extended by a step OBSERVE that is enabled in EVERY configuration, also
       while another thread is between ACQUIRE and BODY or between BODY and RELEASE.
       Observations change nothing (C17_observers_erase / _embed); every observation equals the
       answer in the sequential run of the critical sections whose BODY has been executed
       (C17_observers_commute); the whole execution is reproduced by one sequential list of
       critical sections and observations (C17_observers_linearizable).  Instance for the cAT
       model: C17_threads_observers.
   (3) the flag setters (Section Setters): frame (C17_setter_frame, _fields); a flag store
       commutes with every operation that does not read the flag tables
       (C17_setter_commutes_cmd / _grp; for OService the condition is on the state of the command
       machine at the START of the call, see below); the setters among themselves
       (C17_setters_*_commute); witnesses that the conditions are needed.

   Definitions (Lemmas_C17c.v):
     obs_ans D q s    the value query q computes from state s: is_event_buffered D s ci t for
                      OIsBuffered ci t, get_processed s f for OGetProcessed f, 0 otherwise
     is_observer q    q is OIsBuffered _ _ or OGetProcessed _
     lab              labels  LAcq i o (thread i acquired the lock for o) | LObs q r (query q
                      returned r)
     ostep c l c'     lstep of Lemmas_C17b (label [(i,o)] written [LAcq i o]), or
                      OBSERVE:  ostep c [LObs q (ans q (shared c))] c   for EVERY c
     osteps c0 labs c reflexive-transitive closure, labels concatenated
     acqs labs / obs labs     the LAcq entries / the LObs entries of labs, in order
     holding_of c     [(i,o)] if thread i holds the lock in phase Holding o (ACQUIRE done, BODY
                      not yet), [] otherwise
     xop := (nat * Op) + Q;  xacqs / xqs: the inl / inr entries;  xexec xs s: fold over xs from
                      (s, []): inl (i,o) applies body o to the state, inr q appends ans q state
                      to the list of answers
     Pos s0 xs labs   every observation  labs = l1 ++ LObs q r :: l2  sits in xs as
                      xs = x1 ++ inr q :: x2  with the observations of l1 before it, the critical
                      sections of l1 (all, or all but the last one acquired) before it, and
                      r = ans q (state after x1)
     osched           executable scheduler with Tick i / Look q actions (sound: osched_sound)
     SF.blind x       x is none of CS_UPDATE_COMMAND_STATE, CS_SEARCH_COMMAND, CS_PRINT_CMD (the
                      three states whose step calls is_command_disable)
     SF.op_blind o s  OService: blind (k_state (k s)); the two setters: false; all others: true

   WHAT THIS DOES AND DOES NOT SAY.  The statements are at the model's granularity: each
   lock-protected body updates the shared state in ONE atomic model step (BODY), so an unlocked
   observer sees the state either before or after a whole body.  In the C code the bodies are
   not atomic: push_unsolicited_cmd (cat.c:191-213) stores item->cmd (204), item->type (205),
   the tail index (207-208) and the items count (210) one after the other; pop_unsolicited_cmd
   (cat.c:167-189) reads the slot (180-181), then stores the head index (183-184) and the count
   (186); check_unsolicited_buffers (cat.c:1969-1978) stores unsolicited_fsm.cmd through the
   pop (1975) and cmd_type afterwards (1978).  cat_is_unsolicited_event_buffered reads the
   count (263), the head (264), unsolicited_fsm.cmd / cmd_type (268) and the slots (272-273)
   WITHOUT taking the mutex, and cat_get_processed_command reads self->cmd /
   unsolicited_fsm.cmd without it.  A C reader running concurrently with a critical section can
   therefore see a half-updated ring (slot written, count not yet incremented; head advanced,
   count not yet decremented; cmd of the new event with cmd_type of the old one).  That is a
   data race in the C11 sense; it is what ThreadSanitizer would report if the harness
   (verif/harness/tsan_harness.c, which on purpose calls only the mutex-protected functions from
   its producer threads) called the two queries from a second thread; and it is NOT expressible
   in this model.  So the theorems below prove: unlocked observers are harmless PROVIDED every
   critical-section body is atomic with respect to them.  They do NOT prove that the two C
   functions are race-free.  Likewise for the setters: C writes one bool per command / group (a
   single-byte store); the theorems say that such a store commutes with every operation that
   does not read the flag tables, and the Examples show it does not commute with a service call
   in the middle of the name lookup.

   OService and the flags.  One cat_service call runs the event machine first and then ONE step
   of the command machine, dispatched on the k_state the event machine leaves.  The hypothesis
   of C17_setter_commutes_* is on the k_state at the START of the call.  That is sound because
   the event machine leaves k_state unchanged or forces it to CS_HOLD (Lemmas_C11.C11_frame_uns),
   and CS_HOLD does not read the flags. *)
From Coq Require Import List NArith ZArith Bool Arith.
From CatV Require Import Bytes Defs Codec Fsm Script TraceDefs Lemmas_C17b Lemmas_C17c.
Import ListNotations.
Local Open Scope nat_scope.

(* ================================================================== *)
(* (1) world level                                                      *)
(* ================================================================== *)
Section World.
Variable D : desc.
Variables ioS muS hS : Type.
Variable io_read : ioS -> ioS * option N.
Variable io_write : ioS -> N -> ioS * bool.
Variable mu_lock : muS -> muS * bool.
Variable mu_unlock : muS -> muS * bool.
Variable h_call : hS -> hreq -> hS * hres.

Local Notation world := (Fsm.world ioS muS hS).
Local Notation st := (Fsm.st ioS muS hS).
Local Notation io := (Fsm.io ioS muS hS).
Local Notation mu := (Fsm.mu ioS muS hS).
Local Notation hs := (Fsm.hs ioS muS hS).
Local Notation tr := (Fsm.tr ioS muS hS).
Local Notation logw := (Fsm.logw ioS muS hS).
Local Notation do_op := (Fsm.do_op D ioS muS hS io_read io_write mu_lock mu_unlock h_call).
Local Notation step := (Fsm.step D ioS muS hS io_read io_write mu_lock mu_unlock h_call).
Local Notation run := (Fsm.run D ioS muS hS io_read io_write mu_lock mu_unlock h_call).

(* the definitions, restated *)
Example obs_ans_def : forall o s,
  obs_ans D o s = match o with
                  | OIsBuffered ci t => is_event_buffered D s ci t
                  | OGetProcessed f => get_processed s f
                  | _ => 0%Z
                  end.
Proof. reflexivity. Qed.
Example is_observer_def : forall o,
  is_observer o = match o with OIsBuffered _ _ | OGetProcessed _ => true | _ => false end.
Proof. reflexivity. Qed.

(* 1a. a query changes nothing; it logs the value it computed from the state it saw *)
Theorem C17_observer_step : forall o (w : world), is_observer o = true ->
  step w o = logw (ERet o (obs_ans D o (st w))) w.
Proof. exact (Lemmas_C17c.observer_step D ioS muS hS io_read io_write mu_lock mu_unlock h_call). Qed.

(* 1b. no operation reads the log: one more entry in it changes nothing but the log, and the
   entries the operation appends are the same *)
Theorem C17_step_ignores_log : forall o e (w : world),
  st (step (logw e w) o) = st (step w o) /\ io (step (logw e w) o) = io (step w o) /\
  mu (step (logw e w) o) = mu (step w o) /\ hs (step (logw e w) o) = hs (step w o) /\
  snd (do_op (logw e w) o) = snd (do_op w o) /\
  exists new, tr (step w o) = new ++ tr w /\ tr (step (logw e w) o) = new ++ e :: tr w.
Proof. exact (Lemmas_C17c.step_ignores_log D ioS muS hS io_read io_write mu_lock mu_unlock h_call). Qed.

(* 1b, general form: two worlds that differ in their logs only *)
Theorem C17_step_tr_indep : forall o (w1 w2 : world),
  st w1 = st w2 -> io w1 = io w2 -> mu w1 = mu w2 -> hs w1 = hs w2 ->
  st (step w1 o) = st (step w2 o) /\ io (step w1 o) = io (step w2 o) /\
  mu (step w1 o) = mu (step w2 o) /\ hs (step w1 o) = hs (step w2 o) /\
  snd (do_op w1 o) = snd (do_op w2 o) /\
  exists new, tr (step w1 o) = new ++ tr w1 /\ tr (step w2 o) = new ++ tr w2.
Proof. exact (Lemmas_C17c.step_tr_indep D ioS muS hS io_read io_write mu_lock mu_unlock h_call). Qed.

Theorem C17_run_tr_indep : forall ops (w1 w2 : world),
  st w1 = st w2 -> io w1 = io w2 -> mu w1 = mu w2 -> hs w1 = hs w2 ->
  st (run w1 ops) = st (run w2 ops) /\ io (run w1 ops) = io (run w2 ops) /\
  mu (run w1 ops) = mu (run w2 ops) /\ hs (run w1 ops) = hs (run w2 ops) /\
  exists new, tr (run w1 ops) = new ++ tr w1 /\ tr (run w2 ops) = new ++ tr w2.
Proof. exact (Lemmas_C17c.run_tr_indep D ioS muS hS io_read io_write mu_lock mu_unlock h_call). Qed.

(* 1c. sequential model: a query q inserted after ops1 into the run ops1 ++ ops2.  The state and
   the oracle states are the same; the log is the log of the run without q (hence the same
   events and the same return status of every other operation) with the single entry
   ERet q (obs_ans D q (state after ops1))  inserted at the position of the end of ops1 *)
Theorem C17_observers_commute_seq : forall q (w0 : world) ops1 ops2, is_observer q = true ->
  let w1 := run w0 ops1 in
  let wa := run w0 (ops1 ++ q :: ops2) in
  let wb := run w0 (ops1 ++ ops2) in
  st wa = st wb /\ io wa = io wb /\ mu wa = mu wb /\ hs wa = hs wb /\
  exists new, tr wb = new ++ tr w1 /\ tr wa = new ++ ERet q (obs_ans D q (st w1)) :: tr w1.
Proof. exact (Lemmas_C17c.observers_commute_seq D ioS muS hS io_read io_write mu_lock mu_unlock h_call). Qed.

End World.

Print Assumptions C17_observer_step.
Print Assumptions C17_step_ignores_log.
Print Assumptions C17_step_tr_indep.
Print Assumptions C17_run_tr_indep.
Print Assumptions C17_observers_commute_seq.

(* ================================================================== *)
(* (2) threads with unlocked observers, generic                         *)
(* ================================================================== *)
Section Generic.
Variables (Sh Op : Type).
Variable body : Op -> Sh -> Sh.
Variables (Q R : Type).
Variable ans : Q -> Sh -> R.

(* the step relation, restated: a step of the lock protocol, or an observation, which needs
   nothing (no condition on the holder or on the phases) and changes nothing *)
Example ostep_def : forall (c c' : conf Sh Op) l,
  ostep body ans c l c' <->
  (exists l0, lstep body c l0 c' /\ l = map (fun io => LAcq (fst io) (snd io)) l0) \/
  (exists q, l = [LObs q (ans q (shared c))] /\ c' = c).
Proof.
  intros c c' l. split.
  - intros H. destruct H as [c l c' H | c q]; [left; exists l; split; [exact H | reflexivity] | right; eauto].
  - intros [(l0 & H & ->) | (q & -> & ->)]; [exact (ostep_lock _ _ body _ _ ans c l0 c' H) | constructor].
Qed.

(* 2a. observations change nothing: erasing them gives an execution of Lemmas_C17b's system with
   the same configurations, so every theorem of Properties_C17b applies; conversely every
   execution of that system is an execution of this one *)
Theorem C17_observers_erase : forall (c0 : conf Sh Op) labs c,
  osteps body ans c0 labs c -> msteps body c0 (acqs labs) c.
Proof. exact (Lemmas_C17c.observers_erase Sh Op body Q R ans). Qed.

Theorem C17_observers_embed : forall (c0 : conf Sh Op) lin c,
  msteps body c0 lin c ->
  osteps body ans c0 (map (fun io => LAcq (fst io) (snd io)) lin) c.
Proof. exact (Lemmas_C17c.observers_embed Sh Op body Q R ans). Qed.

(* 2b. main: an observation made at an ARBITRARY point of an execution (c1 = the configuration
   at that point; another thread may be inside its critical section) returns exactly the answer
   of the sequential run of lin', where lin' = the critical sections acquired so far, minus the
   last one if its BODY has not been executed yet (some thread in phase Holding) *)
Theorem C17_observers_commute : forall (c0 : conf Sh Op) l1 q r l2 c, quiescent c0 ->
  osteps body ans c0 (l1 ++ LObs q r :: l2) c ->
  exists lin' c1,
    osteps body ans c0 l1 c1 /\ osteps body ans c1 l2 c /\
    r = ans q (fold_left (fun s (io : nat * Op) => body (snd io) s) lin' (shared c0)) /\
    (lin' = acqs l1 \/ exists i o, acqs l1 = lin' ++ [(i, o)]) /\
    (forall i rest o, nth_error (threads c1) i = Some (rest, Holding o) -> acqs l1 = lin' ++ [(i, o)]) /\
    ((forall i rest o, nth_error (threads c1) i <> Some (rest, Holding o)) -> lin' = acqs l1).
Proof. exact (Lemmas_C17c.observers_commute Sh Op body Q R ans). Qed.

(* 2c. the whole execution is linearizable: there is ONE sequential list xs of critical sections
   (inl) and observations (inr) -- the critical sections in ACQUIRE order, the observations in
   their order, each observation placed as Pos says (after the critical sections acquired before
   it, except possibly the last one, whose BODY had not run) -- whose sequential execution
   returns exactly the observed answers and ends in the final shared state *)
Theorem C17_observers_linearizable : forall (c0 : conf Sh Op) labs c,
  quiescent c0 -> osteps body ans c0 labs c -> all_idle c ->
  exists xs : list (nat * Op + Q),
    xacqs xs = acqs labs /\ xqs xs = map fst (obs labs) /\
    snd (xexec body ans xs (shared c0)) = map snd (obs labs) /\
    fst (xexec body ans xs (shared c0)) = shared c /\
    (forall l1 q r l2, labs = l1 ++ LObs q r :: l2 ->
       exists x1 x2, xs = x1 ++ inr q :: x2 /\ xqs x1 = map fst (obs l1) /\
         (xacqs x1 = acqs l1 \/ exists io, acqs l1 = xacqs x1 ++ [io]) /\
         r = ans q (fst (xexec body ans x1 (shared c0)))).
Proof. exact (Lemmas_C17c.observers_linearizable Sh Op body Q R ans). Qed.

(* the sequential semantics used in 2c, restated *)
Example xexec_def : forall xs s,
  xexec body ans xs s =
  fold_left (fun (p : Sh * list R) (x : nat * Op + Q) =>
               match x with
               | inl io => (body (snd io) (fst p), snd p)
               | inr q => (fst p, snd p ++ [ans q (fst p)])
               end) xs (s, []).
Proof. reflexivity. Qed.

End Generic.

Print Assumptions C17_observers_erase.
Print Assumptions C17_observers_embed.
Print Assumptions C17_observers_commute.
Print Assumptions C17_observers_linearizable.

(* ================================================================== *)
(* (2d) threads with unlocked observers, the cAT model                  *)
(* ================================================================== *)
Section ThreadsInstance.
Variable D : desc.
Variables ioS muS hS : Type.
Variable io_read : ioS -> ioS * option N.
Variable io_write : ioS -> N -> ioS * bool.
Variable mu_lock : muS -> muS * bool.
Variable mu_unlock : muS -> muS * bool.
Variable h_call : hS -> hreq -> hS * hres.

Local Notation world := (Fsm.world ioS muS hS).
Local Notation st := (Fsm.st ioS muS hS).
Local Notation logw := (Fsm.logw ioS muS hS).
Local Notation step := (Fsm.step D ioS muS hS io_read io_write mu_lock mu_unlock h_call).
Local Notation run := (Fsm.run D ioS muS hS io_read io_write mu_lock mu_unlock h_call).

(* any number of threads running any lists of public operations under the lock protocol
   (critical section of o := one model step, as in C17_threads_exactly_once), and the two
   unlocked queries executed at ARBITRARY points.  Every value r a query q returns is the value
   the sequential model computes when q is inserted into the linearisation directly after lin':
   the sequential run of lin' followed by q logs exactly  ERet q r  and changes nothing else.
   lin' = the operations that have acquired the lock before the query, minus the last one if it
   is still in phase Holding (lock taken, body not yet executed) *)
Theorem C17_threads_observers : forall (w0 : world) tl l1 q r l2 c,
  is_observer q = true ->
  osteps (fun o w => step w o) (fun q w => obs_ans D q (st w)) (start w0 tl) (l1 ++ LObs q r :: l2) c ->
  exists lin' c1,
    osteps (fun o w => step w o) (fun q w => obs_ans D q (st w)) (start w0 tl) l1 c1 /\
    (lin' = acqs l1 \/ exists i o, acqs l1 = lin' ++ [(i, o)]) /\
    (forall i rest o, nth_error (threads c1) i = Some (rest, Holding o) -> acqs l1 = lin' ++ [(i, o)]) /\
    ((forall i rest o, nth_error (threads c1) i <> Some (rest, Holding o)) -> lin' = acqs l1) /\
    let ws := run w0 (map snd lin') in
    r = obs_ans D q (st ws) /\
    run w0 (map snd lin' ++ [q]) = logw (ERet q r) ws.
Proof.
  exact (Lemmas_C17c.threads_observers D ioS muS hS io_read io_write mu_lock mu_unlock h_call).
Qed.

(* the observers do not disturb C17_threads_exactly_once: at every configuration without
   operation in flight the shared world is the sequential run of the ACQUIRE order, and every
   accepted event has been popped exactly once, in order, or is still queued *)
Theorem C17_threads_observers_exactly_once :
  forall (P : nat * ctype -> bool) m x mx h (tl : list (list op)) labs (c : conf world op),
  0 < d_cap D -> (forall m, snd (mu_unlock m) = true) ->
  let w0 := mkWorld ioS muS hS (init_state D m) x mx h [] in
  osteps (fun o w => step w o) (fun q w => obs_ans D q (st w)) (start w0 tl) labs c -> all_idle c ->
  let w := shared c in
  w = run w0 (map snd (acqs labs)) /\
  filter P (accepted (hist ioS muS hS w)) =
  filter P (popped (hist ioS muS hS w)) ++ filter P (ring_items D (st w)).
Proof.
  exact (Lemmas_C17c.threads_observers_exactly_once D ioS muS hS io_read io_write mu_lock mu_unlock h_call).
Qed.

End ThreadsInstance.

Print Assumptions C17_threads_observers.
Print Assumptions C17_threads_observers_exactly_once.

(* ================================================================== *)
(* (3) the flag setters                                                 *)
(* ================================================================== *)
Section Setters.
Variable D : desc.
Variables ioS muS hS : Type.
Variable io_read : ioS -> ioS * option N.
Variable io_write : ioS -> N -> ioS * bool.
Variable mu_lock : muS -> muS * bool.
Variable mu_unlock : muS -> muS * bool.
Variable h_call : hS -> hreq -> hS * hres.

Local Notation world := (Fsm.world ioS muS hS).
Local Notation st := (Fsm.st ioS muS hS).
Local Notation io := (Fsm.io ioS muS hS).
Local Notation mu := (Fsm.mu ioS muS hS).
Local Notation hs := (Fsm.hs ioS muS hS).
Local Notation tr := (Fsm.tr ioS muS hS).
Local Notation logw := (Fsm.logw ioS muS hS).
Local Notation upd_st := (Fsm.upd_st ioS muS hS).
Local Notation do_op := (Fsm.do_op D ioS muS hS io_read io_write mu_lock mu_unlock h_call).
Local Notation step := (Fsm.step D ioS muS hS io_read io_write mu_lock mu_unlock h_call).

(* 3a. a setter stores one entry of one table and logs its (constant) return value *)
Theorem C17_setter_frame : forall (w : world),
  (forall i b, step w (OSetCmdDisable i b) =
     logw (ERet (OSetCmdDisable i b) 0%Z)
          (upd_st (fun s => set_dis_cmd (set_flag (dis_cmd s) i b) s) w)) /\
  (forall g b, step w (OSetGroupDisable g b) =
     logw (ERet (OSetGroupDisable g b) 0%Z)
          (upd_st (fun s => set_dis_grp (set_flag (dis_grp s) g b) s) w)).
Proof. exact (Lemmas_C17c.setter_frame D ioS muS hS io_read io_write mu_lock mu_unlock h_call). Qed.

(* field by field: every component of the state other than the one table, and the three oracle
   states, are unchanged *)
Theorem C17_setter_frame_fields : forall (w : world),
  (forall i b, let w' := step w (OSetCmdDisable i b) in
     dis_cmd (st w') = set_flag (dis_cmd (st w)) i b /\
     (k (st w'), u (st w'), cbuf (st w'), ubuf (st w'), mem (st w'), dis_grp (st w'), fault (st w'),
      gL (st w'), gS (st w'), gR (st w')) =
     (k (st w), u (st w), cbuf (st w), ubuf (st w), mem (st w), dis_grp (st w), fault (st w),
      gL (st w), gS (st w), gR (st w)) /\
     io w' = io w /\ mu w' = mu w /\ hs w' = hs w /\ tr w' = ERet (OSetCmdDisable i b) 0%Z :: tr w) /\
  (forall g b, let w' := step w (OSetGroupDisable g b) in
     dis_grp (st w') = set_flag (dis_grp (st w)) g b /\
     (k (st w'), u (st w'), cbuf (st w'), ubuf (st w'), mem (st w'), dis_cmd (st w'), fault (st w'),
      gL (st w'), gS (st w'), gR (st w')) =
     (k (st w), u (st w), cbuf (st w), ubuf (st w), mem (st w), dis_cmd (st w), fault (st w),
      gL (st w), gS (st w), gR (st w)) /\
     io w' = io w /\ mu w' = mu w /\ hs w' = hs w /\ tr w' = ERet (OSetGroupDisable g b) 0%Z :: tr w).
Proof. exact (Lemmas_C17c.setter_frame_fields D ioS muS hS io_read io_write mu_lock mu_unlock h_call). Qed.

(* the hypothesis of 3b, restated *)
Example blind_def : forall x,
  SF.blind x = match x with
               | CS_UPDATE_COMMAND_STATE | CS_SEARCH_COMMAND | CS_PRINT_CMD => false
               | _ => true
               end.
Proof. reflexivity. Qed.
Example op_blind_def : forall o s,
  SF.op_blind o s = match o with
                    | OService => SF.blind (k_state (k s))
                    | OSetCmdDisable _ _ | OSetGroupDisable _ _ => false
                    | _ => true
                    end.
Proof. reflexivity. Qed.

(* 3b. a setter commutes with every operation o that does not read the flag tables: trigger,
   hold_exit, the four locked queries, the two unlocked queries, and a service call that finds
   the command machine in any state other than the three lookup / list states.  Doing the
   setter first or o first gives the same state (all of it), the same oracle states, the same
   return status of o, and the same log entries up to the position of the setter's own entry *)
Theorem C17_setter_commutes_cmd : forall (w : world) i b o, SF.op_blind o (st w) = true ->
  let sc := OSetCmdDisable i b in
  let wa := step (step w sc) o in let wb := step (step w o) sc in
  st wa = st wb /\ io wa = io wb /\ mu wa = mu wb /\ hs wa = hs wb /\
  snd (do_op (step w sc) o) = snd (do_op w o) /\
  exists new, tr (step w o) = new ++ tr w /\
              tr wa = new ++ ERet sc 0%Z :: tr w /\ tr wb = ERet sc 0%Z :: new ++ tr w.
Proof. exact (Lemmas_C17c.setter_commutes_cmd D ioS muS hS io_read io_write mu_lock mu_unlock h_call). Qed.

Theorem C17_setter_commutes_grp : forall (w : world) g b o, SF.op_blind o (st w) = true ->
  let sc := OSetGroupDisable g b in
  let wa := step (step w sc) o in let wb := step (step w o) sc in
  st wa = st wb /\ io wa = io wb /\ mu wa = mu wb /\ hs wa = hs wb /\
  snd (do_op (step w sc) o) = snd (do_op w o) /\
  exists new, tr (step w o) = new ++ tr w /\
              tr wa = new ++ ERet sc 0%Z :: tr w /\ tr wb = ERet sc 0%Z :: new ++ tr w.
Proof. exact (Lemmas_C17c.setter_commutes_grp D ioS muS hS io_read io_write mu_lock mu_unlock h_call). Qed.

(* an operation that does not read the flags does not write them *)
Theorem C17_blind_keeps_flags : forall (w : world) o, SF.op_blind o (st w) = true ->
  dis_cmd (st (step w o)) = dis_cmd (st w) /\ dis_grp (st (step w o)) = dis_grp (st w).
Proof. exact (Lemmas_C17c.blind_keeps_flags D ioS muS hS io_read io_write mu_lock mu_unlock h_call). Qed.

(* the setters among themselves: different tables always; the same table if the indices differ
   or the values agree *)
Theorem C17_setters_cmd_grp_commute : forall (w : world) i b g b',
  let o1 := OSetCmdDisable i b in let o2 := OSetGroupDisable g b' in
  let wa := step (step w o1) o2 in let wb := step (step w o2) o1 in
  st wa = st wb /\ io wa = io wb /\ mu wa = mu wb /\ hs wa = hs wb /\
  tr wa = ERet o2 0%Z :: ERet o1 0%Z :: tr w /\ tr wb = ERet o1 0%Z :: ERet o2 0%Z :: tr w.
Proof. exact (Lemmas_C17c.setters_cmd_grp_commute D ioS muS hS io_read io_write mu_lock mu_unlock h_call). Qed.

Theorem C17_setters_cmd_cmd_commute : forall (w : world) i b j b', i <> j \/ b = b' ->
  let o1 := OSetCmdDisable i b in let o2 := OSetCmdDisable j b' in
  let wa := step (step w o1) o2 in let wb := step (step w o2) o1 in
  st wa = st wb /\ io wa = io wb /\ mu wa = mu wb /\ hs wa = hs wb /\
  tr wa = ERet o2 0%Z :: ERet o1 0%Z :: tr w /\ tr wb = ERet o1 0%Z :: ERet o2 0%Z :: tr w.
Proof. exact (Lemmas_C17c.setters_cmd_cmd_commute D ioS muS hS io_read io_write mu_lock mu_unlock h_call). Qed.

Theorem C17_setters_grp_grp_commute : forall (w : world) i b j b', i <> j \/ b = b' ->
  let o1 := OSetGroupDisable i b in let o2 := OSetGroupDisable j b' in
  let wa := step (step w o1) o2 in let wb := step (step w o2) o1 in
  st wa = st wb /\ io wa = io wb /\ mu wa = mu wb /\ hs wa = hs wb /\
  tr wa = ERet o2 0%Z :: ERet o1 0%Z :: tr w /\ tr wb = ERet o1 0%Z :: ERet o2 0%Z :: tr w.
Proof. exact (Lemmas_C17c.setters_grp_grp_commute D ioS muS hS io_read io_write mu_lock mu_unlock h_call). Qed.

End Setters.

Print Assumptions C17_setter_frame.
Print Assumptions C17_setter_frame_fields.
Print Assumptions C17_setter_commutes_cmd.
Print Assumptions C17_setter_commutes_grp.
Print Assumptions C17_blind_keeps_flags.
Print Assumptions C17_setters_cmd_grp_commute.
Print Assumptions C17_setters_cmd_cmd_commute.
Print Assumptions C17_setters_grp_grp_commute.

(* ================================================================== *)
(* non-vacuity                                                          *)
(* ================================================================== *)
(* one command "+X" (index 0) with a read and a run handler; queue capacity 2; a mutex is
   configured (so every locked operation logs ELock / EUnlock); scripted oracles of Script.v:
   input "AT+X\n", every read / write / lock / unlock succeeds, handlers answer OK *)
Definition exD : desc :=
  mkDesc [[mkCmd [43; 88]%N None false true true false [] false false false]] [] 16 None 0%N 2 true.
Definition exW0 : sworld := sinit exD [] (mkSio [65; 84; 43; 88; 10]%N [] []) (mkSmu [] []) [].
Local Notation exStep := (step exD sio smu shs s_read s_write s_lock s_unlock s_call).
Local Notation exRun := (run exD sio smu shs s_read s_write s_lock s_unlock s_call).
Local Notation exBody := (fun (o : op) (w : sworld) => exStep w o).
Local Notation exAns := (fun (q : op) (w : sworld) => obs_ans exD q (st _ _ _ w)).

(* ---- threads.  Thread 0 triggers the read event of "+X" and then calls cat_service; thread 1
   calls cat_service.  Unlocked queries at eight points, among them: before the trigger's
   ACQUIRE, between its ACQUIRE and its BODY, between its BODY and its RELEASE, and between the
   BODY and the RELEASE of thread 1's cat_service ---- *)
Definition exQ : op := OIsBuffered 0 T_READ.
Definition exP : op := OGetProcessed UNSOL.
Definition ex_tl : list (list op) := [[OTrigger 0 T_READ; OService]; [OService]].
Definition ex_acts : list (act op) :=
  [Look exQ; Tick 0; Look exQ; Tick 0; Look exQ; Tick 0;
   Tick 1; Tick 1; Look exP; Tick 1; Look exQ;
   Tick 0; Tick 0; Tick 0; Look exQ; Look exP].
Definition ex_labs : list (lab op op Z) :=
  [LObs exQ 0%Z; LAcq 0 (OTrigger 0 T_READ); LObs exQ 0%Z; LObs exQ 1%Z;
   LAcq 1 OService; LObs exP 0%Z; LObs exQ 1%Z;
   LAcq 0 OService; LObs exQ 0%Z; LObs exP (-1)%Z].

(* the schedule is an execution; the answers: not buffered, not buffered (lock taken by the
   trigger, body not yet run), buffered (body run, lock not yet released); after thread 1's
   service body the event machine processes command 0 (get_processed = 0) and the event still
   counts as buffered; after thread 0's service it is done (not buffered, get_processed = NULL) *)
Example C17c_ex_execution :
  let r := osched exBody exAns (start exW0 ex_tl) ex_acts in
  osteps exBody exAns (start exW0 ex_tl) (snd r) (fst r) /\
  snd r = ex_labs /\ quiescent (fst r) /\ remaining (fst r) 0 = [] /\ remaining (fst r) 1 = [].
Proof.
  split; [exact (osched_sound _ _ exBody _ _ exAns ex_acts (start exW0 ex_tl))|].
  vm_compute. repeat split; repeat constructor.
Qed.

(* C17_threads_observers applies to every observation of every schedule (helper over abstract
   schedules and labels; the instances below only compute the split of the label list) *)
Definition ex_concl (l1 : list (lab op op Z)) (q : op) (r : Z) : Prop :=
  exists lin' c1,
    osteps exBody exAns (start exW0 ex_tl) l1 c1 /\
    (lin' = acqs l1 \/ exists i o, acqs l1 = lin' ++ [(i, o)]) /\
    (forall i rest o, nth_error (threads c1) i = Some (rest, Holding o) -> acqs l1 = lin' ++ [(i, o)]) /\
    ((forall i rest o, nth_error (threads c1) i <> Some (rest, Holding o)) -> lin' = acqs l1) /\
    let ws := exRun exW0 (map snd lin') in
    r = obs_ans exD q (st _ _ _ ws) /\
    exRun exW0 (map snd lin' ++ [q]) = logw _ _ _ (ERet q r) ws.

Lemma ex_applies : forall acts l1 q r l2, is_observer q = true ->
  snd (osched exBody exAns (start exW0 ex_tl) acts) = l1 ++ LObs q r :: l2 -> ex_concl l1 q r.
Proof.
  intros acts l1 q r l2 Hq E.
  apply (C17_threads_observers exD sio smu shs s_read s_write s_lock s_unlock s_call exW0 ex_tl
           l1 q r l2 (fst (osched exBody exAns (start exW0 ex_tl) acts)) Hq).
  rewrite <- E. exact (osched_sound _ _ exBody _ _ exAns acts (start exW0 ex_tl)).
Qed.

(* second observation (between the trigger's ACQUIRE and BODY) and third (between BODY and
   RELEASE) *)
Example C17c_ex_second : ex_concl [LObs exQ 0%Z; LAcq 0 (OTrigger 0 T_READ)] exQ 0%Z.
Proof. apply (ex_applies ex_acts _ exQ 0%Z (skipn 3 ex_labs) eq_refl). vm_compute. reflexivity. Qed.
Example C17c_ex_third :
  ex_concl [LObs exQ 0%Z; LAcq 0 (OTrigger 0 T_READ); LObs exQ 0%Z] exQ 1%Z.
Proof. apply (ex_applies ex_acts _ exQ 1%Z (skipn 4 ex_labs) eq_refl). vm_compute. reflexivity. Qed.

(* which lin' it is: the answer 0 of the second observation is the sequential answer BEFORE the
   trigger, not after it, so only  lin' = acqs l1 minus its last element  fits (the clause
   "possibly one position earlier" of 2b / 2c is needed); the answer 1 of the third is the
   sequential answer after the trigger *)
Example C17c_ex_lin_values :
  obs_ans exD exQ (st _ _ _ (exRun exW0 [])) = 0%Z /\
  obs_ans exD exQ (st _ _ _ (exRun exW0 [OTrigger 0 T_READ])) = 1%Z /\
  obs_ans exD exP (st _ _ _ (exRun exW0 [OTrigger 0 T_READ; OService])) = 0%Z /\
  obs_ans exD exP (st _ _ _ (exRun exW0 [OTrigger 0 T_READ; OService; OService])) = (-1)%Z.
Proof. vm_compute. repeat split; reflexivity. Qed.

(* the sequential witness of C17_observers_linearizable for this execution: the second
   observation has moved before the trigger *)
Definition ex_xs : list (nat * op + op) :=
  [inr exQ; inr exQ; inl (0, OTrigger 0 T_READ); inr exQ;
   inl (1, OService); inr exP; inr exQ; inl (0, OService); inr exQ; inr exP].
Example C17c_ex_linearization :
  let r := osched exBody exAns (start exW0 ex_tl) ex_acts in
  xacqs ex_xs = acqs (snd r) /\ xqs ex_xs = map fst (obs (snd r)) /\
  snd (xexec exBody exAns ex_xs exW0) = map snd (obs (snd r)) /\
  fst (xexec exBody exAns ex_xs exW0) = shared (fst r) /\
  snd (xexec exBody exAns ex_xs exW0) = [0; 0; 1; 0; 1; 0; -1]%Z.
Proof. vm_compute. repeat split; reflexivity. Qed.

(* ---- sequential model (1c): the query inserted at three positions of
   [trigger; service; service]: same final state, its own entry carries the value of its
   position ---- *)
Example C17c_ex_seq :
  let ops := [OTrigger 0 T_READ; OService; OService] in
  st _ _ _ (exRun exW0 (exQ :: ops)) = st _ _ _ (exRun exW0 ops) /\
  st _ _ _ (exRun exW0 ([OTrigger 0 T_READ] ++ exQ :: [OService; OService])) = st _ _ _ (exRun exW0 ops) /\
  st _ _ _ (exRun exW0 (ops ++ [exQ])) = st _ _ _ (exRun exW0 ops) /\
  filter (fun e => match e with ERet (OIsBuffered _ _) _ => true | _ => false end)
         (tr _ _ _ (exRun exW0 (exQ :: OTrigger 0 T_READ :: exQ :: [OService; OService] ++ [exQ]))) =
  [ERet exQ 0%Z; ERet exQ 1%Z; ERet exQ 0%Z] /\
  filter (fun e => match e with ERet (OIsBuffered _ _) _ => false | _ => true end)
         (tr _ _ _ (exRun exW0 (exQ :: OTrigger 0 T_READ :: exQ :: [OService; OService] ++ [exQ]))) =
  tr _ _ _ (exRun exW0 ops).
Proof. vm_compute. repeat split; reflexivity. Qed.

(* ---- the setters ---- *)
(* the state of the command machine after n service calls on the input "AT+X\n" *)
Example C17c_ex_states :
  map (fun n => k_state (k (st _ _ _ (exRun exW0 (repeat OService n))))) [5; 6; 7] =
  [CS_UPDATE_COMMAND_STATE; CS_PARSE_COMMAND_CHAR; CS_SEARCH_COMMAND].
Proof. vm_compute. reflexivity. Qed.

(* the hypothesis of C17_setter_commutes_cmd is satisfiable for a service call (n = 6, a byte is
   being read) and the conclusion can be observed *)
Example C17c_ex_setter_commutes :
  let w := exRun exW0 (repeat OService 6) in
  SF.op_blind OService (st _ _ _ w) = true /\
  st _ _ _ (exRun w [OSetCmdDisable 0 true; OService]) = st _ _ _ (exRun w [OService; OSetCmdDisable 0 true]) /\
  dis_cmd (st _ _ _ (exRun w [OSetCmdDisable 0 true; OService])) = [true].
Proof. vm_compute. repeat split; reflexivity. Qed.

(* the hypothesis is necessary: in CS_SEARCH_COMMAND (n = 7) disabling "+X" before the service
   call makes the lookup fail, after it the command is found; in CS_UPDATE_COMMAND_STATE (n = 5,
   the character X completes the name) the match lane of the command is updated or not *)
Example C17c_ex_setter_blind_necessary :
  let w7 := exRun exW0 (repeat OService 7) in
  let w5 := exRun exW0 (repeat OService 5) in
  SF.op_blind OService (st _ _ _ w7) = false /\
  k_state (k (st _ _ _ (exRun w7 [OSetCmdDisable 0 true; OService]))) = CS_COMMAND_NOT_FOUND /\
  k_state (k (st _ _ _ (exRun w7 [OService; OSetCmdDisable 0 true]))) = CS_COMMAND_FOUND /\
  SF.op_blind OService (st _ _ _ w5) = false /\
  cbuf (st _ _ _ (exRun w5 [OSetCmdDisable 0 true; OService])) <>
  cbuf (st _ _ _ (exRun w5 [OService; OSetCmdDisable 0 true])).
Proof. vm_compute. repeat split; try reflexivity. discriminate. Qed.

(* two stores to the same flag with different values do not commute *)
Example C17c_ex_same_flag_necessary :
  dis_cmd (st _ _ _ (exRun exW0 [OSetCmdDisable 0 true; OSetCmdDisable 0 false])) = [false] /\
  dis_cmd (st _ _ _ (exRun exW0 [OSetCmdDisable 0 false; OSetCmdDisable 0 true])) = [true].
Proof. vm_compute. split; reflexivity. Qed.
