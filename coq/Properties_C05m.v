(* Properties_C05m.v - property C05 at machine level: hex-buffer and string arguments in
   Fsm.parse_write_args (the service step taken in CS_PARSE_WRITE_ARGS), and what the variable's
   write callback is told.  Arbitrary oracles; all proofs are in Lemmas_WriteM.v.

   Definitions imported from Lemmas_WriteM / Lemmas_C07e / Lemmas_C10 (repeated for the reader):

   Definition str_field (f : list N) : option (list N) :=     (* QUOTE body QUOTE, alone *)
     match f with
     | q :: r => if q =? ch_QUOTE then match str_body r with Some (bs, []) => Some bs | _ => None end
                 else None
     | [] => None end.
   Definition field_bytes (v : var) (f : list N) : option (list N * nat) :=
     (the bytes written at the front of the storage, the reported write size)
     match v_type v with
     | VBufHex => match hexbuf_accepts (v_size v) f with Some bs => Some (bs, length bs) | None => None end
     | VBufStr => match str_field f with
                  | Some bs => if length bs <? v_size v then Some (bs ++ [0], length bs) else None
                  | None => None end
     | _ => if num_accepts v f then Some (num_encode v f, v_size v) else None
     end.
   Definition store_front (bytes data : list N) : list N := bytes ++ skipn (length bytes) data.
   Definition pwa_store v d ws n s :=      (* decode + store + write_size, before the callback *)
     setk_write_size ws (set_mem (upd (mem s) (v_slot v) d) (setk_position (k_position (k s) + n) s)).
   Definition pwa_next c comma s :=        (* the index bookkeeping, see C04_step_decision *)
   calls_of t : the (request, returned code) pairs of the ECall events of trace t, newest first. *)
From Coq Require Import List NArith ZArith Bool Arith.
From CatV Require Import Bytes Defs Codec Spec Fsm TextDefs Lemmas_C10 Lemmas_C07e Lemmas_WriteM.
Import ListNotations.
Local Open Scope nat_scope.

(* ---------- 0. the acceptance conditions of the two buffer types ---------- *)
Theorem C05_field_bytes_hexbuf : forall v f, v_type v = VBufHex ->
  field_bytes v f = match hexbuf_accepts (v_size v) f with
                    | Some bs => Some (bs, length bs) | None => None end.
Proof. exact Lemmas_WriteM.field_bytes_hexbuf. Qed.
Print Assumptions C05_field_bytes_hexbuf.

Theorem C05_field_bytes_string : forall v f, v_type v = VBufStr ->
  field_bytes v f = match str_field f with
                    | Some bs => if length bs <? v_size v then Some (bs ++ [0%N], length bs) else None
                    | None => None end.
Proof. exact Lemmas_WriteM.field_bytes_string. Qed.
Print Assumptions C05_field_bytes_string.

(* a string field taken alone against Spec.str_decode on the text in the buffer *)
Theorem C05_str_field_decode : forall f bs t tail, str_field f = Some bs -> is_term t = true ->
  str_decode (f ++ t :: tail) = Some (bs, (t =? ch_COMMA)%N, S (length f)).
Proof. exact Lemmas_WriteM.str_field_decode. Qed.
Print Assumptions C05_str_field_decode.

(* a string argument does not look behind the NUL that ends the argument text *)
Theorem C05_str_decode_tail : forall l tl,
  match str_decode (l ++ [0%N]) with
  | Some (bs, cm, _) => exists n, str_decode (l ++ 0%N :: tl) = Some (bs, cm, n)
  | None => str_decode (l ++ 0%N :: tl) = None
  end.
Proof. exact Lemmas_WriteM.str_decode_tail. Qed.
Print Assumptions C05_str_decode_tail.

Section C05m.
Variable D : desc.
Variables ioS muS hS : Type.
Variable mu_lock : muS -> muS * bool.
Variable mu_unlock : muS -> muS * bool.
Variable h_call : hS -> hreq -> hS * hres.

Local Notation world := (Fsm.world ioS muS hS).
Local Notation st := (Fsm.st ioS muS hS).
Local Notation io := (Fsm.io ioS muS hS).
Local Notation mu := (Fsm.mu ioS muS hS).
Local Notation hs := (Fsm.hs ioS muS hS).
Local Notation tr := (Fsm.tr ioS muS hS).
Local Notation set_st := (Fsm.set_st ioS muS hS).
Local Notation call_h := (Fsm.call_h D ioS muS hS mu_lock mu_unlock h_call).
Local Notation parse_write_args := (Fsm.parse_write_args D ioS muS hS mu_lock mu_unlock h_call).

(* ---------- 1. the accept step with a variable write callback, any decoder result ---------- *)
(* exactly one handler call in the step: VWrite (command, variable index, write size as decoded,
   storage as stored); the value is in the storage BEFORE the callback runs (as in C); return
   code 0: the index bookkeeping of the callback-free step; ANY other code: ERROR *)
Theorem C05_accept_step_callback : forall (w : world) ci c v data comma d' ws n,
  k_cmd (k (st w)) = Some ci -> cmd_at D ci = Some c ->
  nth_error (c_vars c) (k_var (k (st w))) = Some v ->
  nth_error (mem (st w)) (v_slot v) = Some data ->
  decode_var v (skipn (k_position (k (st w))) (cbuf (st w))) data = (SOk comma, d', ws, n) ->
  v_hwrite v = true ->
  let s2 := pwa_store v d' ws n (st w) in
  let q := VWrite ci (k_var (k (st w))) ws d' in
  let w1 := fst (call_h (set_st s2 w) q) in let r := snd (call_h (set_st s2 w) q) in
  nth_error (mem s2) (v_slot v) = Some d' /\
  exists w', parse_write_args w = (w', ST_BUSY) /\
    hs w' = hs w1 /\ io w' = io w1 /\ mu w' = mu w1 /\ tr w' = tr w1 /\
    calls_of (tr w') = (q, r_code r) :: calls_of (tr w) /\
    st w' = if (r_code r =? 0)%Z then pwa_next c comma (st w1) else ack_error (st w1).
Proof. exact (Lemmas_WriteM.accept_step_callback D ioS muS hS mu_lock mu_unlock h_call). Qed.

(* ---------- 2. the same through the specification: the callback is told the decoded length ---------- *)
(* for a hex buffer ws = number of decoded bytes, for a string ws = number of decoded characters
   (without the NUL), for a number ws = data_size (C05_field_bytes_*, C04_field_bytes_numeric);
   the storage it sees is the specified one *)
Theorem C05_callback_told_length : forall (w : world) ci c v data f t tail bytes ws,
  k_cmd (k (st w)) = Some ci -> cmd_at D ci = Some c ->
  nth_error (c_vars c) (k_var (k (st w))) = Some v ->
  nth_error (mem (st w)) (v_slot v) = Some data ->
  v_access v <> RO -> v_size v <= length data ->
  skipn (k_position (k (st w))) (cbuf (st w)) = f ++ t :: tail ->
  is_term t = true -> In 0%N (f ++ t :: tail) ->
  (v_type v <> VBufStr -> field_ok f = true) ->
  field_bytes v f = Some (bytes, ws) -> v_hwrite v = true ->
  let s2 := pwa_store v (store_front bytes data) ws (S (length f)) (st w) in
  let q := VWrite ci (k_var (k (st w))) ws (store_front bytes data) in
  let w1 := fst (call_h (set_st s2 w) q) in let r := snd (call_h (set_st s2 w) q) in
  nth_error (mem s2) (v_slot v) = Some (store_front bytes data) /\
  exists w', parse_write_args w = (w', ST_BUSY) /\
    hs w' = hs w1 /\ io w' = io w1 /\ mu w' = mu w1 /\ tr w' = tr w1 /\
    calls_of (tr w') = (q, r_code r) :: calls_of (tr w) /\
    st w' = if (r_code r =? 0)%Z then pwa_next c (t =? ch_COMMA)%N (st w1) else ack_error (st w1).
Proof. exact (Lemmas_WriteM.accept_step_callback_spec D ioS muS hS mu_lock mu_unlock h_call). Qed.

(* ---------- 3. rejected buffer arguments: ERROR, no call, nothing at or beyond data_size ---------- *)
Theorem C05_reject_hexbuf_step : forall (w : world) ci c v data f t tail,
  k_cmd (k (st w)) = Some ci -> cmd_at D ci = Some c ->
  nth_error (c_vars c) (k_var (k (st w))) = Some v ->
  nth_error (mem (st w)) (v_slot v) = Some data ->
  v_type v = VBufHex -> v_access v <> RO -> v_size v <= length data ->
  skipn (k_position (k (st w))) (cbuf (st w)) = f ++ t :: tail -> In 0%N (f ++ t :: tail) ->
  field_ok f = true -> is_term t = true -> hexbuf_accepts (v_size v) f = None ->
  exists w' d' n, parse_write_args w = (w', ST_BUSY) /\
    tr w' = tr w /\ hs w' = hs w /\ io w' = io w /\ mu w' = mu w /\
    st w' = ack_error (st w |> setk_position (k_position (k (st w)) + n)
                            |> set_mem (upd (mem (st w)) (v_slot v) d')) /\
    length d' = length data /\ skipn (v_size v) d' = skipn (v_size v) data.
Proof. exact (Lemmas_WriteM.reject_hexbuf_step D ioS muS hS mu_lock mu_unlock h_call). Qed.

Theorem C05_reject_string_step : forall (w : world) ci c v data l,
  k_cmd (k (st w)) = Some ci -> cmd_at D ci = Some c ->
  nth_error (c_vars c) (k_var (k (st w))) = Some v ->
  nth_error (mem (st w)) (v_slot v) = Some data ->
  v_type v = VBufStr -> v_access v <> RO -> v_size v <= length data ->
  skipn (k_position (k (st w))) (cbuf (st w)) = l -> In 0%N l ->
  match str_decode l with Some (bs, _, _) => v_size v <= length bs | None => True end ->
  exists w' d' n, parse_write_args w = (w', ST_BUSY) /\
    tr w' = tr w /\ hs w' = hs w /\ io w' = io w /\ mu w' = mu w /\
    st w' = ack_error (st w |> setk_position (k_position (k (st w)) + n)
                            |> set_mem (upd (mem (st w)) (v_slot v) d')) /\
    length d' = length data /\ skipn (v_size v) d' = skipn (v_size v) data.
Proof. exact (Lemmas_WriteM.reject_string_step D ioS muS hS mu_lock mu_unlock h_call). Qed.

End C05m.

Print Assumptions C05_accept_step_callback.
Print Assumptions C05_callback_told_length.
Print Assumptions C05_reject_hexbuf_step.
Print Assumptions C05_reject_string_step.

(* ---------- non-vacuity: command +B with hexbuf[4] and string[6], both with write callback ---------- *)
Module C05m_examples.
Definition v1 := mkVar None VBufHex 4 RW false true 0.
Definition v2 := mkVar None VBufStr 6 WO false true 1.
Definition c0 := mkCmd [43; 66]%N None false false false false [v1; v2] false false false.
Definition D0 := mkDesc [[c0]] [] 40 (Some 8) 85%N 2 false.
(* storage longer than data_size: the bytes beyond must never change *)
Definition m0 : list (list N) := [[1; 2; 3; 4; 91; 92]; [4; 5; 6; 7; 8; 9; 93]]%N.
(* the oracle answers code0 to the callback of variable 0 and code1 to that of variable 1 *)
Definition hc (code0 code1 : Z) (h : nat) (q : hreq) : nat * hres :=
  (S h, mkHres (match q with VWrite _ 0 _ _ => code0 | _ => code1 end) None [] []).
Definition lk (u : unit) : unit * bool := (tt, true).
Definition base (args : list N) : state :=
  setk_length (length args) (setk_state CS_PARSE_WRITE_ARGS (setk_cmd (Some 0)
    (mkState init_cfsm (init_ufsm D0) (firstn 24 (args ++ 0%N :: repeat 85%N 24)) (repeat 85%N 8)
             m0 [false] [false] false 0 0 0))).
Definition w0 (args : list N) : Fsm.world unit unit nat := mkWorld unit unit nat (base args) tt tt 0 [].
Definition run (code0 code1 : Z) (args : list N) :=
  pwa_run D0 unit unit nat lk lk (hc code0 code1) 5 (w0 args).
Definition show (w : Fsm.world unit unit nat) :=
  (k_state (k (st _ _ _ w)), k_wafter (k (st _ _ _ w)), text_of (cbuf (st _ _ _ w)),
   mem (st _ _ _ w), calls_of (tr _ _ _ w)).

Definition f1 : list N := [48; 97; 70; 70]%N.             (* 0aFF : both hex cases *)
Definition f2 : list N := [34; 104; 92; 34; 105; 34]%N.   (* dquote h backslash dquote i dquote *)

Example ex_field_bytes :
  field_bytes v1 f1 = Some ([10; 255]%N, 2) /\ field_bytes v2 f2 = Some ([104; 34; 105; 0]%N, 3).
Proof. vm_compute. split; reflexivity. Qed.

(* both callbacks answer 0: told 2 decoded bytes / 3 decoded characters and the storage as
   stored; OK (the command has no write handler); bytes at or beyond data_size untouched *)
Example ex_accept : show (run 0 0 (join_comma [f1; f2]))
  = (CS_FLUSH_WAIT, CS_AFTER_RESET, txt_OK,
     [[10; 255; 3; 4; 91; 92]; [104; 34; 105; 0; 8; 9; 93]]%N,
     [(VWrite 0 1 3 [104; 34; 105; 0; 8; 9; 93]%N, 0%Z); (VWrite 0 0 2 [10; 255; 3; 4; 91; 92]%N, 0%Z)]).
Proof. vm_compute. reflexivity. Qed.

(* the second callback answers 5: ERROR; the value had been stored before the callback ran *)
Example ex_callback_fails : show (run 0 5 (join_comma [f1; f2]))
  = (CS_FLUSH_WAIT, CS_AFTER_RESET, txt_ERROR,
     [[10; 255; 3; 4; 91; 92]; [104; 34; 105; 0; 8; 9; 93]]%N,
     [(VWrite 0 1 3 [104; 34; 105; 0; 8; 9; 93]%N, 5%Z); (VWrite 0 0 2 [10; 255; 3; 4; 91; 92]%N, 0%Z)]).
Proof. vm_compute. reflexivity. Qed.

(* a string of 6 characters does not fit data_size 6 (5 + NUL): ERROR, the callback of variable 1
   is not called; the six bytes below data_size have been overwritten on the way (allowed by the
   property), the byte beyond data_size (93) has not *)
Definition f2long : list N := [34; 97; 98; 99; 100; 101; 102; 34]%N.
Example ex_string_too_long : show (run 0 0 (join_comma [f1; f2long]))
  = (CS_FLUSH_WAIT, CS_AFTER_RESET, txt_ERROR,
     [[10; 255; 3; 4; 91; 92]; [97; 98; 99; 100; 101; 102; 93]]%N,
     [(VWrite 0 0 2 [10; 255; 3; 4; 91; 92]%N, 0%Z)]).
Proof. vm_compute. reflexivity. Qed.

(* an odd number of hex digits at field 0: ERROR, no call at all *)
Example ex_hex_odd : show (run 0 0 (join_comma [[48; 97; 70]%N; f2]))
  = (CS_FLUSH_WAIT, CS_AFTER_RESET, txt_ERROR,
     [[10; 2; 3; 4; 91; 92]; [4; 5; 6; 7; 8; 9; 93]]%N, []).
Proof. vm_compute. reflexivity. Qed.

(* the general theorem applied to the first step of the instance *)
Example ex_apply : exists w',
  parse_write_args D0 unit unit nat lk lk (hc 0 0) (w0 (join_comma [f1; f2])) = (w', ST_BUSY) /\
  calls_of (tr _ _ _ w') = [(VWrite 0 0 2 [10; 255; 3; 4; 91; 92]%N, 0%Z)].
Proof.
  destruct (C05_callback_told_length D0 unit unit nat lk lk (hc 0 0) (w0 (join_comma [f1; f2]))
              0 c0 v1 [1; 2; 3; 4; 91; 92]%N f1 ch_COMMA (f2 ++ 0%N :: repeat 85%N 12) [10; 255]%N 2)
    as (_ & w' & E & _ & _ & _ & _ & Hc & _);
    try reflexivity; try discriminate.
  - cbn. repeat constructor.
  - vm_compute. auto 20.
  - exists w'. split; [exact E|exact Hc].
Qed.
End C05m_examples.
