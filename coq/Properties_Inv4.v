(* Properties_Inv4.v — fourth batch of history theorems under hypotheses on the environment oracles
   that hold on an INVARIANT of the oracle states only (`_inv`), their instances for the scripted
   worlds of Script.v (`_scripted`: srun D (sinit D m x mx h) (map SOp ops), decidable conditions on
   the scripts) and for scenarios made of API calls, new input (SFeed) and application stores
   (SPoke) in any order (`_scenario`).  Continuation of Properties_Inv.v / Properties_Inv2.v /
   Properties_Inv3.v: what a review found still stated with hypotheses over ALL oracle states.
   Proofs: Lemmas_Inv4.v (nothing is proved again: the existing theorems are applied to a sanitised
   oracle that equals h_call on the invariant; the scenario forms go through the one-step lemmas of
   the base developments).

     1. Properties_C02i  C02_calls_one_line, C02_types_by_state, C02_handler_kind'     _inv, _scripted
                         (C02_found_is_resolve', C02_handler_step, C02_type_when_needed: their `_inv`
                         forms, proved in Lemmas_C02i.v, are restated here; `_scripted` forms are in
                         Properties_C02i.v)
     2. Properties_C13p  C13_observers_exact_opt                   _inv, _scripted, _scenario
     3. Properties_C01r  C01_result_code_counters, C01_result_codes_are_units, C01_rc_tracks_lines,
                         C01_lines_answered_in_stream               _inv, _scenario (`_scripted`: there)
     4. scenario forms missing in Properties_Inv2.v:
        Properties_C01s  C01_no_read_ahead                          _scenario
        Properties_C11s  C11_stream_per_producer                    _scenario
        Properties_C02c  C02_calls_history, C02_selection_origin, C02_calls_selected     _scenario
        Properties_C09c  C09_calls_enabled_history                  _scenario
        (the history is split over the scenario operations: SFeed, SPoke log nothing, so a callback
        of a scenario was logged by one of its `SOp OService` steps)
     5. Properties_C06r  C06_read_handler_text_cb                   _inv, _scripted

   Invariants (Properties_Inv.v / Properties_Inv2.v):
     no event-side HOLD      HI_stepH : HI is preserved, answers to event-side requests given on HI are not HOLD;
                             scripts: no_rt_hold h = true
     valid inner calls       HV_step; scripts: script_ok (res_calls_valid D) h = true
     Good                    HI_step : both; scripts: both conditions
   `tr w` is newest first.  Worked instances: Properties_Inv4Ex.v. *)
From Coq Require Import List NArith ZArith Bool Arith Lia.
From CatV Require Import Bytes Defs Codec Spec Fsm Script Skel SkelInv SkelSim EvSkelSim TraceDefs ResolveDefs SchedDefs TermDefs.
From CatV Require Import Lemmas_Ctl Lemmas_C03 Lemmas_C11 Lemmas_C11s Lemmas_C01s Lemmas_Inv Lemmas_Inv2.
From CatV Require Lemmas_C09 Lemmas_Calls Lemmas_C02h Lemmas_C02i Lemmas_C13p Lemmas_C01r Lemmas_C06r Lemmas_C10
                  Properties_C13o Properties_C02c Properties_C09c.
From CatV Require Import Lemmas_Inv4.
Import ListNotations.
Local Open Scope nat_scope.

(* ------------------------------------------------------------------ *)
(* the definitions introduced in Lemmas_Inv4.v, for the reader          *)
(* ------------------------------------------------------------------ *)
(* `the enable flags are changed only between lines`, along a scenario *)
Example sc_sflags_between_lines_def : forall D (w : sworld) o sops,
  sc_sflags_between_lines D w [] = True /\
  sc_sflags_between_lines D w (o :: sops) =
    ((match o with
      | SOp op => Lemmas_C09.flag_op op = true -> k_state (k (st _ _ _ w)) = CS_IDLE
      | _ => True
      end) /\ sc_sflags_between_lines D (sstep D w o) sops).
Proof. split; reflexivity. Qed.
(* it is the predicate of Properties_Inv2.v on scenarios made of API calls *)
Theorem sc_sflags_SOp : forall D ops (w : sworld),
  sc_sflags_between_lines D w (map SOp ops) <-> sc_flags_between_lines D w ops.
Proof. exact Lemmas_Inv4.sflags_SOp. Qed.
(* decided: no operation of the scenario changes a flag *)
Example sflag_op_def : forall o,
  sflag_op o = match o with SOp (OSetCmdDisable _ _) | SOp (OSetGroupDisable _ _) => true | _ => false end.
Proof. intros [[]| | |]; reflexivity. Qed.
Theorem no_flag_sops_between : forall D sops (w : sworld),
  forallb (fun o => negb (sflag_op o)) sops = true -> sc_sflags_between_lines D w sops.
Proof. exact Lemmas_Inv4.no_flag_sops_between. Qed.
(* the read callback of variable vi (one that has a read callback) of command number ci, whose
   variables are those of c, asked by machine f *)
Example is_vread_cb_def : forall f ci c q,
  is_vread_cb f ci c q = true <->
  exists vi v, q = VRead f ci vi /\ nth_error (c_vars c) vi = Some v /\ v_hread v = true.
Proof.
  intros f ci c q. split; [apply is_vread_cb_inv|].
  intros (vi & v & -> & E1 & E2). exact (is_vread_cb_self f ci c vi v E1 E2).
Qed.
(* scripts: every answer of every script whose key satisfies K satisfies Pr; the keys of the read
   callbacks (kind 4) of the variables of command ci that have one; none of them makes an inner call *)
Example keyed_ok_def : forall K Pr h,
  keyed_ok K Pr h = forallb (fun e => negb (K (fst e)) || forallb Pr (snd e)) h.
Proof. reflexivity. Qed.
Example vread_key_def : forall ci c kind ci' vi,
  vread_key ci c (kind, ci', vi) =
  (kind =? 4) && (ci' =? ci) && match nth_error (c_vars c) vi with Some v => v_hread v | None => false end.
Proof. reflexivity. Qed.
Example vread_no_calls_def : forall ci c h, vread_no_calls ci c h = keyed_ok (vread_key ci c) res_no_calls h.
Proof. reflexivity. Qed.
Print Assumptions sc_sflags_SOp.
Print Assumptions no_flag_sops_between.

(* ================================================================== *)
(* 1. Properties_C02i                                                   *)
(* ================================================================== *)
Section InvC02i.
Import Lemmas_C02h Lemmas_C02i.
Variable D : desc.
Variables ioS muS hS : Type.
Variable io_read : ioS -> ioS * option N.
Variable io_write : ioS -> N -> ioS * bool.
Variable mu_lock : muS -> muS * bool.
Variable mu_unlock : muS -> muS * bool.
Variable h_call : hS -> hreq -> hS * hres.
Variable HI : hS -> Prop.
(* Good D q r: an event-side answer is not HOLD, and the inner calls of r are valid_icall D *)
Hypothesis HI_step : forall h q, HI h -> HI (fst (h_call h q)) /\ Good D q (snd (h_call h q)).

Notation world := (Fsm.world ioS muS hS).
Notation st := (Fsm.st ioS muS hS).
Notation tr := (Fsm.tr ioS muS hS).
Notation run := (Fsm.run D ioS muS hS io_read io_write mu_lock mu_unlock h_call).
Notation step := (Fsm.step D ioS muS hS io_read io_write mu_lock mu_unlock h_call).
Notation init m x mx h := (mkWorld ioS muS hS (init_state D m) x mx h []).
Notation flags_between_lines :=
  (Lemmas_C09.flags_between_lines D ioS muS hS io_read io_write mu_lock mu_unlock h_call).
Notation consumed := Lemmas_C01s.consumed.
Notation line w := (cur_line (consumed (tr w))).
Notation on_line := (Lemmas_C02i.on_line D ioS muS hS io_read io_write mu_lock mu_unlock h_call).
Notation L T := (T D ioS muS hS io_read io_write mu_lock mu_unlock h_call HI HI_step).

(* ---- the three `_inv` forms proved in Lemmas_C02i.v ---- *)
Theorem C02_found_is_resolve'_inv : forall m x mx h ops, HI h ->
  wf_desc D m -> Forall (valid_op D) ops ->
  flags_between_lines (init m x mx h) ops ->
  let w := run (init m x mx h) ops in
  k_state (k (st w)) = CS_COMMAND_FOUND ->
  (k_cmd (k (st w)) = resolve (typed_of (line w)) (enabled D (st w)) (cmds D) /\
   k_cmd (k (st w)) <> None /\
   k_type (k (st w)) = type_of (line w)) /\
  typed_of (line w) <> [] /\
  typed_of (line w) = typed_decl (line w) /\
  fresh (xscan (line w)) = true.
Proof. exact (L Lemmas_C02i.C02_found_is_resolve'_inv). Qed.

(* on_line ops w0 ci c: Properties_C02i.def_on_line *)
Theorem C02_handler_step_inv : forall m x mx h ops o new q code, HI h ->
  wf_desc D m -> Forall (valid_op D) (ops ++ [o]) ->
  let w0 := init m x mx h in
  flags_between_lines w0 ops ->
  tr (step (run w0 ops) o) = new ++ tr (run w0 ops) ->
  In (ECall q code) new -> Lemmas_Calls.ev_side q = false ->
  o = OService /\
  (let s := st (run w0 ops) in
   k_cmd (k s) = Some (req_cmd q) /\ k_state (k s) = Lemmas_Calls.call_state q /\
   k_type (k s) = Lemmas_Calls.kind_type q) /\
  exists c, on_line ops w0 (req_cmd q) c.
Proof. exact (L Lemmas_C02i.C02_call_step_inv). Qed.

Theorem C02_type_when_needed_inv : forall m x mx h ops, HI h ->
  wf_desc D m -> Forall (valid_op D) ops ->
  let w0 := init m x mx h in
  flags_between_lines w0 ops ->
  Lemmas_C09.needs_cmd (st (run w0 ops)) = true ->
  exists ci c, k_cmd (k (st (run w0 ops))) = Some ci /\ on_line ops w0 ci c.
Proof. exact (L Lemmas_C02i.C02_type_when_needed_inv). Qed.

(* ---- new ---- *)
(* two callback operations (o1 after ops1, o2 after ops2 = ops1 ++ o1 :: mid) between which the
   selected command stays needed: ONE command, one CS_COMMAND_FOUND state, one line *)
Theorem C02_calls_one_line_inv : forall m x mx h ops1 o1 mid o2 new1 new2 q1 q2 code1 code2, HI h ->
  let ops2 := ops1 ++ o1 :: mid in
  wf_desc D m -> Forall (valid_op D) (ops2 ++ [o2]) ->
  let w0 := init m x mx h in
  flags_between_lines w0 ops2 ->
  tr (step (run w0 ops1) o1) = new1 ++ tr (run w0 ops1) ->
  In (ECall q1 code1) new1 -> Lemmas_Calls.ev_side q1 = false ->
  tr (step (run w0 ops2) o2) = new2 ++ tr (run w0 ops2) ->
  In (ECall q2 code2) new2 -> Lemmas_Calls.ev_side q2 = false ->
  (forall j, j <= length (o1 :: mid) ->
     Lemmas_C09.needs_cmd (st (run w0 (ops1 ++ firstn j (o1 :: mid)))) = true) ->
  req_cmd q2 = req_cmd q1 /\
  exists c ops0 opsm, ops1 = ops0 ++ opsm /\
    let wf := run w0 ops0 in
    k_state (k (st wf)) = CS_COMMAND_FOUND /\
    resolve (typed_of (line wf)) (enabled D (st wf)) (cmds D) = Some (req_cmd q1) /\
    nth_error (cmds D) (req_cmd q1) = Some c /\
    (exists more1, consumed (tr (run w0 ops1)) = consumed (tr wf) ++ more1 /\
                   line (run w0 ops1) = line wf ++ more1 /\
                   Lemmas_Calls.kind_type q1 = req_type (serves_test c) (type_of (line wf)) more1) /\
    (exists more2, consumed (tr (run w0 ops2)) = consumed (tr wf) ++ more2 /\
                   line (run w0 ops2) = line wf ++ more2 /\
                   Lemmas_Calls.kind_type q2 = req_type (serves_test c) (type_of (line wf)) more2).
Proof. exact (L Lemmas_Inv4.C02_calls_one_line_inv). Qed.

Theorem C02_types_by_state_inv : forall m x mx h ops, HI h ->
  wf_desc D m -> Forall (valid_op D) ops ->
  let w0 := init m x mx h in
  flags_between_lines w0 ops ->
  let w := run w0 ops in
  test_state (st w) \/ write_state (st w) ->
  exists ci c ops0 opsm more, ops = ops0 ++ opsm /\
    let wf := run w0 ops0 in
    k_state (k (st wf)) = CS_COMMAND_FOUND /\
    resolve (typed_of (line wf)) (enabled D (st wf)) (cmds D) = Some ci /\
    nth_error (cmds D) ci = Some c /\ k_cmd (k (st w)) = Some ci /\
    consumed (tr w) = consumed (tr wf) ++ more /\ line w = line wf ++ more /\
    type_of (line wf) = T_WRITE /\
    (test_state (st w) ->
       k_type (k (st w)) = T_TEST /\ serves_test c = true /\ is_qm (first_arg more) = true /\
       (by_suffix (xscan (line wf)) = true -> test_shape (xscan (line w)) = true)) /\
    (write_state (st w) ->
       k_type (k (st w)) = T_WRITE /\ (serves_test c = true -> is_qm (first_arg more) = false) /\
       (by_suffix (xscan (line wf)) = true -> serves_test c = true -> test_shape (xscan (line w)) = false)).
Proof. exact (L Lemmas_Inv4.C02_types_by_state_inv). Qed.

Theorem C02_handler_kind'_inv : forall m x mx h ops o new q code, HI h ->
  wf_desc D m -> Forall (valid_op D) (ops ++ [o]) ->
  let w0 := init m x mx h in
  flags_between_lines w0 ops ->
  tr (step (run w0 ops) o) = new ++ tr (run w0 ops) ->
  In (ECall q code) new -> Lemmas_Calls.ev_side q = false ->
  exists c ops0 opsm more, ops = ops0 ++ opsm /\
    let wf := run w0 ops0 in let w := run w0 ops in
    k_state (k (st wf)) = CS_COMMAND_FOUND /\
    resolve (typed_of (line wf)) (enabled D (st wf)) (cmds D) = Some (req_cmd q) /\
    nth_error (cmds D) (req_cmd q) = Some c /\
    consumed (tr w) = consumed (tr wf) ++ more /\ line w = line wf ++ more /\
    Lemmas_Calls.kind_type q = req_type (serves_test c) (type_of (line wf)) more /\
    (by_suffix (xscan (line wf)) = true -> Lemmas_Calls.kind_type q = type_of' c (line w)).
Proof. exact (L Lemmas_Inv4.C02_handler_kind'_inv). Qed.
End InvC02i.

Print Assumptions C02_found_is_resolve'_inv.
Print Assumptions C02_handler_step_inv.
Print Assumptions C02_type_when_needed_inv.
Print Assumptions C02_calls_one_line_inv.
Print Assumptions C02_types_by_state_inv.
Print Assumptions C02_handler_kind'_inv.

Section ScriptedC02i.
Import Lemmas_C02h Lemmas_C02i.
Variable D : desc.
Notation st := (Fsm.st sio smu shs).
Notation tr := (Fsm.tr sio smu shs).
Notation sreach m x mx h ops := (srun D (sinit D m x mx h) (map SOp ops)).
Notation consumed := Lemmas_C01s.consumed.
Notation line w := (cur_line (consumed (tr w))).

Theorem C02_calls_one_line_scripted : forall m x mx h ops1 o1 mid o2 new1 new2 q1 q2 code1 code2,
  let ops2 := ops1 ++ o1 :: mid in
  wf_desc D m -> Forall (valid_op D) (ops2 ++ [o2]) ->
  no_rt_hold h = true -> script_ok (res_calls_valid D) h = true ->
  sc_flags_between_lines D (sinit D m x mx h) ops2 ->
  tr (sstep D (sreach m x mx h ops1) (SOp o1)) = new1 ++ tr (sreach m x mx h ops1) ->
  In (ECall q1 code1) new1 -> Lemmas_Calls.ev_side q1 = false ->
  tr (sstep D (sreach m x mx h ops2) (SOp o2)) = new2 ++ tr (sreach m x mx h ops2) ->
  In (ECall q2 code2) new2 -> Lemmas_Calls.ev_side q2 = false ->
  (forall j, j <= length (o1 :: mid) ->
     Lemmas_C09.needs_cmd (st (sreach m x mx h (ops1 ++ firstn j (o1 :: mid)))) = true) ->
  req_cmd q2 = req_cmd q1 /\
  exists c ops0 opsm, ops1 = ops0 ++ opsm /\
    let wf := sreach m x mx h ops0 in
    k_state (k (st wf)) = CS_COMMAND_FOUND /\
    resolve (typed_of (line wf)) (enabled D (st wf)) (cmds D) = Some (req_cmd q1) /\
    nth_error (cmds D) (req_cmd q1) = Some c /\
    (exists more1, consumed (tr (sreach m x mx h ops1)) = consumed (tr wf) ++ more1 /\
                   line (sreach m x mx h ops1) = line wf ++ more1 /\
                   Lemmas_Calls.kind_type q1 = req_type (serves_test c) (type_of (line wf)) more1) /\
    (exists more2, consumed (tr (sreach m x mx h ops2)) = consumed (tr wf) ++ more2 /\
                   line (sreach m x mx h ops2) = line wf ++ more2 /\
                   Lemmas_Calls.kind_type q2 = req_type (serves_test c) (type_of (line wf)) more2).
Proof. exact (Lemmas_Inv4.C02_calls_one_line_scripted D). Qed.

Theorem C02_types_by_state_scripted : forall m x mx h ops,
  wf_desc D m -> Forall (valid_op D) ops ->
  no_rt_hold h = true -> script_ok (res_calls_valid D) h = true ->
  sc_flags_between_lines D (sinit D m x mx h) ops ->
  let w := sreach m x mx h ops in
  test_state (st w) \/ write_state (st w) ->
  exists ci c ops0 opsm more, ops = ops0 ++ opsm /\
    let wf := sreach m x mx h ops0 in
    k_state (k (st wf)) = CS_COMMAND_FOUND /\
    resolve (typed_of (line wf)) (enabled D (st wf)) (cmds D) = Some ci /\
    nth_error (cmds D) ci = Some c /\ k_cmd (k (st w)) = Some ci /\
    consumed (tr w) = consumed (tr wf) ++ more /\ line w = line wf ++ more /\
    type_of (line wf) = T_WRITE /\
    (test_state (st w) ->
       k_type (k (st w)) = T_TEST /\ serves_test c = true /\ is_qm (first_arg more) = true /\
       (by_suffix (xscan (line wf)) = true -> test_shape (xscan (line w)) = true)) /\
    (write_state (st w) ->
       k_type (k (st w)) = T_WRITE /\ (serves_test c = true -> is_qm (first_arg more) = false) /\
       (by_suffix (xscan (line wf)) = true -> serves_test c = true -> test_shape (xscan (line w)) = false)).
Proof. exact (Lemmas_Inv4.C02_types_by_state_scripted D). Qed.

Theorem C02_handler_kind'_scripted : forall m x mx h ops o new q code,
  wf_desc D m -> Forall (valid_op D) (ops ++ [o]) ->
  no_rt_hold h = true -> script_ok (res_calls_valid D) h = true ->
  sc_flags_between_lines D (sinit D m x mx h) ops ->
  tr (sstep D (sreach m x mx h ops) (SOp o)) = new ++ tr (sreach m x mx h ops) ->
  In (ECall q code) new -> Lemmas_Calls.ev_side q = false ->
  exists c ops0 opsm more, ops = ops0 ++ opsm /\
    let wf := sreach m x mx h ops0 in let w := sreach m x mx h ops in
    k_state (k (st wf)) = CS_COMMAND_FOUND /\
    resolve (typed_of (line wf)) (enabled D (st wf)) (cmds D) = Some (req_cmd q) /\
    nth_error (cmds D) (req_cmd q) = Some c /\
    consumed (tr w) = consumed (tr wf) ++ more /\ line w = line wf ++ more /\
    Lemmas_Calls.kind_type q = req_type (serves_test c) (type_of (line wf)) more /\
    (by_suffix (xscan (line wf)) = true -> Lemmas_Calls.kind_type q = type_of' c (line w)).
Proof. exact (Lemmas_Inv4.C02_handler_kind'_scripted D). Qed.
End ScriptedC02i.

Print Assumptions C02_calls_one_line_scripted.
Print Assumptions C02_types_by_state_scripted.
Print Assumptions C02_handler_kind'_scripted.

(* ================================================================== *)
(* 2. Properties_C13p: the observers, exactly, without a default        *)
(* ================================================================== *)
(* in_progress_opt w: Properties_C13p.in_progress_opt_def (None while the event machine is idle,
   otherwise the last element of the pop history).  The theorems follow from the lifted forms of
   C13_in_progress and C13_observers_exact (Properties_Inv2.v) by a composition valid in any world *)
Section InvC13p.
Variable D : desc.
Variables ioS muS hS : Type.
Variable io_read : ioS -> ioS * option N.
Variable io_write : ioS -> N -> ioS * bool.
Variable mu_lock : muS -> muS * bool.
Variable mu_unlock : muS -> muS * bool.
Variable h_call : hS -> hreq -> hS * hres.
Variable HV : hS -> Prop.
(* the handlers called from HV states only trigger valid events; nothing is said about HOLD *)
Hypothesis HV_step : forall h q, HV h ->
  HV (fst (h_call h q)) /\ Forall (valid_icall D) (r_calls (snd (h_call h q))).

Notation st := (Fsm.st ioS muS hS).
Notation hist := (TraceDefs.hist ioS muS hS).
Notation run := (Fsm.run D ioS muS hS io_read io_write mu_lock mu_unlock h_call).
Notation in_progress_opt := (Lemmas_C13p.in_progress_opt ioS muS hS).

Theorem C13_observers_exact_opt_inv : forall m x mx h ops, HV h ->
  0 < d_cap D -> Forall (valid_op D) ops ->
  let w := run (mkWorld ioS muS hS (init_state D m) x mx h []) ops in
  (u_state (u (st w)) <> US_IDLE ->
     exists p it, popped (hist w) = p ++ [it] /\ in_progress_opt w = Some it /\
       u_cmd (u (st w)) = Some (fst it) /\ u_type (u (st w)) = snd it /\
       (forall ci t, is_event_buffered D (st w) ci t = ST_BUSY <->
          ev_match ci t it = true \/
          exists it', In it' (ring_items D (st w)) /\ ev_match ci t it' = true) /\
       get_processed (st w) UNSOL = Z.of_nat (fst it)) /\
  (u_state (u (st w)) = US_IDLE ->
     in_progress_opt w = None /\ u_cmd (u (st w)) = None /\
     (forall ci t, is_event_buffered D (st w) ci t = ST_BUSY <->
        exists it', In it' (ring_items D (st w)) /\ ev_match ci t it' = true) /\
     get_processed (st w) UNSOL = (-1)%Z).
Proof.
  exact (Lemmas_Inv4.C13_observers_exact_opt_inv D ioS muS hS io_read io_write mu_lock mu_unlock h_call HV HV_step).
Qed.
End InvC13p.
Print Assumptions C13_observers_exact_opt_inv.

Section ScriptedC13p.
Variable D : desc.
Notation st := (Fsm.st sio smu shs).
Notation hist := (TraceDefs.hist sio smu shs).
Notation in_progress_opt := (Lemmas_C13p.in_progress_opt sio smu shs).

(* only `valid inner calls` is asked of the scripts; they may hold anywhere *)
Theorem C13_observers_exact_opt_scripted : forall m x mx h ops,
  0 < d_cap D -> Forall (valid_op D) ops -> script_ok (res_calls_valid D) h = true ->
  let w := srun D (sinit D m x mx h) (map SOp ops) in
  (u_state (u (st w)) <> US_IDLE ->
     exists p it, popped (hist w) = p ++ [it] /\ in_progress_opt w = Some it /\
       u_cmd (u (st w)) = Some (fst it) /\ u_type (u (st w)) = snd it /\
       (forall ci t, is_event_buffered D (st w) ci t = ST_BUSY <->
          ev_match ci t it = true \/
          exists it', In it' (ring_items D (st w)) /\ ev_match ci t it' = true) /\
       get_processed (st w) UNSOL = Z.of_nat (fst it)) /\
  (u_state (u (st w)) = US_IDLE ->
     in_progress_opt w = None /\ u_cmd (u (st w)) = None /\
     (forall ci t, is_event_buffered D (st w) ci t = ST_BUSY <->
        exists it', In it' (ring_items D (st w)) /\ ev_match ci t it' = true) /\
     get_processed (st w) UNSOL = (-1)%Z).
Proof. exact (Lemmas_Inv4.C13_observers_exact_opt_scripted D). Qed.

Theorem C13_observers_exact_opt_scenario : forall m x mx h sops,
  0 < d_cap D -> Forall (valid_sop D) sops -> script_ok (res_calls_valid D) h = true ->
  let w := srun D (sinit D m x mx h) sops in
  (u_state (u (st w)) <> US_IDLE ->
     exists p it, popped (hist w) = p ++ [it] /\ in_progress_opt w = Some it /\
       u_cmd (u (st w)) = Some (fst it) /\ u_type (u (st w)) = snd it /\
       (forall ci t, is_event_buffered D (st w) ci t = ST_BUSY <->
          ev_match ci t it = true \/
          exists it', In it' (ring_items D (st w)) /\ ev_match ci t it' = true) /\
       get_processed (st w) UNSOL = Z.of_nat (fst it)) /\
  (u_state (u (st w)) = US_IDLE ->
     in_progress_opt w = None /\ u_cmd (u (st w)) = None /\
     (forall ci t, is_event_buffered D (st w) ci t = ST_BUSY <->
        exists it', In it' (ring_items D (st w)) /\ ev_match ci t it' = true) /\
     get_processed (st w) UNSOL = (-1)%Z).
Proof. exact (Lemmas_Inv4.C13_observers_exact_opt_scenario D). Qed.
End ScriptedC13p.
Print Assumptions C13_observers_exact_opt_scripted.
Print Assumptions C13_observers_exact_opt_scenario.

(* ================================================================== *)
(* 3. Properties_C01r: result codes, sessions, lines                    *)
(* ================================================================== *)
(* is_rc, rc_sessions, cmd_sessions, rc_pending, rc_in_flight, rc_unit: the def_ equations of Properties_C01r.v *)
Section InvC01rH.
Import Lemmas_C01r.
Variable D : desc.
Variables ioS muS hS : Type.
Variable io_read : ioS -> ioS * option N.
Variable io_write : ioS -> N -> ioS * bool.
Variable mu_lock : muS -> muS * bool.
Variable mu_unlock : muS -> muS * bool.
Variable h_call : hS -> hreq -> hS * hres.
Variable HI : hS -> Prop.
Hypothesis HI_stepH : forall h q, HI h ->
  HI (fst (h_call h q)) /\ (unsol_req q = true -> r_code (snd (h_call h q)) <> RC_HOLD).
Notation st := (Fsm.st ioS muS hS).
Notation run := (Fsm.run D ioS muS hS io_read io_write mu_lock mu_unlock h_call).
Notation init m x mx h := (mkWorld ioS muS hS (init_state D m) x mx h []).
Notation starts := (Lemmas_C11s.starts D ioS muS hS io_read io_write mu_lock mu_unlock h_call).

(* ANY descriptor: the number n of result-code sessions opened so far, and the two counters *)
Theorem C01_result_code_counters_inv : forall m x mx h ops, HI h ->
  let s := st (run (init m x mx h) ops) in
  let n := length (rc_sessions (starts (init m x mx h) ops)) in
  (rc_pending s -> gS s = S n /\ gR s = n) /\
  (rc_in_flight s -> gS s = n /\ S (gR s) = n) /\
  (~ rc_pending s -> ~ rc_in_flight s -> gS s = n /\ gR s = n).
Proof.
  exact (Lemmas_Inv4.C01_result_code_counters_inv D ioS muS hS io_read io_write mu_lock mu_unlock h_call HI HI_stepH).
Qed.
End InvC01rH.
Print Assumptions C01_result_code_counters_inv.

Section InvC01r.
Import Lemmas_C01r.
Variable D : desc.
Variables ioS muS hS : Type.
Variable io_read : ioS -> ioS * option N.
Variable io_write : ioS -> N -> ioS * bool.
Variable mu_lock : muS -> muS * bool.
Variable mu_unlock : muS -> muS * bool.
Variable h_call : hS -> hreq -> hS * hres.
Variable HI : hS -> Prop.
Hypothesis HI_step : forall h q, HI h -> HI (fst (h_call h q)) /\ Good D q (snd (h_call h q)).
Notation st := (Fsm.st ioS muS hS).
Notation tr := (Fsm.tr ioS muS hS).
Notation hist := (TraceDefs.hist ioS muS hS).
Notation run := (Fsm.run D ioS muS hS io_read io_write mu_lock mu_unlock h_call).
Notation init m x mx h := (mkWorld ioS muS hS (init_state D m) x mx h []).
Notation starts := (Lemmas_C11s.starts D ioS muS hS io_read io_write mu_lock mu_unlock h_call).
Notation L T := (T D ioS muS hS io_read io_write mu_lock mu_unlock h_call HI HI_step).

Theorem C01_result_codes_are_units_inv : forall m x mx h ops, HI h ->
  wf_desc D m -> Forall (valid_op D) ops ->
  let s := st (run (init m x mx h) ops) in
  let rc := rc_sessions (starts (init m x mx h) ops) in
  Forall rc_unit rc /\
  (rc_pending s -> gS s = S (length rc) /\ gR s = length rc) /\
  (rc_in_flight s -> gS s = length rc /\ S (gR s) = length rc) /\
  (~ rc_pending s -> ~ rc_in_flight s -> gS s = length rc /\ gR s = length rc).
Proof. exact (L Lemmas_Inv4.C01_result_codes_are_units_inv). Qed.

Theorem C01_rc_tracks_lines_inv : forall m x mx h ops, HI h ->
  wf_desc D m -> Forall (valid_op D) ops ->
  let w := run (init m x mx h) ops in
  let n := length (rc_sessions (starts (init m x mx h) ops)) in
  let lines := nonblank_lines false (consumed (tr w)) in
  n <= lines <= S n /\
  (rc_in_flight (st w) -> lines = n) /\ (rc_pending (st w) -> lines = S n) /\
  (reading_state (k_state (k (st w))) = true -> lines = n /\ gR (st w) = n /\ gS (st w) = n).
Proof. exact (L Lemmas_Inv4.C01_rc_tracks_lines_inv). Qed.

Theorem C01_lines_answered_in_stream_inv : forall m x mx h ops, HI h ->
  wf_desc D m -> Forall (valid_op D) ops ->
  let w := run (init m x mx h) ops in
  let ss := starts (init m x mx h) ops in
  reading_state (k_state (k (st w))) = true ->
  proj ATCMD (accepted_wr (hist w)) = concat (map (fun x => snd (unit_of x)) (cmd_sessions ss)) /\
  rc_sessions ss = filter (fun x => cstate_beq (k_wafter (k (snd x))) CS_AFTER_RESET) (cmd_sessions ss) /\
  Forall rc_unit (rc_sessions ss) /\
  length (rc_sessions ss) = nonblank_lines false (consumed (tr w)) /\
  gR (st w) = length (rc_sessions ss) /\ gS (st w) = gR (st w).
Proof. exact (L Lemmas_Inv4.C01_lines_answered_in_stream_inv). Qed.
End InvC01r.
Print Assumptions C01_result_codes_are_units_inv.
Print Assumptions C01_rc_tracks_lines_inv.
Print Assumptions C01_lines_answered_in_stream_inv.

(* scenarios: the sessions opened along a scenario are sc_sstarts D w sops (Properties_Inv2.v) *)
Section ScenarioC01r.
Import Lemmas_C01r.
Variable D : desc.
Notation st := (Fsm.st sio smu shs).
Notation tr := (Fsm.tr sio smu shs).
Notation hist := (TraceDefs.hist sio smu shs).

Theorem C01_result_code_counters_scenario : forall m x mx h sops,
  no_rt_hold h = true -> Forall no_reinit sops ->
  let s := st (srun D (sinit D m x mx h) sops) in
  let n := length (rc_sessions (sc_sstarts D (sinit D m x mx h) sops)) in
  (rc_pending s -> gS s = S n /\ gR s = n) /\
  (rc_in_flight s -> gS s = n /\ S (gR s) = n) /\
  (~ rc_pending s -> ~ rc_in_flight s -> gS s = n /\ gR s = n).
Proof. exact (Lemmas_Inv4.C01_result_code_counters_scenario D). Qed.

Theorem C01_result_codes_are_units_scenario : forall m x mx h sops,
  wf_desc D m -> Forall (valid_sop D) sops ->
  no_rt_hold h = true -> script_ok (res_calls_valid D) h = true ->
  let s := st (srun D (sinit D m x mx h) sops) in
  let rc := rc_sessions (sc_sstarts D (sinit D m x mx h) sops) in
  Forall rc_unit rc /\
  (rc_pending s -> gS s = S (length rc) /\ gR s = length rc) /\
  (rc_in_flight s -> gS s = length rc /\ S (gR s) = length rc) /\
  (~ rc_pending s -> ~ rc_in_flight s -> gS s = length rc /\ gR s = length rc).
Proof. exact (Lemmas_Inv4.C01_result_codes_are_units_scenario D). Qed.

Theorem C01_rc_tracks_lines_scenario : forall m x mx h sops,
  wf_desc D m -> Forall (valid_sop D) sops ->
  no_rt_hold h = true -> script_ok (res_calls_valid D) h = true ->
  let w := srun D (sinit D m x mx h) sops in
  let n := length (rc_sessions (sc_sstarts D (sinit D m x mx h) sops)) in
  let lines := nonblank_lines false (consumed (tr w)) in
  n <= lines <= S n /\
  (rc_in_flight (st w) -> lines = n) /\ (rc_pending (st w) -> lines = S n) /\
  (reading_state (k_state (k (st w))) = true -> lines = n /\ gR (st w) = n /\ gS (st w) = n).
Proof. exact (Lemmas_Inv4.C01_rc_tracks_lines_scenario D). Qed.

Theorem C01_lines_answered_in_stream_scenario : forall m x mx h sops,
  wf_desc D m -> Forall (valid_sop D) sops ->
  no_rt_hold h = true -> script_ok (res_calls_valid D) h = true ->
  let w := srun D (sinit D m x mx h) sops in
  let ss := sc_sstarts D (sinit D m x mx h) sops in
  reading_state (k_state (k (st w))) = true ->
  proj ATCMD (accepted_wr (hist w)) = concat (map (fun x => snd (unit_of x)) (cmd_sessions ss)) /\
  rc_sessions ss = filter (fun x => cstate_beq (k_wafter (k (snd x))) CS_AFTER_RESET) (cmd_sessions ss) /\
  Forall rc_unit (rc_sessions ss) /\
  length (rc_sessions ss) = nonblank_lines false (consumed (tr w)) /\
  gR (st w) = length (rc_sessions ss) /\ gS (st w) = gR (st w).
Proof. exact (Lemmas_Inv4.C01_lines_answered_in_stream_scenario D). Qed.
End ScenarioC01r.
Print Assumptions C01_result_code_counters_scenario.
Print Assumptions C01_result_codes_are_units_scenario.
Print Assumptions C01_rc_tracks_lines_scenario.
Print Assumptions C01_lines_answered_in_stream_scenario.

(* ================================================================== *)
(* 4. scenario forms missing in Properties_Inv2.v                       *)
(* ================================================================== *)
Section Scenario4.
Variable D : desc.
Notation st := (Fsm.st sio smu shs).
Notation tr := (Fsm.tr sio smu shs).
Notation hist := (TraceDefs.hist sio smu shs).

(* at the moment an input byte is requested, at any point of a scenario: the operation is
   cat_service, the command machine is in a reading state, and every non-blank line consumed so far
   has had its result code completely emitted *)
Theorem C01_no_read_ahead_scenario : forall m x mx h sops o evs r,
  wf_desc D m -> Forall (valid_sop D) sops ->
  no_rt_hold h = true -> script_ok (res_calls_valid D) h = true ->
  let w := srun D (sinit D m x mx h) sops in
  tr (sstep D w (SOp o)) = evs ++ tr w -> In (ERd r) evs ->
  o = OService /\ reading_state (k_state (k (st w))) = true /\
  gR (st w) = nonblank_lines false (consumed (tr w)) /\ gS (st w) = gR (st w) /\ gL (st w) = gR (st w).
Proof. exact (Lemmas_Inv4.C01_no_read_ahead_scenario D). Qed.

(* each producer's bytes are its own units, in its own order *)
Theorem C11_stream_per_producer_scenario : forall m x mx h sops,
  no_rt_hold h = true -> Forall no_reinit sops ->
  let w := srun D (sinit D m x mx h) sops in
  k_state (k (st w)) <> CS_FLUSH -> u_state (u (st w)) <> US_FLUSH ->
  proj ATCMD (accepted_wr (hist w)) =
    concat (map snd (units_of ATCMD (sc_sstarted D (sinit D m x mx h) sops))) /\
  exists ucrs, length ucrs = length (units_of UNSOL (sc_sstarted D (sinit D m x mx h) sops)) /\
    proj UNSOL (accepted_wr (hist w)) =
      concat (map (fun p => snd (fst p) ++ nl_text (snd p))
                  (combine (units_of UNSOL (sc_sstarted D (sinit D m x mx h) sops)) ucrs)).
Proof. exact (Lemmas_Inv4.C11_stream_per_producer_scenario D). Qed.

(* every command-side callback of a scenario was logged by one of its cat_service steps, which
   found the command machine in the callback's state, with that command selected and the matching
   request type *)
Theorem C02_calls_history_scenario : forall m x mx h sops q code,
  wf_desc D m -> Forall (valid_sop D) sops ->
  no_rt_hold h = true -> script_ok (res_calls_valid D) h = true ->
  let w0 := sinit D m x mx h in
  In (ECall q code) (tr (srun D w0 sops)) -> Properties_C02c.ev_side q = false ->
  exists sops1 sops2 evs, sops = sops1 ++ SOp OService :: sops2 /\
    tr (srun D w0 (sops1 ++ [SOp OService])) = evs ++ tr (srun D w0 sops1) /\ In (ECall q code) evs /\
    let s := st (srun D w0 sops1) in
    k_cmd (k s) = Some (req_cmd q) /\ k_state (k s) = Properties_C02c.call_state q /\
    k_type (k s) = Properties_C02c.kind_type q.
Proof. exact (Lemmas_Inv4.C02_calls_history_scenario D). Qed.

(* a state that needs the selected command got it in CS_COMMAND_FOUND: the scenario splits at a
   CS_COMMAND_FOUND state with the same k_cmd, and every state since needs it (whatever was fed or
   stored in between) *)
Theorem C02_selection_origin_scenario : forall m x mx h sops,
  wf_desc D m -> Forall (valid_sop D) sops ->
  no_rt_hold h = true -> script_ok (res_calls_valid D) h = true ->
  let w0 := sinit D m x mx h in
  Properties_C02c.needs_cmd (st (srun D w0 sops)) = true ->
  exists sops1 sops2, sops = sops1 ++ sops2 /\
    k_state (k (st (srun D w0 sops1))) = CS_COMMAND_FOUND /\
    k_cmd (k (st (srun D w0 sops1))) = k_cmd (k (st (srun D w0 sops))) /\
    forall n, n <= length sops2 -> Properties_C02c.needs_cmd (st (srun D w0 (sops1 ++ firstn n sops2))) = true.
Proof. exact (Lemmas_Inv4.C02_selection_origin_scenario D). Qed.

Theorem C02_calls_selected_scenario : forall m x mx h sops q code,
  wf_desc D m -> Forall (valid_sop D) sops ->
  no_rt_hold h = true -> script_ok (res_calls_valid D) h = true ->
  let w0 := sinit D m x mx h in
  In (ECall q code) (tr (srun D w0 sops)) -> Properties_C02c.ev_side q = false ->
  exists sops0 sopsm sops2, sops = sops0 ++ sopsm ++ SOp OService :: sops2 /\
    k_state (k (st (srun D w0 sops0))) = CS_COMMAND_FOUND /\
    k_cmd (k (st (srun D w0 sops0))) = Some (req_cmd q) /\
    (forall n, n <= length sopsm ->
       Properties_C02c.needs_cmd (st (srun D w0 (sops0 ++ firstn n sopsm))) = true) /\
    let s := st (srun D w0 (sops0 ++ sopsm)) in
    k_cmd (k s) = Some (req_cmd q) /\ k_state (k s) = Properties_C02c.call_state q /\
    k_type (k s) = Properties_C02c.kind_type q.
Proof. exact (Lemmas_Inv4.C02_calls_selected_scenario D). Qed.

(* callbacks concern registered, enabled commands: no condition on the scripts; the flags are
   changed only between lines (sc_sflags_between_lines) *)
Theorem C09_calls_enabled_history_scenario : forall m x mx h sops q code,
  0 < ncmds D -> Forall no_reinit sops ->
  let w0 := sinit D m x mx h in
  sc_sflags_between_lines D w0 sops ->
  In (ECall q code) (tr (srun D w0 sops)) -> Properties_C09c.ev_side q = false ->
  exists sops1 sops2 evs, sops = sops1 ++ SOp OService :: sops2 /\
    tr (srun D w0 (sops1 ++ [SOp OService])) = evs ++ tr (srun D w0 sops1) /\ In (ECall q code) evs /\
    let s := st (srun D w0 sops1) in
    k_cmd (k s) = Some (req_cmd q) /\ k_state (k s) = Properties_C09c.call_state q /\
    req_cmd q < ncmds D /\ is_command_disable D s (req_cmd q) = false.
Proof. exact (Lemmas_Inv4.C09_calls_enabled_history_scenario D). Qed.
End Scenario4.
Print Assumptions C01_no_read_ahead_scenario.
Print Assumptions C11_stream_per_producer_scenario.
Print Assumptions C02_calls_history_scenario.
Print Assumptions C02_selection_origin_scenario.
Print Assumptions C02_calls_selected_scenario.
Print Assumptions C09_calls_enabled_history_scenario.

(* ================================================================== *)
(* 5. Properties_C06r: the READ response with read callbacks            *)
(* ================================================================== *)
(* gread_response, rd_spec, vread_reqs, ecall, rd_var_ok, nocall, join_comma: Properties_C06r.v.
   The hypothesis `the read callbacks of the variables make no inner call` of
   C06_read_handler_text_cb was over ALL handler states; here it is asked on an invariant HN of the
   handler state (preserved by every call) only *)
Section InvC06r.
Import Lemmas_C06r.
Variable D : desc.
Variables ioS muS hS : Type.
Variable mu_lock : muS -> muS * bool.
Variable mu_unlock : muS -> muS * bool.
Variable h_call : hS -> hreq -> hS * hres.
Variable HN : hS -> Prop.
Notation world := (Fsm.world ioS muS hS).
Notation st := (Fsm.st ioS muS hS).
Notation hs := (Fsm.hs ioS muS hS).
Notation tr := (Fsm.tr ioS muS hS).
Notation io := (Fsm.io ioS muS hS).
Notation mu := (Fsm.mu ioS muS hS).
Notation gread_response := (Lemmas_C06r.gread_response D ioS muS hS mu_lock mu_unlock h_call).
Notation process_rt_loop := (Fsm.process_rt_loop D ioS muS hS mu_lock mu_unlock h_call).
Notation rd_spec := (Lemmas_C06r.rd_spec hS h_call).

Theorem C06_read_handler_text_cb_inv : forall f (w : world) ci c h' m' cl txts,
  (forall h q, HN h -> HN (fst (h_call h q))) ->
  (forall h vi v, HN h -> nth_error (c_vars c) vi = Some v -> v_hread v = true ->
     r_calls (snd (h_call h (VRead f ci vi))) = []) ->
  HN (hs w) ->
  g_cmd f (st w) = Some ci -> cmd_at D ci = Some c -> fault (st w) = false ->
  c_hread c = true -> vars_access_possible c RO = true ->
  Forall (rd_var_ok (mem (st w))) (c_vars c) ->
  rd_spec f ci (c_vars c) 0 (hs w) (mem (st w)) = (h', m', cl, Some txts) ->
  let txt := c_name c ++ [ch_EQ] ++ join_comma txts in
  let bsz := length (g_buf f (st w)) in
  length txt < bsz ->
  let w' := gread_response f c w in
  hs w' = h' /\ mem (st w') = m' /\ tr w' = rev (map ecall cl) ++ tr w /\ io w' = io w /\ mu w' = mu w /\
  fault (st w') = false /\
  map fst cl = vread_reqs f ci (c_vars c) 0 /\ Forall (fun p => snd p = 0%Z) cl /\
  length txts = length (c_vars c) /\
  Lemmas_C10.in_rt_loop true f (st w') /\ g_cmd f (st w') = Some ci /\
  firstn (S (length txt)) (g_buf f (st w')) = txt ++ [0%N] /\ g_pos f (st w') = length txt /\
  length (g_buf f (st w')) = bsz /\
  exists code rest,
    tr (fst (process_rt_loop true f w')) =
      rest ++ ECall (HRead f ci (txt ++ [0%N]) (length txt) bsz) code :: tr w' /\
    nocall rest = true.
Proof. exact (Lemmas_Inv4.C06_read_handler_text_cb_inv D ioS muS hS mu_lock mu_unlock h_call HN). Qed.
End InvC06r.
Print Assumptions C06_read_handler_text_cb_inv.

Section ScriptedC06r.
Import Lemmas_C06r.
Variable D : desc.
Notation st := (Fsm.st sio smu shs).
Notation hs := (Fsm.hs sio smu shs).
Notation tr := (Fsm.tr sio smu shs).
Notation io := (Fsm.io sio smu shs).
Notation mu := (Fsm.mu sio smu shs).
Notation gread_response := (Lemmas_C06r.gread_response D sio smu shs s_lock s_unlock s_call).
Notation process_rt_loop := (Fsm.process_rt_loop D sio smu shs s_lock s_unlock s_call).
Notation rd_spec := (Lemmas_C06r.rd_spec shs s_call).

(* any scripted world: no read-callback script of the variables of command ci makes an inner call *)
Theorem C06_read_handler_text_cb_scripted : forall f (w : sworld) ci c h' m' cl txts,
  vread_no_calls ci c (hs w) = true ->
  g_cmd f (st w) = Some ci -> cmd_at D ci = Some c -> fault (st w) = false ->
  c_hread c = true -> vars_access_possible c RO = true ->
  Forall (rd_var_ok (mem (st w))) (c_vars c) ->
  rd_spec f ci (c_vars c) 0 (hs w) (mem (st w)) = (h', m', cl, Some txts) ->
  let txt := c_name c ++ [ch_EQ] ++ join_comma txts in
  let bsz := length (g_buf f (st w)) in
  length txt < bsz ->
  let w' := gread_response f c w in
  hs w' = h' /\ mem (st w') = m' /\ tr w' = rev (map ecall cl) ++ tr w /\ io w' = io w /\ mu w' = mu w /\
  fault (st w') = false /\
  map fst cl = vread_reqs f ci (c_vars c) 0 /\ Forall (fun p => snd p = 0%Z) cl /\
  length txts = length (c_vars c) /\
  Lemmas_C10.in_rt_loop true f (st w') /\ g_cmd f (st w') = Some ci /\
  firstn (S (length txt)) (g_buf f (st w')) = txt ++ [0%N] /\ g_pos f (st w') = length txt /\
  length (g_buf f (st w')) = bsz /\
  exists code rest,
    tr (fst (process_rt_loop true f w')) =
      rest ++ ECall (HRead f ci (txt ++ [0%N]) (length txt) bsz) code :: tr w' /\
    nocall rest = true.
Proof. exact (Lemmas_Inv4.C06_read_handler_text_cb_scripted D). Qed.

(* the script condition is an invariant of the scripted handler state *)
Theorem vread_no_calls_step : forall ci c h q, vread_no_calls ci c h = true ->
  vread_no_calls ci c (fst (s_call h q)) = true.
Proof.
  intros ci c h q H. refine (proj1 (keyed_ok_step (vread_key ci c) res_no_calls _ h q H)).
  intros q0. destruct q0; reflexivity.
Qed.
End ScriptedC06r.
Print Assumptions C06_read_handler_text_cb_scripted.
Print Assumptions vread_no_calls_step.

(* ------------------------------------------------------------------ *)
(* non-vacuity.  The `_scripted` / `_scenario` forms are applied to the  *)
(* capstone runs in Properties_Inv4Ex.v.  Here: an oracle for which the  *)
(* hypotheses over ALL states are false, the invariant forms apply.      *)
(* ------------------------------------------------------------------ *)
Module Examples.
(* the handler state is a number that no call changes; in state 0 every request gets the default
   answer, in every other state HOLD with an inner trigger of a WRITE event (never valid) *)
Definition ex_call (n : nat) (q : hreq) : nat * hres :=
  (n, if n =? 0 then default_res q else mkHres RC_HOLD None [] [ITrigger 99 T_WRITE]).
Definition ex_HI (n : nat) : Prop := n = 0.

Example ex_all_states_false : forall D,
  ~ (forall hs q, unsol_req q = true -> r_code (snd (ex_call hs q)) <> RC_HOLD) /\
  ~ (forall hs q, Forall (valid_icall D) (r_calls (snd (ex_call hs q)))) /\
  ~ (forall h vi, r_calls (snd (ex_call h (VRead ATCMD 0 vi))) = []).
Proof.
  intros D. split; [|split].
  - intros H. exact (H 1 (HRead UNSOL 0 [] 0 0) eq_refl eq_refl).
  - intros H. specialize (H 1 (HRun 0)). cbn [ex_call snd Nat.eqb r_calls] in H. inversion H as [|? ? V _].
    cbn [valid_icall] in V. unfold valid_trigger in V. destruct V as [_ [X|X]]; discriminate X.
  - intros H. specialize (H 1 0). discriminate H.
Qed.

Example ex_HI_step : forall D h q, ex_HI h -> ex_HI (fst (ex_call h q)) /\ Good D q (snd (ex_call h q)).
Proof.
  intros D h q ->. split; [reflexivity|]. cbn [ex_call snd Nat.eqb]. split.
  - intros _. destruct q; discriminate.
  - destruct q; constructor.
Qed.
Example ex_HI_stepH : forall h q, ex_HI h ->
  ex_HI (fst (ex_call h q)) /\ (unsol_req q = true -> r_code (snd (ex_call h q)) <> RC_HOLD).
Proof.
  intros h q H. destruct (ex_HI_step (mkDesc [] [] 0 None 0%N 0 false) h q H) as [A [B _]]. split; assumption.
Qed.
Example ex_HV_step : forall D h q, ex_HI h ->
  ex_HI (fst (ex_call h q)) /\ Forall (valid_icall D) (r_calls (snd (ex_call h q))).
Proof. intros D h q H. destruct (ex_HI_step D h q H) as [A [_ B]]. split; assumption. Qed.

(* the invariant forms instantiated: every descriptor, every io / mutex behaviour of the scripted
   kind, every history from handler state 0 *)
Example ex_counters : forall D m x mx ops,
  let w0 := mkWorld sio smu nat (init_state D m) x mx 0 [] in
  let s := st _ _ _ (Fsm.run D sio smu nat s_read s_write s_lock s_unlock ex_call w0 ops) in
  let n := length (Lemmas_C01r.rc_sessions
                     (Lemmas_C11s.starts D sio smu nat s_read s_write s_lock s_unlock ex_call w0 ops)) in
  (Lemmas_C01r.rc_pending s -> gS s = S n /\ gR s = n) /\
  (Lemmas_C01r.rc_in_flight s -> gS s = n /\ S (gR s) = n) /\
  (~ Lemmas_C01r.rc_pending s -> ~ Lemmas_C01r.rc_in_flight s -> gS s = n /\ gR s = n).
Proof.
  intros D m x mx ops.
  exact (C01_result_code_counters_inv D sio smu nat s_read s_write s_lock s_unlock ex_call ex_HI ex_HI_stepH
           m x mx 0 ops eq_refl).
Qed.

Example ex_lines : forall D m x mx ops, wf_desc D m -> Forall (valid_op D) ops ->
  let w0 := mkWorld sio smu nat (init_state D m) x mx 0 [] in
  let w := Fsm.run D sio smu nat s_read s_write s_lock s_unlock ex_call w0 ops in
  let ss := Lemmas_C11s.starts D sio smu nat s_read s_write s_lock s_unlock ex_call w0 ops in
  reading_state (k_state (k (st _ _ _ w))) = true ->
  length (Lemmas_C01r.rc_sessions ss) = nonblank_lines false (consumed (tr _ _ _ w)) /\
  Forall Lemmas_C01r.rc_unit (Lemmas_C01r.rc_sessions ss).
Proof.
  intros D m x mx ops WF F w0 w ss HR.
  destruct (C01_lines_answered_in_stream_inv D sio smu nat s_read s_write s_lock s_unlock ex_call ex_HI
              (ex_HI_step D) m x mx 0 ops eq_refl WF F HR) as (_ & _ & A & B & _).
  split; [exact B | exact A].
Qed.

Example ex_types : forall D m x mx ops, wf_desc D m -> Forall (valid_op D) ops ->
  let w0 := mkWorld sio smu nat (init_state D m) x mx 0 [] in
  Lemmas_C09.flags_between_lines D sio smu nat s_read s_write s_lock s_unlock ex_call w0 ops ->
  let w := Fsm.run D sio smu nat s_read s_write s_lock s_unlock ex_call w0 ops in
  Lemmas_C02i.write_state (st _ _ _ w) -> k_type (k (st _ _ _ w)) = T_WRITE.
Proof.
  intros D m x mx ops WF F w0 FB w HS.
  destruct (C02_types_by_state_inv D sio smu nat s_read s_write s_lock s_unlock ex_call ex_HI (ex_HI_step D)
              m x mx 0 ops eq_refl WF F FB (or_intror HS))
    as (ci & c & ops0 & opsm & more & _ & _ & _ & _ & _ & _ & _ & _ & _ & H).
  exact (proj1 (H HS)).
Qed.

Example ex_observers_idle : forall D m x mx ops, 0 < d_cap D -> Forall (valid_op D) ops ->
  let w := Fsm.run D sio smu nat s_read s_write s_lock s_unlock ex_call
             (mkWorld sio smu nat (init_state D m) x mx 0 []) ops in
  u_state (u (st _ _ _ w)) = US_IDLE -> Lemmas_C13p.in_progress_opt sio smu nat w = None.
Proof.
  intros D m x mx ops Hc F w Hi.
  exact (proj1 (proj2 (C13_observers_exact_opt_inv D sio smu nat s_read s_write s_lock s_unlock ex_call ex_HI
                         (ex_HV_step D) m x mx 0 ops eq_refl Hc F) Hi)).
Qed.

(* the two hypotheses of C06_read_handler_text_cb_inv, for this oracle and the invariant ex_HI *)
Example ex_C06_hyps : forall f ci (c : cmd),
  (forall h q, ex_HI h -> ex_HI (fst (ex_call h q))) /\
  (forall h vi v, ex_HI h -> nth_error (c_vars c) vi = Some v -> v_hread v = true ->
     r_calls (snd (ex_call h (VRead f ci vi))) = []).
Proof. intros f ci c. split; [intros h q H; exact H | intros h vi v -> _ _; reflexivity]. Qed.
End Examples.
