(* Lemmas_C11l.v — property C11, "no unit is lost": liveness of a started or waiting unit.
   Proofs for Properties_C11l.v.

   Combination of
     - the liveness theorem of Lemmas_C15d.v (any finite readiness schedule, holds allowed: within
       C15_bound D w + sched_left w calls of cat_service the run is quiescent or suspended in an
       unreleased hold with the event machine idle), and
     - the stream invariant of Lemmas_C11s.v in its scripted one-step form (Lemmas_Inv2.srun_StI),
   plus one new invariant (WaitC / WaitU below): a machine that waits for the channel keeps the unit
   it prepared, and the first session it opens afterwards emits exactly that unit. *)
From Coq Require Import List NArith ZArith Bool Arith Lia.
From CatV Require Import Bytes Defs Codec Spec Fsm Script Skel SkelInv SkelSim TraceDefs ResolveDefs SchedDefs TermDefs.
From CatV Require Import Lemmas_C03 Lemmas_C11 Lemmas_C11s Lemmas_C15c Lemmas_Inv Lemmas_Inv2 Lemmas_C15d.
From CatV Require Lemmas_C12c Lemmas_C03b.
Import ListNotations.
Local Open Scope nat_scope.

(* ------------------------------------------------------------------ *)
(* definitions of the statements                                        *)
(* ------------------------------------------------------------------ *)

(* neither machine owns the channel nor waits for it *)
Definition not_flushing (s : state) : Prop :=
  k_state (k s) <> CS_FLUSH /\ k_state (k s) <> CS_FLUSH_WAIT /\
  u_state (u s) <> US_FLUSH /\ u_state (u s) <> US_FLUSH_WAIT.

(* the first unit of producer f in a list of units *)
Definition first_unit (f : fsm) (l : list (fsm * list N)) : option (fsm * list N) :=
  hd_error (units_of f l).

(* l1 is a prefix of l2 *)
Definition prefix {A} (l1 l2 : list A) : Prop := exists r, l2 = l1 ++ r.

(* ------------------------------------------------------------------ *)
(* lists                                                                *)
(* ------------------------------------------------------------------ *)
Lemma units_of_app : forall f a b, units_of f (a ++ b) = units_of f a ++ units_of f b.
Proof. intros. unfold units_of. apply filter_app. Qed.

Lemma units_of_new_c : forall s s',
  units_of ATCMD (map unit_of (new_starts s s')) = if enters_c s s' then [(ATCMD, remaining s')] else [].
Proof. intros s s'. unfold new_starts. destruct (enters_u s s'), (enters_c s s'); reflexivity. Qed.

Lemma units_of_new_u : forall s s',
  units_of UNSOL (map unit_of (new_starts s s')) = if enters_u s s' then [(UNSOL, remaining_u s')] else [].
Proof. intros s s'. unfold new_starts. destruct (enters_u s s'), (enters_c s s'); reflexivity. Qed.

Lemma first_unit_app_some : forall f a b x, first_unit f a = Some x -> first_unit f (a ++ b) = Some x.
Proof.
  intros f a b x H. unfold first_unit in *. rewrite units_of_app.
  destruct (units_of f a); [discriminate H | exact H].
Qed.

(* ------------------------------------------------------------------ *)
(* the waiting invariant, on states                                     *)
(* ------------------------------------------------------------------ *)

(* U was pending in the command machine when the observation started; l: units started since.
   Either the machine still waits with the same unit and has opened no session, or the first
   session it opened emits U *)
Definition WaitC (U : list N) (s : state) (l : list (fsm * list N)) : Prop :=
  (k_state (k s) = CS_FLUSH_WAIT /\ remaining s = U /\ units_of ATCMD l = []) \/
  first_unit ATCMD l = Some (ATCMD, U).
Definition WaitU (U : list N) (s : state) (l : list (fsm * list N)) : Prop :=
  (u_state (u s) = US_FLUSH_WAIT /\ remaining_u s = U /\ units_of UNSOL l = []) \/
  first_unit UNSOL l = Some (UNSOL, U).

Lemma WaitC_step : forall U s s' l, WaitC U s l ->
  (k_state (k s) = CS_FLUSH_WAIT ->
     kpart s' = kpart s /\ (k_state (k s') = CS_FLUSH_WAIT \/ k_state (k s') = CS_FLUSH)) ->
  WaitC U s' (l ++ map unit_of (new_starts s s')).
Proof.
  intros U s s' l [(W & R & N) | H] Hs.
  - destruct (Hs W) as [KP [W' | F']].
    + left. split; [exact W'|]. split; [rewrite (kpart_remaining _ _ KP); exact R|].
      rewrite units_of_app, N, units_of_new_c, enters_c_false_r; [reflexivity|].
      rewrite W'. discriminate.
    + right. unfold first_unit. rewrite units_of_app, N, units_of_new_c, (enters_c_true _ _ W F').
      cbn [app hd_error]. rewrite (kpart_remaining _ _ KP), R. reflexivity.
  - right. apply first_unit_app_some. exact H.
Qed.

Lemma remaining_u_flush : forall s, remaining_u (setu_state US_FLUSH s) = remaining_u s.
Proof. intros s. reflexivity. Qed.

Lemma WaitU_step : forall U s s' l, WaitU U s l ->
  (u_state (u s) = US_FLUSH_WAIT ->
     upart s' = upart s \/ upart s' = upart (setu_state US_FLUSH s)) ->
  WaitU U s' (l ++ map unit_of (new_starts s s')).
Proof.
  intros U s s' l [(W & R & N) | H] Hs.
  - destruct (Hs W) as [UP | UP].
    + left. pose proof (upart_u_state _ _ UP) as E. split; [rewrite E; exact W|].
      split; [rewrite (remaining_u_upart' _ _ UP); exact R|].
      rewrite units_of_app, N, units_of_new_u, enters_u_false_r; [reflexivity|].
      rewrite E, W. discriminate.
    + right. pose proof (upart_u_state _ _ UP) as E. cbn in E.
      unfold first_unit. rewrite units_of_app, N, units_of_new_u, (enters_u_true _ _ W E).
      cbn [app hd_error]. rewrite (remaining_u_upart' _ _ UP), remaining_u_flush, R. reflexivity.
  - right. apply first_unit_app_some. exact H.
Qed.

(* ------------------------------------------------------------------ *)
(* scripted worlds                                                      *)
(* ------------------------------------------------------------------ *)
Lemma nsvc_srun : forall D n (w : sworld), nsvc D n w = srun D w (repeat (SOp OService) n).
Proof.
  intros D. induction n as [|n IH]; intros w; [reflexivity|].
  change (nsvc D (S n) w) with (nsvc D n (svc D w)). rewrite IH. reflexivity.
Qed.

Lemma srun_app : forall D a b (w : sworld), srun D w (a ++ b) = srun D (srun D w a) b.
Proof. intros. unfold srun. apply fold_left_app. Qed.

Lemma sc_sstarts_app : forall D a b (w : sworld),
  sc_sstarts D w (a ++ b) = sc_sstarts D w a ++ sc_sstarts D (srun D w a) b.
Proof.
  intros D. induction a as [|o a IH]; intros b w; [reflexivity|].
  cbn [app sc_sstarts]. rewrite IH, app_assoc. reflexivity.
Qed.

Lemma sc_sstarted_app : forall D a b (w : sworld),
  sc_sstarted D w (a ++ b) = sc_sstarted D w a ++ sc_sstarted D (srun D w a) b.
Proof. intros. unfold sc_sstarted. rewrite sc_sstarts_app, map_app. reflexivity. Qed.

Lemma no_reinit_services : forall n, Forall no_reinit (repeat (SOp OService) n).
Proof. intros n. apply Forall_forall. intros o Ho. apply repeat_spec in Ho. subst o. exact I. Qed.

Lemma map_SOp_services : forall n, map SOp (repeat OService n) = repeat (SOp OService) n.
Proof. induction n as [|n IH]; [reflexivity|]. cbn [repeat map]. rewrite IH. reflexivity. Qed.

Section Scripted.
Variable D : desc.

Local Notation st := (Fsm.st sio smu shs).
Local Notation io := (Fsm.io sio smu shs).
Local Notation hs := (Fsm.hs sio smu shs).
Local Notation tr := (Fsm.tr sio smu shs).
Local Notation hist := (TraceDefs.hist sio smu shs).
Local Notation SC T := (T D sio smu shs s_read s_write s_lock s_unlock s_call).
Local Notation HIH := (fun h : shs => no_rt_hold h = true).

Lemma sstep_nrh : forall (w : sworld) o, no_reinit o -> no_rt_hold (hs w) = true ->
  no_rt_hold (hs (sstep D w o)) = true.
Proof.
  intros w o Ho H. destruct o as [o|b|sl b|]; cbn [sstep no_reinit] in *.
  - exact (proj2 (SC step_sanH HIH no_rt_hold_step w o H)).
  - exact H.
  - exact H.
  - destruct Ho.
Qed.

(* one scenario operation: the command machine's half needs `no event-side HOLD` *)
Lemma sstep_WaitC : forall U (w : sworld) o l, no_reinit o -> no_rt_hold (hs w) = true ->
  WaitC U (st w) l ->
  WaitC U (st (sstep D w o)) (l ++ map unit_of (new_starts (st w) (st (sstep D w o)))).
Proof.
  intros U w o l Ho HH H. apply WaitC_step; [exact H|]. intros W.
  destruct o as [o|b|sl b|]; cbn [sstep no_reinit] in *.
  - destruct (SC step_sanH HIH no_rt_hold_step w o HH) as [E _]. rewrite <- E.
    exact (Lemmas_C11s.step_wait_c D sio smu shs s_read s_write s_lock s_unlock (h_sanH shs s_call)
             (h_sanH_no_uhold shs s_call) w o W).
  - split; [reflexivity | left; exact W].
  - destruct (Lemmas_C03b.apply_poke_eff (st w) (sl, b)) as (mm & E & _).
    unfold Fsm.upd_st, Fsm.set_st. cbv beta. cbn [Fsm.st]. rewrite E.
    split; [reflexivity | left; exact W].
  - destruct Ho.
Qed.

(* the event machine's half needs nothing *)
Lemma sstep_WaitU : forall U (w : sworld) o l, no_reinit o ->
  WaitU U (st w) l ->
  WaitU U (st (sstep D w o)) (l ++ map unit_of (new_starts (st w) (st (sstep D w o)))).
Proof.
  intros U w o l Ho H. apply WaitU_step; [exact H|]. intros W.
  destruct o as [o|b|sl b|]; cbn [sstep no_reinit] in *.
  - destruct (SC Lemmas_C11s.step_wait_u w o W) as [A | [_ A]]; [left | right]; exact A.
  - left. reflexivity.
  - destruct (Lemmas_C03b.apply_poke_eff (st w) (sl, b)) as (mm & E & _).
    unfold Fsm.upd_st, Fsm.set_st. cbv beta. cbn [Fsm.st]. rewrite E. left. reflexivity.
  - destruct Ho.
Qed.

Lemma srun_WaitC : forall U sops (w : sworld) l, Forall no_reinit sops -> no_rt_hold (hs w) = true ->
  WaitC U (st w) l -> WaitC U (st (srun D w sops)) (l ++ sc_sstarted D w sops).
Proof.
  intros U. unfold srun, sc_sstarted. induction sops as [|o sops IH]; intros w l F HH H.
  - cbn [sc_sstarts map fold_left]. rewrite app_nil_r. exact H.
  - inversion F; subst. cbn [sc_sstarts fold_left]. rewrite map_app, app_assoc.
    apply IH; [assumption | apply sstep_nrh; assumption | apply sstep_WaitC; assumption].
Qed.

Lemma srun_WaitU : forall U sops (w : sworld) l, Forall no_reinit sops ->
  WaitU U (st w) l -> WaitU U (st (srun D w sops)) (l ++ sc_sstarted D w sops).
Proof.
  intros U. unfold srun, sc_sstarted. induction sops as [|o sops IH]; intros w l F H.
  - cbn [sc_sstarts map fold_left]. rewrite app_nil_r. exact H.
  - inversion F; subst. cbn [sc_sstarts fold_left]. rewrite map_app, app_assoc.
    apply IH; [assumption | apply sstep_WaitU; assumption].
Qed.

(* ANY scenario continuation (API calls, new input, stores): a unit pending in a waiting machine is
   either still pending, untouched, or it is the first unit that machine started since *)
Theorem C11_waiting_unit_kept_proof : forall (w : sworld) sops, Forall no_reinit sops ->
  let w' := srun D w sops in
  let new := sc_sstarted D w sops in
  (no_rt_hold (hs w) = true -> k_state (k (st w)) = CS_FLUSH_WAIT ->
     (k_state (k (st w')) = CS_FLUSH_WAIT /\ remaining (st w') = remaining (st w) /\
      units_of ATCMD new = []) \/
     first_unit ATCMD new = Some (unit_of (ATCMD, st w))) /\
  (u_state (u (st w)) = US_FLUSH_WAIT ->
     (u_state (u (st w')) = US_FLUSH_WAIT /\ remaining_u (st w') = remaining_u (st w) /\
      units_of UNSOL new = []) \/
     first_unit UNSOL new = Some (unit_of (UNSOL, st w))).
Proof.
  intros w sops F. cbv zeta. split.
  - intros HH W.
    exact (srun_WaitC (remaining (st w)) sops w [] F HH (or_introl (conj W (conj eq_refl eq_refl)))).
  - intros W.
    exact (srun_WaitU (remaining_u (st w)) sops w [] F (or_introl (conj W (conj eq_refl eq_refl)))).
Qed.

End Scripted.

(* ------------------------------------------------------------------ *)
(* the main theorem: from any world that satisfies the invariants       *)
(* ------------------------------------------------------------------ *)
Lemma reading_not_flushing : forall x, reading_state x = true -> x <> CS_FLUSH /\ x <> CS_FLUSH_WAIT.
Proof. intros x H. split; intros E; subst x; discriminate H. Qed.

Theorem C11_no_unit_lost_from_proof : forall D m (w : sworld) units,
  d_mutex D = false ->
  wf_desc D m -> Safe D m (Fsm.st _ _ _ w) ->
  J (ctl_of (Fsm.st _ _ _ w)) ->
  script_ok (res_calls_ok D) (Fsm.hs _ _ _ w) = true ->
  u_count (u (Fsm.st _ _ _ w)) <= d_cap D ->
  Winv (Fsm.st _ _ _ w) -> excl (Fsm.st _ _ _ w) ->
  stream_inv (Fsm.st _ _ _ w) (accepted_wr (TraceDefs.hist _ _ _ w)) units ->
  no_rt_hold (Fsm.hs _ _ _ w) = true ->
  exists n, n <= C15_bound D w + sched_left w /\
    let w' := nsvc D n w in
    let new := sc_sstarted D w (repeat (SOp OService) n) in
    not_flushing (Fsm.st _ _ _ w') /\
    (exists crs, length crs = length (units ++ new) /\
       accepted_wr (TraceDefs.hist _ _ _ w') = stream (units ++ new) crs) /\
    prefix (accepted_wr (TraceDefs.hist _ _ _ w)) (accepted_wr (TraceDefs.hist _ _ _ w')) /\
    (k_state (k (Fsm.st _ _ _ w)) = CS_FLUSH_WAIT ->
       first_unit ATCMD new = Some (unit_of (ATCMD, Fsm.st _ _ _ w))) /\
    (u_state (u (Fsm.st _ _ _ w)) = US_FLUSH_WAIT ->
       first_unit UNSOL new = Some (unit_of (UNSOL, Fsm.st _ _ _ w))).
Proof.
  intros D m w units M WF HS HJ HV Hc HW HX HI HH.
  destruct (C15_quiescence_or_hold_nothing_left_proof D m w M WF HS HJ HV Hc) as (n & Hn & H).
  cbv zeta in H. destruct H as (_ & UI & _ & HK).
  exists n. split; [exact Hn|]. cbv zeta.
  assert (NF : not_flushing (Fsm.st _ _ _ (nsvc D n w))).
  { unfold not_flushing. rewrite UI.
    destruct HK as [(_ & R & _) | (K & _)].
    - destruct (reading_not_flushing _ R) as [A B].
      split; [exact A|]. split; [exact B|]. split; discriminate.
    - rewrite K. split; [discriminate|]. split; [discriminate|]. split; discriminate. }
  split; [exact NF|].
  pose proof (no_reinit_services n) as F.
  destruct NF as (N1 & N2 & N3 & N4).
  split.
  { destruct (srun_StI D (repeat (SOp OService) n) units w F (conj HW (conj HX (conj HI HH))))
      as (_ & _ & SI & _).
    rewrite <- nsvc_srun in SI. fold (sc_sstarted D w (repeat (SOp OService) n)) in SI.
    destruct SI as [(A & _) | [(A & _) | (_ & _ & X)]]; [contradiction | contradiction | exact X]. }
  split.
  { destruct (Lemmas_C12c.nsvc_tr_grows D M n w) as (evs & T).
    exists (accepted_wr (rev evs)). unfold TraceDefs.hist. rewrite T, rev_app_distr.
    apply accepted_wr_app. }
  destruct (C11_waiting_unit_kept_proof D w (repeat (SOp OService) n) F) as [HC HU].
  cbv zeta in HC, HU. rewrite <- nsvc_srun in HC, HU.
  split.
  - intros W. destruct (HC HH W) as [(A & _) | A]; [contradiction | exact A].
  - intros W. destruct (HU W) as [(A & _) | A]; [contradiction | exact A].
Qed.

(* ------------------------------------------------------------------ *)
(* from cat_init: scenarios                                             *)
(* ------------------------------------------------------------------ *)
Theorem C11_no_unit_lost_scenario_proof : forall D m x mx h sops,
  d_mutex D = false -> wf_desc D m -> Forall (valid_sop D) sops ->
  no_rt_hold h = true -> script_ok (res_calls_valid D) h = true ->
  let w0 := sinit D m x mx h in
  let w := srun D w0 sops in
  exists n, n <= C15_bound D w + sched_left w /\
    let sops' := sops ++ repeat (SOp OService) n in
    let w' := nsvc D n w in
    let new := sc_sstarted D w (repeat (SOp OService) n) in
    w' = srun D w0 sops' /\
    stream_inv (Fsm.st _ _ _ w) (accepted_wr (TraceDefs.hist _ _ _ w)) (sc_sstarted D w0 sops) /\
    not_flushing (Fsm.st _ _ _ w') /\
    sc_sstarted D w0 sops' = sc_sstarted D w0 sops ++ new /\
    (exists crs, length crs = length (sc_sstarted D w0 sops') /\
       accepted_wr (TraceDefs.hist _ _ _ w') = stream (sc_sstarted D w0 sops') crs) /\
    prefix (accepted_wr (TraceDefs.hist _ _ _ w)) (accepted_wr (TraceDefs.hist _ _ _ w')) /\
    (k_state (k (Fsm.st _ _ _ w)) = CS_FLUSH_WAIT ->
       first_unit ATCMD new = Some (unit_of (ATCMD, Fsm.st _ _ _ w))) /\
    (u_state (u (Fsm.st _ _ _ w)) = US_FLUSH_WAIT ->
       first_unit UNSOL new = Some (unit_of (UNSOL, Fsm.st _ _ _ w))).
Proof.
  intros D m x mx h sops M WF F A B w0 w.
  destruct (scenario_inv_scripted D m x mx h sops WF F A B) as (_ & HS & HJ & HR & HV).
  fold w0 in HS, HJ, HR, HV. fold w in HS, HJ, HR, HV.
  destruct (C13_exactly_once_scenario D m x mx h sops (proj1 WF) (or_introl M) (valid_no_reinit D sops F))
    as [(_ & _ & _ & _ & Hc & _) _]. fold w0 in Hc. fold w in Hc.
  pose proof (valid_no_reinit D sops F) as NR.
  destruct (srun_StI D sops [] w0 NR (StI_init D m x mx h A)) as (HW & HX & HI & HH).
  cbn [app] in HI. fold w in HW, HX, HI, HH.
  destruct (C11_no_unit_lost_from_proof D m w (sc_sstarted D w0 sops) M WF HS HJ
              (script_ok_impl _ _ (res_calls_valid_ok D) _ HV) Hc HW HX HI HH)
    as (n & Hn & NF & ST & PF & KC & KU).
  exists n. split; [exact Hn|]. cbv zeta.
  assert (E : sc_sstarted D w0 (sops ++ repeat (SOp OService) n) =
              sc_sstarted D w0 sops ++ sc_sstarted D w (repeat (SOp OService) n))
    by apply sc_sstarted_app.
  split; [rewrite nsvc_srun; unfold w; symmetry; apply srun_app|].
  split; [exact HI|]. split; [exact NF|]. split; [exact E|]. split; [rewrite E; exact ST|].
  split; [exact PF|]. split; [exact KC | exact KU].
Qed.

(* histories of API calls *)
Theorem C11_no_unit_lost_history_proof : forall D m x mx h ops,
  d_mutex D = false -> wf_desc D m -> Forall (valid_op D) ops ->
  no_rt_hold h = true -> script_ok (res_calls_valid D) h = true ->
  let w0 := sinit D m x mx h in
  let w := srun D w0 (map SOp ops) in
  exists n, n <= C15_bound D w + sched_left w /\
    let ops' := ops ++ repeat OService n in
    let w' := nsvc D n w in
    let new := sc_started D w (repeat OService n) in
    w' = srun D w0 (map SOp ops') /\
    stream_inv (Fsm.st _ _ _ w) (accepted_wr (TraceDefs.hist _ _ _ w)) (sc_started D w0 ops) /\
    not_flushing (Fsm.st _ _ _ w') /\
    sc_started D w0 ops' = sc_started D w0 ops ++ new /\
    (exists crs, length crs = length (sc_started D w0 ops') /\
       accepted_wr (TraceDefs.hist _ _ _ w') = stream (sc_started D w0 ops') crs) /\
    prefix (accepted_wr (TraceDefs.hist _ _ _ w)) (accepted_wr (TraceDefs.hist _ _ _ w')) /\
    (k_state (k (Fsm.st _ _ _ w)) = CS_FLUSH_WAIT ->
       first_unit ATCMD new = Some (unit_of (ATCMD, Fsm.st _ _ _ w))) /\
    (u_state (u (Fsm.st _ _ _ w)) = US_FLUSH_WAIT ->
       first_unit UNSOL new = Some (unit_of (UNSOL, Fsm.st _ _ _ w))).
Proof.
  intros D m x mx h ops M WF F A B w0 w.
  destruct (C11_no_unit_lost_scenario_proof D m x mx h (map SOp ops) M WF (valid_sop_map D ops F) A B)
    as (n & Hn & H). cbv zeta in H. fold w0 in H. fold w in H, Hn.
  exists n. split; [exact Hn|]. cbv zeta.
  assert (S1 : forall (v : sworld) l, sc_sstarted D v (map SOp l) = sc_started D v l).
  { intros v l. unfold sc_sstarted. rewrite sc_sstarts_SOp. reflexivity. }
  rewrite map_app, map_SOp_services. rewrite <- !S1. rewrite map_app, map_SOp_services.
  exact H.
Qed.

(* the same with the domain hypotheses decided by computation *)
Theorem C11_no_unit_lost_history_decided_proof : forall D m x mx h ops,
  d_mutex D = false -> wf_descb D m = true -> forallb (valid_opb D) ops = true ->
  no_rt_hold h = true -> script_ok (res_calls_valid D) h = true ->
  let w0 := sinit D m x mx h in
  let w := srun D w0 (map SOp ops) in
  exists n, n <= C15_bound D w + sched_left w /\
    let ops' := ops ++ repeat OService n in
    let w' := nsvc D n w in
    let new := sc_started D w (repeat OService n) in
    w' = srun D w0 (map SOp ops') /\
    stream_inv (Fsm.st _ _ _ w) (accepted_wr (TraceDefs.hist _ _ _ w)) (sc_started D w0 ops) /\
    not_flushing (Fsm.st _ _ _ w') /\
    sc_started D w0 ops' = sc_started D w0 ops ++ new /\
    (exists crs, length crs = length (sc_started D w0 ops') /\
       accepted_wr (TraceDefs.hist _ _ _ w') = stream (sc_started D w0 ops') crs) /\
    prefix (accepted_wr (TraceDefs.hist _ _ _ w)) (accepted_wr (TraceDefs.hist _ _ _ w')) /\
    (k_state (k (Fsm.st _ _ _ w)) = CS_FLUSH_WAIT ->
       first_unit ATCMD new = Some (unit_of (ATCMD, Fsm.st _ _ _ w))) /\
    (u_state (u (Fsm.st _ _ _ w)) = US_FLUSH_WAIT ->
       first_unit UNSOL new = Some (unit_of (UNSOL, Fsm.st _ _ _ w))).
Proof.
  intros D m x mx h ops M WF F.
  exact (C11_no_unit_lost_history_proof D m x mx h ops M (wf_descb_sound D m WF) (valid_ops_sound D ops F)).
Qed.
