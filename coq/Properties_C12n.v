(* Properties_C12n.v -- property C12 (independence from io scheduling) in MIXED runs, continued:
   runs with API calls other than cat_service, and the fault flag.  Proofs: Lemmas_C12n.v.

   SCOPE OF Properties_C12m.v, as a reviewer noted: its runs are  nsvc  (service calls ONLY, so
   every event must already be queued in the initial world), and its view drops the fault flag
   without saying so.  Its two step theorems hold in any world; this file reuses them.

   (a) ONE operation other than cat_service.  Every such operation acts on the command view by a
       function of the view only, vact o (C12_nonservice_view).  For OTrigger (ANY command, ANY
       type), OIsBusy, OIsHold, OIsFull, OIsBuffered, OGetProcessed that function is the
       identity (C12_neutral_op_view).  Whether a trigger is ACCEPTED or REFUSED (queue full)
       does depend on the schedule -- the queue drains as fast as the write schedule lets it:
       C12n_ex_trigger_status_schedule -- and the status is logged (ERet), but ERet entries are not part of
       the command-side sub-trace and the queue is not part of the view: the VIEW is unchanged
       either way.  A trigger of a quiet command keeps invE if the queue is well formed
       (C12_trigger_quiet_view; ring_wf is needed: C12n_ex_ring_wf_necessary, and holds in every
       world reached from cat_init: Properties_C13).
       OHoldExit and the two flag setters are NOT neutral: they store into the command machine's
       record (k_hold_exit) / into the enable flags its name lookup reads, so the view after them
       is  vact o (view before)  and WHERE on the chain the store lands depends on the schedule
       (C12n_ex_setter_changes_view).  They keep invE, the scripts, the input (C12_acting_op_keeps),
       and a run containing them is a path  vpath  in which the schedules only decide, at each
       service call, between the stutter and the step (C12_cmd_view_path_ops).  They are excluded
       from the chain theorems below.
   (b) runs of  vn_op  operations (OService, triggers of quiet commands, the five queries), in any
       order: the view after the run is  citer D j (cview w), j <= number of service calls
       (C12_cmd_run_view_ops).  The right statement for two runs with DIFFERENT operation lists
       (triggers at different moments, different numbers of calls, different schedules, even
       different events) is the chain statement: from worlds with equal views both stay on ONE
       chain (C12_cmd_view_chain_ops); hence prefix-related command-side projections at any two
       moments (C12_cmd_projection_prefix_ops) and EQUAL ones at quiescence
       (C12_cmd_view_final_ops, C12_cmd_projection_independent_ops; from cat_init:
       C12_cmd_projection_independent_init).
   (c) THE FAULT FLAG.  cview = (cst (st w), ...) with cst s = nx U0 [] s, and nx RAISES fault in
       both worlds compared: the view does not see the flag.  That is sound because the flag is
       write-only in the model: no function of Fsm.v reads it (the commutation lemmas nx_* of
       Lemmas_C12m.v are exactly the proof for the command machine), so nothing else in the view
       can depend on it.  The VALUE of the flag is a matter of C03, not of scheduling: in the
       domain of C03 it is false in every run, hence equal in the two runs compared
       (C12_cmd_projection_independent_fault).  Outside the domain the flag can be raised, and
       WHEN depends on the schedule (an event naming no pool command raises it when the event
       machine starts on it, which waits for the writes before: C12n_ex_fault_outside_domain);
       the view theorems hold there too, which is why the flag must not be part of the view.

   Hypotheses:  d_mutex D = false, script_ok res_no_trigger (command-side handlers do not trigger
   events: as in Properties_C12m.v), invE (events already queued are quiet), ring_wf.
   NOT covered: SFeed / SPoke (new input or application stores DURING the run change the view:
   inq, mem); event-side handlers (Properties_C12m.v, necessity witnesses there). *)
From Coq Require Import List NArith ZArith Bool Arith Lia.
From CatV Require Import Bytes Defs Codec Fsm Script TraceDefs ResolveDefs SchedDefs SkelInv GlueDefs.
From CatV Require Lemmas_C01s Lemmas_C03b Lemmas_C13 Lemmas_C15 Lemmas_Inv Lemmas_Inv2.
From CatV Require Import Lemmas_C12m Lemmas_C12n.
Import ListNotations.
Local Open Scope nat_scope.

Local Notation st := (Fsm.st sio smu shs).
Local Notation io := (Fsm.io sio smu shs).
Local Notation hs := (Fsm.hs sio smu shs).
Local Notation tr := (Fsm.tr sio smu shs).
Local Notation sdo D := (Fsm.do_op D sio smu shs s_read s_write s_lock s_unlock s_call).
Local Notation sstep D := (Fsm.step D sio smu shs s_read s_write s_lock s_unlock s_call).
Local Notation srunO D := (Fsm.run D sio smu shs s_read s_write s_lock s_unlock s_call).
Local Notation ring_wf := Lemmas_C13.ring_wf.

(* the definitions, restated *)
Example neutral_op_def : forall o,
  neutral_op o = match o with
                 | OTrigger _ _ | OIsBusy | OIsHold | OIsFull | OIsBuffered _ _ | OGetProcessed _ => true
                 | _ => false
                 end.
Proof. reflexivity. Qed.
Example vn_op_def : forall D o,
  vn_op D o = match o with
              | OService => true
              | OTrigger ci _ => quiet_ci D ci
              | OIsBusy | OIsHold | OIsFull | OIsBuffered _ _ | OGetProcessed _ => true
              | OHoldExit _ | OSetCmdDisable _ _ | OSetGroupDisable _ _ => false
              end.
Proof. intros D o. destruct o; reflexivity. Qed.
Example ok_op_def : forall D o,
  ok_op D o = match o with OTrigger ci _ => quiet_ci D ci | _ => true end.
Proof. reflexivity. Qed.
Example vact_def : forall D o v, vact D o v = cview (sstep D (canon v) o).
Proof. reflexivity. Qed.
Example nserv_def : forall ops,
  nserv ops = length (filter (fun o => match o with OService => true | _ => false end) ops).
Proof. reflexivity. Qed.
Example srun_is_run : forall D ops (w : sworld), srun D w (map SOp ops) = srunO D w ops.
Proof. exact Lemmas_Inv.srun_SOp. Qed.

(* ================================================================== *)
(* (a) one operation other than cat_service                             *)
(* ================================================================== *)

(* a1. every such operation acts on the view by a function of the view: the same operation in the
   canonical world of the view (event machine idle and empty, io always ready) *)
Theorem C12_nonservice_view : forall D (w : sworld) o, d_mutex D = false -> o <> OService ->
  cview (sstep D w o) = vact D o (cview w).
Proof. intros D w o M. exact (Lemmas_C12n.nonservice_view D M o w). Qed.
Print Assumptions C12_nonservice_view.

(* a2. triggers (any command, accepted or refused) and the five queries: the view is unchanged,
   in ANY world *)
Theorem C12_neutral_op_view : forall D (w : sworld) o, d_mutex D = false -> neutral_op o = true ->
  cview (sstep D w o) = cview w.
Proof. intros D w o M. exact (Lemmas_C12n.neutral_view D M o w). Qed.
Print Assumptions C12_neutral_op_view.

(* a3. the requested form: a trigger of a quiet command or a query keeps the view AND the
   invariants of the run theorems *)
Theorem C12_trigger_quiet_view : forall D (w : sworld) o, d_mutex D = false ->
  vn_op D o = true -> o <> OService ->
  invE D (st w) = true -> script_ok res_no_trigger (hs w) = true -> ring_wf D (st w) ->
  cview (sstep D w o) = cview w /\
  invE D (st (sstep D w o)) = true /\ script_ok res_no_trigger (hs (sstep D w o)) = true /\
  ring_wf D (st (sstep D w o)).
Proof. intros D w o M V N I S W. exact (Lemmas_C12n.trigger_quiet_view D M o w V N (conj I (conj S W))). Qed.
Print Assumptions C12_trigger_quiet_view.

(* a4. OHoldExit and the flag setters act on the command machine (view: a1) and on nothing else
   the theorems depend on *)
Theorem C12_acting_op_keeps : forall D (w : sworld) o, d_mutex D = false ->
  o <> OService -> neutral_op o = false ->
  u (st (sstep D w o)) = u (st w) /\ hs (sstep D w o) = hs w /\ io (sstep D w o) = io w.
Proof. intros D w o M. exact (Lemmas_C12n.acting_keeps D M o w). Qed.
Print Assumptions C12_acting_op_keeps.

(* ================================================================== *)
(* (b) runs                                                             *)
(* ================================================================== *)

(* b1. after any list of view-neutral operations the view is cnext^j of the initial one, j <= the
   number of service calls in the list *)
Theorem C12_cmd_run_view_ops : forall D (w : sworld) ops, d_mutex D = false ->
  forallb (vn_op D) ops = true ->
  invE D (st w) = true -> script_ok res_no_trigger (hs w) = true -> ring_wf D (st w) ->
  (invE D (st (srunO D w ops)) = true /\ script_ok res_no_trigger (hs (srunO D w ops)) = true /\
   ring_wf D (st (srunO D w ops))) /\
  exists j, j <= nserv ops /\ cview (srunO D w ops) = citer D j (cview w).
Proof. intros D w ops M V I S W. exact (Lemmas_C12n.ops_view D M ops w V (conj I (conj S W))). Qed.
Print Assumptions C12_cmd_run_view_ops.

(* b2. two runs with different operation lists from worlds with equal views: ONE chain *)
Theorem C12_cmd_view_chain_ops : forall D (w1 w2 : sworld) ops1 ops2, d_mutex D = false ->
  forallb (vn_op D) ops1 = true -> forallb (vn_op D) ops2 = true ->
  invE D (st w1) = true -> script_ok res_no_trigger (hs w1) = true -> ring_wf D (st w1) ->
  invE D (st w2) = true -> script_ok res_no_trigger (hs w2) = true -> ring_wf D (st w2) ->
  cview w1 = cview w2 ->
  exists j1 j2, j1 <= nserv ops1 /\ j2 <= nserv ops2 /\
    cview (srunO D w1 ops1) = citer D j1 (cview w1) /\
    cview (srunO D w2 ops2) = citer D j2 (cview w1).
Proof.
  intros D w1 w2 ops1 ops2 M V1 V2 I1 S1 W1 I2 S2 W2.
  exact (Lemmas_C12n.ops_view_chain D M w1 w2 ops1 ops2 V1 V2 (conj I1 (conj S1 W1)) (conj I2 (conj S2 W2))).
Qed.
Print Assumptions C12_cmd_view_chain_ops.

(* b3. at any two moments: consumed bytes, command-response bytes, command-side handler calls
   are prefix-related *)
Theorem C12_cmd_projection_prefix_ops : forall D (w1 w2 : sworld) ops1 ops2, d_mutex D = false ->
  forallb (vn_op D) ops1 = true -> forallb (vn_op D) ops2 = true ->
  invE D (st w1) = true -> script_ok res_no_trigger (hs w1) = true -> ring_wf D (st w1) ->
  invE D (st w2) = true -> script_ok res_no_trigger (hs w2) = true -> ring_wf D (st w2) ->
  cview w1 = cview w2 ->
  let a := srunO D w1 ops1 in let b := srunO D w2 ops2 in
  (exists r1 r2 r3, Lemmas_C01s.consumed (tr a) = Lemmas_C01s.consumed (tr b) ++ r1 /\
                    cmd_output (tr a) = cmd_output (tr b) ++ r2 /\
                    cmd_calls (tr a) = cmd_calls (tr b) ++ r3) \/
  (exists r1 r2 r3, Lemmas_C01s.consumed (tr b) = Lemmas_C01s.consumed (tr a) ++ r1 /\
                    cmd_output (tr b) = cmd_output (tr a) ++ r2 /\
                    cmd_calls (tr b) = cmd_calls (tr a) ++ r3).
Proof.
  intros D w1 w2 ops1 ops2 M V1 V2 I1 S1 W1 I2 S2 W2.
  exact (Lemmas_C12n.ops_projection_prefix D M w1 w2 ops1 ops2 V1 V2 (conj I1 (conj S1 W1)) (conj I2 (conj S2 W2))).
Qed.
Print Assumptions C12_cmd_projection_prefix_ops.

(* b4. at quiescence of both runs the views are EQUAL *)
Theorem C12_cmd_view_final_ops : forall D (w1 w2 : sworld) ops1 ops2, d_mutex D = false ->
  forallb (vn_op D) ops1 = true -> forallb (vn_op D) ops2 = true ->
  invE D (st w1) = true -> script_ok res_no_trigger (hs w1) = true -> ring_wf D (st w1) ->
  invE D (st w2) = true -> script_ok res_no_trigger (hs w2) = true -> ring_wf D (st w2) ->
  cview w1 = cview w2 ->
  inq (io (srunO D w1 ops1)) = [] -> snd (sdo D (srunO D w1 ops1) OService) = ST_OK ->
  inq (io (srunO D w2 ops2)) = [] -> snd (sdo D (srunO D w2 ops2) OService) = ST_OK ->
  cview (srunO D w1 ops1) = cview (srunO D w2 ops2).
Proof.
  intros D w1 w2 ops1 ops2 M V1 V2 I1 S1 W1 I2 S2 W2.
  exact (Lemmas_C12n.ops_view_final D M w1 w2 ops1 ops2 V1 V2 (conj I1 (conj S1 W1)) (conj I2 (conj S2 W2))).
Qed.
Print Assumptions C12_cmd_view_final_ops.

(* b5. what a user observes of the command side is the same *)
Theorem C12_cmd_projection_independent_ops : forall D (w1 w2 : sworld) ops1 ops2, d_mutex D = false ->
  forallb (vn_op D) ops1 = true -> forallb (vn_op D) ops2 = true ->
  invE D (st w1) = true -> script_ok res_no_trigger (hs w1) = true -> ring_wf D (st w1) ->
  invE D (st w2) = true -> script_ok res_no_trigger (hs w2) = true -> ring_wf D (st w2) ->
  cview w1 = cview w2 ->
  let a := srunO D w1 ops1 in let b := srunO D w2 ops2 in
  inq (io a) = [] -> snd (sdo D a OService) = ST_OK ->
  inq (io b) = [] -> snd (sdo D b OService) = ST_OK ->
  Lemmas_C01s.consumed (tr a) = Lemmas_C01s.consumed (tr b) /\
  cmd_output (tr a) = cmd_output (tr b) /\ cmd_calls (tr a) = cmd_calls (tr b) /\
  k (st a) = k (st b) /\ cbuf (st a) = cbuf (st b) /\ mem (st a) = mem (st b) /\
  hs a = hs b /\ inq (io a) = inq (io b).
Proof.
  intros D w1 w2 ops1 ops2 M V1 V2 I1 S1 W1 I2 S2 W2.
  exact (Lemmas_C12n.ops_projection_independent D M w1 w2 ops1 ops2 V1 V2 (conj I1 (conj S1 W1)) (conj I2 (conj S2 W2))).
Qed.
Print Assumptions C12_cmd_projection_independent_ops.

(* b6. from cat_init: the same input under two pairs of schedules, two operation lists *)
Theorem C12_cmd_projection_independent_init : forall D m x1 x2 mx h ops1 ops2,
  d_mutex D = false -> 0 < d_cap D -> script_ok res_no_trigger h = true -> inq x1 = inq x2 ->
  forallb (vn_op D) ops1 = true -> forallb (vn_op D) ops2 = true ->
  let a := srunO D (sinit D m x1 mx h) ops1 in
  let b := srunO D (sinit D m x2 mx h) ops2 in
  inq (io a) = [] -> snd (sdo D a OService) = ST_OK ->
  inq (io b) = [] -> snd (sdo D b OService) = ST_OK ->
  Lemmas_C01s.consumed (tr a) = Lemmas_C01s.consumed (tr b) /\
  cmd_output (tr a) = cmd_output (tr b) /\ cmd_calls (tr a) = cmd_calls (tr b) /\
  k (st a) = k (st b) /\ cbuf (st a) = cbuf (st b) /\ mem (st a) = mem (st b) /\
  hs a = hs b /\ inq (io a) = inq (io b).
Proof. exact Lemmas_C12n.ops_projection_independent_init. Qed.
Print Assumptions C12_cmd_projection_independent_init.

(* b7. ANY operations with triggers of quiet commands, hold exits and flag stores included: the
   view moves by functions of the view; the restated relation: *)
Example vpath_def : forall D ops v v',
  vpath D ops v v' <->
  match ops with
  | [] => v' = v
  | OService :: r => vpath D r v v' \/ vpath D r (cnext D v) v'
  | o :: r => vpath D r (vact D o v) v'
  end.
Proof.
  intros D ops v v'. split.
  - intros H. destruct H as [v|ops v v' H|ops v v' H|o ops v v' N H];
      [reflexivity | left; exact H | right; exact H |].
    destruct o; try exact H. congruence.
  - destruct ops as [|o r]; [intros ->; constructor|].
    destruct o; try (intros H; apply vp_act; [discriminate | exact H]).
    intros [H|H]; [apply vp_stutter | apply vp_step]; exact H.
Qed.

Theorem C12_cmd_view_path_ops : forall D (w : sworld) ops, d_mutex D = false ->
  forallb (ok_op D) ops = true ->
  invE D (st w) = true -> script_ok res_no_trigger (hs w) = true -> ring_wf D (st w) ->
  (invE D (st (srunO D w ops)) = true /\ script_ok res_no_trigger (hs (srunO D w ops)) = true /\
   ring_wf D (st (srunO D w ops))) /\
  vpath D ops (cview w) (cview (srunO D w ops)).
Proof. intros D w ops M V I S W. exact (Lemmas_C12n.ops_view_path D M ops w V (conj I (conj S W))). Qed.
Print Assumptions C12_cmd_view_path_ops.

(* ================================================================== *)
(* (c) the fault flag                                                   *)
(* ================================================================== *)
(* the conjunct missing from the projection theorems: in the domain of C03 both flags are false *)
Theorem C12_cmd_projection_independent_fault : forall D m x1 x2 mx h ops1 ops2,
  Lemmas_C03b.wf_desc D m ->
  Forall (Lemmas_C03b.valid_op D) ops1 -> Forall (Lemmas_C03b.valid_op D) ops2 ->
  Lemmas_Inv.no_rt_hold h = true -> script_ok (Lemmas_Inv.res_calls_valid D) h = true ->
  fault (st (srunO D (sinit D m x1 mx h) ops1)) = false /\
  fault (st (srunO D (sinit D m x2 mx h) ops2)) = false.
Proof. exact Lemmas_C12n.ops_fault. Qed.
Print Assumptions C12_cmd_projection_independent_fault.

(* ================================================================== *)
(* non-vacuity                                                          *)
(* ================================================================== *)
(* the descriptor of Properties_C12m.v.  command 0: "+X" with a read handler; command 1: "+V", an
   int variable (value 5), no handlers; queue capacity 2 *)
Definition nD : desc :=
  mkDesc [[mkCmd [43; 88]%N None false true false false [] false false false;
           mkCmd [43; 86]%N None false false false false
                 [mkVar None VInt 1 RW false false 0] false false false]] [] 64 None 0%N 2 false.
Definition n_script : shs := [((1, 0, 0), [mkHres RC_DATA_OK (Some [43; 88; 61; 49]%N) [] []])].
(* input "AT+X?\nAT+V?\n" *)
Definition n_inp : list N := [65; 84; 43; 88; 63; 10; 65; 84; 43; 86; 63; 10]%N.
(* run 1: refusing read and write schedules; the first event is triggered after 3 service calls,
   two more (and three queries) after 13 *)
Definition n_x1 : sio :=
  mkSio n_inp [false; true; false; false; true; true; false]
        [false; false; true; false; true; false; false; false; true; true; false; true; false; false;
         false; false; true].
Definition n_ops1 (n : nat) : list op :=
  repeat OService 3 ++ [OTrigger 1 T_READ] ++ repeat OService 10 ++
  [OIsBusy; OTrigger 1 T_TEST; OIsBuffered 1 T_TEST; OTrigger 1 T_READ; OIsFull] ++ repeat OService n.
(* run 2: reads always ready, another write schedule; three triggers -- TEST events this time --
   before the first service call (the third is REFUSED: the queue holds 2), one more after 30
   calls *)
Definition n_x2 : sio := mkSio n_inp [] [true; false; false; true].
Definition n_ops2 (n : nat) : list op :=
  [OTrigger 1 T_TEST; OTrigger 1 T_TEST; OTrigger 1 T_READ; OGetProcessed UNSOL] ++
  repeat OService 30 ++ [OTrigger 1 T_TEST; OIsHold] ++ repeat OService n.

Local Notation nW1 n := (srunO nD (sinit nD [[5%N]] n_x1 (mkSmu [] []) n_script) (n_ops1 n)).
Local Notation nW2 n := (srunO nD (sinit nD [[5%N]] n_x2 (mkSmu [] []) n_script) (n_ops2 n)).

Example C12n_ex_hyps :
  d_mutex nD = false /\ 0 < d_cap nD /\ script_ok res_no_trigger n_script = true /\
  inq n_x1 = inq n_x2 /\
  forallb (vn_op nD) (n_ops1 83) = true /\ forallb (vn_op nD) (n_ops2 66) = true /\
  quiet_ci nD 1 = true /\ quiet_ci nD 0 = false /\
  nserv (n_ops1 83) = 96 /\ nserv (n_ops2 66) = 96.
Proof. vm_compute. repeat split; repeat constructor. Qed.

(* run 1 is quiescent after 83 more calls (not 82), run 2 after 66 (not 65) *)
Example C12n_ex_quiescent :
  inq (io (nW1 83)) = [] /\ snd (sdo nD (nW1 83) OService) = ST_OK /\
  snd (sdo nD (nW1 82) OService) = ST_BUSY /\
  inq (io (nW2 66)) = [] /\ snd (sdo nD (nW2 66) OService) = ST_OK /\
  snd (sdo nD (nW2 65) OService) = ST_BUSY.
Proof. vm_compute. repeat split. Qed.

(* the status of the triggers DOES depend on the run: all three accepted in run 1 (the first event
   had been taken from the queue when the third came), the third refused (ST_BUFFER_FULL) in run 2;
   the event units written differ (READ, TEST, READ units of +V in run 1; three TEST units in
   run 2), and so does the global output stream *)
Definition trig_status (t : list event) : list Z :=
  flat_map (fun e => match e with ERet (OTrigger _ _) r => [r] | _ => [] end) (rev t).
Example C12n_ex_trigger_status :
  trig_status (tr (nW1 83)) = [ST_OK; ST_OK; ST_OK] /\
  trig_status (tr (nW2 66)) = [ST_OK; ST_OK; ST_BUFFER_FULL; ST_OK] /\
  output_of (tr (nW1 83)) <> output_of (tr (nW2 66)).
Proof. vm_compute. repeat split. discriminate. Qed.

(* the SAME operation list under the two pairs of schedules: the fourth trigger is refused under
   the schedules of run 1 (the second event is still queued) and accepted under those of run 2;
   the two views are at different positions of the one chain (b2) *)
Local Notation nT x :=
  (srunO nD (sinit nD [[5%N]] x (mkSmu [] []) n_script)
         ([OTrigger 1 T_READ; OTrigger 1 T_READ] ++ repeat OService 16 ++
          [OTrigger 1 T_READ; OTrigger 1 T_READ])).
Example C12n_ex_trigger_status_schedule :
  trig_status (tr (nT n_x1)) = [ST_OK; ST_OK; ST_OK; ST_BUFFER_FULL] /\
  trig_status (tr (nT n_x2)) = [ST_OK; ST_OK; ST_OK; ST_OK] /\
  cview (nT n_x1) <> cview (nT n_x2).
Proof.
  split; [vm_compute; reflexivity|]. split; [vm_compute; reflexivity|].
  intros H. apply (f_equal (fun v : cviewT => length (snd v))) in H. vm_compute in H. discriminate H.
Qed.

(* theorem b6 applies: the same command-side projection *)
Example C12n_ex_applies :
  Lemmas_C01s.consumed (tr (nW1 83)) = Lemmas_C01s.consumed (tr (nW2 66)) /\
  cmd_output (tr (nW1 83)) = cmd_output (tr (nW2 66)) /\
  cmd_calls (tr (nW1 83)) = cmd_calls (tr (nW2 66)) /\
  k (st (nW1 83)) = k (st (nW2 66)) /\ cbuf (st (nW1 83)) = cbuf (st (nW2 66)) /\
  mem (st (nW1 83)) = mem (st (nW2 66)) /\
  hs (nW1 83) = hs (nW2 66) /\ inq (io (nW1 83)) = inq (io (nW2 66)).
Proof.
  destruct C12n_ex_hyps as (H1 & H2 & H3 & H4 & H5 & H6 & _).
  destruct C12n_ex_quiescent as (Q1 & O1 & _ & Q2 & O2 & _).
  exact (C12_cmd_projection_independent_init nD [[5%N]] n_x1 n_x2 (mkSmu [] []) n_script
           (n_ops1 83) (n_ops2 66) H1 H2 H3 H4 H5 H6 Q1 O1 Q2 O2).
Qed.

(* what is equated, computed: "\n+X=1\n\nOK\n\n+V=5\n\nOK\n", one handler call *)
Example C12n_ex_values :
  Lemmas_C01s.consumed (tr (nW1 83)) = n_inp /\
  cmd_output (tr (nW1 83)) =
    [10; 43; 88; 61; 49; 10; 10; 79; 75; 10; 10; 43; 86; 61; 53; 10; 10; 79; 75; 10]%N /\
  cmd_calls (tr (nW1 83)) = [(HRead ATCMD 0 [43; 88; 61; 0]%N 3 32, RC_DATA_OK)].
Proof. vm_compute. repeat split. Qed.

(* before quiescence (b3 applies to any two moments): here run 1 after 20 more calls is behind
   run 2 after 30 more calls *)
Example C12n_ex_prefix :
  length (cmd_output (tr (nW1 20))) = 5 /\ length (cmd_output (tr (nW2 30))) = 10 /\
  firstn 5 (cmd_output (tr (nW2 30))) = cmd_output (tr (nW1 20)).
Proof. vm_compute. repeat split. Qed.

(* (c): the fault conjunct applies to the two runs *)
Example C12n_ex_fault :
  fault (st (nW1 83)) = false /\ fault (st (nW2 66)) = false.
Proof.
  apply C12_cmd_projection_independent_fault.
  - apply Lemmas_Inv2.wf_descb_sound. vm_compute. reflexivity.
  - apply Lemmas_Inv2.valid_ops_sound. vm_compute. reflexivity.
  - apply Lemmas_Inv2.valid_ops_sound. vm_compute. reflexivity.
  - vm_compute. reflexivity.
  - vm_compute. reflexivity.
Qed.

(* outside the domain of C03: the trigger of command 7 (no such command; it counts as quiet, the
   event machine never calls the application for it) is a view-neutral operation, the theorems
   of (a) and (b) apply, and after the same 20 service calls the fault flag is still down under
   the schedules of run 1 and already raised under those of run 2 *)
Local Notation nF x n :=
  (srunO nD (sinit nD [[5%N]] x (mkSmu [] []) n_script)
         ([OTrigger 1 T_READ; OTrigger 7 T_READ] ++ repeat OService n)).
Example C12n_ex_fault_outside_domain :
  forallb (vn_op nD) ([OTrigger 1 T_READ; OTrigger 7 T_READ] ++ repeat OService 20) = true /\
  fault (st (nF n_x1 20)) = false /\ fault (st (nF n_x2 20)) = true /\
  fault (st (nF n_x1 40)) = true /\ fault (st (nF n_x2 40)) = true.
Proof. vm_compute. repeat split. Qed.

(* ring_wf is needed in a3: a queue whose tail index is wrong (not reachable from cat_init) with
   a stale slot naming the non-quiet command 0; the trigger of the quiet command 1 makes the
   stale slot the head item *)
Definition n_bad : state :=
  setu_tail 1 (setu_ring [(0, T_READ); (0, T_READ)] (init_state nD [[5%N]])).
Example C12n_ex_ring_wf_necessary :
  invE nD n_bad = true /\ quiet_ci nD 1 = true /\
  invE nD (fst (push_unsolicited_cmd nD n_bad 1 T_READ)) = false /\
  ring_items nD (fst (push_unsolicited_cmd nD n_bad 1 T_READ)) = [(0, T_READ)] /\
  u_tail (u n_bad) <> (u_head (u n_bad) + u_count (u n_bad)) mod d_cap nD.
Proof. vm_compute. repeat split. discriminate. Qed.

(* a flag store is not neutral: it changes the view (and the chain from there on: "+V" disabled
   before the second line is looked up answers ERROR) *)
Example C12n_ex_setter_changes_view :
  let w := nW1 0 in
  neutral_op (OSetCmdDisable 1 true) = false /\
  cview (sstep nD w (OSetCmdDisable 1 true)) <> cview w /\
  cview (sstep nD w (OSetCmdDisable 1 true)) = vact nD (OSetCmdDisable 1 true) (cview w) /\
  dis_cmd (st (sstep nD w (OSetCmdDisable 1 true))) = [false; true].
Proof.
  cbv zeta. split; [reflexivity|]. split; [|split; [|vm_compute; reflexivity]].
  - intros H. apply (f_equal (fun v : cviewT => dis_cmd (fst (fst (fst (fst v)))))) in H.
    vm_compute in H. discriminate H.
  - apply C12_nonservice_view; [reflexivity | discriminate].
Qed.
