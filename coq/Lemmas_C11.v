(* Lemmas_C11.v — property C11: the output byte stream is a concatenation of complete units
   (newline ++ text ++ newline, or the bare text for a command-list line), each emitted by exactly
   one producer, under all patterns of write refusals and all interleavings of the two machines.
   All the work is here; the final statements are restated in Properties_C11.v. *)
From Coq Require Import List NArith ZArith Bool Arith Lia.
From CatV Require Import Bytes Defs Codec Fsm ResolveDefs TextDefs.
Import ListNotations.
Local Open Scope nat_scope.

(* ================================================================== *)
(* 0. texts                                                            *)
(* ================================================================== *)

Definition nl_text (cr : bool) : list N := if cr then [ch_CR; ch_LF] else [ch_LF].

(* the NUL-terminated C string selected by the write-buffer pointer *)
Definition wb_text (wb : wbuf) (main : list N) : list N :=
  match wb with WB_NL cr => nl_text cr ++ [0%N] | WB_MAIN => main end.

(* bytes the CURRENT phase still has to send: from the cursor to the NUL of the selected text *)
Definition phase_rest (wb : wbuf) (main : list N) (pos : nat) : list N :=
  text_of (skipn pos (wb_text wb main)).

Lemma wbuf_char_nth : forall wb main p, wbuf_char wb main p = nth_error (wb_text wb main) p.
Proof. intros [[|]|] main p; reflexivity. Qed.

Lemma text_of_nl : forall cr, text_of (nl_text cr ++ [0%N]) = nl_text cr.
Proof. intros [|]; reflexivity. Qed.

Lemma In0_nl : forall cr, In 0%N (nl_text cr ++ [0%N]).
Proof. intros [|]; cbn; auto. Qed.

Lemma text_of_cons_inv : forall p l ch rest, text_of (skipn p l) = ch :: rest ->
  nth_error l p = Some ch /\ ch <> 0%N /\ text_of (skipn (S p) l) = rest.
Proof.
  induction p as [|p IH]; intros l ch rest H.
  - destruct l as [|c r]; cbn [skipn text_of] in H; [discriminate|].
    destruct (c =? 0)%N eqn:E; [discriminate|]. inversion H; subst.
    apply N.eqb_neq in E. cbn [nth_error skipn]. auto.
  - destruct l as [|c r]; [cbn in H; discriminate|].
    cbn [skipn] in H. apply IH in H. cbn [nth_error]. exact H.
Qed.

Lemma text_of_nil_inv : forall p l c, text_of (skipn p l) = [] -> nth_error l p = Some c -> c = 0%N.
Proof.
  induction p as [|p IH]; intros l c H Hn.
  - destruct l as [|c0 r]; cbn [nth_error] in Hn; [discriminate|]. inversion Hn; subst.
    cbn [skipn text_of] in H. destruct (c =? 0)%N eqn:E; [|discriminate]. apply N.eqb_eq. exact E.
  - destruct l as [|c0 r]; cbn [nth_error] in Hn; [discriminate|]. cbn [skipn] in H. eauto.
Qed.

Lemma text_of_zero_nil : forall p l, nth_error l p = Some 0%N -> text_of (skipn p l) = [].
Proof.
  induction p as [|p IH]; intros l H; destruct l as [|c r]; cbn [nth_error] in H; try discriminate.
  - inversion H; subst. reflexivity.
  - cbn [skipn]. auto.
Qed.

(* a terminated buffer: the NUL sits right after the text *)
Lemma nth_text_end : forall l, In 0%N l -> nth_error l (length (text_of l)) = Some 0%N.
Proof.
  induction l as [|c r IH]; intros H; [destruct H|].
  cbn [text_of]. destruct (c =? 0)%N eqn:E.
  - apply N.eqb_eq in E. subst. reflexivity.
  - cbn [length nth_error]. apply IH. destruct H as [H|H]; [|exact H].
    subst. discriminate.
Qed.

Lemma skipn_text_end : forall l, In 0%N l -> In 0%N (skipn (length (text_of l)) l).
Proof.
  induction l as [|c r IH]; intros H; [destruct H|].
  cbn [text_of]. destruct (c =? 0)%N eqn:E.
  - apply N.eqb_eq in E. subst. cbn. auto.
  - cbn [length skipn]. apply IH. destruct H as [H|H]; [|exact H]. subst. discriminate.
Qed.

(* ================================================================== *)
(* 1. the accepting step of each flush engine, as a function on states  *)
(* ================================================================== *)

(* what process_io_write does at the terminating NUL of the current text *)
Definition phase_switch_c (s : state) : state :=
  match k_wstate (k s) with
  | WS_BEFORE => s |> setk_position 0 |> setk_wbuf WB_MAIN |> setk_wstate WS_MAIN
  | WS_MAIN => s |> setk_position 0 |> setk_wbuf (WB_NL (k_cr (k s))) |> setk_wstate WS_AFTER
  | WS_AFTER =>
    let s1 := setk_state (k_wafter (k s)) s in
    if cstate_beq (k_wafter (k s)) CS_AFTER_RESET then set_gR (S (gR s1)) s1 else s1
  end.

Definition phase_switch_u (s : state) : state :=
  match u_wstate (u s) with
  | WS_BEFORE => s |> setu_position 0 |> setu_wbuf WB_MAIN |> setu_wstate WS_MAIN
  | WS_MAIN => s |> setu_position 0 |> setu_wbuf (WB_NL (k_cr (k s))) |> setu_wstate WS_AFTER
  | WS_AFTER => setu_state (u_wafter (u s)) s
  end.

(* one step of the flush engine when the write (if any) is accepted; the emitted byte *)
Definition flush_step_c (s : state) : state * option N :=
  match wbuf_char (k_wbuf (k s)) (cbuf s) (k_position (k s)) with
  | None => (set_fault_flag s, None)
  | Some ch => if (ch =? 0)%N then (phase_switch_c s, None)
               else (setk_position (S (k_position (k s))) s, Some ch)
  end.

Definition flush_step_u (s : state) : state * option N :=
  match wbuf_char (u_wbuf (u s)) (ubuf s) (u_position (u s)) with
  | None => (set_fault_flag s, None)
  | Some ch => if (ch =? 0)%N then (phase_switch_u s, None)
               else (setu_position (S (u_position (u s))) s, Some ch)
  end.

(* n accepted steps, collecting the emitted bytes *)
Fixpoint run_flush_c (n : nat) (s : state) : state * list N :=
  match n with
  | O => (s, [])
  | S n' =>
    let (s1, o) := flush_step_c s in
    let (s2, out) := run_flush_c n' s1 in
    (s2, match o with Some c => c :: out | None => out end)
  end.

Fixpoint run_flush_u (n : nat) (s : state) : state * list N :=
  match n with
  | O => (s, [])
  | S n' =>
    let (s1, o) := flush_step_u s in
    let (s2, out) := run_flush_u n' s1 in
    (s2, match o with Some c => c :: out | None => out end)
  end.

Lemma run_flush_c_app : forall a b s,
  run_flush_c (a + b) s =
  let (s1, o1) := run_flush_c a s in let (s2, o2) := run_flush_c b s1 in (s2, o1 ++ o2).
Proof.
  induction a as [|a IH]; intros b s.
  - cbn [plus run_flush_c]. destruct (run_flush_c b s). reflexivity.
  - cbn [plus run_flush_c]. destruct (flush_step_c s) as [s1 o]. rewrite IH.
    destruct (run_flush_c a s1) as [s2 o1]. destruct (run_flush_c b s2) as [s3 o2].
    destruct o; reflexivity.
Qed.

Lemma run_flush_u_app : forall a b s,
  run_flush_u (a + b) s =
  let (s1, o1) := run_flush_u a s in let (s2, o2) := run_flush_u b s1 in (s2, o1 ++ o2).
Proof.
  induction a as [|a IH]; intros b s.
  - cbn [plus run_flush_u]. destruct (run_flush_u b s). reflexivity.
  - cbn [plus run_flush_u]. destruct (flush_step_u s) as [s1 o]. rewrite IH.
    destruct (run_flush_u a s1) as [s2 o1]. destruct (run_flush_u b s2) as [s3 o2].
    destruct o; reflexivity.
Qed.

Lemma setk_position_id : forall s, setk_position (k_position (k s)) s = s.
Proof. intros [[] ? ? ? ? ? ? ? ? ? ?]. reflexivity. Qed.
Lemma setu_position_id : forall s, setu_position (u_position (u s)) s = s.
Proof. intros [? [] ? ? ? ? ? ? ? ? ?]. reflexivity. Qed.

(* m bytes of the current text, m <= what remains: only the cursor moves *)
Lemma run_flush_c_text : forall m s, m <= length (phase_rest (k_wbuf (k s)) (cbuf s) (k_position (k s))) ->
  run_flush_c m s = (setk_position (k_position (k s) + m) s,
                     firstn m (phase_rest (k_wbuf (k s)) (cbuf s) (k_position (k s)))).
Proof.
  induction m as [|m IH]; intros s H.
  - cbn [run_flush_c firstn]. rewrite Nat.add_0_r, setk_position_id. reflexivity.
  - destruct (phase_rest (k_wbuf (k s)) (cbuf s) (k_position (k s))) as [|ch rest] eqn:E;
      [cbn in H; lia|].
    unfold phase_rest in E. apply text_of_cons_inv in E. destruct E as (E1 & E2 & E3).
    cbn [run_flush_c]. unfold flush_step_c at 1. rewrite wbuf_char_nth, E1.
    apply N.eqb_neq in E2. rewrite E2.
    specialize (IH (setk_position (S (k_position (k s))) s)).
    cbn [setk_position set_k set_k_position k k_wbuf cbuf k_position] in IH.
    fold (phase_rest (k_wbuf (k s)) (cbuf s) (S (k_position (k s)))) in E3.
    rewrite E3 in IH. cbn [length] in H. rewrite IH by lia.
    cbn [firstn]. f_equal. unfold setk_position, set_k, set_k_position. cbn [k u cbuf ubuf mem dis_cmd dis_grp fault gL gS gR
      k_index k_partial k_length k_position k_write_size k_cmd k_var k_type k_char k_state k_cr k_hold k_hold_exit k_wbuf k_wstate k_wafter k_implicit].
    rewrite Nat.add_succ_r. reflexivity.
Qed.

Lemma run_flush_u_text : forall m s, m <= length (phase_rest (u_wbuf (u s)) (ubuf s) (u_position (u s))) ->
  run_flush_u m s = (setu_position (u_position (u s) + m) s,
                     firstn m (phase_rest (u_wbuf (u s)) (ubuf s) (u_position (u s)))).
Proof.
  induction m as [|m IH]; intros s H.
  - cbn [run_flush_u firstn]. rewrite Nat.add_0_r, setu_position_id. reflexivity.
  - destruct (phase_rest (u_wbuf (u s)) (ubuf s) (u_position (u s))) as [|ch rest] eqn:E;
      [cbn in H; lia|].
    unfold phase_rest in E. apply text_of_cons_inv in E. destruct E as (E1 & E2 & E3).
    cbn [run_flush_u]. unfold flush_step_u at 1. rewrite wbuf_char_nth, E1.
    apply N.eqb_neq in E2. rewrite E2.
    specialize (IH (setu_position (S (u_position (u s))) s)).
    cbn [setu_position set_u set_u_position u u_wbuf ubuf u_position] in IH.
    fold (phase_rest (u_wbuf (u s)) (ubuf s) (S (u_position (u s)))) in E3.
    rewrite E3 in IH. cbn [length] in H. rewrite IH by lia.
    cbn [firstn]. f_equal. unfold setu_position, set_u, set_u_position. cbn [k u cbuf ubuf mem dis_cmd dis_grp fault gL gS gR
      u_state u_index u_position u_cmd u_var u_type u_wbuf u_wstate u_wafter u_ring u_tail u_head u_count].
    rewrite Nat.add_succ_r. reflexivity.
Qed.

Ltac scbn :=
  cbn [k u cbuf ubuf mem dis_cmd dis_grp fault gL gS gR
       k_index k_partial k_length k_position k_write_size k_cmd k_var k_type k_char k_state k_cr
       k_hold k_hold_exit k_wbuf k_wstate k_wafter k_implicit
       u_state u_index u_position u_cmd u_var u_type u_wbuf u_wstate u_wafter u_ring u_tail u_head u_count
       set_k set_u set_cbuf set_ubuf set_mem set_dis_cmd set_dis_grp set_fault set_gL set_gS set_gR
       set_k_index set_k_partial set_k_length set_k_position set_k_write_size set_k_cmd set_k_var
       set_k_type set_k_char set_k_state set_k_cr set_k_hold set_k_hold_exit set_k_wbuf set_k_wstate
       set_k_wafter set_k_implicit
       set_u_state set_u_index set_u_position set_u_cmd set_u_var set_u_type set_u_wbuf set_u_wstate
       set_u_wafter set_u_ring set_u_tail set_u_head set_u_count
       setk_index setk_partial setk_length setk_position setk_write_size setk_cmd setk_var setk_type
       setk_char setk_state setk_cr setk_hold setk_hold_exit setk_wbuf setk_wstate setk_wafter
       setk_implicit
       setu_state setu_index setu_position setu_cmd setu_var setu_type setu_wbuf setu_wstate
       setu_wafter setu_ring setu_tail setu_head setu_count
       set_fault_flag g_pos setg_pos g_buf setg_buf g_cmd g_var setg_var g_index setg_index
       fst snd].
Ltac scbn_in H :=
  cbn [k u cbuf ubuf mem dis_cmd dis_grp fault gL gS gR
       k_index k_partial k_length k_position k_write_size k_cmd k_var k_type k_char k_state k_cr
       k_hold k_hold_exit k_wbuf k_wstate k_wafter k_implicit
       u_state u_index u_position u_cmd u_var u_type u_wbuf u_wstate u_wafter u_ring u_tail u_head u_count
       set_k set_u set_cbuf set_ubuf set_mem set_dis_cmd set_dis_grp set_fault set_gL set_gS set_gR
       set_k_index set_k_partial set_k_length set_k_position set_k_write_size set_k_cmd set_k_var
       set_k_type set_k_char set_k_state set_k_cr set_k_hold set_k_hold_exit set_k_wbuf set_k_wstate
       set_k_wafter set_k_implicit
       set_u_state set_u_index set_u_position set_u_cmd set_u_var set_u_type set_u_wbuf set_u_wstate
       set_u_wafter set_u_ring set_u_tail set_u_head set_u_count
       setk_index setk_partial setk_length setk_position setk_write_size setk_cmd setk_var setk_type
       setk_char setk_state setk_cr setk_hold setk_hold_exit setk_wbuf setk_wstate setk_wafter
       setk_implicit
       setu_state setu_index setu_position setu_cmd setu_var setu_type setu_wbuf setu_wstate
       setu_wafter setu_ring setu_tail setu_head setu_count
       set_fault_flag g_pos setg_pos g_buf setg_buf g_cmd g_var setg_var g_index setg_index
       fst snd] in H.

(* a whole phase from a fresh cursor: the text, then the switch at its NUL *)
Lemma run_flush_c_phase : forall s, k_position (k s) = 0 ->
  In 0%N (wb_text (k_wbuf (k s)) (cbuf s)) ->
  run_flush_c (S (length (text_of (wb_text (k_wbuf (k s)) (cbuf s))))) s =
  (phase_switch_c (setk_position (length (text_of (wb_text (k_wbuf (k s)) (cbuf s)))) s),
   text_of (wb_text (k_wbuf (k s)) (cbuf s))).
Proof.
  intros s Hp H0. set (T := text_of (wb_text (k_wbuf (k s)) (cbuf s))).
  replace (S (length T)) with (length T + 1) by lia. rewrite run_flush_c_app.
  assert (E : phase_rest (k_wbuf (k s)) (cbuf s) (k_position (k s)) = T).
  { unfold phase_rest. rewrite Hp. reflexivity. }
  rewrite run_flush_c_text by (rewrite E; lia). rewrite E, Hp, firstn_all. cbn [plus].
  cbn [run_flush_c]. unfold flush_step_c. scbn.
  rewrite wbuf_char_nth. unfold T. rewrite nth_text_end by exact H0.
  cbn [N.eqb]. rewrite app_nil_r. reflexivity.
Qed.

Lemma run_flush_u_phase : forall s, u_position (u s) = 0 ->
  In 0%N (wb_text (u_wbuf (u s)) (ubuf s)) ->
  run_flush_u (S (length (text_of (wb_text (u_wbuf (u s)) (ubuf s))))) s =
  (phase_switch_u (setu_position (length (text_of (wb_text (u_wbuf (u s)) (ubuf s)))) s),
   text_of (wb_text (u_wbuf (u s)) (ubuf s))).
Proof.
  intros s Hp H0. set (T := text_of (wb_text (u_wbuf (u s)) (ubuf s))).
  replace (S (length T)) with (length T + 1) by lia. rewrite run_flush_u_app.
  assert (E : phase_rest (u_wbuf (u s)) (ubuf s) (u_position (u s)) = T).
  { unfold phase_rest. rewrite Hp. reflexivity. }
  rewrite run_flush_u_text by (rewrite E; lia). rewrite E, Hp, firstn_all. cbn [plus].
  cbn [run_flush_u]. unfold flush_step_u. scbn.
  rewrite wbuf_char_nth. unfold T. rewrite nth_text_end by exact H0.
  cbn [N.eqb]. rewrite app_nil_r. reflexivity.
Qed.

(* inside a phase the machine's state field does not move *)
Lemma run_flush_c_text_state : forall m s,
  m <= length (phase_rest (k_wbuf (k s)) (cbuf s) (k_position (k s))) ->
  k_state (k (fst (run_flush_c m s))) = k_state (k s).
Proof. intros m s H. rewrite run_flush_c_text by exact H. reflexivity. Qed.
Lemma run_flush_u_text_state : forall m s,
  m <= length (phase_rest (u_wbuf (u s)) (ubuf s) (u_position (u s))) ->
  u_state (u (fst (run_flush_u m s))) = u_state (u s).
Proof. intros m s H. rewrite run_flush_u_text by exact H. reflexivity. Qed.
