(* Lemmas_C11.v — property C11: the output byte stream is a concatenation of complete units
   (newline ++ text ++ newline, or the bare text for a command-list line), each emitted by exactly
   one producer, under all patterns of write refusals and all interleavings of the two machines.
   All the work is here; the final statements are restated in Properties_C11.v. *)
From Coq Require Import List NArith ZArith Bool Arith Lia.
From CatV Require Import Bytes Defs Codec Fsm ResolveDefs TextDefs.
Import ListNotations.
Local Open Scope nat_scope.

(* ================================================================== *)
(* 0. texts                                                            *)
(* ================================================================== *)

Definition nl_text (cr : bool) : list N := if cr then [ch_CR; ch_LF] else [ch_LF].

(* the NUL-terminated C string selected by the write-buffer pointer *)
Definition wb_text (wb : wbuf) (main : list N) : list N :=
  match wb with WB_NL cr => nl_text cr ++ [0%N] | WB_MAIN => main end.

(* bytes the CURRENT phase still has to send: from the cursor to the NUL of the selected text *)
Definition phase_rest (wb : wbuf) (main : list N) (pos : nat) : list N :=
  text_of (skipn pos (wb_text wb main)).

Lemma wbuf_char_nth : forall wb main p, wbuf_char wb main p = nth_error (wb_text wb main) p.
Proof. intros [[|]|] main p; reflexivity. Qed.

Lemma text_of_nl : forall cr, text_of (nl_text cr ++ [0%N]) = nl_text cr.
Proof. intros [|]; reflexivity. Qed.

Lemma In0_nl : forall cr, In 0%N (nl_text cr ++ [0%N]).
Proof. intros [|]; cbn; auto. Qed.

Lemma text_of_cons_inv : forall p l ch rest, text_of (skipn p l) = ch :: rest ->
  nth_error l p = Some ch /\ ch <> 0%N /\ text_of (skipn (S p) l) = rest.
Proof.
  induction p as [|p IH]; intros l ch rest H.
  - destruct l as [|c r]; cbn [skipn text_of] in H; [discriminate|].
    destruct (c =? 0)%N eqn:E; [discriminate|]. inversion H; subst.
    apply N.eqb_neq in E. cbn [nth_error skipn]. auto.
  - destruct l as [|c r]; [cbn in H; discriminate|].
    cbn [skipn] in H. apply IH in H. cbn [nth_error]. exact H.
Qed.

Lemma text_of_nil_inv : forall p l c, text_of (skipn p l) = [] -> nth_error l p = Some c -> c = 0%N.
Proof.
  induction p as [|p IH]; intros l c H Hn.
  - destruct l as [|c0 r]; cbn [nth_error] in Hn; [discriminate|]. inversion Hn; subst.
    cbn [skipn text_of] in H. destruct (c =? 0)%N eqn:E; [|discriminate]. apply N.eqb_eq. exact E.
  - destruct l as [|c0 r]; cbn [nth_error] in Hn; [discriminate|]. cbn [skipn] in H. eauto.
Qed.

Lemma text_of_zero_nil : forall p l, nth_error l p = Some 0%N -> text_of (skipn p l) = [].
Proof.
  induction p as [|p IH]; intros l H; destruct l as [|c r]; cbn [nth_error] in H; try discriminate.
  - inversion H; subst. reflexivity.
  - cbn [skipn]. auto.
Qed.

(* a terminated buffer: the NUL sits right after the text *)
Lemma nth_text_end : forall l, In 0%N l -> nth_error l (length (text_of l)) = Some 0%N.
Proof.
  induction l as [|c r IH]; intros H; [destruct H|].
  cbn [text_of]. destruct (c =? 0)%N eqn:E.
  - apply N.eqb_eq in E. subst. reflexivity.
  - cbn [length nth_error]. apply IH. destruct H as [H|H]; [|exact H].
    subst. discriminate.
Qed.

Lemma skipn_text_end : forall l, In 0%N l -> In 0%N (skipn (length (text_of l)) l).
Proof.
  induction l as [|c r IH]; intros H; [destruct H|].
  cbn [text_of]. destruct (c =? 0)%N eqn:E.
  - apply N.eqb_eq in E. subst. cbn. auto.
  - cbn [length skipn]. apply IH. destruct H as [H|H]; [|exact H]. subst. discriminate.
Qed.

(* ================================================================== *)
(* 1. the accepting step of each flush engine, as a function on states  *)
(* ================================================================== *)

(* what process_io_write does at the terminating NUL of the current text *)
Definition phase_switch_c (s : state) : state :=
  match k_wstate (k s) with
  | WS_BEFORE => s |> setk_position 0 |> setk_wbuf WB_MAIN |> setk_wstate WS_MAIN
  | WS_MAIN => s |> setk_position 0 |> setk_wbuf (WB_NL (k_cr (k s))) |> setk_wstate WS_AFTER
  | WS_AFTER =>
    let s1 := setk_state (k_wafter (k s)) s in
    if cstate_beq (k_wafter (k s)) CS_AFTER_RESET then set_gR (S (gR s1)) s1 else s1
  end.

Definition phase_switch_u (s : state) : state :=
  match u_wstate (u s) with
  | WS_BEFORE => s |> setu_position 0 |> setu_wbuf WB_MAIN |> setu_wstate WS_MAIN
  | WS_MAIN => s |> setu_position 0 |> setu_wbuf (WB_NL (k_cr (k s))) |> setu_wstate WS_AFTER
  | WS_AFTER => setu_state (u_wafter (u s)) s
  end.

(* one step of the flush engine when the write (if any) is accepted; the emitted byte *)
Definition flush_step_c (s : state) : state * option N :=
  match wbuf_char (k_wbuf (k s)) (cbuf s) (k_position (k s)) with
  | None => (set_fault_flag s, None)
  | Some ch => if (ch =? 0)%N then (phase_switch_c s, None)
               else (setk_position (S (k_position (k s))) s, Some ch)
  end.

Definition flush_step_u (s : state) : state * option N :=
  match wbuf_char (u_wbuf (u s)) (ubuf s) (u_position (u s)) with
  | None => (set_fault_flag s, None)
  | Some ch => if (ch =? 0)%N then (phase_switch_u s, None)
               else (setu_position (S (u_position (u s))) s, Some ch)
  end.

(* n accepted steps, collecting the emitted bytes *)
Fixpoint run_flush_c (n : nat) (s : state) : state * list N :=
  match n with
  | O => (s, [])
  | S n' =>
    let (s1, o) := flush_step_c s in
    let (s2, out) := run_flush_c n' s1 in
    (s2, match o with Some c => c :: out | None => out end)
  end.

Fixpoint run_flush_u (n : nat) (s : state) : state * list N :=
  match n with
  | O => (s, [])
  | S n' =>
    let (s1, o) := flush_step_u s in
    let (s2, out) := run_flush_u n' s1 in
    (s2, match o with Some c => c :: out | None => out end)
  end.

Lemma run_flush_c_app : forall a b s,
  run_flush_c (a + b) s =
  let (s1, o1) := run_flush_c a s in let (s2, o2) := run_flush_c b s1 in (s2, o1 ++ o2).
Proof.
  induction a as [|a IH]; intros b s.
  - cbn [plus run_flush_c]. destruct (run_flush_c b s). reflexivity.
  - cbn [plus run_flush_c]. destruct (flush_step_c s) as [s1 o]. rewrite IH.
    destruct (run_flush_c a s1) as [s2 o1]. destruct (run_flush_c b s2) as [s3 o2].
    destruct o; reflexivity.
Qed.

Lemma run_flush_u_app : forall a b s,
  run_flush_u (a + b) s =
  let (s1, o1) := run_flush_u a s in let (s2, o2) := run_flush_u b s1 in (s2, o1 ++ o2).
Proof.
  induction a as [|a IH]; intros b s.
  - cbn [plus run_flush_u]. destruct (run_flush_u b s). reflexivity.
  - cbn [plus run_flush_u]. destruct (flush_step_u s) as [s1 o]. rewrite IH.
    destruct (run_flush_u a s1) as [s2 o1]. destruct (run_flush_u b s2) as [s3 o2].
    destruct o; reflexivity.
Qed.

Lemma setk_position_id : forall s, setk_position (k_position (k s)) s = s.
Proof. intros [[] ? ? ? ? ? ? ? ? ? ?]. reflexivity. Qed.
Lemma setu_position_id : forall s, setu_position (u_position (u s)) s = s.
Proof. intros [? [] ? ? ? ? ? ? ? ? ?]. reflexivity. Qed.

(* m bytes of the current text, m <= what remains: only the cursor moves *)
Lemma run_flush_c_text : forall m s, m <= length (phase_rest (k_wbuf (k s)) (cbuf s) (k_position (k s))) ->
  run_flush_c m s = (setk_position (k_position (k s) + m) s,
                     firstn m (phase_rest (k_wbuf (k s)) (cbuf s) (k_position (k s)))).
Proof.
  induction m as [|m IH]; intros s H.
  - cbn [run_flush_c firstn]. rewrite Nat.add_0_r, setk_position_id. reflexivity.
  - destruct (phase_rest (k_wbuf (k s)) (cbuf s) (k_position (k s))) as [|ch rest] eqn:E;
      [cbn in H; lia|].
    unfold phase_rest in E. apply text_of_cons_inv in E. destruct E as (E1 & E2 & E3).
    cbn [run_flush_c]. unfold flush_step_c at 1. rewrite wbuf_char_nth, E1.
    apply N.eqb_neq in E2. rewrite E2.
    specialize (IH (setk_position (S (k_position (k s))) s)).
    cbn [setk_position set_k set_k_position k k_wbuf cbuf k_position] in IH.
    fold (phase_rest (k_wbuf (k s)) (cbuf s) (S (k_position (k s)))) in E3.
    rewrite E3 in IH. cbn [length] in H. rewrite IH by lia.
    cbn [firstn]. f_equal. unfold setk_position, set_k, set_k_position. cbn [k u cbuf ubuf mem dis_cmd dis_grp fault gL gS gR
      k_index k_partial k_length k_position k_write_size k_cmd k_var k_type k_char k_state k_cr k_hold k_hold_exit k_wbuf k_wstate k_wafter k_implicit].
    rewrite Nat.add_succ_r. reflexivity.
Qed.

Lemma run_flush_u_text : forall m s, m <= length (phase_rest (u_wbuf (u s)) (ubuf s) (u_position (u s))) ->
  run_flush_u m s = (setu_position (u_position (u s) + m) s,
                     firstn m (phase_rest (u_wbuf (u s)) (ubuf s) (u_position (u s)))).
Proof.
  induction m as [|m IH]; intros s H.
  - cbn [run_flush_u firstn]. rewrite Nat.add_0_r, setu_position_id. reflexivity.
  - destruct (phase_rest (u_wbuf (u s)) (ubuf s) (u_position (u s))) as [|ch rest] eqn:E;
      [cbn in H; lia|].
    unfold phase_rest in E. apply text_of_cons_inv in E. destruct E as (E1 & E2 & E3).
    cbn [run_flush_u]. unfold flush_step_u at 1. rewrite wbuf_char_nth, E1.
    apply N.eqb_neq in E2. rewrite E2.
    specialize (IH (setu_position (S (u_position (u s))) s)).
    cbn [setu_position set_u set_u_position u u_wbuf ubuf u_position] in IH.
    fold (phase_rest (u_wbuf (u s)) (ubuf s) (S (u_position (u s)))) in E3.
    rewrite E3 in IH. cbn [length] in H. rewrite IH by lia.
    cbn [firstn]. f_equal. unfold setu_position, set_u, set_u_position. cbn [k u cbuf ubuf mem dis_cmd dis_grp fault gL gS gR
      u_state u_index u_position u_cmd u_var u_type u_wbuf u_wstate u_wafter u_ring u_tail u_head u_count].
    rewrite Nat.add_succ_r. reflexivity.
Qed.

Ltac scbn :=
  cbn [k u cbuf ubuf mem dis_cmd dis_grp fault gL gS gR
       k_index k_partial k_length k_position k_write_size k_cmd k_var k_type k_char k_state k_cr
       k_hold k_hold_exit k_wbuf k_wstate k_wafter k_implicit
       u_state u_index u_position u_cmd u_var u_type u_wbuf u_wstate u_wafter u_ring u_tail u_head u_count
       set_k set_u set_cbuf set_ubuf set_mem set_dis_cmd set_dis_grp set_fault set_gL set_gS set_gR
       set_k_index set_k_partial set_k_length set_k_position set_k_write_size set_k_cmd set_k_var
       set_k_type set_k_char set_k_state set_k_cr set_k_hold set_k_hold_exit set_k_wbuf set_k_wstate
       set_k_wafter set_k_implicit
       set_u_state set_u_index set_u_position set_u_cmd set_u_var set_u_type set_u_wbuf set_u_wstate
       set_u_wafter set_u_ring set_u_tail set_u_head set_u_count
       setk_index setk_partial setk_length setk_position setk_write_size setk_cmd setk_var setk_type
       setk_char setk_state setk_cr setk_hold setk_hold_exit setk_wbuf setk_wstate setk_wafter
       setk_implicit
       setu_state setu_index setu_position setu_cmd setu_var setu_type setu_wbuf setu_wstate
       setu_wafter setu_ring setu_tail setu_head setu_count
       set_fault_flag g_pos setg_pos g_buf setg_buf g_cmd g_var setg_var g_index setg_index
       fst snd].
Ltac scbn_in H :=
  cbn [k u cbuf ubuf mem dis_cmd dis_grp fault gL gS gR
       k_index k_partial k_length k_position k_write_size k_cmd k_var k_type k_char k_state k_cr
       k_hold k_hold_exit k_wbuf k_wstate k_wafter k_implicit
       u_state u_index u_position u_cmd u_var u_type u_wbuf u_wstate u_wafter u_ring u_tail u_head u_count
       set_k set_u set_cbuf set_ubuf set_mem set_dis_cmd set_dis_grp set_fault set_gL set_gS set_gR
       set_k_index set_k_partial set_k_length set_k_position set_k_write_size set_k_cmd set_k_var
       set_k_type set_k_char set_k_state set_k_cr set_k_hold set_k_hold_exit set_k_wbuf set_k_wstate
       set_k_wafter set_k_implicit
       set_u_state set_u_index set_u_position set_u_cmd set_u_var set_u_type set_u_wbuf set_u_wstate
       set_u_wafter set_u_ring set_u_tail set_u_head set_u_count
       setk_index setk_partial setk_length setk_position setk_write_size setk_cmd setk_var setk_type
       setk_char setk_state setk_cr setk_hold setk_hold_exit setk_wbuf setk_wstate setk_wafter
       setk_implicit
       setu_state setu_index setu_position setu_cmd setu_var setu_type setu_wbuf setu_wstate
       setu_wafter setu_ring setu_tail setu_head setu_count
       set_fault_flag g_pos setg_pos g_buf setg_buf g_cmd g_var setg_var g_index setg_index
       fst snd] in H.

(* a whole phase from a fresh cursor: the text, then the switch at its NUL *)
Lemma run_flush_c_phase : forall s, k_position (k s) = 0 ->
  In 0%N (wb_text (k_wbuf (k s)) (cbuf s)) ->
  run_flush_c (S (length (text_of (wb_text (k_wbuf (k s)) (cbuf s))))) s =
  (phase_switch_c (setk_position (length (text_of (wb_text (k_wbuf (k s)) (cbuf s)))) s),
   text_of (wb_text (k_wbuf (k s)) (cbuf s))).
Proof.
  intros s Hp H0. set (T := text_of (wb_text (k_wbuf (k s)) (cbuf s))).
  replace (S (length T)) with (length T + 1) by lia. rewrite run_flush_c_app.
  assert (E : phase_rest (k_wbuf (k s)) (cbuf s) (k_position (k s)) = T).
  { unfold phase_rest. rewrite Hp. reflexivity. }
  rewrite run_flush_c_text by (rewrite E; lia). rewrite E, Hp, firstn_all. cbn [plus].
  cbn [run_flush_c]. unfold flush_step_c. scbn.
  rewrite wbuf_char_nth. unfold T. rewrite nth_text_end by exact H0.
  cbn [N.eqb]. rewrite app_nil_r. reflexivity.
Qed.

Lemma run_flush_u_phase : forall s, u_position (u s) = 0 ->
  In 0%N (wb_text (u_wbuf (u s)) (ubuf s)) ->
  run_flush_u (S (length (text_of (wb_text (u_wbuf (u s)) (ubuf s))))) s =
  (phase_switch_u (setu_position (length (text_of (wb_text (u_wbuf (u s)) (ubuf s)))) s),
   text_of (wb_text (u_wbuf (u s)) (ubuf s))).
Proof.
  intros s Hp H0. set (T := text_of (wb_text (u_wbuf (u s)) (ubuf s))).
  replace (S (length T)) with (length T + 1) by lia. rewrite run_flush_u_app.
  assert (E : phase_rest (u_wbuf (u s)) (ubuf s) (u_position (u s)) = T).
  { unfold phase_rest. rewrite Hp. reflexivity. }
  rewrite run_flush_u_text by (rewrite E; lia). rewrite E, Hp, firstn_all. cbn [plus].
  cbn [run_flush_u]. unfold flush_step_u. scbn.
  rewrite wbuf_char_nth. unfold T. rewrite nth_text_end by exact H0.
  cbn [N.eqb]. rewrite app_nil_r. reflexivity.
Qed.

(* inside a phase the machine's state field does not move *)
Lemma run_flush_c_text_state : forall m s,
  m <= length (phase_rest (k_wbuf (k s)) (cbuf s) (k_position (k s))) ->
  k_state (k (fst (run_flush_c m s))) = k_state (k s).
Proof. intros m s H. rewrite run_flush_c_text by exact H. reflexivity. Qed.
Lemma run_flush_u_text_state : forall m s,
  m <= length (phase_rest (u_wbuf (u s)) (ubuf s) (u_position (u s))) ->
  u_state (u (fst (run_flush_u m s))) = u_state (u s).
Proof. intros m s H. rewrite run_flush_u_text by exact H. reflexivity. Qed.

(* ================================================================== *)
(* 2. a whole unit, by pure iteration                                   *)
(* ================================================================== *)

Lemma fst_run_flush_c_app : forall a b s,
  fst (run_flush_c (a + b) s) = fst (run_flush_c b (fst (run_flush_c a s))).
Proof.
  intros. rewrite run_flush_c_app. destruct (run_flush_c a s) as [s1 o1]. cbn [fst].
  destruct (run_flush_c b s1). reflexivity.
Qed.

Lemma phase_c_before : forall s txt, k_position (k s) = 0 -> k_wstate (k s) = WS_BEFORE ->
  In 0%N (wb_text (k_wbuf (k s)) (cbuf s)) -> text_of (wb_text (k_wbuf (k s)) (cbuf s)) = txt ->
  run_flush_c (S (length txt)) s =
  (s |> setk_position (length txt) |> setk_position 0 |> setk_wbuf WB_MAIN |> setk_wstate WS_MAIN, txt).
Proof.
  intros s txt Hp Hw H0 Ht. subst txt. rewrite run_flush_c_phase by assumption.
  unfold phase_switch_c. scbn. rewrite Hw. reflexivity.
Qed.

Lemma phase_c_main : forall s txt, k_position (k s) = 0 -> k_wstate (k s) = WS_MAIN ->
  In 0%N (wb_text (k_wbuf (k s)) (cbuf s)) -> text_of (wb_text (k_wbuf (k s)) (cbuf s)) = txt ->
  run_flush_c (S (length txt)) s =
  (s |> setk_position (length txt) |> setk_position 0
     |> setk_wbuf (WB_NL (k_cr (k s))) |> setk_wstate WS_AFTER, txt).
Proof.
  intros s txt Hp Hw H0 Ht. subst txt. rewrite run_flush_c_phase by assumption.
  unfold phase_switch_c. scbn. rewrite Hw. reflexivity.
Qed.

Lemma phase_c_after : forall s txt, k_position (k s) = 0 -> k_wstate (k s) = WS_AFTER ->
  In 0%N (wb_text (k_wbuf (k s)) (cbuf s)) -> text_of (wb_text (k_wbuf (k s)) (cbuf s)) = txt ->
  run_flush_c (S (length txt)) s =
  (let s1 := s |> setk_position (length txt) |> setk_state (k_wafter (k s)) in
   if cstate_beq (k_wafter (k s)) CS_AFTER_RESET then set_gR (S (gR s)) s1 else s1, txt).
Proof.
  intros s txt Hp Hw H0 Ht. subst txt. rewrite run_flush_c_phase by assumption.
  unfold phase_switch_c. scbn. rewrite Hw. reflexivity.
Qed.

Lemma len_phase_rest0 : forall s txt, k_position (k s) = 0 ->
  text_of (wb_text (k_wbuf (k s)) (cbuf s)) = txt ->
  length (phase_rest (k_wbuf (k s)) (cbuf s) (k_position (k s))) = length txt.
Proof. intros s txt Hp Ht. unfold phase_rest. rewrite Hp. cbn [skipn]. rewrite Ht. reflexivity. Qed.

Theorem C11_unit_cmd_proof : forall s after, In 0%N (cbuf s) ->
  let s0 := setk_state CS_FLUSH (start_flush_c after s) in
  let nl := nl_text (k_cr (k s)) in
  let n := 3 + 2 * length nl + length (text_of (cbuf s)) in
  snd (run_flush_c n s0) = nl ++ text_of (cbuf s) ++ nl /\
  k_state (k (fst (run_flush_c n s0))) = after /\
  cbuf (fst (run_flush_c n s0)) = cbuf s /\ ubuf (fst (run_flush_c n s0)) = ubuf s /\
  u (fst (run_flush_c n s0)) = u s /\ k_cr (k (fst (run_flush_c n s0))) = k_cr (k s) /\
  (forall m, m < n -> k_state (k (fst (run_flush_c m s0))) = CS_FLUSH).
Proof.
  intros s after H0. cbv zeta. unfold start_flush_c.
  set (nl := nl_text (k_cr (k s))). set (L1 := length nl). set (T := text_of (cbuf s)). set (L2 := length T).
  match goal with |- context [run_flush_c _ ?x] => set (s0 := x) end.
  assert (T0 : text_of (wb_text (k_wbuf (k s0)) (cbuf s0)) = nl) by apply text_of_nl.
  pose proof (phase_c_before s0 nl eq_refl eq_refl (In0_nl _) T0) as P1. fold L1 in P1.
  match type of P1 with _ = (?x, _) => set (s1 := x) in * end.
  assert (T1 : text_of (wb_text (k_wbuf (k s1)) (cbuf s1)) = T) by reflexivity.
  pose proof (phase_c_main s1 T eq_refl eq_refl H0 T1) as P2. fold L2 in P2.
  match type of P2 with _ = (?x, _) => set (s2 := x) in * end.
  assert (T2 : text_of (wb_text (k_wbuf (k s2)) (cbuf s2)) = nl) by apply text_of_nl.
  pose proof (phase_c_after s2 nl eq_refl eq_refl (In0_nl _) T2) as P3. fold L1 in P3.
  match type of P3 with _ = (?x, _) => set (s3 := x) in * end.
  assert (En : 3 + 2 * L1 + L2 = S L1 + (S L2 + S L1)) by lia. rewrite En. clear En.
  assert (R : run_flush_c (S L1 + (S L2 + S L1)) s0 = (s3, nl ++ T ++ nl)).
  { rewrite run_flush_c_app, P1, run_flush_c_app, P2, P3. reflexivity. }
  rewrite R. cbn [fst snd].
  assert (F : k_state (k s3) = after /\ cbuf s3 = cbuf s /\ ubuf s3 = ubuf s /\ u s3 = u s /\
               k_cr (k s3) = k_cr (k s)).
  { unfold s3. cbv zeta. destruct (cstate_beq (k_wafter (k s2)) CS_AFTER_RESET); repeat split; reflexivity. }
  destruct F as (F1 & F2 & F3 & F4 & F5).
  repeat split; try assumption.
  intros m Hm.
  destruct (le_lt_dec m L1) as [A|A].
  - rewrite run_flush_c_text_state by (rewrite (len_phase_rest0 s0 nl eq_refl T0); exact A). reflexivity.
  - destruct (le_lt_dec m (S L1 + L2)) as [B|B].
    + replace m with (S L1 + (m - S L1)) by lia. rewrite fst_run_flush_c_app, P1. cbn [fst].
      rewrite run_flush_c_text_state by (rewrite (len_phase_rest0 s1 T eq_refl T1); fold L2; lia). reflexivity.
    + replace m with (S L1 + (S L2 + (m - S L1 - S L2))) by lia.
      rewrite fst_run_flush_c_app, P1. cbn [fst]. rewrite fst_run_flush_c_app, P2. cbn [fst].
      rewrite run_flush_c_text_state by (rewrite (len_phase_rest0 s2 nl eq_refl T2); fold L1; lia). reflexivity.
Qed.

Lemma fst_run_flush_u_app : forall a b s,
  fst (run_flush_u (a + b) s) = fst (run_flush_u b (fst (run_flush_u a s))).
Proof.
  intros. rewrite run_flush_u_app. destruct (run_flush_u a s) as [s1 o1]. cbn [fst].
  destruct (run_flush_u b s1). reflexivity.
Qed.

Lemma phase_u_before : forall s txt, u_position (u s) = 0 -> u_wstate (u s) = WS_BEFORE ->
  In 0%N (wb_text (u_wbuf (u s)) (ubuf s)) -> text_of (wb_text (u_wbuf (u s)) (ubuf s)) = txt ->
  run_flush_u (S (length txt)) s =
  (s |> setu_position (length txt) |> setu_position 0 |> setu_wbuf WB_MAIN |> setu_wstate WS_MAIN, txt).
Proof.
  intros s txt Hp Hw H0 Ht. subst txt. rewrite run_flush_u_phase by assumption.
  unfold phase_switch_u. scbn. rewrite Hw. reflexivity.
Qed.

Lemma phase_u_main : forall s txt, u_position (u s) = 0 -> u_wstate (u s) = WS_MAIN ->
  In 0%N (wb_text (u_wbuf (u s)) (ubuf s)) -> text_of (wb_text (u_wbuf (u s)) (ubuf s)) = txt ->
  run_flush_u (S (length txt)) s =
  (s |> setu_position (length txt) |> setu_position 0
     |> setu_wbuf (WB_NL (k_cr (k s))) |> setu_wstate WS_AFTER, txt).
Proof.
  intros s txt Hp Hw H0 Ht. subst txt. rewrite run_flush_u_phase by assumption.
  unfold phase_switch_u. scbn. rewrite Hw. reflexivity.
Qed.

Lemma phase_u_after : forall s txt, u_position (u s) = 0 -> u_wstate (u s) = WS_AFTER ->
  In 0%N (wb_text (u_wbuf (u s)) (ubuf s)) -> text_of (wb_text (u_wbuf (u s)) (ubuf s)) = txt ->
  run_flush_u (S (length txt)) s =
  (s |> setu_position (length txt) |> setu_state (u_wafter (u s)), txt).
Proof.
  intros s txt Hp Hw H0 Ht. subst txt. rewrite run_flush_u_phase by assumption.
  unfold phase_switch_u. scbn. rewrite Hw. reflexivity.
Qed.

Lemma len_phase_rest0_u : forall s txt, u_position (u s) = 0 ->
  text_of (wb_text (u_wbuf (u s)) (ubuf s)) = txt ->
  length (phase_rest (u_wbuf (u s)) (ubuf s) (u_position (u s))) = length txt.
Proof. intros s txt Hp Ht. unfold phase_rest. rewrite Hp. cbn [skipn]. rewrite Ht. reflexivity. Qed.


(* a raw line of the command list: the text of the buffer only *)
Theorem C11_unit_raw_proof : forall s after, In 0%N (cbuf s) ->
  let s0 := setk_state CS_FLUSH (start_flush_raw_c after s) in
  let n := 1 + length (text_of (cbuf s)) in
  snd (run_flush_c n s0) = text_of (cbuf s) /\
  k_state (k (fst (run_flush_c n s0))) = after /\
  cbuf (fst (run_flush_c n s0)) = cbuf s /\ ubuf (fst (run_flush_c n s0)) = ubuf s /\
  u (fst (run_flush_c n s0)) = u s /\ k_cr (k (fst (run_flush_c n s0))) = k_cr (k s) /\
  (forall m, m < n -> k_state (k (fst (run_flush_c m s0))) = CS_FLUSH).
Proof.
  intros s after H0. cbv zeta. unfold start_flush_raw_c.
  set (T := text_of (cbuf s)). set (L2 := length T).
  match goal with |- context [run_flush_c _ ?x] => set (s0 := x) end.
  assert (T0 : text_of (wb_text (k_wbuf (k s0)) (cbuf s0)) = T) by reflexivity.
  pose proof (phase_c_after s0 T eq_refl eq_refl H0 T0) as P3. fold L2 in P3.
  match type of P3 with _ = (?x, _) => set (s3 := x) in * end.
  change (1 + L2) with (S L2). rewrite P3. cbn [fst snd].
  assert (F : k_state (k s3) = after /\ cbuf s3 = cbuf s /\ ubuf s3 = ubuf s /\ u s3 = u s /\
               k_cr (k s3) = k_cr (k s)).
  { unfold s3. cbv zeta. destruct (cstate_beq (k_wafter (k s0)) CS_AFTER_RESET); repeat split; reflexivity. }
  destruct F as (F1 & F2 & F3 & F4 & F5).
  repeat split; try assumption.
  intros m Hm.
  rewrite run_flush_c_text_state by (rewrite (len_phase_rest0 s0 T eq_refl T0); fold L2; lia). reflexivity.
Qed.

(* an event line; in the iteration of the event machine alone the command machine's record,
   hence k_cr, is constant: both newlines are the same *)
Theorem C11_unit_uns_proof : forall s after, In 0%N (ubuf s) ->
  let s0 := setu_state US_FLUSH (start_flush_u after s) in
  let nl := nl_text (k_cr (k s)) in
  let n := 3 + 2 * length nl + length (text_of (ubuf s)) in
  snd (run_flush_u n s0) = nl ++ text_of (ubuf s) ++ nl /\
  u_state (u (fst (run_flush_u n s0))) = after /\
  ubuf (fst (run_flush_u n s0)) = ubuf s /\ cbuf (fst (run_flush_u n s0)) = cbuf s /\
  k (fst (run_flush_u n s0)) = k s /\
  (forall m, m < n -> u_state (u (fst (run_flush_u m s0))) = US_FLUSH).
Proof.
  intros s after H0. cbv zeta. unfold start_flush_u.
  set (nl := nl_text (k_cr (k s))). set (L1 := length nl). set (T := text_of (ubuf s)). set (L2 := length T).
  match goal with |- context [run_flush_u _ ?x] => set (s0 := x) end.
  assert (T0 : text_of (wb_text (u_wbuf (u s0)) (ubuf s0)) = nl) by apply text_of_nl.
  pose proof (phase_u_before s0 nl eq_refl eq_refl (In0_nl _) T0) as P1. fold L1 in P1.
  match type of P1 with _ = (?x, _) => set (s1 := x) in * end.
  assert (T1 : text_of (wb_text (u_wbuf (u s1)) (ubuf s1)) = T) by reflexivity.
  pose proof (phase_u_main s1 T eq_refl eq_refl H0 T1) as P2. fold L2 in P2.
  match type of P2 with _ = (?x, _) => set (s2 := x) in * end.
  assert (T2 : text_of (wb_text (u_wbuf (u s2)) (ubuf s2)) = nl) by apply text_of_nl.
  pose proof (phase_u_after s2 nl eq_refl eq_refl (In0_nl _) T2) as P3. fold L1 in P3.
  match type of P3 with _ = (?x, _) => set (s3 := x) in * end.
  assert (En : 3 + 2 * L1 + L2 = S L1 + (S L2 + S L1)) by lia. rewrite En. clear En.
  assert (R : run_flush_u (S L1 + (S L2 + S L1)) s0 = (s3, nl ++ T ++ nl)).
  { rewrite run_flush_u_app, P1, run_flush_u_app, P2, P3. reflexivity. }
  rewrite R. cbn [fst snd].
  repeat split; try reflexivity.
  intros m Hm.
  destruct (le_lt_dec m L1) as [A|A].
  - rewrite run_flush_u_text_state by (rewrite (len_phase_rest0_u s0 nl eq_refl T0); exact A). reflexivity.
  - destruct (le_lt_dec m (S L1 + L2)) as [B|B].
    + replace m with (S L1 + (m - S L1)) by lia. rewrite fst_run_flush_u_app, P1. cbn [fst].
      rewrite run_flush_u_text_state by (rewrite (len_phase_rest0_u s1 T eq_refl T1); fold L2; lia). reflexivity.
    + replace m with (S L1 + (S L2 + (m - S L1 - S L2))) by lia.
      rewrite fst_run_flush_u_app, P1. cbn [fst]. rewrite fst_run_flush_u_app, P2. cbn [fst].
      rewrite run_flush_u_text_state by (rewrite (len_phase_rest0_u s2 nl eq_refl T2); fold L1; lia). reflexivity.
Qed.

(* ================================================================== *)
(* 3. the flush engines in the world: one-step laws                     *)
(* ================================================================== *)

(* write events of a list of events, in the order of the list *)
Definition writes (evs : list event) : list (fsm * N * bool) :=
  flat_map (fun e => match e with EWr f ch ok => [(f, ch, ok)] | _ => [] end) evs.
Definition nowr (evs : list event) : bool :=
  forallb (fun e => match e with EWr _ _ _ => false | _ => true end) evs.

Lemma nowr_app : forall a b, nowr (a ++ b) = nowr a && nowr b.
Proof. intros. apply forallb_app. Qed.
Lemma writes_app : forall a b, writes (a ++ b) = writes a ++ writes b.
Proof. intros. apply flat_map_app. Qed.
Lemma nowr_writes : forall evs, nowr evs = true -> writes evs = [].
Proof.
  induction evs as [|e evs IH]; intros H; [reflexivity|].
  cbn [nowr forallb] in H. apply andb_true_iff in H. destruct H as [H1 H2].
  unfold writes. cbn [flat_map]. fold (writes evs). rewrite (IH H2).
  destruct e; try reflexivity. discriminate.
Qed.

Section World.
Variable D : desc.
Variables ioS muS hS : Type.
Variable io_read : ioS -> ioS * option N.
Variable io_write : ioS -> N -> ioS * bool.
Variable mu_lock : muS -> muS * bool.
Variable mu_unlock : muS -> muS * bool.
Variable h_call : hS -> hreq -> hS * hres.

Local Notation world := (Fsm.world ioS muS hS).
Local Notation mkWorld := (Fsm.mkWorld ioS muS hS).
Local Notation st := (Fsm.st ioS muS hS).
Local Notation tr := (Fsm.tr ioS muS hS).
Local Notation io := (Fsm.io ioS muS hS).
Local Notation mu := (Fsm.mu ioS muS hS).
Local Notation hs := (Fsm.hs ioS muS hS).
Local Notation logw := (Fsm.logw ioS muS hS).
Local Notation upd_st := (Fsm.upd_st ioS muS hS).
Local Notation set_st := (Fsm.set_st ioS muS hS).
Local Notation set_io := (Fsm.set_io ioS muS hS).
Local Notation set_mu := (Fsm.set_mu ioS muS hS).
Local Notation set_hs := (Fsm.set_hs ioS muS hS).
Local Notation busy := (Fsm.busy ioS muS hS).
Local Notation bracket := (Fsm.bracket D ioS muS hS mu_lock mu_unlock).
Local Notation api_trigger := (Fsm.api_trigger D ioS muS hS mu_lock mu_unlock).
Local Notation api_hold_exit := (Fsm.api_hold_exit D ioS muS hS mu_lock mu_unlock).
Local Notation apply_icall := (Fsm.apply_icall D ioS muS hS mu_lock mu_unlock).
Local Notation call_h := (Fsm.call_h D ioS muS hS mu_lock mu_unlock h_call).
Local Notation read_cmd_char := (Fsm.read_cmd_char ioS muS hS io_read).
Local Notation reading := (Fsm.reading ioS muS hS io_read).
Local Notation parse_write_args := (Fsm.parse_write_args D ioS muS hS mu_lock mu_unlock h_call).
Local Notation format_read_args := (Fsm.format_read_args D ioS muS hS mu_lock mu_unlock h_call).
Local Notation process_write_loop := (Fsm.process_write_loop D ioS muS hS mu_lock mu_unlock h_call).
Local Notation process_run_loop := (Fsm.process_run_loop D ioS muS hS mu_lock mu_unlock h_call).
Local Notation process_rt_loop := (Fsm.process_rt_loop D ioS muS hS mu_lock mu_unlock h_call).
Local Notation process_io_write := (Fsm.process_io_write ioS muS hS io_write).
Local Notation unsolicited_process_io_write := (Fsm.unsolicited_process_io_write ioS muS hS io_write).
Local Notation unsolicited_events_service :=
  (Fsm.unsolicited_events_service D ioS muS hS io_write mu_lock mu_unlock h_call).
Local Notation cmd_service :=
  (Fsm.cmd_service D ioS muS hS io_read io_write mu_lock mu_unlock h_call).
Local Notation service_body :=
  (Fsm.service_body D ioS muS hS io_read io_write mu_lock mu_unlock h_call).

Ltac wsimpl := cbn [Fsm.st Fsm.tr Fsm.io Fsm.mu Fsm.hs Fsm.set_st Fsm.set_io Fsm.set_mu Fsm.set_hs
                    Fsm.logw Fsm.upd_st Fsm.busy fst snd].

(* process_io_write is flush_step_c plus the io oracle: no io at a NUL or outside the buffer; one
   io_write of the byte under the cursor otherwise, and the state moves only if it is accepted *)
Lemma process_io_write_eq : forall w,
  process_io_write w =
  match flush_step_c (st w) with
  | (s', None) => (set_st s' w, ST_BUSY)
  | (s', Some ch) =>
    (let (io', ok) := io_write (io w) ch in
     if ok then mkWorld s' io' (mu w) (hs w) (EWr ATCMD ch true :: tr w)
     else mkWorld (st w) io' (mu w) (hs w) (EWr ATCMD ch false :: tr w), ST_BUSY)
  end.
Proof.
  intros w. unfold Fsm.process_io_write, flush_step_c. cbv zeta.
  destruct (wbuf_char (k_wbuf (k (st w))) (cbuf (st w)) (k_position (k (st w)))) as [ch|]; [|reflexivity].
  destruct (ch =? 0)%N; [reflexivity|].
  destruct (io_write (io w) ch) as [io' ok]. destruct ok; reflexivity.
Qed.

Lemma unsolicited_process_io_write_eq : forall w,
  unsolicited_process_io_write w =
  match flush_step_u (st w) with
  | (s', None) => (set_st s' w, ST_BUSY)
  | (s', Some ch) =>
    (let (io', ok) := io_write (io w) ch in
     if ok then mkWorld s' io' (mu w) (hs w) (EWr UNSOL ch true :: tr w)
     else mkWorld (st w) io' (mu w) (hs w) (EWr UNSOL ch false :: tr w), ST_BUSY)
  end.
Proof.
  intros w. unfold Fsm.unsolicited_process_io_write, flush_step_u. cbv zeta.
  destruct (wbuf_char (u_wbuf (u (st w))) (ubuf (st w)) (u_position (u (st w)))) as [ch|]; [|reflexivity].
  destruct (ch =? 0)%N; [reflexivity|].
  destruct (io_write (io w) ch) as [io' ok]. destruct ok; reflexivity.
Qed.

Lemma cmd_service_flush : forall w, k_state (k (st w)) = CS_FLUSH -> cmd_service w = process_io_write w.
Proof. intros w H. unfold Fsm.cmd_service. rewrite H. reflexivity. Qed.
Lemma uns_service_flush : forall w, u_state (u (st w)) = US_FLUSH ->
  unsolicited_events_service w = unsolicited_process_io_write w.
Proof. intros w H. unfold Fsm.unsolicited_events_service. rewrite H. reflexivity. Qed.

(* ---- law 1: a byte remains in the current phase ---- *)
Theorem C11_step_cmd_char_proof : forall w ch rest,
  k_state (k (st w)) = CS_FLUSH ->
  phase_rest (k_wbuf (k (st w))) (cbuf (st w)) (k_position (k (st w))) = ch :: rest ->
  cmd_service w =
    (let (io', ok) := io_write (io w) ch in
     if ok then mkWorld (setk_position (S (k_position (k (st w)))) (st w)) io' (mu w) (hs w)
                        (EWr ATCMD ch true :: tr w)
     else mkWorld (st w) io' (mu w) (hs w) (EWr ATCMD ch false :: tr w), ST_BUSY)
  /\ phase_rest (k_wbuf (k (st w))) (cbuf (st w)) (S (k_position (k (st w)))) = rest.
Proof.
  intros w ch rest Hs H. unfold phase_rest in H. apply text_of_cons_inv in H.
  destruct H as (H1 & H2 & H3). split; [|exact H3].
  rewrite cmd_service_flush by exact Hs. rewrite process_io_write_eq. unfold flush_step_c.
  rewrite wbuf_char_nth, H1. apply N.eqb_neq in H2. rewrite H2. reflexivity.
Qed.

Theorem C11_step_uns_char_proof : forall w ch rest,
  u_state (u (st w)) = US_FLUSH ->
  phase_rest (u_wbuf (u (st w))) (ubuf (st w)) (u_position (u (st w))) = ch :: rest ->
  unsolicited_events_service w =
    (let (io', ok) := io_write (io w) ch in
     if ok then mkWorld (setu_position (S (u_position (u (st w)))) (st w)) io' (mu w) (hs w)
                        (EWr UNSOL ch true :: tr w)
     else mkWorld (st w) io' (mu w) (hs w) (EWr UNSOL ch false :: tr w), ST_BUSY)
  /\ phase_rest (u_wbuf (u (st w))) (ubuf (st w)) (S (u_position (u (st w)))) = rest.
Proof.
  intros w ch rest Hs H. unfold phase_rest in H. apply text_of_cons_inv in H.
  destruct H as (H1 & H2 & H3). split; [|exact H3].
  rewrite uns_service_flush by exact Hs. rewrite unsolicited_process_io_write_eq. unfold flush_step_u.
  rewrite wbuf_char_nth, H1. apply N.eqb_neq in H2. rewrite H2. reflexivity.
Qed.

(* ---- law 2: the cursor is on the terminating NUL ---- *)
Theorem C11_step_cmd_phase_proof : forall w,
  k_state (k (st w)) = CS_FLUSH ->
  wbuf_char (k_wbuf (k (st w))) (cbuf (st w)) (k_position (k (st w))) = Some 0%N ->
  phase_rest (k_wbuf (k (st w))) (cbuf (st w)) (k_position (k (st w))) = [] /\
  cmd_service w = (set_st (phase_switch_c (st w)) w, ST_BUSY) /\
  cbuf (phase_switch_c (st w)) = cbuf (st w).
Proof.
  intros w Hs H. split; [|split].
  - unfold phase_rest. apply text_of_zero_nil. rewrite <- wbuf_char_nth. exact H.
  - rewrite cmd_service_flush by exact Hs. rewrite process_io_write_eq. unfold flush_step_c.
    rewrite H. reflexivity.
  - unfold phase_switch_c. destruct (k_wstate (k (st w))); try reflexivity.
    cbv zeta. destruct (cstate_beq _ _); reflexivity.
Qed.

Theorem C11_step_uns_phase_proof : forall w,
  u_state (u (st w)) = US_FLUSH ->
  wbuf_char (u_wbuf (u (st w))) (ubuf (st w)) (u_position (u (st w))) = Some 0%N ->
  phase_rest (u_wbuf (u (st w))) (ubuf (st w)) (u_position (u (st w))) = [] /\
  unsolicited_events_service w = (set_st (phase_switch_u (st w)) w, ST_BUSY) /\
  ubuf (phase_switch_u (st w)) = ubuf (st w).
Proof.
  intros w Hs H. split; [|split].
  - unfold phase_rest. apply text_of_zero_nil. rewrite <- wbuf_char_nth. exact H.
  - rewrite uns_service_flush by exact Hs. rewrite unsolicited_process_io_write_eq. unfold flush_step_u.
    rewrite H. reflexivity.
  - unfold phase_switch_u. destruct (u_wstate (u (st w))); reflexivity.
Qed.

(* the converse reading of law 2's hypothesis: nothing remains and the cursor is inside the buffer *)
Lemma phase_rest_nil_char : forall wb main p c,
  phase_rest wb main p = [] -> wbuf_char wb main p = Some c -> c = 0%N.
Proof. intros wb main p c H1 H2. rewrite wbuf_char_nth in H2. eapply text_of_nil_inv; eassumption. Qed.

(* agreement of the pure step with the world step when io_write accepts *)
Theorem C11_flush_step_c_agrees_proof : forall w,
  k_state (k (st w)) = CS_FLUSH ->
  (forall ch, snd (io_write (io w) ch) = true) ->
  st (fst (cmd_service w)) = fst (flush_step_c (st w)) /\
  tr (fst (cmd_service w)) =
    match snd (flush_step_c (st w)) with Some ch => EWr ATCMD ch true :: tr w | None => tr w end.
Proof.
  intros w Hs Hok. rewrite cmd_service_flush by exact Hs. rewrite process_io_write_eq.
  destruct (flush_step_c (st w)) as [s' [ch|]]; [|split; reflexivity].
  specialize (Hok ch). destruct (io_write (io w) ch) as [io' ok]. cbn [snd] in Hok. subst ok.
  split; reflexivity.
Qed.

Theorem C11_flush_step_u_agrees_proof : forall w,
  u_state (u (st w)) = US_FLUSH ->
  (forall ch, snd (io_write (io w) ch) = true) ->
  st (fst (unsolicited_events_service w)) = fst (flush_step_u (st w)) /\
  tr (fst (unsolicited_events_service w)) =
    match snd (flush_step_u (st w)) with Some ch => EWr UNSOL ch true :: tr w | None => tr w end.
Proof.
  intros w Hs Hok. rewrite uns_service_flush by exact Hs. rewrite unsolicited_process_io_write_eq.
  destruct (flush_step_u (st w)) as [s' [ch|]]; [|split; reflexivity].
  specialize (Hok ch). destruct (io_write (io w) ch) as [io' ok]. cbn [snd] in Hok. subst ok.
  split; reflexivity.
Qed.

End World.

(* ================================================================== *)
(* 4. frames: what each machine's step may change in the state          *)
(* ================================================================== *)

(* the event machine's registers and buffer, without its queue *)
Definition upart (s : state) :=
  (u_state (u s), u_index (u s), u_position (u s), u_cmd (u s), u_var (u s), u_type (u s),
   u_wbuf (u s), u_wstate (u s), u_wafter (u s), ubuf s).
(* the command machine's registers and buffer, without its state and the two hold registers *)
Definition kpart (s : state) :=
  (cbuf s, k_index (k s), k_partial (k s), k_length (k s), k_position (k s), k_write_size (k s),
   k_cmd (k s), k_var (k s), k_type (k s), k_char (k s), k_cr (k s), k_wbuf (k s), k_wstate (k s),
   k_wafter (k s), k_implicit (k s)).

(* s was reached from s0 by command-machine work: the event machine's registers and buffer are
   untouched (its queue may have grown through a handler's inner trigger call), and CS_FLUSH was not
   entered *)
Definition cfr (s0 s : state) : Prop :=
  upart s = upart s0 /\ (k_state (k s) = CS_FLUSH -> k_state (k s0) = CS_FLUSH).
(* s was reached from s0 by event-machine work: the command machine's registers and buffer are
   untouched, US_FLUSH was not entered; the command machine's state and hold flag are untouched
   (strict = true) or the state may have been forced to CS_HOLD (strict = false: an event-side
   handler returned HOLD) *)
Definition efr (strict : bool) (s0 s : state) : Prop :=
  kpart s = kpart s0 /\ (u_state (u s) = US_FLUSH -> u_state (u s0) = US_FLUSH) /\
  (if strict then k_state (k s) = k_state (k s0) /\ k_hold (k s) = k_hold (k s0)
   else k_state (k s) = k_state (k s0) \/ k_state (k s) = CS_HOLD).
Definition fr (b : bool) (f : fsm) : state -> state -> Prop :=
  match f with ATCMD => cfr | UNSOL => efr b end.

Lemma fr_refl : forall b f s, fr b f s s.
Proof.
  intros b [|] s; cbn [fr]; unfold cfr, efr.
  - split; [reflexivity|auto].
  - split; [reflexivity|]. split; [auto|]. destruct b; auto.
Qed.

Lemma efr_weaken : forall b s0 s, efr true s0 s -> efr b s0 s.
Proof. intros [|] s0 s H; [exact H|]. destruct H as (H1 & H2 & H3 & H4). repeat split; auto. Qed.

Lemma frc_setk_index : forall b s0 s v, fr b ATCMD s0 s -> fr b ATCMD s0 (setk_index v s).
Proof. intros b s0 s v H. exact H. Qed.
Lemma frc_setk_partial : forall b s0 s v, fr b ATCMD s0 s -> fr b ATCMD s0 (setk_partial v s).
Proof. intros b s0 s v H. exact H. Qed.
Lemma frc_setk_length : forall b s0 s v, fr b ATCMD s0 s -> fr b ATCMD s0 (setk_length v s).
Proof. intros b s0 s v H. exact H. Qed.
Lemma frc_setk_position : forall b s0 s v, fr b ATCMD s0 s -> fr b ATCMD s0 (setk_position v s).
Proof. intros b s0 s v H. exact H. Qed.
Lemma frc_setk_write_size : forall b s0 s v, fr b ATCMD s0 s -> fr b ATCMD s0 (setk_write_size v s).
Proof. intros b s0 s v H. exact H. Qed.
Lemma frc_setk_cmd : forall b s0 s v, fr b ATCMD s0 s -> fr b ATCMD s0 (setk_cmd v s).
Proof. intros b s0 s v H. exact H. Qed.
Lemma frc_setk_var : forall b s0 s v, fr b ATCMD s0 s -> fr b ATCMD s0 (setk_var v s).
Proof. intros b s0 s v H. exact H. Qed.
Lemma frc_setk_type : forall b s0 s v, fr b ATCMD s0 s -> fr b ATCMD s0 (setk_type v s).
Proof. intros b s0 s v H. exact H. Qed.
Lemma frc_setk_char : forall b s0 s v, fr b ATCMD s0 s -> fr b ATCMD s0 (setk_char v s).
Proof. intros b s0 s v H. exact H. Qed.
Lemma frc_setk_cr : forall b s0 s v, fr b ATCMD s0 s -> fr b ATCMD s0 (setk_cr v s).
Proof. intros b s0 s v H. exact H. Qed.
Lemma frc_setk_hold : forall b s0 s v, fr b ATCMD s0 s -> fr b ATCMD s0 (setk_hold v s).
Proof. intros b s0 s v H. exact H. Qed.
Lemma frc_setk_hold_exit : forall b s0 s v, fr b ATCMD s0 s -> fr b ATCMD s0 (setk_hold_exit v s).
Proof. intros b s0 s v H. exact H. Qed.
Lemma frc_setk_wbuf : forall b s0 s v, fr b ATCMD s0 s -> fr b ATCMD s0 (setk_wbuf v s).
Proof. intros b s0 s v H. exact H. Qed.
Lemma frc_setk_wstate : forall b s0 s v, fr b ATCMD s0 s -> fr b ATCMD s0 (setk_wstate v s).
Proof. intros b s0 s v H. exact H. Qed.
Lemma frc_setk_wafter : forall b s0 s v, fr b ATCMD s0 s -> fr b ATCMD s0 (setk_wafter v s).
Proof. intros b s0 s v H. exact H. Qed.
Lemma frc_setk_implicit : forall b s0 s v, fr b ATCMD s0 s -> fr b ATCMD s0 (setk_implicit v s).
Proof. intros b s0 s v H. exact H. Qed.
Lemma frc_setk_state : forall b s0 s v, v <> CS_FLUSH -> fr b ATCMD s0 s -> fr b ATCMD s0 (setk_state v s).
Proof. intros b s0 s v Hv [H1 H2]. split; [exact H1|]. intros E. cbn in E. contradiction. Qed.
Lemma frc_set_cbuf : forall b s0 s v, fr b ATCMD s0 s -> fr b ATCMD s0 (set_cbuf v s).
Proof. intros b s0 s v H. exact H. Qed.
Lemma frc_set_mem : forall b s0 s v, fr b ATCMD s0 s -> fr b ATCMD s0 (set_mem v s).
Proof. intros b s0 s v H. exact H. Qed.
Lemma frc_set_gL : forall b s0 s v, fr b ATCMD s0 s -> fr b ATCMD s0 (set_gL v s).
Proof. intros b s0 s v H. exact H. Qed.
Lemma frc_set_gS : forall b s0 s v, fr b ATCMD s0 s -> fr b ATCMD s0 (set_gS v s).
Proof. intros b s0 s v H. exact H. Qed.
Lemma frc_set_gR : forall b s0 s v, fr b ATCMD s0 s -> fr b ATCMD s0 (set_gR v s).
Proof. intros b s0 s v H. exact H. Qed.
Lemma frc_set_fault : forall b s0 s v, fr b ATCMD s0 s -> fr b ATCMD s0 (set_fault v s).
Proof. intros b s0 s v H. exact H. Qed.
Lemma frc_set_fault_flag : forall b s0 s, fr b ATCMD s0 s -> fr b ATCMD s0 (set_fault_flag s).
Proof. intros b s0 s H. exact H. Qed.
Lemma frc_setu_ring : forall b s0 s v, fr b ATCMD s0 s -> fr b ATCMD s0 (setu_ring v s).
Proof. intros b s0 s v H. exact H. Qed.
Lemma frc_setu_tail : forall b s0 s v, fr b ATCMD s0 s -> fr b ATCMD s0 (setu_tail v s).
Proof. intros b s0 s v H. exact H. Qed.
Lemma frc_setu_head : forall b s0 s v, fr b ATCMD s0 s -> fr b ATCMD s0 (setu_head v s).
Proof. intros b s0 s v H. exact H. Qed.
Lemma frc_setu_count : forall b s0 s v, fr b ATCMD s0 s -> fr b ATCMD s0 (setu_count v s).
Proof. intros b s0 s v H. exact H. Qed.
Lemma fru_setu_index : forall b s0 s v, fr b UNSOL s0 s -> fr b UNSOL s0 (setu_index v s).
Proof. intros b s0 s v H. exact H. Qed.
Lemma fru_setu_position : forall b s0 s v, fr b UNSOL s0 s -> fr b UNSOL s0 (setu_position v s).
Proof. intros b s0 s v H. exact H. Qed.
Lemma fru_setu_cmd : forall b s0 s v, fr b UNSOL s0 s -> fr b UNSOL s0 (setu_cmd v s).
Proof. intros b s0 s v H. exact H. Qed.
Lemma fru_setu_var : forall b s0 s v, fr b UNSOL s0 s -> fr b UNSOL s0 (setu_var v s).
Proof. intros b s0 s v H. exact H. Qed.
Lemma fru_setu_type : forall b s0 s v, fr b UNSOL s0 s -> fr b UNSOL s0 (setu_type v s).
Proof. intros b s0 s v H. exact H. Qed.
Lemma fru_setu_wbuf : forall b s0 s v, fr b UNSOL s0 s -> fr b UNSOL s0 (setu_wbuf v s).
Proof. intros b s0 s v H. exact H. Qed.
Lemma fru_setu_wstate : forall b s0 s v, fr b UNSOL s0 s -> fr b UNSOL s0 (setu_wstate v s).
Proof. intros b s0 s v H. exact H. Qed.
Lemma fru_setu_wafter : forall b s0 s v, fr b UNSOL s0 s -> fr b UNSOL s0 (setu_wafter v s).
Proof. intros b s0 s v H. exact H. Qed.
Lemma fru_setu_ring : forall b s0 s v, fr b UNSOL s0 s -> fr b UNSOL s0 (setu_ring v s).
Proof. intros b s0 s v H. exact H. Qed.
Lemma fru_setu_tail : forall b s0 s v, fr b UNSOL s0 s -> fr b UNSOL s0 (setu_tail v s).
Proof. intros b s0 s v H. exact H. Qed.
Lemma fru_setu_head : forall b s0 s v, fr b UNSOL s0 s -> fr b UNSOL s0 (setu_head v s).
Proof. intros b s0 s v H. exact H. Qed.
Lemma fru_setu_count : forall b s0 s v, fr b UNSOL s0 s -> fr b UNSOL s0 (setu_count v s).
Proof. intros b s0 s v H. exact H. Qed.
Lemma fru_setu_state : forall b s0 s v, v <> US_FLUSH -> fr b UNSOL s0 s -> fr b UNSOL s0 (setu_state v s).
Proof. intros b s0 s v Hv (H1 & H2 & H3). split; [exact H1|]. split; [|exact H3]. intros E. cbn in E. contradiction. Qed.
Lemma fru_set_ubuf : forall b s0 s v, fr b UNSOL s0 s -> fr b UNSOL s0 (set_ubuf v s).
Proof. intros b s0 s v H. exact H. Qed.
Lemma fru_set_mem : forall b s0 s v, fr b UNSOL s0 s -> fr b UNSOL s0 (set_mem v s).
Proof. intros b s0 s v H. exact H. Qed.
Lemma fru_set_gL : forall b s0 s v, fr b UNSOL s0 s -> fr b UNSOL s0 (set_gL v s).
Proof. intros b s0 s v H. exact H. Qed.
Lemma fru_set_gS : forall b s0 s v, fr b UNSOL s0 s -> fr b UNSOL s0 (set_gS v s).
Proof. intros b s0 s v H. exact H. Qed.
Lemma fru_set_gR : forall b s0 s v, fr b UNSOL s0 s -> fr b UNSOL s0 (set_gR v s).
Proof. intros b s0 s v H. exact H. Qed.
Lemma fru_set_fault : forall b s0 s v, fr b UNSOL s0 s -> fr b UNSOL s0 (set_fault v s).
Proof. intros b s0 s v H. exact H. Qed.
Lemma fru_set_fault_flag : forall b s0 s, fr b UNSOL s0 s -> fr b UNSOL s0 (set_fault_flag s).
Proof. intros b s0 s H. exact H. Qed.
Lemma fru_setk_hold_exit : forall b s0 s v, fr b UNSOL s0 s -> fr b UNSOL s0 (setk_hold_exit v s).
Proof. intros b s0 s v H. exact H. Qed.
Create HintDb fr.
#[global] Hint Resolve fr_refl frc_setk_index frc_setk_partial frc_setk_length frc_setk_position frc_setk_write_size frc_setk_cmd frc_setk_var frc_setk_type frc_setk_char frc_setk_cr frc_setk_hold frc_setk_hold_exit frc_setk_wbuf frc_setk_wstate frc_setk_wafter frc_setk_implicit frc_setk_state frc_set_cbuf frc_set_mem frc_set_gL frc_set_gS frc_set_gR frc_set_fault frc_set_fault_flag frc_setu_ring frc_setu_tail frc_setu_head frc_setu_count fru_setu_index fru_setu_position fru_setu_cmd fru_setu_var fru_setu_type fru_setu_wbuf fru_setu_wstate fru_setu_wafter fru_setu_ring fru_setu_tail fru_setu_head fru_setu_count fru_setu_state fru_set_ubuf fru_set_mem fru_set_gL fru_set_gS fru_set_gR fru_set_fault fru_set_fault_flag fru_setk_hold_exit : fr.
#[global] Hint Extern 1 (_ <> _) => discriminate : fr.

Ltac fr_step :=
  match goal with
  | |- context [match ?x with _ => _ end] =>
    lazymatch type of x with
    | prod state _ =>
      let E := fresh "E" in let s0 := fresh "s" in let b0 := fresh "b" in
      destruct x as [s0 b0] eqn:E; apply (f_equal fst) in E; cbn [fst] in E; subst s0
    | _ => destruct x eqn:?
    end
  end.
Ltac fr_solve := cbv beta zeta; repeat (fr_step; cbn [fst snd]); auto 60 with fr.

Lemma fr_setg_pos : forall b f s0 s v, fr b f s0 s -> fr b f s0 (setg_pos f v s).
Proof. intros b [|] s0 s v H; exact H. Qed.
Lemma fr_setg_buf : forall b f s0 s v, fr b f s0 s -> fr b f s0 (setg_buf f v s).
Proof. intros b [|] s0 s v H; exact H. Qed.
Lemma fr_setg_var : forall b f s0 s v, fr b f s0 s -> fr b f s0 (setg_var f v s).
Proof. intros b [|] s0 s v H; exact H. Qed.
Lemma fr_setg_index : forall b f s0 s v, fr b f s0 s -> fr b f s0 (setg_index f v s).
Proof. intros b [|] s0 s v H; exact H. Qed.
Lemma fr_set_fault_flag : forall b f s0 s, fr b f s0 s -> fr b f s0 (set_fault_flag s).
Proof. intros b [|] s0 s H; exact H. Qed.
Lemma fr_set_mem : forall b f s0 s v, fr b f s0 s -> fr b f s0 (set_mem v s).
Proof. intros b [|] s0 s v H; exact H. Qed.
Lemma fr_setk_hold_exit : forall b f s0 s v, fr b f s0 s -> fr b f s0 (setk_hold_exit v s).
Proof. intros b [|] s0 s v H; exact H. Qed.
#[global] Hint Resolve fr_setg_pos fr_setg_buf fr_setg_var fr_setg_index fr_set_fault_flag fr_set_mem fr_setk_hold_exit : fr.

Lemma fr_put_cur : forall b f s0 s c, fr b f s0 s -> fr b f s0 (put_cur f c s).
Proof. intros. unfold put_cur. fr_solve. Qed.
#[global] Hint Resolve fr_put_cur : fr.
Lemma fr_print_string : forall b f s0 s t, fr b f s0 s -> fr b f s0 (fst (print_string f s t)).
Proof. intros. unfold print_string. fr_solve. Qed.
Lemma fr_print_strings : forall b f s0 s t, fr b f s0 s -> fr b f s0 (fst (print_strings f s t)).
Proof. intros. unfold print_strings. fr_solve. Qed.
#[global] Hint Resolve fr_print_string fr_print_strings : fr.
Lemma fr_ack_error : forall b s0 s, fr b ATCMD s0 s -> fr b ATCMD s0 (ack_error s).
Proof. intros. unfold ack_error, start_flush_c. fr_solve. Qed.
Lemma fr_ack_ok : forall b s0 s, fr b ATCMD s0 s -> fr b ATCMD s0 (ack_ok s).
Proof. intros. unfold ack_ok, start_flush_c. fr_solve. Qed.
Lemma fr_unsolicited_reset_state : forall b s0 s, fr b UNSOL s0 s -> fr b UNSOL s0 (unsolicited_reset_state s).
Proof. intros. unfold unsolicited_reset_state. fr_solve. Qed.
#[global] Hint Resolve fr_ack_error fr_ack_ok fr_unsolicited_reset_state : fr.
Lemma fr_end_with_error : forall b f s0 s, fr b f s0 s -> fr b f s0 (end_with_error f s).
Proof. intros. unfold end_with_error. fr_solve. Qed.
Lemma fr_end_with_ok : forall b f s0 s, fr b f s0 s -> fr b f s0 (end_with_ok f s).
Proof. intros. unfold end_with_ok. fr_solve. Qed.
Lemma fr_set_loop_state : forall b f rd s0 s, fr b f s0 s -> fr b f s0 (set_loop_state f rd s).
Proof. intros. unfold set_loop_state. fr_solve. Qed.
Lemma fr_start_flush_c : forall b a s0 s, fr b ATCMD s0 s -> fr b ATCMD s0 (start_flush_c a s).
Proof. intros. unfold start_flush_c. fr_solve. Qed.
Lemma fr_start_flush_u : forall b a s0 s, fr b UNSOL s0 s -> fr b UNSOL s0 (start_flush_u a s).
Proof. intros. unfold start_flush_u. fr_solve. Qed.
Lemma fr_start_flush_raw_c : forall b a s0 s, fr b ATCMD s0 s -> fr b ATCMD s0 (start_flush_raw_c a s).
Proof. intros. unfold start_flush_raw_c. fr_solve. Qed.
#[global] Hint Resolve fr_end_with_error fr_end_with_ok fr_set_loop_state fr_start_flush_c fr_start_flush_u fr_start_flush_raw_c : fr.
Lemma fr_start_flush_after_ok : forall b f s0 s, fr b f s0 s -> fr b f s0 (start_flush_after_ok f s).
Proof. intros. unfold start_flush_after_ok. fr_solve. Qed.
Lemma fr_start_flush_after : forall b f a1 a2 s0 s, fr b f s0 s -> fr b f s0 (start_flush_after f a1 a2 s).
Proof. intros. unfold start_flush_after. fr_solve. Qed.
#[global] Hint Resolve fr_start_flush_after_ok fr_start_flush_after : fr.
Lemma fr_print_response_test : forall D b f s0 s, fr b f s0 s -> fr b f s0 (fst (print_response_test D f s)).
Proof. intros. unfold print_response_test. fr_solve. Qed.
#[global] Hint Resolve fr_print_response_test : fr.
Lemma fr_spfta : forall D b f s0 s, fr b f s0 s -> fr b f s0 (start_processing_format_test_args D f s).
Proof. intros. unfold start_processing_format_test_args. fr_solve. Qed.
Lemma fr_spfra : forall D b f s0 s, fr b f s0 s -> fr b f s0 (start_processing_format_read_args D f s).
Proof. intros. unfold start_processing_format_read_args. fr_solve. Qed.
Lemma fr_next_format_var : forall D b f s0 s, fr b f s0 s -> fr b f s0 (fst (next_format_var D f s)).
Proof. intros. unfold next_format_var. fr_solve. Qed.
#[global] Hint Resolve fr_spfta fr_spfra fr_next_format_var : fr.

Lemma fr_set_cmd_state : forall b s0 s i v, fr b ATCMD s0 s -> fr b ATCMD s0 (set_cmd_state s i v).
Proof. intros. unfold set_cmd_state. fr_solve. Qed.
Lemma fr_prepare_search_command : forall b s0 s, fr b ATCMD s0 s -> fr b ATCMD s0 (prepare_search_command s).
Proof. intros. unfold prepare_search_command. fr_solve. Qed.
Lemma fr_prepare_parse_command : forall b s0 s, fr b ATCMD s0 s -> fr b ATCMD s0 (prepare_parse_command s).
Proof. intros. unfold prepare_parse_command. fr_solve. Qed.
#[global] Hint Resolve fr_set_cmd_state fr_prepare_search_command fr_prepare_parse_command : fr.
Lemma fr_update_command : forall D b s0 s, fr b ATCMD s0 s -> fr b ATCMD s0 (update_command D s).
Proof. intros. unfold update_command. fr_solve. Qed.
Lemma fr_search_command : forall D b s0 s, fr b ATCMD s0 s -> fr b ATCMD s0 (search_command D s).
Proof. intros. unfold search_command. fr_solve. Qed.
Lemma fr_command_found : forall D b s0 s, fr b ATCMD s0 s -> fr b ATCMD s0 (command_found D s).
Proof. intros. unfold command_found. fr_solve. Qed.
Lemma fr_start_print_cmd_list : forall D b s0 s, fr b ATCMD s0 s -> fr b ATCMD s0 (start_print_cmd_list D s).
Proof. intros. unfold start_print_cmd_list. fr_solve. Qed.
Lemma fr_cmd_list_next_cmd : forall D b s0 s, fr b ATCMD s0 s -> fr b ATCMD s0 (fst (cmd_list_next_cmd D s)).
Proof. intros. unfold cmd_list_next_cmd. fr_solve. Qed.
Lemma fr_print_current_cmd_full_name : forall b s0 s c sf,
  fr b ATCMD s0 s -> fr b ATCMD s0 (fst (print_current_cmd_full_name s c sf)).
Proof. intros. unfold print_current_cmd_full_name. fr_solve. Qed.
#[global] Hint Resolve fr_update_command fr_search_command fr_command_found fr_start_print_cmd_list
  fr_cmd_list_next_cmd fr_print_current_cmd_full_name : fr.
Lemma fr_print_cmd_form : forall b s0 s c a sf n, fr b ATCMD s0 s -> fr b ATCMD s0 (print_cmd_form s c a sf n).
Proof. intros. unfold print_cmd_form. fr_solve. Qed.
#[global] Hint Resolve fr_print_cmd_form : fr.
Lemma fr_print_cmd_list : forall D b s0 s, fr b ATCMD s0 s -> fr b ATCMD s0 (print_cmd_list D s).
Proof. intros. unfold print_cmd_list. fr_solve. Qed.
Lemma fr_enable_hold_state : forall b f s0 s, (f = UNSOL -> b = false) ->
  fr b f s0 s -> fr b f s0 (enable_hold_state s).
Proof.
  intros b [|] s0 s Hb H.
  - unfold enable_hold_state. fr_solve.
  - rewrite (Hb eq_refl) in *. destruct H as (H1 & H2 & H3). split; [exact H1|]. split; [exact H2|].
    right. reflexivity.
Qed.
Lemma fr_hold_exit : forall b f s0 s z, fr b f s0 s -> fr b f s0 (fst (hold_exit s z)).
Proof. intros. unfold hold_exit. fr_solve. Qed.
Lemma fr_process_hold_state : forall b s0 s, fr b ATCMD s0 s -> fr b ATCMD s0 (process_hold_state s).
Proof. intros. unfold process_hold_state. fr_solve. Qed.
Lemma fr_reset_state : forall b s0 s, fr b ATCMD s0 s -> fr b ATCMD s0 (reset_state s).
Proof. intros. unfold reset_state. fr_solve. Qed.
Lemma fr_apply_poke : forall b f s0 s p, fr b f s0 s -> fr b f s0 (apply_poke s p).
Proof. intros. unfold apply_poke. fr_solve. Qed.
#[global] Hint Resolve fr_print_cmd_list fr_enable_hold_state fr_hold_exit fr_process_hold_state fr_reset_state fr_apply_poke : fr.
Lemma fr_apply_pokes : forall b f s0 ps s, fr b f s0 s -> fr b f s0 (fold_left apply_poke ps s).
Proof. induction ps as [|p ps IH]; intros s H; cbn [fold_left]; auto with fr. Qed.
Lemma fr_apply_edit : forall b f s0 s e, fr b f s0 s -> fr b f s0 (apply_edit f e s).
Proof. intros. unfold apply_edit. fr_solve. Qed.
Lemma fr_format_test_args : forall D b f s0 s, fr b f s0 s -> fr b f s0 (format_test_args D f s).
Proof. intros. unfold format_test_args. fr_solve. Qed.
#[global] Hint Resolve fr_apply_pokes fr_apply_edit fr_format_test_args : fr.
Lemma fr_push : forall D b f s0 s ci t, fr b f s0 s -> fr b f s0 (fst (push_unsolicited_cmd D s ci t)).
Proof. intros D b [|] s0 s ci t H; unfold push_unsolicited_cmd; fr_solve. Qed.
Lemma fr_pop : forall D b s0 s, fr b UNSOL s0 s -> fr b UNSOL s0 (fst (pop_unsolicited_cmd D s)).
Proof. intros. unfold pop_unsolicited_cmd. fr_solve. Qed.
#[global] Hint Resolve fr_push fr_pop : fr.
Lemma fr_check_unsolicited_buffers : forall D b s0 s, fr b UNSOL s0 s -> fr b UNSOL s0 (check_unsolicited_buffers D s).
Proof. intros. unfold check_unsolicited_buffers. fr_solve. Qed.
#[global] Hint Resolve fr_check_unsolicited_buffers : fr.
Lemma frc_enable_hold_state : forall b s0 s, fr b ATCMD s0 s -> fr b ATCMD s0 (enable_hold_state s).
Proof. intros. apply fr_enable_hold_state; [discriminate|assumption]. Qed.
#[global] Hint Resolve frc_enable_hold_state : fr.

(* ================================================================== *)
(* 5. the frames at the level of worlds (arbitrary oracles)              *)
(* ================================================================== *)


(* ---- what one pure flush step touches ---- *)
Lemma text_of_cons_intro : forall p l ch, nth_error l p = Some ch -> ch <> 0%N ->
  text_of (skipn p l) = ch :: text_of (skipn (S p) l).
Proof.
  induction p as [|p IH]; intros l ch H Hc; destruct l as [|c r]; cbn [nth_error] in H; try discriminate.
  - inversion H; subst. cbn [skipn text_of]. apply N.eqb_neq in Hc. rewrite Hc. reflexivity.
  - cbn [skipn]. apply IH; assumption.
Qed.

Lemma ustate_beq_flush : forall x, ustate_beq x US_FLUSH = true <-> x = US_FLUSH.
Proof. intros x. destruct x; cbn; split; intros H; try reflexivity; discriminate. Qed.
Lemma cstate_beq_flush : forall x, cstate_beq x CS_FLUSH = true <-> x = CS_FLUSH.
Proof. intros x. destruct x; cbn; split; intros H; try reflexivity; discriminate. Qed.

Lemma flush_step_c_upart : forall s, upart (fst (flush_step_c s)) = upart s.
Proof.
  intros s. unfold flush_step_c.
  destruct (wbuf_char _ _ _) as [ch|]; [|reflexivity].
  destruct (ch =? 0)%N; [|reflexivity]. cbn [fst]. unfold phase_switch_c.
  destruct (k_wstate (k s)); try reflexivity. cbv zeta. destruct (cstate_beq _ _); reflexivity.
Qed.
Lemma flush_step_u_k : forall s, k (fst (flush_step_u s)) = k s /\ cbuf (fst (flush_step_u s)) = cbuf s.
Proof.
  intros s. unfold flush_step_u.
  destruct (wbuf_char _ _ _) as [ch|]; [|split; reflexivity].
  destruct (ch =? 0)%N; [|split; reflexivity]. cbn [fst]. unfold phase_switch_u.
  destruct (u_wstate (u s)); split; reflexivity.
Qed.
Lemma flush_step_c_some : forall s s' ch, flush_step_c s = (s', Some ch) ->
  s' = setk_position (S (k_position (k s))) s /\
  phase_rest (k_wbuf (k s)) (cbuf s) (k_position (k s)) =
    ch :: phase_rest (k_wbuf (k s)) (cbuf s) (S (k_position (k s))).
Proof.
  intros s s' ch H. unfold flush_step_c in H.
  destruct (wbuf_char _ _ _) as [c|] eqn:E; [|discriminate].
  destruct (c =? 0)%N eqn:E0; inversion H; subst. split; [reflexivity|].
  rewrite wbuf_char_nth in E. apply N.eqb_neq in E0. unfold phase_rest. apply text_of_cons_intro; assumption.
Qed.
Lemma flush_step_u_some : forall s s' ch, flush_step_u s = (s', Some ch) ->
  s' = setu_position (S (u_position (u s))) s /\
  phase_rest (u_wbuf (u s)) (ubuf s) (u_position (u s)) =
    ch :: phase_rest (u_wbuf (u s)) (ubuf s) (S (u_position (u s))).
Proof.
  intros s s' ch H. unfold flush_step_u in H.
  destruct (wbuf_char _ _ _) as [c|] eqn:E; [|discriminate].
  destruct (c =? 0)%N eqn:E0; inversion H; subst. split; [reflexivity|].
  rewrite wbuf_char_nth in E. apply N.eqb_neq in E0. unfold phase_rest. apply text_of_cons_intro; assumption.
Qed.

(* the flush exclusion *)
Definition excl (s : state) : Prop := ~ (k_state (k s) = CS_FLUSH /\ u_state (u s) = US_FLUSH).

(* ---- the two wait states ---- *)
Theorem C11_wait_cmd_proof : forall s, k_state (k s) = CS_FLUSH_WAIT ->
  (k_state (k (process_io_write_wait s)) = CS_FLUSH <-> u_state (u s) <> US_FLUSH) /\
  (u_state (u s) <> US_FLUSH -> process_io_write_wait s = setk_state CS_FLUSH s) /\
  (u_state (u s) = US_FLUSH -> process_io_write_wait s = s).
Proof.
  intros s Hs. unfold process_io_write_wait.
  destruct (ustate_beq (u_state (u s)) US_FLUSH) eqn:E; cbn [negb].
  - apply ustate_beq_flush in E. repeat split; intros; try congruence.
  - assert (N : u_state (u s) <> US_FLUSH) by (intro X; apply ustate_beq_flush in X; congruence).
    repeat split; intros; try reflexivity; try assumption; contradiction.
Qed.

Theorem C11_wait_uns_proof : forall s, u_state (u s) = US_FLUSH_WAIT ->
  (u_state (u (unsolicited_process_io_write_wait s)) = US_FLUSH <-> k_state (k s) <> CS_FLUSH) /\
  (k_state (k s) <> CS_FLUSH -> unsolicited_process_io_write_wait s = setu_state US_FLUSH s) /\
  (k_state (k s) = CS_FLUSH -> unsolicited_process_io_write_wait s = s).
Proof.
  intros s Hs. unfold unsolicited_process_io_write_wait.
  destruct (cstate_beq (k_state (k s)) CS_FLUSH) eqn:E; cbn [negb].
  - apply cstate_beq_flush in E. repeat split; intros; try congruence.
  - assert (N : k_state (k s) <> CS_FLUSH) by (intro X; apply cstate_beq_flush in X; congruence).
    repeat split; intros; try reflexivity; try assumption; contradiction.
Qed.

Lemma op_eq_service : forall o : op, {o = OService} + {o <> OService}.
Proof. intros o. destruct o; (left; reflexivity) || (right; discriminate). Qed.

(* ---- what the command machine still has to send to complete the unit in flight ---- *)
Definition remaining (s : state) : list N :=
  let r := phase_rest (k_wbuf (k s)) (cbuf s) (k_position (k s)) in
  match k_wstate (k s) with
  | WS_BEFORE => r ++ text_of (cbuf s) ++ nl_text (k_cr (k s))
  | WS_MAIN => r ++ nl_text (k_cr (k s))
  | WS_AFTER => r
  end.

(* same for the event machine, up to the newline that closes the unit: its text is only chosen
   (from k_cr) when the payload has been sent *)
Definition remaining_u (s : state) : list N :=
  let r := phase_rest (u_wbuf (u s)) (ubuf s) (u_position (u s)) in
  match u_wstate (u s) with
  | WS_BEFORE => r ++ text_of (ubuf s)
  | WS_MAIN => r
  | WS_AFTER => r
  end.

Lemma remaining_fresh : forall s after,
  remaining (setk_state CS_FLUSH (start_flush_c after s)) =
  nl_text (k_cr (k s)) ++ text_of (cbuf s) ++ nl_text (k_cr (k s)).
Proof.
  intros s after. unfold remaining, start_flush_c, phase_rest. scbn. cbn [wb_text skipn].
  rewrite text_of_nl. reflexivity.
Qed.
Lemma remaining_fresh_raw : forall s after,
  remaining (setk_state CS_FLUSH (start_flush_raw_c after s)) = text_of (cbuf s).
Proof. intros s after. reflexivity. Qed.

Lemma remaining_kpart : forall s1 s, kpart s1 = kpart s ->
  remaining s1 = remaining s /\ k_wafter (k s1) = k_wafter (k s).
Proof.
  intros s1 s H. unfold kpart in H. inversion H. unfold remaining.
  repeat match goal with E : _ = _ |- _ => rewrite E; clear E end. split; reflexivity.
Qed.

Lemma remaining_char : forall s ch rest,
  phase_rest (k_wbuf (k s)) (cbuf s) (k_position (k s)) = ch :: rest ->
  remaining s = ch :: remaining (setk_position (S (k_position (k s))) s).
Proof.
  intros s ch rest H. pose proof H as H'. unfold phase_rest in H'. apply text_of_cons_inv in H'.
  destruct H' as (_ & _ & H3). fold (phase_rest (k_wbuf (k s)) (cbuf s) (S (k_position (k s)))) in H3.
  unfold remaining. scbn. rewrite H, H3. destruct (k_wstate (k s)); reflexivity.
Qed.

Lemma flush_step_c_none : forall s s', flush_step_c s = (s', None) ->
  remaining s' = remaining s /\ k_wafter (k s') = k_wafter (k s) /\ upart s' = upart s /\
  (k_state (k s') = k_state (k s) \/ (k_state (k s') = k_wafter (k s) /\ remaining s = [])).
Proof.
  intros s s' H. pose proof (flush_step_c_upart s) as U. rewrite H in U. cbn [fst] in U.
  unfold flush_step_c in H.
  destruct (wbuf_char (k_wbuf (k s)) (cbuf s) (k_position (k s))) as [c|] eqn:E.
  2:{ inversion H; subst. repeat split; auto. }
  destruct (c =? 0)%N eqn:E0; [|discriminate]. apply N.eqb_eq in E0. subst c.
  inversion H; subst. clear H.
  assert (R : phase_rest (k_wbuf (k s)) (cbuf s) (k_position (k s)) = []).
  { unfold phase_rest. apply text_of_zero_nil. rewrite <- wbuf_char_nth. exact E. }
  unfold phase_switch_c in *. destruct (k_wstate (k s)) eqn:W.
  - split; [|repeat split; auto]. unfold remaining. scbn. rewrite W, R. reflexivity.
  - split; [|repeat split; auto]. unfold remaining. scbn. rewrite W, R.
    unfold phase_rest. cbn [wb_text skipn]. rewrite text_of_nl. reflexivity.
  - cbv zeta in *.
    assert (R' : remaining s = []) by (unfold remaining; rewrite W; exact R).
    destruct (cstate_beq (k_wafter (k s)) CS_AFTER_RESET).
    + split; [|repeat split; auto]. unfold remaining. scbn. rewrite W. reflexivity.
    + split; [|repeat split; auto]. unfold remaining. scbn. rewrite W. reflexivity.
Qed.

(* ---- the event machine's unit in flight ---- *)
Lemma remaining_u_upart : forall s1 s, upart s1 = upart s ->
  remaining_u s1 = remaining_u s /\ u_wafter (u s1) = u_wafter (u s) /\
  u_wstate (u s1) = u_wstate (u s) /\ u_state (u s1) = u_state (u s).
Proof.
  intros s1 s H. unfold upart in H. inversion H. unfold remaining_u.
  repeat match goal with E : _ = _ |- _ => rewrite E; clear E end. repeat split; reflexivity.
Qed.

Lemma remaining_u_char : forall s ch rest,
  phase_rest (u_wbuf (u s)) (ubuf s) (u_position (u s)) = ch :: rest ->
  remaining_u s = ch :: remaining_u (setu_position (S (u_position (u s))) s).
Proof.
  intros s ch rest H. pose proof H as H'. unfold phase_rest in H'. apply text_of_cons_inv in H'.
  destruct H' as (_ & _ & H3). fold (phase_rest (u_wbuf (u s)) (ubuf s) (S (u_position (u s)))) in H3.
  unfold remaining_u. scbn. rewrite H, H3. destruct (u_wstate (u s)); reflexivity.
Qed.

(* one accepted step (or several steps) of the event machine in US_FLUSH: bytes were sent, and
   (A) the closing newline is not yet chosen, (B) it is being chosen now, (C) it was chosen before *)
Definition ustep_rel (s s' : state) (bytes : list N) : Prop :=
  u_wafter (u s') = u_wafter (u s) /\
  ((u_state (u s') = US_FLUSH /\ u_wstate (u s) <> WS_AFTER /\ u_wstate (u s') <> WS_AFTER /\
    bytes ++ remaining_u s' = remaining_u s) \/
   (u_state (u s') = US_FLUSH /\ u_wstate (u s) = WS_MAIN /\ u_wstate (u s') = WS_AFTER /\
    bytes = [] /\ remaining_u s = [] /\ remaining_u s' = nl_text (k_cr (k s))) \/
   (u_wstate (u s) = WS_AFTER /\ u_wstate (u s') = WS_AFTER /\ bytes ++ remaining_u s' = remaining_u s /\
    (u_state (u s') = US_FLUSH \/ (u_state (u s') = u_wafter (u s) /\ remaining_u s' = [])))).

Lemma wstate_after_dec : forall x : wstate, {x = WS_AFTER} + {x <> WS_AFTER}.
Proof. intros x. destruct x; (left; reflexivity) || (right; discriminate). Qed.

Lemma ustep_refl : forall s, u_state (u s) = US_FLUSH -> ustep_rel s s [].
Proof.
  intros s F. split; [reflexivity|]. destruct (wstate_after_dec (u_wstate (u s))) as [A|A].
  - right. right. repeat split; auto.
  - left. repeat split; auto.
Qed.

Lemma ustep_char : forall s ch rest, u_state (u s) = US_FLUSH ->
  phase_rest (u_wbuf (u s)) (ubuf s) (u_position (u s)) = ch :: rest ->
  ustep_rel s (setu_position (S (u_position (u s))) s) [ch].
Proof.
  intros s ch rest F P. pose proof (remaining_u_char s ch rest P) as R.
  split; [reflexivity|]. destruct (wstate_after_dec (u_wstate (u s))) as [A|A].
  - right. right. repeat split; auto.
  - left. repeat split; auto.
Qed.

Lemma ustep_upart : forall s s1 s2 bytes, ustep_rel s s1 bytes -> upart s2 = upart s1 -> ustep_rel s s2 bytes.
Proof.
  intros s s1 s2 bytes H U. destruct (remaining_u_upart _ _ U) as (R & Wa & Ws & St).
  unfold ustep_rel in *. rewrite R, Wa, Ws, St. exact H.
Qed.

Lemma flush_step_u_none : forall s s', u_state (u s) = US_FLUSH -> flush_step_u s = (s', None) ->
  ustep_rel s s' [].
Proof.
  intros s s' F H. unfold flush_step_u in H.
  destruct (wbuf_char (u_wbuf (u s)) (ubuf s) (u_position (u s))) as [c|] eqn:E.
  2:{ inversion H; subst. apply (ustep_upart s s); [apply ustep_refl; exact F|reflexivity]. }
  destruct (c =? 0)%N eqn:E0; [|discriminate]. apply N.eqb_eq in E0. subst c.
  inversion H; subst. clear H.
  assert (R : phase_rest (u_wbuf (u s)) (ubuf s) (u_position (u s)) = []).
  { unfold phase_rest. apply text_of_zero_nil. rewrite <- wbuf_char_nth. exact E. }
  unfold phase_switch_u. destruct (u_wstate (u s)) eqn:W.
  - split; [reflexivity|]. left. scbn. repeat split; try congruence; try discriminate.
    unfold remaining_u. scbn. rewrite W, R. reflexivity.
  - split; [reflexivity|]. right. left. scbn. repeat split; try congruence.
    + unfold remaining_u. rewrite W. exact R.
    + unfold remaining_u, phase_rest. scbn. cbn [wb_text skipn]. apply text_of_nl.
  - split; [reflexivity|]. right. right. scbn.
    assert (R' : remaining_u s = []) by (unfold remaining_u; rewrite W; exact R).
    assert (R'' : remaining_u (setu_state (u_wafter (u s)) s) = []).
    { unfold remaining_u. scbn. rewrite W. exact R. }
    repeat split; try congruence. right. split; [reflexivity|exact R''].
Qed.

Lemma remaining_u_fresh : forall s after,
  remaining_u (setu_state US_FLUSH (start_flush_u after s)) = nl_text (k_cr (k s)) ++ text_of (ubuf s).
Proof.
  intros s after. unfold remaining_u, start_flush_u, phase_rest. scbn. cbn [wb_text skipn].
  rewrite text_of_nl. reflexivity.
Qed.

Theorem C11_remaining_fresh_proof : forall s after uafter,
  remaining (setk_state CS_FLUSH (start_flush_c after s)) =
    nl_text (k_cr (k s)) ++ text_of (cbuf s) ++ nl_text (k_cr (k s)) /\
  remaining (setk_state CS_FLUSH (start_flush_raw_c after s)) = text_of (cbuf s) /\
  remaining_u (setu_state US_FLUSH (start_flush_u uafter s)) = nl_text (k_cr (k s)) ++ text_of (ubuf s).
Proof.
  intros s after uafter. split; [apply remaining_fresh|]. split; [apply remaining_fresh_raw|apply remaining_u_fresh].
Qed.
Section World2.
Variable D : desc.
Variables ioS muS hS : Type.
Variable io_read : ioS -> ioS * option N.
Variable io_write : ioS -> N -> ioS * bool.
Variable mu_lock : muS -> muS * bool.
Variable mu_unlock : muS -> muS * bool.
Variable h_call : hS -> hreq -> hS * hres.

Local Notation world := (Fsm.world ioS muS hS).
Local Notation mkWorld := (Fsm.mkWorld ioS muS hS).
Local Notation st := (Fsm.st ioS muS hS).
Local Notation tr := (Fsm.tr ioS muS hS).
Local Notation io := (Fsm.io ioS muS hS).
Local Notation mu := (Fsm.mu ioS muS hS).
Local Notation hs := (Fsm.hs ioS muS hS).
Local Notation logw := (Fsm.logw ioS muS hS).
Local Notation upd_st := (Fsm.upd_st ioS muS hS).
Local Notation set_st := (Fsm.set_st ioS muS hS).
Local Notation set_io := (Fsm.set_io ioS muS hS).
Local Notation set_mu := (Fsm.set_mu ioS muS hS).
Local Notation set_hs := (Fsm.set_hs ioS muS hS).
Local Notation busy := (Fsm.busy ioS muS hS).
Local Notation bracket := (Fsm.bracket D ioS muS hS mu_lock mu_unlock).
Local Notation api_trigger := (Fsm.api_trigger D ioS muS hS mu_lock mu_unlock).
Local Notation api_hold_exit := (Fsm.api_hold_exit D ioS muS hS mu_lock mu_unlock).
Local Notation apply_icall := (Fsm.apply_icall D ioS muS hS mu_lock mu_unlock).
Local Notation call_h := (Fsm.call_h D ioS muS hS mu_lock mu_unlock h_call).
Local Notation read_cmd_char := (Fsm.read_cmd_char ioS muS hS io_read).
Local Notation reading := (Fsm.reading ioS muS hS io_read).
Local Notation parse_write_args := (Fsm.parse_write_args D ioS muS hS mu_lock mu_unlock h_call).
Local Notation format_read_args := (Fsm.format_read_args D ioS muS hS mu_lock mu_unlock h_call).
Local Notation process_write_loop := (Fsm.process_write_loop D ioS muS hS mu_lock mu_unlock h_call).
Local Notation process_run_loop := (Fsm.process_run_loop D ioS muS hS mu_lock mu_unlock h_call).
Local Notation process_rt_loop := (Fsm.process_rt_loop D ioS muS hS mu_lock mu_unlock h_call).
Local Notation process_io_write := (Fsm.process_io_write ioS muS hS io_write).
Local Notation unsolicited_process_io_write := (Fsm.unsolicited_process_io_write ioS muS hS io_write).
Local Notation unsolicited_events_service :=
  (Fsm.unsolicited_events_service D ioS muS hS io_write mu_lock mu_unlock h_call).
Local Notation cmd_service :=
  (Fsm.cmd_service D ioS muS hS io_read io_write mu_lock mu_unlock h_call).
Local Notation service_body :=
  (Fsm.service_body D ioS muS hS io_read io_write mu_lock mu_unlock h_call).

Ltac wsimpl := cbn [Fsm.st Fsm.tr Fsm.io Fsm.mu Fsm.hs Fsm.set_st Fsm.set_io Fsm.set_mu Fsm.set_hs
                    Fsm.logw Fsm.upd_st Fsm.busy fst snd].

(* event-side read/test handler requests *)
Definition uns_req (q : hreq) : bool :=
  match q with HRead UNSOL _ _ _ _ | HTest UNSOL _ _ _ _ => true | _ => false end.
(* the application never answers HOLD from an event-side handler (D3: out of contract) *)
Definition no_uns_hold : Prop :=
  forall h q, uns_req q = true -> r_code (snd (h_call h q)) <> RC_HOLD.

(* w was reached from w0 by steps that respect the state frame R and logged no write event *)
Definition wfr (R : state -> state -> Prop) (w0 w : world) : Prop :=
  R (st w0) (st w) /\ exists evs, tr w = evs ++ tr w0 /\ nowr evs = true.

Lemma wfr_refl : forall b f w, wfr (fr b f) w w.
Proof. intros. split; [apply fr_refl|]. exists []. split; reflexivity. Qed.
Lemma wfr_set_st : forall R w0 w s', wfr R w0 w -> (R (st w0) (st w) -> R (st w0) s') -> wfr R w0 (set_st s' w).
Proof. intros R w0 w s' [H1 H2] H. split; [exact (H H1)|exact H2]. Qed.
Lemma wfr_upd_st : forall R w0 w g, wfr R w0 w -> (R (st w0) (st w) -> R (st w0) (g (st w))) ->
  wfr R w0 (upd_st g w).
Proof. intros R w0 w g [H1 H2] H. split; [exact (H H1)|exact H2]. Qed.
Lemma wfr_set_io : forall R w0 w v, wfr R w0 w -> wfr R w0 (set_io v w).
Proof. intros R w0 w v H. exact H. Qed.
Lemma wfr_set_hs : forall R w0 w v, wfr R w0 w -> wfr R w0 (set_hs v w).
Proof. intros R w0 w v H. exact H. Qed.
Lemma wfr_set_mu : forall R w0 w v, wfr R w0 w -> wfr R w0 (set_mu v w).
Proof. intros R w0 w v H. exact H. Qed.
Lemma wfr_logw : forall R w0 w e, nowr [e] = true -> wfr R w0 w -> wfr R w0 (logw e w).
Proof.
  intros R w0 w e He [H1 (evs & H2 & H3)]. split; [exact H1|].
  exists (e :: evs). split.
  - cbn [Fsm.logw Fsm.tr]. rewrite H2. reflexivity.
  - change (e :: evs) with ([e] ++ evs). rewrite nowr_app, He, H3. reflexivity.
Qed.

Ltac ws :=
  repeat first
    [ assumption
    | apply wfr_refl
    | apply wfr_set_io | apply wfr_set_hs | apply wfr_set_mu
    | apply wfr_logw; [reflexivity|] ].
Ltac wsimpl_all := cbn [Fsm.st Fsm.tr Fsm.io Fsm.mu Fsm.hs Fsm.set_st Fsm.set_io Fsm.set_mu Fsm.set_hs
                    Fsm.logw Fsm.upd_st Fsm.busy fst snd] in *.

Lemma bracket_fr : forall b f w0 w (body : world -> world * Z),
  (forall w1, wfr (fr b f) w0 w1 -> wfr (fr b f) w0 (fst (body w1))) ->
  wfr (fr b f) w0 w -> wfr (fr b f) w0 (fst (bracket w body)).
Proof.
  intros b f w0 w body Hb H. unfold Fsm.bracket.
  destruct (d_mutex D); [|apply Hb; exact H].
  destruct (mu_lock (mu w)) as [m1 ok]. destruct ok; cbn [negb].
  - assert (H1 : wfr (fr b f) w0 (logw (ELock true) (set_mu m1 w))) by ws.
    apply Hb in H1. destruct (body (logw (ELock true) (set_mu m1 w))) as [w2 r]. cbn [fst] in H1.
    destruct (mu_unlock (mu w2)) as [m2 ok2]. destruct ok2; cbn [negb fst]; ws.
  - cbn [fst]. ws.
Qed.

Lemma apply_icall_fr : forall b f w0 w c, wfr (fr b f) w0 w -> wfr (fr b f) w0 (apply_icall w c).
Proof.
  intros b f w0 w c H. unfold Fsm.apply_icall.
  assert (G : wfr (fr b f) w0 (fst (match c with
                 | ITrigger ci t => api_trigger w ci t
                 | IHoldExit status => api_hold_exit w status end))).
  { destruct c as [ci t|z]; [unfold Fsm.api_trigger | unfold Fsm.api_hold_exit];
      apply bracket_fr; try exact H; intros w1 H1.
    - destruct (push_unsolicited_cmd D (st w1) ci t) as [s' r] eqn:E. cbn [fst].
      apply (f_equal fst) in E. cbn [fst] in E. subst s'.
      apply wfr_set_st; [exact H1|]. intro. auto with fr.
    - destruct (hold_exit (st w1) z) as [s' r] eqn:E. cbn [fst].
      apply (f_equal fst) in E. cbn [fst] in E. subst s'.
      apply wfr_set_st; [exact H1|]. intro. auto with fr. }
  destruct (match c with ITrigger ci t => api_trigger w ci t | IHoldExit status => api_hold_exit w status end)
    as [w' r]. cbn [fst] in G. ws.
Qed.

Lemma fold_icall_fr : forall b f w0 l w, wfr (fr b f) w0 w -> wfr (fr b f) w0 (fold_left apply_icall l w).
Proof.
  intros b f w0 l. induction l as [|c l IH]; intros w H; cbn [fold_left]; [exact H|].
  apply IH. apply apply_icall_fr. exact H.
Qed.

Lemma call_h_fr : forall b f w0 w q, wfr (fr b f) w0 w -> wfr (fr b f) w0 (fst (call_h w q)).
Proof.
  intros b f w0 w q H. unfold Fsm.call_h. destruct (h_call (hs w) q) as [hs' r]. cbv zeta. cbn [fst].
  apply fold_icall_fr. apply wfr_upd_st; [ws|]. intro H1. wsimpl. auto with fr.
Qed.

Lemma call_h_snd : forall w q, snd (call_h w q) = snd (h_call (hs w) q).
Proof. intros. unfold Fsm.call_h. destruct (h_call (hs w) q). reflexivity. Qed.

(* ---- the state functions that talk to the environment ---- *)
Ltac brk_in t :=
  match t with
  | context [match ?x with _ => _ end] => first [ brk_in x | destruct x eqn:? ]
  end.
Ltac wcall :=
  match goal with
  | |- wfr ?R ?w0 (fst ?t) =>
    match t with
    | context [call_h ?w ?q] =>
      let H := fresh "Hc" in
      assert (H : wfr R w0 (fst (call_h w q))) by (apply call_h_fr; ws);
      let E := fresh "Ec" in
      destruct (call_h w q) eqn:E; cbn [fst] in H
    end
  end.
Ltac wmatch :=
  match goal with
  | |- wfr _ _ (fst (Fsm.busy _ _ _ _)) => unfold Fsm.busy; cbn [fst]
  | |- wfr _ _ (fst (_, _)) => cbn [fst]
  | |- wfr _ _ (fst ?t) => brk_in t
  | |- wfr _ _ ?t => brk_in t
  end.
Ltac wstate := first [ apply wfr_upd_st | apply wfr_set_st ]; [ ws | intro; wsimpl_all; try solve [fr_solve] ].
Ltac wgo := repeat (cbv beta iota zeta; first [ wcall | wmatch | progress ws | wstate ]).

Lemma read_cmd_char_fr : forall b w0 w, wfr (fr b ATCMD) w0 w -> wfr (fr b ATCMD) w0 (fst (read_cmd_char w)).
Proof. intros b w0 w H. unfold Fsm.read_cmd_char. wgo. Qed.

Lemma reading_fr : forall b w0 w body,
  (forall ch s, fr b ATCMD (st w0) s -> fr b ATCMD (st w0) (body ch s)) ->
  wfr (fr b ATCMD) w0 w -> wfr (fr b ATCMD) w0 (fst (reading w body)).
Proof.
  intros b w0 w body Hb H. unfold Fsm.reading.
  pose proof (read_cmd_char_fr b w0 w H) as R.
  destruct (read_cmd_char w) as [w1 got]. cbn [fst] in R.
  destruct (negb got); cbn [fst]; [exact R|]. unfold Fsm.busy. cbn [fst].
  apply wfr_upd_st; [exact R|]. intro H1. apply Hb. exact H1.
Qed.

Lemma parse_write_args_fr : forall b w0 w, wfr (fr b ATCMD) w0 w -> wfr (fr b ATCMD) w0 (fst (parse_write_args w)).
Proof. intros b w0 w H. unfold Fsm.parse_write_args. wgo. Qed.

Lemma format_read_args_fr : forall b f w0 w, wfr (fr b f) w0 w -> wfr (fr b f) w0 (fst (format_read_args f w)).
Proof. intros b f w0 w H. unfold Fsm.format_read_args. wgo. Qed.

Lemma process_write_loop_fr : forall b w0 w, wfr (fr b ATCMD) w0 w -> wfr (fr b ATCMD) w0 (fst (process_write_loop w)).
Proof. intros b w0 w H. unfold Fsm.process_write_loop. wgo. Qed.

Lemma process_run_loop_fr : forall b w0 w, wfr (fr b ATCMD) w0 w -> wfr (fr b ATCMD) w0 (fst (process_run_loop w)).
Proof. intros b w0 w H. unfold Fsm.process_run_loop. wgo. Qed.

Section Strict.
Variable b : bool.
Hypothesis Hnh : b = true -> no_uns_hold.

Lemma process_rt_loop_fr : forall rd f w0 w,
  wfr (fr b f) w0 w -> wfr (fr b f) w0 (fst (process_rt_loop rd f w)).
Proof.
  intros rd f w0 w H. unfold Fsm.process_rt_loop. cbv zeta.
  destruct (g_cmd f (st w)) as [ci|]; [|wgo].
  match goal with |- context [call_h w ?q0] => set (q := q0) end.
  assert (Hc : wfr (fr b f) w0 (fst (call_h w q))) by (apply call_h_fr; exact H).
  destruct (call_h w q) as [w1 r] eqn:Ec. cbn [fst] in Hc.
  assert (HH : (r_code r =? RC_HOLD)%Z = true -> f = UNSOL -> b = false).
  { intros E Hf. destruct b; [|reflexivity]. exfalso.
    apply (Hnh eq_refl (hs w) q).
    - subst f. unfold q. destruct rd; reflexivity.
    - rewrite <- call_h_snd, Ec. cbn [snd]. apply Z.eqb_eq. exact E. }
  unfold Fsm.busy. cbn [fst]. apply wfr_upd_st; [exact Hc|]. intro H1. cbv beta zeta.
  destruct (r_code r =? RC_HOLD)%Z eqn:EH.
  - specialize (HH eq_refl). fr_solve.
  - clear HH. fr_solve.
Qed.

Lemma unsolicited_process_io_write_wait_k : forall s, k (unsolicited_process_io_write_wait s) = k s.
Proof. intros s. unfold unsolicited_process_io_write_wait. destruct (negb _); reflexivity. Qed.

(* the event machine outside its two flush states *)
Lemma uns_service_fr : forall w, u_state (u (st w)) <> US_FLUSH -> u_state (u (st w)) <> US_FLUSH_WAIT ->
  wfr (fr b UNSOL) w (fst (unsolicited_events_service w)).
Proof.
  intros w H1 H2. unfold Fsm.unsolicited_events_service.
  destruct (u_state (u (st w))) eqn:E; try congruence;
    first [ apply format_read_args_fr; apply wfr_refl
          | apply process_rt_loop_fr; apply wfr_refl
          | wgo ].
Qed.

(* the command machine outside its two flush states *)
Lemma cmd_service_fr : forall w, k_state (k (st w)) <> CS_FLUSH -> k_state (k (st w)) <> CS_FLUSH_WAIT ->
  wfr (fr b ATCMD) w (fst (cmd_service w)).
Proof.
  intros w H1 H2. unfold Fsm.cmd_service.
  destruct (k_state (k (st w))) eqn:E; try congruence;
    first [ apply parse_write_args_fr; apply wfr_refl
          | apply format_read_args_fr; apply wfr_refl
          | apply process_write_loop_fr; apply wfr_refl
          | apply process_run_loop_fr; apply wfr_refl
          | apply process_rt_loop_fr; apply wfr_refl
          | (apply reading_fr; [ intros ch s Hs; fr_solve | apply wfr_refl ])
          | wgo ].
Qed.

End Strict.

(* ================================================================== *)
(* 6. exclusion, ownership, frames for one service call                 *)
(* ================================================================== *)

Lemma no_hyp_false : false = true -> no_uns_hold.
Proof. discriminate. Qed.

Lemma service_body_fst : forall w,
  fst (service_body w) = fst (cmd_service (fst (unsolicited_events_service w))).
Proof.
  intros w. unfold Fsm.service_body.
  destruct (unsolicited_events_service w) as [w1 us]. cbn [fst].
  destruct (cmd_service w1) as [w2 r]. cbn [fst].
  destruct (negb (us =? ST_OK)%Z || negb (ustate_beq (u_state (u (st w2))) US_IDLE)); reflexivity.
Qed.

Lemma cmd_service_wait : forall w, k_state (k (st w)) = CS_FLUSH_WAIT ->
  cmd_service w = (set_st (process_io_write_wait (st w)) w, ST_BUSY).
Proof. intros w H. unfold Fsm.cmd_service. rewrite H. reflexivity. Qed.
Lemma uns_service_wait : forall w, u_state (u (st w)) = US_FLUSH_WAIT ->
  unsolicited_events_service w = (set_st (unsolicited_process_io_write_wait (st w)) w, ST_BUSY).
Proof. intros w H. unfold Fsm.unsolicited_events_service. rewrite H. reflexivity. Qed.

Lemma cstate_flush_dec : forall x : cstate, {x = CS_FLUSH} + {x <> CS_FLUSH}.
Proof. intros x. destruct x; (left; reflexivity) || (right; discriminate). Qed.
Lemma cstate_wait_dec : forall x : cstate, {x = CS_FLUSH_WAIT} + {x <> CS_FLUSH_WAIT}.
Proof. intros x. destruct x; (left; reflexivity) || (right; discriminate). Qed.
Lemma ustate_flush_dec : forall x : ustate, {x = US_FLUSH} + {x <> US_FLUSH}.
Proof. intros x. destruct x; (left; reflexivity) || (right; discriminate). Qed.
Lemma ustate_wait_dec : forall x : ustate, {x = US_FLUSH_WAIT} + {x <> US_FLUSH_WAIT}.
Proof. intros x. destruct x; (left; reflexivity) || (right; discriminate). Qed.

(* what a step of the command machine in CS_FLUSH does: at most one write event, tagged ATCMD, of
   the byte under the cursor; the state moves by flush_step_c or (refusal) not at all *)
Lemma cmd_flush_summary : forall w, k_state (k (st w)) = CS_FLUSH ->
  let w' := fst (cmd_service w) in
  (tr w' = tr w /\ st w' = fst (flush_step_c (st w)) /\ snd (flush_step_c (st w)) = None) \/
  (exists ch ok rest, tr w' = EWr ATCMD ch ok :: tr w /\
     phase_rest (k_wbuf (k (st w))) (cbuf (st w)) (k_position (k (st w))) = ch :: rest /\
     st w' = if ok then setk_position (S (k_position (k (st w)))) (st w) else st w).
Proof.
  intros w H. cbv zeta. rewrite cmd_service_flush by exact H. rewrite process_io_write_eq.
  destruct (flush_step_c (st w)) as [s' [ch|]] eqn:E.
  - right. apply flush_step_c_some in E. destruct E as [E1 E2].
    destruct (io_write (io w) ch) as [io' ok]. exists ch, ok. eexists. cbn [fst].
    destruct ok; (split; [reflexivity|]; split; [exact E2|]); [exact E1|reflexivity].
  - left. cbn [fst snd]. repeat split; reflexivity.
Qed.

Lemma uns_flush_summary : forall w, u_state (u (st w)) = US_FLUSH ->
  let w' := fst (unsolicited_events_service w) in
  (tr w' = tr w /\ st w' = fst (flush_step_u (st w)) /\ snd (flush_step_u (st w)) = None) \/
  (exists ch ok rest, tr w' = EWr UNSOL ch ok :: tr w /\
     phase_rest (u_wbuf (u (st w))) (ubuf (st w)) (u_position (u (st w))) = ch :: rest /\
     st w' = if ok then setu_position (S (u_position (u (st w)))) (st w) else st w).
Proof.
  intros w H. cbv zeta. rewrite uns_service_flush by exact H. rewrite unsolicited_process_io_write_eq.
  destruct (flush_step_u (st w)) as [s' [ch|]] eqn:E.
  - right. apply flush_step_u_some in E. destruct E as [E1 E2].
    destruct (io_write (io w) ch) as [io' ok]. exists ch, ok. eexists. cbn [fst].
    destruct ok; (split; [reflexivity|]; split; [exact E2|]); [exact E1|reflexivity].
  - left. cbn [fst snd]. repeat split; reflexivity.
Qed.

(* ---- frame of the command machine's step, any state, any oracles ---- *)
Theorem C11_frame_cmd_proof : forall w, upart (st (fst (cmd_service w))) = upart (st w).
Proof.
  intros w. destruct (cstate_flush_dec (k_state (k (st w)))) as [F|F].
  - destruct (cmd_flush_summary w F) as [(_ & E & _) | (ch & ok & rest & _ & _ & E)]; rewrite E.
    + apply flush_step_c_upart.
    + destruct ok; reflexivity.
  - destruct (cstate_wait_dec (k_state (k (st w)))) as [W|W].
    + rewrite cmd_service_wait by exact W. cbn [fst Fsm.st Fsm.set_st].
      unfold process_io_write_wait. destruct (negb _); reflexivity.
    + destruct (cmd_service_fr false no_hyp_false w F W) as [[H _] _]. exact H.
Qed.

(* ---- frame of the event machine's step ---- *)
Lemma uns_frame_gen : forall b, (b = true -> no_uns_hold) -> forall w,
  let s := st w in let s' := st (fst (unsolicited_events_service w)) in
  kpart s' = kpart s /\
  (if b then k_state (k s') = k_state (k s) /\ k_hold (k s') = k_hold (k s)
   else k_state (k s') = k_state (k s) \/ k_state (k s') = CS_HOLD).
Proof.
  intros b Hnh w. cbv zeta. destruct (ustate_flush_dec (u_state (u (st w)))) as [F|F].
  - assert (G : k (st (fst (unsolicited_events_service w))) = k (st w) /\
                cbuf (st (fst (unsolicited_events_service w))) = cbuf (st w)).
    { destruct (uns_flush_summary w F) as [(_ & E & _) | (ch & ok & rest & _ & _ & E)]; rewrite E.
      - apply flush_step_u_k.
      - destruct ok; split; reflexivity. }
    destruct G as [G1 G2]. unfold kpart. rewrite G1, G2. split; [reflexivity|]. destruct b; auto.
  - destruct (ustate_wait_dec (u_state (u (st w)))) as [W|W].
    + rewrite uns_service_wait by exact W. cbn [fst Fsm.st Fsm.set_st].
      unfold kpart. rewrite unsolicited_process_io_write_wait_k.
      replace (cbuf (unsolicited_process_io_write_wait (st w))) with (cbuf (st w))
        by (unfold unsolicited_process_io_write_wait; destruct (negb _); reflexivity).
      split; [reflexivity|]. destruct b; auto.
    + destruct (uns_service_fr b Hnh w F W) as [(H1 & _ & H3) _]. split; assumption.
Qed.

Theorem C11_frame_uns_proof : forall w,
  let s := st w in let s' := st (fst (unsolicited_events_service w)) in
  kpart s' = kpart s /\ (k_state (k s') = k_state (k s) \/ k_state (k s') = CS_HOLD).
Proof. intros w. exact (uns_frame_gen false no_hyp_false w). Qed.

Theorem C11_frame_uns_nohold_proof : no_uns_hold -> forall w,
  let s := st w in let s' := st (fst (unsolicited_events_service w)) in
  kpart s' = kpart s /\ k_state (k s') = k_state (k s) /\ k_hold (k s') = k_hold (k s).
Proof. intros Hn w. exact (uns_frame_gen true (fun _ => Hn) w). Qed.

(* ---- the exclusion is preserved by each machine's step, hence by a service call ---- *)
Lemma uns_service_excl : forall w, excl (st w) -> excl (st (fst (unsolicited_events_service w))).
Proof.
  intros w X. destruct (C11_frame_uns_proof w) as [_ K]. cbv zeta in K.
  destruct (ustate_flush_dec (u_state (u (st w)))) as [F|F].
  - intros [A _]. apply X. split; [|exact F]. destruct K as [K|K]; congruence.
  - destruct (ustate_wait_dec (u_state (u (st w)))) as [W|W].
    + rewrite uns_service_wait by exact W. cbn [fst Fsm.st Fsm.set_st].
      destruct (C11_wait_uns_proof (st w) W) as (I & _ & E). intros [A B].
      destruct (cstate_flush_dec (k_state (k (st w)))) as [C|C].
      * rewrite (E C) in B. congruence.
      * rewrite unsolicited_process_io_write_wait_k in A. contradiction.
    + destruct (uns_service_fr false no_hyp_false w F W) as [(_ & H2 & _) _].
      intros [_ B]. apply F. apply H2. exact B.
Qed.

Lemma cmd_service_excl : forall w, excl (st w) -> excl (st (fst (cmd_service w))).
Proof.
  intros w X. pose proof (C11_frame_cmd_proof w) as U.
  assert (Us : u_state (u (st (fst (cmd_service w)))) = u_state (u (st w))).
  { unfold upart in U. inversion U. reflexivity. }
  destruct (cstate_flush_dec (k_state (k (st w)))) as [F|F].
  - intros [_ B]. apply X. split; [exact F|]. congruence.
  - destruct (cstate_wait_dec (k_state (k (st w)))) as [W|W].
    + intros [A B]. revert A. rewrite cmd_service_wait by exact W. cbn [fst Fsm.st Fsm.set_st].
      destruct (C11_wait_cmd_proof (st w) W) as (I & _ & _). intros A. apply I in A. congruence.
    + destruct (cmd_service_fr false no_hyp_false w F W) as [(_ & H2) _].
      intros [A _]. apply F. apply H2. exact A.
Qed.

Theorem C11_exclusion_preserved_proof : forall w, excl (st w) -> excl (st (fst (service_body w))).
Proof.
  intros w X. rewrite service_body_fst. apply cmd_service_excl. apply uns_service_excl. exact X.
Qed.

(* ---- the write events of each machine's step ---- *)
Lemma cmd_service_writes : forall w, exists evs,
  tr (fst (cmd_service w)) = evs ++ tr w /\
  (writes evs = [] \/
   exists ch ok rest, writes evs = [(ATCMD, ch, ok)] /\ k_state (k (st w)) = CS_FLUSH /\
     phase_rest (k_wbuf (k (st w))) (cbuf (st w)) (k_position (k (st w))) = ch :: rest).
Proof.
  intros w. destruct (cstate_flush_dec (k_state (k (st w)))) as [F|F].
  - destruct (cmd_flush_summary w F) as [(E & _) | (ch & ok & rest & E & P & _)].
    + exists []. split; [exact E|left; reflexivity].
    + exists [EWr ATCMD ch ok]. split; [exact E|]. right. exists ch, ok, rest. repeat split; assumption.
  - destruct (cstate_wait_dec (k_state (k (st w)))) as [W|W].
    + exists []. split; [|left; reflexivity]. rewrite cmd_service_wait by exact W. reflexivity.
    + destruct (cmd_service_fr false no_hyp_false w F W) as [_ (evs & E & N)].
      exists evs. split; [exact E|]. left. apply nowr_writes. exact N.
Qed.

Lemma uns_service_writes : forall w, exists evs,
  tr (fst (unsolicited_events_service w)) = evs ++ tr w /\
  (writes evs = [] \/
   exists ch ok rest, writes evs = [(UNSOL, ch, ok)] /\ u_state (u (st w)) = US_FLUSH /\
     phase_rest (u_wbuf (u (st w))) (ubuf (st w)) (u_position (u (st w))) = ch :: rest).
Proof.
  intros w. destruct (ustate_flush_dec (u_state (u (st w)))) as [F|F].
  - destruct (uns_flush_summary w F) as [(E & _) | (ch & ok & rest & E & P & _)].
    + exists []. split; [exact E|left; reflexivity].
    + exists [EWr UNSOL ch ok]. split; [exact E|]. right. exists ch, ok, rest. repeat split; assumption.
  - destruct (ustate_wait_dec (u_state (u (st w)))) as [W|W].
    + exists []. split; [|left; reflexivity]. rewrite uns_service_wait by exact W. reflexivity.
    + destruct (uns_service_fr false no_hyp_false w F W) as [_ (evs & E & N)].
      exists evs. split; [exact E|]. left. apply nowr_writes. exact N.
Qed.

(* ---- one service call: at most one write attempt, by the machine that owns the flush ---- *)
Theorem C11_one_writer_proof : forall w, excl (st w) ->
  exists evs, tr (fst (service_body w)) = evs ++ tr w /\
  (writes evs = [] \/
   (exists ch ok rest, writes evs = [(UNSOL, ch, ok)] /\ u_state (u (st w)) = US_FLUSH /\
      phase_rest (u_wbuf (u (st w))) (ubuf (st w)) (u_position (u (st w))) = ch :: rest) \/
   (exists ch ok rest, writes evs = [(ATCMD, ch, ok)] /\ k_state (k (st w)) = CS_FLUSH /\
      phase_rest (k_wbuf (k (st w))) (cbuf (st w)) (k_position (k (st w))) = ch :: rest)).
Proof.
  intros w X. rewrite service_body_fst.
  destruct (uns_service_writes w) as (e1 & T1 & W1).
  set (w1 := fst (unsolicited_events_service w)) in *.
  destruct (cmd_service_writes w1) as (e2 & T2 & W2).
  destruct (C11_frame_uns_proof w) as [KP K]. cbv zeta in KP, K. fold w1 in KP, K.
  exists (e2 ++ e1). split; [rewrite T2, T1; apply app_assoc|]. rewrite writes_app.
  destruct W2 as [W2 | (ch & ok & rest & W2 & F2 & P2)].
  - rewrite W2. cbn [app]. destruct W1 as [W1 | W1]; [left; exact W1 | right; left; exact W1].
  - assert (F : k_state (k (st w)) = CS_FLUSH) by (destruct K as [K|K]; congruence).
    destruct W1 as [W1 | (ch1 & ok1 & rest1 & _ & F1 & _)].
    + rewrite W1, W2. right. right. exists ch, ok, rest. split; [reflexivity|]. split; [exact F|].
      unfold kpart in KP. inversion KP. congruence.
    + exfalso. apply X. split; assumption.
Qed.

(* ================================================================== *)
(* 7. a command-response unit in flight, over any number of service     *)
(*    calls, arbitrary oracles                                          *)
(* ================================================================== *)

(* accepted bytes with their producer, of a history (oldest first) *)
Definition accepted_wr (h : list event) : list (fsm * N) :=
  flat_map (fun e => match e with EWr f ch true => [(f, ch)] | _ => [] end) h.

Lemma accepted_wr_app : forall a b, accepted_wr (a ++ b) = accepted_wr a ++ accepted_wr b.
Proof. intros. apply flat_map_app. Qed.
Lemma accepted_wr_nowr : forall evs, nowr evs = true -> accepted_wr (rev evs) = [].
Proof.
  induction evs as [|e evs IH]; intros H; [reflexivity|].
  cbn [nowr forallb] in H. apply andb_true_iff in H. destruct H as [H1 H2].
  cbn [rev]. rewrite accepted_wr_app, (IH H2). destruct e; try reflexivity. discriminate.
Qed.

(* the event machine's step while the command machine owns the flush *)
Lemma uns_step_in_cmd_flush : no_uns_hold -> forall w,
  k_state (k (st w)) = CS_FLUSH -> u_state (u (st w)) <> US_FLUSH ->
  let w1 := fst (unsolicited_events_service w) in
  kpart (st w1) = kpart (st w) /\ k_state (k (st w1)) = CS_FLUSH /\ u_state (u (st w1)) <> US_FLUSH /\
  exists evs, tr w1 = evs ++ tr w /\ nowr evs = true.
Proof.
  intros Hn w F X. cbv zeta.
  destruct (C11_frame_uns_nohold_proof Hn w) as (KP & KS & _). cbv zeta in KP, KS.
  split; [exact KP|]. split; [congruence|].
  destruct (ustate_wait_dec (u_state (u (st w)))) as [W|W].
  - rewrite uns_service_wait by exact W. cbn [fst Fsm.st Fsm.set_st Fsm.tr].
    destruct (C11_wait_uns_proof (st w) W) as (_ & _ & E). rewrite (E F).
    split; [exact X|]. exists []. split; reflexivity.
  - destruct (uns_service_fr true (fun _ => Hn) w X W) as [(_ & H2 & _) Hev].
    split; [|exact Hev]. intro B. apply X. apply H2. exact B.
Qed.

(* one service call while the command machine owns the flush: the accepted bytes of the call are
   the next bytes of the unit, all written by the command machine *)
Lemma session_step : no_uns_hold -> forall w,
  k_state (k (st w)) = CS_FLUSH -> u_state (u (st w)) <> US_FLUSH ->
  let w' := fst (service_body w) in
  exists evs bytes, tr w' = evs ++ tr w /\
    accepted_wr (rev evs) = map (pair ATCMD) bytes /\
    bytes ++ remaining (st w') = remaining (st w) /\
    k_wafter (k (st w')) = k_wafter (k (st w)) /\
    u_state (u (st w')) <> US_FLUSH /\
    (k_state (k (st w')) = CS_FLUSH \/
     (k_state (k (st w')) = k_wafter (k (st w)) /\ remaining (st w') = [])).
Proof.
  intros Hn w F X. cbv zeta. rewrite service_body_fst.
  destruct (uns_step_in_cmd_flush Hn w F X) as (KP & F1 & X1 & e1 & T1 & N1).
  set (w1 := fst (unsolicited_events_service w)) in *.
  destruct (remaining_kpart _ _ KP) as [R1 A1].
  pose proof (C11_frame_cmd_proof w1) as U.
  assert (Us : u_state (u (st (fst (cmd_service w1)))) = u_state (u (st w1))).
  { unfold upart in U. inversion U. reflexivity. }
  destruct (cmd_flush_summary w1 F1) as [(T2 & S2 & O2) | (ch & ok & rest & T2 & P2 & S2)].
  - exists e1, [].
    destruct (flush_step_c (st w1)) as [s2 o] eqn:E. cbn [fst snd] in *. subst o.
    destruct (flush_step_c_none _ _ E) as (Ra & Aa & _ & Ka).
    rewrite T2, S2. rewrite S2 in Us.
    split; [exact T1|]. split; [apply accepted_wr_nowr; exact N1|].
    split; [cbn [app]; congruence|]. split; [congruence|]. split; [congruence|].
    destruct Ka as [Ka|[Ka Rb]]; [left; congruence|right]. split; congruence.
  - exists (EWr ATCMD ch ok :: e1). destruct ok.
    + exists [ch]. rewrite T2, T1, S2. rewrite S2 in Us.
      split; [reflexivity|]. cbn [rev]. rewrite accepted_wr_app, (accepted_wr_nowr _ N1).
      split; [reflexivity|].
      split; [rewrite <- R1; symmetry; apply (remaining_char _ _ _ P2)|].
      split; [exact A1|]. split; [congruence|]. left. exact F1.
    + exists []. rewrite T2, T1, S2. rewrite S2 in Us.
      split; [reflexivity|]. cbn [rev]. rewrite accepted_wr_app, (accepted_wr_nowr _ N1).
      split; [reflexivity|]. split; [exact R1|]. split; [exact A1|]. split; [congruence|]. left. exact F1.
Qed.

(* n service calls *)
Definition svc_n (n : nat) (w : world) : world := iter n (fun w => fst (service_body w)) w.

Lemma svc_n_S : forall n w, svc_n (S n) w = fst (service_body (svc_n n w)).
Proof.
  unfold svc_n. induction n as [|n IH]; intros w; [reflexivity|].
  change (iter (S (S n)) (fun w0 => fst (service_body w0)) w)
    with (iter (S n) (fun w0 => fst (service_body w0)) (fst (service_body w))).
  rewrite IH. reflexivity.
Qed.

Theorem C11_session_proof : no_uns_hold -> forall w0,
  k_state (k (st w0)) = CS_FLUSH -> u_state (u (st w0)) <> US_FLUSH ->
  forall n, (forall m, m < n -> k_state (k (st (svc_n m w0))) = CS_FLUSH) ->
  exists evs bytes,
    tr (svc_n n w0) = evs ++ tr w0 /\
    accepted_wr (rev evs) = map (pair ATCMD) bytes /\
    bytes ++ remaining (st (svc_n n w0)) = remaining (st w0) /\
    u_state (u (st (svc_n n w0))) <> US_FLUSH /\
    (k_state (k (st (svc_n n w0))) <> CS_FLUSH ->
       bytes = remaining (st w0) /\ k_state (k (st (svc_n n w0))) = k_wafter (k (st w0))).
Proof.
  intros Hn w0 F0 X0 n.
  assert (G : (forall m, m < n -> k_state (k (st (svc_n m w0))) = CS_FLUSH) ->
    exists evs bytes,
      tr (svc_n n w0) = evs ++ tr w0 /\
      accepted_wr (rev evs) = map (pair ATCMD) bytes /\
      bytes ++ remaining (st (svc_n n w0)) = remaining (st w0) /\
      k_wafter (k (st (svc_n n w0))) = k_wafter (k (st w0)) /\
      u_state (u (st (svc_n n w0))) <> US_FLUSH /\
      (k_state (k (st (svc_n n w0))) = CS_FLUSH \/
       (k_state (k (st (svc_n n w0))) = k_wafter (k (st w0)) /\ remaining (st (svc_n n w0)) = []))).
  { induction n as [|n IH]; intros Hm.
    - exists [], []. cbn [svc_n iter]. repeat split; auto.
    - destruct IH as (evs & bytes & T & A & R & Wa & X & _); [intros m Hlt; apply Hm; lia|].
      assert (Fn : k_state (k (st (svc_n n w0))) = CS_FLUSH) by (apply Hm; lia).
      rewrite svc_n_S.
      destruct (session_step Hn (svc_n n w0) Fn X) as (e2 & b2 & T2 & A2 & R2 & W2 & X2 & K2).
      cbv zeta in *. exists (e2 ++ evs), (bytes ++ b2).
      split; [rewrite T2, T; apply app_assoc|].
      split; [rewrite rev_app_distr, accepted_wr_app, A, A2, map_app; reflexivity|].
      split; [rewrite <- app_assoc, R2; exact R|].
      split; [congruence|]. split; [exact X2|].
      destruct K2 as [K2|[K2 K3]]; [left; exact K2|right]. split; [congruence|exact K3]. }
  intros Hm. destruct (G Hm) as (evs & bytes & T & A & R & Wa & X & K).
  exists evs, bytes. repeat split; try assumption.
  - destruct K as [K|[_ K]]; [contradiction|]. rewrite K, app_nil_r in R. exact R.
  - destruct K as [K|[K _]]; [contradiction|exact K].
Qed.

(* ================================================================== *)
(* 8. the same, over any sequence of API operations (do_op / run)       *)
(* ================================================================== *)
Local Notation do_op := (Fsm.do_op D ioS muS hS io_read io_write mu_lock mu_unlock h_call).
Local Notation step := (Fsm.step D ioS muS hS io_read io_write mu_lock mu_unlock h_call).
Local Notation run := (Fsm.run D ioS muS hS io_read io_write mu_lock mu_unlock h_call).
Local Notation api_service := (Fsm.api_service D ioS muS hS io_read io_write mu_lock mu_unlock h_call).

(* every operation other than cat_service leaves both machines' registers, buffers and states
   alone and writes nothing *)
Lemma other_op_fr : forall b f w o, o <> OService -> wfr (fr b f) w (fst (do_op w o)).
Proof.
  intros b f w o Ho. destruct o; try congruence; cbn [Fsm.do_op fst].
  - unfold Fsm.api_trigger. apply bracket_fr; [|apply wfr_refl]. intros w1 H1.
    destruct (push_unsolicited_cmd D (st w1) ci t) as [s' r] eqn:E. cbn [fst].
    apply (f_equal fst) in E. cbn [fst] in E. subst s'.
    apply wfr_set_st; [exact H1|]. intro. auto with fr.
  - unfold Fsm.api_hold_exit. apply bracket_fr; [|apply wfr_refl]. intros w1 H1.
    destruct (hold_exit (st w1) status) as [s' r] eqn:E. cbn [fst].
    apply (f_equal fst) in E. cbn [fst] in E. subst s'.
    apply wfr_set_st; [exact H1|]. intro. auto with fr.
  - unfold Fsm.api_is_busy. apply bracket_fr; [|apply wfr_refl]. intros w1 H1. exact H1.
  - unfold Fsm.api_is_hold. apply bracket_fr; [|apply wfr_refl]. intros w1 H1. exact H1.
  - unfold Fsm.api_is_full. apply bracket_fr; [|apply wfr_refl]. intros w1 H1. exact H1.
  - apply wfr_refl.
  - apply wfr_refl.
  - apply wfr_upd_st; [apply wfr_refl|]. intro H. destruct f; exact H.
  - apply wfr_upd_st; [apply wfr_refl|]. intro H. destruct f; exact H.
Qed.

(* one API operation while the command machine owns the flush *)
Lemma session_op_step : no_uns_hold -> forall w o,
  k_state (k (st w)) = CS_FLUSH -> u_state (u (st w)) <> US_FLUSH ->
  let w' := step w o in
  exists evs bytes, tr w' = evs ++ tr w /\
    accepted_wr (rev evs) = map (pair ATCMD) bytes /\
    bytes ++ remaining (st w') = remaining (st w) /\
    k_wafter (k (st w')) = k_wafter (k (st w)) /\
    u_state (u (st w')) <> US_FLUSH /\
    (k_state (k (st w')) = CS_FLUSH \/
     (k_state (k (st w')) = k_wafter (k (st w)) /\ remaining (st w') = [])).
Proof.
  intros Hn w o F X. cbv zeta. unfold Fsm.step.
  assert (G : exists evs bytes, tr (fst (do_op w o)) = evs ++ tr w /\
    accepted_wr (rev evs) = map (pair ATCMD) bytes /\
    bytes ++ remaining (st (fst (do_op w o))) = remaining (st w) /\
    k_wafter (k (st (fst (do_op w o)))) = k_wafter (k (st w)) /\
    u_state (u (st (fst (do_op w o)))) <> US_FLUSH /\
    (k_state (k (st (fst (do_op w o)))) = CS_FLUSH \/
     (k_state (k (st (fst (do_op w o)))) = k_wafter (k (st w)) /\ remaining (st (fst (do_op w o))) = []))).
  { destruct (op_eq_service o) as [E|E].
    - subst o. cbn [Fsm.do_op]. unfold Fsm.api_service, Fsm.bracket.
      destruct (d_mutex D).
      + destruct (mu_lock (mu w)) as [m1 ok]. destruct ok; cbn [negb].
        * set (w1 := logw (ELock true) (set_mu m1 w)).
          destruct (session_step Hn w1 F X) as (e & bs & T & A & R & Wa & X2 & K2). cbv zeta in *.
          destruct (service_body w1) as [w2 r]. cbn [fst] in *.
          destruct (mu_unlock (mu w2)) as [m2 ok2].
          exists (EUnlock ok2 :: e ++ [ELock true]), bs.
          assert (T' : tr (logw (EUnlock ok2) (set_mu m2 w2)) = (EUnlock ok2 :: e ++ [ELock true]) ++ tr w).
          { cbn [Fsm.logw Fsm.tr Fsm.set_mu]. rewrite T. unfold w1. cbn [Fsm.logw Fsm.tr Fsm.set_mu].
            cbn [app]. rewrite <- app_assoc. reflexivity. }
          assert (A' : accepted_wr (rev (EUnlock ok2 :: e ++ [ELock true])) = map (pair ATCMD) bs).
          { cbn [rev]. rewrite accepted_wr_app, rev_app_distr, accepted_wr_app.
            cbn [rev accepted_wr flat_map app]. rewrite app_nil_r. exact A. }
          destruct ok2; cbn [negb fst]; (split; [exact T'|]; split; [exact A'|]);
            repeat split; assumption.
        * cbn [fst Fsm.logw Fsm.st Fsm.tr Fsm.set_mu]. exists [ELock false], [].
          repeat split; auto.
      + destruct (session_step Hn w F X) as (e & bs & H). exists e, bs. exact H.
    - destruct (other_op_fr true ATCMD w o E) as [[U _] (evs & T & N)].
      destruct (other_op_fr true UNSOL w o E) as [(KP & _ & KS & _) _].
      destruct (remaining_kpart _ _ KP) as [R Wa].
      exists evs, []. split; [exact T|]. split; [apply accepted_wr_nowr; exact N|].
      split; [exact R|]. split; [exact Wa|].
      split; [unfold upart in U; inversion U; congruence|]. left. congruence. }
  destruct (do_op w o) as [w' r]. cbn [fst] in G.
  destruct G as (evs & bytes & T & A & G). exists (ERet o r :: evs), bytes.
  cbn [Fsm.logw Fsm.tr Fsm.st]. split; [rewrite T; reflexivity|].
  split; [cbn [rev]; rewrite accepted_wr_app, A; cbn [accepted_wr flat_map]; apply app_nil_r|].
  exact G.
Qed.

Lemma run_snoc : forall w l o, run w (l ++ [o]) = step (run w l) o.
Proof. intros. unfold Fsm.run. rewrite fold_left_app. reflexivity. Qed.

Theorem C11_session_run_proof : no_uns_hold -> forall w0,
  k_state (k (st w0)) = CS_FLUSH -> u_state (u (st w0)) <> US_FLUSH ->
  forall ops,
  (forall m, m < length ops -> k_state (k (st (run w0 (firstn m ops)))) = CS_FLUSH) ->
  exists evs bytes,
    tr (run w0 ops) = evs ++ tr w0 /\
    accepted_wr (rev evs) = map (pair ATCMD) bytes /\
    bytes ++ remaining (st (run w0 ops)) = remaining (st w0) /\
    u_state (u (st (run w0 ops))) <> US_FLUSH /\
    (k_state (k (st (run w0 ops))) <> CS_FLUSH ->
       bytes = remaining (st w0) /\ k_state (k (st (run w0 ops))) = k_wafter (k (st w0))).
Proof.
  intros Hn w0 F0 X0 ops.
  assert (G : (forall m, m < length ops -> k_state (k (st (run w0 (firstn m ops)))) = CS_FLUSH) ->
    exists evs bytes,
      tr (run w0 ops) = evs ++ tr w0 /\
      accepted_wr (rev evs) = map (pair ATCMD) bytes /\
      bytes ++ remaining (st (run w0 ops)) = remaining (st w0) /\
      k_wafter (k (st (run w0 ops))) = k_wafter (k (st w0)) /\
      u_state (u (st (run w0 ops))) <> US_FLUSH /\
      (k_state (k (st (run w0 ops))) = CS_FLUSH \/
       (k_state (k (st (run w0 ops))) = k_wafter (k (st w0)) /\ remaining (st (run w0 ops)) = []))).
  { induction ops as [|o l IH] using rev_ind; intros Hm.
    - exists [], []. cbn [Fsm.run fold_left]. repeat split; auto.
    - assert (Hl : forall m, m <= length l -> firstn m (l ++ [o]) = firstn m l).
      { intros m Hle. rewrite firstn_app. replace (m - length l) with 0 by lia.
        cbn [firstn]. apply app_nil_r. }
      destruct IH as (evs & bytes & T & A & R & Wa & X & _).
      { intros m Hlt. rewrite <- Hl by lia. apply Hm. rewrite app_length. cbn [length]. lia. }
      assert (Fn : k_state (k (st (run w0 l))) = CS_FLUSH).
      { rewrite <- (firstn_all l), <- Hl by lia. apply Hm. rewrite app_length. cbn [length]. lia. }
      rewrite run_snoc.
      destruct (session_op_step Hn (run w0 l) o Fn X) as (e2 & b2 & T2 & A2 & R2 & W2 & X2 & K2).
      cbv zeta in *. exists (e2 ++ evs), (bytes ++ b2).
      split; [rewrite T2, T; apply app_assoc|].
      split; [rewrite rev_app_distr, accepted_wr_app, A, A2, map_app; reflexivity|].
      split; [rewrite <- app_assoc, R2; exact R|].
      split; [congruence|]. split; [exact X2|].
      destruct K2 as [K2|[K2 K3]]; [left; exact K2|right]. split; [congruence|exact K3]. }
  intros Hm. destruct (G Hm) as (evs & bytes & T & A & R & Wa & X & K).
  exists evs, bytes. repeat split; try assumption.
  - destruct K as [K|[_ K]]; [contradiction|]. rewrite K, app_nil_r in R. exact R.
  - destruct K as [K|[K _]]; [contradiction|exact K].
Qed.

(* ================================================================== *)
(* 9. an event unit in flight (no assumption on the handlers at all)    *)
(* ================================================================== *)

Lemma writes_nil_accepted : forall evs, writes evs = [] -> accepted_wr (rev evs) = [].
Proof.
  induction evs as [|e evs IH]; intros H; [reflexivity|].
  unfold writes in H. cbn [flat_map] in H. apply app_eq_nil in H. destruct H as [H1 H2].
  cbn [rev]. rewrite accepted_wr_app, (IH H2). destruct e; try reflexivity. discriminate.
Qed.

Lemma step_excl : forall w o, excl (st w) -> excl (st (step w o)).
Proof.
  intros w o X. unfold Fsm.step.
  assert (G : excl (st (fst (do_op w o)))).
  { destruct (op_eq_service o) as [E|E].
    - subst o. cbn [Fsm.do_op]. unfold Fsm.api_service, Fsm.bracket.
      destruct (d_mutex D); [|apply C11_exclusion_preserved_proof; exact X].
      destruct (mu_lock (mu w)) as [m1 ok]. destruct ok; cbn [negb]; [|exact X].
      pose proof (C11_exclusion_preserved_proof (logw (ELock true) (set_mu m1 w)) X) as G.
      destruct (service_body (logw (ELock true) (set_mu m1 w))) as [w2 r]. cbn [fst] in G.
      destruct (mu_unlock (mu w2)) as [m2 ok2]. destruct ok2; exact G.
    - destruct (other_op_fr true ATCMD w o E) as [[U _] _].
      destruct (other_op_fr true UNSOL w o E) as [(_ & _ & KS & _) _].
      unfold upart in U. inversion U. unfold excl in *. congruence. }
  destruct (do_op w o) as [w' r]. exact G.
Qed.

Lemma uns_session_svc : forall w, u_state (u (st w)) = US_FLUSH -> k_state (k (st w)) <> CS_FLUSH ->
  let w' := fst (service_body w) in
  exists evs bytes, tr w' = evs ++ tr w /\
    accepted_wr (rev evs) = map (pair UNSOL) bytes /\ ustep_rel (st w) (st w') bytes.
Proof.
  intros w F X. cbv zeta. rewrite service_body_fst.
  set (w1 := fst (unsolicited_events_service w)).
  assert (K1 : k_state (k (st w1)) <> CS_FLUSH).
  { destruct (C11_frame_uns_proof w) as [_ K]. cbv zeta in K. fold w1 in K. destruct K as [K|K]; congruence. }
  destruct (cmd_service_writes w1) as (e2 & T2 & W2).
  destruct W2 as [W2 | (ch & ok & rest & _ & F2 & _)]; [|contradiction].
  pose proof (C11_frame_cmd_proof w1) as U.
  pose proof (writes_nil_accepted _ W2) as A2.
  destruct (uns_flush_summary w F) as [(T1 & S1 & O1) | (ch & ok & rest & T1 & P1 & S1)]; fold w1 in T1, S1.
  - exists e2, []. split; [rewrite T2, T1; reflexivity|]. split; [exact A2|].
    apply (ustep_upart _ (st w1)); [|exact U]. rewrite S1.
    destruct (flush_step_u (st w)) as [s1 o] eqn:E. cbn [fst snd] in *. subst o.
    apply flush_step_u_none; assumption.
  - exists (e2 ++ [EWr UNSOL ch ok]). destruct ok.
    + exists [ch]. split; [rewrite T2, T1, <- app_assoc; reflexivity|].
      split; [rewrite rev_app_distr, accepted_wr_app, A2; reflexivity|].
      apply (ustep_upart _ (st w1)); [|exact U]. rewrite S1. eapply ustep_char; eassumption.
    + exists []. split; [rewrite T2, T1, <- app_assoc; reflexivity|].
      split; [rewrite rev_app_distr, accepted_wr_app, A2; reflexivity|].
      apply (ustep_upart _ (st w1)); [|exact U]. rewrite S1. apply ustep_refl. exact F.
Qed.

Lemma uns_session_op : forall w o, u_state (u (st w)) = US_FLUSH -> k_state (k (st w)) <> CS_FLUSH ->
  let w' := step w o in
  exists evs bytes, tr w' = evs ++ tr w /\
    accepted_wr (rev evs) = map (pair UNSOL) bytes /\ ustep_rel (st w) (st w') bytes.
Proof.
  intros w o F X. cbv zeta. unfold Fsm.step.
  assert (G : exists evs bytes, tr (fst (do_op w o)) = evs ++ tr w /\
    accepted_wr (rev evs) = map (pair UNSOL) bytes /\ ustep_rel (st w) (st (fst (do_op w o))) bytes).
  { destruct (op_eq_service o) as [E|E].
    - subst o. cbn [Fsm.do_op]. unfold Fsm.api_service, Fsm.bracket.
      destruct (d_mutex D).
      + destruct (mu_lock (mu w)) as [m1 ok]. destruct ok; cbn [negb].
        * set (w1 := logw (ELock true) (set_mu m1 w)).
          destruct (uns_session_svc w1 F X) as (e & bs & T & A & R). cbv zeta in *.
          destruct (service_body w1) as [w2 r]. cbn [fst] in *.
          destruct (mu_unlock (mu w2)) as [m2 ok2].
          exists (EUnlock ok2 :: e ++ [ELock true]), bs.
          assert (T' : tr (logw (EUnlock ok2) (set_mu m2 w2)) = (EUnlock ok2 :: e ++ [ELock true]) ++ tr w).
          { cbn [Fsm.logw Fsm.tr Fsm.set_mu]. rewrite T. unfold w1. cbn [Fsm.logw Fsm.tr Fsm.set_mu].
            cbn [app]. rewrite <- app_assoc. reflexivity. }
          assert (A' : accepted_wr (rev (EUnlock ok2 :: e ++ [ELock true])) = map (pair UNSOL) bs).
          { cbn [rev]. rewrite accepted_wr_app, rev_app_distr, accepted_wr_app.
            cbn [rev accepted_wr flat_map app]. rewrite app_nil_r. exact A. }
          destruct ok2; cbn [negb fst]; (split; [exact T'|]; split; [exact A'|]); exact R.
        * cbn [fst Fsm.logw Fsm.st Fsm.tr Fsm.set_mu]. exists [ELock false], [].
          split; [reflexivity|]. split; [reflexivity|]. apply ustep_refl. exact F.
      + exact (uns_session_svc w F X).
    - destruct (other_op_fr true ATCMD w o E) as [[U _] (evs & T & N)].
      exists evs, []. split; [exact T|]. split; [apply accepted_wr_nowr; exact N|].
      apply (ustep_upart _ (st w)); [apply ustep_refl; exact F|exact U]. }
  destruct (do_op w o) as [w' r]. cbn [fst] in G.
  destruct G as (evs & bytes & T & A & G). exists (ERet o r :: evs), bytes.
  cbn [Fsm.logw Fsm.tr Fsm.st]. split; [rewrite T; reflexivity|].
  split; [cbn [rev]; rewrite accepted_wr_app, A; cbn [accepted_wr flat_map]; apply app_nil_r|].
  exact G.
Qed.

(* the closing newline of an event unit is the newline text selected by k_cr when the payload
   has been sent (it may differ from the opening one: the command machine may have seen a CR
   in between); cr1 below is that value *)
Theorem C11_session_uns_run_proof : forall w0,
  u_state (u (st w0)) = US_FLUSH -> k_state (k (st w0)) <> CS_FLUSH ->
  u_wstate (u (st w0)) <> WS_AFTER ->
  forall ops,
  (forall m, m < length ops -> u_state (u (st (run w0 (firstn m ops)))) = US_FLUSH) ->
  let w := run w0 ops in
  exists evs bytes,
    tr w = evs ++ tr w0 /\
    accepted_wr (rev evs) = map (pair UNSOL) bytes /\
    (u_state (u (st w)) = US_FLUSH ->
       k_state (k (st w)) <> CS_FLUSH /\
       if wstate_beq (u_wstate (u (st w))) WS_AFTER
       then exists cr1, bytes ++ remaining_u (st w) = remaining_u (st w0) ++ nl_text cr1
       else bytes ++ remaining_u (st w) = remaining_u (st w0)) /\
    (u_state (u (st w)) <> US_FLUSH ->
       u_state (u (st w)) = u_wafter (u (st w0)) /\
       exists cr1, bytes = remaining_u (st w0) ++ nl_text cr1).
Proof.
  intros w0 F0 X0 A0 ops. cbv zeta.
  set (P := remaining_u (st w0)).
  assert (G : (forall m, m < length ops -> u_state (u (st (run w0 (firstn m ops)))) = US_FLUSH) ->
    exists evs bytes,
      tr (run w0 ops) = evs ++ tr w0 /\
      accepted_wr (rev evs) = map (pair UNSOL) bytes /\
      excl (st (run w0 ops)) /\
      u_wafter (u (st (run w0 ops))) = u_wafter (u (st w0)) /\
      ((u_state (u (st (run w0 ops))) = US_FLUSH /\ u_wstate (u (st (run w0 ops))) <> WS_AFTER /\
        bytes ++ remaining_u (st (run w0 ops)) = P) \/
       (u_wstate (u (st (run w0 ops))) = WS_AFTER /\
        (exists cr1, bytes ++ remaining_u (st (run w0 ops)) = P ++ nl_text cr1) /\
        (u_state (u (st (run w0 ops))) = US_FLUSH \/
         (u_state (u (st (run w0 ops))) = u_wafter (u (st w0)) /\ remaining_u (st (run w0 ops)) = []))))).
  { induction ops as [|o l IH] using rev_ind; intros Hm.
    - exists [], []. cbn [Fsm.run fold_left]. split; [reflexivity|]. split; [reflexivity|].
      split; [intros [A _]; contradiction|]. split; [reflexivity|]. left. repeat split; auto.
    - assert (Hl : forall m, m <= length l -> firstn m (l ++ [o]) = firstn m l).
      { intros m Hle. rewrite firstn_app. replace (m - length l) with 0 by lia.
        cbn [firstn]. apply app_nil_r. }
      destruct IH as (evs & bytes & T & A & X & Wa & J).
      { intros m Hlt. rewrite <- Hl by lia. apply Hm. rewrite app_length. cbn [length]. lia. }
      assert (Fn : u_state (u (st (run w0 l))) = US_FLUSH).
      { rewrite <- (firstn_all l), <- Hl by lia. apply Hm. rewrite app_length. cbn [length]. lia. }
      assert (Kn : k_state (k (st (run w0 l))) <> CS_FLUSH) by (intro K; apply X; split; assumption).
      rewrite run_snoc.
      pose proof (step_excl (run w0 l) o X) as X2.
      destruct (uns_session_op (run w0 l) o Fn Kn) as (e2 & b2 & T2 & A2 & (W2 & R2)).
      cbv zeta in *. exists (e2 ++ evs), (bytes ++ b2).
      split; [rewrite T2, T; apply app_assoc|].
      split; [rewrite rev_app_distr, accepted_wr_app, A, A2, map_app; reflexivity|].
      split; [exact X2|]. split; [congruence|].
      destruct J as [(_ & NA & R) | (IA & (cr1 & R) & _)].
      + destruct R2 as [(F2 & _ & NA2 & R2) | [(F2 & _ & IA2 & B2 & R2 & R2') | (IA & _)]]; [| |contradiction].
        * left. repeat split; try assumption. rewrite <- app_assoc, R2. exact R.
        * right. subst b2. rewrite R2 in R. rewrite !app_nil_r in *. repeat split; try assumption.
          -- exists (k_cr (k (st (run w0 l)))). rewrite R2', R. reflexivity.
          -- left. exact F2.
      + destruct R2 as [(_ & NA & _) | [(_ & M & _) | (_ & IA2 & R2 & S2)]]; [contradiction|congruence|].
        right. split; [exact IA2|]. split; [exists cr1; rewrite <- app_assoc, R2; exact R|].
        destruct S2 as [S2|[S2 S3]]; [left; exact S2|right]. split; [congruence|exact S3]. }
  intros Hm. destruct (G Hm) as (evs & bytes & T & A & X & Wa & J).
  exists evs, bytes. split; [exact T|]. split; [exact A|]. split.
  - intros F. split; [intro K; apply X; split; assumption|].
    destruct J as [(_ & NA & R) | (IA & R & _)].
    + destruct (u_wstate (u (st (run w0 ops)))); cbn [wstate_beq]; try exact R. congruence.
    + rewrite IA. cbn [wstate_beq]. exact R.
  - intros NF. destruct J as [(F & _) | (_ & (cr1 & R) & [F | [S R0]])]; try contradiction.
    split; [exact S|]. exists cr1. rewrite R0, app_nil_r in R. exact R.
Qed.

End World2.
