(* Properties_Inv3.v — the history theorems of Properties_C02h.v (C02 at history level: the command
   the machine finds is Spec.resolve of the name typed on the current line; the search fails only
   when resolve is None; every command-side callback is made for the resolved command, with the kind
   the suffix announces) under hypotheses on the handler oracle that hold on an INVARIANT of its
   state only (`_inv`), and their instances for the scripted worlds of Script.v (`_scripted`).
   Continuation of Properties_Inv.v / Properties_Inv2.v, same technique (Lemmas_Inv3.v: the run driven
   by h_call equals the run driven by the sanitised oracle h_san on the invariant; the existing
   theorem is applied to h_san; nothing is proved again).

   Hypotheses of Properties_C02h.v                 here
     no_uhold + handlers_valid (all oracle states)   HI h, HI_step : HI is preserved and every answer
                                                     given on HI is Good (`_inv`);  no_rt_hold h = true
                                                     and script_ok (res_calls_valid D) h = true (`_scripted`)
     flags_between_lines (Lemmas_C09.v)              the same predicate for h_call (`_inv`; it is computed
                                                     by stepping, and transferred: Lemmas_Inv3.fbl_san);
                                                     sc_flags_between_lines of Properties_Inv2.v (`_scripted`;
                                                     the predicate of Properties_C09c.v, equivalent:
                                                     flags_between_lines_same), decided by
                                                     no_flag_ops_between / flags_between_cons
     wf_desc, Forall valid_op                        unchanged; decided by wf_descb / valid_opb

   cur_line, typed_of, type_of, tyev, lstep, scan are those of Lemmas_C02h.v (restated as checked
   equations in Properties_C02h.v); needs_cmd is Lemmas_C09.needs_cmd; ev_side, call_state, kind_type
   are those of Lemmas_Calls.v.  `tr w` is newest first. *)
From Coq Require Import List NArith ZArith Bool Arith Lia.
From CatV Require Import Bytes Defs Codec Spec Fsm Script ResolveDefs SchedDefs TermDefs Skel SkelSim EvSkelSim Lemmas_C03.
From CatV Require Lemmas_C01s Lemmas_C09 Lemmas_Calls Properties_C09c.
From CatV Require Import Lemmas_C02h Lemmas_Inv Lemmas_Inv2.
From CatV Require Lemmas_Inv3.
Import ListNotations.
Local Open Scope nat_scope.

(* the two spellings of `the enable flags are changed only between lines` are the same predicate *)
Theorem flags_between_lines_same : forall D ioS muS hS io_read io_write mu_lock mu_unlock h_call ops
    (w : Fsm.world ioS muS hS),
  Properties_C09c.flags_between_lines D ioS muS hS io_read io_write mu_lock mu_unlock h_call w ops <->
  Lemmas_C09.flags_between_lines D ioS muS hS io_read io_write mu_lock mu_unlock h_call w ops.
Proof. exact Lemmas_Inv3.fbl_C09c. Qed.
Print Assumptions flags_between_lines_same.

(* ================================================================== *)
(* 1. generic oracle: every answer given on the invariant is Good       *)
(* ================================================================== *)
Section InvD3.
Variable D : desc.
Variables ioS muS hS : Type.
Variable io_read : ioS -> ioS * option N.
Variable io_write : ioS -> N -> ioS * bool.
Variable mu_lock : muS -> muS * bool.
Variable mu_unlock : muS -> muS * bool.
Variable h_call : hS -> hreq -> hS * hres.
Variable HI : hS -> Prop.
(* Good D q r: an event-side answer is not HOLD, and the inner calls of r are valid_icall D *)
Hypothesis HI_step : forall h q, HI h -> HI (fst (h_call h q)) /\ Good D q (snd (h_call h q)).

Notation world := (Fsm.world ioS muS hS).
Notation st := (Fsm.st ioS muS hS).
Notation hs := (Fsm.hs ioS muS hS).
Notation tr := (Fsm.tr ioS muS hS).
Notation run := (Fsm.run D ioS muS hS io_read io_write mu_lock mu_unlock h_call).
Notation step := (Fsm.step D ioS muS hS io_read io_write mu_lock mu_unlock h_call).
Notation init m x mx h := (mkWorld ioS muS hS (init_state D m) x mx h []).
Notation reach m x mx h ops := (run (init m x mx h) ops).
Notation flags_between_lines :=
  (Lemmas_C09.flags_between_lines D ioS muS hS io_read io_write mu_lock mu_unlock h_call).
Notation line w := (cur_line (Lemmas_C01s.consumed (tr w))).
Notation L T := (T D ioS muS hS io_read io_write mu_lock mu_unlock h_call HI HI_step).

(* the condition on the flag operations seen by the sanitised oracle is the one seen by h_call *)
Theorem Inv_flags_between_lines_san : forall ops (w : world), HI (hs w) ->
  (Lemmas_C09.flags_between_lines D ioS muS hS io_read io_write mu_lock mu_unlock (h_san D hS h_call) w ops <->
   flags_between_lines w ops).
Proof. exact (L Lemmas_Inv3.fbl_san). Qed.

Theorem C02_found_is_resolve_inv : forall m x mx h ops, HI h ->
  wf_desc D m -> Forall (valid_op D) ops ->
  flags_between_lines (init m x mx h) ops ->
  let w := reach m x mx h ops in
  k_state (k (st w)) = CS_COMMAND_FOUND ->
  k_cmd (k (st w)) = resolve (typed_of (line w)) (enabled D (st w)) (cmds D) /\
  k_cmd (k (st w)) <> None /\
  k_type (k (st w)) = type_of (line w).
Proof. exact (L Lemmas_Inv3.C02_found_is_resolve_inv). Qed.

Theorem C02_not_found_means_no_match_inv : forall m x mx h ops, HI h ->
  wf_desc D m -> Forall (valid_op D) ops ->
  flags_between_lines (init m x mx h) ops ->
  let w := reach m x mx h ops in
  k_state (k (st w)) = CS_COMMAND_NOT_FOUND ->
  resolve (typed_of (line w)) (enabled D (st w)) (cmds D) = None.
Proof. exact (L Lemmas_Inv3.C02_not_found_means_no_match_inv). Qed.

Theorem C02_search_fails_inv : forall m x mx h ops o, HI h ->
  wf_desc D m -> Forall (valid_op D) (ops ++ [o]) ->
  flags_between_lines (init m x mx h) ops ->
  let w := reach m x mx h ops in
  k_state (k (st w)) = CS_SEARCH_COMMAND ->
  k_state (k (st (step w o))) = CS_COMMAND_NOT_FOUND \/ k_state (k (st (step w o))) = CS_ERROR ->
  resolve (typed_of (line w)) (enabled D (st w)) (cmds D) = None.
Proof. exact (L Lemmas_Inv3.C02_search_fails_inv). Qed.

Theorem C02_handler_is_resolved_inv : forall m x mx h ops q code, HI h ->
  wf_desc D m -> Forall (valid_op D) ops ->
  let w0 := init m x mx h in
  flags_between_lines w0 ops ->
  In (ECall q code) (tr (run w0 ops)) -> Lemmas_Calls.ev_side q = false ->
  exists ops0 opsm ops2, ops = ops0 ++ opsm ++ OService :: ops2 /\
    let wf := run w0 ops0 in
    k_state (k (st wf)) = CS_COMMAND_FOUND /\
    resolve (typed_of (line wf)) (enabled D (st wf)) (cmds D) = Some (req_cmd q) /\
    k_type (k (st wf)) = type_of (line wf) /\
    (forall j, j <= length opsm -> Lemmas_C09.needs_cmd (st (run w0 (ops0 ++ firstn j opsm))) = true) /\
    let s := st (run w0 (ops0 ++ opsm)) in
    k_cmd (k s) = Some (req_cmd q) /\ k_state (k s) = Lemmas_Calls.call_state q /\
    k_type (k s) = Lemmas_Calls.kind_type q.
Proof. exact (L Lemmas_Inv3.C02_handler_is_resolved_inv). Qed.

Theorem C02_handler_kind_inv : forall m x mx h ops q code, HI h ->
  wf_desc D m -> Forall (valid_op D) ops ->
  let w0 := init m x mx h in
  flags_between_lines w0 ops ->
  In (ECall q code) (tr (run w0 ops)) -> Lemmas_Calls.ev_side q = false ->
  exists ops0 ops1, ops = ops0 ++ ops1 /\
    let wf := run w0 ops0 in
    k_state (k (st wf)) = CS_COMMAND_FOUND /\
    resolve (typed_of (line wf)) (enabled D (st wf)) (cmds D) = Some (req_cmd q) /\
    tyev (type_of (line wf)) (Lemmas_Calls.kind_type q).
Proof. exact (L Lemmas_Inv3.C02_handler_kind_inv). Qed.
End InvD3.

Print Assumptions Inv_flags_between_lines_san.
Print Assumptions C02_found_is_resolve_inv.
Print Assumptions C02_not_found_means_no_match_inv.
Print Assumptions C02_search_fails_inv.
Print Assumptions C02_handler_is_resolved_inv.
Print Assumptions C02_handler_kind_inv.

(* ================================================================== *)
(* 2. histories of API calls on scripted worlds                         *)
(* ================================================================== *)
Section Scripted3.
Variable D : desc.
Notation st := (Fsm.st sio smu shs).
Notation tr := (Fsm.tr sio smu shs).
Notation sreach m x mx h ops := (srun D (sinit D m x mx h) (map SOp ops)).
Notation line w := (cur_line (Lemmas_C01s.consumed (tr w))).

Theorem C02_found_is_resolve_scripted : forall m x mx h ops,
  wf_desc D m -> Forall (valid_op D) ops ->
  no_rt_hold h = true -> script_ok (res_calls_valid D) h = true ->
  sc_flags_between_lines D (sinit D m x mx h) ops ->
  let w := sreach m x mx h ops in
  k_state (k (st w)) = CS_COMMAND_FOUND ->
  k_cmd (k (st w)) = resolve (typed_of (line w)) (enabled D (st w)) (cmds D) /\
  k_cmd (k (st w)) <> None /\
  k_type (k (st w)) = type_of (line w).
Proof. exact (Lemmas_Inv3.C02_found_is_resolve_scripted D). Qed.

Theorem C02_not_found_means_no_match_scripted : forall m x mx h ops,
  wf_desc D m -> Forall (valid_op D) ops ->
  no_rt_hold h = true -> script_ok (res_calls_valid D) h = true ->
  sc_flags_between_lines D (sinit D m x mx h) ops ->
  let w := sreach m x mx h ops in
  k_state (k (st w)) = CS_COMMAND_NOT_FOUND ->
  resolve (typed_of (line w)) (enabled D (st w)) (cmds D) = None.
Proof. exact (Lemmas_Inv3.C02_not_found_means_no_match_scripted D). Qed.

Theorem C02_search_fails_scripted : forall m x mx h ops o,
  wf_desc D m -> Forall (valid_op D) (ops ++ [o]) ->
  no_rt_hold h = true -> script_ok (res_calls_valid D) h = true ->
  sc_flags_between_lines D (sinit D m x mx h) ops ->
  let w := sreach m x mx h ops in
  k_state (k (st w)) = CS_SEARCH_COMMAND ->
  k_state (k (st (sstep D w (SOp o)))) = CS_COMMAND_NOT_FOUND \/
  k_state (k (st (sstep D w (SOp o)))) = CS_ERROR ->
  resolve (typed_of (line w)) (enabled D (st w)) (cmds D) = None.
Proof. exact (Lemmas_Inv3.C02_search_fails_scripted D). Qed.

Theorem C02_handler_is_resolved_scripted : forall m x mx h ops q code,
  wf_desc D m -> Forall (valid_op D) ops ->
  no_rt_hold h = true -> script_ok (res_calls_valid D) h = true ->
  sc_flags_between_lines D (sinit D m x mx h) ops ->
  In (ECall q code) (tr (sreach m x mx h ops)) -> Lemmas_Calls.ev_side q = false ->
  exists ops0 opsm ops2, ops = ops0 ++ opsm ++ OService :: ops2 /\
    let wf := sreach m x mx h ops0 in
    k_state (k (st wf)) = CS_COMMAND_FOUND /\
    resolve (typed_of (line wf)) (enabled D (st wf)) (cmds D) = Some (req_cmd q) /\
    k_type (k (st wf)) = type_of (line wf) /\
    (forall j, j <= length opsm ->
       Lemmas_C09.needs_cmd (st (sreach m x mx h (ops0 ++ firstn j opsm))) = true) /\
    let s := st (sreach m x mx h (ops0 ++ opsm)) in
    k_cmd (k s) = Some (req_cmd q) /\ k_state (k s) = Lemmas_Calls.call_state q /\
    k_type (k s) = Lemmas_Calls.kind_type q.
Proof. exact (Lemmas_Inv3.C02_handler_is_resolved_scripted D). Qed.

Theorem C02_handler_kind_scripted : forall m x mx h ops q code,
  wf_desc D m -> Forall (valid_op D) ops ->
  no_rt_hold h = true -> script_ok (res_calls_valid D) h = true ->
  sc_flags_between_lines D (sinit D m x mx h) ops ->
  In (ECall q code) (tr (sreach m x mx h ops)) -> Lemmas_Calls.ev_side q = false ->
  exists ops0 ops1, ops = ops0 ++ ops1 /\
    let wf := sreach m x mx h ops0 in
    k_state (k (st wf)) = CS_COMMAND_FOUND /\
    resolve (typed_of (line wf)) (enabled D (st wf)) (cmds D) = Some (req_cmd q) /\
    tyev (type_of (line wf)) (Lemmas_Calls.kind_type q).
Proof. exact (Lemmas_Inv3.C02_handler_kind_scripted D). Qed.
End Scripted3.

Print Assumptions C02_found_is_resolve_scripted.
Print Assumptions C02_not_found_means_no_match_scripted.
Print Assumptions C02_search_fails_scripted.
Print Assumptions C02_handler_is_resolved_scripted.
Print Assumptions C02_handler_kind_scripted.

(* ================================================================== *)
(* 3. non-vacuity: a scripted run with refused reads inside the name,   *)
(*    an event popped in the middle of the name, a HOLD and its release  *)
(* ================================================================== *)
Module Examples.

Local Notation st := (Fsm.st sio smu shs).
Local Notation tr := (Fsm.tr sio smu shs).

Definition mkc (nm : list N) (hw hr hrun ht : bool) (vars : list var) (imp : bool) : cmd :=
  mkCmd nm None hw hr hrun ht vars false false imp.
Definition v_cb := mkVar None VUint 1 RW true true 0.
(* group 0:  0 "+GO" (run, test)   1 "+GET" (one uint8 variable with callbacks; read and write handlers)
             2 "+GO" again (run)
   group 1:  3 "+GONE" (run), disabled by the first operation *)
Definition D3 : desc :=
  mkDesc [[mkc [43;71;79]%N false false true true [] false;
           mkc [43;71;69;84]%N true true false false [v_cb] false;
           mkc [43;71;79]%N false false true false [] false];
          [mkc [43;71;79;78;69]%N false false true false [] false]]
         [] 32 None 0%N 2 false.
Definition m3 : list (list N) := [[7%N]].
(* aT+g CR et? CR LF    AT+GO LF    AT+G LF *)
Definition in3 : list N := [97;84;43;103;13;101;116;63;13;10; 65;84;43;71;79;10; 65;84;43;71;10]%N.
(* the read schedule refuses every second or third attempt, the write schedule three of the first seven *)
Definition x3 : sio :=
  mkSio in3 [true;false;true;false;false;true;true;false;true;true;false;true;true;false;true;true]
        [true;false;false;true;true;false;true].
(* the read handler of "+GET" answers DATA_OK; the run handler of "+GO" answers HOLD and triggers a
   read event of "+GET" from inside *)
Definition h3 : shs :=
  [((1, 1, 0), repeat (mkHres RC_DATA_OK None [] []) 3);
   ((2, 0, 0), [mkHres RC_HOLD None [] [ITrigger 1 T_READ]])].
(* after the flag operation: a READ event of "+GET" is triggered after 9 cat_service calls (the line
   so far is "aT+"), queries in between, cat_hold_exit(OK) after 154 calls *)
Definition tail3 : list op :=
  repeat OService 9 ++ [OTrigger 1 T_READ; OIsBusy] ++ repeat OService 8 ++ [OGetProcessed ATCMD] ++
  repeat OService 145 ++ [OHoldExit ST_OK] ++ repeat OService 60.
(* the history after n of these operations *)
Definition ops3 (n : nat) : list op := OSetCmdDisable 3 true :: firstn n tail3.
Local Notation w0 := (sinit D3 m3 x3 (mkSmu [] []) h3).
Local Notation W n := (srun D3 w0 (map SOp (ops3 n))).

Definition line_of (w : sworld) : list N := cur_line (Lemmas_C01s.consumed (tr w)).
(* state, selected command, request type; line in progress, typed name, announced type, resolve *)
Definition obs (w : sworld) :=
  (k_state (k (st w)), k_cmd (k (st w)), k_type (k (st w)),
   line_of w, typed_of (line_of w), type_of (line_of w),
   resolve (typed_of (line_of w)) (enabled D3 (st w)) (cmds D3)).
Definition calls (w : sworld) : list hreq :=
  flat_map (fun e => match e with ECall q _ => [q] | _ => [] end) (rev (tr w)).
Definition reads (w : sworld) : list (option N) :=
  flat_map (fun e => match e with ERd r => [r] | _ => [] end) (rev (tr w)).
Definition pops (w : sworld) : list (nat * ctype) :=
  flat_map (fun e => match e with EPop ci t => [(ci, t)] | _ => [] end) (rev (tr w)).
Definition written (w : sworld) : list N :=
  flat_map (fun e => match e with EWr _ ch true => [ch] | _ => [] end) (rev (tr w)).

(* ---- the hypotheses, by computation, for every prefix of the run ---- *)
Lemma forallb_firstn : forall (A : Type) (f : A -> bool) n l, forallb f l = true -> forallb f (firstn n l) = true.
Proof.
  intros A f. induction n as [|n IH]; intros [|a l] H; try reflexivity.
  cbn [firstn forallb] in *. apply andb_true_iff in H. destruct H as [Ha Hl].
  rewrite Ha, (IH l Hl). reflexivity.
Qed.
Lemma ex_wf : wf_desc D3 m3.
Proof. apply wf_descb_sound. vm_compute. reflexivity. Qed.
Lemma ex_valid : forall n, Forall (valid_op D3) (ops3 n).
Proof.
  intros n. apply valid_ops_sound. unfold ops3. cbn [forallb]. apply andb_true_iff. split; [reflexivity|].
  apply forallb_firstn. vm_compute. reflexivity.
Qed.
Lemma ex_no_rt_hold : no_rt_hold h3 = true.
Proof. vm_compute. reflexivity. Qed.
Lemma ex_calls_valid : script_ok (res_calls_valid D3) h3 = true.
Proof. vm_compute. reflexivity. Qed.
(* the one flag change is made while the command machine is idle *)
Lemma ex_flags : forall n, sc_flags_between_lines D3 w0 (ops3 n).
Proof.
  intros n. unfold ops3. apply flags_between_cons; [intros _; reflexivity|].
  apply no_flag_ops_between. apply forallb_firstn. vm_compute. reflexivity.
Qed.
(* HOLD does occur in the scripts, and an inner trigger *)
Example ex_holds : script_ok no_hold_res h3 = false.
Proof. vm_compute. reflexivity. Qed.

(* ---- what happened (computed) ---- *)
(* a. after 37 operations the machine is in CS_COMMAND_FOUND with command 1 = resolve "+GET", request
   type READ, line "aT+g CR et? CR LF"; six reads were refused between the bytes of the line; the READ
   event of "+GET" was popped when the line in progress was "aT+" (operation 12) and its answer was
   being written while the rest of the name arrived *)
Example ex_a :
  obs (W 37) = (CS_COMMAND_FOUND, Some 1, T_READ, firstn 10 in3, [43;71;69;84]%N, T_READ, Some 1) /\
  reads (W 37) =
    [Some 97; None; Some 84; None; None; Some 43; Some 103; None; Some 13; Some 101; None;
     Some 116; Some 63; None; Some 13; Some 10]%N /\
  (pops (W 11), line_of (W 11)) = ([], [97;84;43]%N) /\
  (pops (W 12), line_of (W 12)) = ([(1, T_READ)], [97;84;43]%N) /\
  (pops (W 13), line_of (W 13)) = ([(1, T_READ)], [97;84;43;103]%N) /\
  calls (W 37) = [VRead UNSOL 1 0; HRead UNSOL 1 [43;71;69;84;61;55;0]%N 6 16].
Proof. vm_compute. repeat split; reflexivity. Qed.

(* b. "AT+GO": CS_COMMAND_FOUND after 85 operations with the first "+GO" in registration order; its run
   handler holds; c. "AT+G" is ambiguous ("+GO", "+GET", "+GO"; "+GONE" is disabled): the search is left
   for CS_COMMAND_NOT_FOUND by operation 193, resolve = None, nothing is called for that line *)
Example ex_b :
  obs (W 85) = (CS_COMMAND_FOUND, Some 0, T_RUN, [65;84;43;71;79;10]%N, [43;71;79]%N, T_RUN, Some 0) /\
  k_state (k (st (W 150))) = CS_HOLD.
Proof. vm_compute. split; reflexivity. Qed.
Example ex_c :
  k_state (k (st (W 192))) = CS_SEARCH_COMMAND /\
  obs (W 193) = (CS_COMMAND_NOT_FOUND, Some 2, T_RUN, [65;84;43;71;10]%N, [43;71]%N, T_RUN, None) /\
  ops3 193 = ops3 192 ++ [OService].
Proof. vm_compute. repeat split; reflexivity. Qed.
(* the whole run: callbacks in order (event, read, run, event from inside the handler) and the output *)
Example ex_all :
  length tail3 = 226 /\
  calls (W 226) =
    [VRead UNSOL 1 0; HRead UNSOL 1 [43;71;69;84;61;55;0]%N 6 16;
     VRead ATCMD 1 0; HRead ATCMD 1 [43;71;69;84;61;55;0]%N 6 16;
     HRun 0;
     VRead UNSOL 1 0; HRead UNSOL 1 [43;71;69;84;61;55;0]%N 6 16] /\
  written (W 226) =
    [10;43;71;69;84;61;55;13;10;                (* event: +GET=7 (CRLF newline: CR seen on the line) *)
     13;10;43;71;69;84;61;55;13;10; 13;10;79;75;13;10;   (* aT+g CR et? CR LF: +GET=7 OK *)
     10;43;71;69;84;61;55;10;                   (* event triggered by the run handler, while held *)
     10;79;75;10;                               (* AT+GO after the release: OK *)
     10;69;82;82;79;82;10]%N /\                 (* AT+G: ERROR *)
  k_state (k (st (W 226))) = CS_IDLE.
Proof. vm_compute. repeat split; reflexivity. Qed.

(* ---- the theorems APPLIED to these worlds (hypotheses discharged above, nothing unfolded) ---- *)
Definition found (w : sworld) : Prop := k_state (k (st w)) = CS_COMMAND_FOUND.
Definition found_concl (w : sworld) : Prop :=
  k_cmd (k (st w)) = resolve (typed_of (line_of w)) (enabled D3 (st w)) (cmds D3) /\
  k_cmd (k (st w)) <> None /\ k_type (k (st w)) = type_of (line_of w).
Definition no_match (w : sworld) : Prop :=
  resolve (typed_of (line_of w)) (enabled D3 (st w)) (cmds D3) = None.

Lemma found_applies : forall n, found (W n) -> found_concl (W n).
Proof.
  intros n H.
  exact (C02_found_is_resolve_scripted D3 m3 x3 (mkSmu [] []) h3 (ops3 n) ex_wf (ex_valid n)
           ex_no_rt_hold ex_calls_valid (ex_flags n) H).
Qed.
Lemma found_37 : found (W 37). Proof. vm_compute. reflexivity. Qed.
Lemma found_85 : found (W 85). Proof. vm_compute. reflexivity. Qed.
Example ex_found_applied : found_concl (W 37) /\ found_concl (W 85).
Proof. exact (conj (found_applies 37 found_37) (found_applies 85 found_85)). Qed.

Lemma not_found_applies : forall n, k_state (k (st (W n))) = CS_COMMAND_NOT_FOUND -> no_match (W n).
Proof.
  intros n H.
  exact (C02_not_found_means_no_match_scripted D3 m3 x3 (mkSmu [] []) h3 (ops3 n) ex_wf (ex_valid n)
           ex_no_rt_hold ex_calls_valid (ex_flags n) H).
Qed.
Lemma not_found_193 : k_state (k (st (W 193))) = CS_COMMAND_NOT_FOUND. Proof. vm_compute. reflexivity. Qed.
Example ex_not_found_applied : no_match (W 193).
Proof. exact (not_found_applies 193 not_found_193). Qed.

(* the step that leaves the search: operation 193, an instance of C02_search_fails_scripted *)
Lemma search_fails_applies : forall n, Forall (valid_op D3) (ops3 n ++ [OService]) ->
  k_state (k (st (W n))) = CS_SEARCH_COMMAND ->
  k_state (k (st (sstep D3 (W n) (SOp OService)))) = CS_COMMAND_NOT_FOUND \/
  k_state (k (st (sstep D3 (W n) (SOp OService)))) = CS_ERROR ->
  no_match (W n).
Proof.
  intros n F H1 H2.
  exact (C02_search_fails_scripted D3 m3 x3 (mkSmu [] []) h3 (ops3 n) OService ex_wf F
           ex_no_rt_hold ex_calls_valid (ex_flags n) H1 H2).
Qed.
Lemma valid_192 : Forall (valid_op D3) (ops3 192 ++ [OService]).
Proof. apply valid_ops_sound. vm_compute. reflexivity. Qed.
Lemma search_192 : k_state (k (st (W 192))) = CS_SEARCH_COMMAND. Proof. vm_compute. reflexivity. Qed.
Lemma leaves_192 : k_state (k (st (sstep D3 (W 192) (SOp OService)))) = CS_COMMAND_NOT_FOUND \/
                   k_state (k (st (sstep D3 (W 192) (SOp OService)))) = CS_ERROR.
Proof. left. vm_compute. reflexivity. Qed.
Example ex_search_fails_applied : no_match (W 192).
Proof. exact (search_fails_applies 192 valid_192 search_192 leaves_192). Qed.

(* every command-side callback of the whole run was made for resolve (typed name of its line), with
   the kind its suffix announces: the read of "+GET" typed as "aT+g CR et?", the run of "+GO" *)
Definition resolved_kind (n : nat) (q : hreq) : Prop :=
  exists ops0 ops1, ops3 n = ops0 ++ ops1 /\
    let wf := srun D3 w0 (map SOp ops0) in
    k_state (k (st wf)) = CS_COMMAND_FOUND /\
    resolve (typed_of (line_of wf)) (enabled D3 (st wf)) (cmds D3) = Some (req_cmd q) /\
    tyev (type_of (line_of wf)) (Lemmas_Calls.kind_type q).
Lemma kind_applies : forall n q code, In (ECall q code) (tr (W n)) -> Lemmas_Calls.ev_side q = false ->
  resolved_kind n q.
Proof.
  intros n q code Hin Hev.
  exact (C02_handler_kind_scripted D3 m3 x3 (mkSmu [] []) h3 (ops3 n) q code ex_wf (ex_valid n)
           ex_no_rt_hold ex_calls_valid (ex_flags n) Hin Hev).
Qed.
(* the first recorded call (newest first) of a given shape *)
Definition find_call (f : hreq -> bool) (w : sworld) : option event :=
  find (fun e => match e with ECall q _ => f q | _ => false end) (tr w).
Lemma find_call_In : forall f w q code, find_call f w = Some (ECall q code) -> In (ECall q code) (tr w).
Proof. intros f w q code H. apply find_some in H. exact (proj1 H). Qed.
Lemma read_in_trace :
  find_call (fun q => match q with HRead ATCMD _ _ _ _ => true | _ => false end) (W 226) =
  Some (ECall (HRead ATCMD 1 [43;71;69;84;61;55;0]%N 6 16) RC_DATA_OK).
Proof. vm_compute. reflexivity. Qed.
Lemma run_in_trace :
  find_call (fun q => match q with HRun _ => true | _ => false end) (W 226) = Some (ECall (HRun 0) RC_HOLD).
Proof. vm_compute. reflexivity. Qed.
Example ex_kind_applied :
  resolved_kind 226 (HRead ATCMD 1 [43;71;69;84;61;55;0]%N 6 16) /\ resolved_kind 226 (HRun 0).
Proof.
  split.
  - exact (kind_applies 226 _ _ (find_call_In _ _ _ _ read_in_trace) eq_refl).
  - exact (kind_applies 226 _ _ (find_call_In _ _ _ _ run_in_trace) eq_refl).
Qed.

End Examples.
