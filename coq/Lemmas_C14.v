(* Lemmas_C14.v — HOLD: local laws of the hold functions and of the command machine's step in
   CS_HOLD, for arbitrary oracles. The whole-history part (the flag equals the state, no read and
   no result code while held) is in Lemmas_Ctl.v, from the control skeleton. *)
From Coq Require Import List NArith ZArith Bool Arith Lia.
From CatV Require Import Bytes Defs Codec Fsm Skel SkelInv.
Import ListNotations.

Section C14.
Variable D : desc.
Variables ioS muS hS : Type.
Variable io_read : ioS -> ioS * option N.
Variable io_write : ioS -> N -> ioS * bool.
Variable mu_lock : muS -> muS * bool.
Variable mu_unlock : muS -> muS * bool.
Variable h_call : hS -> hreq -> hS * hres.
Notation world := (world ioS muS hS).
Notation cmd_service := (cmd_service D ioS muS hS io_read io_write mu_lock mu_unlock h_call).
Notation api_hold_exit := (api_hold_exit D ioS muS hS mu_lock mu_unlock).
Notation api_is_hold := (api_is_hold D ioS muS hS mu_lock mu_unlock).

(* entering a hold clears any earlier release request *)
Lemma enable_hold_clears : forall s,
  let s' := enable_hold_state s in
  k_state (k s') = CS_HOLD /\ k_hold (k s') = true /\ k_hold_exit (k s') = 0%Z /\
  cbuf s' = cbuf s /\ mem s' = mem s /\ u s' = u s /\ gS s' = gS s.
Proof. intros s; cbn; repeat split. Qed.

(* a release request outside a hold reports ERROR_NOT_HOLD and changes nothing *)
Lemma hold_exit_not_held : forall s status,
  k_hold (k s) = false -> hold_exit s status = (s, ST_NOT_HOLD).
Proof. intros s status H; unfold hold_exit; rewrite H; reflexivity. Qed.

(* a release request during a hold is recorded (sign = requested status) and reports OK *)
Lemma hold_exit_held : forall s status,
  k_hold (k s) = true ->
  hold_exit s status = (setk_hold_exit (if (status =? ST_OK)%Z then 1%Z else (-1)%Z) s, ST_OK).
Proof. intros s status H; unfold hold_exit; rewrite H; reflexivity. Qed.

(* repeated requests during one hold: the last one wins *)
Lemma hold_exit_last_wins : forall s a b,
  k_hold (k s) = true ->
  fst (hold_exit (fst (hold_exit s a)) b) = fst (hold_exit s b).
Proof.
  intros s a b H. rewrite (hold_exit_held s a H), (hold_exit_held s b H). cbn [fst].
  unfold hold_exit. cbn. rewrite H. cbn. destruct s as [k0 u0 cb ub m dc dg fl gl gs gr]; destruct k0; reflexivity.
Qed.

(* the step of the command machine while held: nothing at all until a release was requested ... *)
Lemma hold_step_waits : forall w,
  k_state (k (st _ _ _ w)) = CS_HOLD -> k_hold_exit (k (st _ _ _ w)) = 0%Z ->
  st _ _ _ (fst (cmd_service w)) = st _ _ _ w /\ io _ _ _ (fst (cmd_service w)) = io _ _ _ w /\
  hs _ _ _ (fst (cmd_service w)) = hs _ _ _ w /\ tr _ _ _ (fst (cmd_service w)) = tr _ _ _ w /\
  snd (cmd_service w) = ST_BUSY.
Proof.
  intros w Hs Hx. unfold Fsm.cmd_service. rewrite Hs. unfold busy, upd_st, process_hold_state.
  rewrite Hx. cbn. destruct w; cbn; repeat split.
Qed.

(* ... then exactly one result code, OK iff the recorded status is positive, and the flag drops *)
Lemma hold_step_releases : forall w,
  k_state (k (st _ _ _ w)) = CS_HOLD -> k_hold_exit (k (st _ _ _ w)) <> 0%Z ->
  let s := st _ _ _ w in
  st _ _ _ (fst (cmd_service w)) =
    (if (k_hold_exit (k s) <? 0)%Z then ack_error (setk_hold false s) else ack_ok (setk_hold false s)) /\
  io _ _ _ (fst (cmd_service w)) = io _ _ _ w /\ hs _ _ _ (fst (cmd_service w)) = hs _ _ _ w /\
  tr _ _ _ (fst (cmd_service w)) = tr _ _ _ w.
Proof.
  intros w Hs Hx s. unfold Fsm.cmd_service. rewrite Hs. unfold busy, upd_st, process_hold_state.
  fold s. destruct (k_hold_exit (k s) =? 0)%Z eqn:E; [apply Z.eqb_eq in E; contradiction|].
  cbn. repeat split.
Qed.

(* the result code started on release: "OK" or "ERROR", one started result (gS + 1), flag cleared *)
Lemma release_ack : forall s,
  let a := ack_ok (setk_hold false s) in let e := ack_error (setk_hold false s) in
  k_hold (k a) = false /\ k_hold (k e) = false /\ gS a = S (gS s) /\ gS e = S (gS s) /\
  k_state (k a) = CS_FLUSH_WAIT /\ k_state (k e) = CS_FLUSH_WAIT /\
  k_wafter (k a) = CS_AFTER_RESET /\ k_wafter (k e) = CS_AFTER_RESET /\
  cbuf a = strncpy_buf (asz s) txt_OK /\ cbuf e = strncpy_buf (asz s) txt_ERROR.
Proof. intros s; cbn; repeat split. Qed.

(* the API functions (bracket: with no mutex, or with a mutex whose lock/unlock succeed) *)
Lemma api_hold_exit_nomutex : forall w status, d_mutex D = false ->
  api_hold_exit w status =
    (set_st _ _ _ (fst (hold_exit (st _ _ _ w) status)) w, snd (hold_exit (st _ _ _ w) status)).
Proof.
  intros w status Hm. unfold Fsm.api_hold_exit, bracket. rewrite Hm.
  destruct (hold_exit (st _ _ _ w) status); reflexivity.
Qed.

Lemma api_is_hold_nomutex : forall w, d_mutex D = false ->
  api_is_hold w = (w, if k_hold (k (st _ _ _ w)) then ST_HOLD else ST_OK).
Proof. intros w Hm. unfold Fsm.api_is_hold, bracket, is_hold. rewrite Hm. reflexivity. Qed.
End C14.
