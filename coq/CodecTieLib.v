(* CodecTieLib.v -- static part of the "codec tie" (third translator tie, after LeafTie and
   HandlerTie).  tools/codec_translate.py copies this file into its work directory and compiles
   it there, before the generated CodecGen.v and the assembled CodecTie.v.  It only depends on
   Bytes.v / Defs.v / Codec.v, so it may also be listed in _CoqProject (logical path CatV): the
   generated files refer to it by its short name.

   The five typed argument decoders of cat.c are `while (1)` loops:
        ch = get_atcmd_buf(self)[self->position++];   <loop body over a few locals>
   and the model functions of Codec.v (parse_*_go) are structural recursions over the text behind
   the cursor, with the same locals as accumulators.  The tie goes through the LOOP BODY:

     1. run_scan       the loop, once and for all: one character per iteration, counted
     2. C vocabulary   what the generated code needs and the model does not have (conversions,
                       overflow tests, the partial byte store)
     3. observations   what a caller can observe of a model result (out-parameters that were not
                       written are not observable)
     4. m_step_*       for each model scanner, its loop body as a hand-written STEP FUNCTION, and
                       the lemma -- proved once, about the model only -- that the model scanner IS
                       run_scan of that step function
     5. invariants     the (weak) loop invariants under which generated and model steps are
                       compared, preserved by the model steps; run_scan_ext
     6. codec_tie      the generic proof of "generated step = model step"
     7. diagnosis      decidable comparison of results and the deterministic families of concrete
                       (locals, character) on which a FAILED tie is evaluated to find a witness
                       (nothing in section 7 is used by a tie theorem)
   Every lemma is proved; nothing is assumed. *)
From Coq Require Import List NArith ZArith Bool Arith Lia.
From Coq Require Import ZifyBool ZifyNat ZifyN.
From CatV Require Import Bytes Defs Codec.
Import ListNotations.
Local Open Scope N_scope.

(* ====================================================================================== *)
(* 1. The loop                                                                            *)
(* ====================================================================================== *)

(* result of one execution of the loop body: fall out of the body with new locals, or `return` *)
Inductive sres (L R : Type) := Continue (l : L) | Return (r : R).
Arguments Continue {L R} l.
Arguments Return {L R} r.

(* `while (1) { ch = buf[position++]; BODY }` over the text behind the cursor.  Every iteration
   consumes exactly one character; n counts them.  Running off the end of the text is reading
   behind the buffer: the distinguished result [fault], as in Codec.v. *)
Fixpoint run_scan {L R} (step : L -> N -> sres L R) (fault : R) (l : L) (text : list N) (n : nat)
  : R * nat :=
  match text with
  | [] => (fault, n)
  | ch :: r =>
    match step l ch with
    | Return x => (x, S n)
    | Continue l' => run_scan step fault l' r (S n)
    end
  end.

(* Pointwise equal steps give equal runs -- no functional extensionality.  The steps only have to
   agree on locals that satisfy an invariant which the second step function preserves. *)
Lemma run_scan_ext : forall {L R} (inv : L -> Prop) (g m : L -> N -> sres L R) (fault : R),
  (forall l ch, inv l -> g l ch = m l ch) ->
  (forall l ch l', inv l -> m l ch = Continue l' -> inv l') ->
  forall text l n, inv l -> run_scan g fault l text n = run_scan m fault l text n.
Proof.
  intros L R inv g m fault Heq Hpres text.
  induction text as [|ch r IH]; intros l n Hl.
  - reflexivity.
  - cbn [run_scan]. rewrite (Heq l ch Hl).
    destruct (m l ch) as [l'|x] eqn:E.
    + apply IH. exact (Hpres l ch l' Hl E).
    + reflexivity.
Qed.

(* ====================================================================================== *)
(* 2. C vocabulary of the generated code that is not in the model                         *)
(* ====================================================================================== *)
(* Unsigned C values are N, signed C values are Z (the mathematical value). *)

(* the value of a `char` object (SIGNED 8 bit on the target; the translator refuses a compiler
   whose plain char is unsigned) that holds the byte b, when it is promoted to int *)
Definition c_int_of_char (b : N) : Z :=
  if b <? 128 then Z.of_N b else (Z.of_N b - 256)%Z.

(* conversion of z to an unsigned type with 2^bits = m values: modulo m (C11 6.3.1.3 p2) *)
Definition c_wrap_u (m : Z) (z : Z) : N := Z.to_N (z mod m).
(* conversion of z to a signed type with m values: two's complement wrap (implementation-defined
   in C11 6.3.1.3 p3; this is what clang and gcc define) *)
Definition c_wrap_s (m : Z) (z : Z) : Z := ((z + m / 2) mod m - m / 2)%Z.

Definition min_i64 : Z := (-9223372036854775808)%Z.
(* "x is representable in the signed type with range [lo, hi]": a signed operation whose result
   is not, is undefined behaviour in C; the generated code then answers the fault result *)
Definition c_in (lo hi x : Z) : bool := ((lo <=? x) && (x <=? hi))%Z.

(* ((uint8_t * )data)[i] = v : None = store outside the variable's storage *)
Definition c_store (data : list N) (i : nat) (v : N) : option (list N) :=
  if (i <? length data)%nat then Some (upd data i v) else None.

(* ====================================================================================== *)
(* 3. Observable results                                                                  *)
(* ====================================================================================== *)
(* A numeric decoder returns a status and writes `*ret` only when it accepts; the two buffer
   decoders store into the variable as they go and write self->write_size only when they accept.
   The generated code tracks an out-parameter that was not written as None; the model functions
   return some value there (the current accumulator, 0), which no caller may look at.  After a
   fault (undefined behaviour in C) nothing is observable. *)
Definition nres (V : Type) : Type := (pstat * option V)%type.
Definition nfault {V : Type} : nres V := (SFault, None).
Definition nobs {V : Type} (r : pstat * V * nat) : nres V * nat :=
  let '(st, v, n) := r in
  ((st, match st with SOk _ => Some v | _ => None end), n).

Definition bresult : Type := (pstat * list N * option nat)%type.
Definition bfault : bresult := (SFault, [], None).
Definition bobs (r : bres) : bresult * nat :=
  (match b_st r with
   | SFault => bfault
   | SErr => (SErr, b_data r, None)
   | SOk c => (SOk c, b_data r, Some (b_wsize r))
   end, b_n r).

(* the range validators: VOk carries the new storage and self->write_size *)
Inductive gvres := GVFault | GVErr | GVOk (data : list N) (wsize : option nat).
Definition vobs (r : vres) : gvres :=
  match r with VFault => GVFault | VErr => GVErr | VOk d w => GVOk d (Some w) end.

(* ====================================================================================== *)
(* 4. The model scanners as step functions                                                *)
(* ====================================================================================== *)

(* ---- parse_uint_go: locals (val, ok) ---- *)
Definition m_step_uint (l : N * bool) (ch : N) : sres (N * bool) (nres N) :=
  let '(val, ok) := l in
  if ok && is_term ch then Return (SOk (ch =? ch_COMMA), Some val)
  else if is_dec ch then
    let d := ch - 48 in
    if (max_u64 - d) / 10 <? val then Return (SErr, None)
    else Continue ((val * 10 + d) mod two64, true)
  else Return (SErr, None).

Lemma parse_uint_go_is_scan : forall l val ok n,
  nobs (parse_uint_go l val ok n) = run_scan m_step_uint nfault (val, ok) l n.
Proof.
  induction l as [|ch r IH]; intros val ok n.
  - reflexivity.
  - cbn [parse_uint_go run_scan]. unfold m_step_uint.
    destruct (ok && is_term ch); [reflexivity|].
    destruct (is_dec ch); [|reflexivity].
    cbv zeta. destruct ((max_u64 - (ch - 48)) / 10 <? val); [reflexivity|].
    apply IH.
Qed.

(* ---- parse_int_go: locals (val, sign, ok) ---- *)
Definition m_step_int (l : Z * Z * bool) (ch : N) : sres (Z * Z * bool) (nres Z) :=
  let '(val, sign, ok) := l in
  if ok && is_term ch then Return (SOk (ch =? ch_COMMA), Some (val * sign)%Z)
  else if (sign =? 0)%Z then
    if ch =? ch_MINUS then Continue (val, (-1)%Z, ok)
    else if ch =? ch_PLUS then Continue (val, 1%Z, ok)
    else if is_dec ch then Continue (Z.of_N (ch - 48), 1%Z, true)
    else Return (SErr, None)
  else if is_dec ch then
    let d := Z.of_N (ch - 48) in
    if ((max_i64 - d) / 10 <? val)%Z then Return (SErr, None)
    else
      let v' := (val * 10 + d)%Z in
      if (max_i64 <? v')%Z then Return nfault      (* signed overflow would be UB *)
      else Continue (v', sign, true)
  else Return (SErr, None).

Lemma parse_int_go_is_scan : forall l val sign ok n,
  nobs (parse_int_go l val sign ok n) = run_scan m_step_int nfault (val, sign, ok) l n.
Proof.
  induction l as [|ch r IH]; intros val sign ok n.
  - reflexivity.
  - cbn [parse_int_go run_scan]. unfold m_step_int.
    destruct (ok && is_term ch); [reflexivity|].
    destruct (sign =? 0)%Z.
    + destruct (ch =? ch_MINUS); [apply IH|].
      destruct (ch =? ch_PLUS); [apply IH|].
      destruct (is_dec ch); [apply IH|reflexivity].
    + destruct (is_dec ch); [|reflexivity].
      cbv zeta. destruct ((max_i64 - Z.of_N (ch - 48)) / 10 <? val)%Z; [reflexivity|].
      destruct (max_i64 <? val * 10 + Z.of_N (ch - 48))%Z; [reflexivity|].
      apply IH.
Qed.

(* ---- parse_hex_go: locals (val, state) ---- *)
Definition m_step_hex (l : N * nat) (ch0 : N) : sres (N * nat) (nres N) :=
  let '(val, st) := l in
  let ch := to_upper ch0 in
  if (3 <=? st)%nat && is_term ch then Return (SOk (ch =? ch_COMMA), Some val)
  else match st with
       | O => if ch =? ch_0 then Continue (val, 1%nat) else Return (SErr, None)
       | S O => if ch =? ch_X then Continue (val, 2%nat) else Return (SErr, None)
       | _ =>
         if is_hex ch then
           if negb (N.shiftr val 60 =? 0) then Return (SErr, None)
           else Continue ((val * 16 + hexval ch) mod two64, 3%nat)
         else Return (SErr, None)
       end.

Lemma parse_hex_go_is_scan : forall l val st n,
  nobs (parse_hex_go l val st n) = run_scan m_step_hex nfault (val, st) l n.
Proof.
  induction l as [|ch r IH]; intros val st n.
  - reflexivity.
  - cbn [parse_hex_go run_scan]. unfold m_step_hex. cbv zeta.
    destruct ((3 <=? st)%nat && is_term (to_upper ch)); [reflexivity|].
    destruct st as [|[|st]].
    + destruct (to_upper ch =? ch_0); [apply IH|reflexivity].
    + destruct (to_upper ch =? ch_X); [apply IH|reflexivity].
    + destruct (is_hex (to_upper ch)); [|reflexivity].
      destruct (negb (N.shiftr val 60 =? 0)); [reflexivity|apply IH].
Qed.

(* ---- parse_bufhex_go: locals (byte, state, size, data); parameters ro, dsz ---- *)
Definition m_step_bufhex (ro : bool) (dsz : nat) (l : N * bool * nat * list N) (ch0 : N)
  : sres (N * bool * nat * list N) bresult :=
  let '(byte, st, size, data) := l in
  let ch := to_upper ch0 in
  if (0 <? size)%nat && negb st && is_term ch then
    Return (SOk (ch =? ch_COMMA), data, Some (if ro then O else size))
  else if negb (is_hex ch) then Return (SErr, data, None)
  else
    let byte := (byte * 16 + hexval ch) mod 256 in
    if st then
      if (dsz <=? size)%nat then Return (SErr, data, None)
      else if ro then Continue (0, false, S size, data)
      else if (size <? length data)%nat then Continue (0, false, S size, upd data size byte)
      else Return bfault
    else Continue (byte, true, size, data).

Lemma parse_bufhex_go_is_scan : forall l byte st size data ro dsz n,
  bobs (parse_bufhex_go l byte st size data ro dsz n)
  = run_scan (m_step_bufhex ro dsz) bfault (byte, st, size, data) l n.
Proof.
  induction l as [|ch r IH]; intros byte st size data ro dsz n.
  - reflexivity.
  - cbn [parse_bufhex_go run_scan]. unfold m_step_bufhex. cbv zeta.
    destruct ((0 <? size)%nat && negb st && is_term (to_upper ch)); [reflexivity|].
    destruct (negb (is_hex (to_upper ch))); [reflexivity|].
    destruct st.
    + destruct (dsz <=? size)%nat; [reflexivity|].
      destruct ro; [apply IH|].
      destruct (size <? length data)%nat; [apply IH|reflexivity].
    + apply IH.
Qed.

(* ---- parse_bufstr_go: locals (state, size, data); parameters ro, dsz ---- *)
Definition m_step_bufstr (ro : bool) (dsz : nat) (l : nat * nat * list N) (ch : N)
  : sres (nat * nat * list N) bresult :=
  let '(st, size, data) := l in
  match st with
  | O => if ch =? ch_QUOTE then Continue (1%nat, size, data) else Return (SErr, data, None)
  | S O =>
    if ch =? 0 then Return (SErr, data, None)
    else if ch =? ch_BSL then Continue (2%nat, size, data)
    else if ch =? ch_QUOTE then Continue (3%nat, size, data)
    else if (dsz <=? size)%nat then Return (SErr, data, None)
    else if ro then Continue (1%nat, S size, data)
    else if (size <? length data)%nat then Continue (1%nat, S size, upd data size ch)
    else Return bfault
  | S (S O) =>
    let dec := if ch =? ch_BSL then Some ch_BSL
               else if ch =? ch_QUOTE then Some ch_QUOTE
               else if ch =? ch_n then Some ch_LF else None in
    match dec with
    | None => Return (SErr, data, None)
    | Some c =>
      if (dsz <=? size)%nat then Return (SErr, data, None)
      else if ro then Continue (1%nat, S size, data)
      else if (size <? length data)%nat then Continue (1%nat, S size, upd data size c)
      else Return bfault
    end
  | _ =>
    if is_term ch then
      if (dsz <=? size)%nat then Return (SErr, data, None)
      else if ro then Return (SOk (ch =? ch_COMMA), data, Some O)
      else if (size <? length data)%nat
           then Return (SOk (ch =? ch_COMMA), upd data size 0, Some size)
           else Return bfault
    else Return (SErr, data, None)
  end.

Lemma parse_bufstr_go_is_scan : forall l st size data ro dsz n,
  bobs (parse_bufstr_go l st size data ro dsz n)
  = run_scan (m_step_bufstr ro dsz) bfault (st, size, data) l n.
Proof.
  induction l as [|ch r IH]; intros st size data ro dsz n.
  - reflexivity.
  - cbn [parse_bufstr_go run_scan]. unfold m_step_bufstr.
    destruct st as [|[|[|st]]].
    + destruct (ch =? ch_QUOTE); [apply IH|reflexivity].
    + destruct (ch =? 0); [reflexivity|].
      destruct (ch =? ch_BSL); [apply IH|].
      destruct (ch =? ch_QUOTE); [apply IH|].
      destruct (dsz <=? size)%nat; [reflexivity|].
      destruct ro; [apply IH|].
      destruct (size <? length data)%nat; [apply IH|reflexivity].
    + cbv zeta.
      destruct (ch =? ch_BSL);
        [|destruct (ch =? ch_QUOTE); [|destruct (ch =? ch_n); [|reflexivity]]];
        (destruct (dsz <=? size)%nat; [reflexivity|];
         destruct ro; [apply IH|];
         destruct (size <? length data)%nat; [apply IH|reflexivity]).
    + destruct (is_term ch); [|reflexivity].
      destruct (dsz <=? size)%nat; [reflexivity|].
      destruct ro; [reflexivity|].
      destruct (size <? length data)%nat; reflexivity.
Qed.

(* the initial locals of the model scanners (Codec.parse_uint = parse_uint_go l 0 false O ...) *)
Definition m_init_uint : N * bool := (0, false).
Definition m_init_int : Z * Z * bool := (0%Z, 0%Z, false).
Definition m_init_hex : N * nat := (0, O).
Definition m_init_bufhex (data : list N) : N * bool * nat * list N := (0, false, O, data).
Definition m_init_bufstr (data : list N) : nat * nat * list N := (O, O, data).

Lemma parse_uint_is_scan : forall l,
  nobs (parse_uint l) = run_scan m_step_uint nfault m_init_uint l O.
Proof. intro l. apply parse_uint_go_is_scan. Qed.
Lemma parse_int_is_scan : forall l,
  nobs (parse_int l) = run_scan m_step_int nfault m_init_int l O.
Proof. intro l. apply parse_int_go_is_scan. Qed.
Lemma parse_hex_is_scan : forall l,
  nobs (parse_hex l) = run_scan m_step_hex nfault m_init_hex l O.
Proof. intro l. apply parse_hex_go_is_scan. Qed.
Lemma parse_bufhex_is_scan : forall l data ro dsz,
  bobs (parse_bufhex l data ro dsz)
  = run_scan (m_step_bufhex ro dsz) bfault (m_init_bufhex data) l O.
Proof. intros. apply parse_bufhex_go_is_scan. Qed.
Lemma parse_bufstr_is_scan : forall l data ro dsz,
  bobs (parse_bufstr l data ro dsz)
  = run_scan (m_step_bufstr ro dsz) bfault (m_init_bufstr data) l O.
Proof. intros. apply parse_bufstr_go_is_scan. Qed.

(* ====================================================================================== *)
(* 5. Loop invariants                                                                     *)
(* ====================================================================================== *)
(* Generated and model steps are compared on locals that satisfy a (weak) loop invariant:
   - parse_int: the model keeps val in Z without an upper-level type; the C locals are int64_t.
     The model multiplies val by sign without an overflow test, which is right because
     0 <= val <= INT64_MAX and sign is -1, 0 or 1 throughout the loop; and as long as no sign
     and no digit was seen (sign = 0) val is still 0 (so "val = digit" and "val = val * 10 +
     digit" are the same for the first digit);
   - parse_bufstr: the model treats every state >= 3 as state 3, the C switch does nothing in a
     state > 3; the state never exceeds 3.
   The other three scanners need no invariant.  The invariants hold initially and are preserved
   by the MODEL steps (proved here, once); run_scan_ext then lifts a pointwise tie to all runs. *)
Definition inv_uint (l : N * bool) : Prop := True.
Definition inv_int (l : Z * Z * bool) : Prop :=
  let '(val, sign, ok) := l in
  (0 <= val <= max_i64)%Z /\ (sign = 0%Z -> val = 0%Z) /\
  (sign = (-1)%Z \/ sign = 0%Z \/ sign = 1%Z).
Definition inv_hex (l : N * nat) : Prop := True.
Definition inv_bufhex (l : N * bool * nat * list N) : Prop := True.
Definition inv_bufstr (l : nat * nat * list N) : Prop :=
  let '(st, size, data) := l in (st <= 3)%nat.

Lemma is_dec_spec : forall c, reflect (48 <= c <= 57) (is_dec c).
Proof.
  intro c. unfold is_dec.
  destruct (48 <=? c) eqn:E1; destruct (c <=? 57) eqn:E2; constructor;
    rewrite ?N.leb_le, ?N.leb_gt in *; lia.
Qed.

Lemma c_in_spec : forall lo hi x, reflect (lo <= x <= hi)%Z (c_in lo hi x).
Proof.
  intros lo hi x. unfold c_in.
  destruct (lo <=? x)%Z eqn:E1; destruct (x <=? hi)%Z eqn:E2; constructor;
    rewrite ?Z.leb_le, ?Z.leb_gt in *; lia.
Qed.

(* lia with / and mod by constants (no global zify hook is installed) *)
Ltac lia_div := Zify.zify; Z.to_euclidean_division_equations; lia.

Lemma m_step_uint_inv : forall l ch l', inv_uint l -> m_step_uint l ch = Continue l' -> inv_uint l'.
Proof. intros; exact I. Qed.
Lemma m_step_hex_inv : forall l ch l', inv_hex l -> m_step_hex l ch = Continue l' -> inv_hex l'.
Proof. intros; exact I. Qed.
Lemma m_step_bufhex_inv : forall ro dsz l ch l',
  inv_bufhex l -> m_step_bufhex ro dsz l ch = Continue l' -> inv_bufhex l'.
Proof. intros; exact I. Qed.

Lemma m_step_int_inv : forall l ch l', inv_int l -> m_step_int l ch = Continue l' -> inv_int l'.
Proof.
  intros [[val sign] ok] ch l' (Hv & H0 & Hs) H. unfold m_step_int in H.
  destruct (ok && is_term ch); [discriminate|].
  destruct (Z.eqb_spec sign 0) as [Hz|Hz].
  - destruct (ch =? ch_MINUS); [injection H as <-; repeat split; [lia|lia|lia|auto]|].
    destruct (ch =? ch_PLUS); [injection H as <-; repeat split; [lia|lia|lia|auto]|].
    destruct (is_dec_spec ch) as [Hd|Hd]; [|discriminate].
    injection H as <-. unfold inv_int, max_i64 in *. repeat split; [lia|lia|lia|auto].
  - destruct (is_dec_spec ch) as [Hd|Hd]; [|discriminate].
    cbv zeta in H.
    destruct ((max_i64 - Z.of_N (ch - 48)) / 10 <? val)%Z; [discriminate|].
    destruct (Z.ltb_spec max_i64 (val * 10 + Z.of_N (ch - 48))) as [Hlt|Hge]; [discriminate|].
    injection H as <-. unfold inv_int, max_i64 in *. repeat split; [lia|lia|lia|exact Hs].
Qed.

Lemma m_step_bufstr_inv : forall ro dsz l ch l',
  inv_bufstr l -> m_step_bufstr ro dsz l ch = Continue l' -> inv_bufstr l'.
Proof.
  intros ro dsz [[st size] data] ch l' Hst H. unfold m_step_bufstr in H.
  unfold inv_bufstr.
  repeat match type of H with
         | Return _ = Continue _ => discriminate H
         | Continue _ = Continue _ => injection H as <-; lia
         | context [match ?x with _ => _ end] => destruct x
         | _ => progress cbv zeta in H
         end.
Qed.

Lemma inv_uint_init : inv_uint m_init_uint.  Proof. exact I. Qed.
Lemma inv_int_init : inv_int m_init_int.
Proof. unfold inv_int, m_init_int, max_i64. repeat split; [lia|lia|auto]. Qed.
Lemma inv_hex_init : inv_hex m_init_hex.  Proof. exact I. Qed.
Lemma inv_bufhex_init : forall data, inv_bufhex (m_init_bufhex data).  Proof. intro; exact I. Qed.
Lemma inv_bufstr_init : forall data, inv_bufstr (m_init_bufstr data).
Proof. intro. unfold inv_bufstr, m_init_bufstr. lia. Qed.

(* from the pointwise tie of the steps and of the initial locals to all runs *)
Lemma scan_tie : forall {L R} (inv : L -> Prop) (g m : L -> N -> sres L R) (fault : R) (g0 m0 : L),
  (forall l ch, inv l -> g l ch = m l ch) ->
  (forall l ch l', inv l -> m l ch = Continue l' -> inv l') ->
  inv m0 -> g0 = m0 ->
  forall text, run_scan g fault g0 text O = run_scan m fault m0 text O.
Proof.
  intros L R inv g m fault g0 m0 Hstep Hpres H0 -> text.
  apply (run_scan_ext inv); assumption.
Qed.

(* ====================================================================================== *)
(* 6. codec_tie                                                                           *)
(* ====================================================================================== *)
(* Goal:  [inv l ->]  g_step l ch = m_step l ch   (or g_validate .. = vobs (validate ..)).
   Method (as HandlerTieLib.tie_auto): unfold the two heads, then repeatedly
     - normalise: beta/iota/zeta, andb/orb/negb on constructors (cbn with an explicit list:
       no arithmetic is ever unfolded; the big constants stay folded),
     - remove the C conversions whose side condition lia can prove from the facts collected so
       far (c_int_of_char of an ASCII character, c_wrap_* of a value already in range),
     - find the scrutinee on which the evaluation of a side is stuck, split on it ONCE through
       its reflection lemma, so that the fact is available to lia,
   until both sides are constructor terms: reflexivity, or congruence + lia on the arithmetic
   components (wrap-around identities such as ((a mod m) + b) mod m = (a + b) mod m), or the
   hypotheses are contradictory (lia / congruence).  Fuel bounds the depth. *)

Lemma c_int_of_char_small : forall b, b < 128 -> c_int_of_char b = Z.of_N b.
Proof. intros b H. unfold c_int_of_char. destruct (b <? 128) eqn:E; [reflexivity|]. apply N.ltb_ge in E. lia. Qed.
Lemma c_wrap_u_small : forall m z, (0 <= z < m)%Z -> c_wrap_u m z = Z.to_N z.
Proof. intros m z H. unfold c_wrap_u. rewrite Z.mod_small by exact H. reflexivity. Qed.
Lemma c_wrap_s_small : forall m z,
  (0 < m)%Z -> (- (m / 2) <= z < m - m / 2)%Z -> c_wrap_s m z = z.
Proof. intros m z Hm H. unfold c_wrap_s. rewrite Z.mod_small by lia. lia. Qed.

Ltac codec_consts := unfold max_u64, two64, max_i64, min_i64 in *.
Ltac codec_lia := codec_consts; lia.

(* the scrutinee on which the evaluation of t is stuck *)
Ltac tie_stuck t :=
  match t with
  | match ?x with _ => _ end => tie_stuck x
  | match ?x with _ => _ end => x
  | andb ?a _ => tie_stuck a
  | orb ?a _ => tie_stuck a
  | negb ?a => tie_stuck a
  | andb ?a _ => a
  | orb ?a _ => a
  | negb ?a => a
  | ?f ?a => tie_stuck a
  | ?f _ => tie_stuck f
  end.

Ltac tie_subst_if_var a := tryif is_var a then subst a else idtac.

(* a closed comparison of small naturals is evaluated instead of split *)
Ltac tie_eval_nat x :=
  let v := eval compute in x in
  lazymatch v with
  | true => change x with true
  | false => change x with false
  end.

Ltac tie_split x :=
  let E := fresh "E" in
  lazymatch x with
  | N.eqb ?a ?b => destruct (N.eqb_spec a b) as [E|E]
  | N.ltb ?a ?b => destruct (N.ltb_spec0 a b) as [E|E]
  | N.leb ?a ?b => destruct (N.leb_spec0 a b) as [E|E]
  | Z.eqb ?a ?b => destruct (Z.eqb_spec a b) as [E|E]; [tie_subst_if_var a|]
  | Z.ltb ?a ?b => destruct (Z.ltb_spec0 a b) as [E|E]
  | Z.leb ?a ?b => destruct (Z.leb_spec0 a b) as [E|E]
  | Nat.eqb ?a ?b =>
      first [tie_eval_nat x | destruct (Nat.eqb_spec a b) as [E|E]; [tie_subst_if_var a|]]
  | Nat.leb ?a ?b => first [tie_eval_nat x | destruct (Nat.leb_spec0 a b) as [E|E]]
  | Nat.ltb ?a ?b => first [tie_eval_nat x | destruct (Nat.ltb_spec0 a b) as [E|E]]
  | is_dec ?c => destruct (is_dec_spec c) as [E|E]
  | c_in ?lo ?hi ?v => destruct (c_in_spec lo hi v) as [E|E]
  | _ => tryif is_var x then destruct x else (destruct x eqn:E)
  end.

Ltac tie_norm :=
  cbv beta iota zeta;
  cbn [andb orb negb fst snd];
  change (two_pow8 1) with 256 in *;
  change (two_pow8 2) with 65536 in *;
  change (two_pow8 4) with 4294967296 in *.

(* each rewrite is only tried when a hypothesis about the operand is there (a failing lia call
   at every node would dominate the run time) *)
Ltac tie_rewrites :=
  repeat match goal with
  | H : _ <= ?c <= _ |- context [c_int_of_char ?c] =>
      rewrite (c_int_of_char_small c) by codec_lia
  | |- context [c_wrap_u ?m ?z] => rewrite (c_wrap_u_small m z) by codec_lia
  | |- context [c_wrap_s ?m ?z] => rewrite (c_wrap_s_small m z) by codec_lia
  | H : ~ (_ < ?x) |- context [N.modulo ?x ?m] => rewrite (N.mod_small x m) by codec_lia
  end.

(* congruence through the constructors of the results only (never through arithmetic) *)
Ltac codec_congr :=
  repeat first
    [ reflexivity
    | match goal with
      | |- Continue _ = Continue _ => apply f_equal
      | |- Return _ = Return _ => apply f_equal
      | |- (_, _) = (_, _) => apply f_equal2
      | |- Some _ = Some _ => apply f_equal
      | |- SOk _ = SOk _ => apply f_equal
      | |- GVOk _ _ = GVOk _ _ => apply f_equal2
      | |- upd _ _ _ = upd _ _ _ => apply f_equal
      end ].

Ltac tie_leaf0 :=
  first [ reflexivity
        | solve [ codec_congr; codec_lia ]
        | exfalso; codec_lia
        | exfalso; congruence ].
(* a disjunction of an invariant (sign = -1, 0 or 1) is only split where a leaf needs it *)
Ltac tie_leaf :=
  first [ tie_leaf0
        | match goal with H : _ \/ _ |- _ => destruct H as [H|H]; subst; tie_leaf end ].

(* No backtracking: once a scrutinee is chosen, the split is committed (tryif), so a failing
   leaf fails the whole tactic at once. *)
Ltac tie_go n :=
  tie_norm; tie_rewrites;
  lazymatch goal with
  | |- ?L = ?R =>
    tryif (let x := tie_stuck L in idtac) then (let x := tie_stuck L in tie_next n x)
    else tryif (let x := tie_stuck R in idtac) then (let x := tie_stuck R in tie_next n x)
    else tie_leaf
  end
with tie_next n x :=
  lazymatch n with
  | O => fail "codec_tie: out of fuel"
  | S ?n' => tie_split x; tie_go n'
  end.

Ltac tie_head t := lazymatch t with ?f _ => tie_head f | _ => t end.
Ltac tie_unfold_head t := let h := tie_head t in try unfold h.

Ltac codec_tie :=
  intros;
  repeat match goal with l : (_ * _)%type |- _ => destruct l end;
  repeat match goal with
         | H : inv_uint _ |- _ => clear H
         | H : inv_hex _ |- _ => clear H
         | H : inv_bufhex _ |- _ => clear H
         | H : inv_int _ |- _ => unfold inv_int in H; destruct H as (? & ? & ?)
         | H : inv_bufstr _ |- _ => unfold inv_bufstr in H
         end;
  lazymatch goal with |- ?L = ?R => tie_unfold_head L; tie_unfold_head R end;
  cbv delta [ch_NUL ch_LF ch_QUOTE ch_COMMA ch_PLUS ch_MINUS ch_0 ch_X ch_BSL ch_n
             is_term nfault bfault c_store store_prefix supported_width
             vobs validate_int validate_uint];
  tie_go 60%nat.

(* ====================================================================================== *)
(* 7. Diagnosis of a failed tie: concrete inputs                                          *)
(* ====================================================================================== *)

Definition pstat_eqb (a b : pstat) : bool :=
  match a, b with
  | SFault, SFault => true | SErr, SErr => true | SOk x, SOk y => Bool.eqb x y | _, _ => false
  end.
Definition opt_eqb {A} (e : A -> A -> bool) (x y : option A) : bool :=
  match x, y with Some a, Some b => e a b | None, None => true | _, _ => false end.
Fixpoint list_eqb {A} (e : A -> A -> bool) (x y : list A) : bool :=
  match x, y with
  | [], [] => true
  | a :: x', b :: y' => e a b && list_eqb e x' y'
  | _, _ => false
  end.
Definition nres_eqb {V} (e : V -> V -> bool) (a b : nres V) : bool :=
  pstat_eqb (fst a) (fst b) && opt_eqb e (snd a) (snd b).
Definition bresult_eqb (a b : bresult) : bool :=
  let '(s1, d1, w1) := a in
  let '(s2, d2, w2) := b in
  pstat_eqb s1 s2 && list_eqb N.eqb d1 d2 && opt_eqb Nat.eqb w1 w2.
Definition sres_eqb {L R} (le : L -> L -> bool) (re : R -> R -> bool) (a b : sres L R) : bool :=
  match a, b with
  | Continue x, Continue y => le x y
  | Return x, Return y => re x y
  | _, _ => false
  end.
Definition gvres_eqb (a b : gvres) : bool :=
  match a, b with
  | GVFault, GVFault => true
  | GVErr, GVErr => true
  | GVOk d1 w1, GVOk d2 w2 => list_eqb N.eqb d1 d2 && opt_eqb Nat.eqb w1 w2
  | _, _ => false
  end.

(* equality of the tuples of locals *)
Definition l_uint_eqb (a b : N * bool) : bool := N.eqb (fst a) (fst b) && Bool.eqb (snd a) (snd b).
Definition l_int_eqb (a b : Z * Z * bool) : bool :=
  let '(v1, s1, o1) := a in let '(v2, s2, o2) := b in Z.eqb v1 v2 && Z.eqb s1 s2 && Bool.eqb o1 o2.
Definition l_hex_eqb (a b : N * nat) : bool := N.eqb (fst a) (fst b) && Nat.eqb (snd a) (snd b).
Definition l_bufhex_eqb (a b : N * bool * nat * list N) : bool :=
  let '(b1, s1, z1, d1) := a in
  let '(b2, s2, z2, d2) := b in
  N.eqb b1 b2 && Bool.eqb s1 s2 && Nat.eqb z1 z2 && list_eqb N.eqb d1 d2.
Definition l_bufstr_eqb (a b : nat * nat * list N) : bool :=
  let '(s1, z1, d1) := a in
  let '(s2, z2, d2) := b in
  Nat.eqb s1 s2 && Nat.eqb z1 z2 && list_eqb N.eqb d1 d2.

(* what a diagnosis prints: the input, what the generated definition and the model give *)
Record witness (T R : Type) := mkWitness { w_input : T; w_generated : R; w_model : R }.
Arguments mkWitness {T R}.
Definition first_diff {T R} (eqb : R -> R -> bool) (gen model : T -> R) (inputs : list T)
  : option (witness T R) :=
  match find (fun x => negb (eqb (gen x) (model x))) inputs with
  | Some x => Some (mkWitness x (gen x) (model x))
  | None => None
  end.

(* ---- the families.  Accumulators sit around the overflow boundaries; every family member
        satisfies the loop invariant of section 5 (by construction).  The unremarkable values
        (a storage with room, a writable variable) come first, so that the first difference found
        is a plain one. ---- *)
Definition bytes : list N := map N.of_nat (seq 0 256).
(* max_u64 / 10 = 1844674407370955161; 2^60 = 1152921504606846976 *)
Definition fam_u64 : list N :=
  [0; 1; 9; 10; 255; 1152921504606846975; 1152921504606846976;
   1844674407370955160; 1844674407370955161; 1844674407370955162;
   9223372036854775807; 9223372036854775808; 18446744073709551614; 18446744073709551615].
(* max_i64 / 10 = 922337203685477580 *)
Definition fam_i64_nonneg : list Z :=
  [0; 1; 9; 10; 922337203685477579; 922337203685477580; 922337203685477581;
   1844674407370955161; 9223372036854775806; 9223372036854775807]%Z.
Definition fam_uint : list ((N * bool) * N) :=
  list_prod (list_prod fam_u64 [false; true]) bytes.
(* only members that satisfy inv_int: no value before a sign or a digit *)
Definition fam_int : list ((Z * Z * bool) * N) :=
  filter (fun x => let '(val, sign, ok, ch) := x in negb (sign =? 0)%Z || (val =? 0)%Z)
         (list_prod (list_prod (list_prod fam_i64_nonneg [1; 0; -1]%Z) [false; true]) bytes).
Definition fam_hex : list ((N * nat) * N) :=
  list_prod (list_prod fam_u64 [0; 1; 2; 3; 4]%nat) bytes.
Definition fam_store : list (list N) := [[7; 7; 7]; [7]; []].
Definition fam_ro_dsz : list (bool * nat) := list_prod [false; true] [3; 1; 0]%nat.
Definition fam_bufhex : list ((bool * nat) * ((N * bool * nat * list N) * N)) :=
  list_prod fam_ro_dsz
    (list_prod (list_prod (list_prod (list_prod [0; 10; 255] [false; true]) [0; 1; 3]%nat)
                          fam_store) bytes).
Definition fam_bufstr : list ((bool * nat) * ((nat * nat * list N) * N)) :=
  list_prod fam_ro_dsz
    (list_prod (list_prod (list_prod [0; 1; 2; 3]%nat [0; 1; 3]%nat) fam_store) bytes).
Definition fam_widths : list (bool * nat) := list_prod [false; true] [1; 2; 4; 0; 3; 8]%nat.
Definition fam_data : list (list N) := [[7; 7; 7; 7; 7]; [7; 7; 7; 7]; [7; 7]; [7]; []].
Definition fam_val_int : list Z :=
  [-9223372036854775808; -4294967296; -2147483649; -2147483648; -32769; -32768; -129; -128; -1;
   0; 1; 127; 128; 255; 256; 32767; 32768; 65535; 65536; 2147483647; 2147483648; 4294967295;
   4294967296; 9223372036854775807]%Z.
Definition fam_val_uint : list N :=
  [0; 1; 127; 128; 255; 256; 32767; 32768; 65535; 65536; 2147483647; 2147483648; 4294967295;
   4294967296; 9223372036854775807; 9223372036854775808; 9223372036854775813;
   18446744069414584325; 18446744073709551360; 18446744073709551615].
Definition fam_validate_int : list ((bool * nat) * (Z * list N)) :=
  list_prod fam_widths (list_prod fam_val_int fam_data).
Definition fam_validate_uint : list ((bool * nat) * (N * list N)) :=
  list_prod fam_widths (list_prod fam_val_uint fam_data).
