(* Properties_C12m.v -- property C12 (independence from io scheduling) in MIXED runs: both machines
   active.  Proofs: Lemmas_C12m.v.

   Properties_C12.v part B / Properties_C12c.v cover runs in which one machine is idle throughout,
   and record (C12_ex_mixed_depends_on_schedule, limitation D4) that with both machines active the
   GLOBAL interleaving of the two producers' output units and of consumed input bytes depends on
   the readiness schedules.  What does NOT depend on them is each producer's own sequence.  This
   file proves it for the command side, in the scripted world without mutex, for event units whose
   commands have NO handlers (automatic READ/TEST responses built from variables) and arbitrary
   command lines WITH handlers.

   Definitions (Lemmas_C12m.v):
     nx a b s      the object state s with the event machine's record := a, its buffer := b, and
                   the (write-only) fault flag raised;   cst s := nx U0 [] s   (U0: idle, empty)
     cside q       the handler request q is made by the command machine (HWrite, HRun, VWrite,
                   and HRead/HTest/VRead with machine tag ATCMD)
     cvis e        e belongs to the command-side sub-trace: ERd (Some c) (a consumed byte),
                   EWr ATCMD ch true (an accepted byte of a command response), ECall q code with
                   cside q, EInner c status (an API call made from inside such a handler)
     cview w       = (cst (st w), hs w, mu w, inq (io w), filter cvis (tr w)) :
                   the command machine's registers k, its buffer, the variable storage, the enable
                   flags and ghost counters; the handler scripts; the unconsumed input; the
                   command-side sub-trace (newest first, as tr)
     canon v       the canonical world of a view: event machine idle and empty, io always ready
     cnext v       = cview (fst (cmd_service (canon v)))   one command-machine step there
     citer j v     = cnext^j v
     quiet_cmd c   c has no read handler, no test handler, and no variable with a read callback
     invE D s      (boolean) the event machine is not in a handler loop state (US_READ_LOOP /
                   US_TEST_LOOP) and will not return to one after a flush (u_wafter), the event in
                   progress (u_cmd) and every queued event (ring_items) name quiet commands
     cmd_output t  accepted bytes of command responses (EWr ATCMD _ true), oldest first
     cmd_calls t   the command machine's handler calls (request with arguments, code), oldest first
     Lemmas_C01s.consumed t   the consumed input bytes, oldest first

   Hypotheses and why (necessity witnesses at the end of this file):
     d_mutex D = false                        the scripted world of Properties_C12 part B
     invE D (st w) = true                     the event side never calls the application.  An event-side
                                              handler can (i) store into variables the command side
                                              prints (C12m_ex_poke_necessary), return HOLD / HOLD_EXIT
                                              (scope decision D3), and (ii) consume handler-script
                                              entries the command side would have got, Script.key_of
                                              ignoring the machine (C12m_ex_shared_script_necessary)
     script_ok res_no_trigger (hs w) = true   (iii) command-side handlers do not trigger events: keeps
                                              the queue quiet and the logged status of inner calls
                                              (ring full or not) independent of the event machine
   NOT claimed: "exists m <= n" (Properties_C12 part B form).  In mixed runs the scheduled command
   machine can be AHEAD of the always-ready one (it wins the FLUSH_WAIT exclusion against an event
   unit that the schedule delayed): C12m_ex_overtakes.  What holds is that both are on ONE chain. *)
From Coq Require Import List NArith ZArith Bool Arith Lia.
From CatV Require Import Bytes Defs Codec Fsm Script TraceDefs ResolveDefs SchedDefs SkelInv GlueDefs.
From CatV Require Lemmas_C01s Lemmas_C15.
From CatV Require Import Lemmas_C12m.
Import ListNotations.
Local Open Scope nat_scope.

Local Notation st := (Fsm.st sio smu shs).
Local Notation io := (Fsm.io sio smu shs).
Local Notation hs := (Fsm.hs sio smu shs).
Local Notation tr := (Fsm.tr sio smu shs).
Local Notation s_cmd D := (Fsm.cmd_service D sio smu shs s_read s_write s_lock s_unlock s_call).
Local Notation s_uns D := (Fsm.unsolicited_events_service D sio smu shs s_write s_lock s_unlock s_call).
Local Notation sdo D := (do_op D sio smu shs s_read s_write s_lock s_unlock s_call).

(* 1. ONE step of the command machine, in ANY world (any event-machine state, any schedules): a
   stutter of the command view, or exactly the step of the canonical world.  The readiness bits
   and "the event machine is flushing" (FLUSH_WAIT exclusion) only decide WHETHER it moves. *)
Theorem C12_cmd_step_view : forall D (w : sworld), d_mutex D = false ->
  script_ok res_no_trigger (hs w) = true ->
  cview (fst (s_cmd D w)) = cview w \/ cview (fst (s_cmd D w)) = cnext D (cview w).
Proof. intros D w M. exact (Lemmas_C12m.cmd_step_view D M w). Qed.
Print Assumptions C12_cmd_step_view.

(* 2. ONE step of the event machine working on quiet commands: the command view is untouched and
   the event-side invariant is kept *)
Theorem C12_uns_step_view : forall D (w : sworld), invE D (st w) = true ->
  cview (fst (s_uns D w)) = cview w /\ invE D (st (fst (s_uns D w))) = true.
Proof. exact Lemmas_C12m.uns_step_view. Qed.
Print Assumptions C12_uns_step_view.

(* 3. whole runs: after n service calls the command view is cnext^j of the initial one, j <= n *)
Theorem C12_cmd_run_view : forall D n (w : sworld), d_mutex D = false ->
  invE D (st w) = true -> script_ok res_no_trigger (hs w) = true ->
  (invE D (st (nsvc D n w)) = true /\ script_ok res_no_trigger (hs (nsvc D n w)) = true) /\
  exists j, j <= n /\ cview (nsvc D n w) = citer D j (cview w).
Proof. intros D n w M I S. exact (Lemmas_C12m.run_view D M n w (conj I S)). Qed.
Print Assumptions C12_cmd_run_view.

(* 4. two worlds with the same command view -- e.g. w and eager w, or the same input under two
   different schedules, even with DIFFERENT queued (quiet) events -- stay on one chain *)
Theorem C12_cmd_view_chain : forall D (w1 w2 : sworld) n m, d_mutex D = false ->
  invE D (st w1) = true -> script_ok res_no_trigger (hs w1) = true ->
  invE D (st w2) = true -> script_ok res_no_trigger (hs w2) = true ->
  cview w1 = cview w2 ->
  exists j1 j2, j1 <= n /\ j2 <= m /\
    cview (nsvc D n w1) = citer D j1 (cview w1) /\ cview (nsvc D m w2) = citer D j2 (cview w1).
Proof.
  intros D w1 w2 n m M I1 S1 I2 S2. exact (Lemmas_C12m.C12_cmd_view_chain D M w1 w2 n m (conj I1 S1) (conj I2 S2)).
Qed.
Print Assumptions C12_cmd_view_chain.

(* 5. hence, for ANY n and m, the consumed bytes, the command-response bytes and the command-side
   handler calls of the two runs are prefix-related (one run is ahead of the other, never
   different) *)
Theorem C12_cmd_projection_prefix : forall D (w1 w2 : sworld) n m, d_mutex D = false ->
  invE D (st w1) = true -> script_ok res_no_trigger (hs w1) = true ->
  invE D (st w2) = true -> script_ok res_no_trigger (hs w2) = true ->
  cview w1 = cview w2 ->
  let a := nsvc D n w1 in let b := nsvc D m w2 in
  (exists r1 r2 r3, Lemmas_C01s.consumed (tr a) = Lemmas_C01s.consumed (tr b) ++ r1 /\
                    cmd_output (tr a) = cmd_output (tr b) ++ r2 /\
                    cmd_calls (tr a) = cmd_calls (tr b) ++ r3) \/
  (exists r1 r2 r3, Lemmas_C01s.consumed (tr b) = Lemmas_C01s.consumed (tr a) ++ r1 /\
                    cmd_output (tr b) = cmd_output (tr a) ++ r2 /\
                    cmd_calls (tr b) = cmd_calls (tr a) ++ r3).
Proof. intros D w1 w2 n m M. exact (Lemmas_C12m.C12_cmd_projection_prefix D M w1 w2 n m). Qed.
Print Assumptions C12_cmd_projection_prefix.

(* 6. at quiescence of both runs (cat_service answers OK with the input consumed; reached under
   every finite schedule by Properties_C15c) the command views are EQUAL *)
Theorem C12_cmd_view_final : forall D (w1 w2 : sworld) n m, d_mutex D = false ->
  invE D (st w1) = true -> script_ok res_no_trigger (hs w1) = true ->
  invE D (st w2) = true -> script_ok res_no_trigger (hs w2) = true ->
  cview w1 = cview w2 ->
  inq (io (nsvc D n w1)) = [] -> snd (sdo D (nsvc D n w1) OService) = ST_OK ->
  inq (io (nsvc D m w2)) = [] -> snd (sdo D (nsvc D m w2) OService) = ST_OK ->
  cview (nsvc D n w1) = cview (nsvc D m w2).
Proof.
  intros D w1 w2 n m M I1 S1 I2 S2.
  exact (Lemmas_C12m.C12_cmd_view_final D M w1 w2 n m (conj I1 S1) (conj I2 S2)).
Qed.
Print Assumptions C12_cmd_view_final.

(* 7. MAIN: the scheduled run and the always-ready run of the same world w, both quiescent: the
   same bytes consumed, the same command-response bytes in the same order, the same command-side
   handler calls with the same arguments and codes, the same command-machine registers, buffer,
   variable storage and handler scripts *)
Theorem C12_cmd_projection_independent : forall D (w : sworld) n m, d_mutex D = false ->
  invE D (st w) = true -> script_ok res_no_trigger (hs w) = true ->
  inq (io (nsvc D n w)) = [] -> snd (sdo D (nsvc D n w) OService) = ST_OK ->
  inq (io (nsvc D m (eager w))) = [] -> snd (sdo D (nsvc D m (eager w)) OService) = ST_OK ->
  let a := nsvc D n w in let b := nsvc D m (eager w) in
  Lemmas_C01s.consumed (tr a) = Lemmas_C01s.consumed (tr b) /\
  cmd_output (tr a) = cmd_output (tr b) /\ cmd_calls (tr a) = cmd_calls (tr b) /\
  k (st a) = k (st b) /\ cbuf (st a) = cbuf (st b) /\ mem (st a) = mem (st b) /\
  hs a = hs b /\ inq (io a) = inq (io b).
Proof. intros D w n m M. exact (Lemmas_C12m.C12_cmd_projection_independent D M w n m). Qed.
Print Assumptions C12_cmd_projection_independent.

(* 8. quiescence is a fixed point of the chain (so "final" is meaningful for the view) *)
Theorem C12_quiet_is_fixpoint : forall D (w : sworld), Lemmas_C15.quiet w -> cnext D (cview w) = cview w.
Proof. exact Lemmas_C12m.quiet_fix. Qed.
Print Assumptions C12_quiet_is_fixpoint.

(* ================================================================== *)
(* non-vacuity: a mixed run                                             *)
(* ================================================================== *)

(* command 0: "+X" with a read handler; command 1: "+V", an int variable (value 5), no handlers *)
Definition mD : desc :=
  mkDesc [[mkCmd [43; 88]%N None false true false false [] false false false;
           mkCmd [43; 86]%N None false false false false
                 [mkVar None VInt 1 RW false false 0] false false false]] [] 64 None 0%N 2 false.
Definition m_rd : list bool := [false; true; false; false; true; true; false].
Definition m_wr : list bool :=
  [false; false; true; false; true; false; false; false; true; true; false; true; false; false;
   false; false; true].
Definition m_script : shs := [((1, 0, 0), [mkHres RC_DATA_OK (Some [43; 88; 61; 49]%N) [] []])].
(* input "AT+X?\nAT+V?\n" (the first line calls the handler), two READ events of "+V" queued,
   refusing read and write schedules *)
Local Notation mW :=
  (srun mD (sinit mD [[5%N]] (mkSio [65; 84; 43; 88; 63; 10; 65; 84; 43; 86; 63; 10]%N m_rd m_wr)
                  (mkSmu [] []) m_script)
        [SOp (OTrigger 1 T_READ); SOp (OTrigger 1 T_READ)]).

Example C12m_ex_hyps :
  d_mutex mD = false /\ invE mD (st mW) = true /\ script_ok res_no_trigger (hs mW) = true /\
  u_count (u (st mW)) = 2 /\ quiet_cmd (nth 1 (pool mD) (mkCmd [] None false false false false [] false false false)) = true /\
  quiet_cmd (nth 0 (pool mD) (mkCmd [] None false false false false [] false false false)) = false.
Proof. vm_compute. repeat split. Qed.

(* the scheduled run is quiescent after 84 calls (not 83), the always-ready run after 75 (not 74) *)
Example C12m_ex_quiescent :
  inq (io (nsvc mD 84 mW)) = [] /\ snd (sdo mD (nsvc mD 84 mW) OService) = ST_OK /\
  snd (sdo mD (nsvc mD 83 mW) OService) = ST_BUSY /\
  inq (io (nsvc mD 75 (eager mW))) = [] /\ snd (sdo mD (nsvc mD 75 (eager mW)) OService) = ST_OK /\
  snd (sdo mD (nsvc mD 74 (eager mW)) OService) = ST_BUSY.
Proof. vm_compute. repeat split. Qed.

(* what theorem 7 equates, computed: 12 bytes consumed, "\n+X=1\n\nOK\n\n+V=5\n\nOK\n" as command
   responses (the two event units "\n+V=5\n" are not part of it), one handler call *)
Example C12m_ex_values :
  Lemmas_C01s.consumed (tr (nsvc mD 84 mW)) = [65; 84; 43; 88; 63; 10; 65; 84; 43; 86; 63; 10]%N /\
  cmd_output (tr (nsvc mD 84 mW)) =
    [10; 43; 88; 61; 49; 10; 10; 79; 75; 10; 10; 43; 86; 61; 53; 10; 10; 79; 75; 10]%N /\
  cmd_calls (tr (nsvc mD 84 mW)) = [(HRead ATCMD 0 [43; 88; 61; 0]%N 3 32, RC_DATA_OK)] /\
  length (output_of (tr (nsvc mD 84 mW))) = 32.
Proof. vm_compute. repeat split. Qed.

(* theorem 7 applies *)
Example C12m_ex_applies :
  cmd_output (tr (nsvc mD 84 mW)) = cmd_output (tr (nsvc mD 75 (eager mW))) /\
  cmd_calls (tr (nsvc mD 84 mW)) = cmd_calls (tr (nsvc mD 75 (eager mW))) /\
  Lemmas_C01s.consumed (tr (nsvc mD 84 mW)) = Lemmas_C01s.consumed (tr (nsvc mD 75 (eager mW))).
Proof.
  destruct C12m_ex_hyps as (H1 & H2 & H3 & _).
  destruct C12m_ex_quiescent as (Q1 & O1 & _ & Q2 & O2 & _).
  destruct (C12_cmd_projection_independent mD mW 84 75 H1 H2 H3 Q1 O1 Q2 O2) as (A & B & C & _).
  repeat split; assumption.
Qed.

(* ================================================================== *)
(* why not "exists m <= n": the scheduled command machine can be ahead *)
(* ================================================================== *)
(* input 7 line feeds then "AT+X?\n", two events queued, the first 7 writes refused: the first
   event unit is delayed, so the command machine reaches CS_FLUSH_WAIT before the SECOND unit
   starts and wins the exclusion; in the always-ready run the second unit is already being
   written and the command response waits for it *)
Local Notation mW3 :=
  (srun mD (sinit mD [[5%N]] (mkSio (repeat 10%N 7 ++ [65; 84; 43; 88; 63; 10]%N) [] (repeat false 7))
                  (mkSmu [] []) m_script)
        [SOp (OTrigger 1 T_READ); SOp (OTrigger 1 T_READ)]).
Definition clen (w : sworld) : nat := length (filter cvis (tr w)).

(* after 25 calls the scheduled run has a longer command-side sub-trace than the always-ready run
   after ANY m <= 25 calls; they meet again later (both have 24 entries after 60 calls) *)
Example C12m_ex_overtakes :
  forallb (fun m => clen (nsvc mD m (eager mW3)) <? clen (nsvc mD 25 mW3)) (seq 0 26) = true /\
  invE mD (st mW3) = true /\
  clen (nsvc mD 25 mW3) = 17 /\ clen (nsvc mD 25 (eager mW3)) = 14 /\
  clen (nsvc mD 60 mW3) = 24 /\ clen (nsvc mD 60 (eager mW3)) = 24.
Proof. vm_compute. repeat split. Qed.

(* ================================================================== *)
(* necessity of "the event side does not call the application"          *)
(* ================================================================== *)
Fixpoint nl_eqb (a b : list N) : bool :=
  match a, b with
  | [], [] => true
  | x :: a', y :: b' => (x =? y)%N && nl_eqb a' b'
  | _, _ => false
  end.

(* (i) an event-side handler that stores into a variable the command side prints.
   command 0: "+V" (variable, no handlers); command 1: "+E" with a read handler storing 9 into
   +V's variable.  Events: READ +V, READ +E; input: 3 line feeds, "AT+V?\n"; 4 writes refused.
   Scheduled: the command prints "+V=5" (before the store); always ready: "+V=9". *)
Definition pD : desc :=
  mkDesc [[mkCmd [43; 86]%N None false false false false
                 [mkVar None VInt 1 RW false false 0] false false false;
           mkCmd [43; 69]%N None false true false false [] false false false]] [] 64 None 0%N 2 false.
Definition p_script : shs := [((1, 1, 0), [mkHres RC_OK None [(0, [9%N])] []])].
Local Notation pW :=
  (srun pD (sinit pD [[5%N]] (mkSio (repeat 10%N 3 ++ [65; 84; 43; 86; 63; 10]%N) [] (repeat false 4))
                  (mkSmu [] []) p_script)
        [SOp (OTrigger 0 T_READ); SOp (OTrigger 1 T_READ)]).

Example C12m_ex_poke_necessary :
  invE pD (st pW) = false /\ script_ok res_no_trigger (hs pW) = true /\
  inq (io (nsvc pD 120 pW)) = [] /\ snd (sdo pD (nsvc pD 120 pW) OService) = ST_OK /\
  inq (io (nsvc pD 120 (eager pW))) = [] /\ snd (sdo pD (nsvc pD 120 (eager pW)) OService) = ST_OK /\
  cmd_output (tr (nsvc pD 120 pW)) = [10; 43; 86; 61; 53; 10; 10; 79; 75; 10]%N /\
  cmd_output (tr (nsvc pD 120 (eager pW))) = [10; 43; 86; 61; 57; 10; 10; 79; 75; 10]%N.
Proof. vm_compute. repeat split. Qed.

(* (ii) a handler script shared by both sides (Script.key_of ignores the machine).
   one command "+X" with a read handler whose script answers "A" then "B"; events: TEST +X (quiet
   as a TEST: no test handler, no variables), READ +X; input: 3 line feeds, "AT+X?\n"; 6 writes
   refused.  Scheduled: the command line gets the first answer, always ready: the second (the
   global byte stream happens to be the same here; which producer emitted "A" is not). *)
Definition sD : desc :=
  mkDesc [[mkCmd [43; 88]%N None false true false false [] false false false]] [] 64 None 0%N 2 false.
Definition s_script : shs :=
  [((1, 0, 0), [mkHres RC_DATA_OK (Some [65]%N) [] []; mkHres RC_DATA_OK (Some [66]%N) [] []])].
Local Notation sW :=
  (srun sD (sinit sD [] (mkSio (repeat 10%N 3 ++ [65; 84; 43; 88; 63; 10]%N) [] (repeat false 6))
                  (mkSmu [] []) s_script)
        [SOp (OTrigger 0 T_TEST); SOp (OTrigger 0 T_READ)]).

Example C12m_ex_shared_script_necessary :
  invE sD (st sW) = false /\ script_ok res_no_trigger (hs sW) = true /\
  inq (io (nsvc sD 120 sW)) = [] /\ snd (sdo sD (nsvc sD 120 sW) OService) = ST_OK /\
  inq (io (nsvc sD 120 (eager sW))) = [] /\ snd (sdo sD (nsvc sD 120 (eager sW)) OService) = ST_OK /\
  cmd_output (tr (nsvc sD 120 sW)) = [10; 65; 10; 10; 79; 75; 10]%N /\
  cmd_output (tr (nsvc sD 120 (eager sW))) = [10; 66; 10; 10; 79; 75; 10]%N /\
  nl_eqb (output_of (tr (nsvc sD 120 sW))) (output_of (tr (nsvc sD 120 (eager sW)))) = true.
Proof. vm_compute. repeat split. Qed.
