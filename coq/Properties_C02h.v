(* Properties_C02h.v — property C02 at HISTORY level, for arbitrary oracles.
   Properties_C02.v proves the lookup as iterated step functions, Properties_C02e/t.v for an
   always-ready scripted environment, Properties_C02c.v that the callbacks concern the command that
   was in k_cmd when CS_COMMAND_FOUND was entered.  This file closes the gap between them: for
   ARBITRARY io / mutex / handler oracles and every list of API operations from cat_init in the
   supported domain (refused reads between the bytes of a name, refused writes, events processed in
   the middle of a name, mutex failures, triggers and queries in between):

     C02_found_is_resolve     whenever the command machine is in CS_COMMAND_FOUND, the selected command
                              is Spec.resolve of the name typed on the CURRENT line — a pure function
                              of the bytes io_read has delivered so far — over the currently enabled
                              commands, and the request type is the one the suffix announces;
     C02_not_found_means_no_match / C02_search_fails
                              the search is left with "not found" (state CS_COMMAND_NOT_FOUND after a
                              line feed, CS_ERROR after '=') only when resolve is None (no match or an
                              ambiguous abbreviation);
     C02_handler_is_resolved / C02_handler_kind
                              composed with C02_calls_selected: every command-side callback recorded
                              in a history is made for the command  resolve (typed name of its line),
                              and its kind is the one of the suffix's request type (a write request
                              "=..." may have become the test request "=?").

   The enable flags: the model computes the match lanes per character with the flags current AT
   THAT CHARACTER, and skips (does not update) the lane of a disabled command.  A flag changed in the
   middle of a line therefore invalidates the statement (Example ex_flag_mid_line_necessary: after
   re-enabling "+GO" in the middle of "AT+XO" the machine selects "+GO").  The theorems take the
   hypothesis of C09, flags_between_lines: every flag operation finds the command machine in CS_IDLE;
   then the flags at the moment of CS_COMMAND_FOUND are those of the whole line.

   History theorems take the universally quantified oracle hypotheses no_uhold / handlers_valid
   (Lemmas_Domain.v).  `tr w` is newest first.  Proofs: Lemmas_C02h.v. *)
From Coq Require Import List NArith ZArith Bool Arith Lia.
From CatV Require Import Bytes Defs Codec Spec Fsm Script ResolveDefs Skel SkelSim EvSkelSim Lemmas_C03.
From CatV Require Lemmas_C01s Lemmas_C09 Lemmas_Calls.
From CatV Require Import Lemmas_C02h.
Import ListNotations.
Local Open Scope nat_scope.

(* ------------------------------------------------------------------ *)
(* definitions used in the statements (they live in Lemmas_C02h.v /     *)
(* Lemmas_C01s.v / Lemmas_C09.v; restated here as checked equations)    *)
(* ------------------------------------------------------------------ *)

(* the bytes delivered by io_read, oldest first *)
Example def_consumed : forall t,
  Lemmas_C01s.consumed t = flat_map (fun e => match e with ERd (Some c) => [c] | _ => [] end) (rev t).
Proof. reflexivity. Qed.

Example def_ends_lf : forall l,
  ends_lf l = match rev l with c :: _ => (c =? ch_LF)%N | [] => false end.
Proof. reflexivity. Qed.

(* the line in progress: it restarts with the first byte consumed after a line feed, and keeps its
   terminating line feed as long as nothing newer has been consumed *)
Example def_cur_line : forall bs,
  cur_line bs = fold_left (fun acc c => if ends_lf acc then [c] else acc ++ [c]) bs [].
Proof. reflexivity. Qed.

(* the phases of a line: only CR so far / 'A' seen / "AT" seen, t = name characters so far, upper-cased
   / name then '?' / name and suffix complete, with the request type / no command on this line.
   One byte (as delivered, any case): CR is skipped everywhere before the end of the suffix; the name
   is the maximal run of name characters after "AT"; LF, '?' LF, '=' end it *)
Example def_lstep : forall p c,
  lstep p c =
  let u := to_upper c in
  match p with
  | LBlank => if (u =? ch_A)%N then LA else if (u =? ch_CR)%N then LBlank else LNoCmd
  | LA => if (u =? ch_T)%N then LName [] else if (u =? ch_CR)%N then LA else LNoCmd
  | LName t =>
      if (u =? ch_LF)%N then match t with [] => LNoCmd | _ => LEnd t T_RUN end
      else if (u =? ch_CR)%N then LName t
      else if (u =? ch_QM)%N then match t with [] => LNoCmd | _ => LQm t end
      else if (u =? ch_EQ)%N then match t with [] => LNoCmd | _ => LEnd t T_WRITE end
      else if is_name_char u then LName (t ++ [u])
      else LNoCmd
  | LQm t => if (u =? ch_LF)%N then LEnd t T_READ else if (u =? ch_CR)%N then LQm t else LNoCmd
  | LEnd t ty => LEnd t ty
  | LNoCmd => LNoCmd
  end.
Proof. reflexivity. Qed.

Example def_scan : forall l, scan l = fold_left lstep l LBlank.
Proof. reflexivity. Qed.

(* the name typed on the line and the request type its suffix announces; a line that so far consists
   of "AT" and name characters only can be in CS_COMMAND_FOUND only through an implicit-write command,
   whose request type is WRITE *)
Example def_typed_of : forall l,
  typed_of l = match scan l with LName t | LQm t | LEnd t _ => t | _ => [] end.
Proof. reflexivity. Qed.
Example def_type_of : forall l,
  type_of l = match scan l with LEnd _ ty => ty | LName _ => T_WRITE | LQm _ => T_READ | _ => T_NONE end.
Proof. reflexivity. Qed.

(* the request type may change between CS_COMMAND_FOUND and the callback only from WRITE to TEST *)
Example def_tyev : forall a b, tyev a b = (b = a \/ (a = T_WRITE /\ b = T_TEST)).
Proof. reflexivity. Qed.

(* ================================================================== *)
(* the theorems                                                          *)
(* ================================================================== *)
Section C02h.
Variable D : desc.
Variables ioS muS hS : Type.
Variable io_read : ioS -> ioS * option N.
Variable io_write : ioS -> N -> ioS * bool.
Variable mu_lock : muS -> muS * bool.
Variable mu_unlock : muS -> muS * bool.
Variable h_call : hS -> hreq -> hS * hres.
(* D3: event-side handlers do not return HOLD; events triggered from handlers name pool commands *)
Hypothesis no_uhold : forall hs q, unsol_req q = true -> r_code (snd (h_call hs q)) <> RC_HOLD.
Hypothesis handlers_valid : forall hs q, Forall (valid_icall D) (r_calls (snd (h_call hs q))).

Notation world := (Fsm.world ioS muS hS).
Notation mkWorld := (Fsm.mkWorld ioS muS hS).
Notation st := (Fsm.st ioS muS hS).
Notation tr := (Fsm.tr ioS muS hS).
Notation step := (Fsm.step D ioS muS hS io_read io_write mu_lock mu_unlock h_call).
Notation run := (Fsm.run D ioS muS hS io_read io_write mu_lock mu_unlock h_call).
Notation reach m x mx h ops := (run (mkWorld (init_state D m) x mx h []) ops).
(* C09's condition: the enable flags are changed only between lines *)
Notation flags_between_lines :=
  (Lemmas_C09.flags_between_lines D ioS muS hS io_read io_write mu_lock mu_unlock h_call).
(* the line in progress in world w *)
Notation line w := (cur_line (Lemmas_C01s.consumed (tr w))).

Example def_flags_between_lines : forall (w : world) o r,
  flags_between_lines w [] = True /\
  flags_between_lines w (o :: r) =
  ((Lemmas_C09.flag_op o = true -> k_state (k (st w)) = CS_IDLE) /\ flags_between_lines (step w o) r).
Proof. intros. split; reflexivity. Qed.

(* 1. the positive half *)
Theorem C02_found_is_resolve : forall m x mx h ops,
  wf_desc D m -> Forall (valid_op D) ops ->
  flags_between_lines (mkWorld (init_state D m) x mx h []) ops ->
  let w := reach m x mx h ops in
  k_state (k (st w)) = CS_COMMAND_FOUND ->
  k_cmd (k (st w)) = resolve (typed_of (line w)) (enabled D (st w)) (cmds D) /\
  k_cmd (k (st w)) <> None /\
  k_type (k (st w)) = type_of (line w).
Proof.
  exact (Lemmas_C02h.C02_found_is_resolve_proof D ioS muS hS io_read io_write mu_lock mu_unlock h_call
           no_uhold handlers_valid).
Qed.

(* 2a. the negative half, after a line feed: the state CS_COMMAND_NOT_FOUND (whose only step is the
   ERROR answer) is entered only when resolve is None *)
Theorem C02_not_found_means_no_match : forall m x mx h ops,
  wf_desc D m -> Forall (valid_op D) ops ->
  flags_between_lines (mkWorld (init_state D m) x mx h []) ops ->
  let w := reach m x mx h ops in
  k_state (k (st w)) = CS_COMMAND_NOT_FOUND ->
  resolve (typed_of (line w)) (enabled D (st w)) (cmds D) = None.
Proof.
  exact (Lemmas_C02h.C02_not_found_proof D ioS muS hS io_read io_write mu_lock mu_unlock h_call
           no_uhold handlers_valid).
Qed.

(* 2b. the negative half as a step: ANY operation that takes the command machine from the search to
   CS_COMMAND_NOT_FOUND or to CS_ERROR (the '=' form: the rest of the line is skipped, then ERROR) does
   so with resolve = None.  With C02_calls_selected (a callback needs a CS_COMMAND_FOUND state on its
   line): nothing of that line is invoked. *)
Theorem C02_search_fails : forall m x mx h ops o,
  wf_desc D m -> Forall (valid_op D) (ops ++ [o]) ->
  flags_between_lines (mkWorld (init_state D m) x mx h []) ops ->
  let w := reach m x mx h ops in
  k_state (k (st w)) = CS_SEARCH_COMMAND ->
  k_state (k (st (step w o))) = CS_COMMAND_NOT_FOUND \/ k_state (k (st (step w o))) = CS_ERROR ->
  resolve (typed_of (line w)) (enabled D (st w)) (cmds D) = None.
Proof.
  exact (Lemmas_C02h.C02_search_fails_proof D ioS muS hS io_read io_write mu_lock mu_unlock h_call
           no_uhold handlers_valid).
Qed.

(* 3. composed with C02_calls_selected: every command-side callback recorded in a history was made
   for the command that resolve assigns to the name typed on its line: the history splits at a
   CS_COMMAND_FOUND state wf whose line resolves to the callback's command, the selected command stays
   needed (no reset, no new lookup) up to the cat_service call that makes the callback, and that call
   finds the machine in the callback's state with the callback's request type *)
Theorem C02_handler_is_resolved : forall m x mx h ops q code,
  wf_desc D m -> Forall (valid_op D) ops ->
  let w0 := mkWorld (init_state D m) x mx h [] in
  flags_between_lines w0 ops ->
  In (ECall q code) (tr (run w0 ops)) -> Lemmas_Calls.ev_side q = false ->
  exists ops0 opsm ops2, ops = ops0 ++ opsm ++ OService :: ops2 /\
    let wf := run w0 ops0 in
    k_state (k (st wf)) = CS_COMMAND_FOUND /\
    resolve (typed_of (line wf)) (enabled D (st wf)) (cmds D) = Some (req_cmd q) /\
    k_type (k (st wf)) = type_of (line wf) /\
    (forall j, j <= length opsm -> Lemmas_C09.needs_cmd (st (run w0 (ops0 ++ firstn j opsm))) = true) /\
    let s := st (run w0 (ops0 ++ opsm)) in
    k_cmd (k s) = Some (req_cmd q) /\ k_state (k s) = Lemmas_Calls.call_state q /\
    k_type (k s) = Lemmas_Calls.kind_type q.
Proof.
  exact (Lemmas_C02h.C02_handler_is_resolved_proof D ioS muS hS io_read io_write mu_lock mu_unlock h_call
           no_uhold handlers_valid).
Qed.

(* 4. ... and the callback's kind is the one the suffix of that line announces: run handler for
   "AT<name>", read callbacks for "AT<name>?", write callbacks for "AT<name>=..." (or the implicit
   write), and the test handler for a write request that went on with '?' ("AT<name>=?") *)
Theorem C02_handler_kind : forall m x mx h ops q code,
  wf_desc D m -> Forall (valid_op D) ops ->
  let w0 := mkWorld (init_state D m) x mx h [] in
  flags_between_lines w0 ops ->
  In (ECall q code) (tr (run w0 ops)) -> Lemmas_Calls.ev_side q = false ->
  exists ops0 ops1, ops = ops0 ++ ops1 /\
    let wf := run w0 ops0 in
    k_state (k (st wf)) = CS_COMMAND_FOUND /\
    resolve (typed_of (line wf)) (enabled D (st wf)) (cmds D) = Some (req_cmd q) /\
    tyev (type_of (line wf)) (Lemmas_Calls.kind_type q).
Proof.
  exact (Lemmas_C02h.C02_handler_kind_proof D ioS muS hS io_read io_write mu_lock mu_unlock h_call
           no_uhold handlers_valid).
Qed.

End C02h.

Print Assumptions C02_found_is_resolve.
Print Assumptions C02_not_found_means_no_match.
Print Assumptions C02_search_fails.
Print Assumptions C02_handler_is_resolved.
Print Assumptions C02_handler_kind.

(* ------------------------------------------------------------------ *)
(* the typed name, declaratively                                        *)
(* ------------------------------------------------------------------ *)
Example def_take_while : forall p l,
  take_while p l = match l with c :: r => if p c then c :: take_while p r else [] | [] => [] end.
Proof. intros p l. destruct l; reflexivity. Qed.
Example def_drop_while : forall p l,
  drop_while p l = match l with c :: r => if p c then drop_while p r else l | [] => [] end.
Proof. intros p l. destruct l; reflexivity. Qed.
Example def_is_cr : forall c, is_cr c = (c =? ch_CR)%N.
Proof. reflexivity. Qed.
Example def_name_or_cr : forall c, name_or_cr c = is_cr c || is_name_char (to_upper c).
Proof. reflexivity. Qed.
(* the bytes after the prefix: CRs, 'A' or 'a', CRs, 'T' or 't' *)
Example def_after_at : forall l,
  after_at l =
  match drop_while is_cr l with
  | a :: r =>
    if (to_upper a =? ch_A)%N then
      match drop_while is_cr r with
      | t :: r' => if (to_upper t =? ch_T)%N then Some r' else None
      | [] => None
      end
    else None
  | [] => None
  end.
Proof. reflexivity. Qed.
Example def_typed_decl : forall l,
  typed_decl l =
  match after_at l with
  | Some body => map to_upper (filter (fun c => negb (is_cr c)) (take_while name_or_cr body))
  | None => []
  end.
Proof. reflexivity. Qed.

(* whenever the phase automaton finds a (non-empty) name on the line, it is: skip CRs, 'A', skip CRs,
   'T', then the maximal run of name characters and CRs, with the CRs dropped, upper-cased *)
Theorem C02_typed_name_declarative : forall l, typed_of l <> [] -> typed_of l = typed_decl l.
Proof. exact Lemmas_C02h.typed_of_is_decl. Qed.
Print Assumptions C02_typed_name_declarative.

(* ------------------------------------------------------------------ *)
(* non-vacuity                                                          *)
(* ------------------------------------------------------------------ *)
Module Examples.

Definition mkc (nm : list N) (hw hr hrun ht : bool) (vars : list var) (imp : bool) : cmd :=
  mkCmd nm None hw hr hrun ht vars false false imp.
Definition v_u8 := mkVar None VUint 1 RW false false 0.
(* 0 "+GO" (run)   1 "+GET" (one uint8 variable)   2 "+GO" again (run)   3 "+T" (run)
   4 "+TEST" (run, test)   5 "D" (implicit write) *)
Definition exD : desc :=
  mkDesc [[mkc [43;71;79]%N false false true false [] false;
           mkc [43;71;69;84]%N false false false false [v_u8] false;
           mkc [43;71;79]%N false false true false [] false;
           mkc [43;84]%N false false true false [] false;
           mkc [43;84;69;83;84]%N false false true true [] false;
           mkc [68]%N true false false false [] true]]
         [] 32 None 0%N 2 false.
Definition exM : list (list N) := [[7%N]].

(* handlers that satisfy the two oracle hypotheses in EVERY handler state *)
Definition ex_call (n : nat) (q : hreq) : nat * hres := (S n, default_res q).
Example ex_no_uhold : forall hs q, unsol_req q = true -> r_code (snd (ex_call hs q)) <> RC_HOLD.
Proof. intros hs q _. destruct q; discriminate. Qed.
Example ex_handlers_valid : forall hs q, Forall (valid_icall exD) (r_calls (snd (ex_call hs q))).
Proof. intros hs q. destruct q; constructor. Qed.
Example ex_wf : wf_desc exD exM.
Proof.
  unfold wf_desc. cbn. repeat split; try lia;
    repeat constructor; unfold wf_var, hexbuf_nonempty; cbn; eauto; try discriminate; try lia.
Qed.

Definition exW0 (input : list N) (rs : list bool) : world sio smu nat :=
  mkWorld sio smu nat (init_state exD exM) (mkSio input rs []) (mkSmu [] []) 0 [].
Definition exRun (input : list N) (rs : list bool) (ops : list op) : world sio smu nat :=
  run exD sio smu nat s_read s_write s_lock s_unlock ex_call (exW0 input rs) ops.
Definition ex_fbl (input : list N) (rs : list bool) (ops : list op) : Prop :=
  Lemmas_C09.flags_between_lines exD sio smu nat s_read s_write s_lock s_unlock ex_call (exW0 input rs) ops.
Definition ex_line (w : world sio smu nat) : list N := cur_line (Lemmas_C01s.consumed (tr _ _ _ w)).
(* state, selected command, request type; line in progress, typed name, announced type, resolve *)
Definition obs (w : world sio smu nat) :=
  (k_state (k (st _ _ _ w)), k_cmd (k (st _ _ _ w)), k_type (k (st _ _ _ w)),
   ex_line w, typed_of (ex_line w), type_of (ex_line w),
   resolve (typed_of (ex_line w)) (enabled exD (st _ _ _ w)) (cmds exD)).
Definition ex_calls (w : world sio smu nat) : list hreq :=
  flat_map (fun e => match e with ECall q _ => [q] | _ => [] end) (rev (tr _ _ _ w)).

Lemma valid_service : forall n, Forall (valid_op exD) (repeat OService n).
Proof. intros n. apply Forall_forall. intros o H. apply repeat_spec in H. subst o. exact I. Qed.

(* a. "aT+g<CR>et?<CR><LF>" (lower case, CRs inside the name and before the LF) delivered under a
   schedule that refuses every second or third read, with a READ event for "+GET" triggered and
   processed in the middle of the name, and queries in between: after 45 operations the machine is in
   CS_COMMAND_FOUND with command 1 = resolve "+GET", request type READ *)
Definition in_a : list N := [97;84;43;103;13;101;116;63;13;10]%N.
Definition rs_a : list bool :=
  [true;false;true;false;false;true;true;false;true;true;false;true;true;false;true;true].
Definition ops_a : list op :=
  repeat OService 9 ++ [OTrigger 1 T_READ; OIsBusy] ++ repeat OService 8 ++ [OGetProcessed ATCMD] ++
  repeat OService 25.
Example ex_a_hyps : Forall (valid_op exD) ops_a /\ ex_fbl in_a rs_a ops_a.
Proof.
  split.
  - unfold ops_a. repeat (apply Forall_app; split); try apply valid_service;
      repeat constructor; vm_compute; auto.
  - vm_compute. repeat split; intros; first [reflexivity | discriminate].
Qed.
Example ex_a : length ops_a = 45 /\
  obs (exRun in_a rs_a ops_a) =
  (CS_COMMAND_FOUND, Some 1, T_READ, in_a, [43;71;69;84]%N, T_READ, Some 1) /\
  (* reads were refused and the event was processed while the name was being typed *)
  existsb (fun e => match e with ERd None => true | _ => false end) (tr _ _ _ (exRun in_a rs_a ops_a)) = true /\
  existsb (fun e => match e with EPop ci t => (ci =? 1) && ctype_beq t T_READ | _ => false end)
          (tr _ _ _ (exRun in_a rs_a ops_a)) = true.
Proof. vm_compute. repeat split; reflexivity. Qed.

Example ex_a_decl : typed_decl in_a = [43;71;69;84]%N /\ typed_of in_a = [43;71;69;84]%N.
Proof. vm_compute. split; reflexivity. Qed.

(* b. the ambiguous abbreviation "AT+G" ("+GO", "+GET", "+GO"): CS_COMMAND_NOT_FOUND, resolve = None;
   the step that leaves the search (operation 23) is an instance of C02_search_fails *)
Definition in_b : list N := [65;84;43;71;10]%N.
Example ex_b :
  obs (exRun in_b [] (repeat OService 23)) =
  (CS_COMMAND_NOT_FOUND, Some 2, T_RUN, in_b, [43;71]%N, T_RUN, None) /\
  k_state (k (st _ _ _ (exRun in_b [] (repeat OService 22)))) = CS_SEARCH_COMMAND /\
  ex_calls (exRun in_b [] (repeat OService 80)) = [] /\
  ex_fbl in_b [] (repeat OService 23).
Proof. vm_compute. repeat split; intros; first [reflexivity | discriminate]. Qed.

(* ... and the '=' form of an unknown name leaves the search for CS_ERROR *)
Definition in_h : list N := [65;84;43;81;61;49;10]%N.
Example ex_h :
  k_state (k (st _ _ _ (exRun in_h [] (repeat OService 22)))) = CS_SEARCH_COMMAND /\
  obs (exRun in_h [] (repeat OService 23)) =
  (CS_ERROR, None, T_WRITE, [65;84;43;81;61]%N, [43;81]%N, T_WRITE, None).
Proof. vm_compute. split; reflexivity. Qed.

(* c. duplicate names: "AT+GO" selects the first "+GO" in registration order *)
Definition in_c : list N := [65;84;43;71;79;10]%N.
Example ex_c :
  obs (exRun in_c [] (repeat OService 25)) =
  (CS_COMMAND_FOUND, Some 0, T_RUN, in_c, [43;71;79]%N, T_RUN, Some 0) /\
  ex_calls (exRun in_c [] (repeat OService 27)) = [HRun 0].
Proof. vm_compute. split; reflexivity. Qed.

(* d. a disabled full match does not shadow a prefix match: with "+T" disabled (between lines),
   "AT+T" abbreviates "+TEST"; enabled, it is "+T" itself *)
Definition in_d : list N := [65;84;43;84;10]%N.
Example ex_d :
  obs (exRun in_d [] (OSetCmdDisable 3 true :: repeat OService 23)) =
  (CS_COMMAND_FOUND, Some 4, T_RUN, in_d, [43;84]%N, T_RUN, Some 4) /\
  obs (exRun in_d [] (repeat OService 21)) =
  (CS_COMMAND_FOUND, Some 3, T_RUN, in_d, [43;84]%N, T_RUN, Some 3) /\
  ex_fbl in_d [] (OSetCmdDisable 3 true :: repeat OService 23).
Proof. vm_compute. repeat split; intros; first [reflexivity | discriminate]. Qed.

(* e. implicit write: "ATD12": the lookup starts right after the 'D'; the line so far is "ATD" *)
Definition in_e : list N := [65;84;68;49;50;10]%N.
Example ex_e :
  obs (exRun in_e [] (repeat OService 15)) =
  (CS_COMMAND_FOUND, Some 5, T_WRITE, [65;84;68]%N, [68]%N, T_WRITE, Some 5).
Proof. vm_compute. reflexivity. Qed.

(* f. "AT+TEST=?": at CS_COMMAND_FOUND the line is "AT+TEST=", request type WRITE; the callback made
   later is the test handler (tyev T_WRITE T_TEST, C02_handler_kind) *)
Definition in_f : list N := [65;84;43;84;69;83;84;61;63;10]%N.
Example ex_f :
  obs (exRun in_f [] (repeat OService 43)) =
  (CS_COMMAND_FOUND, Some 4, T_WRITE, [65;84;43;84;69;83;84;61]%N, [43;84;69;83;84]%N, T_WRITE, Some 4) /\
  ex_calls (exRun in_f [] (repeat OService 120)) = [HTest ATCMD 4 [43;84;69;83;84;61;0]%N 6 16] /\
  tyev T_WRITE (Lemmas_Calls.kind_type (HTest ATCMD 4 [43;84;69;83;84;61;0]%N 6 16)).
Proof. vm_compute. repeat split; try reflexivity. right. split; reflexivity. Qed.

(* g. the hypothesis flags_between_lines is necessary: "+GO" (command 0) is disabled before the line;
   after "AT+X" has been consumed (16 cat_service calls) it is enabled again; its lane was never
   updated, so the third character 'O' completes a FULL match: "AT+XO" selects "+GO", whereas
   resolve "+XO" = None *)
Definition in_g : list N := [65;84;43;88;79;10]%N.
Definition ops_g : list op :=
  OSetCmdDisable 0 true :: repeat OService 16 ++ OSetCmdDisable 0 false :: repeat OService 9.
Example ex_flag_mid_line_necessary :
  obs (exRun in_g [] ops_g) =
  (CS_COMMAND_FOUND, Some 0, T_RUN, in_g, [43;88;79]%N, T_RUN, None) /\
  k_state (k (st _ _ _ (exRun in_g [] (firstn 17 ops_g)))) = CS_PARSE_COMMAND_CHAR /\
  ~ ex_fbl in_g [] ops_g.
Proof.
  vm_compute. repeat split; try reflexivity.
  intros H. do 17 (destruct H as [_ H]). destruct H as [H _]. specialize (H eq_refl). discriminate H.
Qed.

(* the theorem applied to run a: a generic helper over abstract inputs, then the instance *)
Definition ex_found (w : world sio smu nat) : Prop := k_state (k (st _ _ _ w)) = CS_COMMAND_FOUND.
Definition ex_concl (w : world sio smu nat) : Prop :=
  k_cmd (k (st _ _ _ w)) = resolve (typed_of (ex_line w)) (enabled exD (st _ _ _ w)) (cmds exD) /\
  k_cmd (k (st _ _ _ w)) <> None /\ k_type (k (st _ _ _ w)) = type_of (ex_line w).
Lemma ex_applies : forall input rs ops, Forall (valid_op exD) ops -> ex_fbl input rs ops ->
  ex_found (exRun input rs ops) -> ex_concl (exRun input rs ops).
Proof.
  intros input rs ops H1 H2 H3.
  exact (C02_found_is_resolve exD sio smu nat s_read s_write s_lock s_unlock ex_call ex_no_uhold
           ex_handlers_valid exM (mkSio input rs []) (mkSmu [] []) 0 ops ex_wf H1 H2 H3).
Qed.
Lemma ex_a_found : ex_found (exRun in_a rs_a ops_a).
Proof. vm_compute. reflexivity. Qed.
Example ex_a_applied : ex_concl (exRun in_a rs_a ops_a).
Proof. exact (ex_applies in_a rs_a ops_a (proj1 ex_a_hyps) (proj2 ex_a_hyps) ex_a_found). Qed.

End Examples.
