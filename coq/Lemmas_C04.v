(* Lemmas_C04.v — the numeric argument decoders accept exactly the well-formed,
   in-range texts and store exactly the mathematical value (property C04). *)
From Coq Require Import List NArith ZArith Bool Arith Lia.
From Coq Require Import ZifyBool ZifyNat ZifyN.
From CatV Require Import Bytes Defs Codec Spec.
Import ListNotations.
Local Open Scope N_scope.

#[local] Ltac Zify.zify_post_hook ::= Z.div_mod_to_equations.

#[local] Arguments N.mul : simpl never.
#[local] Arguments N.add : simpl never.
#[local] Arguments N.sub : simpl never.
#[local] Arguments N.div : simpl never.
#[local] Arguments N.modulo : simpl never.
#[local] Arguments N.pow : simpl never.
#[local] Arguments Z.mul : simpl never.
#[local] Arguments Z.add : simpl never.
#[local] Arguments Z.sub : simpl never.
#[local] Arguments Z.div : simpl never.
#[local] Arguments Z.modulo : simpl never.
#[local] Arguments Z.opp : simpl never.

(* ------------------------------------------------------------------ *)
(* characters                                                          *)
(* ------------------------------------------------------------------ *)

Lemma is_term_cases : forall t, is_term t = true -> t = 0 \/ t = 44.
Proof. unfold is_term, ch_COMMA. intros t H. lia. Qed.

Lemma term_not_dec : forall t, is_term t = true -> is_dec t = false.
Proof. intros t H. apply is_term_cases in H. unfold is_dec. lia. Qed.

Lemma dec_not_term : forall c, is_dec c = true -> is_term c = false.
Proof. unfold is_dec, is_term, ch_COMMA. intros c H. lia. Qed.

Lemma dec_digit_le : forall c, is_dec c = true -> c - 48 <= 9.
Proof. unfold is_dec. intros c H. lia. Qed.

Lemma term_not_sign : forall t, is_term t = true ->
  (t =? ch_MINUS) = false /\ (t =? ch_PLUS) = false.
Proof. intros t H. apply is_term_cases in H. unfold ch_MINUS, ch_PLUS. lia. Qed.

Lemma to_upper_term : forall t, is_term t = true -> to_upper t = t.
Proof.
  intros t H. apply is_term_cases in H. unfold to_upper.
  destruct ((97 <=? t) && (t <=? 122)) eqn:E; [lia | reflexivity].
Qed.

Lemma to_upper_not_term : forall c, is_term c = false -> is_term (to_upper c) = false.
Proof.
  unfold is_term, ch_COMMA, to_upper. intros c H.
  destruct ((97 <=? c) && (c <=? 122)) eqn:E; lia.
Qed.

Lemma to_upper_eq0 : forall c, (to_upper c =? ch_0) = (c =? ch_0).
Proof.
  unfold to_upper, ch_0. intros c.
  destruct ((97 <=? c) && (c <=? 122)) eqn:E; lia.
Qed.

Lemma term_not_hex : forall t, is_term t = true -> is_hex t = false.
Proof. intros t H. apply is_term_cases in H. unfold is_hex. lia. Qed.

Lemma hexval_le : forall c, is_hex c = true -> hexval c <= 15.
Proof.
  unfold is_hex, hexval. intros c H.
  destruct ((48 <=? c) && (c <=? 57)) eqn:E; lia.
Qed.

Lemma field_ok_cons : forall c f, field_ok (c :: f) = true ->
  is_term c = false /\ field_ok f = true.
Proof.
  unfold field_ok. cbn [forallb]. intros c f H.
  apply andb_prop in H as [H1 H2]. apply negb_true_iff in H1. auto.
Qed.

(* ------------------------------------------------------------------ *)
(* the unbounded values                                                *)
(* ------------------------------------------------------------------ *)

Lemma dec_go_ge : forall l acc, acc <= dec_value_go acc l.
Proof.
  induction l as [|c l IH]; intros acc; cbn [dec_value_go]; [lia|].
  eapply N.le_trans; [|apply IH]. lia.
Qed.

Lemma hex_go_ge : forall l acc, acc <= hex_value_go acc l.
Proof.
  induction l as [|c l IH]; intros acc; cbn [hex_value_go]; [lia|].
  eapply N.le_trans; [|apply IH]. lia.
Qed.

Lemma max_u64_val : max_u64 = 18446744073709551615. Proof. reflexivity. Qed.
Lemma two64_val : two64 = 18446744073709551616. Proof. reflexivity. Qed.
Lemma max_i64_val : max_i64 = 9223372036854775807%Z. Proof. reflexivity. Qed.

(* ------------------------------------------------------------------ *)
(* parse_uint                                                          *)
(* ------------------------------------------------------------------ *)

Lemma parse_uint_go_spec : forall t tail, is_term t = true ->
  forall f val ok n, field_ok f = true -> val <= max_u64 ->
  if (ok || nonempty f) && forallb is_dec f && (dec_value_go val f <=? max_u64)
  then parse_uint_go (f ++ t :: tail) val ok n
       = (SOk (t =? ch_COMMA), dec_value_go val f, (n + S (length f))%nat)
  else fst (fst (parse_uint_go (f ++ t :: tail) val ok n)) = SErr.
Proof.
  intros t tail Ht. induction f as [|c f IH]; intros val ok n Hf Hv.
  - cbn [app nonempty forallb dec_value_go length parse_uint_go].
    rewrite Ht. apply N.leb_le in Hv. rewrite Hv.
    destruct ok; cbn [orb andb fst].
    + f_equal. lia.
    + rewrite (term_not_dec _ Ht). reflexivity.
  - apply field_ok_cons in Hf as [Hc Hf].
    cbn [app nonempty forallb dec_value_go length parse_uint_go].
    rewrite Hc, andb_false_r, orb_true_r. cbn [andb].
    destruct (is_dec c) eqn:Hd; [|reflexivity].
    cbn [andb]. pose proof (dec_digit_le _ Hd) as Hd9.
    destruct (N.ltb_spec ((max_u64 - (c - 48)) / 10) val) as [Hov|Hov].
    + assert (Hgt : max_u64 < dec_value_go (val * 10 + (c - 48)) f).
      { eapply N.lt_le_trans; [|apply dec_go_ge].
        rewrite max_u64_val in *. lia. }
      apply N.leb_gt in Hgt. rewrite Hgt, andb_false_r. reflexivity.
    + assert (Hle : val * 10 + (c - 48) <= max_u64).
      { rewrite max_u64_val in *. lia. }
      rewrite N.mod_small by (rewrite two64_val; rewrite max_u64_val in Hle; lia).
      specialize (IH (val * 10 + (c - 48)) true (S n) Hf Hle).
      cbn [orb andb] in IH.
      destruct (forallb is_dec f && (dec_value_go (val * 10 + (c - 48)) f <=? max_u64)).
      * rewrite IH. f_equal. lia.
      * exact IH.
Qed.

Theorem C04_parse_uint : forall f t tail,
  field_ok f = true -> is_term t = true ->
  if uint_grammar f && (dec_value f <=? max_u64)
  then parse_uint (f ++ t :: tail) = (SOk (t =? ch_COMMA), dec_value f, S (length f))
  else fst (fst (parse_uint (f ++ t :: tail))) = SErr.
Proof.
  intros f t tail Hf Ht.
  assert (H0 : 0 <= max_u64) by (rewrite max_u64_val; lia).
  pose proof (parse_uint_go_spec t tail Ht f 0 false O Hf H0) as H.
  unfold uint_grammar, dec_value, parse_uint. cbn [orb plus] in H. exact H.
Qed.

(* ------------------------------------------------------------------ *)
(* parse_int                                                           *)
(* ------------------------------------------------------------------ *)

Lemma parse_int_go_spec : forall t tail, is_term t = true ->
  forall f (val : N) sign ok n, field_ok f = true ->
  (sign = 1 \/ sign = -1)%Z -> (Z.of_N val <= max_i64)%Z ->
  if (ok || nonempty f) && forallb is_dec f && (Z.of_N (dec_value_go val f) <=? max_i64)%Z
  then parse_int_go (f ++ t :: tail) (Z.of_N val) sign ok n
       = (SOk (t =? ch_COMMA), (Z.of_N (dec_value_go val f) * sign)%Z, (n + S (length f))%nat)
  else fst (fst (parse_int_go (f ++ t :: tail) (Z.of_N val) sign ok n)) = SErr.
Proof.
  intros t tail Ht. induction f as [|c f IH]; intros val sign ok n Hf Hs Hv.
  - cbn [app nonempty forallb dec_value_go length parse_int_go].
    rewrite Ht. apply Z.leb_le in Hv. rewrite Hv.
    assert (Hs0 : (sign =? 0)%Z = false) by lia. rewrite Hs0.
    destruct ok; cbn [orb andb fst].
    + f_equal. lia.
    + rewrite (term_not_dec _ Ht). reflexivity.
  - apply field_ok_cons in Hf as [Hc Hf].
    cbn [app nonempty forallb dec_value_go length parse_int_go].
    assert (Hs0 : (sign =? 0)%Z = false) by lia. rewrite Hs0.
    rewrite Hc, andb_false_r, orb_true_r. cbn [andb].
    destruct (is_dec c) eqn:Hd; [|reflexivity].
    cbn [andb]. pose proof (dec_digit_le _ Hd) as Hd9.
    destruct (Z.ltb_spec ((max_i64 - Z.of_N (c - 48)) / 10) (Z.of_N val)) as [Hov|Hov].
    + assert (Hgt : (max_i64 < Z.of_N (dec_value_go (val * 10 + (c - 48)) f))%Z).
      { pose proof (dec_go_ge f (val * 10 + (c - 48))) as Hge.
        rewrite max_i64_val in *. lia. }
      apply Z.leb_gt in Hgt. rewrite Hgt, andb_false_r. reflexivity.
    + assert (Hle : (Z.of_N (val * 10 + (c - 48)) <= max_i64)%Z).
      { rewrite max_i64_val in *. lia. }
      replace (Z.of_N val * 10 + Z.of_N (c - 48))%Z with (Z.of_N (val * 10 + (c - 48))) by lia.
      apply Z.ltb_ge in Hle as Hle'. rewrite Hle'.
      specialize (IH (val * 10 + (c - 48)) sign true (S n) Hf Hs Hle).
      cbn [orb andb] in IH.
      destruct (forallb is_dec f && (Z.of_N (dec_value_go (val * 10 + (c - 48)) f) <=? max_i64)%Z).
      * rewrite IH. f_equal. lia.
      * exact IH.
Qed.

Theorem C04_parse_int : forall f t tail,
  field_ok f = true -> is_term t = true ->
  if int_grammar f && (Z.abs (int_value f) <=? max_i64)%Z
  then parse_int (f ++ t :: tail) = (SOk (t =? ch_COMMA), int_value f, S (length f))
  else fst (fst (parse_int (f ++ t :: tail))) = SErr.
Proof.
  intros f t tail Hf Ht. unfold parse_int.
  destruct f as [|c r].
  - cbn [int_grammar andb app parse_int_go].
    destruct (term_not_sign _ Ht) as [Hm Hp].
    rewrite Hm, Hp, (term_not_dec _ Ht). cbn [andb Z.eqb fst]. reflexivity.
  - apply field_ok_cons in Hf as [Hc Hf].
    cbn [int_grammar int_value app parse_int_go length].
    rewrite Z.eqb_refl. cbn [andb].
    assert (Hz : (Z.of_N 0 <= max_i64)%Z) by (rewrite max_i64_val; lia).
    destruct (c =? ch_MINUS) eqn:Em; [|destruct (c =? ch_PLUS) eqn:Ep]; cbn [orb].
    + pose proof (parse_int_go_spec t tail Ht r 0 (-1)%Z false 1%nat Hf (or_intror eq_refl) Hz) as H.
      change (Z.of_N 0) with 0%Z in H. unfold uint_grammar, dec_value.
      cbn [orb] in H.
      replace (Z.abs (- Z.of_N (dec_value_go 0 r)))%Z with (Z.of_N (dec_value_go 0 r)) by lia.
      destruct (nonempty r && forallb is_dec r && (Z.of_N (dec_value_go 0 r) <=? max_i64)%Z).
      * rewrite H. f_equal. f_equal. lia.
      * exact H.
    + pose proof (parse_int_go_spec t tail Ht r 0 1%Z false 1%nat Hf (or_introl eq_refl) Hz) as H.
      change (Z.of_N 0) with 0%Z in H. unfold uint_grammar, dec_value.
      cbn [orb] in H.
      replace (Z.abs (Z.of_N (dec_value_go 0 r)))%Z with (Z.of_N (dec_value_go 0 r)) by lia.
      destruct (nonempty r && forallb is_dec r && (Z.of_N (dec_value_go 0 r) <=? max_i64)%Z).
      * rewrite H. f_equal. f_equal. lia.
      * exact H.
    + unfold uint_grammar, dec_value. cbn [nonempty forallb dec_value_go andb].
      destruct (is_dec c) eqn:Hd; [|reflexivity].
      cbn [andb]. pose proof (dec_digit_le _ Hd) as Hd9.
      assert (Hz' : (Z.of_N (c - 48) <= max_i64)%Z) by (rewrite max_i64_val; lia).
      pose proof (parse_int_go_spec t tail Ht r (c - 48) 1%Z true 1%nat Hf (or_introl eq_refl) Hz') as H.
      cbn [orb andb] in H.
      replace (0 * 10 + (c - 48)) with (c - 48) by lia.
      replace (Z.abs (Z.of_N (dec_value_go (c - 48) r)))%Z with (Z.of_N (dec_value_go (c - 48) r)) by lia.
      destruct (forallb is_dec r && (Z.of_N (dec_value_go (c - 48) r) <=? max_i64)%Z).
      * rewrite H. f_equal. f_equal. lia.
      * exact H.
Qed.

(* ------------------------------------------------------------------ *)
(* parse_hex                                                           *)
(* ------------------------------------------------------------------ *)

Definition hexst (ok : bool) : nat := if ok then 3%nat else 2%nat.

Lemma parse_hex_go_spec : forall t tail, is_term t = true ->
  forall f val ok n, field_ok f = true -> val <= max_u64 ->
  if (ok || nonempty f) && forallb (fun c => is_hex (to_upper c)) f
     && (hex_value_go val f <=? max_u64)
  then parse_hex_go (f ++ t :: tail) val (hexst ok) n
       = (SOk (t =? ch_COMMA), hex_value_go val f, (n + S (length f))%nat)
  else fst (fst (parse_hex_go (f ++ t :: tail) val (hexst ok) n)) = SErr.
Proof.
  intros t tail Ht. induction f as [|c f IH]; intros val ok n Hf Hv.
  - cbn [app nonempty forallb hex_value_go length parse_hex_go].
    rewrite (to_upper_term _ Ht), Ht. apply N.leb_le in Hv. rewrite Hv.
    destruct ok; cbn [hexst Nat.leb orb andb fst].
    + f_equal. lia.
    + rewrite (term_not_hex _ Ht). reflexivity.
  - apply field_ok_cons in Hf as [Hc Hf].
    cbn [app nonempty forallb hex_value_go length parse_hex_go].
    rewrite (to_upper_not_term _ Hc), andb_false_r, orb_true_r. cbn [andb].
    assert (Hst : forall A (x y z : A),
              match hexst ok with O => x | S O => y | S (S _) => z end = z)
      by (intros; destruct ok; reflexivity).
    rewrite Hst. clear Hst.
    destruct (is_hex (to_upper c)) eqn:Hd; [|reflexivity].
    cbn [andb]. pose proof (hexval_le _ Hd) as Hd15.
    rewrite N.shiftr_div_pow2. change (2 ^ 60) with 1152921504606846976.
    destruct (N.eqb_spec (val / 1152921504606846976) 0) as [Hsm|Hov]; cbn [negb].
    + assert (Hle : val * 16 + hexval (to_upper c) <= max_u64).
      { rewrite max_u64_val in *. lia. }
      rewrite N.mod_small by (rewrite two64_val; rewrite max_u64_val in Hle; lia).
      specialize (IH (val * 16 + hexval (to_upper c)) true (S n) Hf Hle).
      cbn [orb andb hexst] in IH.
      destruct (forallb (fun c0 => is_hex (to_upper c0)) f
                && (hex_value_go (val * 16 + hexval (to_upper c)) f <=? max_u64)).
      * rewrite IH. f_equal. lia.
      * exact IH.
    + assert (Hgt : max_u64 < hex_value_go (val * 16 + hexval (to_upper c)) f).
      { eapply N.lt_le_trans; [|apply hex_go_ge].
        rewrite max_u64_val in *. lia. }
      apply N.leb_gt in Hgt. rewrite Hgt, andb_false_r. reflexivity.
Qed.

Theorem C04_parse_hex : forall f t tail,
  field_ok f = true -> is_term t = true ->
  if hex_grammar f && (hex_value f <=? max_u64)
  then parse_hex (f ++ t :: tail) = (SOk (t =? ch_COMMA), hex_value f, S (length f))
  else fst (fst (parse_hex (f ++ t :: tail))) = SErr.
Proof.
  intros f t tail Hf Ht. unfold parse_hex.
  pose proof (is_term_cases _ Ht) as Ht'.
  assert (Ht0 : (to_upper t =? ch_0) = false)
    by (rewrite (to_upper_term _ Ht); unfold ch_0; lia).
  assert (HtX : (to_upper t =? ch_X) = false)
    by (rewrite (to_upper_term _ Ht); unfold ch_X; lia).
  destruct f as [|a [|b r]].
  - cbn [hex_grammar andb app parse_hex_go Nat.leb fst]. rewrite Ht0. reflexivity.
  - cbn [hex_grammar andb app parse_hex_go Nat.leb fst].
    rewrite to_upper_eq0.
    destruct (a =? ch_0); [|reflexivity].
    cbn [parse_hex_go Nat.leb andb fst]. rewrite HtX. reflexivity.
  - apply field_ok_cons in Hf as [Ha Hf]. apply field_ok_cons in Hf as [Hb Hf].
    cbn [hex_grammar app parse_hex_go Nat.leb andb length].
    rewrite to_upper_eq0.
    destruct (a =? ch_0); [|reflexivity].
    cbn [parse_hex_go Nat.leb andb].
    destruct (to_upper b =? ch_X); [|reflexivity].
    cbn [andb]. unfold hex_value. cbn [skipn].
    assert (H0 : 0 <= max_u64) by (rewrite max_u64_val; lia).
    pose proof (parse_hex_go_spec t tail Ht r 0 false 2%nat Hf H0) as H.
    cbn [orb hexst] in H.
    destruct (nonempty r && forallb (fun c => is_hex (to_upper c)) r
              && (hex_value_go 0 r <=? max_u64)).
    + rewrite H. f_equal.
    + exact H.
Qed.

(* ------------------------------------------------------------------ *)
(* little-endian storage                                               *)
(* ------------------------------------------------------------------ *)

Lemma le_bytes_length : forall k n, length (le_bytes k n) = k.
Proof. induction k as [|k IH]; intros n; cbn [le_bytes length]; [reflexivity | now rewrite IH]. Qed.

Lemma le_bytes_lt : forall k n, Forall (fun b => b < 256) (le_bytes k n).
Proof.
  induction k as [|k IH]; intros n; cbn [le_bytes]; constructor.
  - apply N.mod_lt. lia.
  - apply IH.
Qed.

Lemma two_pow8_S : forall k, two_pow8 (S k) = 256 * two_pow8 k.
Proof.
  intros k. unfold two_pow8.
  replace (8 * N.of_nat (S k)) with (8 + 8 * N.of_nat k) by lia.
  rewrite N.pow_add_r. reflexivity.
Qed.

Lemma two_pow8_pos : forall k, two_pow8 k <> 0.
Proof. intros k. unfold two_pow8. apply N.pow_nonzero. lia. Qed.

Lemma le_value_le_bytes : forall k n, le_value (le_bytes k n) = n mod two_pow8 k.
Proof.
  induction k as [|k IH]; intros n; cbn [le_bytes le_value].
  - change (two_pow8 0) with 1. now rewrite N.mod_1_r.
  - rewrite IH, two_pow8_S.
    rewrite (N.mod_mul_r n 256 (two_pow8 k)); [reflexivity | lia | apply two_pow8_pos].
Qed.

Lemma firstn_le_bytes : forall k n rest, firstn k (le_bytes k n ++ rest) = le_bytes k n.
Proof.
  intros k n rest. rewrite <- (le_bytes_length k n) at 1.
  rewrite firstn_app, Nat.sub_diag, firstn_all. cbn [firstn]. apply app_nil_r.
Qed.

Lemma supported_cases : forall k, supported_width k = true -> k = 1%nat \/ k = 2%nat \/ k = 4%nat.
Proof. unfold supported_width. intros k H. lia. Qed.

Lemma two_pow8_1 : two_pow8 1 = 256. Proof. reflexivity. Qed.
Lemma two_pow8_2 : two_pow8 2 = 65536. Proof. reflexivity. Qed.
Lemma two_pow8_4 : two_pow8 4 = 4294967296. Proof. reflexivity. Qed.

(* the width of a supported variable, as a number *)
Lemma supported_pow : forall k, supported_width k = true ->
  two_pow8 k = 256 \/ two_pow8 k = 65536 \/ two_pow8 k = 4294967296.
Proof.
  intros k H. destruct (supported_cases k H) as [-> | [-> | ->]];
    [left | right; left | right; right]; reflexivity.
Qed.

(* ------------------------------------------------------------------ *)
(* the range validators (writable variable)                            *)
(* ------------------------------------------------------------------ *)

Lemma store_prefix_ok : forall data bytes, (length bytes <= length data)%nat ->
  store_prefix data bytes = Some (bytes ++ skipn (length bytes) data).
Proof.
  intros data bytes H. unfold store_prefix.
  destruct (Nat.ltb_spec (length data) (length bytes)); [lia | reflexivity].
Qed.

Lemma validate_uint_spec : forall dsz val data, (dsz <= length data)%nat ->
  validate_uint false dsz val data =
    if supported_width dsz && (val <? two_pow8 dsz)
    then VOk (le_bytes dsz val ++ skipn dsz data) dsz else VErr.
Proof.
  intros dsz val data Hlen. unfold validate_uint.
  destruct (supported_width dsz); cbn [negb andb]; [|reflexivity].
  pose proof (two_pow8_pos dsz) as Hp.
  destruct (N.ltb_spec (two_pow8 dsz - 1) val) as [H|H];
    destruct (N.ltb_spec val (two_pow8 dsz)) as [H'|H']; try lia; [reflexivity|].
  rewrite store_prefix_ok by (rewrite le_bytes_length; exact Hlen).
  rewrite le_bytes_length. reflexivity.
Qed.

Lemma validate_int_spec : forall dsz val data, (dsz <= length data)%nat ->
  validate_int false dsz val data =
    if supported_width dsz &&
       ((- Z.of_N (two_pow8 dsz / 2) <=? val) && (val <=? Z.of_N (two_pow8 dsz / 2) - 1))%Z
    then VOk (le_bytes_signed dsz val ++ skipn dsz data) dsz else VErr.
Proof.
  intros dsz val data Hlen. unfold validate_int.
  destruct (supported_width dsz); cbn [negb andb]; [|reflexivity].
  set (half := Z.of_N (two_pow8 dsz / 2)).
  destruct (Z.ltb_spec val (- half)) as [H|H];
    destruct (Z.leb_spec (- half) val) as [H1|H1]; try lia; cbn [orb andb]; [reflexivity|].
  destruct (Z.ltb_spec (half - 1) val) as [H2|H2];
    destruct (Z.leb_spec val (half - 1)) as [H3|H3]; try lia; [reflexivity|].
  unfold le_bytes_signed.
  rewrite store_prefix_ok by (rewrite le_bytes_length; exact Hlen).
  rewrite le_bytes_length. reflexivity.
Qed.

(* ------------------------------------------------------------------ *)
(* decode_var on a writable numeric variable                           *)
(* ------------------------------------------------------------------ *)

Lemma half_bound : forall k, supported_width k = true ->
  (Z.of_N (two_pow8 k / 2) <= 2147483648)%Z.
Proof.
  intros k H. destruct (supported_cases k H) as [-> | [-> | ->]].
  - rewrite two_pow8_1. change (256 / 2) with 128. lia.
  - rewrite two_pow8_2. change (65536 / 2) with 32768. lia.
  - rewrite two_pow8_4. change (4294967296 / 2) with 2147483648. lia.
Qed.

Lemma pow_bound : forall k, supported_width k = true -> two_pow8 k <= 4294967296.
Proof. intros k H. destruct (supported_pow k H) as [-> | [-> | ->]]; lia. Qed.

Theorem C04_numeric : forall v f t tail data,
  is_numeric (v_type v) = true -> v_access v <> RO ->
  field_ok f = true -> is_term t = true -> (v_size v <= length data)%nat ->
  decode_var v (f ++ t :: tail) data =
    if num_accepts v f
    then (SOk (t =? ch_COMMA), num_encode v f ++ skipn (v_size v) data, v_size v, S (length f))
    else (SErr, data, O, snd (decode_var v (f ++ t :: tail) data)).
Proof.
  intros v f t tail data Hnum Hacc Hf Ht Hlen.
  assert (Hro : vaccess_beq (v_access v) RO = false).
  { destruct (v_access v); [reflexivity | congruence | reflexivity]. }
  unfold decode_var, num_accepts, num_encode. rewrite Hro.
  destruct (v_type v) eqn:Hty; try discriminate Hnum.
  - (* VInt *)
    pose proof (C04_parse_int f t tail Hf Ht) as P.
    set (half := Z.of_N (two_pow8 (v_size v) / 2)) in *.
    destruct (int_grammar f && (Z.abs (int_value f) <=? max_i64)%Z) eqn:GB.
    + rewrite P. rewrite (validate_int_spec _ _ _ Hlen). fold half.
      apply andb_prop in GB as [G _]. rewrite G.
      destruct (supported_width (v_size v)); cbn [andb]; [|reflexivity].
      destruct ((- half <=? int_value f)%Z && (int_value f <=? half - 1)%Z); reflexivity.
    + assert (R : supported_width (v_size v) &&
                  (int_grammar f && ((- half <=? int_value f)%Z && (int_value f <=? half - 1)%Z)) = false).
      { destruct (supported_width (v_size v)) eqn:W; cbn [andb]; [|reflexivity].
        destruct (int_grammar f); cbn [andb] in *; [|reflexivity].
        pose proof (half_bound _ W) as Hb. fold half in Hb.
        rewrite max_i64_val in GB. lia. }
      rewrite R. destruct (parse_int (f ++ t :: tail)) as [[p z] n].
      cbn [fst] in P. subst p. reflexivity.
  - (* VUint *)
    pose proof (C04_parse_uint f t tail Hf Ht) as P.
    destruct (uint_grammar f && (dec_value f <=? max_u64)) eqn:GB.
    + rewrite P. rewrite (validate_uint_spec _ _ _ Hlen).
      apply andb_prop in GB as [G _]. rewrite G.
      destruct (supported_width (v_size v)); cbn [andb]; [|reflexivity].
      destruct (dec_value f <? two_pow8 (v_size v)); reflexivity.
    + assert (R : supported_width (v_size v) &&
                  (uint_grammar f && (dec_value f <? two_pow8 (v_size v))) = false).
      { destruct (supported_width (v_size v)) eqn:W; cbn [andb]; [|reflexivity].
        destruct (uint_grammar f); cbn [andb] in *; [|reflexivity].
        pose proof (pow_bound _ W) as Hb. rewrite max_u64_val in GB. lia. }
      rewrite R. destruct (parse_uint (f ++ t :: tail)) as [[p z] n].
      cbn [fst] in P. subst p. reflexivity.
  - (* VHex *)
    pose proof (C04_parse_hex f t tail Hf Ht) as P.
    destruct (hex_grammar f && (hex_value f <=? max_u64)) eqn:GB.
    + rewrite P. rewrite (validate_uint_spec _ _ _ Hlen).
      apply andb_prop in GB as [G _]. rewrite G.
      destruct (supported_width (v_size v)); cbn [andb]; [|reflexivity].
      destruct (hex_value f <? two_pow8 (v_size v)); reflexivity.
    + assert (R : supported_width (v_size v) &&
                  (hex_grammar f && (hex_value f <? two_pow8 (v_size v))) = false).
      { destruct (supported_width (v_size v)) eqn:W; cbn [andb]; [|reflexivity].
        destruct (hex_grammar f); cbn [andb] in *; [|reflexivity].
        pose proof (pow_bound _ W) as Hb. rewrite max_u64_val in GB. lia. }
      rewrite R. destruct (parse_hex (f ++ t :: tail)) as [[p z] n].
      cbn [fst] in P. subst p. reflexivity.
Qed.

(* ------------------------------------------------------------------ *)
(* what is stored is the mathematical value                            *)
(* ------------------------------------------------------------------ *)

Lemma signed_roundtrip : forall k z rest, supported_width k = true ->
  (- Z.of_N (two_pow8 k / 2) <= z <= Z.of_N (two_pow8 k / 2) - 1)%Z ->
  le_value_signed k (le_bytes_signed k z ++ rest) = z.
Proof.
  intros k z rest W R. unfold le_value_signed, le_bytes_signed.
  rewrite firstn_le_bytes, le_value_le_bytes.
  destruct (supported_pow k W) as [E | [E | E]]; rewrite E in *.
  - change (256 / 2) with 128 in *. change (Z.of_N 256) with 256%Z.
    destruct (N.ltb_spec (Z.to_N (z mod 256) mod 256) 128); lia.
  - change (65536 / 2) with 32768 in *. change (Z.of_N 65536) with 65536%Z.
    destruct (N.ltb_spec (Z.to_N (z mod 65536) mod 65536) 32768); lia.
  - change (4294967296 / 2) with 2147483648 in *. change (Z.of_N 4294967296) with 4294967296%Z.
    destruct (N.ltb_spec (Z.to_N (z mod 4294967296) mod 4294967296) 2147483648); lia.
Qed.

Lemma unsigned_roundtrip : forall k n rest, n < two_pow8 k ->
  le_value (firstn k (le_bytes k n ++ rest)) = n.
Proof.
  intros k n rest H. rewrite firstn_le_bytes, le_value_le_bytes. now apply N.mod_small.
Qed.

Theorem C04_stored_value : forall v f rest,
  is_numeric (v_type v) = true -> num_accepts v f = true ->
  length (num_encode v f) = v_size v /\
  Forall (fun b => b < 256) (num_encode v f) /\
  num_decode v (num_encode v f ++ rest) = num_value v f.
Proof.
  intros v f rest Hnum A. unfold num_accepts in A.
  apply andb_prop in A as [W A].
  unfold num_encode, num_decode, num_value.
  destruct (v_type v); try discriminate Hnum.
  - apply andb_prop in A as [_ A]. apply andb_prop in A as [R1 R2].
    apply Z.leb_le in R1, R2.
    unfold le_bytes_signed at 1 2.
    split; [apply le_bytes_length | split; [apply le_bytes_lt|]].
    apply signed_roundtrip; [exact W | split; assumption].
  - apply andb_prop in A as [_ R]. apply N.ltb_lt in R.
    split; [apply le_bytes_length | split; [apply le_bytes_lt|]].
    f_equal. apply unsigned_roundtrip. exact R.
  - apply andb_prop in A as [_ R]. apply N.ltb_lt in R.
    split; [apply le_bytes_length | split; [apply le_bytes_lt|]].
    f_equal. apply unsigned_roundtrip. exact R.
Qed.

(* ------------------------------------------------------------------ *)
(* read-only variables                                                 *)
(* ------------------------------------------------------------------ *)

Theorem C04_readonly : forall v l data,
  is_numeric (v_type v) = true -> v_access v = RO ->
  snd (fst (fst (decode_var v l data))) = data /\ snd (fst (decode_var v l data)) = O.
Proof.
  intros v l data Hnum Hro. unfold decode_var. rewrite Hro. cbn [vaccess_beq].
  destruct (v_type v); try discriminate Hnum.
  - destruct (parse_int l) as [[p z] n]. unfold validate_int.
    destruct p; cbn [fst snd]; auto.
  - destruct (parse_uint l) as [[p z] n]. unfold validate_uint.
    destruct p; cbn [fst snd]; auto.
  - destruct (parse_hex l) as [[p z] n]. unfold validate_uint.
    destruct p; cbn [fst snd]; auto.
Qed.

(* ------------------------------------------------------------------ *)
(* non-vacuity                                                         *)
(* ------------------------------------------------------------------ *)

(* "-129" is refused and "-128" is stored as 0x80 in a 1-byte signed variable *)
Example ex_int8 :
  let v := mkVar None VInt 1 RW false false O in
  num_accepts v [45;49;50;56] = true /\
  decode_var v [45;49;50;56;0] [7;9] = (SOk false, [128;9], 1%nat, 5%nat) /\
  num_accepts v [45;49;50;57] = false /\
  decode_var v [45;49;50;57;0] [7;9] = (SErr, [7;9], O, 5%nat).
Proof. vm_compute. repeat split; reflexivity. Qed.

(* "65535" fits a 2-byte unsigned variable (stored FF FF, comma seen), "65536" does not *)
Example ex_uint16 :
  let v := mkVar None VUint 2 WO false false O in
  num_accepts v [54;53;53;51;53] = true /\
  decode_var v [54;53;53;51;53;44;49] [1;2;3] = (SOk true, [255;255;3], 2%nat, 6%nat) /\
  num_accepts v [54;53;53;51;54] = false /\
  fst (fst (fst (decode_var v [54;53;53;51;54;44;49] [1;2;3]))) = SErr.
Proof. vm_compute. repeat split; reflexivity. Qed.

(* "18446744073709551621" = 2^64 + 5 is rejected for a 1-byte unsigned variable
   (a wrapping accumulator would have stored 5) *)
Example ex_wrap_dec :
  let v := mkVar None VUint 1 RW false false O in
  let f := [49;56;52;52;54;55;52;52;48;55;51;55;48;57;53;53;49;54;50;49] in
  dec_value f = 18446744073709551621 /\ num_accepts v f = false /\
  decode_var v (f ++ [0]) [9] = (SErr, [9], O, 20%nat).
Proof. vm_compute. repeat split; reflexivity. Qed.

(* "0x10000000000000005" = 2^64 + 5 is rejected for a 4-byte hex variable,
   "0X1f" is stored as 1F 00 00 00 *)
Example ex_wrap_hex :
  let v := mkVar None VHex 4 RW false false O in
  let f := [48;120;49;48;48;48;48;48;48;48;48;48;48;48;48;48;48;48;53] in
  hex_value f = 18446744073709551621 /\ num_accepts v f = false /\
  decode_var v (f ++ [0]) [1;2;3;4;5] = (SErr, [1;2;3;4;5], O, 19%nat) /\
  decode_var v [48;88;49;102;0] [1;2;3;4;5] = (SOk false, [31;0;0;0;5], 4%nat, 5%nat).
Proof. vm_compute. repeat split; reflexivity. Qed.

(* a width that the library does not support is refused whatever the text *)
Example ex_width3 :
  let v := mkVar None VUint 3 RW false false O in
  num_accepts v [49] = false /\ decode_var v [49;0] [1;2;3] = (SErr, [1;2;3], O, 2%nat).
Proof. vm_compute. repeat split; reflexivity. Qed.
