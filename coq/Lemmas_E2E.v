(* Lemmas_E2E.v — whole command lines, end to end: on the scripted always-ready environment of Script.v
   (event machine idle with an empty queue, no mutex) the per-phase results chain into the observable
   behaviour of one complete line:  "AT<name>?" LF answered from variables, an unknown name, and a
   WRITE line to variables.
   Structure: (A) the relation [osteps m s q s' q' out] = m cat_service calls from state s / queue q to
   s' / q' that call no handler and whose accepted output is out; (B) the flush engine as osteps (one
   unit = newline text newline); (C) frames of the name lookup; (D) dispatch with ghost counters;
   (E) the READ formatting loop as steps; (F) result code, reset; (G) the composed theorems. *)
From Coq Require Import List NArith ZArith Bool Arith Lia.
From CatV Require Import Bytes Defs Codec Spec Fsm Script ResolveDefs SchedDefs GlueDefs TextDefs.
From CatV Require Lemmas_C02 Lemmas_C02e Lemmas_C07 Lemmas_C07e Lemmas_C11 Lemmas_C19.
Import ListNotations.
Local Open Scope nat_scope.

Local Notation wst := (Fsm.st sio smu shs).
Local Notation wio := (Fsm.io sio smu shs).
Local Notation whs := (Fsm.hs sio smu shs).
Local Notation wtr := (Fsm.tr sio smu shs).
Local Notation idle := Lemmas_C02e.idle.
Local Notation flush_step_c := Lemmas_C11.flush_step_c.
Local Notation run_flush_c := Lemmas_C11.run_flush_c.

Ltac destr_all := repeat match goal with
  | |- context [if ?b then _ else _] => destruct b
  | |- context [match ?x with _ => _ end] => destruct x
  end.

(* ================= A. traces and the relation osteps ================= *)
Lemma calls_of_app : forall a b, calls_of (a ++ b) = calls_of b ++ calls_of a.
Proof. intros a b. unfold calls_of. rewrite rev_app_distr, flat_map_app. reflexivity. Qed.

Lemma output_of_app : forall a b, output_of (a ++ b) = output_of b ++ output_of a.
Proof. intros a b. unfold output_of. rewrite rev_app_distr, flat_map_app. reflexivity. Qed.

Section E2E.
Variable D : desc.
Hypothesis Hmx : d_mutex D = false.
Local Notation n := (ncmds D).
Local Notation cmdsvc := (cmd_service D sio smu shs s_read s_write s_lock s_unlock s_call).
Local Notation steps := (Lemmas_C02e.steps D).

Definition osteps (m : nat) (s : state) (q : list N) (s' : state) (q' : list N) (out : list N) : Prop :=
  forall h t, exists t', calls_of t' = [] /\ output_of t' = out /\
    nsvc D m (mkw s q h t) = mkw s' q' h (t' ++ t).

Lemma osteps_of_steps : forall m s q s' q', steps m s q s' q' -> osteps m s q s' q' [].
Proof.
  intros m s q s' q' H h t. destruct (H h t) as [t' [Q E]]. exists t'.
  destruct (Lemmas_C02e.quiet_spec t' Q) as [A B]. auto.
Qed.

Lemma osteps_trans : forall a b s q s1 q1 s2 q2 o1 o2,
  osteps a s q s1 q1 o1 -> osteps b s1 q1 s2 q2 o2 -> osteps (a + b) s q s2 q2 (o1 ++ o2).
Proof.
  intros a b s q s1 q1 s2 q2 o1 o2 H1 H2 h t.
  destruct (H1 h t) as [t1 [C1 [O1 E1]]]. destruct (H2 h (t1 ++ t)) as [t2 [C2 [O2 E2]]].
  exists (t2 ++ t1). split; [rewrite calls_of_app, C1, C2; reflexivity|].
  split; [rewrite output_of_app, O1, O2; reflexivity|].
  unfold nsvc in *. rewrite Lemmas_C02e.iter_add, E1, E2, app_assoc. reflexivity.
Qed.

Lemma osteps_cast : forall m m' s q s' q' o o', osteps m s q s' q' o -> m = m' -> o = o' ->
  osteps m' s q s' q' o'.
Proof. intros; subst; assumption. Qed.

(* a non-reading, non-writing state *)
Lemma ostep_pure : forall s q f, idle s ->
  (forall h t, cmdsvc (mkw s q h t) = (mkw (f s) q h t, ST_BUSY)) -> osteps 1 s q (f s) q [].
Proof. intros s q f Hi Hc. apply osteps_of_steps. apply Lemmas_C02e.step_pure; assumption. Qed.

Lemma osteps_world : forall calls s q s2 q2 out h, osteps calls s q s2 q2 out ->
  let w := nsvc D calls (mkw s q h []) in
  wst w = s2 /\ inq (wio w) = q2 /\ whs w = h /\ calls_of (wtr w) = [] /\ output_of (wtr w) = out.
Proof.
  intros calls s q s2 q2 out h H w. destruct (H h []) as [t' [A [B E]]]. unfold w. rewrite E.
  rewrite app_nil_r. repeat split; assumption.
Qed.

(* ================= B. the flush engine ================= *)
Definition obyte (o : option N) : list N := match o with Some ch => [ch] | None => [] end.

Lemma ostep_flush : forall s q, idle s -> k_state (k s) = CS_FLUSH ->
  osteps 1 s q (fst (flush_step_c s)) q (obyte (snd (flush_step_c s))).
Proof.
  intros s q Hi Hs h t.
  assert (E : cmdsvc (mkw s q h t) =
              (mkw (fst (flush_step_c s)) q h
                   (match snd (flush_step_c s) with Some ch => EWr ATCMD ch true :: t | None => t end), ST_BUSY)).
  { unfold cmd_service. cbn [Fsm.st mkw]. rewrite Hs. unfold process_io_write, Lemmas_C11.flush_step_c.
    cbn [Fsm.st mkw]. destruct (wbuf_char (k_wbuf (k s)) (cbuf s) (k_position (k s))) as [ch|]; [|reflexivity].
    destruct (ch =? 0)%N; reflexivity. }
  unfold nsvc. simpl iter. rewrite (Lemmas_C02e.svc_busy D Hmx (mkw s q h t) _ Hi E).
  destruct (snd (flush_step_c s)) as [ch|].
  - exists [ERet OService ST_BUSY; EWr ATCMD ch true]. repeat split; reflexivity.
  - exists [ERet OService ST_BUSY]. repeat split; reflexivity.
Qed.

Lemma flush_step_u : forall s, u (fst (flush_step_c s)) = u s.
Proof.
  intros s. unfold Lemmas_C11.flush_step_c, Lemmas_C11.phase_switch_c. destr_all; reflexivity.
Qed.

Lemma run_flush_S : forall m s, run_flush_c (S m) s =
  (fst (run_flush_c m (fst (flush_step_c s))), obyte (snd (flush_step_c s)) ++ snd (run_flush_c m (fst (flush_step_c s)))).
Proof.
  intros m s. cbn [Lemmas_C11.run_flush_c]. destruct (flush_step_c s) as [s1 o]. cbn [fst snd].
  destruct (run_flush_c m s1) as [s2 out]. destruct o; reflexivity.
Qed.

Lemma flush_osteps : forall m s q, idle s ->
  (forall j, j < m -> k_state (k (fst (run_flush_c j s))) = CS_FLUSH) ->
  osteps m s q (fst (run_flush_c m s)) q (snd (run_flush_c m s)).
Proof.
  induction m as [|m IH]; intros s q Hi Hall.
  - intros h t. exists []. repeat split; reflexivity.
  - rewrite run_flush_S. cbn [fst snd]. change (S m) with (1 + m).
    eapply osteps_trans.
    + apply ostep_flush; [exact Hi|]. exact (Hall 0 (Nat.lt_0_succ m)).
    + apply IH.
      * destruct Hi as [A B]. unfold Lemmas_C02e.idle. rewrite flush_step_u. split; assumption.
      * intros j Hj. specialize (Hall (S j) (proj1 (Nat.succ_lt_mono j m) Hj)).
        rewrite run_flush_S in Hall. exact Hall.
Qed.

(* what the phases after the dispatch never change *)
Definition keep (s s' : state) : Prop :=
  mem s' = mem s /\ fault s' = fault s /\ u s' = u s /\ gL s' = gL s /\ gS s' = gS s /\
  k_cr (k s') = k_cr (k s) /\ k_hold (k s') = k_hold (k s) /\ cbuf s' = cbuf s.

(* a whole unit by pure iteration, with the final state's frame (after Lemmas_C11.C11_unit_cmd_proof) *)
Lemma unit_run : forall s txt, k_position (k s) = 0 -> k_wstate (k s) = WS_BEFORE ->
  k_wbuf (k s) = WB_NL (k_cr (k s)) -> In 0%N (cbuf s) -> text_of (cbuf s) = txt ->
  let nl := Lemmas_C11.nl_text (k_cr (k s)) in
  let nn := 3 + 2 * length nl + length txt in
  exists s3, run_flush_c nn s = (s3, nl ++ txt ++ nl) /\ keep s s3 /\
    k_state (k s3) = k_wafter (k s) /\
    gR s3 = (if cstate_beq (k_wafter (k s)) CS_AFTER_RESET then S (gR s) else gR s) /\
    (forall m, m < nn -> k_state (k (fst (run_flush_c m s))) = k_state (k s)).
Proof.
  intros s T Hp Hw Hb H0 HT. cbv zeta.
  set (nl := Lemmas_C11.nl_text (k_cr (k s))). set (L1 := length nl). set (L2 := length T).
  assert (T0 : text_of (Lemmas_C11.wb_text (k_wbuf (k s)) (cbuf s)) = nl).
  { rewrite Hb. apply Lemmas_C11.text_of_nl. }
  assert (I0 : In 0%N (Lemmas_C11.wb_text (k_wbuf (k s)) (cbuf s))).
  { rewrite Hb. apply Lemmas_C11.In0_nl. }
  pose proof (Lemmas_C11.phase_c_before s nl Hp Hw I0 T0) as P1. fold L1 in P1.
  match type of P1 with _ = (?x, _) => set (s1 := x) in * end.
  assert (T1 : text_of (Lemmas_C11.wb_text (k_wbuf (k s1)) (cbuf s1)) = T) by exact HT.
  pose proof (Lemmas_C11.phase_c_main s1 T eq_refl eq_refl H0 T1) as P2. fold L2 in P2.
  match type of P2 with _ = (?x, _) => set (s2 := x) in * end.
  assert (T2 : text_of (Lemmas_C11.wb_text (k_wbuf (k s2)) (cbuf s2)) = nl) by apply Lemmas_C11.text_of_nl.
  pose proof (Lemmas_C11.phase_c_after s2 nl eq_refl eq_refl (Lemmas_C11.In0_nl _) T2) as P3. fold L1 in P3.
  match type of P3 with _ = (?x, _) => set (s3 := x) in * end.
  assert (En : 3 + 2 * L1 + L2 = S L1 + (S L2 + S L1)) by lia. rewrite En. clear En.
  assert (R : run_flush_c (S L1 + (S L2 + S L1)) s = (s3, nl ++ T ++ nl)).
  { rewrite Lemmas_C11.run_flush_c_app, P1, Lemmas_C11.run_flush_c_app, P2, P3. reflexivity. }
  exists s3. split; [exact R|].
  assert (F : keep s s3 /\ k_state (k s3) = k_wafter (k s) /\
              gR s3 = (if cstate_beq (k_wafter (k s)) CS_AFTER_RESET then S (gR s) else gR s)).
  { unfold s3. cbv zeta. change (k_wafter (k s2)) with (k_wafter (k s)).
    destruct (cstate_beq (k_wafter (k s)) CS_AFTER_RESET); unfold keep; repeat split; reflexivity. }
  destruct F as (F1 & F2 & F3). split; [exact F1|]. split; [exact F2|]. split; [exact F3|].
  intros m Hm.
  destruct (le_lt_dec m L1) as [A|A].
  - apply Lemmas_C11.run_flush_c_text_state. rewrite (Lemmas_C11.len_phase_rest0 s nl Hp T0). exact A.
  - destruct (le_lt_dec m (S L1 + L2)) as [B|B].
    + replace m with (S L1 + (m - S L1)) by lia. rewrite Lemmas_C11.fst_run_flush_c_app, P1. cbn [fst].
      rewrite Lemmas_C11.run_flush_c_text_state
        by (rewrite (Lemmas_C11.len_phase_rest0 s1 T eq_refl T1); fold L2; lia). reflexivity.
    + replace m with (S L1 + (S L2 + (m - S L1 - S L2))) by lia.
      rewrite Lemmas_C11.fst_run_flush_c_app, P1. cbn [fst]. rewrite Lemmas_C11.fst_run_flush_c_app, P2. cbn [fst].
      rewrite Lemmas_C11.run_flush_c_text_state
        by (rewrite (Lemmas_C11.len_phase_rest0 s2 nl eq_refl T2); fold L1; lia). reflexivity.
Qed.

Lemma keep_refl : forall s, keep s s.
Proof. intros s. unfold keep. repeat split; reflexivity. Qed.

Lemma keep_trans : forall a b c, keep a b -> keep b c -> keep a c.
Proof.
  intros a b c (A1 & A2 & A3 & A4 & A5 & A6 & A7 & A8) (B1 & B2 & B3 & B4 & B5 & B6 & B7 & B8).
  unfold keep. rewrite B1, B2, B3, B4, B5, B6, B7, B8. repeat split; assumption.
Qed.

Lemma idle_keep : forall s s', keep s s' -> idle s -> idle s'.
Proof. intros s s' K Hi. apply (Lemmas_C02e.idle_of_u s); [apply K | exact Hi]. Qed.

(* the unit as service calls: LF text LF when no CR was seen *)
Lemma unit_osteps : forall s q txt, idle s -> k_state (k s) = CS_FLUSH ->
  k_position (k s) = 0 -> k_wstate (k s) = WS_BEFORE -> k_wbuf (k s) = WB_NL (k_cr (k s)) ->
  k_cr (k s) = false -> In 0%N (cbuf s) -> text_of (cbuf s) = txt ->
  exists s3, osteps (5 + length txt) s q s3 q ([ch_LF] ++ txt ++ [ch_LF]) /\ keep s s3 /\
    k_state (k s3) = k_wafter (k s) /\
    gR s3 = (if cstate_beq (k_wafter (k s)) CS_AFTER_RESET then S (gR s) else gR s).
Proof.
  intros s q txt Hi Hs Hp Hw Hb Hcr H0 HT.
  destruct (unit_run s txt Hp Hw Hb H0 HT) as (s3 & R & K & A & G & Hall).
  cbv zeta in *. rewrite Hcr in *. change (3 + 2 * length (Lemmas_C11.nl_text false) + length txt) with (5 + length txt) in *.
  exists s3. split; [|auto].
  pose proof (flush_osteps (5 + length txt) s q Hi) as F. rewrite R in F. cbn [fst snd] in F.
  apply F. intros j Hj. rewrite (Hall j Hj). exact Hs.
Qed.

(* ================= C. frames of the name lookup ================= *)
Definition six (s : state) : nat * nat * nat * bool * bool * nat :=
  (gL s, gS s, gR s, k_cr (k s), k_hold (k s), length (cbuf s)).

Lemma six_update : forall s, six (update_command D s) = six s.
Proof.
  intros s. rewrite Lemmas_C02.update_command_unf.
  destruct (cmd_by_index (d_groups D) (k_index (k s))) as [c|]; [|reflexivity].
  destruct (get_cmd_state D s (k_index (k s))) as [cs|]; [|reflexivity].
  unfold Lemmas_C02.upd_fin, Lemmas_C02.upd_s1, set_cmd_state, prepare_search_command.
  destr_all; unfold six; Lemmas_C11.scbn; rewrite ?Lemmas_C19.upd_length; reflexivity.
Qed.

Lemma six_search : forall s, six (search_command D s) = six s.
Proof.
  intros s. unfold search_command.
  destruct (get_cmd_state D s (k_index (k s))) as [cs|]; [|reflexivity].
  cbv zeta. Lemmas_C11.scbn. destr_all; reflexivity.
Qed.

Lemma six_iter_upd : forall m s, six (iter m (update_command D) s) = six s.
Proof. induction m as [|m IH]; intros s; [reflexivity|]. simpl iter. rewrite IH. apply six_update. Qed.

Lemma six_ncs : forall s ch, six (name_char_step D s ch) = six s.
Proof. intros s ch. unfold name_char_step. rewrite six_iter_upd. reflexivity. Qed.

Lemma six_fold_ncs : forall t s, six (fold_left (name_char_step D) t s) = six s.
Proof. induction t as [|c t IH]; intros s; [reflexivity|]. simpl fold_left. rewrite IH. apply six_ncs. Qed.

Lemma six_run : forall s t, six (Lemmas_C02e.run D s t) = six s.
Proof.
  intros s t. unfold Lemmas_C02e.run. rewrite six_fold_ncs.
  unfold six, Lemmas_C02e.P0, Lemmas_C02e.sT, prepare_parse_command. Lemmas_C11.scbn.
  rewrite repeat_length. reflexivity.
Qed.

Lemma six_search_run : forall fuel s, six (search_run D fuel s) = six s.
Proof.
  induction fuel as [|f IH]; intros s; [reflexivity|]. simpl search_run.
  destruct (cstate_beq (k_state (k s)) CS_SEARCH_COMMAND); [|reflexivity].
  rewrite IH. apply six_search.
Qed.

(* ================= D. dispatch, with the final state's ghost counters and flags ================= *)
Section Line.
Variable s : state.
Hypothesis Hn : 0 < n.
Hypothesis HL : n <= 4 * length (cbuf s).
Hypothesis Hf : fault s = false.
Hypothesis Hst : k_state (k s) = CS_IDLE.
Hypothesis Himp : k_implicit (k s) = false.
Hypothesis Hidle : idle s.

Local Notation run := (Lemmas_C02e.run D s).
Local Notation tweak := Lemmas_C02e.tweak.
Local Notation looked_up := (Lemmas_C02e.looked_up D s).

Lemma six_tweak : forall ty cr g Y,
  six (tweak ty cr g Y) = (g, gS Y, gR Y, cr, k_hold (k Y), length (cbuf Y)).
Proof. reflexivity. Qed.

(* Lemmas_C02e.finish_search with the final state made explicit *)
Lemma finish_search_ex : forall typed term ty cr g q,
  typed <> [] -> implicit_hit D s typed = false ->
  exists j s2, j <= n /\ steps j (tweak ty cr g (start_search (run typed) term)) q s2 q /\
    looked_up typed term ty s2 /\
    six s2 = (g, gS s, gR s, cr, k_hold (k s), length (cbuf s)).
Proof.
  intros typed term ty cr g q Hne Hh.
  set (r := run typed). set (X := start_search r term).
  set (s2 := search_run D n X).
  destruct (Lemmas_C02e.run_good D s Hn HL Hf Himp Hidle typed Hh) as [_ [_ [_ [_ [Hi [Hu Hm]]]]]].
  fold r in Hi, Hu, Hm.
  pose proof (Lemmas_C02.C02_resolve D (Lemmas_C02e.sT s) typed term Hn HL Hf Himp Hne Hh) as R.
  cbv zeta in R. rewrite <- (Lemmas_C02e.run_eq D s typed Hne) in R. fold r X s2 in R. destruct R as [F R].
  change (enabled D (Lemmas_C02e.sT s)) with (enabled D s) in R.
  destruct (Lemmas_C02e.search_run_frame D n X) as [A [B [C E]]]. fold s2 in A, B, C, E.
  assert (Hend : k_state (k (search_run D n (tweak ty cr g X))) <> CS_SEARCH_COMMAND).
  { rewrite Lemmas_C02e.search_run_tweak. fold s2.
    change (k_state (k (tweak ty cr g s2))) with (k_state (k s2)).
    destruct (resolve typed (enabled D s) (cmds D)) as [i|].
    - destruct R as [R _]. rewrite R. discriminate.
    - rewrite R. destruct (term =? ch_LF)%N; discriminate. }
  destruct (Lemmas_C02e.search_steps D Hmx n (tweak ty cr g X) q) as [j [Hj Hst']];
    [exact Hi | reflexivity | exact Hend |].
  exists j, (tweak ty cr g s2). split; [exact Hj|]. split.
  { rewrite Lemmas_C02e.search_run_tweak in Hst'. exact Hst'. }
  split.
  - unfold Lemmas_C02e.looked_up. split; [change (mem s2 = mem s); rewrite B; exact Hm|]. split; [exact F|].
    split; [change (u s2 = u s); rewrite A; exact Hu|].
    destruct (resolve typed (enabled D s) (cmds D)) as [i|].
    + destruct R as [R1 R2]. split; [exact R1|]. split; [exact R2|]. split; [reflexivity|].
      change (k_char (k (tweak ty cr g s2))) with (k_char (k s2)). rewrite C. reflexivity.
    + exact R.
  - rewrite six_tweak.
    assert (E6 : six s2 = six s).
    { unfold s2. rewrite six_search_run. change (six X) with (six r). apply six_run. }
    unfold six in E6. congruence.
Qed.

Lemma run_len0 : forall typed, typed <> [] -> implicit_hit D s typed = false ->
  (k_length (k (run typed)) =? 0) = false.
Proof.
  intros typed Hne Hh.
  destruct (Lemmas_C02e.run_good D s Hn HL Hf Himp Hidle typed Hh) as [_ [Hl _]].
  apply Nat.eqb_neq. rewrite Hl. destruct typed; [congruence | simpl; lia].
Qed.

(* the terminator of a RUN request (after Lemmas_C02e.term_step, registers explicit) *)
Lemma lf_term_step : forall typed q, typed <> [] -> implicit_hit D s typed = false ->
  steps 1 (run typed) (ch_LF :: q)
    (tweak T_RUN (k_cr (k (run typed))) (S (gL (run typed))) (start_search (run typed) ch_LF)) q.
Proof.
  intros typed q Hne Hh. set (r := run typed).
  destruct (Lemmas_C02e.run_good D s Hn HL Hf Himp Hidle typed Hh) as [_ [Hl [_ [Hs [Hi _]]]]].
  fold r in Hl, Hs, Hi.
  pose proof (Lemmas_C02e.run_type D s Hn HL Hf Himp Hidle typed Hh) as Hty. fold r in Hty.
  pose proof (run_len0 typed Hne Hh) as E0. fold r in E0.
  pose proof (Lemmas_C02e.step_pc D Hmx r ch_LF q Hi Hs) as H1.
  assert (E : Lemmas_C02e.pc_body (k_char (k (Lemmas_C02e.rd_state r ch_LF))) (Lemmas_C02e.rd_state r ch_LF) =
              tweak T_RUN (k_cr (k r)) (S (gL r)) (start_search r ch_LF)).
  { assert (Hrd : Lemmas_C02e.rd_state r ch_LF = set_gL (S (gL r)) (setk_char ch_LF r))
      by (unfold Lemmas_C02e.rd_state; rewrite Hs; reflexivity).
    rewrite Hrd. change (k_char (k (set_gL (S (gL r)) (setk_char ch_LF r)))) with ch_LF.
    unfold Lemmas_C02e.pc_body. change (ch_LF =? ch_LF)%N with true. cbv iota.
    change (k_length (k (set_gL (S (gL r)) (setk_char ch_LF r)))) with (k_length (k r)).
    rewrite E0. cbn [negb]. rewrite <- Hty. reflexivity. }
  rewrite E in H1. exact H1.
Qed.

(* the '=' that ends the name of a WRITE request *)
Lemma eq_term_step : forall typed q, typed <> [] -> implicit_hit D s typed = false ->
  steps 1 (run typed) (ch_EQ :: q)
    (tweak T_WRITE (k_cr (k (run typed))) (gL (run typed)) (start_search (run typed) ch_EQ)) q.
Proof.
  intros typed q Hne Hh. set (r := run typed).
  destruct (Lemmas_C02e.run_good D s Hn HL Hf Himp Hidle typed Hh) as [_ [Hl [_ [Hs [Hi _]]]]].
  fold r in Hl, Hs, Hi.
  pose proof (run_len0 typed Hne Hh) as E0. fold r in E0.
  pose proof (Lemmas_C02e.step_pc D Hmx r ch_EQ q Hi Hs) as H1.
  assert (E : Lemmas_C02e.pc_body (k_char (k (Lemmas_C02e.rd_state r ch_EQ))) (Lemmas_C02e.rd_state r ch_EQ) =
              tweak T_WRITE (k_cr (k r)) (gL r) (start_search r ch_EQ)).
  { assert (Hrd : Lemmas_C02e.rd_state r ch_EQ = setk_char ch_EQ r)
      by (unfold Lemmas_C02e.rd_state; rewrite Hs; reflexivity).
    rewrite Hrd. change (k_char (k (setk_char ch_EQ r))) with ch_EQ.
    unfold Lemmas_C02e.pc_body. change (ch_EQ =? ch_LF)%N with false. change (ch_EQ =? ch_CR)%N with false.
    change (ch_EQ =? ch_QM)%N with false. change (ch_EQ =? ch_EQ)%N with true. cbv iota.
    change (k_length (k (setk_char ch_EQ r))) with (k_length (k r)).
    rewrite E0. reflexivity. }
  rewrite E in H1. exact H1.
Qed.

Lemma upper_ne : forall name : list N, name <> [] -> upper name <> [].
Proof. intros name H. destruct name; [congruence | discriminate]. Qed.

Lemma six_run_parts : forall t, gL (run t) = gL s /\ k_cr (k (run t)) = k_cr (k s).
Proof. intros t. pose proof (six_run s t) as E. unfold six in E. split; congruence. Qed.

(* "AT" name "?" LF *)
Lemma dispatch_read_ex : forall name rest,
  name_ok name = true -> implicit_hit D s (upper name) = false ->
  exists calls s2, steps calls s ([ch_A; ch_T] ++ name ++ [ch_QM; ch_LF] ++ rest) s2 rest /\
    looked_up (upper name) ch_LF T_READ s2 /\
    six s2 = (S (gL s), gS s, gR s, k_cr (k s), k_hold (k s), length (cbuf s)).
Proof.
  intros name rest Hok Hh.
  destruct (Lemmas_C02e.name_ok_split name Hok) as [Hne Hc].
  pose proof (upper_ne name Hne) as Hne'.
  destruct (six_run_parts (upper name)) as [G C].
  destruct (finish_search_ex (upper name) ch_LF T_READ (k_cr (k (run (upper name))))
              (S (gL (run (upper name)))) rest Hne' Hh) as [j [s2 [Hj [H6 [HR H7]]]]].
  exists (2 + (length name * S n + (1 + (1 + j)))), s2. split; [|split; [exact HR|]].
  - simpl app.
    eapply Lemmas_C02e.steps_trans; [apply (Lemmas_C02e.at_steps D Hmx s Hst Hidle)|].
    eapply Lemmas_C02e.steps_trans;
      [apply (Lemmas_C02e.name_steps D Hmx s Hn HL Hf Himp Hidle name (ch_QM :: ch_LF :: rest) Hc Hh)|].
    eapply Lemmas_C02e.steps_trans;
      [apply (Lemmas_C02e.qm_step D Hmx s Hn HL Hf Himp Hidle (upper name) (ch_LF :: rest) Hne' Hh)|].
    eapply Lemmas_C02e.steps_trans;
      [apply (Lemmas_C02e.lf_step D Hmx s Hn HL Hf Himp Hidle (upper name) Hh) | exact H6].
  - rewrite H7, G, C. reflexivity.
Qed.

(* "AT" name LF  and  "AT" name "=" *)
Lemma dispatch_lf_ex : forall name rest,
  name_ok name = true -> implicit_hit D s (upper name) = false ->
  exists calls s2, steps calls s ([ch_A; ch_T] ++ name ++ [ch_LF] ++ rest) s2 rest /\
    looked_up (upper name) ch_LF T_RUN s2 /\
    six s2 = (S (gL s), gS s, gR s, k_cr (k s), k_hold (k s), length (cbuf s)).
Proof.
  intros name rest Hok Hh.
  destruct (Lemmas_C02e.name_ok_split name Hok) as [Hne Hc].
  pose proof (upper_ne name Hne) as Hne'.
  destruct (six_run_parts (upper name)) as [G C].
  destruct (finish_search_ex (upper name) ch_LF T_RUN (k_cr (k (run (upper name))))
              (S (gL (run (upper name)))) rest Hne' Hh) as [j [s2 [Hj [H6 [HR H7]]]]].
  exists (2 + (length name * S n + (1 + j))), s2. split; [|split; [exact HR|]].
  - simpl app.
    eapply Lemmas_C02e.steps_trans; [apply (Lemmas_C02e.at_steps D Hmx s Hst Hidle)|].
    eapply Lemmas_C02e.steps_trans;
      [apply (Lemmas_C02e.name_steps D Hmx s Hn HL Hf Himp Hidle name (ch_LF :: rest) Hc Hh)|].
    eapply Lemmas_C02e.steps_trans; [apply (lf_term_step (upper name) rest Hne' Hh) | exact H6].
  - rewrite H7, G, C. reflexivity.
Qed.

Lemma dispatch_eq_ex : forall name rest,
  name_ok name = true -> implicit_hit D s (upper name) = false ->
  exists calls s2, steps calls s ([ch_A; ch_T] ++ name ++ [ch_EQ] ++ rest) s2 rest /\
    looked_up (upper name) ch_EQ T_WRITE s2 /\
    six s2 = (gL s, gS s, gR s, k_cr (k s), k_hold (k s), length (cbuf s)).
Proof.
  intros name rest Hok Hh.
  destruct (Lemmas_C02e.name_ok_split name Hok) as [Hne Hc].
  pose proof (upper_ne name Hne) as Hne'.
  destruct (six_run_parts (upper name)) as [G C].
  destruct (finish_search_ex (upper name) ch_EQ T_WRITE (k_cr (k (run (upper name))))
              (gL (run (upper name))) rest Hne' Hh) as [j [s2 [Hj [H6 [HR H7]]]]].
  exists (2 + (length name * S n + (1 + j))), s2. split; [|split; [exact HR|]].
  - simpl app.
    eapply Lemmas_C02e.steps_trans; [apply (Lemmas_C02e.at_steps D Hmx s Hst Hidle)|].
    eapply Lemmas_C02e.steps_trans;
      [apply (Lemmas_C02e.name_steps D Hmx s Hn HL Hf Himp Hidle name (ch_EQ :: rest) Hc Hh)|].
    eapply Lemmas_C02e.steps_trans; [apply (eq_term_step (upper name) rest Hne' Hh) | exact H6].
  - rewrite H7, G, C. reflexivity.
Qed.

End Line.

End E2E.
