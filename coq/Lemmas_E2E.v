(* Lemmas_E2E.v — whole command lines, end to end: on the scripted always-ready environment of Script.v
   (event machine idle with an empty queue, no mutex) the per-phase results chain into the observable
   behaviour of one complete line:  AT<name>? LF answered from variables, an unknown or ambiguous name,
   and a WRITE line AT<name>=<args> LF to variables.
   Structure: (A) the relation [osteps m s q s' q' out] = m cat_service calls from state s / queue q to
   s' / q' that call no handler and whose accepted output is out (Lemmas_C02e.steps is the case out = []);
   (B) the flush engine as osteps (one unit = newline text newline, after Lemmas_C11);
   (C) frames of the name lookup (ghost counters, k_cr, k_hold, buffer size);
   (D) dispatch with the final state's registers explicit (after Lemmas_C02e);
   (E) the READ formatting loop as steps (after Lemmas_C07e.rloop_ok), with the frame [post];
   (F) emitting a unit, the result code, the reset;
   (F') the WRITE path: argument collection (Lemmas_C06) and the variable parser (after Lemmas_C07e.wloop);
   (G) the composed lines; the final statements; a concrete instance. *)
From Coq Require Import List NArith ZArith Bool Arith Lia.
From CatV Require Import Bytes Defs Codec Spec Fsm Script ResolveDefs SchedDefs GlueDefs TextDefs CollectDefs.
From CatV Require Lemmas_C02 Lemmas_C02e Lemmas_C06 Lemmas_C07 Lemmas_C07e Lemmas_C11 Lemmas_C19.
Import ListNotations.
Local Open Scope nat_scope.

Local Notation wst := (Fsm.st sio smu shs).
Local Notation wio := (Fsm.io sio smu shs).
Local Notation whs := (Fsm.hs sio smu shs).
Local Notation wtr := (Fsm.tr sio smu shs).
Local Notation idle := Lemmas_C02e.idle.
Local Notation flush_step_c := Lemmas_C11.flush_step_c.
Local Notation run_flush_c := Lemmas_C11.run_flush_c.

Ltac destr_all := repeat match goal with
  | |- context [if ?b then _ else _] => destruct b
  | |- context [match ?x with _ => _ end] => destruct x
  end.

(* ================= A. traces and the relation osteps ================= *)
Lemma calls_of_app : forall a b, calls_of (a ++ b) = calls_of b ++ calls_of a.
Proof. intros a b. unfold calls_of. rewrite rev_app_distr, flat_map_app. reflexivity. Qed.

Lemma output_of_app : forall a b, output_of (a ++ b) = output_of b ++ output_of a.
Proof. intros a b. unfold output_of. rewrite rev_app_distr, flat_map_app. reflexivity. Qed.

Section E2E.
Variable D : desc.
Hypothesis Hmx : d_mutex D = false.
Local Notation n := (ncmds D).
Local Notation cmdsvc := (cmd_service D sio smu shs s_read s_write s_lock s_unlock s_call).
Local Notation steps := (Lemmas_C02e.steps D).

Definition osteps (m : nat) (s : state) (q : list N) (s' : state) (q' : list N) (out : list N) : Prop :=
  forall h t, exists t', calls_of t' = [] /\ output_of t' = out /\
    nsvc D m (mkw s q h t) = mkw s' q' h (t' ++ t).

Lemma osteps_of_steps : forall m s q s' q', steps m s q s' q' -> osteps m s q s' q' [].
Proof.
  intros m s q s' q' H h t. destruct (H h t) as [t' [Q E]]. exists t'.
  destruct (Lemmas_C02e.quiet_spec t' Q) as [A B]. auto.
Qed.

Lemma osteps_trans : forall a b s q s1 q1 s2 q2 o1 o2,
  osteps a s q s1 q1 o1 -> osteps b s1 q1 s2 q2 o2 -> osteps (a + b) s q s2 q2 (o1 ++ o2).
Proof.
  intros a b s q s1 q1 s2 q2 o1 o2 H1 H2 h t.
  destruct (H1 h t) as [t1 [C1 [O1 E1]]]. destruct (H2 h (t1 ++ t)) as [t2 [C2 [O2 E2]]].
  exists (t2 ++ t1). split; [rewrite calls_of_app, C1, C2; reflexivity|].
  split; [rewrite output_of_app, O1, O2; reflexivity|].
  unfold nsvc in *. rewrite Lemmas_C02e.iter_add, E1, E2, app_assoc. reflexivity.
Qed.

Lemma osteps_cast : forall m m' s q s' q' o o', osteps m s q s' q' o -> m = m' -> o = o' ->
  osteps m' s q s' q' o'.
Proof. intros; subst; assumption. Qed.

(* a non-reading, non-writing state *)
Lemma ostep_pure : forall s q f, idle s ->
  (forall h t, cmdsvc (mkw s q h t) = (mkw (f s) q h t, ST_BUSY)) -> osteps 1 s q (f s) q [].
Proof. intros s q f Hi Hc. apply osteps_of_steps. apply Lemmas_C02e.step_pure; assumption. Qed.

Lemma osteps_world : forall calls s q s2 q2 out h, osteps calls s q s2 q2 out ->
  let w := nsvc D calls (mkw s q h []) in
  wst w = s2 /\ inq (wio w) = q2 /\ whs w = h /\ calls_of (wtr w) = [] /\ output_of (wtr w) = out.
Proof.
  intros calls s q s2 q2 out h H w. destruct (H h []) as [t' [A [B E]]]. unfold w. rewrite E.
  rewrite app_nil_r. repeat split; assumption.
Qed.

(* ================= B. the flush engine ================= *)
Definition obyte (o : option N) : list N := match o with Some ch => [ch] | None => [] end.

Lemma ostep_flush : forall s q, idle s -> k_state (k s) = CS_FLUSH ->
  osteps 1 s q (fst (flush_step_c s)) q (obyte (snd (flush_step_c s))).
Proof.
  intros s q Hi Hs h t.
  assert (E : cmdsvc (mkw s q h t) =
              (mkw (fst (flush_step_c s)) q h
                   (match snd (flush_step_c s) with Some ch => EWr ATCMD ch true :: t | None => t end), ST_BUSY)).
  { unfold cmd_service. cbn [Fsm.st mkw]. rewrite Hs. unfold process_io_write, Lemmas_C11.flush_step_c.
    cbn [Fsm.st mkw]. destruct (wbuf_char (k_wbuf (k s)) (cbuf s) (k_position (k s))) as [ch|]; [|reflexivity].
    destruct (ch =? 0)%N; reflexivity. }
  unfold nsvc. simpl iter. rewrite (Lemmas_C02e.svc_busy D Hmx (mkw s q h t) _ Hi E).
  destruct (snd (flush_step_c s)) as [ch|].
  - exists [ERet OService ST_BUSY; EWr ATCMD ch true]. repeat split; reflexivity.
  - exists [ERet OService ST_BUSY]. repeat split; reflexivity.
Qed.

Lemma flush_step_u : forall s, u (fst (flush_step_c s)) = u s.
Proof.
  intros s. unfold Lemmas_C11.flush_step_c, Lemmas_C11.phase_switch_c. destr_all; reflexivity.
Qed.

Lemma run_flush_S : forall m s, run_flush_c (S m) s =
  (fst (run_flush_c m (fst (flush_step_c s))), obyte (snd (flush_step_c s)) ++ snd (run_flush_c m (fst (flush_step_c s)))).
Proof.
  intros m s. cbn [Lemmas_C11.run_flush_c]. destruct (flush_step_c s) as [s1 o]. cbn [fst snd].
  destruct (run_flush_c m s1) as [s2 out]. destruct o; reflexivity.
Qed.

Lemma flush_osteps : forall m s q, idle s ->
  (forall j, j < m -> k_state (k (fst (run_flush_c j s))) = CS_FLUSH) ->
  osteps m s q (fst (run_flush_c m s)) q (snd (run_flush_c m s)).
Proof.
  induction m as [|m IH]; intros s q Hi Hall.
  - intros h t. exists []. repeat split; reflexivity.
  - rewrite run_flush_S. cbn [fst snd]. change (S m) with (1 + m).
    eapply osteps_trans.
    + apply ostep_flush; [exact Hi|]. exact (Hall 0 (Nat.lt_0_succ m)).
    + apply IH.
      * destruct Hi as [A B]. unfold Lemmas_C02e.idle. rewrite flush_step_u. split; assumption.
      * intros j Hj. specialize (Hall (S j) (proj1 (Nat.succ_lt_mono j m) Hj)).
        rewrite run_flush_S in Hall. exact Hall.
Qed.

(* what the phases after the dispatch never change *)
Definition keep (s s' : state) : Prop :=
  mem s' = mem s /\ fault s' = fault s /\ u s' = u s /\ gL s' = gL s /\ gS s' = gS s /\
  k_cr (k s') = k_cr (k s) /\ k_hold (k s') = k_hold (k s) /\ cbuf s' = cbuf s.

(* a whole unit by pure iteration, with the final state's frame (after Lemmas_C11.C11_unit_cmd_proof) *)
Lemma unit_run : forall s txt, k_position (k s) = 0 -> k_wstate (k s) = WS_BEFORE ->
  k_wbuf (k s) = WB_NL (k_cr (k s)) -> In 0%N (cbuf s) -> text_of (cbuf s) = txt ->
  let nl := Lemmas_C11.nl_text (k_cr (k s)) in
  let nn := 3 + 2 * length nl + length txt in
  exists s3, run_flush_c nn s = (s3, nl ++ txt ++ nl) /\ keep s s3 /\
    k_state (k s3) = k_wafter (k s) /\
    gR s3 = (if cstate_beq (k_wafter (k s)) CS_AFTER_RESET then S (gR s) else gR s) /\
    (forall m, m < nn -> k_state (k (fst (run_flush_c m s))) = k_state (k s)).
Proof.
  intros s T Hp Hw Hb H0 HT. cbv zeta.
  set (nl := Lemmas_C11.nl_text (k_cr (k s))). set (L1 := length nl). set (L2 := length T).
  assert (T0 : text_of (Lemmas_C11.wb_text (k_wbuf (k s)) (cbuf s)) = nl).
  { rewrite Hb. apply Lemmas_C11.text_of_nl. }
  assert (I0 : In 0%N (Lemmas_C11.wb_text (k_wbuf (k s)) (cbuf s))).
  { rewrite Hb. apply Lemmas_C11.In0_nl. }
  pose proof (Lemmas_C11.phase_c_before s nl Hp Hw I0 T0) as P1. fold L1 in P1.
  match type of P1 with _ = (?x, _) => set (s1 := x) in * end.
  assert (T1 : text_of (Lemmas_C11.wb_text (k_wbuf (k s1)) (cbuf s1)) = T) by exact HT.
  pose proof (Lemmas_C11.phase_c_main s1 T eq_refl eq_refl H0 T1) as P2. fold L2 in P2.
  match type of P2 with _ = (?x, _) => set (s2 := x) in * end.
  assert (T2 : text_of (Lemmas_C11.wb_text (k_wbuf (k s2)) (cbuf s2)) = nl) by apply Lemmas_C11.text_of_nl.
  pose proof (Lemmas_C11.phase_c_after s2 nl eq_refl eq_refl (Lemmas_C11.In0_nl _) T2) as P3. fold L1 in P3.
  match type of P3 with _ = (?x, _) => set (s3 := x) in * end.
  assert (En : 3 + 2 * L1 + L2 = S L1 + (S L2 + S L1)) by lia. rewrite En. clear En.
  assert (R : run_flush_c (S L1 + (S L2 + S L1)) s = (s3, nl ++ T ++ nl)).
  { rewrite Lemmas_C11.run_flush_c_app, P1, Lemmas_C11.run_flush_c_app, P2, P3. reflexivity. }
  exists s3. split; [exact R|].
  assert (F : keep s s3 /\ k_state (k s3) = k_wafter (k s) /\
              gR s3 = (if cstate_beq (k_wafter (k s)) CS_AFTER_RESET then S (gR s) else gR s)).
  { unfold s3. cbv zeta. change (k_wafter (k s2)) with (k_wafter (k s)).
    destruct (cstate_beq (k_wafter (k s)) CS_AFTER_RESET); unfold keep; repeat split; reflexivity. }
  destruct F as (F1 & F2 & F3). split; [exact F1|]. split; [exact F2|]. split; [exact F3|].
  intros m Hm.
  destruct (le_lt_dec m L1) as [A|A].
  - apply Lemmas_C11.run_flush_c_text_state. rewrite (Lemmas_C11.len_phase_rest0 s nl Hp T0). exact A.
  - destruct (le_lt_dec m (S L1 + L2)) as [B|B].
    + replace m with (S L1 + (m - S L1)) by lia. rewrite Lemmas_C11.fst_run_flush_c_app, P1. cbn [fst].
      rewrite Lemmas_C11.run_flush_c_text_state
        by (rewrite (Lemmas_C11.len_phase_rest0 s1 T eq_refl T1); fold L2; lia). reflexivity.
    + replace m with (S L1 + (S L2 + (m - S L1 - S L2))) by lia.
      rewrite Lemmas_C11.fst_run_flush_c_app, P1. cbn [fst]. rewrite Lemmas_C11.fst_run_flush_c_app, P2. cbn [fst].
      rewrite Lemmas_C11.run_flush_c_text_state
        by (rewrite (Lemmas_C11.len_phase_rest0 s2 nl eq_refl T2); fold L1; lia). reflexivity.
Qed.

Lemma keep_refl : forall s, keep s s.
Proof. intros s. unfold keep. repeat split; reflexivity. Qed.

Lemma keep_trans : forall a b c, keep a b -> keep b c -> keep a c.
Proof.
  intros a b c (A1 & A2 & A3 & A4 & A5 & A6 & A7 & A8) (B1 & B2 & B3 & B4 & B5 & B6 & B7 & B8).
  unfold keep. rewrite B1, B2, B3, B4, B5, B6, B7, B8. repeat split; assumption.
Qed.

Lemma idle_keep : forall s s', keep s s' -> idle s -> idle s'.
Proof. intros s s' K Hi. apply (Lemmas_C02e.idle_of_u s); [apply K | exact Hi]. Qed.

(* the unit as service calls: LF text LF when no CR was seen *)
Lemma unit_osteps : forall s q txt, idle s -> k_state (k s) = CS_FLUSH ->
  k_position (k s) = 0 -> k_wstate (k s) = WS_BEFORE -> k_wbuf (k s) = WB_NL (k_cr (k s)) ->
  k_cr (k s) = false -> In 0%N (cbuf s) -> text_of (cbuf s) = txt ->
  exists s3, osteps (5 + length txt) s q s3 q ([ch_LF] ++ txt ++ [ch_LF]) /\ keep s s3 /\
    k_state (k s3) = k_wafter (k s) /\
    gR s3 = (if cstate_beq (k_wafter (k s)) CS_AFTER_RESET then S (gR s) else gR s).
Proof.
  intros s q txt Hi Hs Hp Hw Hb Hcr H0 HT.
  destruct (unit_run s txt Hp Hw Hb H0 HT) as (s3 & R & K & A & G & Hall).
  cbv zeta in *. rewrite Hcr in *. change (3 + 2 * length (Lemmas_C11.nl_text false) + length txt) with (5 + length txt) in *.
  exists s3. split; [|auto].
  pose proof (flush_osteps (5 + length txt) s q Hi) as F. rewrite R in F. cbn [fst snd] in F.
  apply F. intros j Hj. rewrite (Hall j Hj). exact Hs.
Qed.

(* ================= C. frames of the name lookup ================= *)
Definition six (s : state) : nat * nat * nat * bool * bool * nat :=
  (gL s, gS s, gR s, k_cr (k s), k_hold (k s), length (cbuf s)).

Lemma six_update : forall s, six (update_command D s) = six s.
Proof.
  intros s. rewrite Lemmas_C02.update_command_unf.
  destruct (cmd_by_index (d_groups D) (k_index (k s))) as [c|]; [|reflexivity].
  destruct (get_cmd_state D s (k_index (k s))) as [cs|]; [|reflexivity].
  unfold Lemmas_C02.upd_fin, Lemmas_C02.upd_s1, set_cmd_state, prepare_search_command.
  destr_all; unfold six; Lemmas_C11.scbn; rewrite ?Lemmas_C19.upd_length; reflexivity.
Qed.

Lemma six_search : forall s, six (search_command D s) = six s.
Proof.
  intros s. unfold search_command.
  destruct (get_cmd_state D s (k_index (k s))) as [cs|]; [|reflexivity].
  cbv zeta. Lemmas_C11.scbn. destr_all; reflexivity.
Qed.

Lemma six_iter_upd : forall m s, six (iter m (update_command D) s) = six s.
Proof. induction m as [|m IH]; intros s; [reflexivity|]. simpl iter. rewrite IH. apply six_update. Qed.

Lemma six_ncs : forall s ch, six (name_char_step D s ch) = six s.
Proof. intros s ch. unfold name_char_step. rewrite six_iter_upd. reflexivity. Qed.

Lemma six_fold_ncs : forall t s, six (fold_left (name_char_step D) t s) = six s.
Proof. induction t as [|c t IH]; intros s; [reflexivity|]. simpl fold_left. rewrite IH. apply six_ncs. Qed.

Lemma six_run : forall s t, six (Lemmas_C02e.run D s t) = six s.
Proof.
  intros s t. unfold Lemmas_C02e.run. rewrite six_fold_ncs.
  unfold six, Lemmas_C02e.P0, Lemmas_C02e.sT, prepare_parse_command. Lemmas_C11.scbn.
  rewrite repeat_length. reflexivity.
Qed.

Lemma six_search_run : forall fuel s, six (search_run D fuel s) = six s.
Proof.
  induction fuel as [|f IH]; intros s; [reflexivity|]. simpl search_run.
  destruct (cstate_beq (k_state (k s)) CS_SEARCH_COMMAND); [|reflexivity].
  rewrite IH. apply six_search.
Qed.

(* ================= D. dispatch, with the final state's ghost counters and flags ================= *)
Section Line.
Variable s : state.
Hypothesis Hn : 0 < n.
Hypothesis HL : n <= 4 * length (cbuf s).
Hypothesis Hf : fault s = false.
Hypothesis Hst : k_state (k s) = CS_IDLE.
Hypothesis Himp : k_implicit (k s) = false.
Hypothesis Hidle : idle s.

Local Notation run := (Lemmas_C02e.run D s).
Local Notation tweak := Lemmas_C02e.tweak.
Local Notation looked_up := (Lemmas_C02e.looked_up D s).

Lemma six_tweak : forall ty cr g Y,
  six (tweak ty cr g Y) = (g, gS Y, gR Y, cr, k_hold (k Y), length (cbuf Y)).
Proof. reflexivity. Qed.

(* Lemmas_C02e.finish_search with the final state made explicit *)
Lemma finish_search_ex : forall typed term ty cr g q,
  typed <> [] -> implicit_hit D s typed = false ->
  exists j s2, j <= n /\ steps j (tweak ty cr g (start_search (run typed) term)) q s2 q /\
    looked_up typed term ty s2 /\
    six s2 = (g, gS s, gR s, cr, k_hold (k s), length (cbuf s)).
Proof.
  intros typed term ty cr g q Hne Hh.
  set (r := run typed). set (X := start_search r term).
  set (s2 := search_run D n X).
  destruct (Lemmas_C02e.run_good D s Hn HL Hf Himp Hidle typed Hh) as [_ [_ [_ [_ [Hi [Hu Hm]]]]]].
  fold r in Hi, Hu, Hm.
  pose proof (Lemmas_C02.C02_resolve D (Lemmas_C02e.sT s) typed term Hn HL Hf Himp Hne Hh) as R.
  cbv zeta in R. rewrite <- (Lemmas_C02e.run_eq D s typed Hne) in R. fold r X s2 in R. destruct R as [F R].
  change (enabled D (Lemmas_C02e.sT s)) with (enabled D s) in R.
  destruct (Lemmas_C02e.search_run_frame D n X) as [A [B [C E]]]. fold s2 in A, B, C, E.
  assert (Hend : k_state (k (search_run D n (tweak ty cr g X))) <> CS_SEARCH_COMMAND).
  { rewrite Lemmas_C02e.search_run_tweak. fold s2.
    change (k_state (k (tweak ty cr g s2))) with (k_state (k s2)).
    destruct (resolve typed (enabled D s) (cmds D)) as [i|].
    - destruct R as [R _]. rewrite R. discriminate.
    - rewrite R. destruct (term =? ch_LF)%N; discriminate. }
  destruct (Lemmas_C02e.search_steps D Hmx n (tweak ty cr g X) q) as [j [Hj Hst']];
    [exact Hi | reflexivity | exact Hend |].
  exists j, (tweak ty cr g s2). split; [exact Hj|]. split.
  { rewrite Lemmas_C02e.search_run_tweak in Hst'. exact Hst'. }
  split.
  - unfold Lemmas_C02e.looked_up. split; [change (mem s2 = mem s); rewrite B; exact Hm|]. split; [exact F|].
    split; [change (u s2 = u s); rewrite A; exact Hu|].
    destruct (resolve typed (enabled D s) (cmds D)) as [i|].
    + destruct R as [R1 R2]. split; [exact R1|]. split; [exact R2|]. split; [reflexivity|].
      change (k_char (k (tweak ty cr g s2))) with (k_char (k s2)). rewrite C. reflexivity.
    + exact R.
  - rewrite six_tweak.
    assert (E6 : six s2 = six s).
    { unfold s2. rewrite six_search_run. change (six X) with (six r). apply six_run. }
    unfold six in E6. congruence.
Qed.

Lemma run_len0 : forall typed, typed <> [] -> implicit_hit D s typed = false ->
  (k_length (k (run typed)) =? 0) = false.
Proof.
  intros typed Hne Hh.
  destruct (Lemmas_C02e.run_good D s Hn HL Hf Himp Hidle typed Hh) as [_ [Hl _]].
  apply Nat.eqb_neq. rewrite Hl. destruct typed; [congruence | simpl; lia].
Qed.

(* the terminator of a RUN request (after Lemmas_C02e.term_step, registers explicit) *)
Lemma lf_term_step : forall typed q, typed <> [] -> implicit_hit D s typed = false ->
  steps 1 (run typed) (ch_LF :: q)
    (tweak T_RUN (k_cr (k (run typed))) (S (gL (run typed))) (start_search (run typed) ch_LF)) q.
Proof.
  intros typed q Hne Hh. set (r := run typed).
  destruct (Lemmas_C02e.run_good D s Hn HL Hf Himp Hidle typed Hh) as [_ [Hl [_ [Hs [Hi _]]]]].
  fold r in Hl, Hs, Hi.
  pose proof (Lemmas_C02e.run_type D s Hn HL Hf Himp Hidle typed Hh) as Hty. fold r in Hty.
  pose proof (run_len0 typed Hne Hh) as E0. fold r in E0.
  pose proof (Lemmas_C02e.step_pc D Hmx r ch_LF q Hi Hs) as H1.
  assert (E : Lemmas_C02e.pc_body (k_char (k (Lemmas_C02e.rd_state r ch_LF))) (Lemmas_C02e.rd_state r ch_LF) =
              tweak T_RUN (k_cr (k r)) (S (gL r)) (start_search r ch_LF)).
  { assert (Hrd : Lemmas_C02e.rd_state r ch_LF = set_gL (S (gL r)) (setk_char ch_LF r))
      by (unfold Lemmas_C02e.rd_state; rewrite Hs; reflexivity).
    rewrite Hrd. change (k_char (k (set_gL (S (gL r)) (setk_char ch_LF r)))) with ch_LF.
    unfold Lemmas_C02e.pc_body. change (ch_LF =? ch_LF)%N with true. cbv iota.
    change (k_length (k (set_gL (S (gL r)) (setk_char ch_LF r)))) with (k_length (k r)).
    rewrite E0. cbn [negb]. rewrite <- Hty. reflexivity. }
  rewrite E in H1. exact H1.
Qed.

(* the '=' that ends the name of a WRITE request *)
Lemma eq_term_step : forall typed q, typed <> [] -> implicit_hit D s typed = false ->
  steps 1 (run typed) (ch_EQ :: q)
    (tweak T_WRITE (k_cr (k (run typed))) (gL (run typed)) (start_search (run typed) ch_EQ)) q.
Proof.
  intros typed q Hne Hh. set (r := run typed).
  destruct (Lemmas_C02e.run_good D s Hn HL Hf Himp Hidle typed Hh) as [_ [Hl [_ [Hs [Hi _]]]]].
  fold r in Hl, Hs, Hi.
  pose proof (run_len0 typed Hne Hh) as E0. fold r in E0.
  pose proof (Lemmas_C02e.step_pc D Hmx r ch_EQ q Hi Hs) as H1.
  assert (E : Lemmas_C02e.pc_body (k_char (k (Lemmas_C02e.rd_state r ch_EQ))) (Lemmas_C02e.rd_state r ch_EQ) =
              tweak T_WRITE (k_cr (k r)) (gL r) (start_search r ch_EQ)).
  { assert (Hrd : Lemmas_C02e.rd_state r ch_EQ = setk_char ch_EQ r)
      by (unfold Lemmas_C02e.rd_state; rewrite Hs; reflexivity).
    rewrite Hrd. change (k_char (k (setk_char ch_EQ r))) with ch_EQ.
    unfold Lemmas_C02e.pc_body. change (ch_EQ =? ch_LF)%N with false. change (ch_EQ =? ch_CR)%N with false.
    change (ch_EQ =? ch_QM)%N with false. change (ch_EQ =? ch_EQ)%N with true. cbv iota.
    change (k_length (k (setk_char ch_EQ r))) with (k_length (k r)).
    rewrite E0. reflexivity. }
  rewrite E in H1. exact H1.
Qed.

Lemma upper_ne : forall name : list N, name <> [] -> upper name <> [].
Proof. intros name H. destruct name; [congruence | discriminate]. Qed.

Lemma six_run_parts : forall t, gL (run t) = gL s /\ k_cr (k (run t)) = k_cr (k s).
Proof. intros t. pose proof (six_run s t) as E. unfold six in E. split; congruence. Qed.

(* "AT" name "?" LF *)
Lemma dispatch_read_ex : forall name rest,
  name_ok name = true -> implicit_hit D s (upper name) = false ->
  exists calls s2, steps calls s ([ch_A; ch_T] ++ name ++ [ch_QM; ch_LF] ++ rest) s2 rest /\
    looked_up (upper name) ch_LF T_READ s2 /\
    six s2 = (S (gL s), gS s, gR s, k_cr (k s), k_hold (k s), length (cbuf s)).
Proof.
  intros name rest Hok Hh.
  destruct (Lemmas_C02e.name_ok_split name Hok) as [Hne Hc].
  pose proof (upper_ne name Hne) as Hne'.
  destruct (six_run_parts (upper name)) as [G C].
  destruct (finish_search_ex (upper name) ch_LF T_READ (k_cr (k (run (upper name))))
              (S (gL (run (upper name)))) rest Hne' Hh) as [j [s2 [Hj [H6 [HR H7]]]]].
  exists (2 + (length name * S n + (1 + (1 + j)))), s2. split; [|split; [exact HR|]].
  - simpl app.
    eapply Lemmas_C02e.steps_trans; [apply (Lemmas_C02e.at_steps D Hmx s Hst Hidle)|].
    eapply Lemmas_C02e.steps_trans;
      [apply (Lemmas_C02e.name_steps D Hmx s Hn HL Hf Himp Hidle name (ch_QM :: ch_LF :: rest) Hc Hh)|].
    eapply Lemmas_C02e.steps_trans;
      [apply (Lemmas_C02e.qm_step D Hmx s Hn HL Hf Himp Hidle (upper name) (ch_LF :: rest) Hne' Hh)|].
    eapply Lemmas_C02e.steps_trans;
      [apply (Lemmas_C02e.lf_step D Hmx s Hn HL Hf Himp Hidle (upper name) Hh) | exact H6].
  - rewrite H7, G, C. reflexivity.
Qed.

(* "AT" name LF  and  "AT" name "=" *)
Lemma dispatch_lf_ex : forall name rest,
  name_ok name = true -> implicit_hit D s (upper name) = false ->
  exists calls s2, steps calls s ([ch_A; ch_T] ++ name ++ [ch_LF] ++ rest) s2 rest /\
    looked_up (upper name) ch_LF T_RUN s2 /\
    six s2 = (S (gL s), gS s, gR s, k_cr (k s), k_hold (k s), length (cbuf s)).
Proof.
  intros name rest Hok Hh.
  destruct (Lemmas_C02e.name_ok_split name Hok) as [Hne Hc].
  pose proof (upper_ne name Hne) as Hne'.
  destruct (six_run_parts (upper name)) as [G C].
  destruct (finish_search_ex (upper name) ch_LF T_RUN (k_cr (k (run (upper name))))
              (S (gL (run (upper name)))) rest Hne' Hh) as [j [s2 [Hj [H6 [HR H7]]]]].
  exists (2 + (length name * S n + (1 + j))), s2. split; [|split; [exact HR|]].
  - simpl app.
    eapply Lemmas_C02e.steps_trans; [apply (Lemmas_C02e.at_steps D Hmx s Hst Hidle)|].
    eapply Lemmas_C02e.steps_trans;
      [apply (Lemmas_C02e.name_steps D Hmx s Hn HL Hf Himp Hidle name (ch_LF :: rest) Hc Hh)|].
    eapply Lemmas_C02e.steps_trans; [apply (lf_term_step (upper name) rest Hne' Hh) | exact H6].
  - rewrite H7, G, C. reflexivity.
Qed.

Lemma dispatch_eq_ex : forall name rest,
  name_ok name = true -> implicit_hit D s (upper name) = false ->
  exists calls s2, steps calls s ([ch_A; ch_T] ++ name ++ [ch_EQ] ++ rest) s2 rest /\
    looked_up (upper name) ch_EQ T_WRITE s2 /\
    six s2 = (gL s, gS s, gR s, k_cr (k s), k_hold (k s), length (cbuf s)).
Proof.
  intros name rest Hok Hh.
  destruct (Lemmas_C02e.name_ok_split name Hok) as [Hne Hc].
  pose proof (upper_ne name Hne) as Hne'.
  destruct (six_run_parts (upper name)) as [G C].
  destruct (finish_search_ex (upper name) ch_EQ T_WRITE (k_cr (k (run (upper name))))
              (gL (run (upper name))) rest Hne' Hh) as [j [s2 [Hj [H6 [HR H7]]]]].
  exists (2 + (length name * S n + (1 + j))), s2. split; [|split; [exact HR|]].
  - simpl app.
    eapply Lemmas_C02e.steps_trans; [apply (Lemmas_C02e.at_steps D Hmx s Hst Hidle)|].
    eapply Lemmas_C02e.steps_trans;
      [apply (Lemmas_C02e.name_steps D Hmx s Hn HL Hf Himp Hidle name (ch_EQ :: rest) Hc Hh)|].
    eapply Lemmas_C02e.steps_trans; [apply (eq_term_step (upper name) rest Hne' Hh) | exact H6].
  - rewrite H7, G, C. reflexivity.
Qed.

End Line.

(* ================= E. the READ formatting loop as service calls ================= *)
Lemma cmd_at_of_cmds : forall i c, nth_error (cmds D) i = Some c -> cmd_at D i = Some c.
Proof.
  intros i c H. unfold cmd_at, pool. rewrite nth_error_app1; [exact H|].
  apply nth_error_Some. congruence.
Qed.

Definition keepf (s s' : state) : Prop :=
  u s' = u s /\ gL s' = gL s /\ gR s' = gR s /\ k_cr (k s') = k_cr (k s) /\ k_hold (k s') = k_hold (k s).

Lemma keepf_trans : forall a b c, keepf a b -> keepf b c -> keepf a c.
Proof.
  intros a b c (A1 & A2 & A3 & A4 & A5) (B1 & B2 & B3 & B4 & B5).
  unfold keepf. rewrite B1, B2, B3, B4, B5. repeat split; assumption.
Qed.

(* an intermediate state of a formatting step: nothing observable moved yet *)
Definition pre (s s1 : state) : Prop :=
  keepf s s1 /\ gS s1 = gS s /\ k_state (k s1) = k_state (k s).
(* the result of a formatting step started outside CS_FLUSH_WAIT: either a flush was started with a
   fresh cursor (a result code was counted only if it is ERROR), or no result code was counted *)
Definition post (s s' : state) : Prop :=
  keepf s s' /\
  (k_state (k s') = CS_FLUSH_WAIT ->
     k_position (k s') = 0 /\ k_wstate (k s') = WS_BEFORE /\ k_wbuf (k s') = WB_NL (k_cr (k s')) /\
     (k_wafter (k s') = CS_AFTER_OK -> gS s' = gS s) /\
     (k_wafter (k s') = CS_AFTER_RESET -> gS s' = S (gS s))) /\
  (k_state (k s') <> CS_FLUSH_WAIT -> gS s' = gS s).

Ltac fin_keepf := unfold keepf; repeat split; reflexivity.

Ltac brk := repeat (cbv beta iota zeta; match goal with
  | |- context [match ?x with _ => _ end] =>
      lazymatch x with
      | context [match _ with _ => _ end] => fail
      | _ => destruct x
      end
  end).

Ltac post_tac K1 G1 S1 Hs :=
  unfold post; split; [eapply keepf_trans; [exact K1 | fin_keepf]|];
  unfold end_with_error, ack_error, ack_ok, start_flush_after_ok, start_flush_c, set_loop_state, set_fault_flag;
  split; intros H; Lemmas_C11.scbn_in H; Lemmas_C11.scbn;
  try discriminate H; try (exfalso; apply H; reflexivity); try (exfalso; first [exact (Hs H) | rewrite S1 in H; exact (Hs H)]);
  try exact G1;
  repeat split; try reflexivity; try (intros; discriminate); try (intros; exact G1);
  try (intros _; rewrite G1; reflexivity).

Lemma pre_refl : forall s, pre s s.
Proof. intros s. unfold pre. split; [fin_keepf | split; reflexivity]. Qed.

Lemma pre_put_cur : forall s s1 c1, pre s s1 -> pre s (put_cur ATCMD c1 s1).
Proof.
  intros s s1 c1 (K & G & S1). unfold put_cur. destruct (cu_fault c1);
    (split; [eapply keepf_trans; [exact K | fin_keepf] | split; assumption]).
Qed.

Lemma pre_print_string : forall s s1 t, pre s s1 -> pre s (fst (print_string ATCMD s1 t)).
Proof.
  intros s s1 t H. unfold print_string. destruct (print_nstring (get_cur ATCMD s1) t) as [c1 ok].
  cbn [fst]. apply pre_put_cur. exact H.
Qed.

Lemma post_fra_state : forall c v s, k_state (k s) <> CS_FLUSH_WAIT -> post s (Lemmas_C07e.fra_state D c v s).
Proof.
  intros c v s Hs. unfold Lemmas_C07e.fra_state.
  destruct (pre_refl s) as (K0 & G0 & S0).
  destruct (nth_error (mem s) (v_slot v)) as [data|]; [|post_tac K0 G0 S0 Hs].
  destruct (fmt_var v data (get_cur ATCMD s)) as [c1 ok].
  destruct (pre_put_cur s s c1 (pre_refl s)) as (K1 & G1 & S1).
  set (s1 := put_cur ATCMD c1 s) in *. clearbody s1.
  destruct ok; cbn [negb]; [|post_tac K1 G1 S1 Hs].
  unfold Lemmas_C07e.fra_rest, next_format_var, cmd_of.
  brk; post_tac K1 G1 S1 Hs.
Qed.

Lemma post_spfra : forall s, k_state (k s) <> CS_FLUSH_WAIT ->
  post s (start_processing_format_read_args D ATCMD s).
Proof.
  intros s Hs. unfold start_processing_format_read_args. cbv zeta.
  assert (P0 : pre s (setg_pos ATCMD 0 s)) by (split; [fin_keepf | split; reflexivity]).
  set (s0 := setg_pos ATCMD 0 s) in *. clearbody s0. destruct P0 as (K0 & G0 & S0).
  destruct (cmd_of D ATCMD s0) as [c|]; [|post_tac K0 G0 S0 Hs].
  pose proof (pre_print_string s s0 (c_name c) (conj K0 (conj G0 S0))) as P1.
  destruct (print_string ATCMD s0 (c_name c)) as [s1 ok1]. cbn [fst] in P1. destruct P1 as (K1 & G1 & S1).
  destruct ok1; cbn [negb]; [|post_tac K1 G1 S1 Hs].
  pose proof (pre_print_string s s1 [ch_EQ] (conj K1 (conj G1 S1))) as P2.
  destruct (print_string ATCMD s1 [ch_EQ]) as [s2 ok2]. cbn [fst] in P2. destruct P2 as (K2 & G2 & S2).
  destruct ok2; cbn [negb]; [|post_tac K2 G2 S2 Hs].
  brk; post_tac K2 G2 S2 Hs.
Qed.

Lemma post_chain : forall a b c, post a b -> k_state (k b) <> CS_FLUSH_WAIT -> post b c -> post a c.
Proof.
  intros a b c (K1 & _ & G1) Hb (K2 & F2 & G2). specialize (G1 Hb).
  unfold post. split; [eapply keepf_trans; eassumption|]. rewrite <- G1. split; assumption.
Qed.

(* the call in CS_COMMAND_FOUND for a READ request *)
Lemma found_read_step : forall s q i c, idle s -> k_state (k s) = CS_COMMAND_FOUND ->
  k_cmd (k s) = Some i -> cmd_at D i = Some c -> k_type (k s) = T_READ -> c_only_test c = false ->
  steps 1 s q (start_processing_format_read_args D ATCMD s) q.
Proof.
  intros s q i c Hi Hs Hk Hc Hty Hot.
  assert (E : command_found D s = start_processing_format_read_args D ATCMD s).
  { unfold command_found, cmd_of, g_cmd. rewrite Hk, Hc, Hty, Hot. reflexivity. }
  rewrite <- E. apply (Lemmas_C02e.step_pure D Hmx s q (command_found D) Hi).
  intros h t. unfold cmd_service. cbn [Fsm.st mkw]. rewrite Hs. reflexivity.
Qed.

(* one call in CS_FORMAT_READ_ARGS for a variable without read callback *)
Lemma fra_one : forall s q c v, idle s -> k_state (k s) = CS_FORMAT_READ_ARGS ->
  cmd_of D ATCMD s = Some c -> nth_error (c_vars c) (k_var (k s)) = Some v -> v_hread v = false ->
  steps 1 s q (Lemmas_C07e.fra_state D c v s) q.
Proof.
  intros s q c v Hi Hs Hc Hn Hr.
  apply (Lemmas_C02e.step_pure D Hmx s q (Lemmas_C07e.fra_state D c v) Hi).
  intros h t. unfold cmd_service. cbn [Fsm.st mkw]. rewrite Hs. unfold format_read_args.
  cbn [Fsm.st mkw]. unfold cmd_of in Hc |- *. destruct (g_cmd ATCMD s) as [ci|] eqn:Eg; [|discriminate].
  rewrite Hc. cbn [g_var]. rewrite Hn, Hr. reflexivity.
Qed.

(* Lemmas_C07e.rloop_ok, as service calls on the scripted world, with the frame of the final state *)
Lemma rloop_steps : forall c m nl bsz q, c_hread c = false ->
  forall vs v pre0 s t rest txts,
  c_vars c = pre0 ++ v :: vs -> Forall (Lemmas_C07e.rt_var_ok m) (v :: vs) ->
  Lemmas_C07e.RInv D c m s (length pre0) t rest nl bsz -> idle s ->
  all_some (map (Lemmas_C07e.slot_text m) (v :: vs)) = Some txts ->
  length (join_comma txts) < length rest ->
  exists s', steps (length (v :: vs)) s q s' q /\
    Lemmas_C07e.RDone m s' (t ++ join_comma txts) bsz /\ post s s'.
Proof.
  intros c m nl bsz q Hrd.
  induction vs as [|v2 vs IH]; intros v pre0 s t rest txts Hc Hok HR Hidl Ha Hl;
    destruct (Lemmas_C07e.all_some_cons_st _ _ _ _ Ha) as (txt & txts' & -> & Hi & Ha');
    inversion Hok as [|? ? Hokv Hokvs]; subst;
    destruct (Lemmas_C07e.var_facts m v txt Hokv Hi) as (data & Hd & Ht & Hdl & Hhex & _);
    destruct Hokv as (_ & Hnr & _);
    pose proof (Lemmas_C19.nth_mid _ pre0 v) as Hn;
    pose proof HR as (HB & Hv & _ & Hst & _);
    pose proof HB as (_ & Hcmd & _);
    assert (Hnf : k_state (k s) <> CS_FLUSH_WAIT) by (rewrite Hst; discriminate).
  - specialize (Hn []). rewrite <- Hc, <- Hv in Hn.
    cbn [map all_some] in Ha'. injection Ha' as <-.
    rewrite Lemmas_C07e.join_comma_one in *.
    exists (Lemmas_C07e.fra_state D c v s). split; [apply fra_one; assumption|]. split.
    + apply (Lemmas_C07e.fra_last_ok D c m s (length pre0) t rest nl bsz v data txt); try assumption.
      rewrite Hc, app_length. cbn [length]. lia.
    + apply post_fra_state. exact Hnf.
  - specialize (Hn (v2 :: vs)). rewrite <- Hc, <- Hv in Hn.
    destruct (Lemmas_C07e.all_some_cons_st _ _ _ _ Ha') as (txt2 & txts2 & -> & Hi2 & Ha2).
    rewrite Lemmas_C07e.join_comma_cons2 in *. rewrite app_length in Hl. cbn [length] in Hl.
    destruct (Lemmas_C07e.fra_more D c m s (length pre0) t rest nl bsz v data txt HR Hd Ht Hdl Hhex)
      as (r' & HR' & L); [lia| rewrite Hc, app_length; cbn [length]; lia |].
    pose proof (post_fra_state c v s Hnf) as HP1.
    assert (Hst1 : k_state (k (Lemmas_C07e.fra_state D c v s)) <> CS_FLUSH_WAIT).
    { destruct HR' as (_ & _ & _ & E & _). rewrite E. discriminate. }
    specialize (IH v2 (pre0 ++ [v]) (Lemmas_C07e.fra_state D c v s)
                   (t ++ txt ++ [ch_COMMA]) r' (txt2 :: txts2)).
    replace (length (pre0 ++ [v])) with (S (length pre0)) in IH
      by (rewrite app_length; cbn [length]; lia).
    destruct IH as (s' & E & HD & HP2).
    + rewrite Hc, <- app_assoc. reflexivity.
    + exact Hokvs.
    + exact HR'.
    + apply (Lemmas_C02e.idle_of_u s); [apply HP1 | exact Hidl].
    + exact Ha'.
    + lia.
    + exists s'. split; [|split].
      * change (length (v :: v2 :: vs)) with (1 + length (v2 :: vs)).
        eapply Lemmas_C02e.steps_trans; [apply fra_one; eassumption | exact E].
      * replace (t ++ txt ++ ch_COMMA :: join_comma (txt2 :: txts2))
          with ((t ++ txt ++ [ch_COMMA]) ++ join_comma (txt2 :: txts2))
          by (rewrite <- !app_assoc; reflexivity).
        exact HD.
      * exact (post_chain _ _ _ HP1 Hst1 HP2).
Qed.

(* the whole automatic READ response, from CS_COMMAND_FOUND to the start of the flush *)
Lemma read_steps : forall s q ci c args, idle s -> k_state (k s) = CS_COMMAND_FOUND ->
  k_cmd (k s) = Some ci -> cmd_at D ci = Some c -> k_type (k s) = T_READ ->
  Lemmas_C07e.rt_cmd_ok (mem s) c -> fault s = false ->
  Lemmas_C07e.read_args_text (mem s) c = Some args ->
  length (c_name c ++ [ch_EQ] ++ args) < length (cbuf s) ->
  exists s', steps (1 + length (c_vars c)) s q s' q /\
    Lemmas_C07e.RDone (mem s) s' (c_name c ++ [ch_EQ] ++ args) (length (cbuf s)) /\ post s s'.
Proof.
  intros s q ci c args Hidl Hs Hk Hc Hty (Hne & Hok & _ & Hrd & _ & Hot & _) Hf Ha Hfit.
  assert (Hnf : k_state (k s) <> CS_FLUSH_WAIT) by (rewrite Hs; discriminate).
  pose proof (found_read_step s q ci c Hidl Hs Hk Hc Hty Hot) as H1.
  unfold cmd_at in Hc. unfold Lemmas_C07e.read_args_text in Ha.
  change (fun v : var => match nth_error (mem s) (v_slot v) with
                         | Some d => var_text v d | None => None end)
    with (Lemmas_C07e.slot_text (mem s)) in Ha.
  destruct (all_some (map (Lemmas_C07e.slot_text (mem s)) (c_vars c))) as [txts|] eqn:Hall; [|discriminate].
  injection Ha as <-.
  destruct (c_vars c) as [|v vs] eqn:Hvs; [congruence|].
  assert (Hrw : v_access v = RW).
  { inversion Hok as [|? ? (A & _) _]. exact A. }
  rewrite !app_length in Hfit. cbn [length] in Hfit.
  destruct (Lemmas_C07e.read_start_ok D s ci c v vs Hk Hc Hf Hvs Hrw) as (r & HR & L); [lia|].
  pose proof (post_spfra s Hnf) as HP1.
  set (s1 := start_processing_format_read_args D ATCMD s) in *.
  assert (Hst1 : k_state (k s1) <> CS_FLUSH_WAIT).
  { destruct HR as (_ & _ & _ & E & _). rewrite E. discriminate. }
  assert (Hi1 : idle s1) by (apply (Lemmas_C02e.idle_of_u s); [apply HP1 | exact Hidl]).
  destruct (rloop_steps c (mem s) (nl_chars s) (length (cbuf s)) q Hrd vs v [] s1
              (c_name c ++ [ch_EQ]) (0%N :: r) txts Hvs Hok HR Hi1 Hall) as (s' & E & HD & HP2).
  { cbn [length]. lia. }
  exists s'. split; [eapply Lemmas_C02e.steps_trans; [exact H1 | exact E]|]. split.
  - rewrite <- app_assoc in HD. exact HD.
  - exact (post_chain _ _ _ HP1 Hst1 HP2).
Qed.

(* the response text contains no NUL (from the proof of Lemmas_C07e.C07_read_response) *)
Lemma txt_no_nul : forall m c args, Lemmas_C07e.rt_cmd_ok m c ->
  Lemmas_C07e.read_args_text m c = Some args -> ~ In 0%N (c_name c ++ [ch_EQ] ++ args).
Proof.
  intros m c args (_ & Hokv & _ & _ & _ & _ & Hname) Ha.
  unfold Lemmas_C07e.read_args_text in Ha.
  change (fun v : var => match nth_error m (v_slot v) with
                         | Some d => var_text v d | None => None end)
    with (Lemmas_C07e.slot_text m) in Ha.
  destruct (all_some (map (Lemmas_C07e.slot_text m) (c_vars c))) as [txts|] eqn:Hall; [|discriminate].
  injection Ha as <-.
  pose proof (Lemmas_C07e.notin0_join txts (Lemmas_C07e.texts_no_nul _ _ _ Hokv Hall)) as Hj.
  intro Hin. apply in_app_or in Hin. destruct Hin as [Hin|Hin]; [exact (Hname Hin)|].
  destruct Hin as [Hin|Hin]; [discriminate Hin|exact (Hj Hin)].
Qed.

(* ================= F. emitting a unit, the result code, the reset ================= *)
Lemma In0_strncpy : forall m t, length t < m -> In 0%N (strncpy_buf m t).
Proof.
  intros m t H. unfold strncpy_buf. rewrite firstn_app, (firstn_all2 t) by lia.
  apply in_or_app. right.
  destruct (m - length t) as [|d] eqn:E; [lia|]. destruct m as [|m']; [lia|].
  cbn [repeat firstn]. left. reflexivity.
Qed.

(* the flush has been prepared with a fresh cursor *)
Definition fresh (s : state) : Prop :=
  k_state (k s) = CS_FLUSH_WAIT /\ k_position (k s) = 0 /\ k_wstate (k s) = WS_BEFORE /\
  k_wbuf (k s) = WB_NL (k_cr (k s)).

Lemma emit_unit : forall s q txt, idle s -> fresh s -> k_cr (k s) = false ->
  In 0%N (cbuf s) -> text_of (cbuf s) = txt ->
  exists s3, osteps (6 + length txt) s q s3 q ([ch_LF] ++ txt ++ [ch_LF]) /\ keep s s3 /\
    k_state (k s3) = k_wafter (k s) /\
    gR s3 = (if cstate_beq (k_wafter (k s)) CS_AFTER_RESET then S (gR s) else gR s).
Proof.
  intros s q txt Hi (Hs & Hp & Hw & Hb) Hcr H0 HT.
  assert (H1 : osteps 1 s q (setk_state CS_FLUSH s) q []).
  { apply (ostep_pure s q (setk_state CS_FLUSH) Hi). intros h t. unfold cmd_service. cbn [Fsm.st mkw].
    rewrite Hs. unfold busy, upd_st, process_io_write_wait. cbn [Fsm.st mkw]. destruct Hi as [U _].
    rewrite U. reflexivity. }
  destruct (unit_osteps (setk_state CS_FLUSH s) q txt Hi eq_refl Hp Hw Hb Hcr H0 HT) as (s3 & O & K & A & G).
  exists s3. split; [|split; [|split; assumption]].
  - change (6 + length txt) with (1 + (5 + length txt)).
    exact (osteps_trans _ _ _ _ _ _ _ _ _ _ H1 O).
  - exact K.
Qed.

(* a result code (text in the buffer, continuation CS_AFTER_RESET): the unit, then back to idle *)
Lemma result_tail : forall s q txt, idle s -> fresh s -> k_wafter (k s) = CS_AFTER_RESET ->
  k_cr (k s) = false -> k_hold (k s) = false -> In 0%N (cbuf s) -> text_of (cbuf s) = txt ->
  exists s4, osteps (7 + length txt) s q s4 q ([ch_LF] ++ txt ++ [ch_LF]) /\
    k_state (k s4) = CS_IDLE /\ mem s4 = mem s /\ fault s4 = fault s /\ u s4 = u s /\
    gL s4 = gL s /\ gS s4 = gS s /\ gR s4 = S (gR s) /\
    k_cr (k s4) = false /\ k_hold (k s4) = false /\ k_cmd (k s4) = None /\ cbuf s4 = cbuf s.
Proof.
  intros s q txt Hi Hfr Haf Hcr Hh H0 HT.
  destruct (emit_unit s q txt Hi Hfr Hcr H0 HT) as (s3 & O & K & A & G).
  rewrite Haf in A, G. cbn [cstate_beq] in G.
  pose proof K as (K1 & K2 & K3 & K4 & K5 & K6 & K7 & K8).
  assert (H2 : osteps 1 s3 q (reset_state s3) q []).
  { apply (ostep_pure s3 q reset_state (idle_keep s s3 K Hi)). intros h t. unfold cmd_service.
    cbn [Fsm.st mkw]. rewrite A. reflexivity. }
  exists (reset_state s3). split.
  - replace (7 + length txt) with ((6 + length txt) + 1) by lia.
    eapply osteps_cast; [exact (osteps_trans _ _ _ _ _ _ _ _ _ _ O H2) | reflexivity | apply app_nil_r].
  - unfold reset_state. rewrite K7, Hh. Lemmas_C11.scbn. repeat split; congruence.
Qed.

Lemma ok_tail : forall s q, idle s -> k_state (k s) = CS_AFTER_OK ->
  k_cr (k s) = false -> k_hold (k s) = false -> 6 <= length (cbuf s) ->
  exists s4, osteps 10 s q s4 q ([ch_LF] ++ txt_OK ++ [ch_LF]) /\
    k_state (k s4) = CS_IDLE /\ mem s4 = mem s /\ fault s4 = fault s /\ u s4 = u s /\
    gL s4 = gL s /\ gS s4 = S (gS s) /\ gR s4 = S (gR s) /\
    k_cr (k s4) = false /\ k_hold (k s4) = false /\ k_cmd (k s4) = None.
Proof.
  intros s q Hi Hs Hcr Hh H6.
  assert (H1 : osteps 1 s q (ack_ok s) q []).
  { apply (ostep_pure s q ack_ok Hi). intros h t. unfold cmd_service. cbn [Fsm.st mkw].
    rewrite Hs. reflexivity. }
  destruct (Lemmas_C19.ack_ok_props s H6) as (_ & _ & _ & HT).
  assert (Hfr : fresh (ack_ok s)) by (repeat split; reflexivity).
  assert (H0 : In 0%N (cbuf (ack_ok s))).
  { change (In 0%N (strncpy_buf (asz s) txt_OK)). apply In0_strncpy. unfold asz. cbn [length txt_OK]. lia. }
  destruct (result_tail (ack_ok s) q txt_OK Hi Hfr eq_refl Hcr Hh H0 HT) as (s4 & O & R).
  exists s4. split; [exact (osteps_trans _ _ _ _ _ _ _ _ _ _ H1 O)|].
  destruct R as (R1 & R2 & R3 & R4 & R5 & R6 & R7 & R8 & R9 & R10 & _).
  repeat split; assumption.
Qed.

Lemma err_tail : forall s q, idle s -> k_state (k s) = CS_COMMAND_NOT_FOUND ->
  k_cr (k s) = false -> k_hold (k s) = false -> 6 <= length (cbuf s) ->
  exists s4, osteps 13 s q s4 q ([ch_LF] ++ txt_ERROR ++ [ch_LF]) /\
    k_state (k s4) = CS_IDLE /\ mem s4 = mem s /\ fault s4 = fault s /\ u s4 = u s /\
    gL s4 = gL s /\ gS s4 = S (gS s) /\ gR s4 = S (gR s) /\
    k_cr (k s4) = false /\ k_hold (k s4) = false /\ k_cmd (k s4) = None.
Proof.
  intros s q Hi Hs Hcr Hh H6.
  assert (H1 : osteps 1 s q (ack_error s) q []).
  { apply (ostep_pure s q ack_error Hi). intros h t. unfold cmd_service. cbn [Fsm.st mkw].
    rewrite Hs. reflexivity. }
  destruct (Lemmas_C19.ack_error_props s H6) as (_ & _ & _ & HT).
  assert (Hfr : fresh (ack_error s)) by (repeat split; reflexivity).
  assert (H0 : In 0%N (cbuf (ack_error s))).
  { change (In 0%N (strncpy_buf (asz s) txt_ERROR)). apply In0_strncpy. unfold asz. cbn [length txt_ERROR]. lia. }
  destruct (result_tail (ack_error s) q txt_ERROR Hi Hfr eq_refl Hcr Hh H0 HT) as (s4 & O & R).
  exists s4. split; [exact (osteps_trans _ _ _ _ _ _ _ _ _ _ H1 O)|].
  destruct R as (R1 & R2 & R3 & R4 & R5 & R6 & R7 & R8 & R9 & R10 & _).
  repeat split; assumption.
Qed.


(* ================= F'. the WRITE path: collecting the arguments, storing them ================= *)

(* the argument text contains no line feed and does not start with '?' *)
Lemma notin_join : forall (x : N) (txts : list (list N)), x <> ch_COMMA ->
  Forall (fun t => ~ In x t) txts -> ~ In x (join_comma txts).
Proof.
  intros x [|y r] Hx H; [intros []|]. inversion H as [|? ? Hy Hr]; subst.
  cbn [join_comma]. intro Hin. apply in_app_or in Hin. destruct Hin as [Hin|Hin]; [exact (Hy Hin)|].
  apply in_concat in Hin. destruct Hin as (l & Hl & H0).
  apply in_map_iff in Hl. destruct Hl as (z & <- & Hz).
  destruct H0 as [H0|H0]; [exact (Hx (eq_sym H0))|].
  rewrite Forall_forall in Hr. exact (Hr z Hz H0).
Qed.

Lemma texts_no_lf : forall m vs txts, Forall (Lemmas_C07e.rt_var_ok m) vs ->
  all_some (map (Lemmas_C07e.slot_text m) vs) = Some txts ->
  Forall (fun t => ~ In ch_LF t) txts /\
  match txts with t :: _ => match t with q :: _ => q <> ch_QM | [] => False end | [] => True end.
Proof.
  intros m. induction vs as [|v vs IH]; intros txts Hok Ha.
  - cbn [map all_some] in Ha. injection Ha as <-. split; [constructor | exact I].
  - destruct (Lemmas_C07e.all_some_cons_st _ _ _ _ Ha) as (txt & txts' & -> & Hi & Ha').
    inversion Hok as [|? ? Hokv Hokvs]; subst.
    destruct (Lemmas_C07e.var_facts m v txt Hokv Hi) as (data & _ & Ht & Hdl & Hhex & Hb & _).
    destruct (Lemmas_C07.C07_no_delim v data txt Hb ltac:(lia) Ht) as (_ & B & _ & Q).
    pose proof (Lemmas_C07e.var_text_nonempty v data txt Ht Hdl Hhex) as Hne.
    split; [constructor; [exact B | exact (proj1 (IH _ Hokvs Ha'))]|].
    destruct txt; [congruence | exact Q].
Qed.

Lemma args_no_lf : forall m c args, Lemmas_C07e.rt_cmd_ok m c ->
  Lemmas_C07e.read_args_text m c = Some args ->
  ~ In ch_LF args /\ match args with q :: _ => q <> ch_QM | [] => True end.
Proof.
  intros m c args (_ & Hokv & _) Ha.
  unfold Lemmas_C07e.read_args_text in Ha.
  change (fun v : var => match nth_error m (v_slot v) with
                         | Some d => var_text v d | None => None end)
    with (Lemmas_C07e.slot_text m) in Ha.
  destruct (all_some (map (Lemmas_C07e.slot_text m) (c_vars c))) as [txts|] eqn:Hall; [|discriminate].
  injection Ha as <-.
  destruct (texts_no_lf m _ _ Hokv Hall) as [A B]. split.
  - apply notin_join; [discriminate | exact A].
  - destruct txts as [|t r]; [exact I|]. destruct t as [|q t]; [destruct B|]. exact B.
Qed.

Lemma no_cr_id : forall bs, ~ In ch_CR bs -> no_cr bs = bs.
Proof.
  induction bs as [|b bs IH]; intros H; [reflexivity|]. unfold no_cr in *. cbn [filter].
  destruct (b =? ch_CR)%N eqn:E.
  - apply N.eqb_eq in E. exfalso. apply H. left. exact E.
  - cbn [negb]. rewrite IH; [reflexivity|]. intro Hin. apply H. right. exact Hin.
Qed.

(* the call in CS_COMMAND_FOUND for a WRITE request *)
Lemma found_write_step : forall s q, idle s -> k_state (k s) = CS_COMMAND_FOUND ->
  steps 1 s q (command_found D s) q.
Proof.
  intros s q Hi Hs. apply (Lemmas_C02e.step_pure D Hmx s q (command_found D) Hi).
  intros h t. unfold cmd_service. cbn [Fsm.st mkw]. rewrite Hs. reflexivity.
Qed.

Lemma found_write_pre : forall s c, cmd_of D ATCMD s = Some c -> k_type (k s) = T_WRITE ->
  keepf s (command_found D s) /\ gS (command_found D s) = gS s /\ k_hold (k (command_found D s)) = k_hold (k s).
Proof.
  intros s c Hc Hty. unfold command_found. rewrite Hc, Hty.
  destruct (cbuf (setk_length 0 s)); repeat split; reflexivity.
Qed.

(* one byte in CS_PARSE_COMMAND_ARGS *)
Lemma pca_step : forall s b q, idle s -> k_state (k s) = CS_PARSE_COMMAND_ARGS ->
  steps 1 s (b :: q) (pca_body D (k_char (k (Lemmas_C02e.rd_state s b))) (Lemmas_C02e.rd_state s b)) q.
Proof.
  intros s b q Hi Hs. apply (Lemmas_C02e.step_read D Hmx s b q (pca_body D) Hi).
  intros h t. unfold cmd_service. cbn [Fsm.st mkw]. rewrite Hs.
  apply Lemmas_C06.C06_pca_body_is_model.
Qed.

Lemma pca_body_keep : forall ch s, ch <> ch_LF -> ch <> ch_CR ->
  keepf s (pca_body D ch s) /\ gS (pca_body D ch s) = gS s.
Proof.
  intros ch s H1 H2. apply N.eqb_neq in H1. apply N.eqb_neq in H2.
  unfold pca_body. rewrite H1, H2. brk; (split; [fin_keepf | reflexivity]).
Qed.

(* the bytes of the argument text (no LF, no CR): exactly the iteration args_feed *)
Lemma args_steps : forall c bs s q, idle s -> k_state (k s) = CS_PARSE_COMMAND_ARGS ->
  cmd_of D ATCMD s = Some c -> k_length (k s) = 0 -> 0 < asz s -> fault s = false ->
  nth_error (cbuf s) 0 = Some 0%N -> ~ In ch_LF bs -> ~ In ch_CR bs ->
  (test_shortcut c = true -> match bs with q :: _ => q <> ch_QM | [] => True end) ->
  length bs < asz s ->
  steps (length bs) s (bs ++ q) (args_feed D s bs) q /\
  keepf s (args_feed D s bs) /\ gS (args_feed D s bs) = gS s.
Proof.
  intros c. induction bs as [|b bs IH] using rev_ind; intros s q Hi Hs Hc Hl Ha Hf H0 Hlf Hcr Hq Hfit.
  - split; [apply Lemmas_C02e.steps_0 | split; [fin_keepf | reflexivity]].
  - assert (Hlf' : ~ In ch_LF bs) by (intro X; apply Hlf; apply in_or_app; left; exact X).
    assert (Hcr' : ~ In ch_CR bs) by (intro X; apply Hcr; apply in_or_app; left; exact X).
    assert (Hb1 : b <> ch_LF) by (intro X; apply Hlf; apply in_or_app; right; left; exact X).
    assert (Hb2 : b <> ch_CR) by (intro X; apply Hcr; apply in_or_app; right; left; exact X).
    assert (Hq' : test_shortcut c = true -> match bs with q :: _ => q <> ch_QM | [] => True end).
    { intros T. specialize (Hq T). destruct bs; [exact I | exact Hq]. }
    rewrite app_length in Hfit |- *. cbn [length] in Hfit |- *.
    destruct (IH s (b :: q) Hi Hs Hc Hl Ha Hf H0 Hlf' Hcr' Hq' ltac:(lia)) as (S1 & K1 & G1).
    pose proof (Lemmas_C06.C06_collect D s c bs Hs Hc Hl Ha Hf H0 Hlf') as HC.
    rewrite (no_cr_id bs Hcr') in HC. specialize (HC Hq'). cbv zeta in HC.
    destruct HC as (_ & _ & _ & HC).
    replace (length bs <? asz s) with true in HC by (symmetry; apply Nat.ltb_lt; lia).
    destruct HC as (Hs' & _).
    set (s' := args_feed D s bs) in *.
    assert (Hi' : idle s') by (apply (Lemmas_C02e.idle_of_u s); [apply K1 | exact Hi]).
    assert (E : args_feed D s (bs ++ [b]) = pca_body D b (setk_char b s')).
    { unfold args_feed. rewrite fold_left_app. cbn [fold_left]. fold (args_feed D s bs). fold s'.
      unfold args_byte. rewrite Hs'. reflexivity. }
    assert (Hrd : Lemmas_C02e.rd_state s' b = setk_char b s').
    { unfold Lemmas_C02e.rd_state. rewrite Hs'. cbn [cstate_beq].
      apply N.eqb_neq in Hb1. rewrite Hb1. reflexivity. }
    pose proof (pca_step s' b q Hi' Hs') as S2. rewrite Hrd in S2.
    change (k_char (k (setk_char b s'))) with b in S2. rewrite <- E in S2.
    destruct (pca_body_keep b (setk_char b s') Hb1 Hb2) as (K2 & G2). rewrite <- E in K2, G2.
    split; [|split].
    + rewrite <- app_assoc. cbn [app]. exact (Lemmas_C02e.steps_trans D _ _ _ _ _ _ _ _ S1 S2).
    + eapply keepf_trans; [exact K1|]. eapply keepf_trans; [|exact K2]. fin_keepf.
    + rewrite G2. exact G1.
Qed.



(* the line feed that ends the arguments: on to the variable parser *)
Definition pwa_entry (s : state) : state :=
  set_gL (S (gL s)) (setk_char ch_LF s)
    |> setk_state CS_PARSE_WRITE_ARGS |> setk_position 0 |> setk_index 0 |> setk_var 0.

Lemma pca_lf_step : forall s q c v vs, idle s -> k_state (k s) = CS_PARSE_COMMAND_ARGS ->
  cmd_of D ATCMD s = Some c -> c_only_test c = false -> c_vars c = v :: vs -> v_access v = RW ->
  steps 1 s (ch_LF :: q) (pwa_entry s) q.
Proof.
  intros s q c v vs Hi Hs Hc Hot Hvs Hrw.
  pose proof (pca_step s ch_LF q Hi Hs) as S1.
  assert (Hrd : Lemmas_C02e.rd_state s ch_LF = set_gL (S (gL s)) (setk_char ch_LF s)).
  { unfold Lemmas_C02e.rd_state. rewrite Hs. reflexivity. }
  rewrite Hrd in S1. change (k_char (k (set_gL (S (gL s)) (setk_char ch_LF s)))) with ch_LF in S1.
  assert (E : pca_body D ch_LF (set_gL (S (gL s)) (setk_char ch_LF s)) = pwa_entry s).
  { unfold pca_body.
    change (cmd_of D ATCMD (set_gL (S (gL s)) (setk_char ch_LF s))) with (cmd_of D ATCMD s).
    rewrite Hc. change (ch_LF =? ch_LF)%N with true. cbv iota.
    rewrite Hot, (Lemmas_C07e.vap_rw c v vs WO Hvs Hrw). reflexivity. }
  rewrite E in S1. exact S1.
Qed.

(* one call in CS_PARSE_WRITE_ARGS for a variable without write callback whose field is accepted *)
Lemma pwa_one : forall s q c v data comma d ws nn, idle s -> k_state (k s) = CS_PARSE_WRITE_ARGS ->
  cmd_of D ATCMD s = Some c -> nth_error (c_vars c) (k_var (k s)) = Some v ->
  nth_error (mem s) (v_slot v) = Some data -> v_hwrite v = false ->
  decode_var v (skipn (k_position (k s)) (cbuf s)) data = (SOk comma, d, ws, nn) ->
  steps 1 s q (Lemmas_C07e.pwa_next c comma (Lemmas_C07e.pwa_store v d ws nn s)) q.
Proof.
  intros s q c v data comma d ws nn Hi Hs Hc Hn Hd Hw He.
  apply (Lemmas_C02e.step_pure D Hmx s q
           (fun _ => Lemmas_C07e.pwa_next c comma (Lemmas_C07e.pwa_store v d ws nn s)) Hi).
  intros h t. unfold cmd_service. cbn [Fsm.st mkw]. rewrite Hs. unfold parse_write_args. cbv zeta.
  cbn [Fsm.st mkw]. unfold cmd_of in Hc |- *. destruct (g_cmd ATCMD s) as [ci|] eqn:Eg; [|discriminate].
  rewrite Hc, Hn, Hd, He, Hw. reflexivity.
Qed.

Lemma post_pwa : forall c comma v d ws nn s, k_state (k s) <> CS_FLUSH_WAIT ->
  post s (Lemmas_C07e.pwa_next c comma (Lemmas_C07e.pwa_store v d ws nn s)).
Proof.
  intros c comma v d ws nn s Hs.
  assert (P1 : pre s (Lemmas_C07e.pwa_store v d ws nn s)) by (split; [fin_keepf | split; reflexivity]).
  set (s1 := Lemmas_C07e.pwa_store v d ws nn s) in *. clearbody s1. destruct P1 as (K1 & G1 & S1).
  unfold Lemmas_C07e.pwa_next. brk; post_tac K1 G1 S1 Hs.
Qed.

Lemma wmid_last_in0 : forall c m m0 cb s pre0 v p,
  Lemmas_C07e.WMid D c m m0 cb s pre0 v p -> c_vars c = pre0 ++ [v] -> c_hwrite c = false ->
  3 <= length cb -> In 0%N (cbuf (Lemmas_C07e.pwa_next c false s)).
Proof.
  intros c m m0 cb s pre0 v p (W1 & W2 & W3 & W5 & W6 & W7 & W8 & W9 & W10) Hc Hw H3.
  unfold Lemmas_C07e.pwa_next. cbv zeta. rewrite W5, Hw, andb_false_r.
  replace (S (length pre0) =? length (c_vars c)) with true.
  2:{ symmetry. apply Nat.eqb_eq. rewrite Hc, app_length. cbn [length]. lia. }
  cbn [negb]. rewrite andb_false_r.
  change (In 0%N (strncpy_buf (length (cbuf s)) txt_OK)).
  apply In0_strncpy. rewrite W6. cbn [length txt_OK]. lia.
Qed.

(* Lemmas_C07e.wloop as service calls on the scripted world, with the frame of the final state *)
Lemma wloop_steps : forall c m m0 cb q, c_hwrite c = false -> NoDup (map v_slot (c_vars c)) ->
  3 <= length cb ->
  forall vs v pre0 s done txts tl,
  c_vars c = pre0 ++ v :: vs -> Forall (Lemmas_C07e.rt_var_ok m) (v :: vs) ->
  Lemmas_C07e.WInv D c m m0 cb s pre0 (length done) -> idle s ->
  all_some (map (Lemmas_C07e.slot_text m) (v :: vs)) = Some txts ->
  cb = done ++ join_comma txts ++ 0%N :: tl ->
  exists s', steps (length (v :: vs)) s q s' q /\ Lemmas_C07e.WDone c m m0 s' /\ post s s' /\
             In 0%N (cbuf s').
Proof.
  intros c m m0 cb q Hw Hnd H3.
  induction vs as [|v2 vs IH]; intros v pre0 s done txts tl Hc Hok HW Hidl Ha Hcb;
    destruct (Lemmas_C07e.all_some_cons_st _ _ _ _ Ha) as (txt & txts' & -> & Hi & Ha');
    inversion Hok as [|? ? Hokv Hokvs]; subst x l;
    pose proof Hokv as (_ & _ & Hnw & _);
    pose proof HW as (_ & Hst & Hcmd & _);
    assert (Hnf : k_state (k s) <> CS_FLUSH_WAIT) by (rewrite Hst; discriminate).
  - cbn [map all_some] in Ha'. injection Ha' as <-.
    rewrite Lemmas_C07e.join_comma_one in Hcb.
    destruct (Lemmas_C07e.wstep_decode D c m m0 cb s pre0 (length done) v [] txt 0%N tl done
                HW Hc Hnd Hokv Hi eq_refl Hcb eq_refl) as (data' & d & ws & Hn & Hd' & Hdec & HM).
    change (0 =? ch_COMMA)%N with false in Hdec.
    exists (Lemmas_C07e.pwa_next c false (Lemmas_C07e.pwa_store v d ws (S (length txt)) s)).
    split; [exact (pwa_one s q c v data' false d ws _ Hidl Hst Hcmd Hn Hd' Hnw Hdec)|].
    split; [apply (Lemmas_C07e.wmid_last D _ _ _ _ _ _ _ _ HM Hc Hw); lia|].
    split; [apply post_pwa; exact Hnf|].
    exact (wmid_last_in0 _ _ _ _ _ _ _ _ HM Hc Hw H3).
  - destruct (Lemmas_C07e.all_some_cons_st _ _ _ _ Ha') as (txt2 & txts2 & -> & Hi2 & Ha2).
    rewrite Lemmas_C07e.join_comma_cons2 in Hcb.
    destruct (Lemmas_C07e.wstep_decode D c m m0 cb s pre0 (length done) v (v2 :: vs) txt ch_COMMA
                (join_comma (txt2 :: txts2) ++ 0%N :: tl) done
                HW Hc Hnd Hokv Hi eq_refl) as (data' & d & ws & Hn & Hd' & Hdec & HM).
    { rewrite Hcb, <- !app_assoc. reflexivity. }
    { reflexivity. }
    change (ch_COMMA =? ch_COMMA)%N with true in Hdec.
    pose proof (pwa_one s q c v data' true d ws _ Hidl Hst Hcmd Hn Hd' Hnw Hdec) as S1.
    pose proof (post_pwa c true v d ws (S (length txt)) s Hnf) as HP1.
    pose proof (Lemmas_C07e.wmid_more D _ _ _ _ _ _ _ _ HM) as HW'.
    specialize (HW' ltac:(rewrite Hc, app_length; cbn [length]; lia)).
    set (s1 := Lemmas_C07e.pwa_next c true (Lemmas_C07e.pwa_store v d ws (S (length txt)) s)) in *.
    assert (Hst1 : k_state (k s1) <> CS_FLUSH_WAIT).
    { destruct HW' as (_ & E & _). rewrite E. discriminate. }
    specialize (IH v2 (pre0 ++ [v]) s1 (done ++ txt ++ [ch_COMMA]) (txt2 :: txts2) tl).
    destruct IH as (s' & E & HD & HP2 & HI).
    + rewrite Hc, <- app_assoc. reflexivity.
    + exact Hokvs.
    + exact HW'.
    + apply (Lemmas_C02e.idle_of_u s); [apply HP1 | exact Hidl].
    + exact Ha'.
    + rewrite Hcb, <- !app_assoc. reflexivity.
    + exists s'. split; [|split; [exact HD | split; [exact (post_chain _ _ _ HP1 Hst1 HP2) | exact HI]]].
      change (length (v :: v2 :: vs)) with (1 + length (v2 :: vs)).
      exact (Lemmas_C02e.steps_trans D _ _ _ _ _ _ _ _ S1 E).
Qed.

(* ================= G. whole lines ================= *)
Section Lines.
Variable s : state.
Hypothesis Hn : 0 < n.
Hypothesis HL : n <= 4 * length (cbuf s).
Hypothesis H6 : 6 <= length (cbuf s).
Hypothesis Hf : fault s = false.
Hypothesis Hst : k_state (k s) = CS_IDLE.
Hypothesis Hcr : k_cr (k s) = false.
Hypothesis Himp : k_implicit (k s) = false.
Hypothesis Hhold : k_hold (k s) = false.
Hypothesis Hidle : idle s.

(* what a finished line leaves behind *)
Definition line_done (s4 : state) : Prop :=
  k_state (k s4) = CS_IDLE /\ mem s4 = mem s /\ fault s4 = false /\ u s4 = u s /\
  gL s4 = S (gL s) /\ gS s4 = S (gS s) /\ gR s4 = S (gR s) /\
  k_cr (k s4) = false /\ k_hold (k s4) = false /\ k_cmd (k s4) = None.

Lemma read_line_osteps : forall name rest i c args,
  name_ok name = true -> implicit_hit D s (upper name) = false ->
  resolve (upper name) (enabled D s) (cmds D) = Some i -> nth_error (cmds D) i = Some c ->
  Lemmas_C07e.rt_cmd_ok (mem s) c -> Lemmas_C07e.read_args_text (mem s) c = Some args ->
  length (c_name c ++ [ch_EQ] ++ args) < length (cbuf s) ->
  exists calls s4,
    osteps calls s ([ch_A; ch_T] ++ name ++ [ch_QM; ch_LF] ++ rest) s4 rest
      ([ch_LF] ++ c_name c ++ [ch_EQ] ++ args ++ [ch_LF] ++ [ch_LF] ++ txt_OK ++ [ch_LF]) /\
    line_done s4.
Proof.
  intros name rest i c args Hok Hh Hres Hc Hrt Ha Hfit.
  destruct (dispatch_read_ex s Hn HL Hf Hst Himp Hidle name rest Hok Hh)
    as (c1 & s2 & H1 & (M2 & F2 & U2 & R2) & S2).
  rewrite Hres in R2. destruct R2 as (A1 & A2 & A3 & A4).
  unfold six in S2.
  assert (G2 : gL s2 = S (gL s) /\ gS s2 = gS s /\ gR s2 = gR s /\ k_cr (k s2) = false /\
               k_hold (k s2) = false /\ length (cbuf s2) = length (cbuf s)).
  { repeat split; congruence. }
  destruct G2 as (gl2 & gs2 & gr2 & cr2 & ho2 & len2).
  pose proof (cmd_at_of_cmds i c Hc) as Hc'.
  assert (Hi2 : idle s2) by (apply (Lemmas_C02e.idle_of_u s); assumption).
  rewrite <- M2 in Hrt, Ha. rewrite <- len2 in Hfit.
  destruct (read_steps s2 rest i c args Hi2 A1 A2 Hc' A3 Hrt F2 Ha Hfit)
    as (s3 & H2 & (D1 & (r & D2) & D3 & D4 & D5 & D6) & (KF & FL & _)).
  destruct (FL D4) as (P1 & P2 & P3 & P4 & _). specialize (P4 D5).
  destruct KF as (u3 & gl3 & gr3 & cr3 & ho3).
  assert (Hi3 : idle s3) by (apply (Lemmas_C02e.idle_of_u s2); assumption).
  assert (Hcr3 : k_cr (k s3) = false) by congruence.
  set (txt := c_name c ++ [ch_EQ] ++ args) in *.
  assert (HT3 : text_of (cbuf s3) = txt).
  { rewrite D2. apply Lemmas_C19.text_of_app0. exact (txt_no_nul _ c args Hrt Ha). }
  assert (H03 : In 0%N (cbuf s3)) by (rewrite D2; apply in_or_app; right; left; reflexivity).
  destruct (emit_unit s3 rest txt Hi3 (conj D4 (conj P1 (conj P2 P3))) Hcr3 H03 HT3)
    as (s5 & O3 & K3 & A5 & G5).
  rewrite D5 in A5, G5. cbn [cstate_beq] in G5.
  destruct K3 as (K1 & K2 & K3 & K4 & K5 & K6 & K7 & K8).
  assert (Hi5 : idle s5) by (apply (Lemmas_C02e.idle_of_u s3); assumption).
  destruct (ok_tail s5 rest Hi5 A5) as (s6 & O4 & R1 & R2 & R3 & R4 & R5 & R6 & R7 & R8 & R9 & R10);
    [congruence | congruence | rewrite K8; lia |].
  exists (c1 + ((1 + length (c_vars c)) + ((6 + length txt) + 10))), s6. split.
  - eapply osteps_cast;
      [exact (osteps_trans _ _ _ _ _ _ _ _ _ _ (osteps_of_steps _ _ _ _ _ H1)
               (osteps_trans _ _ _ _ _ _ _ _ _ _ (osteps_of_steps _ _ _ _ _ H2)
                  (osteps_trans _ _ _ _ _ _ _ _ _ _ O3 O4))) | reflexivity |].
    unfold txt. cbn [app]. rewrite <- !app_assoc. reflexivity.
  - unfold line_done. repeat split; congruence.
Qed.

(* an unknown or ambiguous name:  "AT" name LF  and  "AT" name "?" LF *)
Lemma unknown_line_osteps : forall name rest,
  name_ok name = true -> implicit_hit D s (upper name) = false ->
  resolve (upper name) (enabled D s) (cmds D) = None ->
  exists calls s4,
    osteps calls s ([ch_A; ch_T] ++ name ++ [ch_LF] ++ rest) s4 rest ([ch_LF] ++ txt_ERROR ++ [ch_LF]) /\
    line_done s4.
Proof.
  intros name rest Hok Hh Hres.
  destruct (dispatch_lf_ex s Hn HL Hf Hst Himp Hidle name rest Hok Hh)
    as (c1 & s2 & H1 & (M2 & F2 & U2 & R2) & S2).
  rewrite Hres in R2. unfold Lemmas_C02e.NF in R2. change (ch_LF =? ch_LF)%N with true in R2. cbv iota in R2.
  unfold six in S2.
  assert (G2 : gL s2 = S (gL s) /\ gS s2 = gS s /\ gR s2 = gR s /\ k_cr (k s2) = false /\
               k_hold (k s2) = false /\ length (cbuf s2) = length (cbuf s)).
  { repeat split; congruence. }
  destruct G2 as (gl2 & gs2 & gr2 & cr2 & ho2 & len2).
  assert (Hi2 : idle s2) by (apply (Lemmas_C02e.idle_of_u s); assumption).
  destruct (err_tail s2 rest Hi2 R2 cr2 ho2) as (s6 & O4 & R1 & R3 & R4 & R5 & R6 & R7 & R8 & R9 & R10 & R11);
    [lia|].
  exists (c1 + 13), s6. split.
  - exact (osteps_trans _ _ _ _ _ _ _ _ _ _ (osteps_of_steps _ _ _ _ _ H1) O4).
  - unfold line_done. repeat split; congruence.
Qed.

Lemma unknown_read_line_osteps : forall name rest,
  name_ok name = true -> implicit_hit D s (upper name) = false ->
  resolve (upper name) (enabled D s) (cmds D) = None ->
  exists calls s4,
    osteps calls s ([ch_A; ch_T] ++ name ++ [ch_QM; ch_LF] ++ rest) s4 rest ([ch_LF] ++ txt_ERROR ++ [ch_LF]) /\
    line_done s4.
Proof.
  intros name rest Hok Hh Hres.
  destruct (dispatch_read_ex s Hn HL Hf Hst Himp Hidle name rest Hok Hh)
    as (c1 & s2 & H1 & (M2 & F2 & U2 & R2) & S2).
  rewrite Hres in R2. unfold Lemmas_C02e.NF in R2. change (ch_LF =? ch_LF)%N with true in R2. cbv iota in R2.
  unfold six in S2.
  assert (G2 : gL s2 = S (gL s) /\ gS s2 = gS s /\ gR s2 = gR s /\ k_cr (k s2) = false /\
               k_hold (k s2) = false /\ length (cbuf s2) = length (cbuf s)).
  { repeat split; congruence. }
  destruct G2 as (gl2 & gs2 & gr2 & cr2 & ho2 & len2).
  assert (Hi2 : idle s2) by (apply (Lemmas_C02e.idle_of_u s); assumption).
  destruct (err_tail s2 rest Hi2 R2 cr2 ho2) as (s6 & O4 & R1 & R3 & R4 & R5 & R6 & R7 & R8 & R9 & R10 & R11);
    [lia|].
  exists (c1 + 13), s6. split.
  - exact (osteps_trans _ _ _ _ _ _ _ _ _ _ (osteps_of_steps _ _ _ _ _ H1) O4).
  - unfold line_done. repeat split; congruence.
Qed.

(* a WRITE line to variables:  "AT" name "=" args LF  where args is the text READ prints for memory m *)
Lemma write_line_osteps : forall name rest i c m args,
  name_ok name = true -> implicit_hit D s (upper name) = false ->
  resolve (upper name) (enabled D s) (cmds D) = Some i -> nth_error (cmds D) i = Some c ->
  Lemmas_C07e.rt_cmd_ok m c -> Lemmas_C07e.read_args_text m c = Some args ->
  Lemmas_C07e.same_shape m (mem s) -> ~ In ch_CR args -> length args < length (cbuf s) ->
  exists calls s4,
    osteps calls s ([ch_A; ch_T] ++ name ++ [ch_EQ] ++ args ++ [ch_LF] ++ rest) s4 rest
      ([ch_LF] ++ txt_OK ++ [ch_LF]) /\
    k_state (k s4) = CS_IDLE /\ fault s4 = false /\ u s4 = u s /\
    gL s4 = S (gL s) /\ gS s4 = S (gS s) /\ gR s4 = S (gR s) /\
    k_cr (k s4) = false /\ k_hold (k s4) = false /\
    (forall v d0, In v (c_vars c) -> nth_error m (v_slot v) = Some d0 ->
       exists d1, nth_error (mem s4) (v_slot v) = Some d1 /\ Lemmas_C07.same_value v d1 d0) /\
    (forall sl, ~ In sl (map v_slot (c_vars c)) -> nth_error (mem s4) sl = nth_error (mem s) sl).
Proof.
  intros name rest i c m args Hok Hh Hres Hc Hrt Ha Hsh Hncr Hfit.
  (* 1. dispatch *)
  destruct (dispatch_eq_ex s Hn HL Hf Hst Himp Hidle name (args ++ [ch_LF] ++ rest) Hok Hh)
    as (c1 & s2 & H1 & (M2 & F2 & U2 & R2) & S2).
  rewrite Hres in R2. destruct R2 as (A1 & A2 & A3 & A4).
  unfold six in S2.
  assert (G2 : gL s2 = gL s /\ gS s2 = gS s /\ gR s2 = gR s /\ k_cr (k s2) = false /\
               k_hold (k s2) = false /\ length (cbuf s2) = length (cbuf s)).
  { repeat split; congruence. }
  destruct G2 as (gl2 & gs2 & gr2 & cr2 & ho2 & len2).
  pose proof (cmd_at_of_cmds i c Hc) as Hc'.
  assert (Hi2 : idle s2) by (apply (Lemmas_C02e.idle_of_u s); assumption).
  assert (Hcmd2 : cmd_of D ATCMD s2 = Some c) by (unfold cmd_of, g_cmd; rewrite A2; exact Hc').
  pose proof Hrt as (Hne & Hokv & Hnd & _ & Hw & Hot & _).
  destruct (args_no_lf m c args Hrt Ha) as (Hnlf & Hq).
  (* 2. the call in CS_COMMAND_FOUND *)
  pose proof (found_write_step s2 (args ++ [ch_LF] ++ rest) Hi2 A1) as H2.
  destruct (Lemmas_C06.C06_entry D s2 c Hcmd2 A3 ltac:(unfold asz; lia)) as (E1 & E2 & E3 & E4 & E5 & E6 & E7 & E8).
  destruct (found_write_pre s2 c Hcmd2 A3) as (K3 & gs3 & _).
  set (s3 := command_found D s2) in *.
  assert (Hi3 : idle s3) by (apply (Lemmas_C02e.idle_of_u s2); [apply K3 | exact Hi2]).
  unfold asz in E5.
  (* 3. the argument bytes *)
  destruct (args_steps c args s3 ([ch_LF] ++ rest) Hi3 E1 E2 E3 ltac:(unfold asz; lia) ltac:(congruence)
              E4 Hnlf Hncr (fun _ => Hq) ltac:(unfold asz; lia)) as (H3 & K5 & gs5).
  pose proof (Lemmas_C06.C06_collect D s3 c args E1 E2 E3 ltac:(unfold asz; lia) ltac:(congruence) E4 Hnlf) as HC.
  rewrite (no_cr_id args Hncr) in HC. specialize (HC (fun _ => Hq)). cbv zeta in HC.
  destruct HC as (F5 & M5 & C5 & HC).
  replace (length args <? asz s3) with true in HC by (symmetry; apply Nat.ltb_lt; unfold asz; lia).
  destruct HC as (S5 & _ & B5 & L5 & _).
  set (s5 := args_feed D s3 args) in *.
  assert (Hi5 : idle s5) by (apply (Lemmas_C02e.idle_of_u s3); [apply K5 | exact Hi3]).
  (* 4. the line feed *)
  destruct (c_vars c) as [|v vs] eqn:Hvs; [congruence|].
  assert (Hrw : v_access v = RW).
  { inversion Hokv as [|? ? (A & _) _]. exact A. }
  pose proof (pca_lf_step s5 rest c v vs Hi5 S5 C5 Hot Hvs Hrw) as H4.
  set (s6 := pwa_entry s5) in *.
  (* 5. the variable parser *)
  unfold Lemmas_C07e.read_args_text in Ha.
  change (fun v : var => match nth_error m (v_slot v) with
                         | Some d => var_text v d | None => None end)
    with (Lemmas_C07e.slot_text m) in Ha.
  rewrite Hvs in Ha.
  destruct (all_some (map (Lemmas_C07e.slot_text m) (v :: vs))) as [txts|] eqn:Hall; [|discriminate].
  injection Ha as <-.
  apply Lemmas_C07e.firstn_app_nul in B5.
  set (tl := skipn (S (length (join_comma txts))) (cbuf s5)) in B5.
  assert (HW : Lemmas_C07e.WInv D c m (mem s6) (cbuf s6) s6 [] (length (@nil N))).
  { unfold Lemmas_C07e.WInv, Lemmas_C07e.vals_ok, Lemmas_C07e.frame_ok.
    split; [exact F5|]. split; [reflexivity|]. split; [exact C5|].
    split; [reflexivity|]. split; [reflexivity|]. split; [reflexivity|]. split; [reflexivity|].
    split; [change (mem s6) with (mem s5); rewrite M5, E7, M2; exact Hsh|].
    split; [intros v' d0 [] | intros sl _; reflexivity]. }
  assert (Hi6 : idle s6) by exact Hi5.
  destruct (wloop_steps c m (mem s6) (cbuf s6) rest Hw ltac:(rewrite Hvs; exact Hnd)
              ltac:(change (cbuf s6) with (cbuf s5); lia)
              vs v [] s6 [] txts tl Hvs Hokv HW Hi6 Hall B5)
    as (s7 & H5 & (D1 & D2 & D3 & D4 & D5 & D6) & (K7 & FL7 & _) & I7).
  destruct (FL7 D2) as (P1 & P2 & P3 & _ & P5). specialize (P5 D3).
  rewrite Hvs in D5, D6.
  destruct K3 as (u3 & gl3 & gr3 & cr3 & ho3). destruct K5 as (u5 & gl5 & gr5 & cr5 & ho5).
  destruct K7 as (u7 & gl7 & gr7 & cr7 & ho7).
  change (u s6) with (u s5) in u7. change (gL s6) with (S (gL s5)) in gl7. change (gR s6) with (gR s5) in gr7.
  change (k_cr (k s6)) with (k_cr (k s5)) in cr7. change (k_hold (k s6)) with (k_hold (k s5)) in ho7.
  change (gS s6) with (gS s5) in P5.
  assert (Hi7 : idle s7) by (apply (Lemmas_C02e.idle_of_u s5); assumption).
  (* 6. OK, reset *)
  destruct (result_tail s7 rest txt_OK Hi7 (conj D2 (conj P1 (conj P2 P3))) D3
              ltac:(congruence) ltac:(congruence) I7 D4)
    as (s8 & O6 & R1 & R2 & R3 & R4 & R5 & R6 & R7 & R8 & R9 & _).
  exists (c1 + (1 + (length (join_comma txts) + (1 + (length (v :: vs) + (7 + length txt_OK)))))), s8.
  split.
  - eapply osteps_cast;
      [exact (osteps_trans _ _ _ _ _ _ _ _ _ _ (osteps_of_steps _ _ _ _ _ H1)
               (osteps_trans _ _ _ _ _ _ _ _ _ _ (osteps_of_steps _ _ _ _ _ H2)
                 (osteps_trans _ _ _ _ _ _ _ _ _ _ (osteps_of_steps _ _ _ _ _ H3)
                   (osteps_trans _ _ _ _ _ _ _ _ _ _ (osteps_of_steps _ _ _ _ _ H4)
                     (osteps_trans _ _ _ _ _ _ _ _ _ _ (osteps_of_steps _ _ _ _ _ H5) O6)))))
      | reflexivity | reflexivity].
  - split; [exact R1|]. split; [congruence|]. split; [congruence|].
    split; [congruence|]. split; [congruence|]. split; [congruence|].
    split; [exact R8|]. split; [exact R9|]. split.
    + intros v' d0 Hin Hn0. rewrite R2. exact (D5 v' d0 Hin Hn0).
    + intros sl Hsl. rewrite R2, (D6 sl Hsl). change (mem s6) with (mem s5).
      rewrite M5, E7, M2. reflexivity.
Qed.

End Lines.

End E2E.

(* ================= the final statements ================= *)
Theorem E2E_read_line_proof : forall D s name rest h i c args,
  d_mutex D = false -> 0 < ncmds D -> ncmds D <= 4 * length (cbuf s) -> 6 <= length (cbuf s) ->
  fault s = false ->
  k_state (k s) = CS_IDLE -> k_cr (k s) = false -> k_implicit (k s) = false -> k_hold (k s) = false ->
  u_state (u s) = US_IDLE -> u_count (u s) = 0 ->
  name_ok name = true -> implicit_hit D s (upper name) = false ->
  resolve (upper name) (enabled D s) (cmds D) = Some i -> nth_error (cmds D) i = Some c ->
  Lemmas_C07e.rt_cmd_ok (mem s) c -> Lemmas_C07e.read_args_text (mem s) c = Some args ->
  length (c_name c ++ [ch_EQ] ++ args) < length (cbuf s) ->
  let w0 := mkw s ([ch_A; ch_T] ++ name ++ [ch_QM; ch_LF] ++ rest) h [] in
  exists calls, let w := nsvc D calls w0 in
    k_state (k (wst w)) = CS_IDLE /\ inq (wio w) = rest /\ whs w = h /\ calls_of (wtr w) = [] /\
    mem (wst w) = mem s /\ fault (wst w) = false /\
    output_of (wtr w) = [ch_LF] ++ c_name c ++ [ch_EQ] ++ args ++ [ch_LF] ++ [ch_LF] ++ txt_OK ++ [ch_LF] /\
    gL (wst w) = S (gL s) /\ gS (wst w) = S (gS s) /\ gR (wst w) = S (gR s).
Proof.
  intros D s name rest h i c args Hmx Hn HL H6 Hf Hst Hcr Himp Hhold Hu1 Hu2 Hok Hh Hres Hc Hrt Ha Hfit w0.
  destruct (read_line_osteps D Hmx s Hn HL H6 Hf Hst Hcr Himp Hhold (conj Hu1 Hu2)
              name rest i c args Hok Hh Hres Hc Hrt Ha Hfit)
    as (calls & s4 & O & (L1 & L2 & L3 & L4 & L5 & L6 & L7 & _)).
  exists calls. intros w.
  destruct (osteps_world D calls s _ s4 rest _ h O) as (E1 & E2 & E3 & E4 & E5).
  fold w0 in E1, E2, E3, E4, E5. fold w in E1, E2, E3, E4, E5. rewrite E1.
  repeat (split; [assumption|]). assumption.
Qed.

Theorem E2E_unknown_line_proof : forall D s name rest h,
  d_mutex D = false -> 0 < ncmds D -> ncmds D <= 4 * length (cbuf s) -> 6 <= length (cbuf s) ->
  fault s = false ->
  k_state (k s) = CS_IDLE -> k_cr (k s) = false -> k_implicit (k s) = false -> k_hold (k s) = false ->
  u_state (u s) = US_IDLE -> u_count (u s) = 0 ->
  name_ok name = true -> implicit_hit D s (upper name) = false ->
  resolve (upper name) (enabled D s) (cmds D) = None ->
  let w0 := mkw s ([ch_A; ch_T] ++ name ++ [ch_LF] ++ rest) h [] in
  exists calls, let w := nsvc D calls w0 in
    k_state (k (wst w)) = CS_IDLE /\ inq (wio w) = rest /\ whs w = h /\ calls_of (wtr w) = [] /\
    mem (wst w) = mem s /\ fault (wst w) = false /\
    output_of (wtr w) = [ch_LF] ++ txt_ERROR ++ [ch_LF] /\
    gL (wst w) = S (gL s) /\ gS (wst w) = S (gS s) /\ gR (wst w) = S (gR s).
Proof.
  intros D s name rest h Hmx Hn HL H6 Hf Hst Hcr Himp Hhold Hu1 Hu2 Hok Hh Hres w0.
  destruct (unknown_line_osteps D Hmx s Hn HL H6 Hf Hst Hcr Himp Hhold (conj Hu1 Hu2)
              name rest Hok Hh Hres)
    as (calls & s4 & O & (L1 & L2 & L3 & L4 & L5 & L6 & L7 & _)).
  exists calls. intros w.
  destruct (osteps_world D calls s _ s4 rest _ h O) as (E1 & E2 & E3 & E4 & E5).
  fold w0 in E1, E2, E3, E4, E5. fold w in E1, E2, E3, E4, E5. rewrite E1.
  repeat (split; [assumption|]). assumption.
Qed.

Theorem E2E_unknown_read_line_proof : forall D s name rest h,
  d_mutex D = false -> 0 < ncmds D -> ncmds D <= 4 * length (cbuf s) -> 6 <= length (cbuf s) ->
  fault s = false ->
  k_state (k s) = CS_IDLE -> k_cr (k s) = false -> k_implicit (k s) = false -> k_hold (k s) = false ->
  u_state (u s) = US_IDLE -> u_count (u s) = 0 ->
  name_ok name = true -> implicit_hit D s (upper name) = false ->
  resolve (upper name) (enabled D s) (cmds D) = None ->
  let w0 := mkw s ([ch_A; ch_T] ++ name ++ [ch_QM; ch_LF] ++ rest) h [] in
  exists calls, let w := nsvc D calls w0 in
    k_state (k (wst w)) = CS_IDLE /\ inq (wio w) = rest /\ whs w = h /\ calls_of (wtr w) = [] /\
    mem (wst w) = mem s /\ fault (wst w) = false /\
    output_of (wtr w) = [ch_LF] ++ txt_ERROR ++ [ch_LF] /\
    gL (wst w) = S (gL s) /\ gS (wst w) = S (gS s) /\ gR (wst w) = S (gR s).
Proof.
  intros D s name rest h Hmx Hn HL H6 Hf Hst Hcr Himp Hhold Hu1 Hu2 Hok Hh Hres w0.
  destruct (unknown_read_line_osteps D Hmx s Hn HL H6 Hf Hst Hcr Himp Hhold (conj Hu1 Hu2)
              name rest Hok Hh Hres)
    as (calls & s4 & O & (L1 & L2 & L3 & L4 & L5 & L6 & L7 & _)).
  exists calls. intros w.
  destruct (osteps_world D calls s _ s4 rest _ h O) as (E1 & E2 & E3 & E4 & E5).
  fold w0 in E1, E2, E3, E4, E5. fold w in E1, E2, E3, E4, E5. rewrite E1.
  repeat (split; [assumption|]). assumption.
Qed.

Theorem E2E_write_line_proof : forall D s name rest h i c m args,
  d_mutex D = false -> 0 < ncmds D -> ncmds D <= 4 * length (cbuf s) -> 6 <= length (cbuf s) ->
  fault s = false ->
  k_state (k s) = CS_IDLE -> k_cr (k s) = false -> k_implicit (k s) = false -> k_hold (k s) = false ->
  u_state (u s) = US_IDLE -> u_count (u s) = 0 ->
  name_ok name = true -> implicit_hit D s (upper name) = false ->
  resolve (upper name) (enabled D s) (cmds D) = Some i -> nth_error (cmds D) i = Some c ->
  Lemmas_C07e.rt_cmd_ok m c -> Lemmas_C07e.read_args_text m c = Some args ->
  Lemmas_C07e.same_shape m (mem s) -> ~ In ch_CR args -> length args < length (cbuf s) ->
  let w0 := mkw s ([ch_A; ch_T] ++ name ++ [ch_EQ] ++ args ++ [ch_LF] ++ rest) h [] in
  exists calls, let w := nsvc D calls w0 in
    k_state (k (wst w)) = CS_IDLE /\ inq (wio w) = rest /\ whs w = h /\ calls_of (wtr w) = [] /\
    fault (wst w) = false /\
    output_of (wtr w) = [ch_LF] ++ txt_OK ++ [ch_LF] /\
    (forall v d0, In v (c_vars c) -> nth_error m (v_slot v) = Some d0 ->
       exists d1, nth_error (mem (wst w)) (v_slot v) = Some d1 /\ Lemmas_C07.same_value v d1 d0) /\
    (forall sl, ~ In sl (map v_slot (c_vars c)) -> nth_error (mem (wst w)) sl = nth_error (mem s) sl) /\
    gL (wst w) = S (gL s) /\ gS (wst w) = S (gS s) /\ gR (wst w) = S (gR s).
Proof.
  intros D s name rest h i c m args Hmx Hn HL H6 Hf Hst Hcr Himp Hhold Hu1 Hu2 Hok Hh Hres Hc Hrt Ha
         Hsh Hncr Hfit w0.
  destruct (write_line_osteps D Hmx s Hn HL H6 Hf Hst Hcr Himp Hhold (conj Hu1 Hu2)
              name rest i c m args Hok Hh Hres Hc Hrt Ha Hsh Hncr Hfit)
    as (calls & s4 & O & L1 & L2 & _ & L4 & L5 & L6 & _ & _ & L9 & L10).
  exists calls. intros w.
  destruct (osteps_world D calls s _ s4 rest _ h O) as (E1 & E2 & E3 & E4 & E5).
  fold w0 in E1, E2, E3, E4, E5. fold w in E1, E2, E3, E4, E5. rewrite E1.
  repeat (split; [assumption|]). assumption.
Qed.

Print Assumptions E2E_read_line_proof.
Print Assumptions E2E_unknown_line_proof.
Print Assumptions E2E_unknown_read_line_proof.
Print Assumptions E2E_write_line_proof.

(* ================= a concrete instance (used by the examples of Properties_E2E.v) ================= *)
Module E2E_examples.
Definition v1 := mkVar None VInt 2 RW false false 0.
Definition v2 := mkVar None VBufStr 6 RW false false 1.
Definition v3 := mkVar None VBufHex 2 RW false false 2.
Definition v4 := mkVar None VUint 1 RW false false 3.
(* "+X" : int16, string[6], hexbuf[2], uint8, no handlers;  "+XY" : a run handler only *)
Definition c0 := mkCmd [43; 88]%N None false false false false [v1; v2; v3; v4] false false false.
Definition c1 := mkCmd [43; 88; 89]%N None false false true false [] false false false.
Definition D0 := mkDesc [[c0; c1]] [] 40 (Some 8) 85%N 2 false.
(* -2 ; the string A , dquote NUL 7 7 ; 0A FF ; 200 ; a fifth slot that no variable uses *)
Definition m0 : list (list N) := [[254; 255]; [65; 44; 34; 0; 7; 7]; [10; 255]; [200]; [9]]%N.
Definition m1 : list (list N) := [[1; 1]; [1; 1; 1; 1; 1; 1]; [1; 1]; [1]; [5]]%N.
Definition s0 := init_state D0 m0.
Definition s1 := init_state D0 m1.
(* the text  -2 , dquote A , backslash dquote dquote , 0AFF , 200 *)
Definition args0 : list N :=
  [45; 50; 44; 34; 65; 44; 92; 34; 34; 44; 48; 65; 70; 70; 44; 50; 48; 48]%N.

Definition hyps_ok (D : desc) (s : state) : bool :=
  negb (d_mutex D) && (0 <? ncmds D) && (ncmds D <=? 4 * length (cbuf s)) && (6 <=? length (cbuf s)) &&
  negb (fault s) && cstate_beq (k_state (k s)) CS_IDLE && negb (k_cr (k s)) && negb (k_implicit (k s)) &&
  negb (k_hold (k s)) && ustate_beq (u_state (u s)) US_IDLE && (u_count (u s) =? 0).

Definition obs (w : sworld) :=
  (k_state (k (wst w)), inq (wio w), whs w, calls_of (wtr w), output_of (wtr w), mem (wst w), fault (wst w),
   (gL (wst w), gS (wst w), gR (wst w))).
Definition go (s : state) (line : list N) (calls : nat) := obs (nsvc D0 calls (mkw s line [] [])).

Lemma ex_rt : Lemmas_C07e.rt_cmd_ok m0 c0.
Proof.
  unfold Lemmas_C07e.rt_cmd_ok. split; [discriminate|]. split.
  - repeat constructor; try discriminate;
      eexists; (split; [reflexivity|]); (split; [reflexivity|]);
      (split; [repeat constructor|]); repeat split; try discriminate; try reflexivity;
      cbn; auto 10.
  - split; [cbn; repeat constructor; cbn; intuition discriminate|].
    repeat split; try reflexivity. cbn. intuition discriminate.
Qed.

Lemma ex_no_cr : ~ In ch_CR args0.
Proof. unfold args0. cbn [In]. intros H. repeat (destruct H as [H|H]; [discriminate H|]). exact H. Qed.
End E2E_examples.
