(* Lemmas_C06.v — property C06: handlers see exactly the arguments that were sent.
   The argument-collecting state CS_PARSE_COMMAND_ARGS, its dispatch, the error drain and the
   argument lists of the write/read/test handler calls.  Final statements: Properties_C06.v *)
From Coq Require Import List NArith ZArith Bool Arith Lia.
From CatV Require Import Bytes Defs Codec Spec Fsm ResolveDefs CollectDefs.
Import ListNotations.
Local Open Scope nat_scope.

(* ---------- list lemmas about upd / firstn ---------- *)

Lemma upd_length : forall A (l : list A) i v, length (upd l i v) = length l.
Proof. induction l; destruct i; simpl; intros; auto. Qed.

Lemma firstn_upd_le : forall A (l : list A) n i v, n <= i -> firstn n (upd l i v) = firstn n l.
Proof.
  induction l; intros n i v H; destruct i; destruct n; simpl; auto; try lia.
  f_equal. apply IHl. lia.
Qed.

Lemma firstn_snoc_upd : forall A (l : list A) n v,
  n < length l -> firstn (S n) (upd l n v) = firstn n l ++ [v].
Proof.
  induction l; intros n v H; simpl in H; [lia|].
  destruct n; [reflexivity|].
  change (a :: firstn (S n) (upd l n v) = a :: (firstn n l ++ [v])).
  f_equal. apply IHl. lia.
Qed.

Lemma firstn_prefix : forall A (l a : list A) z n,
  firstn (S n) l = a ++ [z] -> length a = n -> firstn n l = a.
Proof.
  intros A l a z n H L.
  assert (E : firstn n l = firstn n (firstn (S n) l)).
  { rewrite firstn_firstn. f_equal. lia. }
  rewrite E, H, firstn_app, <- L, Nat.sub_diag, firstn_all. simpl. apply app_nil_r.
Qed.

Lemma firstn_one_nth : forall A (l : list A) z, nth_error l 0 = Some z -> firstn 1 l = [z].
Proof. intros A l z H. destruct l; simpl in *; inversion H; reflexivity. Qed.

(* the two stores of parse_command_args: text byte at len, NUL at len+1 *)
Lemma collect_store : forall (l a : list N) ch,
  firstn (S (length a)) l = a ++ [0%N] -> S (length a) < length l ->
  firstn (S (length (a ++ [ch]))) (upd (upd l (length a) ch) (S (length a)) 0%N) = (a ++ [ch]) ++ [0%N].
Proof.
  intros l a ch H L.
  rewrite app_length, Nat.add_1_r.
  rewrite firstn_snoc_upd by (rewrite upd_length; lia).
  rewrite firstn_snoc_upd by lia.
  rewrite (firstn_prefix _ l a 0%N (length a) H eq_refl). reflexivity.
Qed.

Lemma no_cr_app : forall a b, no_cr (a ++ b) = no_cr a ++ no_cr b.
Proof. intros. unfold no_cr. apply filter_app. Qed.

Section C06.
Variable D : desc.

Local Notation pca_body := (CollectDefs.pca_body D).
Local Notation args_byte := (CollectDefs.args_byte D).
Local Notation args_feed := (CollectDefs.args_feed D).
Local Notation cmd_of := (Fsm.cmd_of D).

(* ---------- one byte ---------- *)

Lemma pca_cr : forall s c, cmd_of ATCMD s = Some c -> pca_body ch_CR s = setk_cr true s.
Proof. intros s c H. unfold CollectDefs.pca_body. rewrite H. reflexivity. Qed.

Lemma shortcut_assoc : forall a b c d : bool, a && b && c && d = a && b && (c && d).
Proof. intros. destruct a, b, c, d; reflexivity. Qed.

Lemma pca_qm : forall s c, cmd_of ATCMD s = Some c -> k_length (k s) = 0 -> test_shortcut c = true ->
  pca_body ch_QM s = (s |> setk_type T_TEST |> setk_state CS_WAIT_TEST_ACK).
Proof.
  intros s c H L T. unfold CollectDefs.pca_body. rewrite H, L.
  change (ch_QM =? ch_LF)%N with false. change (ch_QM =? ch_CR)%N with false.
  cbv iota. rewrite shortcut_assoc. fold (test_shortcut c). rewrite T. reflexivity.
Qed.

Lemma pca_store : forall s c ch, cmd_of ATCMD s = Some c ->
  ch <> ch_LF -> ch <> ch_CR ->
  (k_length (k s) = 0 -> test_shortcut c = true -> ch <> ch_QM) ->
  k_length (k s) < asz s ->
  pca_body ch s =
    let len := k_length (k s) in
    let s1 := s |> set_cbuf (upd (cbuf s) len ch) |> setk_length (S len) in
    if S len <? asz s1 then set_cbuf (upd (cbuf s1) (S len) 0%N) s1 else setk_state CS_ERROR s1.
Proof.
  intros s c ch H NLF NCR NQ L. unfold CollectDefs.pca_body. rewrite H.
  destruct (N.eqb_spec ch ch_LF) as [E|_]; [contradiction|].
  destruct (N.eqb_spec ch ch_CR) as [E|_]; [contradiction|].
  rewrite shortcut_assoc. fold (test_shortcut c).
  assert (T : (k_length (k s) =? 0) && (ch =? ch_QM)%N && test_shortcut c = false).
  { destruct (Nat.eqb_spec (k_length (k s)) 0) as [E0|]; [|reflexivity].
    destruct (N.eqb_spec ch ch_QM) as [EQ|]; [|reflexivity].
    destruct (test_shortcut c) eqn:ET; [|reflexivity].
    exfalso. exact (NQ E0 eq_refl EQ). }
  rewrite T.
  destruct (Nat.leb_spec (asz s) (k_length (k s))) as [E|_]; [lia|]. reflexivity.
Qed.

(* outside CS_PARSE_COMMAND_ARGS nothing happens *)
Lemma args_feed_other : forall bs s, k_state (k s) <> CS_PARSE_COMMAND_ARGS -> args_feed s bs = s.
Proof.
  induction bs; intros s H; [reflexivity|].
  unfold CollectDefs.args_feed. simpl. unfold CollectDefs.args_byte at 2.
  destruct (cstate_beq (k_state (k s)) CS_PARSE_COMMAND_ARGS) eqn:E.
  - apply internal_cstate_dec_bl in E. contradiction.
  - apply IHbs. exact H.
Qed.

Lemma args_byte_in : forall s ch, k_state (k s) = CS_PARSE_COMMAND_ARGS ->
  args_byte s ch = pca_body ch (setk_char ch s).
Proof. intros s ch H. unfold CollectDefs.args_byte. rewrite H. reflexivity. Qed.

(* ---------- collection, generalised over the text a0 collected so far ---------- *)

Lemma collect_gen : forall c bs s a0,
  k_state (k s) = CS_PARSE_COMMAND_ARGS -> cmd_of ATCMD s = Some c ->
  k_length (k s) = length a0 -> firstn (S (length a0)) (cbuf s) = a0 ++ [0%N] ->
  length a0 < asz s -> fault s = false ->
  ~ In ch_LF bs ->
  (test_shortcut c = true -> match a0 ++ no_cr bs with q :: _ => q <> ch_QM | [] => True end) ->
  let a := a0 ++ no_cr bs in
  let s' := args_feed s bs in
  fault s' = false /\ mem s' = mem s /\ cmd_of ATCMD s' = Some c /\
  if length a <? asz s
  then k_state (k s') = CS_PARSE_COMMAND_ARGS /\ k_length (k s') = length a /\
       firstn (S (length a)) (cbuf s') = a ++ [0%N] /\ length (cbuf s') = length (cbuf s) /\
       k_cr (k s') = (k_cr (k s) || existsb (fun ch => (ch =? ch_CR)%N) bs)
  else k_state (k s') = CS_ERROR.
Proof.
  intros c. induction bs as [|ch bs IH]; intros s a0 HS HC HL HB HA HF NLF HQ; cbv zeta.
  - change (no_cr []) with (@nil N). rewrite app_nil_r.
    change (args_feed s []) with s.
    repeat split; auto.
    destruct (Nat.ltb_spec (length a0) (asz s)) as [_|E]; [|lia].
    simpl. rewrite orb_false_r. repeat split; auto.
  - assert (NLF' : ~ In ch_LF bs) by (intro X; apply NLF; right; exact X).
    assert (NE : ch <> ch_LF) by (intro X; apply NLF; left; exact X).
    change (args_feed s (ch :: bs)) with (args_feed (args_byte s ch) bs).
    rewrite (args_byte_in s ch HS).
    destruct (N.eqb_spec ch ch_CR) as [ECR|NCR].
    + (* CR: dropped, remembered in k_cr *)
      subst ch. rewrite (pca_cr (setk_char ch_CR s) c HC).
      change (no_cr (ch_CR :: bs)) with (no_cr bs).
      change (no_cr (ch_CR :: bs)) with (no_cr bs) in HQ.
      specialize (IH (setk_cr true (setk_char ch_CR s)) a0 HS HC HL HB HA HF NLF' HQ).
      cbv zeta in IH.
      change (asz (setk_cr true (setk_char ch_CR s))) with (asz s) in IH.
      destruct IH as (I1 & I2 & I3 & I4).
      repeat split; auto.
      destruct (length (a0 ++ no_cr bs) <? asz s); [|exact I4].
      destruct I4 as (J1 & J2 & J3 & J4 & J5).
      repeat split; auto.
      rewrite J5. simpl. rewrite orb_true_r. reflexivity.
    + (* a text byte *)
      assert (EN : no_cr (ch :: bs) = ch :: no_cr bs).
      { unfold no_cr. simpl. destruct (N.eqb_spec ch ch_CR); [contradiction|reflexivity]. }
      rewrite EN in *.
      assert (EA : a0 ++ ch :: no_cr bs = (a0 ++ [ch]) ++ no_cr bs) by (rewrite <- app_assoc; reflexivity).
      assert (NQ : k_length (k (setk_char ch s)) = 0 -> test_shortcut c = true -> ch <> ch_QM).
      { intros L0 T. change (k_length (k (setk_char ch s))) with (k_length (k s)) in L0.
        rewrite HL in L0. destruct a0; [|discriminate]. exact (HQ T). }
      assert (HA' : k_length (k (setk_char ch s)) < asz (setk_char ch s)).
      { change (k_length (k s) < asz s). rewrite HL. exact HA. }
      rewrite (pca_store (setk_char ch s) c ch HC NE NCR NQ HA').
      cbv zeta.
      change (k_length (k (setk_char ch s))) with (k_length (k s)).
      change (cbuf (setk_char ch s)) with (cbuf s).
      rewrite HL.
      set (s1 := setk_char ch s |> set_cbuf (upd (cbuf s) (length a0) ch) |> setk_length (S (length a0))).
      assert (Z1 : asz s1 = asz s) by (unfold asz; apply upd_length).
      rewrite Z1.
      destruct (Nat.ltb_spec (S (length a0)) (asz s)) as [LT|GE].
      * (* still room for the NUL *)
        set (s2 := set_cbuf (upd (cbuf s1) (S (length a0)) 0%N) s1).
        assert (Z2 : asz s2 = asz s).
        { unfold asz. change (cbuf s2) with (upd (upd (cbuf s) (length a0) ch) (S (length a0)) 0%N).
          rewrite !upd_length. reflexivity. }
        assert (L2 : k_length (k s2) = length (a0 ++ [ch])).
        { rewrite app_length, Nat.add_1_r. reflexivity. }
        assert (B2 : firstn (S (length (a0 ++ [ch]))) (cbuf s2) = (a0 ++ [ch]) ++ [0%N]).
        { change (cbuf s2) with (upd (upd (cbuf s) (length a0) ch) (S (length a0)) 0%N).
          apply collect_store; [exact HB | exact LT]. }
        assert (A2 : length (a0 ++ [ch]) < asz s2).
        { rewrite Z2, app_length, Nat.add_1_r. exact LT. }
        assert (Q2 : test_shortcut c = true ->
                     match (a0 ++ [ch]) ++ no_cr bs with q :: _ => q <> ch_QM | [] => True end).
        { rewrite <- EA. exact HQ. }
        specialize (IH s2 (a0 ++ [ch]) HS HC L2 B2 A2 HF NLF' Q2). cbv zeta in IH.
        rewrite Z2 in IH. rewrite EA.
        destruct IH as (I1 & I2 & I3 & I4).
        repeat split; auto.
        destruct (length ((a0 ++ [ch]) ++ no_cr bs) <? asz s); [|exact I4].
        destruct I4 as (J1 & J2 & J3 & J4 & J5).
        repeat split; auto.
        -- rewrite J4. change (cbuf s2) with (upd (upd (cbuf s) (length a0) ch) (S (length a0)) 0%N).
           rewrite !upd_length. reflexivity.
        -- rewrite J5. simpl. destruct (N.eqb_spec ch ch_CR); [contradiction|reflexivity].
      * (* the text no longer fits: rejected *)
        rewrite args_feed_other by (simpl; discriminate).
        repeat split; auto.
        destruct (Nat.ltb_spec (length (a0 ++ ch :: no_cr bs)) (asz s)) as [X|_]; [|reflexivity].
        rewrite app_length in X. simpl in X. lia.
Qed.

(* 1 *)
Theorem C06_collect : forall s c bs,
  k_state (k s) = CS_PARSE_COMMAND_ARGS -> cmd_of ATCMD s = Some c ->
  k_length (k s) = 0 -> 0 < asz s -> fault s = false ->
  nth_error (cbuf s) 0 = Some 0%N ->
  ~ In ch_LF bs ->
  (test_shortcut c = true -> match no_cr bs with q :: _ => q <> ch_QM | [] => True end) ->
  let a := no_cr bs in
  let s' := args_feed s bs in
  fault s' = false /\ mem s' = mem s /\ cmd_of ATCMD s' = Some c /\
  if length a <? asz s
  then k_state (k s') = CS_PARSE_COMMAND_ARGS /\ k_length (k s') = length a /\
       firstn (S (length a)) (cbuf s') = a ++ [0%N] /\ length (cbuf s') = length (cbuf s) /\
       k_cr (k s') = (k_cr (k s) || existsb (fun ch => (ch =? ch_CR)%N) bs)
  else k_state (k s') = CS_ERROR.
Proof.
  intros s c bs HS HC HL HA HF H0 NLF HQ.
  exact (collect_gen c bs s [] HS HC HL (firstn_one_nth _ _ _ H0) HA HF NLF HQ).
Qed.

(* 2 *)
Lemma feed_crs : forall c bs s,
  k_state (k s) = CS_PARSE_COMMAND_ARGS -> cmd_of ATCMD s = Some c ->
  Forall (fun ch => ch = ch_CR) bs ->
  let s' := args_feed s bs in
  k_state (k s') = CS_PARSE_COMMAND_ARGS /\ cmd_of ATCMD s' = Some c /\
  k_length (k s') = k_length (k s) /\ k_type (k s') = k_type (k s) /\
  cbuf s' = cbuf s /\ mem s' = mem s.
Proof.
  intros c. induction bs as [|ch bs IH]; intros s HS HC HF; cbv zeta.
  - change (args_feed s []) with s. repeat split; auto.
  - inversion HF as [|x l E1 E2]; subst.
    change (args_feed s (ch_CR :: bs)) with (args_feed (args_byte s ch_CR) bs).
    rewrite (args_byte_in s ch_CR HS), (pca_cr (setk_char ch_CR s) c HC).
    exact (IH (setk_cr true (setk_char ch_CR s)) HS HC E2).
Qed.

Lemma args_feed_app : forall s a b, args_feed s (a ++ b) = args_feed (args_feed s a) b.
Proof. intros. unfold CollectDefs.args_feed. apply fold_left_app. Qed.

Theorem C06_test_shortcut : forall s c bs,
  k_state (k s) = CS_PARSE_COMMAND_ARGS -> cmd_of ATCMD s = Some c -> k_length (k s) = 0 ->
  test_shortcut c = true -> Forall (fun ch => ch = ch_CR) bs ->
  let s' := args_feed s (bs ++ [ch_QM]) in
  k_state (k s') = CS_WAIT_TEST_ACK /\ k_type (k s') = T_TEST /\ cbuf s' = cbuf s /\ mem s' = mem s.
Proof.
  intros s c bs HS HC HL HT HF. cbv zeta.
  destruct (feed_crs c bs s HS HC HF) as (A1 & A2 & A3 & A4 & A5 & A6).
  rewrite args_feed_app.
  set (t := args_feed s bs) in *.
  change (args_feed t [ch_QM]) with (args_byte t ch_QM).
  rewrite (args_byte_in t ch_QM A1).
  assert (L : k_length (k (setk_char ch_QM t)) = 0) by (rewrite <- HL; exact A3).
  rewrite (pca_qm (setk_char ch_QM t) c A2 L HT).
  repeat split; auto.
Qed.

(* 4 *)
Theorem C06_dispatch_no_vars : forall s c,
  k_state (k s) = CS_PARSE_COMMAND_ARGS -> cmd_of ATCMD s = Some c ->
  c_only_test c = false -> vars_access_possible c WO = false -> c_hwrite c = true ->
  let s' := pca_body ch_LF (setk_char ch_LF s) in
  k_state (k s') = CS_WRITE_LOOP /\ cbuf s' = cbuf s /\ k_length (k s') = k_length (k s) /\
  k_index (k s') = 0 /\ mem s' = mem s.
Proof.
  intros s c HS HC H1 H2 H3. cbv zeta. unfold CollectDefs.pca_body.
  change (cmd_of ATCMD (setk_char ch_LF s)) with (cmd_of ATCMD s).
  rewrite HC, H1, H2, H3. repeat split.
Qed.

(* the other outcomes of the dispatch, for completeness: nothing is called, nothing stored *)
Lemma C06_dispatch_reject : forall s c,
  cmd_of ATCMD s = Some c ->
  c_only_test c = true \/ (vars_access_possible c WO = false /\ c_hwrite c = false) ->
  pca_body ch_LF (setk_char ch_LF s) = ack_error (setk_char ch_LF s).
Proof.
  intros s c HC H. unfold CollectDefs.pca_body.
  change (cmd_of ATCMD (setk_char ch_LF s)) with (cmd_of ATCMD s). rewrite HC.
  change (ch_LF =? ch_LF)%N with true. cbv iota.
  destruct H as [H|[H1 H2]].
  - rewrite H. reflexivity.
  - rewrite H1, H2. destruct (c_only_test c); reflexivity.
Qed.

(* entry: command_found establishes the preconditions of C06_collect *)
Theorem C06_entry : forall s c,
  cmd_of ATCMD s = Some c -> k_type (k s) = T_WRITE -> 0 < asz s ->
  let s' := command_found D s in
  k_state (k s') = CS_PARSE_COMMAND_ARGS /\ cmd_of ATCMD s' = Some c /\ k_length (k s') = 0 /\
  nth_error (cbuf s') 0 = Some 0%N /\ asz s' = asz s /\ fault s' = fault s /\ mem s' = mem s /\
  k_cr (k s') = k_cr (k s).
Proof.
  intros s c HC HT HA. cbv zeta. unfold command_found. rewrite HC, HT.
  change (cbuf (setk_length 0 s)) with (cbuf s).
  unfold asz in *. destruct (cbuf s) as [|x r] eqn:E; [simpl in HA; lia|].
  repeat split; auto.
Qed.

(* ================= world-level statements ================= *)

Variables ioS muS hS : Type.
Variable io_read : ioS -> ioS * option N.
Variable io_write : ioS -> N -> ioS * bool.
Variable mu_lock : muS -> muS * bool.
Variable mu_unlock : muS -> muS * bool.
Variable h_call : hS -> hreq -> hS * hres.

Local Notation world := (Fsm.world ioS muS hS).
Local Notation st := (Fsm.st ioS muS hS).
Local Notation io := (Fsm.io ioS muS hS).
Local Notation mu := (Fsm.mu ioS muS hS).
Local Notation hs := (Fsm.hs ioS muS hS).
Local Notation tr := (Fsm.tr ioS muS hS).
Local Notation set_st := (Fsm.set_st ioS muS hS).
Local Notation set_mu := (Fsm.set_mu ioS muS hS).
Local Notation set_hs := (Fsm.set_hs ioS muS hS).
Local Notation logw := (Fsm.logw ioS muS hS).
Local Notation upd_st := (Fsm.upd_st ioS muS hS).
Local Notation busy := (Fsm.busy ioS muS hS).
Local Notation bracket := (Fsm.bracket D ioS muS hS mu_lock mu_unlock).
Local Notation api_trigger := (Fsm.api_trigger D ioS muS hS mu_lock mu_unlock).
Local Notation api_hold_exit := (Fsm.api_hold_exit D ioS muS hS mu_lock mu_unlock).
Local Notation apply_icall := (Fsm.apply_icall D ioS muS hS mu_lock mu_unlock).
Local Notation call_h := (Fsm.call_h D ioS muS hS mu_lock mu_unlock h_call).
Local Notation read_cmd_char := (Fsm.read_cmd_char ioS muS hS io_read).
Local Notation reading := (Fsm.reading ioS muS hS io_read).
Local Notation error_state := (Fsm.error_state ioS muS hS io_read).
Local Notation parse_command_args := (Fsm.parse_command_args D ioS muS hS io_read).
Local Notation process_write_loop := (Fsm.process_write_loop D ioS muS hS mu_lock mu_unlock h_call).
Local Notation process_rt_loop := (Fsm.process_rt_loop D ioS muS hS mu_lock mu_unlock h_call).

(* 0 *)
Theorem C06_pca_body_is_model : forall w : world, parse_command_args w = reading w pca_body.
Proof. reflexivity. Qed.

Definition nocall (l : list event) : bool :=
  forallb (fun e => match e with ECall _ _ => false | _ => true end) l.

Lemma nocall_app : forall a b, nocall a = true -> nocall b = true -> nocall (a ++ b) = true.
Proof. intros a b Ha Hb. unfold nocall in *. rewrite forallb_app, Ha, Hb. reflexivity. Qed.

Lemma bracket_tr : forall (body : world -> world * Z) (w : world),
  (forall w0, tr (fst (body w0)) = tr w0) ->
  exists rest, tr (fst (bracket w body)) = rest ++ tr w /\ nocall rest = true.
Proof.
  intros body w HB. unfold Fsm.bracket.
  destruct (d_mutex D).
  - destruct (mu_lock (mu w)) as [m1 ok]. destruct ok; cbn [negb].
    + pose proof (HB (logw (ELock true) (set_mu m1 w))) as E.
      destruct (body (logw (ELock true) (set_mu m1 w))) as [w2 r]. cbn [fst] in E.
      destruct (mu_unlock (mu w2)) as [m2 ok2].
      exists [EUnlock ok2; ELock true]. split; [|reflexivity].
      destruct ok2; cbn [negb fst]; unfold Fsm.logw; cbn [Fsm.tr]; change (Fsm.tr ioS muS hS (set_mu m2 w2)) with (tr w2);
        rewrite E; reflexivity.
    + exists [ELock false]. split; reflexivity.
  - exists []. split; [|reflexivity]. apply HB.
Qed.

Lemma apply_icall_tr : forall (c : icall) (w : world),
  exists rest, tr (apply_icall w c) = rest ++ tr w /\ nocall rest = true.
Proof.
  intros c w. unfold Fsm.apply_icall.
  destruct c as [ci t | status].
  - unfold Fsm.api_trigger.
    destruct (bracket_tr (fun w0 => let (s', r) := push_unsolicited_cmd D (st w0) ci t in (set_st s' w0, r)) w)
      as (rest & E & N).
    { intros w0. destruct (push_unsolicited_cmd D (st w0) ci t). reflexivity. }
    destruct (bracket w _) as [w' r]. cbn [fst] in E.
    exists (EInner (ITrigger ci t) r :: rest). split; [|exact N].
    unfold Fsm.logw. cbn [Fsm.tr]. rewrite E. reflexivity.
  - unfold Fsm.api_hold_exit.
    destruct (bracket_tr (fun w0 => let (s', r) := hold_exit (st w0) status in (set_st s' w0, r)) w)
      as (rest & E & N).
    { intros w0. destruct (hold_exit (st w0) status). reflexivity. }
    destruct (bracket w _) as [w' r]. cbn [fst] in E.
    exists (EInner (IHoldExit status) r :: rest). split; [|exact N].
    unfold Fsm.logw. cbn [Fsm.tr]. rewrite E. reflexivity.
Qed.

Lemma apply_icalls_tr : forall (cs : list icall) (w : world),
  exists rest, tr (fold_left apply_icall cs w) = rest ++ tr w /\ nocall rest = true.
Proof.
  induction cs as [|c cs IH]; intros w.
  - exists []. split; reflexivity.
  - cbn [fold_left].
    destruct (apply_icall_tr c w) as (r1 & E1 & N1).
    destruct (IH (apply_icall w c)) as (r2 & E2 & N2).
    exists (r2 ++ r1). split; [|apply nocall_app; assumption].
    rewrite E2, E1, app_assoc. reflexivity.
Qed.

(* one callback: exactly one ECall, with the request as given *)
Lemma call_h_tr : forall (w : world) q,
  exists code rest, tr (fst (call_h w q)) = rest ++ ECall q code :: tr w /\ nocall rest = true.
Proof.
  intros w q. unfold Fsm.call_h.
  destruct (h_call (hs w) q) as [hs' r].
  match goal with |- context [fold_left _ (r_calls r) ?w2] =>
    destruct (apply_icalls_tr (r_calls r) w2) as (rest & E & N) end.
  exists (r_code r), rest. split; [|exact N]. cbn [fst]. rewrite E. reflexivity.
Qed.

(* 3 *)
Theorem C06_write_handler_args : forall (w : world) ci a,
  k_state (k (st w)) = CS_WRITE_LOOP -> k_cmd (k (st w)) = Some ci ->
  k_length (k (st w)) = length a -> firstn (S (length a)) (cbuf (st w)) = a ++ [0%N] ->
  exists code rest,
    tr (fst (process_write_loop w)) =
      rest ++ ECall (HWrite ci (a ++ [0%N]) (length a) (k_index (k (st w)))) code :: tr w
    /\ forallb (fun e => match e with ECall _ _ => false | _ => true end) rest = true.
Proof.
  intros w ci a _ HC HL HB. unfold Fsm.process_write_loop.
  change (g_cmd ATCMD (st w)) with (k_cmd (k (st w))). rewrite HC, HL, HB.
  destruct (call_h_tr w (HWrite ci (a ++ [0%N]) (length a) (k_index (k (st w))))) as (code & rest & E & N).
  destruct (call_h w _) as [w1 r]. cbn [fst] in E.
  exists code, rest. split; [exact E | exact N].
Qed.

(* 6 *)
Theorem C06_rt_handler_args : forall rd f (w : world) ci,
  g_cmd f (st w) = Some ci ->
  exists code rest,
    tr (fst (process_rt_loop rd f w)) =
      rest ++ ECall ((if rd then HRead else HTest) f ci (firstn (S (g_pos f (st w))) (g_buf f (st w)))
                      (g_pos f (st w)) (length (g_buf f (st w)))) code :: tr w
    /\ forallb (fun e => match e with ECall _ _ => false | _ => true end) rest = true.
Proof.
  intros rd f w ci HC. unfold Fsm.process_rt_loop. rewrite HC.
  unfold g_bsz.
  match goal with |- context [call_h w ?q] =>
    destruct (call_h_tr w q) as (code & rest & E & N); destruct (call_h w q) as [w1 r] end.
  cbn [fst] in E.
  exists code, rest. split; [|exact N].
  cbn [fst Fsm.busy]. change (tr (upd_st _ w1)) with (tr w1). rewrite E.
  destruct rd; reflexivity.
Qed.

(* 5 *)
Lemma reading_cases : forall (w : world) body,
  hs (fst (reading w body)) = hs w /\
  (st (fst (reading w body)) = st w \/
   exists s2, st (fst (reading w body)) = body (k_char (k s2)) s2 /\
              mem s2 = mem (st w) /\ cbuf s2 = cbuf (st w) /\ k_state (k s2) = k_state (k (st w))).
Proof.
  intros w body. unfold Fsm.reading, Fsm.read_cmd_char.
  destruct (io_read (io w)) as [io' r]. destruct r as [ch|].
  - cbn [negb fst Fsm.busy]. split; [reflexivity|]. right.
    match goal with |- context [upd_st _ (set_st ?s2 ?w1)] => exists s2 end.
    split; [reflexivity|].
    match goal with |- context [if ?b then _ else _] => destruct b end; repeat split; reflexivity.
  - cbn [negb fst]. split; [reflexivity|]. left. reflexivity.
Qed.

Theorem C06_error_drains : forall w : world, k_state (k (st w)) = CS_ERROR ->
  6 <= length (cbuf (st w)) ->
  let w' := fst (error_state w) in
  mem (st w') = mem (st w) /\ hs w' = hs w /\
  (k_state (k (st w')) = CS_ERROR \/
   (k_state (k (st w')) = CS_FLUSH_WAIT /\ k_wafter (k (st w')) = CS_AFTER_RESET /\
    firstn 6 (cbuf (st w')) = txt_ERROR ++ [0%N])).
Proof.
  intros w HS HL. cbv zeta. unfold Fsm.error_state.
  match goal with |- context [reading w ?b] => destruct (reading_cases w b) as (H1 & H2) end.
  split; [|split; [exact H1|]].
  - destruct H2 as [E | (s2 & E & P1 & P2 & P3)]; rewrite E; [reflexivity|].
    destruct (k_char (k s2) =? ch_LF)%N; [exact P1|].
    destruct (k_char (k s2) =? ch_CR)%N; exact P1.
  - destruct H2 as [E | (s2 & E & P1 & P2 & P3)]; rewrite E; [left; exact HS|].
    rewrite HS in P3.
    destruct (k_char (k s2) =? ch_LF)%N.
    + right. repeat split.
      change (cbuf (ack_error s2)) with (strncpy_buf (asz s2) txt_ERROR).
      unfold asz. rewrite P2. unfold strncpy_buf.
      destruct (length (cbuf (st w))) as [|[|[|[|[|[|n]]]]]]; try lia. reflexivity.
    + left. destruct (k_char (k s2) =? ch_CR)%N; exact P3.
Qed.

(* a reading step logs the read and nothing else: no handler is called while draining *)
Theorem C06_error_no_call : forall w : world,
  exists r, tr (fst (error_state w)) = ERd r :: tr w.
Proof.
  intros w. unfold Fsm.error_state, Fsm.reading, Fsm.read_cmd_char.
  destruct (io_read (io w)) as [io' r]. exists r. destruct r as [ch|]; reflexivity.
Qed.

End C06.
