(* Lemmas_C12.v — property C12: the parser's behaviour does not depend on how io is scheduled.
   Part A (Section C12, arbitrary oracles): one-step lemmas for every state of both machines —
     a refused read / refused write is a stutter, an accepted write advances the cursor by one,
     a delivered read depends on the oracle only through the byte, every other state neither
     touches io nor depends on it.
   Part B (Section Scripted, the scripted environment of Script.v): stutter simulation between a
     run under arbitrary readiness schedules and the always-ready run, for command-only runs and
     for event-only runs.
   All the work for Properties_C12.v is here. *)
From Coq Require Import List NArith ZArith Bool Arith Lia.
From CatV Require Import Bytes Defs Codec Fsm Script TraceDefs ResolveDefs SchedDefs SkelInv.
Import ListNotations.
Local Open Scope nat_scope.

(* ------------------------------------------------------------------ *)
(* frame lemmas on the pure state functions                            *)
(* ------------------------------------------------------------------ *)

Ltac pbase :=
  cbn [u k set_k set_u set_cbuf set_ubuf set_mem set_fault set_gL set_gS set_gR set_dis_cmd set_dis_grp
       set_fault_flag fst snd
       setk_index setk_partial setk_length setk_position setk_write_size setk_cmd setk_var setk_type
       setk_char setk_state setk_cr setk_hold setk_hold_exit setk_wbuf setk_wstate setk_wafter setk_implicit
       setu_state setu_index setu_position setu_cmd setu_var setu_type setu_wbuf setu_wstate setu_wafter
       setu_ring setu_tail setu_head setu_count
       k_state set_k_index set_k_partial set_k_length set_k_position set_k_write_size set_k_cmd set_k_var
       set_k_type set_k_char set_k_state set_k_cr set_k_hold set_k_hold_exit set_k_wbuf set_k_wstate
       set_k_wafter set_k_implicit
       setg_pos setg_buf setg_var setg_index g_pos g_buf g_cmd g_var g_index] in *.

Ltac dmi :=
  match goal with
  | |- context [match ?x with _ => _ end] =>
    lazymatch x with
    | context [match _ with _ => _ end] => fail
    | _ => idtac
    end;
    lazymatch type of x with
    | (state * _)%type =>
      let H := fresh "Hfr" in
      let rhs := fresh "rhs" in
      evar (rhs : ufsm);
      assert (H : u (fst x) = rhs) by (subst rhs; autorewrite with uf; reflexivity);
      subst rhs; destruct x; cbn [fst] in H
    | _ => destruct x
    end
  end.

Ltac usolve :=
  pbase;
  repeat (first [ reflexivity | congruence | progress autorewrite with uf | dmi ]; pbase).


Ltac dm :=
  match goal with
  | |- context [match ?x with _ => _ end] =>
    lazymatch x with
    | context [match _ with _ => _ end] => fail
    | _ => destruct x
    end
  end.
Ltac wcbn := cbn [Fsm.st Fsm.io Fsm.mu Fsm.hs Fsm.tr Fsm.set_st Fsm.set_io Fsm.set_mu Fsm.set_hs
                  Fsm.logw Fsm.upd_st Fsm.busy fst snd].
Ltac wcbna := cbn [Fsm.st Fsm.io Fsm.mu Fsm.hs Fsm.tr Fsm.set_st Fsm.set_io Fsm.set_mu Fsm.set_hs
                  Fsm.logw Fsm.upd_st Fsm.busy fst snd] in *.

(* the same for the projection k_state (k _) *)
Ltac dmk :=
  match goal with
  | |- context [match ?x with _ => _ end] =>
    lazymatch x with
    | context [match _ with _ => _ end] => fail
    | _ => idtac
    end;
    lazymatch type of x with
    | (state * _)%type =>
      let H := fresh "Hfr" in
      let rhs := fresh "rhs" in
      evar (rhs : cstate);
      assert (H : k_state (k (fst x)) = rhs) by (subst rhs; autorewrite with kf; reflexivity);
      subst rhs; destruct x; cbn [fst] in H
    | _ => destruct x
    end
  end.

Ltac ksolve :=
  pbase;
  repeat (first [ reflexivity | congruence | progress autorewrite with kf | dmk ]; pbase).

Section C12.
Variable D : desc.

Lemma u_start_flush_c : forall a s, u (start_flush_c a s) = u s.
Proof. intros. unfold start_flush_c. usolve. Qed.
Hint Rewrite u_start_flush_c : uf.
Lemma u_start_flush_raw_c : forall a s, u (start_flush_raw_c a s) = u s.
Proof. intros. unfold start_flush_raw_c. usolve. Qed.
Hint Rewrite u_start_flush_raw_c : uf.
Lemma u_ack_error : forall s, u (ack_error s) = u s.
Proof. intros. unfold ack_error. usolve. Qed.
Hint Rewrite u_ack_error : uf.
Lemma u_ack_ok : forall s, u (ack_ok s) = u s.
Proof. intros. unfold ack_ok. usolve. Qed.
Hint Rewrite u_ack_ok : uf.
Lemma u_reset_state : forall s, u (reset_state s) = u s.
Proof. intros. unfold reset_state. usolve. Qed.
Hint Rewrite u_reset_state : uf.
Lemma u_end_with_error : forall s, u (end_with_error ATCMD s) = u s.
Proof. intros. unfold end_with_error. usolve. Qed.
Hint Rewrite u_end_with_error : uf.
Lemma u_end_with_ok : forall s, u (end_with_ok ATCMD s) = u s.
Proof. intros. unfold end_with_ok. usolve. Qed.
Hint Rewrite u_end_with_ok : uf.
Lemma u_set_loop_state : forall b s, u (set_loop_state ATCMD b s) = u s.
Proof. intros. unfold set_loop_state. usolve. Qed.
Hint Rewrite u_set_loop_state : uf.
Lemma u_start_flush_after_ok : forall s, u (start_flush_after_ok ATCMD s) = u s.
Proof. intros. unfold start_flush_after_ok. usolve. Qed.
Hint Rewrite u_start_flush_after_ok : uf.
Lemma u_start_flush_after : forall a b s, u (start_flush_after ATCMD a b s) = u s.
Proof. intros. unfold start_flush_after. usolve. Qed.
Hint Rewrite u_start_flush_after : uf.
Lemma u_put_cur : forall c s, u (put_cur ATCMD c s) = u s.
Proof. intros. unfold put_cur. usolve. Qed.
Hint Rewrite u_put_cur : uf.
Lemma u_print_string : forall s t, u (fst (print_string ATCMD s t)) = u s.
Proof. intros. unfold print_string. usolve. Qed.
Hint Rewrite u_print_string : uf.
Lemma u_print_strings : forall s t, u (fst (print_strings ATCMD s t)) = u s.
Proof. intros. unfold print_strings. usolve. Qed.
Hint Rewrite u_print_strings : uf.
Lemma u_print_response_test : forall s, u (fst (print_response_test D ATCMD s)) = u s.
Proof. intros. unfold print_response_test. usolve. Qed.
Hint Rewrite u_print_response_test : uf.
Lemma u_spf_test : forall s, u (start_processing_format_test_args D ATCMD s) = u s.
Proof. intros. unfold start_processing_format_test_args. usolve. Qed.
Hint Rewrite u_spf_test : uf.
Lemma u_spf_read : forall s, u (start_processing_format_read_args D ATCMD s) = u s.
Proof. intros. unfold start_processing_format_read_args. usolve. Qed.
Hint Rewrite u_spf_read : uf.
Lemma u_next_format_var : forall s, u (fst (next_format_var D ATCMD s)) = u s.
Proof. intros. unfold next_format_var. usolve. Qed.
Hint Rewrite u_next_format_var : uf.
Lemma u_set_cmd_state : forall s i v, u (set_cmd_state s i v) = u s.
Proof. intros. unfold set_cmd_state. usolve. Qed.
Hint Rewrite u_set_cmd_state : uf.
Lemma u_prepare_search_command : forall s, u (prepare_search_command s) = u s.
Proof. intros. unfold prepare_search_command. usolve. Qed.
Hint Rewrite u_prepare_search_command : uf.
Lemma u_prepare_parse_command : forall s, u (prepare_parse_command s) = u s.
Proof. intros. unfold prepare_parse_command. usolve. Qed.
Hint Rewrite u_prepare_parse_command : uf.
Lemma u_update_command : forall s, u (update_command D s) = u s.
Proof. intros. unfold update_command. usolve. Qed.
Hint Rewrite u_update_command : uf.
Lemma u_search_command : forall s, u (search_command D s) = u s.
Proof. intros. unfold search_command. usolve. Qed.
Hint Rewrite u_search_command : uf.
Lemma u_command_found : forall s, u (command_found D s) = u s.
Proof. intros. unfold command_found. usolve. Qed.
Hint Rewrite u_command_found : uf.
Lemma u_start_print_cmd_list : forall s, u (start_print_cmd_list D s) = u s.
Proof. intros. unfold start_print_cmd_list. usolve. Qed.
Hint Rewrite u_start_print_cmd_list : uf.
Lemma u_cmd_list_next_cmd : forall s, u (fst (cmd_list_next_cmd D s)) = u s.
Proof. intros. unfold cmd_list_next_cmd. usolve. Qed.
Hint Rewrite u_cmd_list_next_cmd : uf.
Lemma u_print_current : forall s c x, u (fst (print_current_cmd_full_name s c x)) = u s.
Proof. intros. unfold print_current_cmd_full_name. usolve. Qed.
Hint Rewrite u_print_current : uf.
Lemma u_print_cmd_form : forall s c a x n, u (print_cmd_form s c a x n) = u s.
Proof. intros. unfold print_cmd_form. usolve. Qed.
Hint Rewrite u_print_cmd_form : uf.
Lemma u_print_cmd_list : forall s, u (print_cmd_list D s) = u s.
Proof. intros. unfold print_cmd_list. usolve. Qed.
Hint Rewrite u_print_cmd_list : uf.
Lemma u_enable_hold_state : forall s, u (enable_hold_state s) = u s.
Proof. intros. unfold enable_hold_state. usolve. Qed.
Hint Rewrite u_enable_hold_state : uf.
Lemma u_hold_exit : forall s z, u (fst (hold_exit s z)) = u s.
Proof. intros. unfold hold_exit. usolve. Qed.
Hint Rewrite u_hold_exit : uf.
Lemma u_process_hold_state : forall s, u (process_hold_state s) = u s.
Proof. intros. unfold process_hold_state. usolve. Qed.
Hint Rewrite u_process_hold_state : uf.
Lemma u_process_io_write_wait : forall s, u (process_io_write_wait s) = u s.
Proof. intros. unfold process_io_write_wait. usolve. Qed.
Hint Rewrite u_process_io_write_wait : uf.
Lemma u_format_test_args : forall s, u (format_test_args D ATCMD s) = u s.
Proof. intros. unfold format_test_args. usolve. Qed.
Hint Rewrite u_format_test_args : uf.
Lemma u_apply_edit : forall e s, u (apply_edit ATCMD e s) = u s.
Proof. intros. unfold apply_edit. usolve. Qed.
Hint Rewrite u_apply_edit : uf.
Lemma u_apply_poke : forall s p, u (apply_poke s p) = u s.
Proof. intros. unfold apply_poke. usolve. Qed.
Hint Rewrite u_apply_poke : uf.
Lemma u_fold_poke : forall l s, u (fold_left apply_poke l s) = u s.
Proof. induction l as [|p l IH]; intros s; cbn [fold_left]; [reflexivity|]. rewrite IH. apply u_apply_poke. Qed.
Hint Rewrite u_fold_poke : uf.


(* ---- the event machine's functions never change the command machine's control state ---- *)
Lemma k_unsolicited_reset_state : forall s, k_state (k (unsolicited_reset_state s)) = k_state (k s).
Proof. intros. unfold unsolicited_reset_state. ksolve. Qed.
Hint Rewrite k_unsolicited_reset_state : kf.
Lemma k_end_with_error : forall s, k_state (k (end_with_error UNSOL s)) = k_state (k s).
Proof. intros. unfold end_with_error. ksolve. Qed.
Hint Rewrite k_end_with_error : kf.
Lemma k_end_with_ok : forall s, k_state (k (end_with_ok UNSOL s)) = k_state (k s).
Proof. intros. unfold end_with_ok. ksolve. Qed.
Hint Rewrite k_end_with_ok : kf.
Lemma k_set_loop_state : forall b s, k_state (k (set_loop_state UNSOL b s)) = k_state (k s).
Proof. intros. unfold set_loop_state. ksolve. Qed.
Hint Rewrite k_set_loop_state : kf.
Lemma k_start_flush_u : forall a s, k_state (k (start_flush_u a s)) = k_state (k s).
Proof. intros. unfold start_flush_u. ksolve. Qed.
Hint Rewrite k_start_flush_u : kf.
Lemma k_start_flush_after_ok : forall s, k_state (k (start_flush_after_ok UNSOL s)) = k_state (k s).
Proof. intros. unfold start_flush_after_ok. ksolve. Qed.
Hint Rewrite k_start_flush_after_ok : kf.
Lemma k_start_flush_after : forall a b s, k_state (k (start_flush_after UNSOL a b s)) = k_state (k s).
Proof. intros. unfold start_flush_after. ksolve. Qed.
Hint Rewrite k_start_flush_after : kf.
Lemma k_put_cur : forall c s, k_state (k (put_cur UNSOL c s)) = k_state (k s).
Proof. intros. unfold put_cur. ksolve. Qed.
Hint Rewrite k_put_cur : kf.
Lemma k_print_string : forall s t, k_state (k (fst (print_string UNSOL s t))) = k_state (k s).
Proof. intros. unfold print_string. ksolve. Qed.
Hint Rewrite k_print_string : kf.
Lemma k_print_strings : forall s t, k_state (k (fst (print_strings UNSOL s t))) = k_state (k s).
Proof. intros. unfold print_strings. ksolve. Qed.
Hint Rewrite k_print_strings : kf.
Lemma k_print_response_test : forall s, k_state (k (fst (print_response_test D UNSOL s))) = k_state (k s).
Proof. intros. unfold print_response_test. ksolve. Qed.
Hint Rewrite k_print_response_test : kf.
Lemma k_spf_test : forall s, k_state (k (start_processing_format_test_args D UNSOL s)) = k_state (k s).
Proof. intros. unfold start_processing_format_test_args. ksolve. Qed.
Hint Rewrite k_spf_test : kf.
Lemma k_spf_read : forall s, k_state (k (start_processing_format_read_args D UNSOL s)) = k_state (k s).
Proof. intros. unfold start_processing_format_read_args. ksolve. Qed.
Hint Rewrite k_spf_read : kf.
Lemma k_next_format_var : forall s, k_state (k (fst (next_format_var D UNSOL s))) = k_state (k s).
Proof. intros. unfold next_format_var. ksolve. Qed.
Hint Rewrite k_next_format_var : kf.
Lemma k_format_test_args : forall s, k_state (k (format_test_args D UNSOL s)) = k_state (k s).
Proof. intros. unfold format_test_args. ksolve. Qed.
Hint Rewrite k_format_test_args : kf.
Lemma k_apply_edit : forall e s, k_state (k (apply_edit UNSOL e s)) = k_state (k s).
Proof. intros. unfold apply_edit. ksolve. Qed.
Hint Rewrite k_apply_edit : kf.
Lemma k_apply_poke : forall s p, k_state (k (apply_poke s p)) = k_state (k s).
Proof. intros. unfold apply_poke. ksolve. Qed.
Hint Rewrite k_apply_poke : kf.
Lemma k_fold_poke : forall l s, k_state (k (fold_left apply_poke l s)) = k_state (k s).
Proof. induction l as [|p l IH]; intros s; cbn [fold_left]; [reflexivity|]. rewrite IH. apply k_apply_poke. Qed.
Hint Rewrite k_fold_poke : kf.
Lemma k_hold_exit : forall s z, k_state (k (fst (hold_exit s z))) = k_state (k s).
Proof. intros. unfold hold_exit. ksolve. Qed.
Hint Rewrite k_hold_exit : kf.
Lemma k_push : forall s ci t, k_state (k (fst (push_unsolicited_cmd D s ci t))) = k_state (k s).
Proof. intros. unfold push_unsolicited_cmd. ksolve. Qed.
Hint Rewrite k_push : kf.
Lemma k_pop : forall s, k_state (k (fst (pop_unsolicited_cmd D s))) = k_state (k s).
Proof. intros. unfold pop_unsolicited_cmd. ksolve. Qed.
Hint Rewrite k_pop : kf.
Lemma k_check_unsolicited_buffers : forall s, k_state (k (check_unsolicited_buffers D s)) = k_state (k s).
Proof. intros. unfold check_unsolicited_buffers. ksolve. Qed.
Hint Rewrite k_check_unsolicited_buffers : kf.
Lemma k_uwait : forall s, k_state (k (unsolicited_process_io_write_wait s)) = k_state (k s).
Proof. intros. unfold unsolicited_process_io_write_wait. ksolve. Qed.
Hint Rewrite k_uwait : kf.
Variables ioS muS hS : Type.
Variable io_read : ioS -> ioS * option N.
Variable io_write : ioS -> N -> ioS * bool.
Variable mu_lock : muS -> muS * bool.
Variable mu_unlock : muS -> muS * bool.
Variable h_call : hS -> hreq -> hS * hres.

Local Notation world := (Fsm.world ioS muS hS).
Local Notation st := (Fsm.st ioS muS hS).
Local Notation io := (Fsm.io ioS muS hS).
Local Notation mu := (Fsm.mu ioS muS hS).
Local Notation hs := (Fsm.hs ioS muS hS).
Local Notation tr := (Fsm.tr ioS muS hS).
Local Notation mkWorld := (Fsm.mkWorld ioS muS hS).
Local Notation set_st := (Fsm.set_st ioS muS hS).
Local Notation set_io := (Fsm.set_io ioS muS hS).
Local Notation set_mu := (Fsm.set_mu ioS muS hS).
Local Notation set_hs := (Fsm.set_hs ioS muS hS).
Local Notation logw := (Fsm.logw ioS muS hS).
Local Notation upd_st := (Fsm.upd_st ioS muS hS).
Local Notation busy := (Fsm.busy ioS muS hS).
Local Notation bracket := (Fsm.bracket D ioS muS hS mu_lock mu_unlock).
Local Notation api_trigger := (Fsm.api_trigger D ioS muS hS mu_lock mu_unlock).
Local Notation api_hold_exit := (Fsm.api_hold_exit D ioS muS hS mu_lock mu_unlock).
Local Notation apply_icall := (Fsm.apply_icall D ioS muS hS mu_lock mu_unlock).
Local Notation call_h := (Fsm.call_h D ioS muS hS mu_lock mu_unlock h_call).
Local Notation read_cmd_char := (Fsm.read_cmd_char ioS muS hS io_read).
Local Notation reading := (Fsm.reading ioS muS hS io_read).
Local Notation parse_write_args := (Fsm.parse_write_args D ioS muS hS mu_lock mu_unlock h_call).
Local Notation format_read_args := (Fsm.format_read_args D ioS muS hS mu_lock mu_unlock h_call).
Local Notation process_write_loop := (Fsm.process_write_loop D ioS muS hS mu_lock mu_unlock h_call).
Local Notation process_run_loop := (Fsm.process_run_loop D ioS muS hS mu_lock mu_unlock h_call).
Local Notation process_rt_loop := (Fsm.process_rt_loop D ioS muS hS mu_lock mu_unlock h_call).
Local Notation process_io_write := (Fsm.process_io_write ioS muS hS io_write).
Local Notation unsolicited_process_io_write := (Fsm.unsolicited_process_io_write ioS muS hS io_write).
Local Notation unsolicited_events_service :=
  (Fsm.unsolicited_events_service D ioS muS hS io_write mu_lock mu_unlock h_call).
Local Notation cmd_service :=
  (Fsm.cmd_service D ioS muS hS io_read io_write mu_lock mu_unlock h_call).
Local Notation service_body :=
  (Fsm.service_body D ioS muS hS io_read io_write mu_lock mu_unlock h_call).

(* ------------------------------------------------------------------ *)
(* Part A.1 : the io states                                            *)
(* ------------------------------------------------------------------ *)

Theorem C12_read_refused : forall w io',
  reading_state (k_state (k (st w))) = true ->
  io_read (io w) = (io', None) ->
  cmd_service w = (logw (ERd None) (set_io io' w), ST_OK).
Proof.
  intros w io' R E. unfold Fsm.cmd_service.
  destruct (k_state (k (st w))); try discriminate R;
    unfold Fsm.error_state, Fsm.process_idle_state, Fsm.parse_prefix, Fsm.parse_command,
      Fsm.wait_read_acknowledge, Fsm.wait_test_acknowledge, Fsm.parse_command_args,
      Fsm.reading, Fsm.read_cmd_char; rewrite E; reflexivity.
Qed.

Theorem C12_write_refused_cmd : forall w ch io',
  k_state (k (st w)) = CS_FLUSH ->
  wbuf_char (k_wbuf (k (st w))) (cbuf (st w)) (k_position (k (st w))) = Some ch -> ch <> 0%N ->
  io_write (io w) ch = (io', false) ->
  cmd_service w = (logw (EWr ATCMD ch false) (set_io io' w), ST_BUSY).
Proof.
  intros w ch io' S B Z E. unfold Fsm.cmd_service. rewrite S.
  unfold Fsm.process_io_write. rewrite B.
  destruct (N.eqb_spec ch 0) as [e|_]; [contradiction|]. rewrite E. reflexivity.
Qed.

Theorem C12_write_accepted_cmd : forall w ch io',
  k_state (k (st w)) = CS_FLUSH ->
  wbuf_char (k_wbuf (k (st w))) (cbuf (st w)) (k_position (k (st w))) = Some ch -> ch <> 0%N ->
  io_write (io w) ch = (io', true) ->
  cmd_service w =
    (upd_st (fun s => setk_position (S (k_position (k s))) s)
            (logw (EWr ATCMD ch true) (set_io io' w)), ST_BUSY).
Proof.
  intros w ch io' S B Z E. unfold Fsm.cmd_service. rewrite S.
  unfold Fsm.process_io_write. rewrite B.
  destruct (N.eqb_spec ch 0) as [e|_]; [contradiction|]. rewrite E. reflexivity.
Qed.

Theorem C12_write_refused_uns : forall w ch io',
  u_state (u (st w)) = US_FLUSH ->
  wbuf_char (u_wbuf (u (st w))) (ubuf (st w)) (u_position (u (st w))) = Some ch -> ch <> 0%N ->
  io_write (io w) ch = (io', false) ->
  unsolicited_events_service w = (logw (EWr UNSOL ch false) (set_io io' w), ST_BUSY).
Proof.
  intros w ch io' S B Z E. unfold Fsm.unsolicited_events_service. rewrite S.
  unfold Fsm.unsolicited_process_io_write. rewrite B.
  destruct (N.eqb_spec ch 0) as [e|_]; [contradiction|]. rewrite E. reflexivity.
Qed.

Theorem C12_write_accepted_uns : forall w ch io',
  u_state (u (st w)) = US_FLUSH ->
  wbuf_char (u_wbuf (u (st w))) (ubuf (st w)) (u_position (u (st w))) = Some ch -> ch <> 0%N ->
  io_write (io w) ch = (io', true) ->
  unsolicited_events_service w =
    (upd_st (fun s => setu_position (S (u_position (u s))) s)
            (logw (EWr UNSOL ch true) (set_io io' w)), ST_BUSY).
Proof.
  intros w ch io' S B Z E. unfold Fsm.unsolicited_events_service. rewrite S.
  unfold Fsm.unsolicited_process_io_write. rewrite B.
  destruct (N.eqb_spec ch 0) as [e|_]; [contradiction|]. rewrite E. reflexivity.
Qed.

(* a flush step whose current character is the terminating NUL (or lies outside the buffer)
   does not touch io either *)
Definition flush_end_c (s : state) : state :=
  match wbuf_char (k_wbuf (k s)) (cbuf s) (k_position (k s)) with
  | None => set_fault_flag s
  | Some _ =>
    match k_wstate (k s) with
    | WS_BEFORE => s |> setk_position 0 |> setk_wbuf WB_MAIN |> setk_wstate WS_MAIN
    | WS_MAIN => s |> setk_position 0 |> setk_wbuf (WB_NL (k_cr (k s))) |> setk_wstate WS_AFTER
    | WS_AFTER =>
      let s1 := setk_state (k_wafter (k s)) s in
      if cstate_beq (k_wafter (k s)) CS_AFTER_RESET then set_gR (S (gR s1)) s1 else s1
    end
  end.
Definition flush_end_u (s : state) : state :=
  match wbuf_char (u_wbuf (u s)) (ubuf s) (u_position (u s)) with
  | None => set_fault_flag s
  | Some _ =>
    match u_wstate (u s) with
    | WS_BEFORE => s |> setu_position 0 |> setu_wbuf WB_MAIN |> setu_wstate WS_MAIN
    | WS_MAIN => s |> setu_position 0 |> setu_wbuf (WB_NL (k_cr (k s))) |> setu_wstate WS_AFTER
    | WS_AFTER => setu_state (u_wafter (u s)) s
    end
  end.

(* the character a flush step would write, if any *)
Definition pending_c (s : state) : option N :=
  match wbuf_char (k_wbuf (k s)) (cbuf s) (k_position (k s)) with
  | Some ch => if (ch =? 0)%N then None else Some ch
  | None => None
  end.
Definition pending_u (s : state) : option N :=
  match wbuf_char (u_wbuf (u s)) (ubuf s) (u_position (u s)) with
  | Some ch => if (ch =? 0)%N then None else Some ch
  | None => None
  end.

Lemma pending_c_some : forall s ch, pending_c s = Some ch ->
  wbuf_char (k_wbuf (k s)) (cbuf s) (k_position (k s)) = Some ch /\ ch <> 0%N.
Proof.
  unfold pending_c. intros s ch H.
  destruct (wbuf_char (k_wbuf (k s)) (cbuf s) (k_position (k s))) as [c|]; [|discriminate].
  destruct (N.eqb_spec c 0); [discriminate|]. inversion H; subst. split; [reflexivity|assumption].
Qed.
Lemma pending_u_some : forall s ch, pending_u s = Some ch ->
  wbuf_char (u_wbuf (u s)) (ubuf s) (u_position (u s)) = Some ch /\ ch <> 0%N.
Proof.
  unfold pending_u. intros s ch H.
  destruct (wbuf_char (u_wbuf (u s)) (ubuf s) (u_position (u s))) as [c|]; [|discriminate].
  destruct (N.eqb_spec c 0); [discriminate|]. inversion H; subst. split; [reflexivity|assumption].
Qed.

Lemma flush_end_cmd : forall w, k_state (k (st w)) = CS_FLUSH -> pending_c (st w) = None ->
  cmd_service w = busy (upd_st flush_end_c w).
Proof.
  intros w S P. unfold Fsm.cmd_service. rewrite S. unfold Fsm.process_io_write.
  unfold pending_c in P. unfold Fsm.busy, Fsm.upd_st, flush_end_c.
  destruct (wbuf_char (k_wbuf (k (st w))) (cbuf (st w)) (k_position (k (st w)))) as [c|]; [|reflexivity].
  destruct (c =? 0)%N; [reflexivity|discriminate].
Qed.
Lemma flush_end_uns : forall w, u_state (u (st w)) = US_FLUSH -> pending_u (st w) = None ->
  unsolicited_events_service w = busy (upd_st flush_end_u w).
Proof.
  intros w S P. unfold Fsm.unsolicited_events_service. rewrite S. unfold Fsm.unsolicited_process_io_write.
  unfold pending_u in P. unfold Fsm.busy, Fsm.upd_st, flush_end_u.
  destruct (wbuf_char (u_wbuf (u (st w))) (ubuf (st w)) (u_position (u (st w)))) as [c|]; [|reflexivity].
  destruct (c =? 0)%N; [reflexivity|discriminate].
Qed.

(* a flush step whose current character is the NUL terminator (or lies outside the buffer) only
   moves to the next part of the response: no io, and no dependence on the io state *)
Theorem C12_flush_no_char_cmd : forall w x, k_state (k (st w)) = CS_FLUSH ->
  (wbuf_char (k_wbuf (k (st w))) (cbuf (st w)) (k_position (k (st w))) = None \/
   wbuf_char (k_wbuf (k (st w))) (cbuf (st w)) (k_position (k (st w))) = Some 0%N) ->
  cmd_service (set_io x w) = (set_io x (fst (cmd_service w)), snd (cmd_service w)) /\
  io (fst (cmd_service w)) = io w.
Proof.
  intros w x S H.
  assert (P : pending_c (st w) = None) by (unfold pending_c; destruct H as [H|H]; rewrite H; reflexivity).
  rewrite (flush_end_cmd w S P). rewrite (flush_end_cmd (set_io x w) S P). split; reflexivity.
Qed.

Theorem C12_flush_no_char_uns : forall w x, u_state (u (st w)) = US_FLUSH ->
  (wbuf_char (u_wbuf (u (st w))) (ubuf (st w)) (u_position (u (st w))) = None \/
   wbuf_char (u_wbuf (u (st w))) (ubuf (st w)) (u_position (u (st w))) = Some 0%N) ->
  unsolicited_events_service (set_io x w) =
    (set_io x (fst (unsolicited_events_service w)), snd (unsolicited_events_service w)) /\
  io (fst (unsolicited_events_service w)) = io w.
Proof.
  intros w x S H.
  assert (P : pending_u (st w) = None) by (unfold pending_u; destruct H as [H|H]; rewrite H; reflexivity).
  rewrite (flush_end_uns w S P). rewrite (flush_end_uns (set_io x w) S P). split; reflexivity.
Qed.

(* ------------------------------------------------------------------ *)
(* Part A.2 : the states that do not touch io                          *)
(* ------------------------------------------------------------------ *)

Section Sim.
(* T relates the traces of the two worlds; instances: equality, equality of the visible parts *)
Variable T : list event -> list event -> Prop.
Hypothesis T_cons : forall e t1 t2, T t1 t2 -> T (e :: t1) (e :: t2).

(* two worlds that agree on everything except the io oracle state (i1 / i2) and, up to T, the trace *)
Inductive simw (i1 i2 : ioS) : world -> world -> Prop :=
| simw_intro : forall s m h t1 t2, T t1 t2 ->
    simw i1 i2 (mkWorld s i1 m h t1) (mkWorld s i2 m h t2).

Definition simr {A : Type} (i1 i2 : ioS) (p1 p2 : world * A) : Prop :=
  exists w1 w2 r, p1 = (w1, r) /\ p2 = (w2, r) /\ simw i1 i2 w1 w2.

Ltac tfin := repeat apply T_cons; assumption.
Ltac sfin :=
  first [ solve [constructor; tfin]
        | solve [do 3 eexists; split; [reflexivity | split; [reflexivity | constructor; tfin]]] ].
Ltac sgo := wcbn; repeat (first [sfin | dm]; wcbn).

Lemma apply_icall_sim : forall i1 i2 w1 w2 c, simw i1 i2 w1 w2 ->
  simw i1 i2 (apply_icall w1 c) (apply_icall w2 c).
Proof.
  intros i1 i2 w1 w2 c H. destruct H.
  unfold Fsm.apply_icall, Fsm.api_trigger, Fsm.api_hold_exit, Fsm.bracket.
  destruct c; sgo.
Qed.

Lemma fold_icall_sim : forall i1 i2 l w1 w2, simw i1 i2 w1 w2 ->
  simw i1 i2 (fold_left apply_icall l w1) (fold_left apply_icall l w2).
Proof.
  intros i1 i2 l. induction l as [|c l IH]; intros w1 w2 H.
  - exact H.
  - cbn [fold_left]. apply IH. apply apply_icall_sim. exact H.
Qed.

Lemma call_h_sim : forall i1 i2 w1 w2 q, simw i1 i2 w1 w2 -> simr i1 i2 (call_h w1 q) (call_h w2 q).
Proof.
  intros i1 i2 w1 w2 q H. destruct H. unfold Fsm.call_h. wcbn.
  destruct (h_call h q) as [hs' r].
  do 3 eexists. split; [reflexivity|]. split; [reflexivity|].
  apply fold_icall_sim. wcbn. sfin.
Qed.

Ltac scall :=
  match goal with
  | |- simr _ _ ?L ?R =>
    match L with context [call_h ?a ?q] =>
      match R with context [call_h ?b q] =>
        let E1 := fresh "E1" in let E2 := fresh "E2" in let S := fresh "S" in
        let a' := fresh "wa" in let b' := fresh "wb" in let r := fresh "r" in
        destruct (call_h_sim _ _ a b q ltac:(constructor; tfin)) as (a' & b' & r & E1 & E2 & S);
        rewrite E1, E2; clear E1 E2; destruct S
      end
    end
  end.
Ltac sgo2 := wcbn; repeat (first [sfin | scall | dm]; wcbn).

Lemma parse_write_args_sim : forall i1 i2 w1 w2, simw i1 i2 w1 w2 ->
  simr i1 i2 (parse_write_args w1) (parse_write_args w2).
Proof. intros i1 i2 w1 w2 H. destruct H. unfold Fsm.parse_write_args. sgo2. Qed.

Lemma format_read_args_sim : forall i1 i2 f w1 w2, simw i1 i2 w1 w2 ->
  simr i1 i2 (format_read_args f w1) (format_read_args f w2).
Proof. intros i1 i2 f w1 w2 H. destruct H. unfold Fsm.format_read_args. sgo2. Qed.

Lemma process_write_loop_sim : forall i1 i2 w1 w2, simw i1 i2 w1 w2 ->
  simr i1 i2 (process_write_loop w1) (process_write_loop w2).
Proof. intros i1 i2 w1 w2 H. destruct H. unfold Fsm.process_write_loop. sgo2. Qed.

Lemma process_run_loop_sim : forall i1 i2 w1 w2, simw i1 i2 w1 w2 ->
  simr i1 i2 (process_run_loop w1) (process_run_loop w2).
Proof. intros i1 i2 w1 w2 H. destruct H. unfold Fsm.process_run_loop. sgo2. Qed.

Lemma process_rt_loop_sim : forall i1 i2 rd f w1 w2, simw i1 i2 w1 w2 ->
  simr i1 i2 (process_rt_loop rd f w1) (process_rt_loop rd f w2).
Proof. intros i1 i2 rd f w1 w2 H. destruct H. unfold Fsm.process_rt_loop. sgo2. Qed.

Lemma cmd_service_sim : forall i1 i2 w1 w2, simw i1 i2 w1 w2 ->
  reading_state (k_state (k (st w1))) = false -> k_state (k (st w1)) <> CS_FLUSH ->
  simr i1 i2 (cmd_service w1) (cmd_service w2).
Proof.
  intros i1 i2 w1 w2 H R F. unfold Fsm.cmd_service.
  assert (E : st w2 = st w1) by (destruct H; reflexivity). rewrite E.
  destruct (k_state (k (st w1))); try discriminate R; try congruence;
    first [ apply parse_write_args_sim; exact H
          | apply format_read_args_sim; exact H
          | apply process_write_loop_sim; exact H
          | apply process_run_loop_sim; exact H
          | apply process_rt_loop_sim; exact H
          | destruct H; sgo ].
Qed.

Lemma uns_service_sim : forall i1 i2 w1 w2, simw i1 i2 w1 w2 ->
  u_state (u (st w1)) <> US_FLUSH ->
  simr i1 i2 (unsolicited_events_service w1) (unsolicited_events_service w2).
Proof.
  intros i1 i2 w1 w2 H F. unfold Fsm.unsolicited_events_service.
  assert (E : st w2 = st w1) by (destruct H; reflexivity). rewrite E.
  destruct (u_state (u (st w1))); try congruence;
    first [ apply format_read_args_sim; exact H
          | apply process_rt_loop_sim; exact H
          | destruct H; sgo ].
Qed.

End Sim.

Lemma simw_eq_set_io : forall x w, simw eq x (io w) (set_io x w) w.
Proof. intros x w. destruct w. constructor. reflexivity. Qed.

Theorem C12_no_io_cmd : forall w x,
  reading_state (k_state (k (st w))) = false -> k_state (k (st w)) <> CS_FLUSH ->
  cmd_service (set_io x w) = (set_io x (fst (cmd_service w)), snd (cmd_service w)) /\
  io (fst (cmd_service w)) = io w.
Proof.
  intros w x R F.
  destruct (cmd_service_sim eq (fun e t1 t2 H => f_equal (cons e) H) x (io w) (set_io x w) w
              (simw_eq_set_io x w) R F) as (w1 & w2 & r & E1 & E2 & S).
  rewrite E1, E2. destruct S as [s m h t1 t2 HT]. subst t2. split; reflexivity.
Qed.

Theorem C12_no_io_uns : forall w x,
  u_state (u (st w)) <> US_FLUSH ->
  unsolicited_events_service (set_io x w) =
    (set_io x (fst (unsolicited_events_service w)), snd (unsolicited_events_service w)) /\
  io (fst (unsolicited_events_service w)) = io w.
Proof.
  intros w x F.
  destruct (uns_service_sim eq (fun e t1 t2 H => f_equal (cons e) H) x (io w) (set_io x w) w
              (simw_eq_set_io x w) F) as (w1 & w2 & r & E1 & E2 & S).
  rewrite E1, E2. destruct S as [s m h t1 t2 HT]. subst t2. split; reflexivity.
Qed.

(* ------------------------------------------------------------------ *)
(* Part A.3 : a read that delivers a byte                              *)
(* ------------------------------------------------------------------ *)

(* what read_cmd_char does to the object state with a delivered byte *)
Definition rd_pre (s : state) (ch : N) : state :=
  let ch' := if cstate_beq (k_state (k s)) CS_PARSE_COMMAND_ARGS then ch else to_upper ch in
  let s1 := setk_char ch' s in
  if (ch' =? ch_LF)%N && negb (cstate_beq (k_state (k s)) CS_IDLE) then set_gL (S (gL s1)) s1 else s1.

Lemma reading_delivered : forall w body io' ch, io_read (io w) = (io', Some ch) ->
  reading w body =
    (mkWorld (body (k_char (k (rd_pre (st w) ch))) (rd_pre (st w) ch)) io' (mu w) (hs w)
             (ERd (Some ch) :: tr w), ST_BUSY).
Proof.
  intros w body io' ch E. unfold Fsm.reading, Fsm.read_cmd_char. rewrite E. reflexivity.
Qed.

Lemma reading_refused : forall w body io', io_read (io w) = (io', None) ->
  reading w body = (logw (ERd None) (set_io io' w), ST_OK).
Proof.
  intros w body io' E. unfold Fsm.reading, Fsm.read_cmd_char. rewrite E. reflexivity.
Qed.

(* in a reading state the step is `reading` with a body that depends on the control state only *)
Lemma cmd_reading_body : forall x, reading_state x = true ->
  exists body, forall w, k_state (k (st w)) = x -> cmd_service w = reading w body.
Proof.
  intros x R. destruct x; try discriminate R; eexists; intros w E; unfold Fsm.cmd_service; rewrite E;
    reflexivity.
Qed.

(* the step function of a delivered byte on the object state *)
Lemma cmd_read_delivered_step : forall x, reading_state x = true ->
  exists F : state -> N -> state, forall w io' ch, k_state (k (st w)) = x ->
    io_read (io w) = (io', Some ch) ->
    cmd_service w = (mkWorld (F (st w) ch) io' (mu w) (hs w) (ERd (Some ch) :: tr w), ST_BUSY).
Proof.
  intros x R. destruct (cmd_reading_body x R) as [body HB].
  exists (fun s ch => body (k_char (k (rd_pre s ch))) (rd_pre s ch)).
  intros w io' ch E1 E2. rewrite (HB w E1). apply reading_delivered. exact E2.
Qed.

Theorem C12_read_delivered : forall w1 w2 io1 io2 ch,
  reading_state (k_state (k (st w1))) = true ->
  st w1 = st w2 -> hs w1 = hs w2 -> mu w1 = mu w2 ->
  io_read (io w1) = (io1, Some ch) -> io_read (io w2) = (io2, Some ch) ->
  st (fst (cmd_service w1)) = st (fst (cmd_service w2)) /\
  hs (fst (cmd_service w1)) = hs (fst (cmd_service w2)) /\
  snd (cmd_service w1) = snd (cmd_service w2).
Proof.
  intros w1 w2 io1 io2 ch R Es Eh Em E1 E2.
  destruct (cmd_read_delivered_step _ R) as [F HF].
  rewrite (HF w1 io1 ch eq_refl E1).
  rewrite (HF w2 io2 ch (f_equal (fun s => k_state (k s)) (eq_sym Es)) E2).
  cbn [fst snd Fsm.st Fsm.hs]. rewrite Es, Eh. repeat split; reflexivity.
Qed.

(* ------------------------------------------------------------------ *)
(* the command machine never touches the event machine's record,       *)
(* as long as handlers make no inner trigger calls                     *)
(* ------------------------------------------------------------------ *)

Section UFrameW.
Variable P : hS -> Prop.
Hypothesis P_call : forall h q, P h ->
  P (fst (h_call h q)) /\ res_no_trigger (snd (h_call h q)) = true.

Definition ufr (w0 w : world) : Prop := P (hs w) /\ u (st w) = u (st w0).

Lemma apply_icall_u : forall w c,
  match c with ITrigger _ _ => false | _ => true end = true ->
  u (st (apply_icall w c)) = u (st w) /\ hs (apply_icall w c) = hs w.
Proof.
  intros w c H. destruct c as [ci t|status]; [discriminate H|].
  unfold Fsm.apply_icall, Fsm.api_hold_exit, Fsm.bracket, hold_exit.
  repeat (wcbna; dm); wcbna; split; usolve.
Qed.

Lemma fold_icall_u : forall l w,
  forallb (fun c => match c with ITrigger _ _ => false | _ => true end) l = true ->
  u (st (fold_left apply_icall l w)) = u (st w) /\ hs (fold_left apply_icall l w) = hs w.
Proof.
  induction l as [|c l IH]; intros w H.
  - split; reflexivity.
  - cbn [forallb] in H. apply andb_true_iff in H. destruct H as [H1 H2].
    cbn [fold_left]. destruct (IH (apply_icall w c) H2) as [A B].
    destruct (apply_icall_u w c H1) as [A' B']. split; congruence.
Qed.

Lemma call_h_u : forall w0 w q, ufr w0 w -> ufr w0 (fst (call_h w q)).
Proof.
  intros w0 w q [HP HU]. unfold Fsm.call_h.
  destruct (P_call (hs w) q HP) as [P1 P2].
  destruct (h_call (hs w) q) as [hs' r]. cbn [fst snd] in P1, P2. cbn [fst].
  unfold res_no_trigger in P2.
  match goal with |- ufr _ (fold_left _ _ ?x) => destruct (fold_icall_u (r_calls r) x P2) as [A B] end.
  split; [rewrite B; exact P1|]. rewrite A. wcbna. rewrite u_fold_poke. exact HU.
Qed.

Ltac ucall :=
  match goal with
  | |- ufr ?w0 _ =>
    match goal with
    | |- context [call_h ?w ?q] =>
      let H := fresh "Hc" in
      assert (H : ufr w0 (fst (call_h w q))) by (apply call_h_u; split; wcbna; usolve);
      destruct (call_h w q); cbn [fst] in H; destruct H
    end
  end.
Ltac ufin := split; wcbna; [assumption | usolve].
Ltac ugo := wcbna; repeat (first [solve [ufin] | ucall | dm]; wcbna).

Lemma parse_write_args_u : forall w0 w, ufr w0 w -> ufr w0 (fst (parse_write_args w)).
Proof. intros w0 w [HP HU]. unfold Fsm.parse_write_args. ugo. Qed.
Lemma format_read_args_u : forall w0 w, ufr w0 w -> ufr w0 (fst (format_read_args ATCMD w)).
Proof. intros w0 w [HP HU]. unfold Fsm.format_read_args. ugo. Qed.
Lemma process_write_loop_u : forall w0 w, ufr w0 w -> ufr w0 (fst (process_write_loop w)).
Proof. intros w0 w [HP HU]. unfold Fsm.process_write_loop. ugo. Qed.
Lemma process_run_loop_u : forall w0 w, ufr w0 w -> ufr w0 (fst (process_run_loop w)).
Proof. intros w0 w [HP HU]. unfold Fsm.process_run_loop. ugo. Qed.
Lemma process_rt_loop_u : forall w0 rd w, ufr w0 w -> ufr w0 (fst (process_rt_loop rd ATCMD w)).
Proof. intros w0 rd w [HP HU]. unfold Fsm.process_rt_loop. ugo. Qed.
Lemma process_io_write_u : forall w0 w, ufr w0 w -> ufr w0 (fst (process_io_write w)).
Proof. intros w0 w [HP HU]. unfold Fsm.process_io_write. ugo. Qed.
Lemma reading_u : forall w0 w body, (forall ch s, u (body ch s) = u s) ->
  ufr w0 w -> ufr w0 (fst (reading w body)).
Proof.
  intros w0 w body HB [HP HU]. unfold Fsm.reading, Fsm.read_cmd_char.
  ugo; (split; wcbna; [assumption | rewrite HB; usolve]).
Qed.

Lemma cmd_service_u : forall w0 w, ufr w0 w -> ufr w0 (fst (cmd_service w)).
Proof.
  intros w0 w H. unfold Fsm.cmd_service.
  destruct (k_state (k (st w)));
    first [ apply parse_write_args_u; exact H
          | apply format_read_args_u; exact H
          | apply process_write_loop_u; exact H
          | apply process_run_loop_u; exact H
          | apply process_rt_loop_u; exact H
          | apply process_io_write_u; exact H
          | apply reading_u; [intros ch s; usolve | exact H]
          | destruct H as [HP HU]; ugo ].
Qed.

End UFrameW.

(* ------------------------------------------------------------------ *)
(* the event machine never changes the command machine's control state,*)
(* as long as its handlers never return HOLD                           *)
(* ------------------------------------------------------------------ *)

Section KFrameW.
Variable P : hS -> Prop.
Hypothesis P_call : forall h q, P h ->
  P (fst (h_call h q)) /\ (r_code (snd (h_call h q)) =? RC_HOLD)%Z = false.

Definition kfr (w0 w : world) : Prop := P (hs w) /\ k_state (k (st w)) = k_state (k (st w0)).

Lemma apply_icall_k : forall w c,
  k_state (k (st (apply_icall w c))) = k_state (k (st w)) /\ hs (apply_icall w c) = hs w.
Proof.
  intros w c. destruct c as [ci t|status];
  unfold Fsm.apply_icall, Fsm.api_trigger, Fsm.api_hold_exit, Fsm.bracket.
  - repeat (wcbna; dmk); wcbna; split; ksolve.
  - repeat (wcbna; dmk); wcbna; split; ksolve.
Qed.

Lemma fold_icall_k : forall l w,
  k_state (k (st (fold_left apply_icall l w))) = k_state (k (st w)) /\
  hs (fold_left apply_icall l w) = hs w.
Proof.
  induction l as [|c l IH]; intros w.
  - split; reflexivity.
  - cbn [fold_left]. destruct (IH (apply_icall w c)) as [A B].
    destruct (apply_icall_k w c) as [A' B']. split; congruence.
Qed.

Lemma call_h_k : forall w0 w q, kfr w0 w ->
  kfr w0 (fst (call_h w q)) /\ (r_code (snd (call_h w q)) =? RC_HOLD)%Z = false.
Proof.
  intros w0 w q [HP HU]. unfold Fsm.call_h.
  destruct (P_call (hs w) q HP) as [P1 P2].
  destruct (h_call (hs w) q) as [hs' r]. cbn [fst snd] in P1, P2. cbn [fst snd].
  split; [|exact P2].
  match goal with |- kfr _ (fold_left _ _ ?x) => destruct (fold_icall_k (r_calls r) x) as [A B] end.
  split; [rewrite B; exact P1|]. rewrite A. wcbna. rewrite k_fold_poke. exact HU.
Qed.

Ltac kcall :=
  match goal with
  | |- kfr ?w0 _ =>
    match goal with
    | |- context [call_h ?w ?q] =>
      let H := fresh "Hc" in let Hr := fresh "Hr" in
      assert (H : kfr w0 (fst (call_h w q)) /\ (r_code (snd (call_h w q)) =? RC_HOLD)%Z = false)
        by (apply call_h_k; split; wcbna; ksolve);
      destruct (call_h w q); cbn [fst snd] in H; destruct H as [H Hr]; destruct H;
      try rewrite Hr
    end
  end.
Ltac kfin := split; wcbna; [assumption | ksolve].
Ltac kgo := wcbna; repeat (first [solve [kfin] | kcall | dmk]; wcbna).

Lemma format_read_args_k : forall w0 w, kfr w0 w -> kfr w0 (fst (format_read_args UNSOL w)).
Proof. intros w0 w [HP HU]. unfold Fsm.format_read_args. kgo. Qed.
Lemma process_rt_loop_k : forall w0 rd w, kfr w0 w -> kfr w0 (fst (process_rt_loop rd UNSOL w)).
Proof. intros w0 rd w [HP HU]. unfold Fsm.process_rt_loop. kgo. Qed.
Lemma uns_io_write_k : forall w0 w, kfr w0 w -> kfr w0 (fst (unsolicited_process_io_write w)).
Proof. intros w0 w [HP HU]. unfold Fsm.unsolicited_process_io_write. kgo. Qed.

Lemma uns_service_k : forall w0 w, kfr w0 w -> kfr w0 (fst (unsolicited_events_service w)).
Proof.
  intros w0 w H. unfold Fsm.unsolicited_events_service.
  destruct (u_state (u (st w)));
    first [ apply format_read_args_k; exact H
          | apply process_rt_loop_k; exact H
          | apply uns_io_write_k; exact H
          | destruct H as [HP HU]; kgo ].
Qed.

End KFrameW.
End C12.

(* ================================================================== *)
(* Part B : the scripted environment                                   *)
(* ================================================================== *)

Section Scripted.
Variable D : desc.

Local Notation st := (Fsm.st sio smu shs).
Local Notation io := (Fsm.io sio smu shs).
Local Notation mu := (Fsm.mu sio smu shs).
Local Notation hs := (Fsm.hs sio smu shs).
Local Notation tr := (Fsm.tr sio smu shs).
Local Notation mkWorld := (Fsm.mkWorld sio smu shs).
Local Notation set_io := (Fsm.set_io sio smu shs).
Local Notation logw := (Fsm.logw sio smu shs).
Local Notation upd_st := (Fsm.upd_st sio smu shs).
Local Notation busy := (Fsm.busy sio smu shs).
Local Notation s_cmd := (Fsm.cmd_service D sio smu shs s_read s_write s_lock s_unlock s_call).
Local Notation s_uns := (Fsm.unsolicited_events_service D sio smu shs s_write s_lock s_unlock s_call).

(* ---- the scripted oracles ---- *)
Lemma s_read_some : forall x x' c, s_read x = (x', Some c) -> inq x = c :: inq x'.
Proof.
  intros x x' c H. unfold s_read in H. destruct (pop_bit (rd_sched x)) as [b rs].
  destruct b; [|discriminate H]. destruct (inq x) as [|c0 q]; [discriminate H|].
  inversion H; subst. reflexivity.
Qed.

Lemma s_read_none : forall x x', s_read x = (x', None) -> inq x' = inq x.
Proof.
  intros x x' H. unfold s_read in H. destruct (pop_bit (rd_sched x)) as [b rs].
  destruct b.
  - destruct (inq x) as [|c0 q]; [|discriminate H]. inversion H; subst. reflexivity.
  - inversion H; subst. reflexivity.
Qed.

Lemma s_read_eager : forall y c q, rd_sched y = [] -> inq y = c :: q ->
  s_read y = (mkSio q [] (wr_sched y), Some c).
Proof. intros y c q H1 H2. unfold s_read. rewrite H1, H2. reflexivity. Qed.

Lemma s_write_inq : forall x ch, inq (fst (s_write x ch)) = inq x.
Proof. intros x ch. unfold s_write. destruct (pop_bit (wr_sched x)). reflexivity. Qed.

Lemma s_write_eager : forall y ch, wr_sched y = [] ->
  s_write y ch = (mkSio (inq y) (rd_sched y) [], true).
Proof. intros y ch H. unfold s_write. rewrite H. reflexivity. Qed.

Lemma s_call_ok : forall Pr : hres -> bool, (forall q, Pr (default_res q) = true) ->
  forall h q, script_ok Pr h = true ->
  script_ok Pr (fst (s_call h q)) = true /\ Pr (snd (s_call h q)) = true.
Proof.
  intros Pr Hd. unfold script_ok. induction h as [|[k0 sc] r IH]; intros q H.
  - cbn. split; [reflexivity | apply Hd].
  - cbn [s_call]. cbn [forallb snd] in H. apply andb_true_iff in H. destruct H as [H1 H2].
    destruct (key_eqb k0 (key_of q)).
    + destruct sc as [|x sc'].
      * cbn [fst snd forallb]. rewrite H2. split; [reflexivity | apply Hd].
      * cbn [forallb] in H1. apply andb_true_iff in H1. destruct H1 as [Hx Hs].
        cbn [fst snd forallb]. rewrite Hs, H2. split; [reflexivity | exact Hx].
    + destruct (IH q H2) as [A B]. destruct (s_call r q) as [r' x]. cbn [fst snd] in *.
      cbn [forallb snd]. rewrite H1, A. split; [reflexivity | exact B].
Qed.

(* ---- the simulation relation ---- *)
Definition visT (t1 t2 : list event) : Prop := filter visible t1 = filter visible t2.

Lemma visT_cons : forall e t1 t2, visT t1 t2 -> visT (e :: t1) (e :: t2).
Proof. intros e t1 t2 H. unfold visT in *. cbn [filter]. rewrite H. reflexivity. Qed.

(* w1: the scheduled world; w2: the eager world (its schedules are empty) *)
Definition R (w1 w2 : sworld) : Prop :=
  st w1 = st w2 /\ mu w1 = mu w2 /\ hs w1 = hs w2 /\ visT (tr w1) (tr w2) /\
  inq (io w1) = inq (io w2) /\ rd_sched (io w2) = [] /\ wr_sched (io w2) = [].

Lemma R_core : forall w1 w2, R w1 w2 -> core w1 = core w2.
Proof.
  intros w1 w2 (A & _ & B & C & E & _). unfold core. unfold visT in C. rewrite A, B, C, E. reflexivity.
Qed.

Lemma R_eager : forall w, R w (eager w).
Proof. intros w. destruct w. repeat split. Qed.

Lemma R_simw : forall w1 w2, R w1 w2 -> simw sio smu shs visT (io w1) (io w2) w1 w2.
Proof.
  intros w1 w2 (A & B & C & E & _). destruct w1, w2. cbn in *. subst. constructor. exact E.
Qed.

Lemma R_log_l : forall e w1 w2, visible e = false -> R w1 w2 -> R (logw e w1) w2.
Proof.
  intros e w1 w2 V (A & B & C & E & F). repeat split; try assumption; try apply F.
  unfold visT in *. cbn [Fsm.logw Fsm.tr filter]. rewrite V. exact E.
Qed.

Lemma R_log_r : forall e w1 w2, visible e = false -> R w1 w2 -> R w1 (logw e w2).
Proof.
  intros e w1 w2 V (A & B & C & E & F). repeat split; try assumption; try apply F.
  unfold visT in *. cbn [Fsm.logw Fsm.tr filter]. rewrite V. exact E.
Qed.

(* the event machine is idle and has nothing queued; the handler scripts never trigger *)
Definition InvC (w : sworld) : Prop :=
  u_state (u (st w)) = US_IDLE /\ u_count (u (st w)) = 0 /\ script_ok res_no_trigger (hs w) = true.

Lemma svc_cmd_only : forall w, d_mutex D = false ->
  u_state (u (st w)) = US_IDLE -> u_count (u (st w)) = 0 ->
  exists r, svc D w = logw (ERet OService r) (fst (s_cmd w)).
Proof.
  intros w M U C. unfold svc, Fsm.step, Fsm.do_op, Fsm.api_service, Fsm.bracket. rewrite M.
  unfold Fsm.service_body. unfold Fsm.unsolicited_events_service at 1. rewrite U.
  unfold ring_empty. rewrite C. cbn [Nat.eqb negb].
  destruct (s_cmd w) as [w2 s]. cbn [fst].
  destruct (negb (ST_OK =? ST_OK)%Z || negb (ustate_beq (u_state (u (st w2))) US_IDLE));
    eexists; reflexivity.
Qed.

Lemma InvC_cmd : forall w, InvC w -> InvC (fst (s_cmd w)).
Proof.
  intros w (U & C & S).
  assert (H : ufr sio smu shs (fun h => script_ok res_no_trigger h = true) w (fst (s_cmd w))).
  { apply cmd_service_u.
    - intros h q Hh. apply s_call_ok; [|exact Hh]. intros q0. destruct q0; reflexivity.
    - split; [exact S | reflexivity]. }
  destruct H as [H1 H2]. unfold InvC. rewrite H2. repeat split; assumption.
Qed.

Lemma InvC_svc : forall w, d_mutex D = false -> InvC w -> InvC (svc D w).
Proof.
  intros w M I. pose proof (InvC_cmd w I) as I'. destruct I as (U & C & S).
  destruct (svc_cmd_only w M U C) as [r E]. rewrite E. exact I'.
Qed.

Lemma InvC_R : forall w1 w2, R w1 w2 -> InvC w1 -> InvC w2.
Proof. intros w1 w2 (A & _ & B & _) I. unfold InvC in *. rewrite <- A, <- B. exact I. Qed.

(* one step of the command machine: a stutter of the scheduled world, or the same step in both *)
Lemma cmd_step_cases : forall w1 w2, R w1 w2 ->
  R (fst (s_cmd w1)) w2 \/ R (fst (s_cmd w1)) (fst (s_cmd w2)).
Proof.
  intros w1 w2 HR. pose proof HR as (A & B & C & E & F & G1 & G2).
  destruct (reading_state (k_state (k (st w1)))) eqn:RS.
  - (* a reading state *)
    destruct (s_read (io w1)) as [io1 [c|]] eqn:E1.
    + right.
      destruct (cmd_read_delivered_step D sio smu shs s_read s_write s_lock s_unlock s_call _ RS)
        as [Fn HF].
      pose proof (s_read_some _ _ _ E1) as Q.
      assert (E2 : s_read (io w2) = (mkSio (inq io1) [] (wr_sched (io w2)), Some c)).
      { apply s_read_eager; [exact G1 | rewrite <- F; exact Q]. }
      rewrite (HF w1 _ _ eq_refl E1).
      rewrite (HF w2 _ _ (f_equal (fun s => k_state (k s)) (eq_sym A)) E2).
      cbn [fst]. unfold R. cbn [Fsm.st Fsm.io Fsm.mu Fsm.hs Fsm.tr inq rd_sched wr_sched].
      rewrite A. repeat split; try assumption. apply visT_cons. exact E.
    + left.
      rewrite (C12_read_refused D sio smu shs s_read s_write s_lock s_unlock s_call w1 io1 RS E1).
      cbn [fst]. apply R_log_l; [reflexivity|].
      pose proof (s_read_none _ _ E1) as Q.
      unfold R. cbn [Fsm.st Fsm.io Fsm.mu Fsm.hs Fsm.tr Fsm.set_io]. rewrite Q.
      repeat split; assumption.
  - destruct (cstate_eq_dec (k_state (k (st w1))) CS_FLUSH) as [FL|NF].
    + (* the flush state *)
      assert (FL2 : k_state (k (st w2)) = CS_FLUSH) by (rewrite <- A; exact FL).
      destruct (pending_c (st w1)) as [ch|] eqn:PC.
      * destruct (pending_c_some _ _ PC) as [WB NZ].
        assert (WB2 : wbuf_char (k_wbuf (k (st w2))) (cbuf (st w2)) (k_position (k (st w2))) = Some ch)
          by (rewrite <- A; exact WB).
        destruct (s_write (io w1) ch) as [io1 b] eqn:E1.
        pose proof (s_write_inq (io w1) ch) as Q. rewrite E1 in Q. cbn [fst] in Q.
        destruct b.
        -- right.
           rewrite (C12_write_accepted_cmd D sio smu shs s_read s_write s_lock s_unlock s_call
                      w1 ch io1 FL WB NZ E1).
           rewrite (C12_write_accepted_cmd D sio smu shs s_read s_write s_lock s_unlock s_call
                      w2 ch _ FL2 WB2 NZ (s_write_eager (io w2) ch G2)).
           cbn [fst]. unfold R.
           cbn [Fsm.st Fsm.io Fsm.mu Fsm.hs Fsm.tr Fsm.set_io Fsm.upd_st Fsm.set_st Fsm.logw
                inq rd_sched wr_sched].
           rewrite A, Q. repeat split; try assumption. apply visT_cons. exact E.
        -- left.
           rewrite (C12_write_refused_cmd D sio smu shs s_read s_write s_lock s_unlock s_call
                      w1 ch io1 FL WB NZ E1).
           cbn [fst]. apply R_log_l; [reflexivity|].
           unfold R. cbn [Fsm.st Fsm.io Fsm.mu Fsm.hs Fsm.tr Fsm.set_io]. rewrite Q.
           repeat split; assumption.
      * right.
        rewrite (flush_end_cmd D sio smu shs s_read s_write s_lock s_unlock s_call w1 FL PC).
        rewrite (flush_end_cmd D sio smu shs s_read s_write s_lock s_unlock s_call w2 FL2
                   ltac:(rewrite <- A; exact PC)).
        cbn [fst Fsm.busy]. unfold R.
        cbn [Fsm.st Fsm.io Fsm.mu Fsm.hs Fsm.tr Fsm.upd_st Fsm.set_st]. rewrite A.
        repeat split; assumption.
    + (* no io *)
      right.
      destruct (cmd_service_sim D sio smu shs s_read s_write s_lock s_unlock s_call visT visT_cons
                  _ _ w1 w2 (R_simw _ _ HR) RS NF) as (a & b & r & Ea & Eb & S).
      rewrite Ea, Eb. cbn [fst]. destruct S as [s m h t1 t2 HT].
      unfold R. cbn [Fsm.st Fsm.io Fsm.mu Fsm.hs Fsm.tr]. repeat split; assumption.
Qed.

Lemma svc_step_cases : forall w1 w2, d_mutex D = false -> InvC w1 -> R w1 w2 ->
  R (svc D w1) w2 \/ R (svc D w1) (svc D w2).
Proof.
  intros w1 w2 M I HR. pose proof (InvC_R _ _ HR I) as I2.
  destruct I as (U & C & _). destruct I2 as (U2 & C2 & _).
  destruct (svc_cmd_only w1 M U C) as [r1 E1]. destruct (svc_cmd_only w2 M U2 C2) as [r2 E2].
  rewrite E1, E2. destruct (cmd_step_cases w1 w2 HR) as [H|H].
  - left. apply R_log_l; [reflexivity | exact H].
  - right. apply R_log_l; [reflexivity|]. apply R_log_r; [reflexivity | exact H].
Qed.

Lemma nsvc_S : forall n w, nsvc D (S n) w = nsvc D n (svc D w).
Proof. reflexivity. Qed.

Lemma run_sim_cmd : forall n w1 w2, d_mutex D = false -> InvC w1 -> R w1 w2 ->
  exists m, m <= n /\ R (nsvc D n w1) (nsvc D m w2).
Proof.
  induction n as [|n IH]; intros w1 w2 M I HR.
  - exists 0. split; [lia | exact HR].
  - rewrite nsvc_S. pose proof (InvC_svc w1 M I) as I'.
    destruct (svc_step_cases w1 w2 M I HR) as [H|H].
    + destruct (IH _ _ M I' H) as (m & Hm & Hr). exists m. split; [lia | exact Hr].
    + destruct (IH _ _ M I' H) as (m & Hm & Hr). exists (S m). split; [lia|].
      rewrite nsvc_S. exact Hr.
Qed.

Theorem C12_schedule_independent_cmd : forall (w : sworld) n,
  d_mutex D = false ->
  u_state (u (st w)) = US_IDLE -> u_count (u (st w)) = 0 ->
  script_ok res_no_trigger (hs w) = true ->
  exists m, m <= n /\ core (nsvc D n w) = core (nsvc D m (eager w)).
Proof.
  intros w n M U C S.
  destruct (run_sim_cmd n w (eager w) M (conj U (conj C S)) (R_eager w)) as (m & Hm & Hr).
  exists m. split; [exact Hm | apply R_core; exact Hr].
Qed.

(* ---------------- event-only runs ---------------- *)

Definition no_hold (r : hres) : bool := negb (r_code r =? RC_HOLD)%Z.

(* the command machine is idle and there is no input; the handler scripts never return HOLD *)
Definition InvU (w : sworld) : Prop :=
  k_state (k (st w)) = CS_IDLE /\ inq (io w) = [] /\ script_ok no_hold (hs w) = true.

Lemma svc_both : forall w, d_mutex D = false ->
  exists r, svc D w = logw (ERet OService r) (fst (s_cmd (fst (s_uns w)))).
Proof.
  intros w M. unfold svc, Fsm.step, Fsm.do_op, Fsm.api_service, Fsm.bracket. rewrite M.
  unfold Fsm.service_body. destruct (s_uns w) as [w1 us]. cbn [fst].
  destruct (s_cmd w1) as [w2 s]. cbn [fst].
  destruct (negb (us =? ST_OK)%Z || negb (ustate_beq (u_state (u (st w2))) US_IDLE));
    eexists; reflexivity.
Qed.

(* with no input the idle command machine attempts a read and gets nothing *)
Lemma cmd_idle_stutter : forall w, k_state (k (st w)) = CS_IDLE -> inq (io w) = [] ->
  exists io', s_cmd w = (logw (ERd None) (set_io io' w), ST_OK) /\ inq io' = [] /\
              (rd_sched (io w) = [] -> rd_sched io' = []) /\ wr_sched io' = wr_sched (io w).
Proof.
  intros w K Q.
  assert (E : exists io', s_read (io w) = (io', None) /\ inq io' = [] /\
              (rd_sched (io w) = [] -> rd_sched io' = []) /\ wr_sched io' = wr_sched (io w)).
  { unfold s_read. rewrite Q. destruct (rd_sched (io w)) as [|b rs]; cbn [pop_bit].
    - eexists. split; [reflexivity|]. cbn. repeat split.
    - destruct b; eexists; (split; [reflexivity|]); cbn; repeat split; intros; discriminate. }
  destruct E as (io' & E1 & E2 & E3 & E4). exists io'. split; [|repeat split; assumption].
  apply (C12_read_refused D sio smu shs s_read s_write s_lock s_unlock s_call w io'); [|exact E1].
  rewrite K. reflexivity.
Qed.

Lemma s_write_frame : forall x ch,
  inq (fst (s_write x ch)) = inq x /\ rd_sched (fst (s_write x ch)) = rd_sched x.
Proof. intros x ch. unfold s_write. destruct (pop_bit (wr_sched x)). split; reflexivity. Qed.

(* the event machine never touches the input queue *)
Lemma uns_inq : forall w, inq (io (fst (s_uns w))) = inq (io w).
Proof.
  intros w. destruct (ustate_eq_dec (u_state (u (st w))) US_FLUSH) as [FL|NF].
  - destruct (pending_u (st w)) as [ch|] eqn:PU.
    + destruct (pending_u_some _ _ PU) as [WB NZ].
      destruct (s_write (io w) ch) as [io1 b] eqn:E1.
      pose proof (s_write_inq (io w) ch) as Q. rewrite E1 in Q. cbn [fst] in Q.
      destruct b.
      * rewrite (C12_write_accepted_uns D sio smu shs s_write s_lock s_unlock s_call w ch io1 FL WB NZ E1).
        exact Q.
      * rewrite (C12_write_refused_uns D sio smu shs s_write s_lock s_unlock s_call w ch io1 FL WB NZ E1).
        exact Q.
    + rewrite (flush_end_uns D sio smu shs s_write s_lock s_unlock s_call w FL PU). reflexivity.
  - destruct (C12_no_io_uns D sio smu shs s_write s_lock s_unlock s_call w (io w) NF) as [_ H].
    rewrite H. reflexivity.
Qed.

Lemma InvU_uns : forall w, InvU w -> InvU (fst (s_uns w)).
Proof.
  intros w (K & Q & S).
  assert (H : kfr sio smu shs (fun h => script_ok no_hold h = true) w (fst (s_uns w))).
  { apply uns_service_k.
    - intros h q Hh. destruct (s_call_ok no_hold) with (h := h) (q := q) as [A B];
        [intros q0; destruct q0; reflexivity | exact Hh |].
      split; [exact A|]. unfold no_hold in B. apply negb_true_iff in B. exact B.
    - split; [exact S | reflexivity]. }
  destruct H as [H1 H2]. unfold InvU. rewrite H2, uns_inq. repeat split; assumption.
Qed.

Lemma InvU_svc : forall w, d_mutex D = false -> InvU w -> InvU (svc D w).
Proof.
  intros w M I. destruct (svc_both w M) as [r E]. rewrite E.
  destruct (InvU_uns w I) as (K & Q & S).
  destruct (cmd_idle_stutter _ K Q) as (io' & E1 & E2 & _). rewrite E1.
  unfold InvU. cbn [fst Fsm.logw Fsm.set_io Fsm.st Fsm.io Fsm.hs]. repeat split; assumption.
Qed.

Lemma InvU_R : forall w1 w2, R w1 w2 -> InvU w1 -> InvU w2.
Proof.
  intros w1 w2 (A & _ & B & _ & F & _) I. unfold InvU in *. rewrite <- A, <- B, <- F. exact I.
Qed.

(* the idle read on the left / on the right of the relation *)
Lemma R_cmd_l : forall a b, k_state (k (st a)) = CS_IDLE -> inq (io a) = [] ->
  R a b -> R (fst (s_cmd a)) b.
Proof.
  intros a b K Q HR. destruct (cmd_idle_stutter a K Q) as (io' & E1 & E2 & _). rewrite E1.
  cbn [fst]. apply R_log_l; [reflexivity|].
  destruct HR as (A & B & C & E & F & G). unfold R.
  cbn [Fsm.set_io Fsm.st Fsm.io Fsm.mu Fsm.hs Fsm.tr]. rewrite E2, <- F, Q.
  repeat split; try assumption; apply G.
Qed.

Lemma R_cmd_r : forall a b, k_state (k (st b)) = CS_IDLE -> inq (io b) = [] ->
  R a b -> R a (fst (s_cmd b)).
Proof.
  intros a b K Q HR. destruct (cmd_idle_stutter b K Q) as (io' & E1 & E2 & E3 & E4). rewrite E1.
  cbn [fst]. apply R_log_r; [reflexivity|].
  destruct HR as (A & B & C & E & F & G1 & G2). unfold R.
  cbn [Fsm.set_io Fsm.st Fsm.io Fsm.mu Fsm.hs Fsm.tr]. rewrite E2, E4, F, Q.
  repeat split; try assumption. apply E3. exact G1.
Qed.

(* one step of the event machine: a stutter of the scheduled world, or the same step in both *)
Lemma uns_step_cases : forall w1 w2, R w1 w2 ->
  R (fst (s_uns w1)) w2 \/ R (fst (s_uns w1)) (fst (s_uns w2)).
Proof.
  intros w1 w2 HR. pose proof HR as (A & B & C & E & F & G1 & G2).
  destruct (ustate_eq_dec (u_state (u (st w1))) US_FLUSH) as [FL|NF].
  - assert (FL2 : u_state (u (st w2)) = US_FLUSH) by (rewrite <- A; exact FL).
    destruct (pending_u (st w1)) as [ch|] eqn:PC.
    + destruct (pending_u_some _ _ PC) as [WB NZ].
      assert (WB2 : wbuf_char (u_wbuf (u (st w2))) (ubuf (st w2)) (u_position (u (st w2))) = Some ch)
        by (rewrite <- A; exact WB).
      destruct (s_write (io w1) ch) as [io1 b] eqn:E1.
      pose proof (s_write_inq (io w1) ch) as Q. rewrite E1 in Q. cbn [fst] in Q.
      destruct b.
      * right.
        rewrite (C12_write_accepted_uns D sio smu shs s_write s_lock s_unlock s_call
                   w1 ch io1 FL WB NZ E1).
        rewrite (C12_write_accepted_uns D sio smu shs s_write s_lock s_unlock s_call
                   w2 ch _ FL2 WB2 NZ (s_write_eager (io w2) ch G2)).
        cbn [fst]. unfold R.
        cbn [Fsm.st Fsm.io Fsm.mu Fsm.hs Fsm.tr Fsm.set_io Fsm.upd_st Fsm.set_st Fsm.logw
             inq rd_sched wr_sched].
        rewrite A, Q. repeat split; try assumption. apply visT_cons. exact E.
      * left.
        rewrite (C12_write_refused_uns D sio smu shs s_write s_lock s_unlock s_call
                   w1 ch io1 FL WB NZ E1).
        cbn [fst]. apply R_log_l; [reflexivity|].
        unfold R. cbn [Fsm.st Fsm.io Fsm.mu Fsm.hs Fsm.tr Fsm.set_io]. rewrite Q.
        repeat split; assumption.
    + right.
      rewrite (flush_end_uns D sio smu shs s_write s_lock s_unlock s_call w1 FL PC).
      rewrite (flush_end_uns D sio smu shs s_write s_lock s_unlock s_call w2 FL2
                 ltac:(rewrite <- A; exact PC)).
      cbn [fst Fsm.busy]. unfold R.
      cbn [Fsm.st Fsm.io Fsm.mu Fsm.hs Fsm.tr Fsm.upd_st Fsm.set_st]. rewrite A.
      repeat split; assumption.
  - right.
    destruct (uns_service_sim D sio smu shs s_write s_lock s_unlock s_call visT visT_cons
                _ _ w1 w2 (R_simw _ _ HR) NF) as (a & b & r & Ea & Eb & S).
    rewrite Ea, Eb. cbn [fst]. destruct S as [s m h t1 t2 HT].
    unfold R. cbn [Fsm.st Fsm.io Fsm.mu Fsm.hs Fsm.tr]. repeat split; assumption.
Qed.

Lemma svc_step_cases_uns : forall w1 w2, d_mutex D = false -> InvU w1 -> R w1 w2 ->
  R (svc D w1) w2 \/ R (svc D w1) (svc D w2).
Proof.
  intros w1 w2 M I HR. pose proof (InvU_R _ _ HR I) as I2.
  destruct (svc_both w1 M) as [r1 E1]. destruct (svc_both w2 M) as [r2 E2].
  rewrite E1, E2.
  destruct (InvU_uns w1 I) as (K1 & Q1 & _). destruct (InvU_uns w2 I2) as (K2 & Q2 & _).
  destruct (uns_step_cases w1 w2 HR) as [H|H].
  - left. apply R_log_l; [reflexivity|]. apply R_cmd_l; assumption.
  - right. apply R_log_l; [reflexivity|]. apply R_log_r; [reflexivity|].
    apply R_cmd_l; [assumption..|]. apply R_cmd_r; assumption.
Qed.

Lemma run_sim_uns : forall n w1 w2, d_mutex D = false -> InvU w1 -> R w1 w2 ->
  exists m, m <= n /\ R (nsvc D n w1) (nsvc D m w2).
Proof.
  induction n as [|n IH]; intros w1 w2 M I HR.
  - exists 0. split; [lia | exact HR].
  - rewrite nsvc_S. pose proof (InvU_svc w1 M I) as I'.
    destruct (svc_step_cases_uns w1 w2 M I HR) as [H|H].
    + destruct (IH _ _ M I' H) as (m & Hm & Hr). exists m. split; [lia | exact Hr].
    + destruct (IH _ _ M I' H) as (m & Hm & Hr). exists (S m). split; [lia|].
      rewrite nsvc_S. exact Hr.
Qed.

Theorem C12_schedule_independent_uns : forall (w : sworld) n,
  d_mutex D = false -> k_state (k (st w)) = CS_IDLE -> inq (io w) = [] ->
  script_ok (fun r => negb (r_code r =? RC_HOLD)%Z) (hs w) = true ->
  exists m, m <= n /\ core (nsvc D n w) = core (nsvc D m (eager w)).
Proof.
  intros w n M K Q S.
  destruct (run_sim_uns n w (eager w) M (conj K (conj Q S)) (R_eager w)) as (m & Hm & Hr).
  exists m. split; [exact Hm | apply R_core; exact Hr].
Qed.

End Scripted.
