(* Properties_C04.v — property C04: the numeric argument decoders (decimal signed,
   decimal unsigned, hexadecimal) accept exactly the well-formed, in-range texts and
   store exactly the mathematical value; for ALL inputs, no length bound.
   Proofs are in Lemmas_C04.v. *)
From Coq Require Import List NArith ZArith Bool Arith.
From CatV Require Import Bytes Defs Codec Spec Lemmas_C04.
Import ListNotations.
Local Open Scope N_scope.

(* 1. the three scanners, against the grammar and the unbounded value *)
Theorem C04_parse_uint : forall f t tail,
  field_ok f = true -> is_term t = true ->
  if uint_grammar f && (dec_value f <=? max_u64)
  then parse_uint (f ++ t :: tail) = (SOk (t =? ch_COMMA), dec_value f, S (length f))
  else fst (fst (parse_uint (f ++ t :: tail))) = SErr.
Proof. exact Lemmas_C04.C04_parse_uint. Qed.
Print Assumptions C04_parse_uint.

(* in particular SFault (signed overflow, undefined behaviour in C) is never produced *)
Theorem C04_parse_int : forall f t tail,
  field_ok f = true -> is_term t = true ->
  if int_grammar f && (Z.abs (int_value f) <=? max_i64)%Z
  then parse_int (f ++ t :: tail) = (SOk (t =? ch_COMMA), int_value f, S (length f))
  else fst (fst (parse_int (f ++ t :: tail))) = SErr.
Proof. exact Lemmas_C04.C04_parse_int. Qed.
Print Assumptions C04_parse_int.

Theorem C04_parse_hex : forall f t tail,
  field_ok f = true -> is_term t = true ->
  if hex_grammar f && (hex_value f <=? max_u64)
  then parse_hex (f ++ t :: tail) = (SOk (t =? ch_COMMA), hex_value f, S (length f))
  else fst (fst (parse_hex (f ++ t :: tail))) = SErr.
Proof. exact Lemmas_C04.C04_parse_hex. Qed.
Print Assumptions C04_parse_hex.

(* 2. the full decoder of one argument: stored iff well-formed and in range, else untouched *)
Theorem C04_numeric : forall v f t tail data,
  is_numeric (v_type v) = true -> v_access v <> RO ->
  field_ok f = true -> is_term t = true -> (v_size v <= length data)%nat ->
  decode_var v (f ++ t :: tail) data =
    if num_accepts v f
    then (SOk (t =? ch_COMMA), num_encode v f ++ skipn (v_size v) data, v_size v, S (length f))
    else (SErr, data, O, snd (decode_var v (f ++ t :: tail) data)).
Proof. exact Lemmas_C04.C04_numeric. Qed.
Print Assumptions C04_numeric.

(* 3. what is stored is the mathematical value, in exactly v_size bytes *)
Theorem C04_stored_value : forall v f rest,
  is_numeric (v_type v) = true -> num_accepts v f = true ->
  length (num_encode v f) = v_size v /\
  Forall (fun b => b < 256) (num_encode v f) /\
  num_decode v (num_encode v f ++ rest) = num_value v f.
Proof. exact Lemmas_C04.C04_stored_value. Qed.
Print Assumptions C04_stored_value.

(* 4. a read-only numeric variable is never modified and reports write_size 0
   (decode_var returns (((status, data'), write_size), consumed)) *)
Theorem C04_readonly : forall v l data,
  is_numeric (v_type v) = true -> v_access v = RO ->
  snd (fst (fst (decode_var v l data))) = data /\ snd (fst (decode_var v l data)) = O.
Proof. exact Lemmas_C04.C04_readonly. Qed.
Print Assumptions C04_readonly.
